import Astria.Prelude.Sha256
import Astria.Prelude.Hex
import Astria.Merkle.Model
