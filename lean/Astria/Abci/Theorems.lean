import Astria.Abci.Model
/- Theorems for area `abci` (stub). -/
namespace Astria.Abci

end Astria.Abci
