import Astria.Abci.Model
/-
Lemmas and main theorems about `Astria.Abci` (properties C05 and C06).
The property statements proper are restated in `Astria/Properties/C05.lean`, `C06.lean`.
-/
namespace Astria.Abci
variable {S : Type} (p : Prims S)

/-! ## The execution-state machine -/

theorem checkExecuted_true {e : ExecState} {h : Nat} {e' : ExecState}
    (hh : e.checkExecuted h = (e', true)) :
    ∃ cp, e = .executedBlock h cp ∧ e' = e := by
  cases e <;> simp [ExecState.checkExecuted] at hh
  rename_i h' cp
  split at hh
  · simp at hh; subst_vars; exact ⟨cp, rfl, rfl⟩
  · simp at hh

theorem checkPrepared_true {e : ExecState} {c : CachedProposal} {e' : ExecState}
    (h : e.checkPrepared c = (e', true)) :
    (e = .prepared c ∨ e = .preparedValid c) ∧ e' = .preparedValid c := by
  cases e <;> simp [ExecState.checkPrepared] at h
  all_goals (split at h <;> simp at h; subst_vars; simp)

/-! ## The three execution loops -/
theorem push_ok {st st' : LoopSt S} {s' : S} {t : Tx} {code : Nat}
    (h : st.push s' t code = .ok st') :
    st'.s = s' ∧ st'.done = st.done ++ [(t, code)] ∧ st'.group = t.group ∧
    st'.bsc.curSeq = st.bsc.curSeq + t.seq ∧ st'.bsc.curComet = st.bsc.curComet + t.len ∧
    st'.bsc.maxSeq = st.bsc.maxSeq ∧ st'.bsc.maxComet = st.bsc.maxComet ∧
    st'.bsc.curSeq ≤ st'.bsc.maxSeq ∧ st'.bsc.curComet ≤ st'.bsc.maxComet := by
  unfold LoopSt.push BSC.seqAdd BSC.cometAdd at h
  split at h
  · simp at h
  · rename_i b1 hb1
    split at hb1
    · simp at hb1
    · split at hb1
      · split at h
        · simp at h
        · rename_i b2 hb2
          split at hb2
          · simp at hb2
          · split at hb2
            · simp at hb1 hb2 h
              subst hb1 hb2 h
              simp_all
            · simp at hb2
      · simp at hb1

/-- `push` succeeds whenever both counters stay within their limits (and below `usize::MAX`). -/
theorem push_succeeds (st : LoopSt S) (s' : S) (t : Tx) (code : Nat)
    (hs : st.bsc.curSeq + t.seq ≤ st.bsc.maxSeq) (hsm : st.bsc.maxSeq ≤ usizeMax)
    (hc : st.bsc.curComet + t.len ≤ st.bsc.maxComet) (hcm : st.bsc.maxComet ≤ usizeMax) :
    ∃ st', st.push s' t code = .ok st' := by
  unfold LoopSt.push BSC.seqAdd BSC.cometAdd
  have h1 : ¬ (st.bsc.curSeq + t.seq > usizeMax) := by omega
  have h2 : ¬ (st.bsc.curComet + t.len > usizeMax) := by omega
  simp [h1, hs, h2, hc]

/-- The executed list `l`, run in order from `s`, produces exactly the recorded outcomes (code 0 =
executed, `failedExecutionCode` = failed non-fatally, state untouched) and ends in `s'`. -/
inductive Runs : S → List Executed → S → Prop
  | nil (s : S) : Runs s [] s
  | ok {s s' s'' : S} {t : Tx} {l : List Executed} :
      p.execTx s t = .ok s' → Runs s' l s'' → Runs s ((t, 0) :: l) s''
  | nonfatal {s s'' : S} {t : Tx} {l : List Executed} :
      p.execTx s t = .nonfatal → Runs s l s'' → Runs s ((t, failedExecutionCode) :: l) s''

/-- every transaction's group is at most the group of its predecessor (the first: at most `g`) -/
def GroupChain : Nat → List Executed → Prop
  | _, [] => True
  | g, e :: l => e.1.group ≤ g ∧ GroupChain e.1.group l

def lenSum (l : List Executed) : Nat := (l.map (·.1.len)).sum
def seqSum (l : List Executed) : Nat := (l.map (·.1.seq)).sum

@[simp] theorem lenSum_nil : lenSum [] = 0 := rfl
@[simp] theorem seqSum_nil : seqSum [] = 0 := rfl
@[simp] theorem lenSum_cons (e : Executed) (l) : lenSum (e :: l) = e.1.len + lenSum l := by simp [lenSum]
@[simp] theorem seqSum_cons (e : Executed) (l) : seqSum (e :: l) = e.1.seq + seqSum l := by simp [seqSum]

/-- What one run of a loop added to the loop state. -/
structure Ext (st st' : LoopSt S) (added : List Executed) : Prop where
  done : st'.done = st.done ++ added
  runs : Runs p st.s added st'.s
  chain : GroupChain st.group added
  grp : st'.group ≤ st.group
  comet : st'.bsc.curComet = st.bsc.curComet + lenSum added
  seq : st'.bsc.curSeq = st.bsc.curSeq + seqSum added
  maxC : st'.bsc.maxComet = st.bsc.maxComet
  maxS : st'.bsc.maxSeq = st.bsc.maxSeq
  fitC : st.bsc.curComet ≤ st.bsc.maxComet → st'.bsc.curComet ≤ st'.bsc.maxComet
  fitS : st.bsc.curSeq ≤ st.bsc.maxSeq → st'.bsc.curSeq ≤ st'.bsc.maxSeq

theorem Ext.refl (st : LoopSt S) : Ext p st st [] :=
  ⟨by simp, Runs.nil _, trivial, Nat.le_refl _, by simp, by simp, rfl, rfl, id, id⟩

theorem Ext.step_ok {st st1 st' : LoopSt S} {s' : S} {t : Tx} {added : List Executed}
    (hx : p.execTx st.s t = .ok s') (hg : t.group ≤ st.group)
    (hp : st.push s' t 0 = .ok st1) (he : Ext p st1 st' added) : Ext p st st' ((t, 0) :: added) := by
  obtain ⟨h1, h2, h3, h4, h5, h6, h7, h8, h9⟩ := push_ok hp
  refine ⟨?_, ?_, ?_, ?_, ?_, ?_, ?_, ?_, ?_, ?_⟩
  · rw [he.done, h2]; simp
  · exact Runs.ok hx (h1 ▸ he.runs)
  · exact ⟨hg, h3 ▸ he.chain⟩
  · have := he.grp; omega
  · rw [he.comet, h5]; simp; omega
  · rw [he.seq, h4]; simp; omega
  · rw [he.maxC, h7]
  · rw [he.maxS, h6]
  · intro _; exact he.fitC h9
  · intro _; exact he.fitS h8

theorem Ext.step_nonfatal {st st1 st' : LoopSt S} {t : Tx} {added : List Executed}
    (hx : p.execTx st.s t = .nonfatal) (hg : t.group ≤ st.group)
    (hp : st.push st.s t failedExecutionCode = .ok st1) (he : Ext p st1 st' added) :
    Ext p st st' ((t, failedExecutionCode) :: added) := by
  obtain ⟨h1, h2, h3, h4, h5, h6, h7, h8, h9⟩ := push_ok hp
  refine ⟨?_, ?_, ?_, ?_, ?_, ?_, ?_, ?_, ?_, ?_⟩
  · rw [he.done, h2]; simp
  · exact Runs.nonfatal hx (h1 ▸ he.runs)
  · exact ⟨hg, h3 ▸ he.chain⟩
  · have := he.grp; omega
  · rw [he.comet, h5]; simp; omega
  · rw [he.seq, h4]; simp; omega
  · rw [he.maxC, h7]
  · rw [he.maxS, h6]
  · intro _; exact he.fitC h9
  · intro _; exact he.fitS h8

/-- `prepare_proposal_tx_execution`: whatever the queue and the outcomes, the loop state is
extended by a list of transactions of the queue that ran ok / non-fatally in that order, in group
order, with both counters accounted exactly and within their limits. -/
theorem prepLoop_ext : ∀ (q : List Tx) (st st' : LoopSt S),
    prepLoop p st q = .ok st' → ∃ added, Ext p st st' added ∧ (added.map (·.1)).Sublist q := by
  intro q
  induction q with
  | nil => intro st st' h; simp [prepLoop] at h; subst h; exact ⟨[], Ext.refl p st, by simp⟩
  | cons t ts ih =>
    intro st st' h
    unfold prepLoop at h
    split at h
    · simp at h; subst h; exact ⟨[], Ext.refl p st, by simp⟩
    · split at h
      · obtain ⟨a, ha, hs⟩ := ih _ _ h; exact ⟨a, ha, hs.cons _⟩
      · split at h
        · obtain ⟨a, ha, hs⟩ := ih _ _ h; exact ⟨a, ha, hs.cons _⟩
        · rename_i hg
          have hg' : t.group ≤ st.group := by omega
          split at h
          · rename_i s' hx
            split at h
            · rename_i st1 hp
              obtain ⟨a, ha, hs⟩ := ih _ _ h
              exact ⟨(t, 0) :: a, Ext.step_ok p hx hg' hp ha, by simpa using hs.cons_cons t⟩
            · simp at h
          · rename_i hx
            split at h
            · rename_i st1 hp
              obtain ⟨a, ha, hs⟩ := ih _ _ h
              exact ⟨(t, failedExecutionCode) :: a, Ext.step_nonfatal p hx hg' hp ha, by simpa using hs.cons_cons t⟩
            · simp at h
          · obtain ⟨a, ha, hs⟩ := ih _ _ h; exact ⟨a, ha, hs.cons _⟩
          · obtain ⟨a, ha, hs⟩ := ih _ _ h; exact ⟨a, ha, hs.cons _⟩

/-- `process_proposal_tx_execution` accepts only if every transaction, in order, passes the
sequenced-data check and the group check and executes ok or non-fatally. -/
theorem procLoop_ext : ∀ (txs : List Tx) (st st' : LoopSt S),
    procLoop p st txs = .ok st' → ∃ added, Ext p st st' added ∧ added.map (·.1) = txs := by
  intro txs
  induction txs with
  | nil => intro st st' h; simp [procLoop] at h; subst h; exact ⟨[], Ext.refl p st, by simp⟩
  | cons t ts ih =>
    intro st st' h
    unfold procLoop at h
    split at h
    · simp at h
    · split at h
      · simp at h
      · rename_i hg
        have hg' : t.group ≤ st.group := by omega
        split at h
        · rename_i s' hx
          split at h
          · rename_i st1 hp
            obtain ⟨a, ha, hs⟩ := ih _ _ h
            exact ⟨(t, 0) :: a, Ext.step_ok p hx hg' hp ha, by simp [hs]⟩
          · simp at h
        · rename_i hx
          split at h
          · rename_i st1 hp
            obtain ⟨a, ha, hs⟩ := ih _ _ h
            exact ⟨(t, failedExecutionCode) :: a, Ext.step_nonfatal p hx hg' hp ha, by simp [hs]⟩
          · simp at h
        · simp at h
        · simp at h

/-- Conversely: a list that runs ok / non-fatally in order, respects the group order and fits
both limits is accepted by the process loop, with the same final state and results. -/
theorem procLoop_complete : ∀ (added : List Executed) (st : LoopSt S) (s' : S),
    Runs p st.s added s' → GroupChain st.group added →
    st.bsc.curSeq + seqSum added ≤ st.bsc.maxSeq → st.bsc.maxSeq ≤ usizeMax →
    st.bsc.curComet + lenSum added ≤ st.bsc.maxComet → st.bsc.maxComet ≤ usizeMax →
    ∃ st', procLoop p st (added.map (·.1)) = .ok st' ∧ st'.s = s' ∧ st'.done = st.done ++ added := by
  intro added
  induction added with
  | nil =>
    intro st s' hr _ _ _ _ _
    cases hr
    exact ⟨st, by simp [procLoop], rfl, by simp⟩
  | cons e l ih =>
    intro st s' hr hg hs hsm hc hcm
    obtain ⟨hg1, hg2⟩ := hg
    simp at hs hc
    have hseq : st.bsc.seqHasSpace e.1.seq = true := by
      simp [BSC.seqHasSpace]; omega
    have hgrp : ¬ (e.1.group > st.group) := by omega
    cases hr with
    | ok hx hrest =>
      rename_i s1 t
      obtain ⟨st1, hp⟩ := push_succeeds st s1 t 0 (by simp at hs ⊢; omega) hsm (by simp at hc ⊢; omega) hcm
      obtain ⟨h1, h2, h3, h4, h5, h6, h7, h8, h9⟩ := push_ok hp
      obtain ⟨st', hl, hs', hd⟩ := ih st1 s' (h1 ▸ hrest) (h3 ▸ hg2)
        (by rw [h4, h6]; simp at hs; omega) (by rw [h6]; exact hsm)
        (by rw [h5, h7]; simp at hc; omega) (by rw [h7]; exact hcm)
      refine ⟨st', ?_, hs', ?_⟩
      · simp only [List.map_cons]
        unfold procLoop
        simp at hseq hgrp
        simp [hseq, hgrp, hx, hp, hl]
      · rw [hd, h2]; simp
    | nonfatal hx hrest =>
      rename_i t
      obtain ⟨st1, hp⟩ := push_succeeds st st.s t failedExecutionCode (by simp at hs ⊢; omega) hsm (by simp at hc ⊢; omega) hcm
      obtain ⟨h1, h2, h3, h4, h5, h6, h7, h8, h9⟩ := push_ok hp
      obtain ⟨st', hl, hs', hd⟩ := ih st1 s' (h1 ▸ hrest) (h3 ▸ hg2)
        (by rw [h4, h6]; simp at hs; omega) (by rw [h6]; exact hsm)
        (by rw [h5, h7]; simp at hc; omega) (by rw [h7]; exact hcm)
      refine ⟨st', ?_, hs', ?_⟩
      · simp only [List.map_cons]
        unfold procLoop
        simp at hseq hgrp
        simp [hseq, hgrp, hx, hp, hl]
      · rw [hd, h2]; simp

/-- The finalize loop replays such a list to the same state and results. -/
theorem finLoop_of_runs : ∀ (added : List Executed) (s s' : S) (done : List Executed),
    Runs p s added s' → finLoop p s done (added.map (·.1)) = (s', done ++ added) := by
  intro added
  induction added with
  | nil => intro s s' done hr; cases hr; simp [finLoop]
  | cons e l ih =>
    intro s s' done hr
    cases hr with
    | ok hx hrest =>
      simp only [List.map_cons]; unfold finLoop; simp [hx, ih _ _ _ hrest]
    | nonfatal hx hrest =>
      simp only [List.map_cons]; unfold finLoop; simp [hx, ih _ _ _ hrest]

end Astria.Abci
