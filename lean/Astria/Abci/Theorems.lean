import Astria.Abci.Model
/-
Lemmas and main theorems about `Astria.Abci` (properties C05 and C06).
The property statements proper are restated in `Astria/Properties/C05.lean`, `C06.lean`.
-/
namespace Astria.Abci
variable {S : Type} (p : Prims S)

/-! ## The execution-state machine -/

theorem checkExecuted_true {e : ExecState} {h : Nat} {e' : ExecState}
    (hh : e.checkExecuted h = (e', true)) :
    ∃ cp, e = .executedBlock h cp ∧ e' = e := by
  cases e <;> simp [ExecState.checkExecuted] at hh
  rename_i h' cp
  split at hh
  · simp at hh; subst_vars; exact ⟨cp, rfl, rfl⟩
  · simp at hh

theorem checkPrepared_true {e : ExecState} {c : CachedProposal} {e' : ExecState}
    (h : e.checkPrepared c = (e', true)) :
    (e = .prepared c ∨ e = .preparedValid c) ∧ e' = .preparedValid c := by
  cases e <;> simp [ExecState.checkPrepared] at h
  all_goals (split at h <;> simp at h; subst_vars; simp)

/-! ## The three execution loops -/
theorem push_ok {st st' : LoopSt S} {s' : S} {t : Tx} {code : Nat}
    (h : st.push s' t code = .ok st') :
    st'.s = s' ∧ st'.done = st.done ++ [(t, code)] ∧ st'.group = t.group ∧
    st'.bsc.curSeq = st.bsc.curSeq + t.seq ∧ st'.bsc.curComet = st.bsc.curComet + t.len ∧
    st'.bsc.maxSeq = st.bsc.maxSeq ∧ st'.bsc.maxComet = st.bsc.maxComet ∧
    st'.bsc.curSeq ≤ st'.bsc.maxSeq ∧ st'.bsc.curComet ≤ st'.bsc.maxComet := by
  unfold LoopSt.push BSC.seqAdd BSC.cometAdd at h
  split at h
  · simp at h
  · rename_i b1 hb1
    split at hb1
    · simp at hb1
    · split at hb1
      · split at h
        · simp at h
        · rename_i b2 hb2
          split at hb2
          · simp at hb2
          · split at hb2
            · simp at hb1 hb2 h
              subst hb1 hb2 h
              simp_all
            · simp at hb2
      · simp at hb1

/-- `push` succeeds whenever both counters stay within their limits (and below `usize::MAX`). -/
theorem push_succeeds (st : LoopSt S) (s' : S) (t : Tx) (code : Nat)
    (hs : st.bsc.curSeq + t.seq ≤ st.bsc.maxSeq) (hsm : st.bsc.maxSeq ≤ usizeMax)
    (hc : st.bsc.curComet + t.len ≤ st.bsc.maxComet) (hcm : st.bsc.maxComet ≤ usizeMax) :
    ∃ st', st.push s' t code = .ok st' := by
  unfold LoopSt.push BSC.seqAdd BSC.cometAdd
  have h1 : ¬ (st.bsc.curSeq + t.seq > usizeMax) := by omega
  have h2 : ¬ (st.bsc.curComet + t.len > usizeMax) := by omega
  simp [h1, hs, h2, hc]

/-- The executed list `l`, run in order from `s`, produces exactly the recorded outcomes (code 0 =
executed, `failedExecutionCode` = failed non-fatally, state untouched) and ends in `s'`. -/
inductive Runs : S → List Executed → S → Prop
  | nil (s : S) : Runs s [] s
  | ok {s s' s'' : S} {t : Tx} {l : List Executed} :
      p.execTx s t = .ok s' → Runs s' l s'' → Runs s ((t, 0) :: l) s''
  | nonfatal {s s'' : S} {t : Tx} {l : List Executed} :
      p.execTx s t = .nonfatal → Runs s l s'' → Runs s ((t, failedExecutionCode) :: l) s''

/-- every transaction's group is at most the group of its predecessor (the first: at most `g`) -/
def GroupChain : Nat → List Executed → Prop
  | _, [] => True
  | g, e :: l => e.1.group ≤ g ∧ GroupChain e.1.group l

def lenSum (l : List Executed) : Nat := (l.map (·.1.len)).sum
def seqSum (l : List Executed) : Nat := (l.map (·.1.seq)).sum

@[simp] theorem lenSum_nil : lenSum [] = 0 := rfl
@[simp] theorem seqSum_nil : seqSum [] = 0 := rfl
@[simp] theorem lenSum_cons (e : Executed) (l) : lenSum (e :: l) = e.1.len + lenSum l := by simp [lenSum]
@[simp] theorem seqSum_cons (e : Executed) (l) : seqSum (e :: l) = e.1.seq + seqSum l := by simp [seqSum]

/-- What one run of a loop added to the loop state. -/
structure Ext (st st' : LoopSt S) (added : List Executed) : Prop where
  done : st'.done = st.done ++ added
  runs : Runs p st.s added st'.s
  chain : GroupChain st.group added
  grp : st'.group ≤ st.group
  comet : st'.bsc.curComet = st.bsc.curComet + lenSum added
  seq : st'.bsc.curSeq = st.bsc.curSeq + seqSum added
  maxC : st'.bsc.maxComet = st.bsc.maxComet
  maxS : st'.bsc.maxSeq = st.bsc.maxSeq
  fitC : st.bsc.curComet ≤ st.bsc.maxComet → st'.bsc.curComet ≤ st'.bsc.maxComet
  fitS : st.bsc.curSeq ≤ st.bsc.maxSeq → st'.bsc.curSeq ≤ st'.bsc.maxSeq

theorem Ext.refl (st : LoopSt S) : Ext p st st [] :=
  ⟨by simp, Runs.nil _, trivial, Nat.le_refl _, by simp, by simp, rfl, rfl, id, id⟩

theorem Ext.step_ok {st st1 st' : LoopSt S} {s' : S} {t : Tx} {added : List Executed}
    (hx : p.execTx st.s t = .ok s') (hg : t.group ≤ st.group)
    (hp : st.push s' t 0 = .ok st1) (he : Ext p st1 st' added) : Ext p st st' ((t, 0) :: added) := by
  obtain ⟨h1, h2, h3, h4, h5, h6, h7, h8, h9⟩ := push_ok hp
  refine ⟨?_, ?_, ?_, ?_, ?_, ?_, ?_, ?_, ?_, ?_⟩
  · rw [he.done, h2]; simp
  · exact Runs.ok hx (h1 ▸ he.runs)
  · exact ⟨hg, h3 ▸ he.chain⟩
  · have := he.grp; omega
  · rw [he.comet, h5]; simp; omega
  · rw [he.seq, h4]; simp; omega
  · rw [he.maxC, h7]
  · rw [he.maxS, h6]
  · intro _; exact he.fitC h9
  · intro _; exact he.fitS h8

theorem Ext.step_nonfatal {st st1 st' : LoopSt S} {t : Tx} {added : List Executed}
    (hx : p.execTx st.s t = .nonfatal) (hg : t.group ≤ st.group)
    (hp : st.push st.s t failedExecutionCode = .ok st1) (he : Ext p st1 st' added) :
    Ext p st st' ((t, failedExecutionCode) :: added) := by
  obtain ⟨h1, h2, h3, h4, h5, h6, h7, h8, h9⟩ := push_ok hp
  refine ⟨?_, ?_, ?_, ?_, ?_, ?_, ?_, ?_, ?_, ?_⟩
  · rw [he.done, h2]; simp
  · exact Runs.nonfatal hx (h1 ▸ he.runs)
  · exact ⟨hg, h3 ▸ he.chain⟩
  · have := he.grp; omega
  · rw [he.comet, h5]; simp; omega
  · rw [he.seq, h4]; simp; omega
  · rw [he.maxC, h7]
  · rw [he.maxS, h6]
  · intro _; exact he.fitC h9
  · intro _; exact he.fitS h8

/-- `prepare_proposal_tx_execution`: whatever the queue and the outcomes, the loop state is
extended by a list of transactions of the queue that ran ok / non-fatally in that order, in group
order, with both counters accounted exactly and within their limits. -/
theorem prepLoop_ext : ∀ (q : List Tx) (st st' : LoopSt S),
    prepLoop p st q = .ok st' → ∃ added, Ext p st st' added ∧ (added.map (·.1)).Sublist q := by
  intro q
  induction q with
  | nil => intro st st' h; simp [prepLoop] at h; subst h; exact ⟨[], Ext.refl p st, by simp⟩
  | cons t ts ih =>
    intro st st' h
    unfold prepLoop at h
    split at h
    · simp at h; subst h; exact ⟨[], Ext.refl p st, by simp⟩
    · split at h
      · obtain ⟨a, ha, hs⟩ := ih _ _ h; exact ⟨a, ha, hs.cons _⟩
      · split at h
        · obtain ⟨a, ha, hs⟩ := ih _ _ h; exact ⟨a, ha, hs.cons _⟩
        · rename_i hg
          have hg' : t.group ≤ st.group := by omega
          split at h
          · rename_i s' hx
            split at h
            · rename_i st1 hp
              obtain ⟨a, ha, hs⟩ := ih _ _ h
              exact ⟨(t, 0) :: a, Ext.step_ok p hx hg' hp ha, by simpa using hs.cons_cons t⟩
            · simp at h
          · rename_i hx
            split at h
            · rename_i st1 hp
              obtain ⟨a, ha, hs⟩ := ih _ _ h
              exact ⟨(t, failedExecutionCode) :: a, Ext.step_nonfatal p hx hg' hp ha, by simpa using hs.cons_cons t⟩
            · simp at h
          · obtain ⟨a, ha, hs⟩ := ih _ _ h; exact ⟨a, ha, hs.cons _⟩
          · obtain ⟨a, ha, hs⟩ := ih _ _ h; exact ⟨a, ha, hs.cons _⟩

/-- `process_proposal_tx_execution` accepts only if every transaction, in order, passes the
sequenced-data check and the group check and executes ok or non-fatally. -/
theorem procLoop_ext : ∀ (txs : List Tx) (st st' : LoopSt S),
    procLoop p st txs = .ok st' → ∃ added, Ext p st st' added ∧ added.map (·.1) = txs := by
  intro txs
  induction txs with
  | nil => intro st st' h; simp [procLoop] at h; subst h; exact ⟨[], Ext.refl p st, by simp⟩
  | cons t ts ih =>
    intro st st' h
    unfold procLoop at h
    split at h
    · simp at h
    · split at h
      · simp at h
      · rename_i hg
        have hg' : t.group ≤ st.group := by omega
        split at h
        · rename_i s' hx
          split at h
          · rename_i st1 hp
            obtain ⟨a, ha, hs⟩ := ih _ _ h
            exact ⟨(t, 0) :: a, Ext.step_ok p hx hg' hp ha, by simp [hs]⟩
          · simp at h
        · rename_i hx
          split at h
          · rename_i st1 hp
            obtain ⟨a, ha, hs⟩ := ih _ _ h
            exact ⟨(t, failedExecutionCode) :: a, Ext.step_nonfatal p hx hg' hp ha, by simp [hs]⟩
          · simp at h
        · simp at h
        · simp at h

/-- Conversely: a list that runs ok / non-fatally in order, respects the group order and fits
both limits is accepted by the process loop, with the same final state and results. -/
theorem procLoop_complete : ∀ (added : List Executed) (st : LoopSt S) (s' : S),
    Runs p st.s added s' → GroupChain st.group added →
    st.bsc.curSeq + seqSum added ≤ st.bsc.maxSeq → st.bsc.maxSeq ≤ usizeMax →
    st.bsc.curComet + lenSum added ≤ st.bsc.maxComet → st.bsc.maxComet ≤ usizeMax →
    ∃ st', procLoop p st (added.map (·.1)) = .ok st' ∧ st'.s = s' ∧ st'.done = st.done ++ added := by
  intro added
  induction added with
  | nil =>
    intro st s' hr _ _ _ _ _
    cases hr
    exact ⟨st, by simp [procLoop], rfl, by simp⟩
  | cons e l ih =>
    intro st s' hr hg hs hsm hc hcm
    obtain ⟨hg1, hg2⟩ := hg
    simp at hs hc
    have hseq : st.bsc.seqHasSpace e.1.seq = true := by
      simp [BSC.seqHasSpace]; omega
    have hgrp : ¬ (e.1.group > st.group) := by omega
    cases hr with
    | ok hx hrest =>
      rename_i s1 t
      obtain ⟨st1, hp⟩ := push_succeeds st s1 t 0 (by simp at hs ⊢; omega) hsm (by simp at hc ⊢; omega) hcm
      obtain ⟨h1, h2, h3, h4, h5, h6, h7, h8, h9⟩ := push_ok hp
      obtain ⟨st', hl, hs', hd⟩ := ih st1 s' (h1 ▸ hrest) (h3 ▸ hg2)
        (by rw [h4, h6]; simp at hs; omega) (by rw [h6]; exact hsm)
        (by rw [h5, h7]; simp at hc; omega) (by rw [h7]; exact hcm)
      refine ⟨st', ?_, hs', ?_⟩
      · simp only [List.map_cons]
        unfold procLoop
        simp at hseq hgrp
        simp [hseq, hgrp, hx, hp, hl]
      · rw [hd, h2]; simp
    | nonfatal hx hrest =>
      rename_i t
      obtain ⟨st1, hp⟩ := push_succeeds st st.s t failedExecutionCode (by simp at hs ⊢; omega) hsm (by simp at hc ⊢; omega) hcm
      obtain ⟨h1, h2, h3, h4, h5, h6, h7, h8, h9⟩ := push_ok hp
      obtain ⟨st', hl, hs', hd⟩ := ih st1 s' (h1 ▸ hrest) (h3 ▸ hg2)
        (by rw [h4, h6]; simp at hs; omega) (by rw [h6]; exact hsm)
        (by rw [h5, h7]; simp at hc; omega) (by rw [h7]; exact hcm)
      refine ⟨st', ?_, hs', ?_⟩
      · simp only [List.map_cons]
        unfold procLoop
        simp at hseq hgrp
        simp [hseq, hgrp, hx, hp, hl]
      · rw [hd, h2]; simp

/-- The finalize loop replays such a list to the same state and results. -/
theorem finLoop_of_runs : ∀ (added : List Executed) (s s' : S) (done : List Executed),
    Runs p s added s' → finLoop p s done (added.map (·.1)) = (s', done ++ added) := by
  intro added
  induction added with
  | nil => intro s s' done hr; cases hr; simp [finLoop]
  | cons e l ih =>
    intro s s' done hr
    cases hr with
    | ok hx hrest =>
      simp only [List.map_cons]; unfold finLoop; simp [hx, ih _ _ _ hrest]
    | nonfatal hx hrest =>
      simp only [List.map_cons]; unfold finLoop; simp [hx, ih _ _ _ hrest]

/-! ## prepare_proposal -/

theorem cometAdd_ok {b b' : BSC} {n : Nat} (h : b.cometAdd n = .ok b') :
    b'.curComet = b.curComet + n ∧ b'.maxComet = b.maxComet ∧ b'.curSeq = b.curSeq ∧
    b'.maxSeq = b.maxSeq ∧ b'.curComet ≤ b'.maxComet := by
  unfold BSC.cometAdd at h
  split at h
  · simp at h
  · split at h
    · simp at h; subst h; simp_all
    · simp at h

theorem BSC_new_ok {m : Int} {b : BSC} (h : BSC.new m = .ok b) :
    0 ≤ m ∧ b.maxComet = m.toNat ∧ b.curComet = commitmentsSize ∧ b.curSeq = 0 ∧
    b.maxSeq = maxSeqBytes ∧ b.curComet ≤ b.maxComet := by
  unfold BSC.new at h
  split at h
  · simp at h
  · split at h
    · simp at h
    · simp at h; subst h; simp; omega

/-- what `prepEci` can return -/
theorem prepEci_ok {s : S} {r : PrepReq} {b b' : BSC} {e : Option Item}
    (h : prepEci p s r b = .ok (e, b')) :
    b'.maxComet = b.maxComet ∧ b'.curSeq = b.curSeq ∧ b'.maxSeq = b.maxSeq ∧
    b'.curComet = b.curComet + (e.toList.map Item.len).sum ∧
    (b.curComet ≤ b.maxComet → b'.curComet ≤ b'.maxComet) ∧
    ((p.veEnabled s r.height = false ∧ e = none) ∨
     (p.veEnabled s r.height = true ∧ ∃ bid len, e = some (.eci bid len true))) := by
  unfold prepEci at h
  split at h
  · rename_i hve
    split at h
    · simp at h
    · split at h
      · rename_i b1 hb1
        simp at h
        obtain ⟨rfl, rfl⟩ := h
        obtain ⟨h1, h2, h3, h4, h5⟩ := cometAdd_ok hb1
        refine ⟨h2, h3, h4, by simp [Item.len, h1], fun _ => h5, Or.inr ⟨hve, _, _, rfl⟩⟩
      · split at h
        · rename_i b1 hb1
          simp at h
          obtain ⟨rfl, rfl⟩ := h
          obtain ⟨h1, h2, h3, h4, h5⟩ := cometAdd_ok hb1
          refine ⟨h2, h3, h4, by simp [Item.len, h1], fun _ => h5, Or.inr ⟨hve, _, _, rfl⟩⟩
        · simp at h
  · rename_i hve
    simp at h
    obtain ⟨rfl, rfl⟩ := h
    simp at hve
    exact ⟨rfl, rfl, rfl, by simp, id, Or.inl ⟨hve, rfl⟩⟩

theorem prepEci_lastCommit {s : S} {r : PrepReq} {b b' : BSC} {e : Option Item}
    (h : prepEci p s r b = .ok (e, b')) (he : e.isSome = true) : r.lastCommit.isSome = true := by
  unfold prepEci at h
  split at h
  · split at h
    · simp at h
    · rename_i hlc; simp [hlc]
  · simp at h; obtain ⟨rfl, _⟩ := h; simp at he

/-- the shape of the items `prepare_proposal` injects after the two commitments: an optional
upgrade-change-hashes item, then the extended commit info iff vote extensions are enabled -/
def InjShape (s : S) (r : PrepReq) (inj : List Item) : Prop :=
  ∃ (up : List Item) (e : Option Item), inj = up ++ e.toList ∧
    (up = [] ∨ ∃ ub ul, up = [Item.upgrade ub ul]) ∧
    ((p.veEnabled s r.height = false ∧ e = none) ∨
     (p.veEnabled s r.height = true ∧ ∃ bid len, e = some (.eci bid len true))) ∧
    (e.isSome = true → r.lastCommit.isSome = true)

theorem prepInjected_ok {s : S} {r : PrepReq} {b b' : BSC} {inj : List Item}
    (h : prepInjected p s r b = .ok (inj, b')) :
    b'.maxComet = b.maxComet ∧ b'.curSeq = b.curSeq ∧ b'.maxSeq = b.maxSeq ∧
    b'.curComet = b.curComet + (inj.map Item.len).sum ∧
    (b.curComet ≤ b.maxComet → b'.curComet ≤ b'.maxComet) ∧ InjShape p s r inj := by
  have eshape : ∀ {bm : BSC} {e : Option Item}, prepEci p s r bm = .ok (e, b') →
      ((p.veEnabled s r.height = false ∧ e = none) ∨
       (p.veEnabled s r.height = true ∧ ∃ bid len, e = some (.eci bid len true))) := by
    intro bm e he
    exact (prepEci_ok p he).2.2.2.2.2
  unfold prepInjected prepInjectedWith at h
  split at h
  · split at h
    · simp at h
    · rename_i e b1 he
      simp at h
      obtain ⟨rfl, rfl⟩ := h
      obtain ⟨e1, e2, e3, e4, e5, _⟩ := prepEci_ok p he
      exact ⟨e1, e2, e3, e4, e5, [], e, by simp, Or.inl rfl, eshape he, prepEci_lastCommit p he⟩
  · rename_i ub ul hup
    split at h
    · simp at h
    · rename_i bm hbm
      split at h
      · simp at h
      · rename_i e b1 he
        simp at h
        obtain ⟨rfl, rfl⟩ := h
        obtain ⟨c1, c2, c3, c4, c5⟩ := cometAdd_ok hbm
        obtain ⟨e1, e2, e3, e4, e5, _⟩ := prepEci_ok p he
        refine ⟨e1.trans c2, e2.trans c3, e3.trans c4, ?_, fun _ => e5 c5, [Item.upgrade ub ul], e, by simp,
          Or.inr ⟨ub, ul, rfl⟩, eshape he, prepEci_lastCommit p he⟩
        rw [e4, c1]; simp [Item.len]; omega

/-- Everything a successful `prepare_proposal` guarantees, in one statement. -/
theorem stepPrepare_spec {a a' : AppState S} {r : PrepReq} {items : List Item}
    (h : stepPrepare p a r = (a', .prepared items)) :
    ∃ (s1 : S) (inj : List Item) (added : List Executed) (bsc0 bsc1 : BSC) (st : LoopSt S),
      p.pre a.committed (r.asBlock []) = .ok s1 ∧
      BSC.new r.maxTxBytes = .ok bsc0 ∧
      prepInjected p s1 r bsc0 = .ok (inj, bsc1) ∧
      prepLoop p (LoopSt.init s1 bsc1) r.queue = .ok st ∧
      Ext p (LoopSt.init s1 bsc1) st added ∧
      (added.map (·.1)).Sublist r.queue ∧
      items = proposalItems (p.roots st.s (added.map (·.1))).1 (p.roots st.s (added.map (·.1))).2 inj added ∧
      a'.work = st.s ∧ a'.executedTxs = some added ∧ a'.exec = .prepared (r.fp items) ∧
      a'.committed = a.committed ∧ a'.postResult = none ∧ a'.writeBatch = a.writeBatch := by
  unfold stepPrepare stepPrepareWith at h
  simp only [AppState.reset] at h
  split at h
  · simp at h
  · rename_i s1 hpre
    split at h
    · simp at h
    · rename_i bsc0 hb
      split at h
      · simp at h
      · rename_i inj bsc1 he
        split at h
        · simp at h
        · rename_i st hl
          obtain ⟨added, hext, hsub⟩ := prepLoop_ext p _ _ _ hl
          have hd : st.done = added := by simpa [LoopSt.init] using hext.done
          simp only [ExecState.setPrepared] at h
          simp at h
          obtain ⟨rfl, rfl⟩ := h
          refine ⟨s1, inj, added, bsc0, bsc1, st, hpre, hb, he, hl, hext, hsub, ?_, rfl, ?_, ?_, rfl, rfl, rfl⟩
          · simp [hd]
          · simp [hd]
          · simp [hd]

theorem itemsLen_proposal (r1 r2 : Nat) (inj : List Item) (done : List Executed) :
    ((proposalItems r1 r2 inj done).map Item.len).sum
      = commitmentsSize + (inj.map Item.len).sum + lenSum done := by
  simp [proposalItems, Item.len, commitmentsSize, lenSum, List.map_map, Function.comp_def]
  omega

/-- C06, limits: the proposal's raw bytes stay within `max_tx_bytes`, its sequenced data within
256 000 bytes. -/
theorem prepare_within_limits {a a' : AppState S} {r : PrepReq} {items : List Item}
    (h : stepPrepare p a r = (a', .prepared items)) :
    0 ≤ r.maxTxBytes ∧ ((items.map Item.len).sum : Int) ≤ r.maxTxBytes ∧
    ∃ added, a'.executedTxs = some added ∧ seqSum added ≤ maxSeqBytes := by
  obtain ⟨s1, inj, added, bsc0, bsc1, st, _, hb, he, _, hext, _, hitems, _, hex, _⟩ := stepPrepare_spec p h
  obtain ⟨hm0, hmax, hcur, hseq0, hms, hfit0⟩ := BSC_new_ok hb
  obtain ⟨e1, e2, e3, e4, e5, _⟩ := prepInjected_ok p he
  have hc := hext.comet
  have hs := hext.seq
  have hfc := hext.fitC (by simpa [LoopSt.init] using e5 hfit0)
  have hfs := hext.fitS (by simp [LoopSt.init, e2, hseq0])
  have hmc := hext.maxC
  have hmsq := hext.maxS
  simp [LoopSt.init] at hc hs hmc hmsq
  refine ⟨hm0, ?_, added, hex, ?_⟩
  · rw [hitems, itemsLen_proposal]
    have : commitmentsSize + (inj.map Item.len).sum + lenSum added ≤ r.maxTxBytes.toNat := by
      rw [hc, e4, hcur, hmc, e1, hmax] at hfc; omega
    omega
  · rw [hs, e2, hseq0, hmsq, e3, hms] at hfs; omega

/-! ## process_proposal / finalize_block building blocks -/

theorem reset_eq_init {a : AppState S} {σ : S} (hc : a.committed = σ) (hw : a.writeBatch = none) :
    a.reset = AppState.init σ := by
  cases a; simp_all [AppState.reset, AppState.init]

@[simp] theorem reset_init (σ : S) : (AppState.init σ).reset = AppState.init σ := rfl

/-- the post-execution outcome recorded in `a`: either the new state and result, or (when the
fallible part failed after the fingerprint was already updated) the old state and no result -/
def PostDone (s : S) (b : Block) (pd : Parsed) (ex : List Executed) (a : AppState S) : Prop :=
  (∃ s' aux, p.post s b ex = .ok (s', aux) ∧ a.work = s' ∧
      a.postResult = some { results := ex, injected := pd.injected, aux := aux }) ∨
  (∃ e, p.post s b ex = .error e ∧ a.work = s ∧ a.postResult = none)

theorem postStep_spec {a a' : AppState S} {b : Block} {pd : Parsed} {ex : List Executed}
    {r : Except Err Unit} (h : postStep p a b pd ex = (a', r)) (hpr : a.postResult = none) :
    (a' = a ∧ ∃ e, r = .error e) ∨
    (∃ hh ex', b.hash = some hh ∧ a.exec.setExecuted hh = .ok ex' ∧ a'.exec = ex' ∧
       a'.committed = a.committed ∧ a'.writeBatch = a.writeBatch ∧ a'.executedTxs = a.executedTxs ∧
       PostDone p a.work b pd ex a' ∧ (r = .ok () ↔ a'.postResult.isSome = true)) := by
  unfold postStep at h
  split at h
  · simp at h; exact Or.inl ⟨h.1.symm, _, h.2.symm⟩
  · rename_i hh hhash
    split at h
    · simp at h; exact Or.inl ⟨h.1.symm, _, h.2.symm⟩
    · rename_i ex' hset
      dsimp only at h
      split at h
      · rename_i e hpost
        simp at h
        obtain ⟨rfl, rfl⟩ := h
        exact Or.inr ⟨hh, ex', hhash, hset, rfl, rfl, rfl, rfl, Or.inr ⟨e, hpost, rfl, hpr⟩, by simp [hpr]⟩
      · rename_i s' aux hpost
        simp at h
        obtain ⟨rfl, rfl⟩ := h
        exact Or.inr ⟨hh, ex', hhash, hset, rfl, rfl, rfl, rfl, Or.inl ⟨s', aux, hpost, rfl, rfl⟩, by simp⟩

/-- `processExec` starts from the committed state whatever the working state was. -/
theorem processExec_init {a : AppState S} {σ : S} (hc : a.committed = σ) (hw : a.writeBatch = none)
    (b : Block) (pd : Parsed) : processExec p a b pd = processExec p (AppState.init σ) b pd := by
  unfold processExec
  rw [reset_eq_init hc hw, reset_init]

theorem processExec_fields (σ : S) (b : Block) (pd : Parsed) :
    (processExec p (AppState.init σ) b pd).1.exec = .unset ∧
    (processExec p (AppState.init σ) b pd).1.committed = σ ∧
    (processExec p (AppState.init σ) b pd).1.writeBatch = none ∧
    (processExec p (AppState.init σ) b pd).1.executedTxs = none ∧
    (processExec p (AppState.init σ) b pd).1.postResult = none := by
  unfold processExec
  simp only [reset_init]
  split
  · simp [AppState.init]
  · split
    · simp [AppState.init]
    · split
      · simp [AppState.init]
      · split
        · simp [AppState.init]
        · try dsimp only
          split
          · simp [AppState.init]
          · split <;> simp [AppState.init]

/-- What a successful `processExec` means: the proposal passed every check of
`process_proposal` short of `post_execute_transactions`. -/
theorem processExec_ok {σ : S} {b : Block} {pd : Parsed} {a1 : AppState S} {ex : List Executed}
    (h : processExec p (AppState.init σ) b pd = (a1, .ok ex)) :
    (pd.eci.isSome = true → b.lastCommit.isSome = true ∧ p.veValid σ b = true) ∧
    ∃ s1 txs st, p.pre σ b = .ok s1 ∧ constructAll p s1 pd.txs = .ok txs ∧
      procLoop p (LoopSt.init s1 BSC.unlimited) txs = .ok st ∧ st.done = ex ∧ a1.work = st.s ∧
      pd.r1 = (p.roots st.s txs).1 ∧ pd.r2 = (p.roots st.s txs).2 := by
  unfold processExec at h
  simp only [reset_init] at h
  split at h
  · simp at h
  · rename_i hve
    split at h
    · simp at h
    · rename_i s1 hpre
      split at h
      · simp at h
      · rename_i txs hcon
        split at h
        · simp at h
        · rename_i st hl
          try dsimp only at h
          split at h
          · simp at h
          · rename_i hr1
            split at h
            · simp at h
            · rename_i hr2
              simp at h
              obtain ⟨rfl, rfl⟩ := h
              refine ⟨?_, s1, txs, st, by simpa [AppState.init] using hpre, hcon, hl, rfl, rfl, by simpa using hr1, by simpa using hr2⟩
              intro heci
              simp [heci] at hve
              split at hve
              · simp at hve
              · rename_i hlc
                by_cases hv : p.veValid (AppState.init σ).work b = true
                · exact ⟨by cases hb : b.lastCommit <;> simp_all, by simpa [AppState.init] using hv⟩
                · simp [hv] at hve
/-- `process_proposal` when the fingerprint does not allow skipping -/
theorem stepProcess_noskip {a : AppState S} {b : Block} {ex1 : ExecState}
    (hck : a.exec.checkPrepared b.fp = (ex1, false)) :
    stepProcess p a b =
      match parseItems (p.veEnabled a.work b.height) b.items with
      | .error e => ({ a with exec := ex1 }, .reject e)
      | .ok pd =>
        match processExec p { a with exec := ex1 } b pd with
        | (a1, .error e) => (a1, .reject e)
        | (a1, .ok ex) =>
          match postStep p a1 b pd ex with
          | (a2, .error e) => (a2, .reject e)
          | (a2, .ok _) => (a2, .accept) := by
  unfold stepProcess
  simp only [hck]
  cases hp : parseItems (p.veEnabled a.work b.height) b.items with
  | error e => simp
  | ok pd =>
    simp
    cases hx : processExec p { a with exec := ex1 } b pd with
    | mk a1 r =>
      cases r with
      | error e => simp
      | ok ex =>
        simp
        cases hq : postStep p a1 b pd ex with
        | mk a2 r2 => cases r2 <;> simp

/-- `process_proposal` when the proposal is byte-for-byte the one this node prepared -/
theorem stepProcess_skip {a : AppState S} {b : Block} {ex1 : ExecState}
    (hck : a.exec.checkPrepared b.fp = (ex1, true)) :
    stepProcess p a b =
      match parseItems (p.veEnabled a.work b.height) b.items with
      | .error e => ({ a with exec := ex1 }, .reject e)
      | .ok pd =>
        match a.executedTxs with
        | none => ({ a with exec := ex1 }, .reject .nocache)
        | some ex =>
          match postStep p { a with exec := ex1 } b pd ex with
          | (a2, .error e) => (a2, .reject e)
          | (a2, .ok _) => (a2, .accept) := by
  unfold stepProcess
  simp only [hck]
  cases hp : parseItems (p.veEnabled a.work b.height) b.items with
  | error e => simp
  | ok pd =>
    simp
    cases hx : a.executedTxs with
    | none => simp
    | some ex =>
      simp
      cases hq : postStep p { a with exec := ex1 } b pd ex with
      | mk a2 r2 => cases r2 <;> rfl
/-! ## ProcessProposal: acceptance is sound (C06) -/

/-- the data items a successfully parsed block consists of -/
theorem parseItems_shape {veOn : Bool} {items : List Item} {pd : Parsed}
    (h : parseItems veOn items = .ok pd) :
    ∃ (up : List Item) (ec : List Item),
      items = [Item.root1 pd.r1, Item.root2 pd.r2] ++ up ++ ec ++ pd.txs ∧
      (up = [] ∨ ∃ u l, up = [Item.upgrade u l]) ∧
      (veOn = true → ∃ bid len, ec = [Item.eci bid len true] ∧ pd.eci = some (bid, len)) ∧
      (veOn = false → ec = [] ∧ pd.eci = none) := by
  unfold parseItems at h
  split at h
  · rename_i a b rest
    split at h
    · rename_i up rest' hm
      split at hm
      · rename_i u ul r'
        simp at hm
        obtain ⟨rfl, rfl⟩ := hm
        split at h
        · rename_i hve
          split at h
          · rename_i bid len wf r
            split at h
            · rename_i hwf
              simp at h; subst h
              exact ⟨[Item.upgrade u ul], [Item.eci bid len true], by simp [hwf], Or.inr ⟨u, ul, rfl⟩,
                fun _ => ⟨bid, len, rfl, rfl⟩, fun hf => by simp [hve] at hf⟩
            · simp at h
          · simp at h
        · rename_i hve
          simp at h; subst h
          exact ⟨[Item.upgrade u ul], [], by simp, Or.inr ⟨u, ul, rfl⟩, fun ht => by simp [ht] at hve,
            fun _ => ⟨rfl, rfl⟩⟩
      · rename_i r'
        simp at hm
        obtain ⟨rfl, rfl⟩ := hm
        split at h
        · rename_i hve
          split at h
          · rename_i bid len wf r
            split at h
            · rename_i hwf
              simp at h; subst h
              exact ⟨[], [Item.eci bid len true], by simp [hwf], Or.inl rfl,
                fun _ => ⟨bid, len, rfl, rfl⟩, fun hf => by simp [hve] at hf⟩
            · simp at h
          · simp at h
        · rename_i hve
          simp at h; subst h
          exact ⟨[], [], by simp, Or.inl rfl, fun ht => by simp [ht] at hve, fun _ => ⟨rfl, rfl⟩⟩
  · simp at h

/-- `construct_checked_txs` succeeds only on a list of constructible transactions -/
theorem constructAll_ok : ∀ {s : S} {items : List Item} {txs : List Tx},
    constructAll p s items = .ok txs →
    items = txs.map Item.tx ∧ ∀ t ∈ txs, p.constructible s t = true := by
  intro s items
  induction items with
  | nil => intro txs h; simp [constructAll] at h; subst h; simp
  | cons it rest ih =>
    intro txs h
    cases it with
    | tx t =>
      unfold constructAll at h
      split at h
      · rename_i hc
        split at h
        · rename_i ts hts
          simp at h; subst h
          obtain ⟨h1, h2⟩ := ih hts
          exact ⟨by simp [h1], by intro t' ht'; simp at ht'; rcases ht' with rfl | ht'; exact hc; exact h2 _ ht'⟩
        · simp at h
      · simp at h
    | _ => simp [constructAll] at h

theorem constructAll_complete : ∀ {s : S} (txs : List Tx),
    (∀ t ∈ txs, p.constructible s t = true) → constructAll p s (txs.map Item.tx) = .ok txs := by
  intro s txs
  induction txs with
  | nil => intro _; simp [constructAll]
  | cons t ts ih =>
    intro h
    simp only [List.map_cons]
    unfold constructAll
    simp [h t (by simp), ih (fun t' ht' => h t' (by simp [ht']))]

/-- **Acceptance is sound.** If a node that cannot skip execution accepts a proposal, then the
data items are in the required order, the extended commit info (if any) validates, every further
item is a transaction constructible at block start, and executing them in order: nothing fails
fatally, the group order holds, the sequenced data stays within 256 000 bytes, both commitments
equal the recomputed ones, and post-execution succeeded. -/
theorem process_accept_sound {a a' : AppState S} {b : Block} {σ : S} {ex1 : ExecState}
    (hc : a.committed = σ) (hw : a.writeBatch = none)
    (hck : a.exec.checkPrepared b.fp = (ex1, false))
    (h : stepProcess p a b = (a', .accept)) :
    ∃ pd s1 added s' hh s'' aux,
      parseItems (p.veEnabled a.work b.height) b.items = .ok pd ∧
      (pd.eci.isSome = true → b.lastCommit.isSome = true ∧ p.veValid σ b = true) ∧
      p.pre σ b = .ok s1 ∧ pd.txs = added.map (fun e => Item.tx e.1) ∧
      (∀ e ∈ added, p.constructible s1 e.1 = true) ∧
      Runs p s1 added s' ∧ GroupChain 4 added ∧ seqSum added ≤ maxSeqBytes ∧
      pd.r1 = (p.roots s' (added.map (·.1))).1 ∧ pd.r2 = (p.roots s' (added.map (·.1))).2 ∧
      b.hash = some hh ∧ p.post s' b added = .ok (s'', aux) ∧
      a'.exec = .executedBlock hh none ∧ a'.work = s'' ∧
      a'.postResult = some { results := added, injected := pd.injected, aux := aux } ∧
      a'.committed = σ ∧ a'.writeBatch = none := by
  rw [stepProcess_noskip p hck] at h
  cases hp : parseItems (p.veEnabled a.work b.height) b.items with
  | error e => simp [hp] at h
  | ok pd =>
    simp only [hp] at h
    have hinit := processExec_init p (a := { a with exec := ex1 }) (σ := σ) hc hw b pd
    rw [hinit] at h
    cases hx : processExec p (AppState.init σ) b pd with
    | mk a1 r =>
      rw [hx] at h
      cases r with
      | error e => simp at h
      | ok ex =>
        simp only at h
        obtain ⟨hf1, hf2, hf3, hf4, hf5⟩ := processExec_fields p σ b pd
        rw [hx] at hf1 hf2 hf3 hf4 hf5
        simp at hf1 hf2 hf3 hf4 hf5
        obtain ⟨hve, s1, txs, st, hpre, hcon, hl, hdone, hwork, hr1, hr2⟩ := processExec_ok p hx
        obtain ⟨added, hext, hmap⟩ := procLoop_ext p _ _ _ hl
        obtain ⟨hitems, hcons⟩ := constructAll_ok p hcon
        have hd : st.done = added := by simpa [LoopSt.init] using hext.done
        cases hq : postStep p a1 b pd ex with
        | mk a2 r2 =>
          rw [hq] at h
          cases r2 with
          | error e => simp at h
          | ok u =>
            simp at h
            subst h
            rcases postStep_spec p hq hf5 with ⟨_, e, he⟩ | ⟨hh, ex', hhash, hset, hex, hcm, hwb, _, hpd, hiff⟩
            · simp at he
            · rw [hf1] at hset
              simp [ExecState.setExecuted] at hset
              rcases hpd with ⟨s'', aux, hpost, hw2, hpr⟩ | ⟨e, hpost, _, hnone⟩
              · have hseq := hext.fitS (by simp [LoopSt.init, BSC.unlimited])
                have hsq := hext.seq
                have hms := hext.maxS
                simp [LoopSt.init, BSC.unlimited] at hsq hms hseq
                refine ⟨pd, s1, added, st.s, hh, s'', aux, rfl, hve, hpre, ?_, ?_, ?_, ?_, ?_, ?_, ?_, hhash, ?_,
                  ?_, hw2, ?_, ?_, ?_⟩
                · rw [hitems, ← hmap]; simp [List.map_map, Function.comp_def]
                · intro e he; exact hcons _ (by rw [← hmap]; exact List.mem_map_of_mem he)
                · simpa [LoopSt.init] using hext.runs
                · simpa [LoopSt.init] using hext.chain
                · rw [hsq, hms] at hseq; simpa [maxSeqBytes] using hseq
                · rw [hmap]; exact hr1
                · rw [hmap]; exact hr2
                · rw [← hdone, hd] at hpost; rw [← hwork]; exact hpost
                · rw [hex, ← hset]
                · rw [hpr, ← hdone, hd]
                · rw [hcm, hf2]
                · rw [hwb, hf3]
              · have : a2.postResult.isSome = true := hiff.mp rfl
                simp [hnone] at this
/-! ## PrepareProposal then ProcessProposal (C06) -/

/-- converse of `processExec_ok` -/
theorem processExec_complete {σ s1 : S} {b : Block} {pd : Parsed} {txs : List Tx} {st : LoopSt S}
    (hv : pd.eci.isSome = true → b.lastCommit.isSome = true ∧ p.veValid σ b = true)
    (hpre : p.pre σ b = .ok s1) (hcon : constructAll p s1 pd.txs = .ok txs)
    (hl : procLoop p (LoopSt.init s1 BSC.unlimited) txs = .ok st)
    (hr1 : pd.r1 = (p.roots st.s txs).1) (hr2 : pd.r2 = (p.roots st.s txs).2) :
    processExec p (AppState.init σ) b pd = ({ (AppState.init σ) with work := st.s }, .ok st.done) := by
  unfold processExec
  simp only [reset_init]
  split
  · rename_i e hve
    exfalso
    by_cases h : pd.eci.isSome = true
    · obtain ⟨h1, h2⟩ := hv h
      simp only [h, if_true] at hve
      cases hb : b.lastCommit with
      | none => simp [hb] at h1
      | some x => simp [hb, AppState.init, h2] at hve
    · simp [h] at hve
  · split
    · rename_i e he; simp [AppState.init, hpre] at he
    · rename_i s1' hs1
      have : s1' = s1 := by
        have := hs1; simp [AppState.init, hpre] at this; exact this.symm
      subst this
      split
      · rename_i e he; simp [hcon] at he
      · rename_i txs' ht
        have : txs' = txs := by simp [hcon] at ht; exact ht.symm
        subst this
        split
        · rename_i e he; simp [hl] at he
        · rename_i st' hst
          have : st' = st := by simp [hl] at hst; exact hst.symm
          subst this
          simp [hr1, hr2]

/-- the proposal parses whenever its extended commit info (if any) is the well-formed one -/
theorem parseItems_proposal {veOn : Bool} (r1 r2 : Nat) {up : List Item} {e : Option Item} (added : List Executed)
    (hup : up = [] ∨ ∃ ub ul, up = [Item.upgrade ub ul])
    (he : (veOn = false ∧ e = none) ∨ (veOn = true ∧ ∃ bid len, e = some (.eci bid len true))) :
    ∃ pd, parseItems veOn (proposalItems r1 r2 (up ++ e.toList) added) = .ok pd ∧ pd.r1 = r1 ∧ pd.r2 = r2 ∧
      pd.txs = added.map (fun e => Item.tx e.1) ∧ (pd.eci.isSome = true → e.isSome = true) := by
  rcases hup with rfl | ⟨ub, ul, rfl⟩ <;> rcases he with ⟨rfl, rfl⟩ | ⟨rfl, bid, len, rfl⟩ <;>
    cases added <;> simp [proposalItems, parseItems]

/-- the block CometBFT builds from a `PrepareProposal` response -/
def PrepReq.proposed (r : PrepReq) (items : List Item) (hash : Nat) : Block :=
  { r.asBlock items with hash := some hash }

theorem proposed_fp (r : PrepReq) (items : List Item) (hash : Nat) :
    (r.proposed items hash).fp = r.fp items := rfl

/-- **Honest proposals are accepted** (partial: under the provisos the unchanged code forces).
`v` is any node on the same committed state whose own fingerprint does not match. -/
theorem prepare_then_process_accepts
    {a a1 : AppState S} {r : PrepReq} {items : List Item} {σ : S} {hash : Nat}
    (hprep : stepPrepare p a r = (a1, .prepared items)) (hσ : a.committed = σ)
    (v : AppState S) (hvc : v.committed = σ) (hvw : v.writeBatch = none) {ex1 : ExecState}
    (hck : v.exec.checkPrepared (r.proposed items hash).fp = (ex1, false))
    -- max_tx_bytes is an i64
    (hi64 : r.maxTxBytes ≤ 2 ^ 63 - 1)
    -- vote-extension enablement at this height does not depend on uncommitted writes
    (hve : ∀ s s', p.veEnabled s r.height = p.veEnabled s' r.height)
    -- pre_execute_transactions depends on the block data only, not on the items / hash
    (hpre : p.pre σ (r.proposed items hash) = p.pre σ (r.asBlock []))
    -- the proposer's own extended commit info validates (C15)
    (hvalid : p.veValid σ (r.proposed items hash) = true)
    -- proviso (F11): every included transaction can be constructed against the block-start state
    (hcons : ∀ s1, p.pre σ (r.asBlock []) = .ok s1 → ∀ t, Item.tx t ∈ items → p.constructible s1 t = true)
    -- post_execute_transactions does not fail on the executed proposal
    (hpost : ∀ ex, a1.executedTxs = some ex → ∃ s'' aux, p.post a1.work (r.proposed items hash) ex = .ok (s'', aux)) :
    (stepProcess p v (r.proposed items hash)).2 = .accept := by
  obtain ⟨s1, inj, added, bsc0, bsc1, st, hpre1, hb, he, hl, hext, hsub, hitems, hwork, hex, hexec, _, _, _⟩ :=
    stepPrepare_spec p hprep
  rw [hσ] at hpre1
  obtain ⟨hm0, hmax, hcur, hseq0, hms, hfit0⟩ := BSC_new_ok hb
  obtain ⟨e1, e2, e3, e4, e5, up, eci, hinj, hup, ecase, hlc⟩ := prepInjected_ok p he
  -- the parse
  have hparse : ∃ pd, parseItems (p.veEnabled v.work (r.proposed items hash).height) (r.proposed items hash).items = .ok pd ∧
      pd.r1 = (p.roots st.s (added.map (·.1))).1 ∧ pd.r2 = (p.roots st.s (added.map (·.1))).2 ∧
      pd.txs = added.map (fun e => Item.tx e.1) ∧ (pd.eci.isSome = true → eci.isSome = true) := by
    have hv : p.veEnabled v.work r.height = p.veEnabled s1 r.height := hve _ _
    show ∃ pd, parseItems (p.veEnabled v.work r.height) items = .ok pd ∧ _
    rw [hv]
    have hcase := ecase
    rw [hitems, hinj]
    exact parseItems_proposal _ _ added hup hcase
  obtain ⟨pd, hpd, hr1, hr2, htxs, heci⟩ := hparse
  rw [stepProcess_noskip p hck, hpd]
  simp only
  rw [processExec_init p (a := { v with exec := ex1 }) (σ := σ) hvc hvw]
  -- the execution
  have hrun : Runs p s1 added st.s := by simpa [LoopSt.init] using hext.runs
  have hchain : GroupChain 4 added := by simpa [LoopSt.init] using hext.chain
  have hc := hext.comet
  have hs := hext.seq
  have hfc := hext.fitC (by simpa [LoopSt.init] using e5 hfit0)
  have hfs := hext.fitS (by simp [LoopSt.init, e2, hseq0])
  have hmc := hext.maxC
  have hmsq := hext.maxS
  simp [LoopSt.init] at hc hs hmc hmsq
  have hseqle : seqSum added ≤ maxSeqBytes := by
    rw [hs, e2, hseq0, hmsq, e3, hms] at hfs; omega
  have hlenle : lenSum added ≤ r.maxTxBytes.toNat := by
    rw [hc, e4, hcur, hmc, e1, hmax] at hfc; omega
  have hu : r.maxTxBytes.toNat ≤ 2 ^ 63 - 1 := by omega
  obtain ⟨st', hpl, hst's, hst'd⟩ := procLoop_complete p added (LoopSt.init s1 BSC.unlimited) st.s
    (by simpa [LoopSt.init] using hrun) (by simpa [LoopSt.init] using hchain)
    (by simp [LoopSt.init, BSC.unlimited]; exact hseqle) (by simp [LoopSt.init, BSC.unlimited, maxSeqBytes, usizeMax])
    (by simp [LoopSt.init, BSC.unlimited, commitmentsSize, usizeMax]; omega) (by simp [LoopSt.init, BSC.unlimited])
  have hconstr : constructAll p s1 pd.txs = .ok (added.map (·.1)) := by
    rw [htxs]
    have := constructAll_complete p (s := s1) (added.map (·.1)) (by
      intro t ht
      apply hcons s1 hpre1 t
      rw [hitems]
      obtain ⟨e, he', rfl⟩ := List.mem_map.mp ht
      exact List.mem_append_right _ (List.mem_map.mpr ⟨e, he', rfl⟩))
    simpa [List.map_map, Function.comp_def] using this
  have hx : processExec p (AppState.init σ) (r.proposed items hash) pd
      = ({ (AppState.init σ) with work := st.s }, .ok added) := by
    have hlc : pd.eci.isSome = true → (r.proposed items hash).lastCommit.isSome = true := by
      intro h; exact hlc (heci h)
    have := processExec_complete p (σ := σ) (b := r.proposed items hash) (pd := pd)
      (fun h => ⟨hlc h, hvalid⟩) (hpre.trans hpre1) hconstr hpl (by rw [hst's]; exact hr1) (by rw [hst's]; exact hr2)
    rw [this, hst's, hst'd]
    simp [LoopSt.init]
  rw [hx]
  simp only
  obtain ⟨s'', aux, hp⟩ := hpost added hex
  rw [hwork] at hp
  unfold postStep
  simp [PrepReq.proposed, AppState.init, ExecState.setExecuted]
  simp [PrepReq.proposed] at hp
  rw [hp]

/-! ## C05: the fingerprint invariant over all call schedules -/

/-- the calls CometBFT may issue at a height before `FinalizeBlock` (plus a node restart) -/
def PreCall : Call → Prop
  | .prepare _ => True
  | .process _ => True
  | .restart => True
  | _ => False

/-- the working state and the cached results are exactly what `prepare_proposal` produced on the
committed state `σ` for a request/response pair whose fingerprint is `c` -/
def PreparedOk (σ : S) (a : AppState S) (c : CachedProposal) : Prop :=
  ∃ r items a0, stepPrepare p (AppState.init σ) r = (a0, .prepared items) ∧ c = r.fp items ∧
    a.work = a0.work ∧ a.executedTxs = a0.executedTxs ∧ a.postResult = none

/-- the working state was produced by executing, on the committed state `σ`, a proposal `b` of this
schedule whose block hash is `h`: either by `process_proposal`'s own execution (`cp = none`) or by
the execution `prepare_proposal` cached for the byte-identical proposal (`cp = some _`), in both
cases followed by `post_execute_transactions` for `b` -/
def ExecutedOk (σ : S) (cs : List Call) (a : AppState S) (h : Nat) (cp : Option CachedProposal) : Prop :=
  ∃ b s0 pd, Call.process b ∈ cs ∧ b.hash = some h ∧
    parseItems (p.veEnabled s0 b.height) b.items = .ok pd ∧
    match cp with
    | none => ∃ a1 ex, processExec p (AppState.init σ) b pd = (a1, .ok ex) ∧ PostDone p a1.work b pd ex a
    | some c => c = b.fp ∧ ∃ r items a0 ex, stepPrepare p (AppState.init σ) r = (a0, .prepared items) ∧
        c = r.fp items ∧ a0.executedTxs = some ex ∧ PostDone p a0.work b pd ex a

def Inv (σ : S) (cs : List Call) (a : AppState S) : Prop :=
  a.committed = σ ∧ a.writeBatch = none ∧
  match a.exec with
  | .prepared c => PreparedOk p σ a c
  | .preparedValid c => PreparedOk p σ a c
  | .executedBlock h cp => ExecutedOk p σ cs a h cp
  | _ => True

theorem Inv_init (σ : S) : Inv p σ [] (AppState.init σ) := by
  simp [Inv, AppState.init]

theorem ExecutedOk_mono {σ : S} {cs cs' : List Call} {a : AppState S} {h : Nat} {cp : Option CachedProposal}
    (hi : ExecutedOk p σ cs a h cp) : ExecutedOk p σ (cs ++ cs') a h cp := by
  obtain ⟨b, s0, pd, hm, rest⟩ := hi
  exact ⟨b, s0, pd, List.mem_append_left _ hm, rest⟩

theorem Inv_mono {σ : S} {cs cs' : List Call} {a : AppState S} (hi : Inv p σ cs a) : Inv p σ (cs ++ cs') a := by
  obtain ⟨h1, h2, h3⟩ := hi
  refine ⟨h1, h2, ?_⟩
  split <;> simp_all
  exact ExecutedOk_mono p h3

/-- an `Inv` that does not look at the fingerprint-specific part -/
theorem Inv_of_trivial {σ : S} {cs : List Call} {a : AppState S} (hc : a.committed = σ) (hw : a.writeBatch = none)
    (he : a.exec = .unset ∨ (∃ c, a.exec = .checkedPreparedMismatch c) ∨ ∃ h cp, a.exec = .checkedExecutedBlockMismatch h cp) :
    Inv p σ cs a := by
  refine ⟨hc, hw, ?_⟩
  rcases he with he | ⟨c, he⟩ | ⟨h, cp, he⟩ <;> simp [he]

theorem checkPrepared_false {e e' : ExecState} {c : CachedProposal}
    (h : e.checkPrepared c = (e', false)) :
    (e' = e ∧ (∀ c', e ≠ .prepared c') ∧ (∀ c', e ≠ .preparedValid c')) ∨ ∃ c', e' = .checkedPreparedMismatch c' := by
  cases e <;> simp [ExecState.checkPrepared] at h
  · exact Or.inl ⟨h.symm, by simp, by simp⟩
  · split at h <;> simp at h; exact Or.inr ⟨_, h.symm⟩
  · split at h <;> simp at h; exact Or.inr ⟨_, h.symm⟩
  · exact Or.inl ⟨h.symm, by simp, by simp⟩
  · exact Or.inl ⟨h.symm, by simp, by simp⟩
  · exact Or.inl ⟨h.symm, by simp, by simp⟩

/-- `prepare_proposal` always starts from the committed state -/
theorem stepPrepare_init {a : AppState S} {σ : S} (hc : a.committed = σ) (hw : a.writeBatch = none) (r : PrepReq) :
    stepPrepare p a r = stepPrepare p (AppState.init σ) r := by
  unfold stepPrepare stepPrepareWith
  rw [reset_eq_init hc hw, reset_init]

theorem stepPrepare_err {σ : S} {r : PrepReq} {a' : AppState S} {resp : Resp S}
    (h : stepPrepare p (AppState.init σ) r = (a', resp)) :
    (∃ items, resp = .prepared items) ∨ (a'.exec = .unset ∧ a'.committed = σ ∧ a'.writeBatch = none) := by
  unfold stepPrepare stepPrepareWith at h
  simp only [reset_init] at h
  split at h
  · simp at h; obtain ⟨rfl, rfl⟩ := h; exact Or.inr ⟨rfl, rfl, rfl⟩
  · split at h
    · simp at h; obtain ⟨rfl, rfl⟩ := h; exact Or.inr ⟨rfl, rfl, rfl⟩
    · split at h
      · simp at h; obtain ⟨rfl, rfl⟩ := h; exact Or.inr ⟨rfl, rfl, rfl⟩
      · split at h
        · simp at h; obtain ⟨rfl, rfl⟩ := h; exact Or.inr ⟨rfl, rfl, rfl⟩
        · simp only [AppState.init, ExecState.setPrepared] at h
          simp at h; obtain ⟨rfl, rfl⟩ := h; exact Or.inl ⟨_, rfl⟩

theorem setExecuted_unset (h : Nat) : ExecState.unset.setExecuted h = .ok (.executedBlock h none) := rfl
theorem setExecuted_preparedValid (c : CachedProposal) (h : Nat) :
    (ExecState.preparedValid c).setExecuted h = .ok (.executedBlock h (some c)) := rfl

theorem Inv_process {σ : S} {cs : List Call} {a : AppState S} (hi : Inv p σ cs a) (b : Block) :
    Inv p σ (cs ++ [Call.process b]) (stepProcess p a b).1 := by
  obtain ⟨hc, hw, hex⟩ := hi
  have hmem : Call.process b ∈ cs ++ [Call.process b] := by simp
  cases hck : a.exec.checkPrepared b.fp with
  | mk ex1 skip =>
    cases skip with
    | false =>
      rw [stepProcess_noskip p hck]
      cases hp : parseItems (p.veEnabled a.work b.height) b.items with
      | error e =>
        simp only
        rcases checkPrepared_false hck with ⟨he, _, _⟩ | ⟨c', he⟩
        · subst he
          exact Inv_mono p ⟨hc, hw, hex⟩
        · exact Inv_of_trivial p hc hw (Or.inr (Or.inl ⟨c', he⟩))
      | ok pd =>
        simp only
        rw [processExec_init p (a := { a with exec := ex1 }) (σ := σ) hc hw]
        obtain ⟨hf1, hf2, hf3, hf4, hf5⟩ := processExec_fields p σ b pd
        cases hx : processExec p (AppState.init σ) b pd with
        | mk a1 r =>
          rw [hx] at hf1 hf2 hf3 hf4 hf5
          simp at hf1 hf2 hf3 hf4 hf5
          cases r with
          | error e => exact Inv_of_trivial p hf2 hf3 (Or.inl hf1)
          | ok ex =>
            simp only
            cases hq : postStep p a1 b pd ex with
            | mk a2 r2 =>
              have hinv : Inv p σ (cs ++ [Call.process b]) a2 := by
                rcases postStep_spec p hq hf5 with ⟨rfl, _⟩ | ⟨hh, ex', hhash, hset, hex', hcm, hwb, _, hpd, _⟩
                · exact Inv_of_trivial p hf2 hf3 (Or.inl hf1)
                · rw [hf1, setExecuted_unset] at hset
                  simp at hset
                  refine ⟨hcm.trans hf2, hwb.trans hf3, ?_⟩
                  rw [hex', ← hset]
                  exact ⟨b, a.work, pd, hmem, hhash, hp, a1, ex, hx, hpd⟩
              cases r2 <;> exact hinv
    | true =>
      obtain ⟨hor, hex1⟩ := checkPrepared_true hck
      have hpo : PreparedOk p σ a b.fp := by
        rcases hor with h | h <;> simpa [h] using hex
      rw [stepProcess_skip p hck]
      have hkeep : Inv p σ (cs ++ [Call.process b]) { a with exec := ex1 } := by
        refine ⟨hc, hw, ?_⟩
        subst hex1
        obtain ⟨r, items, a0, h1, h2, h3, h4, h5⟩ := hpo
        exact ⟨r, items, a0, h1, h2, h3, h4, h5⟩
      cases hp : parseItems (p.veEnabled a.work b.height) b.items with
      | error e => exact hkeep
      | ok pd =>
        simp only
        split
        · exact hkeep
        · rename_i ex hx
          have hinv : ∀ a2 r2, postStep p { a with exec := ex1 } b pd ex = (a2, r2) →
              Inv p σ (cs ++ [Call.process b]) a2 := by
            intro a2 r2 hq
            obtain ⟨r, items, a0, h1, h2, h3, h4, h5⟩ := hpo
            rcases postStep_spec p hq h5 with ⟨rfl, _⟩ | ⟨hh, ex', hhash, hset, hex', hcm, hwb, _, hpd, _⟩
            · exact hkeep
            · subst hex1
              simp only [setExecuted_preparedValid] at hset
              simp at hset
              refine ⟨hcm.trans hc, hwb.trans hw, ?_⟩
              rw [hex', ← hset]
              refine ⟨b, a.work, pd, hmem, hhash, hp, rfl, r, items, a0, ex, h1, h2, ?_, ?_⟩
              · rw [← h4]; exact hx
              · simpa [h3] using hpd
          split
          · rename_i a2 e hq; exact hinv _ _ hq
          · rename_i a2 u hq; exact hinv _ _ hq

theorem Inv_step {σ : S} {cs : List Call} {a : AppState S} (hi : Inv p σ cs a) {c : Call} (hc : PreCall c) :
    Inv p σ (cs ++ [c]) (step p a c).1 := by
  cases c with
  | prepare r =>
    simp only [step]
    rw [stepPrepare_init p hi.1 hi.2.1]
    cases hs : stepPrepare p (AppState.init σ) r with
    | mk a' resp =>
      rcases stepPrepare_err p hs with ⟨items, rfl⟩ | ⟨h1, h2, h3⟩
      · obtain ⟨s1, eci, added, bsc0, bsc1, st, _, _, _, _, _, _, _, hwork, hex, hexec, hcm, hpr, hwb⟩ := stepPrepare_spec p hs
        refine ⟨by simpa [AppState.init] using hcm, by simpa [AppState.init] using hwb, ?_⟩
        simp only [hexec]
        exact ⟨r, items, a', hs, rfl, rfl, rfl, hpr⟩
      · exact Inv_of_trivial p h2 h3 (Or.inl h1)
  | process b => exact Inv_process p hi b
  | restart =>
    simp only [step]
    exact Inv_of_trivial p (by simp [AppState.init, hi.1]) (by simp [AppState.init]) (Or.inl (by simp [AppState.init]))
  | finalize _ => simp [PreCall] at hc
  | commit => simp [PreCall] at hc

/-- **Fingerprint invariant**: it holds after every schedule of pre-finalize calls. -/
theorem Inv_runCalls {σ : S} : ∀ (cs pre : List Call) (a : AppState S), Inv p σ pre a → (∀ c ∈ cs, PreCall c) →
    Inv p σ (pre ++ cs) (runCalls p a cs) := by
  intro cs
  induction cs with
  | nil => intro pre a hi _; simpa [runCalls] using hi
  | cons c cs ih =>
    intro pre a hi hall
    have h1 := Inv_step p hi (hall c (by simp))
    have h2 := ih (pre ++ [c]) _ h1 (fun c' hc' => hall c' (by simp [hc']))
    simpa [runCalls] using h2

/-! ## C05: FinalizeBlock on the cached and on the uncached path -/

/-- what `finalize_block` reads back after (re-)execution: the working state and the cached
`PostTransactionExecutionResult`, if the execution succeeded -/
def obs (x : AppState S × Except Err Unit) : Option (S × PostResult) :=
  match x with
  | (a, .ok _) => a.postResult.map (fun r => (a.work, r))
  | (_, .error _) => none

/-- the price phase of `finalize_block` (only if the block carries an extended commit info) -/
def pricesOpt (s : S) (b : Block) (pd : Parsed) : Except Err (S × Nat) :=
  if pd.eci.isSome then p.prices s b else .ok (s, 0)

/-- **uncached order** — `finalize_block` on a node that has not executed the block: oracle prices
first, then pre_execute / construct / execute / post_execute -/
def runPricesFirst (σ : S) (b : Block) (pd : Parsed) : Option (S × Nat × PostResult) :=
  match pricesOpt p σ b pd with
  | .error _ => none
  | .ok (s1, ev) =>
    (obs (finalizeExec p { (AppState.init σ) with work := s1 } b pd)).map (fun x => (x.1, ev, x.2))

/-- **cached order** — pre_execute / construct / execute / post_execute during `process_proposal`,
oracle prices afterwards in `finalize_block` -/
def runPricesLast (σ : S) (b : Block) (pd : Parsed) : Option (S × Nat × PostResult) :=
  match obs (finalizeExec p (AppState.init σ) b pd) with
  | none => none
  | some (s2, r) =>
    match pricesOpt p s2 b pd with
    | .error _ => none
    | .ok (s3, ev) => some (s3, ev, r)

def respOf (x : S × Nat × PostResult) : FinalizeResp S :=
  { priceEvents := x.2.1, codes := List.replicate x.2.2.injected 0 ++ x.2.2.results.map (·.2),
    aux := x.2.2.aux, app := x.1 }

/-- the successful `FinalizeBlock` response, if any -/
def Resp.finalized? : Resp S → Option (FinalizeResp S)
  | .finalized r => some r
  | _ => none

theorem postStep_fields (a : AppState S) (b : Block) (pd : Parsed) (ex : List Executed) :
    (postStep p a b pd ex).1.committed = a.committed ∧ (postStep p a b pd ex).1.writeBatch = a.writeBatch := by
  unfold postStep
  split
  · simp
  · split
    · simp
    · dsimp only
      split <;> simp

theorem finalizeExec_fields (a : AppState S) (b : Block) (pd : Parsed) :
    (finalizeExec p a b pd).1.committed = a.committed ∧ (finalizeExec p a b pd).1.writeBatch = a.writeBatch := by
  unfold finalizeExec
  split
  · simp
  · split
    · simp
    · dsimp only
      exact postStep_fields p _ b pd _

/-- `finalize_block` when the fingerprint does not match: reset, then the uncached order -/
theorem stepFinalize_noskip {a : AppState S} {σ : S} {b : Block} {h : Nat} {ex1 : ExecState}
    (hc : a.committed = σ) (hw : a.writeBatch = none) (hh : b.hash = some h)
    (hck : a.exec.checkExecuted h = (ex1, false)) :
    (stepFinalize p a b).2.finalized? =
      (match parseItems (p.veEnabled σ b.height) b.items with
       | .error _ => none
       | .ok pd => (runPricesFirst p σ b pd).map respOf) ∧
    (stepFinalize p a b).1.committed = σ ∧
    (stepFinalize p a b).1.writeBatch = ((stepFinalize p a b).2.finalized?).map (·.app) := by
  unfold stepFinalize
  simp only [hh, hck]
  have hr : ({ a with exec := ex1 } : AppState S).reset = AppState.init σ := reset_eq_init (by simpa using hc) (by simpa using hw)
  simp only [Bool.false_eq_true, if_false, hr]
  cases hp : parseItems (p.veEnabled (AppState.init σ).work b.height) b.items with
  | error e => simp [AppState.init] at hp ⊢; simp [hp, Resp.finalized?]
  | ok pd =>
    have hp' : parseItems (p.veEnabled σ b.height) b.items = .ok pd := by simpa [AppState.init] using hp
    simp only [hp']
    unfold runPricesFirst pricesOpt
    cases hpr : (if pd.eci.isSome = true then p.prices (AppState.init σ).work b else Except.ok ((AppState.init σ).work, 0)) with
    | error e =>
      have : (if pd.eci.isSome = true then p.prices σ b else Except.ok (σ, 0)) = .error e := by simpa [AppState.init] using hpr
      simp [this, Resp.finalized?, AppState.init]
    | ok sv =>
      obtain ⟨s1, ev⟩ := sv
      have : (if pd.eci.isSome = true then p.prices σ b else Except.ok (σ, 0)) = .ok (s1, ev) := by simpa [AppState.init] using hpr
      simp only [this]
      cases hx : finalizeExec p { (AppState.init σ) with work := s1 } b pd with
      | mk a2 r =>
        have hfx := finalizeExec_fields p { (AppState.init σ) with work := s1 } b pd
        rw [hx] at hfx
        simp [AppState.init] at hfx
        obtain ⟨hf1, hf2⟩ := hfx
        cases r with
        | error e => simp [obs, Resp.finalized?, hf1, hf2]
        | ok u =>
          simp only [obs]
          cases hpo : a2.postResult with
          | none => simp [Resp.finalized?, hf1, hf2]
          | some res => simp [Resp.finalized?, respOf, hf1]


theorem checkExecuted_same (h : Nat) (cp : Option CachedProposal) :
    (ExecState.executedBlock h cp).checkExecuted h = (.executedBlock h cp, true) := by
  simp [ExecState.checkExecuted]

/-- `finalize_block` when the fingerprint matches: no reset, prices on top of the cached state -/
theorem stepFinalize_skip {a : AppState S} {σ : S} {b : Block} {h : Nat} {cp : Option CachedProposal}
    (hc : a.committed = σ) (hw : a.writeBatch = none) (hh : b.hash = some h)
    (hex : a.exec = .executedBlock h cp) :
    (stepFinalize p a b).2.finalized? =
      (match parseItems (p.veEnabled a.work b.height) b.items with
       | .error _ => none
       | .ok pd =>
         match pricesOpt p a.work b pd with
         | .error _ => none
         | .ok (s1, ev) => a.postResult.map (fun res => respOf (s1, ev, res))) ∧
    (stepFinalize p a b).1.committed = σ ∧
    (stepFinalize p a b).1.writeBatch = ((stepFinalize p a b).2.finalized?).map (·.app) := by
  unfold stepFinalize
  simp only [hh, hex, checkExecuted_same, if_true]
  cases hp : parseItems (p.veEnabled a.work b.height) b.items with
  | error e => simp [Resp.finalized?, hc, hw]
  | ok pd =>
    simp only
    unfold pricesOpt
    cases hpr : (if pd.eci.isSome = true then p.prices a.work b else Except.ok (a.work, 0)) with
    | error e => simp [Resp.finalized?, hc, hw]
    | ok sv =>
      obtain ⟨s1, ev⟩ := sv
      simp only
      cases hpo : a.postResult with
      | none => simp [Resp.finalized?, hc, hw]
      | some res => simp [Resp.finalized?, respOf, hc]

/-! ## C05: path independence -/

/-- **process agrees with finalize**: whenever `process_proposal`'s own (strict) execution of a
block succeeds, `finalize_block`'s (lenient) execution of the same block on the same state
computes the same state and results. -/
theorem processExec_finalizeExec {σ : S} {b : Block} {pd : Parsed} {a1 : AppState S} {ex : List Executed}
    (h : processExec p (AppState.init σ) b pd = (a1, .ok ex)) :
    finalizeExec p (AppState.init σ) b pd = postStep p { (AppState.init σ) with work := a1.work } b pd ex := by
  obtain ⟨_, s1, txs, st, hpre, hcon, hl, hdone, hwork, _, _⟩ := processExec_ok p h
  obtain ⟨added, hext, hmap⟩ := procLoop_ext p _ _ _ hl
  have hd : st.done = added := by simpa [LoopSt.init] using hext.done
  have hrun : Runs p s1 added st.s := by simpa [LoopSt.init] using hext.runs
  have hfin := finLoop_of_runs p added s1 st.s [] hrun
  rw [hmap] at hfin
  unfold finalizeExec
  simp only [AppState.init] at hpre ⊢
  rw [hpre]
  simp only
  rw [hcon]
  simp only
  rw [hfin, hwork, ← hdone, hd]
  simp

/-- how a recorded post-execution outcome relates to `postStep` from a fresh fingerprint -/
theorem postDone_obs {σ s : S} {b : Block} {pd : Parsed} {ex : List Executed} {a : AppState S} {h : Nat}
    (hh : b.hash = some h) (hd : PostDone p s b pd ex a) :
    match obs (postStep p { (AppState.init σ) with work := s } b pd ex) with
    | some (s', r) => a.work = s' ∧ a.postResult = some r
    | none => a.postResult = none := by
  unfold postStep
  simp only [hh, AppState.init, setExecuted_unset]
  rcases hd with ⟨s', aux, hp, hw, hr⟩ | ⟨e, hp, _, hr⟩
  · simp [hp, obs, hw, hr]
  · simp [hp, obs, hr]

/-- the hypothesis about `prepare_proposal`: what it cached for a proposal (executed from
transactions constructed at CheckTx time) is what a fresh execution of that proposal on the same
committed state computes. C06 gives sufficient conditions; F11 is a counterexample. -/
def PrepareCoherent (σ : S) (b : Block) : Prop :=
  ∀ pd r items a0 ex, parseItems (p.veEnabled σ b.height) b.items = .ok pd →
    stepPrepare p (AppState.init σ) r = (a0, .prepared items) → r.fp items = b.fp →
    a0.executedTxs = some ex →
    obs (postStep p { (AppState.init σ) with work := a0.work } b pd ex) = obs (finalizeExec p (AppState.init σ) b pd)

/-- the commutation hypothesis: the price phase before or after the rest of block execution -/
def PricesCommute (σ : S) (b : Block) : Prop :=
  ∀ pd, parseItems (p.veEnabled σ b.height) b.items = .ok pd → runPricesFirst p σ b pd = runPricesLast p σ b pd

/-- vote-extension enablement at height `h` is not changed by uncommitted writes -/
def VeStable (h : Nat) : Prop := ∀ s s' : S, p.veEnabled s h = p.veEnabled s' h

/-- **Path independence** (partial: under `PricesCommute`, `PrepareCoherent`, `VeStable` and
block-hash binding). After any schedule of Prepare / Process / restart calls on the committed state
`σ`, `FinalizeBlock(b)` answers exactly as it does on a node that saw nothing but
`FinalizeBlock(b)`; in particular it fails on one path iff it fails on the other, and the state
staged for `Commit` is the same. -/
theorem path_independence {σ : S} {b : Block} {h : Nat} (hh : b.hash = some h)
    (cs : List Call) (hlegal : ∀ c ∈ cs, PreCall c)
    (hbind : ∀ b', Call.process b' ∈ cs → b'.hash = b.hash → b' = b)
    (hve : VeStable p b.height) (hcomm : PricesCommute p σ b) (hprep : PrepareCoherent p σ b) :
    let a := runCalls p (AppState.init σ) cs
    (stepFinalize p a b).2.finalized? = (stepFinalize p (AppState.init σ) b).2.finalized? ∧
    (stepFinalize p a b).1.committed = σ ∧
    (stepFinalize p a b).1.writeBatch = (stepFinalize p (AppState.init σ) b).1.writeBatch := by
  intro a
  have hinv : Inv p σ cs a := by
    have := Inv_runCalls p cs [] (AppState.init σ) (Inv_init p σ) hlegal
    simpa using this
  obtain ⟨hc, hw, hexec⟩ := hinv
  -- the canonical run
  have hcanon := stepFinalize_noskip p (a := AppState.init σ) (σ := σ) (b := b) (h := h) (ex1 := .unset)
    rfl rfl hh (by simp [AppState.init, ExecState.checkExecuted])
  cases hck : a.exec.checkExecuted h with
  | mk ex1 skip =>
    cases skip with
    | false =>
      have := stepFinalize_noskip p hc hw hh hck
      refine ⟨this.1.trans hcanon.1.symm, this.2.1, ?_⟩
      rw [this.2.2, hcanon.2.2, this.1, hcanon.1]
    | true =>
      obtain ⟨cp, hex, _⟩ := checkExecuted_true hck
      have hsk := stepFinalize_skip p hc hw hh hex
      rw [hex] at hexec
      simp only at hexec
      obtain ⟨b', s0, pd', hmem, hhash', hparse', hcase⟩ := hexec
      have hb' : b' = b := hbind b' hmem (by rw [hhash', hh])
      subst hb'
      have hpeq : parseItems (p.veEnabled a.work b'.height) b'.items = parseItems (p.veEnabled σ b'.height) b'.items := by
        rw [hve a.work σ]
      have hpeq0 : parseItems (p.veEnabled s0 b'.height) b'.items = parseItems (p.veEnabled σ b'.height) b'.items := by
        rw [hve s0 σ]
      rw [hpeq] at hsk
      rw [hpeq0] at hparse'
      -- what the cached state is
      have hcached : match obs (finalizeExec p (AppState.init σ) b' pd') with
          | some (s', r) => a.work = s' ∧ a.postResult = some r
          | none => a.postResult = none := by
        cases cp with
        | none =>
          obtain ⟨a1, ex, hx, hpd⟩ := hcase
          rw [processExec_finalizeExec p hx]
          exact postDone_obs p hh hpd
        | some c =>
          obtain ⟨hcfp, r, items, a0, ex, hsp, hcr, hext, hpd⟩ := hcase
          rw [← hprep pd' r items a0 ex hparse' hsp (hcr.symm.trans hcfp) hext]
          exact postDone_obs p hh hpd
      have hfinal : (stepFinalize p a b').2.finalized? = (runPricesLast p σ b' pd').map respOf := by
        rw [hsk.1, hparse']
        simp only
        unfold runPricesLast
        cases ho : obs (finalizeExec p (AppState.init σ) b' pd') with
        | none =>
          rw [ho] at hcached
          simp only at hcached
          rw [hcached]
          cases pricesOpt p a.work b' pd' with
          | error e => simp
          | ok sv => simp
        | some sr =>
          obtain ⟨s', r⟩ := sr
          rw [ho] at hcached
          simp only at hcached
          obtain ⟨hw', hr'⟩ := hcached
          rw [hw', hr']
          simp only
          cases pricesOpt p s' b' pd' with
          | error e => simp
          | ok sv => obtain ⟨s3, ev⟩ := sv; simp
      have hcan : (stepFinalize p (AppState.init σ) b').2.finalized? = (runPricesFirst p σ b' pd').map respOf := by
        rw [hcanon.1, hparse']
      have heq : (stepFinalize p a b').2.finalized? = (stepFinalize p (AppState.init σ) b').2.finalized? := by
        rw [hfinal, hcan, hcomm pd' hparse']
      refine ⟨heq, hsk.2.1, ?_⟩
      rw [hsk.2.2, hcanon.2.2, heq]

/-- **C06 ⇒ C05 link**: `PrepareCoherent` holds for a block whose transactions are all
constructible at block start, when `pre_execute_transactions` depends on the block data only and
vote-extension enablement is stable. (F11 blocks violate the constructibility premise.) -/
theorem prepareCoherent_of_constructible {σ : S} {b : Block}
    (hve : VeStable p b.height)
    (hpre : ∀ (r : PrepReq) (items : List Item), r.fp items = b.fp → p.pre σ b = p.pre σ (r.asBlock []))
    (hcons : ∀ s1, p.pre σ b = .ok s1 → ∀ t, Item.tx t ∈ b.items → p.constructible s1 t = true) :
    PrepareCoherent p σ b := by
  intro pd r items a0 ex hparse hsp hfp hex
  obtain ⟨s1, inj, added, bsc0, bsc1, st, hpre1, hb, he, hl, hext, hsub, hitems, hwork, hexa, _, _, _, _⟩ :=
    stepPrepare_spec p hsp
  simp only [AppState.init] at hpre1
  have hbi : b.items = items := by
    have := congrArg CachedProposal.txs hfp; simpa [PrepReq.fp, Block.fp] using this.symm
  have hbh : b.height = r.height := by
    have := congrArg CachedProposal.height hfp; simpa [PrepReq.fp, Block.fp] using this.symm
  have hexeq : ex = added := by rw [hexa] at hex; simpa using hex.symm
  subst hexeq
  obtain ⟨_, _, _, _, _, up, eci, hinj, hup, ecase, _⟩ := prepInjected_ok p he
  -- the parse of the proposal
  have hpdtx : pd.txs = ex.map (fun e => Item.tx e.1) := by
    rw [hbi, hitems, hbh, hinj] at hparse
    have hv : p.veEnabled σ r.height = p.veEnabled s1 r.height := by
      have := hve σ s1; rwa [hbh] at this
    rw [hv] at hparse
    obtain ⟨pd', hpd', _, _, htx', _⟩ := parseItems_proposal (veOn := p.veEnabled s1 r.height)
      (p.roots st.s (ex.map (·.1))).1 (p.roots st.s (ex.map (·.1))).2 (up := up) (e := eci) ex hup ecase
    rw [hpd'] at hparse; injection hparse with hparse; rw [← hparse]; exact htx'
  have hpreb : p.pre σ b = .ok s1 := (hpre r items hfp).trans hpre1
  have hrun : Runs p s1 ex st.s := by simpa [LoopSt.init] using hext.runs
  have hconstr : constructAll p s1 pd.txs = .ok (ex.map (·.1)) := by
    rw [hpdtx]
    have := constructAll_complete p (s := s1) (ex.map (·.1)) (by
      intro t ht
      apply hcons s1 hpreb t
      rw [hbi, hitems]
      obtain ⟨e, he', rfl⟩ := List.mem_map.mp ht
      exact List.mem_append_right _ (List.mem_map.mpr ⟨e, he', rfl⟩))
    simpa [List.map_map, Function.comp_def] using this
  have hfin := finLoop_of_runs p ex s1 st.s [] hrun
  have : finalizeExec p (AppState.init σ) b pd = postStep p { (AppState.init σ) with work := a0.work } b pd ex := by
    unfold finalizeExec
    simp only [AppState.init]
    rw [hpreb]
    simp only
    rw [hconstr]
    simp only
    rw [hfin, hwork]
    simp
  rw [this]

/-! ## Multi-block histories -/

/-- one height on a node whose committed state is `σ`: the pre-finalize calls, `FinalizeBlock(b)`,
`Commit`. `none`: FinalizeBlock failed (the node halts). -/
def runHeight (σ : S) (cs : List Call) (b : Block) : Option S :=
  (stepFinalize p (runCalls p (AppState.init σ) cs) b).1.writeBatch

def runHistory (σ : S) : List (List Call × Block) → Option S
  | [] => some σ
  | (cs, b) :: rest =>
    match runHeight p σ cs b with
    | none => none
    | some σ' => runHistory σ' rest

/-- the hypotheses of `path_independence` for one height -/
def HeightOk (σ : S) (cs : List Call) (b : Block) : Prop :=
  (∃ h, b.hash = some h) ∧ (∀ c ∈ cs, PreCall c) ∧
  (∀ b', Call.process b' ∈ cs → b'.hash = b.hash → b' = b) ∧
  VeStable p b.height ∧ PricesCommute p σ b ∧ PrepareCoherent p σ b

def HistOk (σ : S) : List (List Call × Block) → Prop
  | [] => True
  | (cs, b) :: rest => HeightOk p σ cs b ∧ ∀ σ', runHeight p σ [] b = some σ' → HistOk σ' rest

theorem runHeight_independent {σ : S} {cs : List Call} {b : Block} (hok : HeightOk p σ cs b) :
    runHeight p σ cs b = runHeight p σ [] b := by
  obtain ⟨⟨h, hh⟩, hl, hb, hv, hc, hp⟩ := hok
  exact (path_independence p hh cs hl hb hv hc hp).2.2

/-- **Histories**: a node that is driven through any legal call schedule at every height ends
with the same committed state as a node that only ever sees `FinalizeBlock; Commit`, and halts at
the same height if it halts. -/
theorem history_independence : ∀ (hs : List (List Call × Block)) (σ : S), HistOk p σ hs →
    runHistory p σ hs = runHistory p σ (hs.map (fun x => ([], x.2))) := by
  intro hs
  induction hs with
  | nil => intro σ _; rfl
  | cons x rest ih =>
    intro σ hok
    obtain ⟨cs, b⟩ := x
    obtain ⟨h1, h2⟩ := hok
    simp only [runHistory, List.map_cons]
    rw [runHeight_independent p h1]
    cases hr : runHeight p σ [] b with
    | none => rfl
    | some σ' => exact ih σ' (h2 σ' hr)

/-- `Commit` after a successful `FinalizeBlock` installs exactly the staged state and a fresh
fingerprint. -/
theorem commit_after_finalize {a : AppState S} {s : S} (h : a.writeBatch = some s) :
    (stepCommit a).1 = AppState.init s := by
  simp [stepCommit, h]

/-! ## ProcessProposal rejects each class of malformed proposal (C06) -/

/-- a parse failure is a rejection on every node, whatever its fingerprint -/
theorem process_parse_error {a : AppState S} {b : Block} {e : Err}
    (h : parseItems (p.veEnabled a.work b.height) b.items = .error e) :
    (stepProcess p a b).2 = .reject e := by
  cases hck : a.exec.checkPrepared b.fp with
  | mk ex1 skip =>
    cases skip with
    | false => rw [stepProcess_noskip p hck, h]
    | true => rw [stepProcess_skip p hck, h]

/-- the group order of a transaction list: each group at most its predecessor's, the first at most `g` -/
def GroupSorted : Nat → List Tx → Prop
  | _, [] => True
  | g, t :: l => t.group ≤ g ∧ GroupSorted t.group l

theorem GroupChain_sorted : ∀ (l : List Executed) (g : Nat), GroupChain g l → GroupSorted g (l.map (·.1)) := by
  intro l
  induction l with
  | nil => intro g _; trivial
  | cons e l ih => intro g h; exact ⟨h.1, ih _ h.2⟩

theorem seqSum_map (l : List Executed) : seqSum l = ((l.map (·.1)).map (·.seq)).sum := by
  simp [seqSum, List.map_map, Function.comp_def]

/-- Everything an accepted proposal satisfies, phrased over the block's own item list. The
rejection theorems are its contrapositives. -/
theorem process_accept_items {a a' : AppState S} {b : Block} {σ : S} {ex1 : ExecState}
    (hc : a.committed = σ) (hw : a.writeBatch = none)
    (hck : a.exec.checkPrepared b.fp = (ex1, false))
    (h : stepProcess p a b = (a', .accept)) :
    ∃ pd s1 txs, parseItems (p.veEnabled a.work b.height) b.items = .ok pd ∧ p.pre σ b = .ok s1 ∧
      pd.txs = txs.map Item.tx ∧ (∀ t ∈ txs, p.constructible s1 t = true) ∧
      GroupSorted 4 txs ∧ (txs.map (·.seq)).sum ≤ maxSeqBytes ∧
      (∃ added s', added.map (·.1) = txs ∧ Runs p s1 added s' ∧
         pd.r1 = (p.roots s' txs).1 ∧ pd.r2 = (p.roots s' txs).2) := by
  obtain ⟨pd, s1, added, s', hh, s'', aux, hp, _, hpre, htx, hcons, hrun, hchain, hseq, hr1, hr2, _⟩ :=
    process_accept_sound p hc hw hck h
  refine ⟨pd, s1, added.map (·.1), hp, hpre, ?_, ?_, GroupChain_sorted _ _ hchain, ?_, added, s', rfl, hrun, hr1, hr2⟩
  · rw [htx]; simp [List.map_map, Function.comp_def]
  · intro t ht; obtain ⟨e, he, rfl⟩ := List.mem_map.mp ht; exact hcons e he
  · rw [← seqSum_map]; exact hseq

/-- **the proposer validating its own proposal**: accepted whenever post-execution succeeds -/
theorem prepare_then_own_process_accepts
    {a a1 : AppState S} {r : PrepReq} {items : List Item} {σ : S} {hash : Nat}
    (hprep : stepPrepare p a r = (a1, .prepared items)) (hσ : a.committed = σ)
    (hve : ∀ s s', p.veEnabled s r.height = p.veEnabled s' r.height)
    (hpost : ∀ ex, a1.executedTxs = some ex → ∃ s'' aux, p.post a1.work (r.proposed items hash) ex = .ok (s'', aux)) :
    (stepProcess p a1 (r.proposed items hash)).2 = .accept := by
  obtain ⟨s1, inj, added, bsc0, bsc1, st, hpre1, hb, he, hl, hext, hsub, hitems, hwork, hex, hexec, _, hpr, _⟩ :=
    stepPrepare_spec p hprep
  obtain ⟨_, _, _, _, _, up, eci, hinj, hup, ecase, _⟩ := prepInjected_ok p he
  have hck : a1.exec.checkPrepared (r.proposed items hash).fp = (.preparedValid (r.fp items), true) := by
    rw [hexec, proposed_fp]; simp [ExecState.checkPrepared]
  have hparse : ∃ pd, parseItems (p.veEnabled a1.work (r.proposed items hash).height) (r.proposed items hash).items = .ok pd := by
    have hv : p.veEnabled a1.work r.height = p.veEnabled s1 r.height := hve _ _
    show ∃ pd, parseItems (p.veEnabled a1.work r.height) items = .ok pd
    rw [hv]
    have hcase := ecase
    rw [hitems, hinj]
    obtain ⟨pd, hpd, _⟩ := parseItems_proposal (p.roots st.s (added.map (·.1))).1 (p.roots st.s (added.map (·.1))).2 added hup hcase
    exact ⟨pd, hpd⟩
  obtain ⟨pd, hpd⟩ := hparse
  rw [stepProcess_skip p hck, hpd]
  simp only [hex]
  obtain ⟨s'', aux, hp⟩ := hpost added hex
  unfold postStep
  simp [PrepReq.proposed, setExecuted_preparedValid]
  simp [PrepReq.proposed] at hp
  rw [hp]

end Astria.Abci
