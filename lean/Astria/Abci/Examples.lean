import Astria.Abci.Theorems
/-
Concrete, tiny instances of the abstract primitives: the witnesses of the counterexample theorems
(F4, F11, F12 — each reproduced on the real code by corpus/abci.ops) and of the non-vacuity
examples. Everything here is evaluated by the kernel (`decide`).
-/
namespace Astria.Abci.Examples
open Astria.Abci

/-- which rejection a response is, if any -/
def rejected? {S : Type} : Resp S → Option Err
  | .reject e => some e
  | _ => none

def prepared? {S : Type} : Resp S → Option (List Item)
  | .prepared items => some items
  | _ => none

def isAccept {S : Type} : Resp S → Bool
  | .accept => true
  | _ => false

/-! ### F4: an oracle price for a currency pair and the removal of that pair in one block -/

structure Oracle where
  pairExists : Bool
  price : Nat
  deriving DecidableEq, Repr

/-- `CurrencyPairsChange::Removal(P)` by the sudo address -/
def removePair : Tx := { id := 1, len := 180, seq := 0, group := 2 }

/-- the price phase is `put_price_for_currency_pair(P, …)`: "currency pair state not found" once
`P` is gone; the transaction removes `P` (its construction and execution require `P` to exist) -/
def f4 : Prims Oracle :=
  { veEnabled := fun _ _ => true
    veValid := fun _ _ => true
    pre := fun s _ => .ok s
    constructible := fun s _ => s.pairExists
    execTx := fun s _ => if s.pairExists then .ok { s with pairExists := false } else .fatal
    roots := fun _ _ => (0, 1)
    upgradeItem := fun _ _ => none
    eciFull := fun _ _ => (2, 463)
    eciEmpty := fun _ => (3, 4)
    post := fun s _ _ => .ok (s, 0)
    prices := fun s _ => if s.pairExists then .ok ({ s with price := 100 }, 1) else .error .prices }

def f4Genesis : Oracle := { pairExists := true, price := 0 }

def f4Block : Block :=
  { height := 5, time := 1750000500, proposer := 1, lastCommit := some 0, misbehavior := 0,
    nextValHash := 0, hash := some 0xaeeb44e1,
    items := [.root1 0, .root2 1, .eci 2 463 true, .tx removePair] }

/-! ### F11: a transaction that is only constructible after an earlier one of the same block -/

/-- state: is R an IBC relayer? -/
def addRelayer : Tx := { id := 4, len := 217, seq := 0, group := 2 }
def removeRelayer : Tx := { id := 2, len := 217, seq := 0, group := 2 }

/-- `IbcRelayerChange::Addition(R)` needs R not to be a relayer, `Removal(R)` needs R to be one —
both at construction (`run_mutable_checks` in `new`) and at execution -/
def f11 : Prims Bool :=
  { veEnabled := fun _ _ => false
    veValid := fun _ _ => true
    pre := fun s _ => .ok s
    constructible := fun s t => if t.id = 4 then !s else s
    execTx := fun s t => if t.id = 4 then (if s then .fatal else .ok true) else (if s then .ok false else .fatal)
    roots := fun _ _ => (0, 1)
    upgradeItem := fun _ _ => none
    eciFull := fun _ _ => (2, 4)
    eciEmpty := fun _ => (3, 4)
    post := fun s _ _ => .ok (s, 0)
    prices := fun s _ => .ok (s, 0) }

/-- the mempool holds Addition(R) (nonce n) and the earlier-admitted Removal(R) (nonce n+1) -/
def f11Req : PrepReq :=
  { height := 7, time := 1750000700, proposer := 1, lastCommit := some 0, misbehavior := 0,
    nextValHash := 0, maxTxBytes := 1000000, queue := [addRelayer, removeRelayer] }

def f11Items : List Item := [.root1 0, .root2 1, .tx addRelayer, .tx removeRelayer]

def f11Block : Block := f11Req.proposed f11Items 0x7b19db6b

/-! ### F12 (fixed by `fix:` commit 259c046): `max_tx_bytes` too small for the extended commit info -/

def f12 : Prims Unit :=
  { veEnabled := fun _ _ => true
    veValid := fun _ _ => true
    pre := fun s _ => .ok s
    constructible := fun _ _ => true
    execTx := fun s _ => .ok s
    roots := fun _ _ => (0, 1)
    upgradeItem := fun _ _ => none
    eciFull := fun _ _ => (2, 463)
    eciEmpty := fun _ => (3, 4)
    post := fun s _ _ => .ok (s, 0)
    prices := fun s _ => .ok (s, 0) }

def f12Req : PrepReq :=
  { height := 5, time := 1750000500, proposer := 1, lastCommit := some 0, misbehavior := 0,
    nextValHash := 0, maxTxBytes := 100, queue := [] }

/-- what the pinned code proposed: the empty-bytes fallback item (not well-formed) -/
def f12Items : List Item := [.root1 0, .root2 1, .eci 3 4 false]

/-- what the repaired code proposes: the encoded well-formed empty extended commit info -/
def f12ItemsFixed : List Item := [.root1 0, .root2 1, .eci 3 4 true]

/-! ### a well-behaved instance for the non-vacuity examples: a counter -/

def t1 : Tx := { id := 1, len := 300, seq := 100, group := 4 }
def t2 : Tx := { id := 2, len := 200000, seq := 199000, group := 4 }
def t3 : Tx := { id := 3, len := 60000, seq := 58000, group := 4 }     -- does not fit the sequenced-data limit after t2
def t4 : Tx := { id := 4, len := 250, seq := 0, group := 3 }
def t5 : Tx := { id := 5, len := 250, seq := 0, group := 4 }           -- general after unbundleable general: out of order
def t6 : Tx := { id := 6, len := 374, seq := 0, group := 2 }           -- fails non-fatally
def t7 : Tx := { id := 7, len := 233, seq := 0, group := 2 }           -- fails fatally

/-- state = number of successfully executed transactions; prices add 1000 (they commute) -/
def counter : Prims Nat :=
  { upgradeItem := fun _ r => if r.height = 7 then some (5, 70) else none
    veEnabled := fun _ _ => true
    veValid := fun _ _ => true
    pre := fun s _ => .ok s
    constructible := fun _ _ => true
    execTx := fun s t => if t.id = 6 then .nonfatal else if t.id = 7 then .fatal else .ok (s + 1)
    roots := fun s _ => (s, s + 1)
    eciFull := fun _ _ => (2, 463)
    eciEmpty := fun _ => (3, 4)
    post := fun s _ _ => .ok (s + 10, 0)
    prices := fun s _ => .ok (s + 1000, 1) }

def okReq : PrepReq :=
  { height := 5, time := 1, proposer := 1, lastCommit := some 0, misbehavior := 0, nextValHash := 0,
    maxTxBytes := 1000000, queue := [t1, t2, t3, t4, t5, t6, t7] }

def okItems : List Item :=
  [.root1 3, .root2 4, .eci 2 463 true, .tx t1, .tx t2, .tx t4, .tx t6]

def okBlock : Block := okReq.proposed okItems 77

/-- the same mempool at an upgrade height: the proposal additionally carries the upgrade change hashes -/
def upReq : PrepReq := { okReq with height := 7 }

def upItems : List Item :=
  [.root1 3, .root2 4, .upgrade 5 70, .eci 2 463 true, .tx t1, .tx t2, .tx t4, .tx t6]

def upBlock : Block := upReq.proposed upItems 78

end Astria.Abci.Examples
