/- Model for area `abci` (stub). -/
namespace Astria.Abci

end Astria.Abci
