/-
Model of the sequencer's ABCI++ block pipeline (crates/astria-sequencer/src/app/mod.rs,
app/execution_state.rs, proposal/block_size_constraints.rs, the typed data-item parser of
astria-core sequencerblock/v1/block/mod.rs, action/group/mod.rs).

Hand-written, in the order the Rust does things, including its error kinds.  The ledger itself
(what a transaction does to the state) is abstract: the primitives in `Prims` are opaque
functions of an arbitrary state type `S`.  Everything that decides *which* primitive runs
*when* — the execution-state fingerprint, skip decisions, early bails, the prepare/process/
finalize loops, size constraints, group order, data-item order — is concrete.
No Mathlib (the driver links this file).

Not modelled: the pre-Aspen untyped data layout (two raw 32-byte roots); the mempool side effects of
the loops (`remove_tx_invalid`, metrics) — the builder queue is an input of `PrepareProposal`;
`ExtendVote` / `VerifyVoteExtension` (they only read the working state); the event bus; the write of
the storage version in `prepare_commit` (part of the staged state); the unreachable
`ExecutionState::Prepared(_) => bail!` arm of `process_proposal`. A failing call keeps the last
successfully computed working state (the real delta may hold partial writes): nothing reads it
before the next reset except `vote_extensions_enabled`, see `VeStable` in Theorems.lean.
-/
namespace Astria.Abci

/-! ## Error kinds (the `wrap_err` contexts / `bail!` messages of app/mod.rs) -/

inductive Err
  | nohash        -- "block hash is empty"
  | parse         -- "failed to parse data items"
  | nolastcommit  -- "proposed/local last commit is empty"
  | ve            -- "failed to validate extended commit info"
  | pre           -- "failed to prepare for executing block" / "failed to execute block"
  | upgrade       -- "upgrade change hashes (…) do not match expected (…)"
  | construct     -- "failed to construct checked transactions …"
  | seqlimit      -- "max block sequenced data limit passed"
  | group         -- "transactions have incorrect transaction group ordering"
  | exec          -- "transaction failed to execute"
  | size          -- "error growing … block size" (checked_add; unreachable after has_space)
  | root1         -- "rollup transactions commitment does not match expected"
  | root2         -- "rollup IDs commitment does not match expected"
  | post          -- "failed to run post execute transactions handler"
  | prices        -- "failed to apply prices from vote extensions"
  | nocache       -- "executed txs must be present in ephemeral store after execution"
  | fingerprint   -- execution-state machine refused a transition
  | constraints   -- "failed to create block size constraints"
  | injected      -- "exceeded size limit while adding …"
  deriving DecidableEq, Repr, Inhabited

def Err.name : Err → String
  | .nohash => "nohash" | .parse => "parse" | .nolastcommit => "nolastcommit" | .ve => "ve"
  | .pre => "pre" | .upgrade => "upgrade" | .construct => "construct" | .seqlimit => "seqlimit" | .group => "group"
  | .exec => "exec" | .size => "size" | .root1 => "root1" | .root2 => "root2" | .post => "post"
  | .prices => "prices" | .nocache => "nocache" | .fingerprint => "fingerprint"
  | .constraints => "constraints" | .injected => "injected"

/-! ## Transactions and data items -/

/-- What the pipeline looks at in a (decoded, signed) transaction. `group` is the numeric value of
`action::Group` (UnbundleableSudo = 1 … BundleableGeneral = 4). -/
structure Tx where
  id : Nat
  len : Nat      -- encoded bytes (`encoded_bytes().len()`)
  seq : Nat      -- Σ rollup data bytes (`rollup_data_bytes()`)
  group : Nat
  deriving DecidableEq, Repr, Inhabited

/-- One element of the `txs` field of a CometBFT request/response. `bid` identifies the byte
string (equal ids ⇔ equal bytes). -/
inductive Item
  | root1 (bid : Nat)                       -- DataItem::RollupTransactionsRoot
  | root2 (bid : Nat)                       -- DataItem::RollupIdsRoot
  | upgrade (bid len : Nat)                 -- DataItem::UpgradeChangeHashes
  | eci (bid len : Nat) (wellFormed : Bool) -- DataItem::ExtendedCommitInfo; `wellFormed`: its payload converts to the native type
  | tx (t : Tx)                             -- bytes of a transaction
  | garbage (bid len : Nat)                 -- bytes that decode as neither
  deriving DecidableEq, Repr, Inhabited

def Item.len : Item → Nat
  | .root1 _ => 34 | .root2 _ => 34 | .upgrade _ l => l | .eci _ l _ => l | .tx t => t.len
  | .garbage _ l => l

/-! ## execution_state.rs -/

/-- `CachedProposal`: the seven compared fields. `txs` are the raw data items. `lastCommit` is the
`CommitInfo` (for `PrepareProposal` the extended commit info stripped of its extensions). -/
structure CachedProposal where
  time : Nat
  proposer : Nat
  txs : List Item
  lastCommit : Option Nat
  misbehavior : Nat
  nextValHash : Nat
  height : Nat
  deriving DecidableEq, Repr, Inhabited

inductive ExecState
  | unset
  | prepared (c : CachedProposal)
  | preparedValid (c : CachedProposal)
  | checkedPreparedMismatch (c : CachedProposal)
  | executedBlock (hash : Nat) (cp : Option CachedProposal)
  | checkedExecutedBlockMismatch (hash : Nat) (cp : Option CachedProposal)
  deriving DecidableEq, Repr, Inhabited

/-- `ExecutionStateMachine::set_prepared_proposal` -/
def ExecState.setPrepared (e : ExecState) (c : CachedProposal) : Except Err ExecState :=
  match e with
  | .unset => .ok (.prepared c)
  | _ => .error .fingerprint

/-- `check_if_prepared_proposal`: new state and whether execution may be skipped -/
def ExecState.checkPrepared (e : ExecState) (c : CachedProposal) : ExecState × Bool :=
  match e with
  | .prepared c' | .preparedValid c' =>
      if c' = c then (.preparedValid c', true) else (.checkedPreparedMismatch c', false)
  | e => (e, false)

/-- `set_executed_block` -/
def ExecState.setExecuted (e : ExecState) (h : Nat) : Except Err ExecState :=
  match e with
  | .unset => .ok (.executedBlock h none)
  | .preparedValid c => .ok (.executedBlock h (some c))
  | _ => .error .fingerprint

/-- `check_if_executed_block` -/
def ExecState.checkExecuted (e : ExecState) (h : Nat) : ExecState × Bool :=
  match e with
  | .prepared c | .preparedValid c => (.checkedPreparedMismatch c, false)
  | .executedBlock h' cp =>
      if h = h' then (.executedBlock h' cp, true) else (.checkedExecutedBlockMismatch h' cp, false)
  | e => (e, false)

/-! ## proposal/block_size_constraints.rs -/

def maxSeqBytes : Nat := 256000
def usizeMax : Nat := 2 ^ 64 - 1
/-- `GeneratedCommitments::<true>::total_size()` : two encoded 32-byte roots -/
def commitmentsSize : Nat := 68

structure BSC where
  maxSeq : Nat
  maxComet : Nat
  curSeq : Nat
  curComet : Nat
  deriving DecidableEq, Repr, Inhabited

/-- `BlockSizeConstraints::new(max_tx_bytes: i64, true)` -/
def BSC.new (maxTxBytes : Int) : Except Err BSC :=
  if maxTxBytes < 0 then .error .constraints
  else if maxTxBytes.toNat < commitmentsSize then .error .constraints
  else .ok { maxSeq := maxSeqBytes, maxComet := maxTxBytes.toNat, curSeq := 0, curComet := commitmentsSize }

/-- `new_unlimited_cometbft` -/
def BSC.unlimited : BSC :=
  { maxSeq := maxSeqBytes, maxComet := usizeMax, curSeq := 0, curComet := commitmentsSize }

def BSC.seqHasSpace (b : BSC) (size : Nat) : Bool := size ≤ b.maxSeq - b.curSeq
def BSC.cometHasSpace (b : BSC) (size : Nat) : Bool := size ≤ b.maxComet - b.curComet

def BSC.seqAdd (b : BSC) (size : Nat) : Except Err BSC :=
  if b.curSeq + size > usizeMax then .error .size
  else if b.curSeq + size ≤ b.maxSeq then .ok { b with curSeq := b.curSeq + size } else .error .size

def BSC.cometAdd (b : BSC) (size : Nat) : Except Err BSC :=
  if b.curComet + size > usizeMax then .error .size
  else if b.curComet + size ≤ b.maxComet then .ok { b with curComet := b.curComet + size }
  else .error .size

/-! ## Requests -/

/-- A proposed / decided block as the application sees it (`ProcessProposal` / `FinalizeBlock`). -/
structure Block where
  height : Nat
  time : Nat
  proposer : Nat
  lastCommit : Option Nat
  misbehavior : Nat
  nextValHash : Nat
  items : List Item
  hash : Option Nat         -- `Hash::Sha256(_)` or `Hash::None`
  deriving DecidableEq, Repr, Inhabited

/-- the fingerprint a `ProcessProposal` request is compared with -/
def Block.fp (b : Block) : CachedProposal :=
  { time := b.time, proposer := b.proposer, txs := b.items, lastCommit := b.lastCommit,
    misbehavior := b.misbehavior, nextValHash := b.nextValHash, height := b.height }

/-- `PrepareProposal` plus the part of the environment it reads: the mempool's builder queue. -/
structure PrepReq where
  height : Nat
  time : Nat
  proposer : Nat
  lastCommit : Option Nat
  misbehavior : Nat
  nextValHash : Nat
  maxTxBytes : Int
  queue : List Tx
  deriving Repr, Inhabited

/-- the block-level data `pre_execute_transactions`, price application etc. depend on (`BlockData`) -/
def PrepReq.asBlock (r : PrepReq) (items : List Item) : Block :=
  { height := r.height, time := r.time, proposer := r.proposer, lastCommit := r.lastCommit,
    misbehavior := r.misbehavior, nextValHash := r.nextValHash, items := items, hash := none }

/-! ## Abstract primitives -/

inductive TxOutcome (S : Type)
  | ok (s : S)          -- executed, state delta applied
  | nonfatal            -- `NonFatalExecution`: delta dropped, included with an error code
  | invalidNonce        -- `InvalidNonce`: delta dropped
  | fatal               -- any other error: delta dropped

/-- The opaque parts of block execution. Every function reads only its arguments. -/
structure Prims (S : Type) where
  /-- `vote_extensions_enabled(height)` — reads the consensus params of the *working* state -/
  veEnabled : S → Nat → Bool
  /-- `ProposalHandler::validate_proposal` (C15) on the block's extended commit info -/
  veValid : S → Block → Bool
  /-- `pre_execute_transactions` (upgrade if due, begin_block) followed by
  `ensure_upgrade_change_hashes_as_expected`; for `PrepareProposal` the latter is vacuous -/
  pre : S → Block → Except Err S
  /-- `CheckedTransaction::new(bytes, state)`: decoding, signature, nonce not in the past, every
  action's checks against `state` -/
  constructible : S → Tx → Bool
  /-- `execute_transaction` -/
  execTx : S → Tx → TxOutcome S
  /-- `generate_rollup_datas_commitment(txs, cached deposits)` as the ids of the two encoded items -/
  roots : S → List Tx → Nat × Nat
  /-- the encoded `UpgradeChangeHashes` item (id, length) if `pre_execute_transactions` executed an
  upgrade at this height -/
  upgradeItem : S → PrepReq → Option (Nat × Nat)
  /-- the extended-commit-info item `PrepareProposal` builds (id, length) and the well-formed empty
  fallback (`ExtendedCommitInfoWithCurrencyPairMapping::empty(round)`, encoded) -/
  eciFull : S → PrepReq → Nat × Nat
  eciEmpty : PrepReq → Nat × Nat
  /-- `post_execute_transactions` after the fingerprint update: end_block, deposits, sequencer
  block, upgrades end_block. Returns the new state and an opaque digest of (events, validator
  updates, consensus-param updates). -/
  post : S → Block → List (Tx × Nat) → Except Err (S × Nat)
  /-- `apply_prices_from_vote_extensions` in a nested delta; returns the digest of its events -/
  prices : S → Block → Except Err (S × Nat)

/-! ## Typed data-item parsing (`ExpandedBlockData::new_from_typed_data`) -/

structure Parsed where
  r1 : Nat
  r2 : Nat
  upgrade : Option Nat
  eci : Option (Nat × Nat)
  txs : List Item
  deriving DecidableEq, Repr, Inhabited

def Parsed.injected (p : Parsed) : Nat :=
  2 + (if p.upgrade.isSome then 1 else 0) + (if p.eci.isSome then 1 else 0)

def parseItems (veOn : Bool) : List Item → Except Err Parsed
  | .root1 a :: .root2 b :: rest =>
      let (up, rest) : Option Nat × List Item :=
        match rest with
        | .upgrade u _ :: r => (some u, r)
        | r => (none, r)
      if veOn then
        match rest with
        | .eci bid len wf :: r =>
            if wf then .ok { r1 := a, r2 := b, upgrade := up, eci := some (bid, len), txs := r }
            else .error .parse
        | _ => .error .parse
      else .ok { r1 := a, r2 := b, upgrade := up, eci := none, txs := rest }
  | _ => .error .parse

/-! ## construct_checked_txs and the three execution loops -/

/-- `construct_checked_txs`: every remaining item must be a transaction that can be constructed
against the given (block-start) state. -/
def constructAll {S : Type} (p : Prims S) (s : S) : List Item → Except Err (List Tx)
  | [] => .ok []
  | .tx t :: rest =>
      if p.constructible s t then
        match constructAll p s rest with
        | .ok ts => .ok (t :: ts)
        | .error e => .error e
      else .error .construct
  | _ :: _ => .error .construct

/-- `AbciErrorCode::TRANSACTION_FAILED_EXECUTION` -/
def failedExecutionCode : Nat := 10

/-- an included transaction with its result code: 0 ok, `failedExecutionCode` for a non-fatal failure -/
abbrev Executed := Tx × Nat

structure LoopSt (S : Type) where
  s : S
  bsc : BSC
  group : Nat
  done : List Executed        -- in execution order

def LoopSt.init {S : Type} (s : S) (bsc : BSC) : LoopSt S :=
  { s := s, bsc := bsc, group := 4, done := [] }

/-- the tail of `proposal_checks_and_tx_execution` after a transaction was executed (or failed
non-fatally): push, grow both counters, remember the group -/
def LoopSt.push {S : Type} (st : LoopSt S) (s' : S) (t : Tx) (code : Nat) : Except Err (LoopSt S) :=
  match st.bsc.seqAdd t.seq with
  | .error e => .error e
  | .ok b1 =>
    match b1.cometAdd t.len with
    | .error e => .error e
    | .ok b2 => .ok { s := s', bsc := b2, group := t.group, done := st.done ++ [(t, code)] }

/-- `process_proposal_tx_execution`: every check is fatal -/
def procLoop {S : Type} (p : Prims S) : LoopSt S → List Tx → Except Err (LoopSt S)
  | st, [] => .ok st
  | st, t :: ts =>
      if !st.bsc.seqHasSpace t.seq then .error .seqlimit
      else if t.group > st.group then .error .group
      else
        match p.execTx st.s t with
        | .ok s' => match st.push s' t 0 with
                    | .ok st' => procLoop p st' ts
                    | .error e => .error e
        | .nonfatal => match st.push st.s t failedExecutionCode with
                    | .ok st' => procLoop p st' ts
                    | .error e => .error e
        | .invalidNonce => .error .exec
        | .fatal => .error .exec

/-- `prepare_proposal_tx_execution`: break when CometBFT space is exhausted, skip otherwise -/
def prepLoop {S : Type} (p : Prims S) : LoopSt S → List Tx → Except Err (LoopSt S)
  | st, [] => .ok st
  | st, t :: ts =>
      if !st.bsc.cometHasSpace t.len then .ok st            -- break
      else if !st.bsc.seqHasSpace t.seq then prepLoop p st ts   -- continue
      else if t.group > st.group then prepLoop p st ts          -- continue
      else
        match p.execTx st.s t with
        | .ok s' => match st.push s' t 0 with
                    | .ok st' => prepLoop p st' ts
                    | .error e => .error e
        | .nonfatal => match st.push st.s t failedExecutionCode with
                    | .ok st' => prepLoop p st' ts
                    | .error e => .error e
        | .invalidNonce => prepLoop p st ts                    -- continue (kept in mempool)
        | .fatal => prepLoop p st ts                           -- continue (removed from mempool)

/-- the loop in `finalize_block`: no size or group checks, failing transactions are ignored -/
def finLoop {S : Type} (p : Prims S) : S → List Executed → List Tx → S × List Executed
  | s, done, [] => (s, done)
  | s, done, t :: ts =>
      match p.execTx s t with
      | .ok s' => finLoop p s' (done ++ [(t, 0)]) ts
      | .nonfatal => finLoop p s (done ++ [(t, failedExecutionCode)]) ts
      | .invalidNonce => finLoop p s done ts
      | .fatal => finLoop p s done ts

/-! ## The application -/

structure PostResult where
  results : List Executed
  injected : Nat
  aux : Nat
  deriving DecidableEq, Repr, Inhabited

/-- `App`: storage's latest snapshot, the inter-block `StateDelta` with the two ephemeral objects
the pipeline keeps in it, the fingerprint, and the staged write batch. -/
structure AppState (S : Type) where
  committed : S
  work : S
  exec : ExecState
  executedTxs : Option (List Executed)     -- EXECUTED_TXS_KEY
  postResult : Option PostResult           -- POST_TRANSACTION_EXECUTION_RESULT_KEY
  writeBatch : Option S

/-- `App::new` on a storage whose latest snapshot is `σ` (also: a restarted node) -/
def AppState.init {S : Type} (σ : S) : AppState S :=
  { committed := σ, work := σ, exec := .unset, executedTxs := none, postResult := none,
    writeBatch := none }

/-- `update_state_for_new_round` -/
def AppState.reset {S : Type} (a : AppState S) : AppState S :=
  { a with work := a.committed, exec := .unset, executedTxs := none, postResult := none }

structure FinalizeResp (S : Type) where
  priceEvents : Nat
  codes : List Nat          -- one per data item: zeros for injected items, then the tx codes
  aux : Nat
  app : S                   -- the state whose root is the app hash

inductive Call
  | prepare (r : PrepReq)
  | process (b : Block)
  | finalize (b : Block)
  | commit
  | restart
  deriving Repr, Inhabited

inductive Resp (S : Type)
  | prepared (items : List Item)
  | prepareErr (e : Err)
  | accept
  | reject (e : Err)
  | finalized (r : FinalizeResp S)
  | finalizeErr (e : Err)
  | finalizePanic            -- `.expect("post_transaction_execution_result must be present …")`
  | committed
  | commitPanic              -- `.expect("write batch must be set …")`
  | restarted

/-- `post_execute_transactions`: fingerprint first, then the fallible rest. -/
def postStep {S : Type} (p : Prims S) (a : AppState S) (b : Block) (pd : Parsed)
    (ex : List Executed) : AppState S × Except Err Unit :=
  match b.hash with
  | none => (a, .error .nohash)
  | some h =>
    match a.exec.setExecuted h with
    | .error e => (a, .error e)
    | .ok ex' =>
      let a := { a with exec := ex' }
      match p.post a.work b ex with
      | .error e => (a, .error e)
      | .ok (s', aux) =>
        ({ a with work := s', postResult := some { results := ex, injected := pd.injected, aux := aux } },
         .ok ())

/-- The extended-commit-info item of a proposal: none if vote extensions are not enabled at this
height; the full item if it fits; else "try just adding an empty extended commit info": the encoded
`ExtendedCommitInfoWithCurrencyPairMapping::empty(round)` (well-formed since `fix:` commit 259c046;
the pinned behaviour is `prepEciOriginal`); else an error. -/
def prepEci {S : Type} (p : Prims S) (s : S) (r : PrepReq) (bsc : BSC) : Except Err (Option Item × BSC) :=
  if p.veEnabled s r.height then
    match r.lastCommit with
    | none => .error .nolastcommit
    | some _ =>
      match bsc.cometAdd (p.eciFull s r).2 with
      | .ok bsc' => .ok (some (.eci (p.eciFull s r).1 (p.eciFull s r).2 true), bsc')
      | .error _ =>
        match bsc.cometAdd (p.eciEmpty r).2 with
        | .ok bsc' => .ok (some (.eci (p.eciEmpty r).1 (p.eciEmpty r).2 true), bsc')
        | .error _ => .error .injected
  else .ok (none, bsc)

/-- `prepEci` as it was at the pinned commit (before `fix:` 259c046): the fallback item was
`DataItem::ExtendedCommitInfo(Bytes::new())`, which no parser accepts (`wellFormed = false`). -/
def prepEciOriginal {S : Type} (p : Prims S) (s : S) (r : PrepReq) (bsc : BSC) : Except Err (Option Item × BSC) :=
  if p.veEnabled s r.height then
    match r.lastCommit with
    | none => .error .nolastcommit
    | some _ =>
      match bsc.cometAdd (p.eciFull s r).2 with
      | .ok bsc' => .ok (some (.eci (p.eciFull s r).1 (p.eciFull s r).2 true), bsc')
      | .error _ =>
        match bsc.cometAdd (p.eciEmpty r).2 with
        | .ok bsc' => .ok (some (.eci (p.eciEmpty r).1 (p.eciEmpty r).2 false), bsc')
        | .error _ => .error .injected
  else .ok (none, bsc)

/-- The items `prepare_proposal` injects after the two commitments, with their sizes accounted:
the upgrade change hashes (if an upgrade was executed; "exceeded size limit while adding upgrade
change hashes" if they do not fit) and the extended commit info. -/
def prepInjectedWith {S : Type} (eciOf : Prims S → S → PrepReq → BSC → Except Err (Option Item × BSC))
    (p : Prims S) (s : S) (r : PrepReq) (bsc : BSC) : Except Err (List Item × BSC) :=
  match p.upgradeItem s r with
  | none =>
    match eciOf p s r bsc with
    | .error e => .error e
    | .ok (e, b) => .ok (e.toList, b)
  | some (ub, ul) =>
    match bsc.cometAdd ul with
    | .error _ => .error .injected
    | .ok bsc' =>
      match eciOf p s r bsc' with
      | .error e => .error e
      | .ok (e, b) => .ok (Item.upgrade ub ul :: e.toList, b)

/-- the injected items of the current code -/
def prepInjected {S : Type} (p : Prims S) (s : S) (r : PrepReq) (bsc : BSC) : Except Err (List Item × BSC) :=
  prepInjectedWith prepEci p s r bsc

/-- the `txs` of the `PrepareProposal` response -/
def proposalItems (r1 r2 : Nat) (inj : List Item) (done : List Executed) : List Item :=
  [Item.root1 r1, Item.root2 r2] ++ inj ++ done.map (fun e => Item.tx e.1)

/-- the fingerprint `set_prepared_proposal` stores -/
def PrepReq.fp (r : PrepReq) (items : List Item) : CachedProposal :=
  { time := r.time, proposer := r.proposer, txs := items, lastCommit := r.lastCommit,
    misbehavior := r.misbehavior, nextValHash := r.nextValHash, height := r.height }

/-- `prepare_proposal`, parametric in how the injected items are chosen -/
def stepPrepareWith {S : Type} (injOf : Prims S → S → PrepReq → BSC → Except Err (List Item × BSC))
    (p : Prims S) (a : AppState S) (r : PrepReq) : AppState S × Resp S :=
  let a := a.reset
  match p.pre a.work (r.asBlock []) with
  | .error _ => (a, .prepareErr .pre)
  | .ok s1 =>
    let a := { a with work := s1 }
    match BSC.new r.maxTxBytes with
    | .error e => (a, .prepareErr e)
    | .ok bsc =>
      match injOf p s1 r bsc with
      | .error e => (a, .prepareErr e)
      | .ok (inj, bsc) =>
        match prepLoop p (LoopSt.init s1 bsc) r.queue with
        | .error _ => (a, .prepareErr .exec)
        | .ok st =>
          let a := { a with work := st.s, executedTxs := some st.done }
          let items := proposalItems (p.roots st.s (st.done.map (·.1))).1 (p.roots st.s (st.done.map (·.1))).2 inj st.done
          match a.exec.setPrepared (r.fp items) with
          | .error e => (a, .prepareErr e)
          | .ok ex => ({ a with exec := ex }, .prepared items)

/-- `prepare_proposal` -/
def stepPrepare {S : Type} (p : Prims S) (a : AppState S) (r : PrepReq) : AppState S × Resp S :=
  stepPrepareWith prepInjected p a r

/-- `prepare_proposal` at the pinned commit (empty-bytes extended-commit-info fallback, F12) -/
def stepPrepareOriginal {S : Type} (p : Prims S) (a : AppState S) (r : PrepReq) : AppState S × Resp S :=
  stepPrepareWith (prepInjectedWith prepEciOriginal) p a r

/-- the non-cached branch of `process_proposal` up to (excluding) `post_execute_transactions` -/
def processExec {S : Type} (p : Prims S) (a : AppState S) (b : Block) (pd : Parsed) :
    AppState S × Except Err (List Executed) :=
  let a := a.reset
  let veOk : Except Err Unit :=
    if pd.eci.isSome then
      (if b.lastCommit.isNone then .error .nolastcommit
       else if p.veValid a.work b then .ok () else .error .ve)
    else .ok ()
  match veOk with
  | .error e => (a, .error e)
  | .ok _ =>
    match p.pre a.work b with
    | .error e => (a, .error e)
    | .ok s1 =>
      let a := { a with work := s1 }
      match constructAll p s1 pd.txs with
      | .error e => (a, .error e)
      | .ok txs =>
        match procLoop p (LoopSt.init s1 BSC.unlimited) txs with
        | .error e => (a, .error e)
        | .ok st =>
          let a := { a with work := st.s }
          let (r1, r2) := p.roots st.s txs
          if pd.r1 ≠ r1 then (a, .error .root1)
          else if pd.r2 ≠ r2 then (a, .error .root2)
          else (a, .ok st.done)

/-- `process_proposal` -/
def stepProcess {S : Type} (p : Prims S) (a : AppState S) (b : Block) : AppState S × Resp S :=
  let (ex1, skip) := a.exec.checkPrepared b.fp
  let a := { a with exec := ex1 }
  match parseItems (p.veEnabled a.work b.height) b.items with
  | .error e => (a, .reject e)
  | .ok pd =>
    let (a, exd) : AppState S × Except Err (List Executed) :=
      if skip then
        match a.executedTxs with
        | none => (a, .error .nocache)
        | some ex => (a, .ok ex)
      else processExec p a b pd
    match exd with
    | .error e => (a, .reject e)
    | .ok ex =>
      match postStep p a b pd ex with
      | (a, .error e) => (a, .reject e)
      | (a, .ok _) => (a, .accept)

/-- the non-cached branch of `finalize_block` after price application -/
def finalizeExec {S : Type} (p : Prims S) (a : AppState S) (b : Block) (pd : Parsed) :
    AppState S × Except Err Unit :=
  match p.pre a.work b with
  | .error e => (a, .error e)
  | .ok s1 =>
    let a := { a with work := s1 }
    match constructAll p s1 pd.txs with
    | .error e => (a, .error e)
    | .ok txs =>
      let (s2, ex) := finLoop p s1 [] txs
      postStep p { a with work := s2 } b pd ex

/-- `finalize_block` -/
def stepFinalize {S : Type} (p : Prims S) (a : AppState S) (b : Block) : AppState S × Resp S :=
  match b.hash with
  | none => (a, .finalizeErr .nohash)
  | some h =>
    let (ex1, skip) := a.exec.checkExecuted h
    let a := if skip then { a with exec := ex1 } else ({ a with exec := ex1 } : AppState S).reset
    match parseItems (p.veEnabled a.work b.height) b.items with
    | .error e => (a, .finalizeErr e)
    | .ok pd =>
      let pr : Except Err (S × Nat) :=
        if pd.eci.isSome then p.prices a.work b else .ok (a.work, 0)
      match pr with
      | .error _ => (a, .finalizeErr .prices)
      | .ok (s1, ev) =>
        let a := { a with work := s1 }
        let (a, r) : AppState S × Except Err Unit :=
          if skip then (a, .ok ()) else finalizeExec p a b pd
        match r with
        | .error e => (a, .finalizeErr e)
        | .ok _ =>
          match a.postResult with
          | none => (a, .finalizePanic)
          | some res =>
            let resp : FinalizeResp S :=
              { priceEvents := ev,
                codes := List.replicate res.injected 0 ++ res.results.map (·.2),
                aux := res.aux, app := a.work }
            -- prepare_commit: the delta is taken out and staged; `self.state` becomes a fresh
            -- delta on the latest snapshot (the ephemeral objects go with the old one)
            ({ a with writeBatch := some a.work, work := a.committed, executedTxs := none,
                      postResult := none }, .finalized resp)

/-- `commit` -/
def stepCommit {S : Type} (a : AppState S) : AppState S × Resp S :=
  match a.writeBatch with
  | none => (a, .commitPanic)
  | some s => (AppState.init s, .committed)

def step {S : Type} (p : Prims S) (a : AppState S) : Call → AppState S × Resp S
  | .prepare r => stepPrepare p a r
  | .process b => stepProcess p a b
  | .finalize b => stepFinalize p a b
  | .commit => stepCommit a
  | .restart => (AppState.init a.committed, .restarted)

/-- run a list of calls, dropping the responses -/
def runCalls {S : Type} (p : Prims S) (a : AppState S) : List Call → AppState S
  | [] => a
  | c :: cs => runCalls p (step p a c).1 cs

end Astria.Abci
