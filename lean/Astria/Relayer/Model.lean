/-
  Model of the relayer's batching (property C12):

  * `crates/astria-sequencer-relayer/src/relayer/write/conversion.rs`
      `Input::extend_from_sequencer_block` (rollup filter), `Input::try_into_payload`,
      `NextSubmission::{try_add, take}` / `TakeSubmission::poll`, `Submission`;
  * `crates/astria-sequencer-relayer/src/relayer/write/mod.rs`
      the three data arms of `BlobSubmitter::run` (`recv`, `take` + `pending_block`
      hand-over, completion of the in-flight submission) and
      `add_sequencer_block_to_next_submission` / `has_capacity`;
  * the decode side of `crates/astria-conductor/src/celestia/convert.rs`
      (select blobs by namespace, concatenate the entries of the decoded lists).

  What is data here and what is a parameter:
  * a `SequencerBlock` is already given in its split form (`split_for_celestia`): one
    metadata entry and the list of per-rollup entries in the block's order. The content of
    an entry (hashes, header, transactions, proofs) is an opaque `digest`;
  * protobuf + brotli are NOT modelled: a blob is its namespace and its list of entries;
    the compressed size of a payload is an ARBITRARY function `csize` of the blob list
    (`none` = compression / blob construction failed). Nothing is assumed about it, the
    code only ever compares the candidate's size with the limit;
  * the namespace of a rollup is an arbitrary function `ns` of the rollup id (the code
    takes the first 10 bytes, so it is not injective), the rollup filter an arbitrary list.
-/
namespace Astria.Relayer

/-- `SubmittedMetadata` (raw). `chainNs` = `sequencer_namespace(metadata)`, a function of
    `header.chain_id`; `digest` stands for everything else. -/
structure Meta where
  height : Nat
  chainNs : String
  digest : String
  deriving DecidableEq, Repr, Inhabited

/-- `SubmittedRollupData` (raw): rollup id and an opaque digest of
    (sequencer block hash, transactions, proof). -/
structure RData where
  rollup : String
  digest : String
  deriving DecidableEq, Repr, Inhabited

/-- A sequencer block as `split_for_celestia` presents it. -/
structure Block where
  md : Meta
  rollups : List RData
  deriving DecidableEq, Repr, Inhabited

def Block.height (b : Block) : Nat := b.md.height

inductive Body where
  | metaList (es : List Meta)        -- SubmittedMetadataList
  | rollupList (es : List RData)     -- SubmittedRollupDataList
  deriving DecidableEq, Repr

structure Blob where
  ns : String
  body : Body
  deriving DecidableEq, Repr

structure Cfg where
  /-- `IncludeRollup`: empty = include every rollup -/
  filter : List String
  /-- `namespace_v0_from_rollup_id` -/
  ns : String → String
  /-- compressed size of a payload (sum of the brotli-compressed blob sizes); `none` = error -/
  csize : List Blob → Option Nat
  /-- `MAX_PAYLOAD_SIZE_BYTES` -/
  max : Nat

/-- `IncludeRollup::should_include`. -/
def shouldInclude (filter : List String) (r : String) : Bool :=
  filter.isEmpty || filter.contains r

/-- `BTreeSet::insert`. -/
def insertSorted (h : Nat) : List Nat → List Nat
  | [] => [h]
  | x :: xs => if h < x then h :: x :: xs else if h = x then x :: xs else x :: insertSorted h xs

/-- `rollup_data_for_namespace.entry(namespace).or_default().push(elem)` on an association
    list in insertion order. -/
def pushData (n : String) (e : RData) : List (String × List RData) → List (String × List RData)
  | [] => [(n, [e])]
  | (k, es) :: rest => if k = n then (k, es ++ [e]) :: rest else (k, es) :: pushData n e rest

/-- `HashMap::insert` (insert or overwrite). -/
def insertKV (k v : String) : List (String × String) → List (String × String)
  | [] => [(k, v)]
  | (k', v') :: rest => if k' = k then (k', v) :: rest else (k', v') :: insertKV k v rest

/-- `HashSet::insert`. -/
def insertSet (k : String) (l : List String) : List String := if l.contains k then l else l ++ [k]

/-- `Input` with its `InputMeta`. -/
structure Input where
  metadata : List Meta := []
  rollupData : List (String × List RData) := []
  heights : List Nat := []
  seqNs : Option String := none
  included : List (String × String) := []
  excluded : List String := []
  deriving DecidableEq, Repr

def Input.numBlocks (i : Input) : Nat := i.metadata.length

/-- body of the `for elem in rollup_data` loop -/
def Input.addRollup (cfg : Cfg) (i : Input) (e : RData) : Input :=
  if shouldInclude cfg.filter e.rollup then
    { i with included := insertKV e.rollup (cfg.ns e.rollup) i.included,
             rollupData := pushData (cfg.ns e.rollup) e i.rollupData }
  else
    { i with excluded := insertSet e.rollup i.excluded }

/-- `Input::extend_from_sequencer_block`. -/
def Input.extend (cfg : Cfg) (i : Input) (b : Block) : Input :=
  let i1 : Input :=
    { i with heights := insertSorted b.height i.heights,
             seqNs := some (i.seqNs.getD b.md.chainNs),
             metadata := i.metadata ++ [b.md] }
  b.rollups.foldl (Input.addRollup cfg) i1

/-- `Input::greatest_sequencer_height` (`BTreeSet::last`). -/
def Input.greatest (i : Input) : Option Nat := i.heights.getLast?

structure Payload where
  size : Nat := 0
  blobs : List Blob := []
  deriving DecidableEq, Repr

inductive PayloadErr where
  | noSeqNs         -- TryIntoPayloadError::NoSequencerNamespacePresent
  | addToPayload    -- TryIntoPayloadError::AddToPayload (compression / blob construction)
  deriving DecidableEq, Repr

/-- The blobs `try_into_payload` builds: the metadata list under the sequencer namespace,
    then one rollup-data list per namespace. -/
def Input.blobs (i : Input) (s : String) : List Blob :=
  ⟨s, .metaList i.metadata⟩ :: i.rollupData.map (fun p => ⟨p.1, .rollupList p.2⟩)

/-- `Input::try_into_payload`. -/
def Input.tryIntoPayload (cfg : Cfg) (i : Input) : Except PayloadErr Payload :=
  match i.seqNs with
  | none => .error .noSeqNs
  | some s =>
    match cfg.csize (i.blobs s) with
    | none => .error .addToPayload
    | some n => .ok ⟨n, i.blobs s⟩

/-- `NextSubmission` (filter and limit live in `Cfg`). -/
structure Next where
  input : Input := {}
  payload : Payload := {}
  deriving DecidableEq, Repr

inductive AddRes where
  | ok
  | full (b : Block)                        -- TryAddError::Full(block)
  | oversized (height size : Nat)           -- TryAddError::OversizedBlock
  | intoPayload (e : PayloadErr)            -- TryAddError::IntoPayload
  deriving DecidableEq, Repr

/-- `NextSubmission::try_add`. -/
def Next.tryAdd (cfg : Cfg) (s : Next) (b : Block) : Next × AddRes :=
  let cand := s.input.extend cfg b
  match cand.tryIntoPayload cfg with
  | .error e => (s, .intoPayload e)
  | .ok p =>
    if p.size ≤ cfg.max then (⟨cand, p⟩, .ok)
    else if cand.numBlocks = 1 then (s, .oversized b.height p.size)
    else (s, .full b)

structure Submission where
  input : Input
  payload : Payload
  deriving DecidableEq, Repr

/-- `Submission::greatest_sequencer_height` (panics on an empty input; 0 here, shown
    unreachable by `Inv`). -/
def Submission.greatest (s : Submission) : Nat := s.input.greatest.getD 0

/-- `TakeSubmission::poll`: both fields are moved out; `None` iff the payload has no blobs. -/
def Next.take (s : Next) : Next × Option Submission :=
  if s.payload.blobs.isEmpty then ({}, none) else ({}, some ⟨s.input, s.payload⟩)

/-! ### the run loop of `BlobSubmitter` -/

structure Sub where
  next : Next := {}
  /-- `pending_block` -/
  pending : Option Block := none
  /-- `started_submission.last_submission_sequencer_height()` -/
  last : Nat := 0
  /-- greatest height of the submission in flight (`ongoing_submission` not terminated) -/
  inflight : Option Nat := none
  /-- the loop broke with a critical error -/
  failed : Bool := false
  deriving DecidableEq, Repr

inductive Op where
  | recv (b : Block)      -- a block is available on the channel
  | take                  -- the `take` arm is polled
  | done                  -- the in-flight submission completes successfully
  deriving Repr

inductive Out where
  | stopped                                   -- loop already exited
  | blocked                                   -- `has_capacity()` is false: arm disabled, block stays in the channel
  | skipped                                   -- height ≤ last submitted height
  | add (r : AddRes)                          -- result of `add_sequencer_block_to_next_submission`
  | busy                                      -- a submission is in flight: arm disabled
  | nothing                                   -- `take()` yielded `None`
  | submitted (s : Submission) (handover : Option AddRes)
  | idle                                      -- nothing in flight
  | completed                                 -- `started_submission` advanced
  | submitFailed                              -- `into_prepared` refuses a height ≤ the last submitted one
  deriving Repr

/-- `add_sequencer_block_to_next_submission`. -/
def Sub.addBlock (cfg : Cfg) (s : Sub) (b : Block) : Sub × AddRes :=
  match s.next.tryAdd cfg b with
  | (n, .ok) => ({ s with next := n }, .ok)
  | (n, .full b') => ({ s with next := n, pending := some b' }, .full b')
  | (n, r) => ({ s with next := n, failed := true }, r)

def Sub.step (cfg : Cfg) (s : Sub) : Op → Sub × Out
  | .recv b =>
    if s.failed then (s, .stopped)
    else if s.pending.isSome then (s, .blocked)
    else if b.height ≤ s.last then (s, .skipped)
    else
      let ar := s.addBlock cfg b
      (ar.1, .add ar.2)
  | .take =>
    if s.failed then (s, .stopped)
    else if s.inflight.isSome then (s, .busy)
    else
      match s.next.take with
      | (n, none) => ({ s with next := n }, .nothing)
      | (n, some sub) =>
        let s1 := { s with next := n, inflight := some sub.greatest }
        match s.pending with
        | none => (s1, .submitted sub none)
        | some b =>
          let ar := ({ s1 with pending := none }).addBlock cfg b
          (ar.1, .submitted sub (some ar.2))
  | .done =>
    if s.failed then (s, .stopped)
    else
      match s.inflight with
      | none => (s, .idle)
      | some h =>
        if h > s.last then ({ s with last := h, inflight := none }, .completed)
        else ({ s with inflight := none, failed := true }, .submitFailed)

def AddRes.isFatal : AddRes → Bool
  | .ok => false
  | .full _ => false
  | _ => true

/-- State plus the observable history (ghost fields). -/
structure Run where
  s : Sub := {}
  /-- blocks handed to `try_add` and not refused with a hard error, in order -/
  accepted : List Block := []
  /-- blocks skipped because their height was already submitted -/
  skipped : List Block := []
  /-- the block (if any) whose first `try_add` ended the loop with a hard error -/
  fatal : List Block := []
  /-- the pending block (if any) whose re-`try_add` after a take ended the loop with a hard error -/
  lost : List Block := []
  /-- submissions produced by `take`, in order -/
  emitted : List Submission := []
  deriving Repr

def handoverLost (pending : Option Block) : Option AddRes → List Block
  | some res => if res.isFatal then pending.toList else []
  | none => []

def Run.step (cfg : Cfg) (r : Run) (op : Op) : Run :=
  let so := r.s.step cfg op
  let r' := { r with s := so.1 }
  match op, so.2 with
  | .recv b, .add res =>
    if res.isFatal then { r' with fatal := r.fatal ++ [b] } else { r' with accepted := r.accepted ++ [b] }
  | .recv b, .skipped => { r' with skipped := r.skipped ++ [b] }
  | _, .submitted sub ho =>
    { r' with emitted := r.emitted ++ [sub], lost := r.lost ++ handoverLost r.s.pending ho }
  | _, _ => r'

def Run.init (last : Nat) : Run := { s := { last := last } }

def run (cfg : Cfg) (last : Nat) (ops : List Op) : Run := ops.foldl (Run.step cfg) (Run.init last)

/-! ### conductor-style decoding (`convert.rs`) -/

/-- entries of every metadata-list blob under namespace `n` (`decode_raw_blobs`, header part) -/
def decodeMeta (n : String) (blobs : List Blob) : List Meta :=
  blobs.flatMap (fun b => match b.body with
    | .metaList es => if b.ns = n then es else []
    | .rollupList _ => [])

/-- entries of every rollup-data-list blob under namespace `n` -/
def decodeRollup (n : String) (blobs : List Blob) : List RData :=
  blobs.flatMap (fun b => match b.body with
    | .rollupList es => if b.ns = n then es else []
    | .metaList _ => [])

/-- the entries stored for namespace `n` -/
def dataFor (n : String) (l : List (String × List RData)) : List RData :=
  l.flatMap (fun p => if p.1 = n then p.2 else [])

/-- what a block contributes to namespace `n` under the filter -/
def blockData (cfg : Cfg) (n : String) (b : Block) : List RData :=
  b.rollups.filter (fun e => shouldInclude cfg.filter e.rollup && decide (cfg.ns e.rollup = n))

end Astria.Relayer
