/- Model for area `batch` (stub). -/
namespace Astria.Relayer

end Astria.Relayer
