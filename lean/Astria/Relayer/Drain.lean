import Astria.Relayer.Loop
/-
  Consequences of the loop invariant: outcome of a `recv`, liveness of the hand-over
  (everything accepted is emitted after two take/complete rounds), height order, what
  conductor decodes.
-/
namespace Astria.Relayer

/-! ### no silent drop -/

/-- Every block offered to the loop is either not consumed (loop stopped / no capacity: it
    stays in the channel), skipped because its height was already submitted, accepted, or it
    ends the loop with a hard error. -/
theorem recv_outcome (cfg : Cfg) (r : Run) (b : Block) :
    ((r.s.failed = true ∨ r.s.pending.isSome = true) ∧ r.step cfg (.recv b) = r) ∨
    (b.height ≤ r.s.last ∧ (r.step cfg (.recv b)).skipped = r.skipped ++ [b] ∧
      (r.step cfg (.recv b)).accepted = r.accepted ∧ (r.step cfg (.recv b)).s = r.s) ∨
    ((r.step cfg (.recv b)).accepted = r.accepted ++ [b] ∧ (r.step cfg (.recv b)).fatal = r.fatal ∧
      (r.step cfg (.recv b)).s.failed = r.s.failed) ∨
    ((r.step cfg (.recv b)).fatal = r.fatal ++ [b] ∧ (r.step cfg (.recv b)).s.failed = true ∧
      (r.step cfg (.recv b)).accepted = r.accepted ∧ r.s.next.input.metadata = [] ∨
     (r.step cfg (.recv b)).fatal = r.fatal ++ [b] ∧ (r.step cfg (.recv b)).s.failed = true ∧
      (r.step cfg (.recv b)).accepted = r.accepted ∧
      ∃ e, (r.s.next.input.extend cfg b).tryIntoPayload cfg = .error e) := by
  by_cases hf : r.s.failed = true
  · left
    have hso : r.s.step cfg (.recv b) = (r.s, .stopped) := by rw [step_recv_eq]; simp [hf]
    exact ⟨Or.inl hf, by simp only [Run.step, hso]⟩
  · have hf' : r.s.failed = false := by simpa using hf
    by_cases hp : r.s.pending.isSome = true
    · left
      have hso : r.s.step cfg (.recv b) = (r.s, .blocked) := by rw [step_recv_eq]; simp [hf', hp]
      exact ⟨Or.inr hp, by simp only [Run.step, hso]⟩
    · by_cases hl : b.height ≤ r.s.last
      · right; left
        have hso : r.s.step cfg (.recv b) = (r.s, .skipped) := by
          rw [step_recv_eq]; simp [hf', hp, hl]
        simp only [Run.step, hso]
        exact ⟨hl, trivial, trivial, trivial⟩
      · have hso : r.s.step cfg (.recv b) = ((r.s.addBlock cfg b).1, .add (r.s.addBlock cfg b).2) := by
          rw [step_recv_eq]; simp [hf', hp, hl]
        have hc := tryAdd_cases cfg r.s.next b
        rcases addBlock_cases cfg r.s b with ⟨p, _, _, hab⟩ | ⟨_, hab⟩ | ⟨res, hfat, hab⟩
        · right; right; left
          simp only [Run.step, hso, hab, AddRes.isFatal, Bool.false_eq_true, ↓reduceIte]
          exact ⟨trivial, trivial, trivial⟩
        · right; right; left
          simp only [Run.step, hso, hab, AddRes.isFatal, Bool.false_eq_true, ↓reduceIte]
          exact ⟨trivial, trivial, trivial⟩
        · right; right; right
          simp only [Run.step, hso, hab, hfat, ↓reduceIte]
          -- which hard error: oversized needs an empty batch, into-payload a failed conversion
          rcases hc with ⟨h2, _⟩ | ⟨h2, _⟩ | ⟨⟨_, _, _⟩, _, hemp⟩ | ⟨⟨e, _, he⟩, _⟩
          · have : (r.s.addBlock cfg b).2 = .ok := by
              unfold Sub.addBlock
              rcases hh : r.s.next.tryAdd cfg b with ⟨n, res'⟩
              rw [hh] at h2; simp only at h2; subst h2; rfl
            rw [hab] at this; simp only at this; subst this; simp [AddRes.isFatal] at hfat
          · have : (r.s.addBlock cfg b).2 = .full b := by
              unfold Sub.addBlock
              rcases hh : r.s.next.tryAdd cfg b with ⟨n, res'⟩
              rw [hh] at h2; simp only at h2; subst h2; rfl
            rw [hab] at this; simp only at this; subst this; simp [AddRes.isFatal] at hfat
          · exact Or.inl ⟨trivial, trivial, trivial, hemp⟩
          · exact Or.inr ⟨trivial, trivial, trivial, e, he⟩

/-! ### liveness of the hand-over -/

/-- the part of the invariant that the drain argument needs -/
def Sub.Ready (cfg : Cfg) (s : Sub) : Prop :=
  s.next.WF cfg ∧ (s.pending.isSome = true → s.next.input.metadata ≠ [])

def Sub.Quiet (s : Sub) : Prop := s.next = {} ∧ s.pending = none

theorem ready_of_inv (cfg : Cfg) (r : Run) (h : Inv cfg r) : r.s.Ready cfg :=
  ⟨h.nextWF, h.pendingNonEmpty⟩

/-- completion of the in-flight submission: afterwards nothing is in flight (or the loop
    failed); batch and pending block are untouched -/
theorem done_effect (cfg : Cfg) (s : Sub) :
    ((s.step cfg .done).1.failed = true ∨ (s.step cfg .done).1.inflight = none) ∧
    (s.step cfg .done).1.next = s.next ∧ (s.step cfg .done).1.pending = s.pending := by
  by_cases hf : s.failed = true
  · simp [Sub.step, hf]
  · have hf' : s.failed = false := by simpa using hf
    cases hi : s.inflight with
    | none => simp [Sub.step, hf', hi]
    | some g =>
      by_cases hg : g > s.last
      · simp [Sub.step, hf', hi, hg]
      · simp [Sub.step, hf', hi, hg]

/-- an enabled `take`: afterwards nothing is pending, and the batch holds at most the block
    that was pending -/
theorem take_effect (cfg : Cfg) (s : Sub) (hr : s.Ready cfg) (hf : s.failed = false)
    (hi : s.inflight = none) :
    (s.step cfg .take).1.failed = true ∨
    ((s.step cfg .take).1.pending = none ∧ (s.step cfg .take).1.Ready cfg ∧
      (s.pending = none → (s.step cfg .take).1.next = {})) := by
  rcases take_step_cases cfg s hr.1 hf hi with ⟨hso, hnext⟩ | ⟨_, hpend, hso⟩ | ⟨_, b, hpend, hso⟩
  · right
    rw [hso]
    have hp : s.pending = none := by
      cases hpp : s.pending with
      | none => rfl
      | some b =>
        have := hr.2 (by simp [hpp])
        rw [hnext] at this
        simp at this
    exact ⟨hp, hr, fun _ => hnext⟩
  · right
    rw [hso]
    refine ⟨rfl, ⟨wf_empty cfg, ?_⟩, fun _ => rfl⟩
    intro h; simp [Sub.afterTake] at h
  · rcases addBlock_cases cfg s.afterTake b with ⟨p, hpay, hle, hab⟩ | ⟨hne, _⟩ | ⟨res, _, hab⟩
    · right
      rw [hso, hab]
      refine ⟨rfl, ⟨?_, ?_⟩, ?_⟩
      · right
        have hnd0 : (keys ({} : Input).rollupData).Nodup := by simp [keys]
        exact ⟨by simp [extend_metadata], hpay, hle, (extend_data cfg _ b "" hnd0).1,
          extend_heightsOK cfg _ b (by simp [Input.HeightsOK, Sub.afterTake])⟩
      · intro h; simp [Sub.afterTake] at h
      · intro h; rw [hpend] at h; cases h
    · exact absurd rfl hne
    · left
      rw [hso, hab]

/-- Two rounds of (in-flight submission completes, take) empty the submitter: unless the loop
    failed hard, nothing accepted stays behind. -/
theorem drain (cfg : Cfg) (s : Sub) (hr : s.Ready cfg) :
    let s1 := (s.step cfg .done).1
    let s2 := (s1.step cfg .take).1
    let s3 := (s2.step cfg .done).1
    let s4 := (s3.step cfg .take).1
    s4.failed = true ∨ s4.Quiet := by
  intro s1 s2 s3 s4
  have stuck : ∀ (t : Sub) (op : Op), t.failed = true → (t.step cfg op).1.failed = true := by
    intro t op ht
    cases op <;> simp [Sub.step, ht]
  have d1 := done_effect cfg s
  have r1 : s1.Ready cfg := by
    refine ⟨by rw [show s1.next = s.next from d1.2.1]; exact hr.1, ?_⟩
    rw [show s1.pending = s.pending from d1.2.2, show s1.next = s.next from d1.2.1]
    exact hr.2
  by_cases f1 : s1.failed = true
  · exact Or.inl (stuck _ _ (stuck _ _ (stuck _ _ f1)))
  · have f1' : s1.failed = false := by simpa using f1
    have i1 : s1.inflight = none := by
      rcases d1.1 with h | h
      · exact absurd h f1
      · exact h
    rcases take_effect cfg s1 r1 f1' i1 with f2 | ⟨p2, r2, _⟩
    · exact Or.inl (stuck _ _ (stuck _ _ f2))
    · have d3 := done_effect cfg s2
      have r3 : s3.Ready cfg := by
        refine ⟨by rw [show s3.next = s2.next from d3.2.1]; exact r2.1, ?_⟩
        rw [show s3.pending = s2.pending from d3.2.2, show s3.next = s2.next from d3.2.1]
        exact r2.2
      have p3 : s3.pending = none := by rw [show s3.pending = s2.pending from d3.2.2]; exact p2
      by_cases f3 : s3.failed = true
      · exact Or.inl (stuck _ _ f3)
      · have f3' : s3.failed = false := by simpa using f3
        have i3 : s3.inflight = none := by
          rcases d3.1 with h | h
          · exact absurd h f3
          · exact h
        rcases take_effect cfg s3 r3 f3' i3 with f4 | ⟨p4, _, n4⟩
        · exact Or.inl f4
        · exact Or.inr ⟨n4 p3, p4⟩

/-- the ghost fields never influence the state -/
theorem Run.step_s (cfg : Cfg) (r : Run) (op : Op) : (r.step cfg op).s = (r.s.step cfg op).1 := by
  unfold Run.step
  simp only
  split
  · split <;> rfl
  · rfl
  · rfl
  · rfl

/-! ### heights -/

theorem greatest_is_max (cfg : Cfg) (sub : Submission) (h : sub.WF cfg) :
    (∃ m ∈ sub.input.metadata, m.height = sub.greatest) ∧
    ∀ m ∈ sub.input.metadata, m.height ≤ sub.greatest := by
  obtain ⟨hne, _, _, _, hs, hmem⟩ := h
  have hhne : sub.input.heights ≠ [] := by
    intro he
    cases hm : sub.input.metadata with
    | nil => exact hne hm
    | cons m rest =>
      have := (hmem m.height).2 ⟨m, by simp [hm], rfl⟩
      rw [he] at this
      simp at this
  obtain ⟨g, hg⟩ : ∃ g, sub.input.heights.getLast? = some g := by
    cases hl : sub.input.heights.getLast? with
    | none => simp [List.getLast?_eq_none_iff] at hl; exact absurd hl hhne
    | some g => exact ⟨g, rfl⟩
  have hgr : sub.greatest = g := by simp [Submission.greatest, Input.greatest, hg]
  have := le_getLast_of_sorted sub.input.heights hs g hg
  rw [hgr]
  constructor
  · exact (hmem g).1 this.1
  · intro m hm
    exact this.2 m.height ((hmem m.height).2 ⟨m, hm, rfl⟩)

/-! ### what a submission carries, and what conductor decodes from it -/

/-- the blobs of a well-formed submission are `try_into_payload` of its input, their size is
    the accounted size, and it is within the limit -/
theorem wf_payload (cfg : Cfg) (sub : Submission) (h : sub.WF cfg) :
    ∃ s, sub.input.seqNs = some s ∧ sub.payload.blobs = sub.input.blobs s ∧
      cfg.csize sub.payload.blobs = some sub.payload.size ∧ sub.payload.size ≤ cfg.max := by
  obtain ⟨_, hp, hle, _, _⟩ := h
  obtain ⟨s, hs, hb, hc⟩ := tryIntoPayload_ok cfg sub.input sub.payload hp
  exact ⟨s, hs, hb, hc, hle⟩

/-- conductor's view of one submission -/
def Submission.decodedMeta (sub : Submission) : List Meta :=
  decodeMeta (sub.input.seqNs.getD "") sub.payload.blobs

theorem wf_decode (cfg : Cfg) (sub : Submission) (h : sub.WF cfg) :
    sub.decodedMeta = sub.input.metadata ∧
    ∀ n, decodeRollup n sub.payload.blobs = dataFor n sub.input.rollupData := by
  obtain ⟨s, hs, hb, _, _⟩ := wf_payload cfg sub h
  have := decode_blobs sub.input s
  unfold Submission.decodedMeta
  rw [hs, hb]
  exact this

theorem decoded_all (cfg : Cfg) (em : List Submission) (h : ∀ sub ∈ em, sub.WF cfg) :
    em.flatMap (·.decodedMeta) = metasOf em ∧
    ∀ n, em.flatMap (fun sub => decodeRollup n sub.payload.blobs) = dataOf n em := by
  induction em with
  | nil => simp [metasOf, dataOf]
  | cons a rest ih =>
    have ha := wf_decode cfg a (h a (by simp))
    have ih' := ih (fun sub hm => h sub (by simp [hm]))
    constructor
    · simp only [List.flatMap_cons, metasOf] at ih' ⊢
      rw [ha.1, ih'.1]
    · intro n
      simp only [List.flatMap_cons, dataOf] at ih' ⊢
      rw [ha.2 n, ih'.2 n]

theorem metadata_sublist (em : List Submission) (sub : Submission) (h : sub ∈ em) :
    sub.input.metadata.Sublist (metasOf em) := by
  induction em with
  | nil => simp at h
  | cons a rest ih =>
    simp only [metasOf, List.flatMap_cons]
    rcases List.mem_cons.1 h with e | e
    · subst e
      exact List.sublist_append_left _ _
    · exact List.Sublist.trans (ih e) (List.sublist_append_right _ _)

/-! ### the accepted blocks are a subsequence of the offered ones -/

/-- the blocks offered to the loop, in order -/
def recvBlocks : List Op → List Block
  | [] => []
  | .recv b :: t => b :: recvBlocks t
  | _ :: t => recvBlocks t

theorem step_accepted (cfg : Cfg) (r : Run) (op : Op) :
    (r.step cfg op).accepted = r.accepted ∨
    ∃ b, op = .recv b ∧ (r.step cfg op).accepted = r.accepted ++ [b] := by
  unfold Run.step
  simp only
  split
  · rename_i b res _
    split
    · exact Or.inl rfl
    · exact Or.inr ⟨b, rfl, rfl⟩
  · exact Or.inl rfl
  · exact Or.inl rfl
  · exact Or.inl rfl

theorem accepted_sublist (cfg : Cfg) (ops : List Op) (r : Run) :
    ∃ X, (ops.foldl (Run.step cfg) r).accepted = r.accepted ++ X ∧ X.Sublist (recvBlocks ops) := by
  induction ops generalizing r with
  | nil => exact ⟨[], by simp, List.Sublist.refl _⟩
  | cons op rest ih =>
    obtain ⟨X, hX, hs⟩ := ih (r.step cfg op)
    simp only [List.foldl_cons]
    rcases step_accepted cfg r op with h | ⟨b, hop, h⟩
    · refine ⟨X, by rw [hX, h], ?_⟩
      cases op with
      | recv b => exact List.Sublist.cons _ hs
      | take => exact hs
      | done => exact hs
    · subst hop
      refine ⟨b :: X, by rw [hX, h]; simp, ?_⟩
      exact List.Sublist.cons_cons _ hs

end Astria.Relayer
