import Astria.Relayer.Model
/-
  Theorems about the batching model, for all block streams, all `csize`, all filters, all
  namespace functions, all limits.
-/
namespace Astria.Relayer

/-! ### association list of per-namespace entries -/

def keys (l : List (String × List RData)) : List String := l.map (·.1)

theorem dataFor_nil_of_not_mem (n : String) (l : List (String × List RData)) (h : n ∉ keys l) :
    dataFor n l = [] := by
  induction l with
  | nil => rfl
  | cons p rest ih =>
    simp only [keys, List.map_cons, List.mem_cons, not_or] at h
    have ih' := ih (by simpa [keys] using h.2)
    have hne : ¬ p.1 = n := fun e => h.1 e.symm
    simp [dataFor, hne] at ih' ⊢
    exact ih'

theorem mem_keys_pushData (n m : String) (e : RData) (l : List (String × List RData)) :
    m ∈ keys (pushData n e l) ↔ m = n ∨ m ∈ keys l := by
  induction l with
  | nil => simp [pushData, keys]
  | cons p rest ih =>
    obtain ⟨k, es⟩ := p
    unfold pushData
    by_cases hk : k = n
    · subst hk
      simp [keys]
    · simp only [hk, if_false]
      simp only [keys, List.map_cons, List.mem_cons] at ih ⊢
      rw [ih]
      constructor
      · rintro (h | h | h)
        · exact Or.inr (Or.inl h)
        · exact Or.inl h
        · exact Or.inr (Or.inr h)
      · rintro (h | h | h)
        · exact Or.inr (Or.inl h)
        · exact Or.inl h
        · exact Or.inr (Or.inr h)

theorem nodup_pushData (n : String) (e : RData) (l : List (String × List RData))
    (h : (keys l).Nodup) : (keys (pushData n e l)).Nodup := by
  induction l with
  | nil => simp [pushData, keys]
  | cons p rest ih =>
    obtain ⟨k, es⟩ := p
    unfold pushData
    simp only [keys, List.map_cons, List.nodup_cons] at h
    by_cases hk : k = n
    · subst hk
      simpa [keys] using h
    · simp only [hk, if_false, keys, List.map_cons, List.nodup_cons]
      refine ⟨?_, ih h.2⟩
      intro hm
      have := (mem_keys_pushData n k e rest).1 (by simpa [keys] using hm)
      rcases this with h1 | h1
      · exact hk h1
      · exact h.1 (by simpa [keys] using h1)

theorem dataFor_cons (n : String) (p : String × List RData) (l : List (String × List RData)) :
    dataFor n (p :: l) = (if p.1 = n then p.2 else []) ++ dataFor n l := by
  simp [dataFor]

theorem dataFor_pushData (n m : String) (e : RData) (l : List (String × List RData))
    (h : (keys l).Nodup) :
    dataFor m (pushData n e l) = dataFor m l ++ (if n = m then [e] else []) := by
  induction l with
  | nil =>
    by_cases hnm : n = m <;> simp [pushData, dataFor, hnm]
  | cons p rest ih =>
    obtain ⟨k, es⟩ := p
    simp only [keys, List.map_cons, List.nodup_cons] at h
    unfold pushData
    by_cases hk : k = n
    · subst hk
      simp only [if_true, dataFor_cons]
      by_cases hkm : k = m
      · subst hkm
        have hr : dataFor k rest = [] := dataFor_nil_of_not_mem k rest (by simpa [keys] using h.1)
        simp [hr]
      · simp [hkm]
    · simp only [hk, if_false, dataFor_cons]
      rw [ih h.2]
      simp [List.append_assoc]

/-! ### `Input::extend_from_sequencer_block` -/

theorem addRollup_fields (cfg : Cfg) (i : Input) (e : RData) :
    (i.addRollup cfg e).metadata = i.metadata ∧ (i.addRollup cfg e).heights = i.heights ∧
    (i.addRollup cfg e).seqNs = i.seqNs := by
  unfold Input.addRollup
  split <;> simp

theorem foldl_addRollup_fields (cfg : Cfg) (es : List RData) (i : Input) :
    (es.foldl (Input.addRollup cfg) i).metadata = i.metadata ∧
    (es.foldl (Input.addRollup cfg) i).heights = i.heights ∧
    (es.foldl (Input.addRollup cfg) i).seqNs = i.seqNs := by
  induction es generalizing i with
  | nil => simp
  | cons e rest ih =>
    simp only [List.foldl_cons]
    have h1 := ih (i.addRollup cfg e)
    have h2 := addRollup_fields cfg i e
    exact ⟨h1.1.trans h2.1, h1.2.1.trans h2.2.1, h1.2.2.trans h2.2.2⟩

theorem addRollup_nodup (cfg : Cfg) (i : Input) (e : RData) (h : (keys i.rollupData).Nodup) :
    (keys (i.addRollup cfg e).rollupData).Nodup := by
  unfold Input.addRollup
  split
  · exact nodup_pushData _ _ _ h
  · exact h

theorem addRollup_dataFor (cfg : Cfg) (i : Input) (e : RData) (n : String)
    (h : (keys i.rollupData).Nodup) :
    dataFor n (i.addRollup cfg e).rollupData =
      dataFor n i.rollupData ++
        (if (shouldInclude cfg.filter e.rollup && decide (cfg.ns e.rollup = n)) = true then [e] else []) := by
  unfold Input.addRollup
  by_cases hs : shouldInclude cfg.filter e.rollup = true
  · simp only [hs, if_true, Bool.true_and, decide_eq_true_eq]
    exact dataFor_pushData _ _ _ _ h
  · simp [hs]

theorem foldl_addRollup_data (cfg : Cfg) (es : List RData) (i : Input) (n : String)
    (h : (keys i.rollupData).Nodup) :
    (keys (es.foldl (Input.addRollup cfg) i).rollupData).Nodup ∧
    dataFor n (es.foldl (Input.addRollup cfg) i).rollupData =
      dataFor n i.rollupData ++
        es.filter (fun e => shouldInclude cfg.filter e.rollup && decide (cfg.ns e.rollup = n)) := by
  induction es generalizing i with
  | nil => simp [h]
  | cons e rest ih =>
    simp only [List.foldl_cons]
    have h1 := ih (i.addRollup cfg e) (addRollup_nodup cfg i e h)
    refine ⟨h1.1, ?_⟩
    rw [h1.2, addRollup_dataFor cfg i e n h, List.filter_cons]
    split <;> simp

theorem extend_metadata (cfg : Cfg) (i : Input) (b : Block) :
    (i.extend cfg b).metadata = i.metadata ++ [b.md] := by
  unfold Input.extend
  exact (foldl_addRollup_fields cfg b.rollups _).1

theorem extend_heights (cfg : Cfg) (i : Input) (b : Block) :
    (i.extend cfg b).heights = insertSorted b.height i.heights := by
  unfold Input.extend
  exact (foldl_addRollup_fields cfg b.rollups _).2.1

theorem extend_seqNs (cfg : Cfg) (i : Input) (b : Block) :
    (i.extend cfg b).seqNs = some (i.seqNs.getD b.md.chainNs) := by
  unfold Input.extend
  exact (foldl_addRollup_fields cfg b.rollups _).2.2

theorem extend_data (cfg : Cfg) (i : Input) (b : Block) (n : String)
    (h : (keys i.rollupData).Nodup) :
    (keys (i.extend cfg b).rollupData).Nodup ∧
    dataFor n (i.extend cfg b).rollupData = dataFor n i.rollupData ++ blockData cfg n b := by
  unfold Input.extend blockData
  exact foldl_addRollup_data cfg b.rollups _ n h

/-! ### the height set (`BTreeSet`) -/

theorem mem_insertSorted (h x : Nat) (l : List Nat) : x ∈ insertSorted h l ↔ x = h ∨ x ∈ l := by
  induction l with
  | nil => simp [insertSorted]
  | cons y ys ih =>
    unfold insertSorted
    by_cases h1 : h < y
    · simp [h1]
    · by_cases h2 : h = y
      · subst h2; simp
      · simp only [h1, h2, if_false, List.mem_cons, ih]
        constructor
        · rintro (a | a | a)
          · exact Or.inr (Or.inl a)
          · exact Or.inl a
          · exact Or.inr (Or.inr a)
        · rintro (a | a | a)
          · exact Or.inr (Or.inl a)
          · exact Or.inl a
          · exact Or.inr (Or.inr a)

theorem sorted_insertSorted (h : Nat) (l : List Nat) (hs : l.Pairwise (· < ·)) :
    (insertSorted h l).Pairwise (· < ·) := by
  induction l with
  | nil => simp [insertSorted]
  | cons y ys ih =>
    unfold insertSorted
    rw [List.pairwise_cons] at hs
    by_cases h1 : h < y
    · simp only [h1, if_true, List.pairwise_cons]
      refine ⟨?_, hs⟩
      intro a ha
      rcases List.mem_cons.1 ha with e | e
      · omega
      · have := hs.1 a e; omega
    · by_cases h2 : h = y
      · subst h2
        simp only [Nat.lt_irrefl, if_false, if_true, List.pairwise_cons]
        exact hs
      · simp only [h1, h2, if_false, List.pairwise_cons]
        refine ⟨?_, ih hs.2⟩
        intro a ha
        rcases (mem_insertSorted h a ys).1 ha with e | e
        · omega
        · exact hs.1 a e

/-- the last element of a strictly increasing list bounds every element -/
theorem le_getLast_of_sorted (l : List Nat) (hs : l.Pairwise (· < ·)) (g : Nat)
    (hg : l.getLast? = some g) : g ∈ l ∧ ∀ x ∈ l, x ≤ g := by
  induction l with
  | nil => simp at hg
  | cons y ys ih =>
    rw [List.pairwise_cons] at hs
    cases ys with
    | nil =>
      simp at hg
      subst hg
      simp
    | cons z zs =>
      have hg' : (z :: zs).getLast? = some g := by simpa [List.getLast?_cons_cons] using hg
      have := ih hs.2 hg'
      refine ⟨List.mem_cons_of_mem _ this.1, ?_⟩
      intro x hx
      rcases List.mem_cons.1 hx with e | e
      · have := hs.1 g this.1; omega
      · exact this.2 x e

/-- the height set is the strictly sorted set of the metadata heights -/
def Input.HeightsOK (i : Input) : Prop :=
  i.heights.Pairwise (· < ·) ∧ ∀ x, x ∈ i.heights ↔ ∃ m ∈ i.metadata, m.height = x

theorem extend_heightsOK (cfg : Cfg) (i : Input) (b : Block) (h : i.HeightsOK) :
    (i.extend cfg b).HeightsOK := by
  unfold Input.HeightsOK
  rw [extend_heights, extend_metadata]
  refine ⟨sorted_insertSorted _ _ h.1, ?_⟩
  intro x
  rw [mem_insertSorted, h.2 x]
  constructor
  · rintro (e | ⟨m, hm, e⟩)
    · exact ⟨b.md, by simp, by simp [e, Block.height]⟩
    · exact ⟨m, by simp [hm], e⟩
  · rintro ⟨m, hm, e⟩
    rcases List.mem_append.1 hm with hm | hm
    · exact Or.inr ⟨m, hm, e⟩
    · simp at hm
      subst hm
      exact Or.inl (by simp [← e, Block.height])

/-! ### `NextSubmission` -/

/-- Well-formedness of an accumulated batch: either completely empty, or the payload is
    exactly what `try_into_payload` makes of the input, within the limit. -/
def Next.WF (cfg : Cfg) (s : Next) : Prop :=
  (s.input = {} ∧ s.payload = {}) ∨
  (s.input.metadata ≠ [] ∧ s.input.tryIntoPayload cfg = .ok s.payload ∧ s.payload.size ≤ cfg.max ∧
    (keys s.input.rollupData).Nodup ∧ s.input.HeightsOK)

theorem wf_empty (cfg : Cfg) : Next.WF cfg {} := Or.inl ⟨rfl, rfl⟩

theorem nodup_of_wf (cfg : Cfg) (s : Next) (h : s.WF cfg) : (keys s.input.rollupData).Nodup := by
  rcases h with ⟨hi, _⟩ | ⟨_, _, _, hn, _⟩
  · rw [hi]; simp [keys]
  · exact hn

theorem heightsOK_of_wf (cfg : Cfg) (s : Next) (h : s.WF cfg) : s.input.HeightsOK := by
  rcases h with ⟨hi, _⟩ | ⟨_, _, _, _, hh⟩
  · rw [hi]; simp [Input.HeightsOK]
  · exact hh

/-- a successful `try_into_payload` yields a non-empty blob list that is `Input.blobs` -/
theorem tryIntoPayload_ok (cfg : Cfg) (i : Input) (p : Payload) (h : i.tryIntoPayload cfg = .ok p) :
    ∃ s, i.seqNs = some s ∧ p.blobs = i.blobs s ∧ cfg.csize p.blobs = some p.size := by
  unfold Input.tryIntoPayload at h
  split at h
  · simp at h
  · rename_i s hs
    split at h
    · simp at h
    · rename_i n hn
      simp only [Except.ok.injEq] at h
      subst h
      exact ⟨s, hs, rfl, hn⟩

theorem blobs_ne_nil (i : Input) (s : String) : i.blobs s ≠ [] := by simp [Input.blobs]

theorem tryAdd_of_error (cfg : Cfg) (s : Next) (b : Block) (e : PayloadErr)
    (hp : (s.input.extend cfg b).tryIntoPayload cfg = .error e) :
    s.tryAdd cfg b = (s, .intoPayload e) := by
  simp only [Next.tryAdd, hp]

theorem tryAdd_of_ok (cfg : Cfg) (s : Next) (b : Block) (p : Payload)
    (hp : (s.input.extend cfg b).tryIntoPayload cfg = .ok p) :
    s.tryAdd cfg b =
      if p.size ≤ cfg.max then (⟨s.input.extend cfg b, p⟩, .ok)
      else if (s.input.extend cfg b).numBlocks = 1 then (s, .oversized b.height p.size)
      else (s, .full b) := by
  simp only [Next.tryAdd, hp]

/-- Everything `try_add` can do. -/
theorem tryAdd_cases (cfg : Cfg) (s : Next) (b : Block) :
    ((s.tryAdd cfg b).2 = .ok ∧ ∃ p, (s.input.extend cfg b).tryIntoPayload cfg = .ok p ∧ p.size ≤ cfg.max ∧
        (s.tryAdd cfg b).1 = ⟨s.input.extend cfg b, p⟩) ∨
    ((s.tryAdd cfg b).2 = .full b ∧ (s.tryAdd cfg b).1 = s ∧ s.input.metadata ≠ [] ∧
        ∃ p, (s.input.extend cfg b).tryIntoPayload cfg = .ok p ∧ cfg.max < p.size) ∨
    ((∃ sz, (s.tryAdd cfg b).2 = .oversized b.height sz ∧ cfg.max < sz ∧
        ∃ p, (s.input.extend cfg b).tryIntoPayload cfg = .ok p ∧ p.size = sz) ∧
        (s.tryAdd cfg b).1 = s ∧ s.input.metadata = []) ∨
    ((∃ e, (s.tryAdd cfg b).2 = .intoPayload e ∧ (s.input.extend cfg b).tryIntoPayload cfg = .error e) ∧
        (s.tryAdd cfg b).1 = s) := by
  cases hp : (s.input.extend cfg b).tryIntoPayload cfg with
  | error e =>
    right; right; right
    rw [tryAdd_of_error cfg s b e hp]
    exact ⟨⟨e, rfl, rfl⟩, rfl⟩
  | ok p =>
    rw [tryAdd_of_ok cfg s b p hp]
    have hlen : (s.input.extend cfg b).numBlocks = s.input.metadata.length + 1 := by
      simp [Input.numBlocks, extend_metadata]
    by_cases h1 : p.size ≤ cfg.max
    · left
      rw [if_pos h1]
      exact ⟨rfl, p, rfl, h1, rfl⟩
    · rw [if_neg h1]
      by_cases h2 : (s.input.extend cfg b).numBlocks = 1
      · right; right; left
        rw [if_pos h2]
        refine ⟨⟨p.size, rfl, by omega, p, rfl, rfl⟩, rfl, ?_⟩
        have : s.input.metadata.length = 0 := by omega
        exact List.eq_nil_of_length_eq_zero this
      · right; left
        rw [if_neg h2]
        refine ⟨rfl, rfl, ?_, p, rfl, by omega⟩
        intro he
        rw [hlen, he] at h2
        simp at h2

/-- `try_add` into an EMPTY batch never answers `Full`: a block that is too large alone is a
    hard error (`OversizedBlock`), never bounced back as pending. -/
theorem tryAdd_empty_not_full (cfg : Cfg) (s : Next) (b b' : Block) (h : s.input.metadata = []) :
    (s.tryAdd cfg b).2 ≠ .full b' := by
  have hc := tryAdd_cases cfg s b
  rcases hc with ⟨h1, _⟩ | ⟨_, _, h3, _⟩ | ⟨⟨sz, h1, _⟩, _⟩ | ⟨⟨e, h1, _⟩, _⟩
  · rw [h1]; simp
  · exact absurd h h3
  · rw [h1]; simp
  · rw [h1]; simp

theorem tryAdd_wf (cfg : Cfg) (s : Next) (b : Block) (h : s.WF cfg) : (s.tryAdd cfg b).1.WF cfg := by
  have hc := tryAdd_cases cfg s b
  rcases hc with ⟨_, p, hp, hle, hs⟩ | ⟨_, hs, _⟩ | ⟨_, hs, _⟩ | ⟨_, hs⟩
  · rw [hs]
    right
    refine ⟨?_, hp, hle, (extend_data cfg s.input b "" (nodup_of_wf cfg s h)).1,
      extend_heightsOK cfg s.input b (heightsOK_of_wf cfg s h)⟩
    simp [extend_metadata]
  · rw [hs]; exact h
  · rw [hs]; exact h
  · rw [hs]; exact h

/-- `take` resets the batch; what it hands out is a well-formed, non-empty batch. -/
theorem take_cases (cfg : Cfg) (s : Next) (h : s.WF cfg) :
    (s.take).1 = {} ∧
    (((s.take).2 = none ∧ s.input = {} ∧ s.payload = {}) ∨
     ((s.take).2 = some ⟨s.input, s.payload⟩ ∧ s.input.metadata ≠ [])) := by
  unfold Next.take
  rcases h with ⟨hi, hp⟩ | ⟨hne, hpay, _, _, _⟩
  · simp [hp, hi]
  · obtain ⟨ns, _, hb, _⟩ := tryIntoPayload_ok cfg s.input s.payload hpay
    have : s.payload.blobs.isEmpty = false := by
      rw [hb]; simp [Input.blobs]
    simp [this, hne]

/-! ### decode ∘ encode -/

theorem decodeMeta_rollups (n : String) (l : List (String × List RData)) :
    decodeMeta n (l.map (fun p => (⟨p.1, .rollupList p.2⟩ : Blob))) = [] := by
  induction l with
  | nil => rfl
  | cons p rest ih =>
    simp only [decodeMeta, List.map_cons, List.flatMap_cons] at ih ⊢
    simp [ih]

theorem decodeRollup_rollups (n : String) (l : List (String × List RData)) :
    decodeRollup n (l.map (fun p => (⟨p.1, .rollupList p.2⟩ : Blob))) = dataFor n l := by
  induction l with
  | nil => rfl
  | cons p rest ih =>
    simp only [decodeRollup, dataFor, List.map_cons, List.flatMap_cons] at ih ⊢
    rw [ih]

/-- Decoding the blobs of an input the way conductor does gives back the entry lists:
    the metadata list under the sequencer namespace, and for every namespace the stored
    rollup entries. -/
theorem decode_blobs (i : Input) (s : String) :
    decodeMeta s (i.blobs s) = i.metadata ∧ ∀ n, decodeRollup n (i.blobs s) = dataFor n i.rollupData := by
  constructor
  · have := decodeMeta_rollups s i.rollupData
    simp only [decodeMeta, Input.blobs, List.flatMap_cons] at this ⊢
    simp [this]
  · intro n
    have := decodeRollup_rollups n i.rollupData
    simp only [decodeRollup, Input.blobs, List.flatMap_cons] at this ⊢
    simp [this]

/-- a metadata blob under another namespace than the one asked for contributes nothing -/
theorem decodeMeta_other (i : Input) (s n : String) (h : s ≠ n) : decodeMeta n (i.blobs s) = [] := by
  have := decodeMeta_rollups n i.rollupData
  simp only [decodeMeta, Input.blobs, List.flatMap_cons] at this ⊢
  simp [this, h]

end Astria.Relayer
