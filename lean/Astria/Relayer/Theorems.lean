import Astria.Relayer.Model
/- Theorems for area `batch` (stub). -/
namespace Astria.Relayer

end Astria.Relayer
