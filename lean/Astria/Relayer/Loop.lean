import Astria.Relayer.Theorems
/-
  The run loop of `BlobSubmitter` (recv / take + pending hand-over / completion): invariant
  over ALL operation sequences.
-/
namespace Astria.Relayer

def metasOf (em : List Submission) : List Meta := em.flatMap (·.input.metadata)

def dataOf (n : String) (em : List Submission) : List RData :=
  em.flatMap (fun s => dataFor n s.input.rollupData)

/-- what `take` hands out: non-empty, payload = `try_into_payload input`, within the limit -/
def Submission.WF (cfg : Cfg) (sub : Submission) : Prop :=
  sub.input.metadata ≠ [] ∧ sub.input.tryIntoPayload cfg = .ok sub.payload ∧
  sub.payload.size ≤ cfg.max ∧ (keys sub.input.rollupData).Nodup ∧ sub.input.HeightsOK

theorem metasOf_append (a b : List Submission) : metasOf (a ++ b) = metasOf a ++ metasOf b := by
  simp [metasOf]

theorem dataOf_append (n : String) (a b : List Submission) :
    dataOf n (a ++ b) = dataOf n a ++ dataOf n b := by
  simp [dataOf]

/-! ### `add_sequencer_block_to_next_submission` -/

theorem addBlock_cases (cfg : Cfg) (s : Sub) (b : Block) :
    (∃ p, (s.next.input.extend cfg b).tryIntoPayload cfg = .ok p ∧ p.size ≤ cfg.max ∧
        s.addBlock cfg b = ({ s with next := ⟨s.next.input.extend cfg b, p⟩ }, .ok)) ∨
    (s.next.input.metadata ≠ [] ∧ s.addBlock cfg b = ({ s with pending := some b }, .full b)) ∨
    (∃ r, r.isFatal = true ∧ s.addBlock cfg b = ({ s with failed := true }, r)) := by
  have hc := tryAdd_cases cfg s.next b
  rcases hc with ⟨h2, p, hp, hle, h1⟩ | ⟨h2, h1, hne, _⟩ | ⟨⟨sz, h2, _⟩, h1, _⟩ | ⟨⟨e, h2, _⟩, h1⟩
  · left
    refine ⟨p, hp, hle, ?_⟩
    unfold Sub.addBlock
    rcases hh : s.next.tryAdd cfg b with ⟨n, res⟩
    rw [hh] at h1 h2
    simp only at h1 h2
    subst h1 h2
    rfl
  · right; left
    refine ⟨hne, ?_⟩
    unfold Sub.addBlock
    rcases hh : s.next.tryAdd cfg b with ⟨n, res⟩
    rw [hh] at h1 h2
    simp only at h1 h2
    subst h1 h2
    rfl
  · right; right
    refine ⟨.oversized b.height sz, rfl, ?_⟩
    unfold Sub.addBlock
    rcases hh : s.next.tryAdd cfg b with ⟨n, res⟩
    rw [hh] at h1 h2
    simp only at h1 h2
    subst h1 h2
    rfl
  · right; right
    refine ⟨.intoPayload e, rfl, ?_⟩
    unfold Sub.addBlock
    rcases hh : s.next.tryAdd cfg b with ⟨n, res⟩
    rw [hh] at h1 h2
    simp only at h1 h2
    subst h1 h2
    rfl

/-! ### the invariant -/

structure Inv (cfg : Cfg) (r : Run) : Prop where
  nextWF : r.s.next.WF cfg
  emittedWF : ∀ sub ∈ r.emitted, sub.WF cfg
  /-- metadata: emitted ++ accumulating ++ pending (++ the block lost to a hard error) is exactly
      the accepted stream, in order — independent of the filter -/
  metaEq : metasOf r.emitted ++ r.s.next.input.metadata ++ r.s.pending.toList.map (·.md) ++
      r.lost.map (·.md) = r.accepted.map (·.md)
  /-- rollup data, per namespace: exactly the filtered data of the accepted stream, in order -/
  dataEq : ∀ n, dataOf n r.emitted ++ dataFor n r.s.next.input.rollupData ++
      r.s.pending.toList.flatMap (blockData cfg n) ++ r.lost.flatMap (blockData cfg n) =
      r.accepted.flatMap (blockData cfg n)
  /-- a pending block implies a non-empty batch (so the next `take` yields a submission) -/
  pendingNonEmpty : r.s.pending.isSome = true → r.s.next.input.metadata ≠ []
  lostFailed : r.lost ≠ [] → r.s.failed = true
  fatalFailed : r.fatal ≠ [] → r.s.failed = true

theorem inv_init (cfg : Cfg) (last : Nat) : Inv cfg (Run.init last) := by
  constructor <;> simp [Run.init, wf_empty, metasOf, dataOf, dataFor]

theorem take_wf (cfg : Cfg) (s : Next) (sub : Submission) (h : s.WF cfg)
    (ht : (s.take).2 = some sub) : sub.WF cfg ∧ sub = ⟨s.input, s.payload⟩ := by
  have hc := take_cases cfg s h
  rcases hc.2 with ⟨hn, _⟩ | ⟨hs, hne⟩
  · rw [hn] at ht; simp at ht
  · rw [hs] at ht
    simp only [Option.some.injEq] at ht
    subst ht
    rcases h with ⟨hi, _⟩ | ⟨h1, h2, h3, h4, h5⟩
    · rw [hi] at hne; simp at hne
    · exact ⟨⟨h1, h2, h3, h4, h5⟩, rfl⟩

end Astria.Relayer

namespace Astria.Relayer

/-! ### one step of the loop preserves the invariant -/

theorem step_recv_eq (cfg : Cfg) (s : Sub) (b : Block) :
    s.step cfg (.recv b) =
      if s.failed then (s, .stopped)
      else if s.pending.isSome then (s, .blocked)
      else if b.height ≤ s.last then (s, .skipped)
      else ((s.addBlock cfg b).1, .add (s.addBlock cfg b).2) := rfl

theorem lost_nil_of_not_failed (cfg : Cfg) (r : Run) (h : Inv cfg r) (hf : r.s.failed = false) :
    r.lost = [] := by
  by_cases hl : r.lost = []
  · exact hl
  · have := h.lostFailed hl
    rw [hf] at this
    cases this

theorem inv_recv (cfg : Cfg) (r : Run) (b : Block) (h : Inv cfg r) :
    Inv cfg (r.step cfg (.recv b)) := by
  by_cases hf : r.s.failed = true
  · have hso : r.s.step cfg (.recv b) = (r.s, .stopped) := by rw [step_recv_eq]; simp [hf]
    simp only [Run.step, hso]
    exact h
  · have hf' : r.s.failed = false := by simpa using hf
    by_cases hp : r.s.pending.isSome = true
    · have hso : r.s.step cfg (.recv b) = (r.s, .blocked) := by rw [step_recv_eq]; simp [hf', hp]
      simp only [Run.step, hso]
      exact h
    · by_cases hl : b.height ≤ r.s.last
      · have hso : r.s.step cfg (.recv b) = (r.s, .skipped) := by
          rw [step_recv_eq]; simp [hf', hp, hl]
        simp only [Run.step, hso]
        exact ⟨h.nextWF, h.emittedWF, h.metaEq, h.dataEq, h.pendingNonEmpty, h.lostFailed, h.fatalFailed⟩
      · have hso : r.s.step cfg (.recv b) = ((r.s.addBlock cfg b).1, .add (r.s.addBlock cfg b).2) := by
          rw [step_recv_eq]; simp [hf', hp, hl]
        have hpn : r.s.pending = none := by simpa using hp
        have hlost := lost_nil_of_not_failed cfg r h hf'
        have hnd := nodup_of_wf cfg r.s.next h.nextWF
        rcases addBlock_cases cfg r.s b with ⟨p, hpay, hle, hab⟩ | ⟨hne, hab⟩ | ⟨res, hfat, hab⟩
        · simp only [Run.step, hso, hab, AddRes.isFatal, Bool.false_eq_true, ↓reduceIte]
          refine ⟨?_, h.emittedWF, ?_, ?_, ?_, h.lostFailed, h.fatalFailed⟩
          · right
            exact ⟨by simp [extend_metadata], hpay, hle, (extend_data cfg _ b "" hnd).1,
              extend_heightsOK cfg _ b (heightsOK_of_wf cfg _ h.nextWF)⟩
          · have := h.metaEq
            simp only [hpn, hlost, extend_metadata] at this ⊢
            simp only [Option.toList_none, List.map_nil, List.append_nil, List.map_append,
              List.map_cons] at this ⊢
            rw [← this]
            simp [List.append_assoc]
          · intro n
            have := h.dataEq n
            simp only [hpn, hlost, (extend_data cfg _ b n hnd).2] at this ⊢
            simp only [Option.toList_none, List.flatMap_nil, List.append_nil, List.flatMap_append,
              List.flatMap_cons] at this ⊢
            rw [← this]
            simp [List.append_assoc]
          · intro hps
            simp [hpn] at hps
        · simp only [Run.step, hso, hab, AddRes.isFatal, Bool.false_eq_true, ↓reduceIte]
          refine ⟨h.nextWF, h.emittedWF, ?_, ?_, fun _ => hne, h.lostFailed, h.fatalFailed⟩
          · have := h.metaEq
            simp only [hpn, hlost] at this ⊢
            simp only [Option.toList_none, Option.toList_some, List.map_nil, List.append_nil,
              List.map_append, List.map_cons] at this ⊢
            rw [← this]
          · intro n
            have := h.dataEq n
            simp only [hpn, hlost] at this ⊢
            simp only [Option.toList_none, Option.toList_some, List.flatMap_nil, List.append_nil,
              List.flatMap_append, List.flatMap_cons] at this ⊢
            rw [← this]
        · simp only [Run.step, hso, hab, hfat, if_true]
          exact ⟨h.nextWF, h.emittedWF, h.metaEq, h.dataEq, h.pendingNonEmpty, fun _ => rfl, fun _ => rfl⟩

end Astria.Relayer

namespace Astria.Relayer

/-- the submitter right after a submission was taken and the pending block removed -/
def Sub.afterTake (s : Sub) : Sub :=
  { s with next := {}, inflight := some (Submission.greatest ⟨s.next.input, s.next.payload⟩),
           pending := none }

/-- Everything the `take` arm can do when it is enabled. -/
theorem take_step_cases (cfg : Cfg) (s : Sub) (hwf : s.next.WF cfg) (hf : s.failed = false)
    (hi : s.inflight = none) :
    (s.step cfg .take = (s, .nothing) ∧ s.next = {}) ∨
    (s.next.input.metadata ≠ [] ∧ s.pending = none ∧
        s.step cfg .take = (s.afterTake, .submitted ⟨s.next.input, s.next.payload⟩ none)) ∨
    (s.next.input.metadata ≠ [] ∧ ∃ b, s.pending = some b ∧
        s.step cfg .take =
          ((s.afterTake.addBlock cfg b).1,
            .submitted ⟨s.next.input, s.next.payload⟩ (some (s.afterTake.addBlock cfg b).2))) := by
  have htc := take_cases cfg s.next hwf
  rcases htc with ⟨hn, ⟨ht, hin, hpay⟩ | ⟨ht, hne⟩⟩
  · left
    have hnext : s.next = {} := by
      cases hx : s.next with
      | mk i p => rw [hx] at hin hpay; simp only at hin hpay; rw [hin, hpay]
    refine ⟨?_, hnext⟩
    rcases hh : s.next.take with ⟨n, o⟩
    rw [hh] at hn ht
    simp only at hn ht
    subst hn ht
    simp only [Sub.step, hf, hi, hh, Bool.false_eq_true, ↓reduceIte, Option.isSome_none]
    congr 1
    cases s with
    | mk nx pe la inf fa => simp only at hnext hf hi; subst hnext hf hi; rfl
  · right
    rcases hh : s.next.take with ⟨n, o⟩
    rw [hh] at hn ht
    simp only at hn ht
    subst hn ht
    cases hpend : s.pending with
    | none =>
      left
      refine ⟨hne, rfl, ?_⟩
      simp only [Sub.step, Sub.afterTake, hf, hi, hh, hpend, Bool.false_eq_true, ↓reduceIte, Option.isSome_none]
    | some b =>
      right
      refine ⟨hne, b, rfl, ?_⟩
      simp only [Sub.step, Sub.afterTake, hf, hi, hh, hpend, Bool.false_eq_true, ↓reduceIte, Option.isSome_none]

theorem inv_take (cfg : Cfg) (r : Run) (h : Inv cfg r) : Inv cfg (r.step cfg .take) := by
  by_cases hf : r.s.failed = true
  · have hso : r.s.step cfg .take = (r.s, .stopped) := by simp [Sub.step, hf]
    simp only [Run.step, hso]
    exact h
  · have hf' : r.s.failed = false := by simpa using hf
    by_cases hi : r.s.inflight.isSome = true
    · have hso : r.s.step cfg .take = (r.s, .busy) := by simp [Sub.step, hf', hi]
      simp only [Run.step, hso]
      exact h
    · have hi' : r.s.inflight = none := by simpa using hi
      have hlost := lost_nil_of_not_failed cfg r h hf'
      have hemWF : r.s.next.input.metadata ≠ [] →
          ∀ sub ∈ r.emitted ++ [(⟨r.s.next.input, r.s.next.payload⟩ : Submission)], sub.WF cfg := by
        intro hne sub hm
        rcases List.mem_append.1 hm with hm | hm
        · exact h.emittedWF sub hm
        · simp only [List.mem_singleton] at hm
          rw [hm]
          rcases h.nextWF with ⟨hi0, _⟩ | ⟨h1, h2, h3, h4, h5⟩
          · rw [hi0] at hne; simp at hne
          · exact ⟨h1, h2, h3, h4, h5⟩
      rcases take_step_cases cfg r.s h.nextWF hf' hi' with ⟨hso, _⟩ | ⟨hne, hpend, hso⟩ | ⟨hne, b, hpend, hso⟩
      · simp only [Run.step, hso]
        exact h
      · simp only [Run.step, hso, handoverLost, List.append_nil]
        refine ⟨wf_empty cfg, hemWF hne, ?_, ?_, ?_, h.lostFailed, h.fatalFailed⟩
        · have := h.metaEq
          simp only [hpend, hlost, metasOf_append, Sub.afterTake] at this ⊢
          simp only [Option.toList_none, List.map_nil, List.append_nil] at this ⊢
          rw [← this]
          simp [metasOf]
        · intro n
          have := h.dataEq n
          simp only [hpend, hlost, dataOf_append, Sub.afterTake] at this ⊢
          simp only [Option.toList_none, List.flatMap_nil, List.append_nil] at this ⊢
          rw [← this]
          simp [dataOf, dataFor]
        · intro hps
          simp [Sub.afterTake] at hps
      · have hmeta := h.metaEq
        simp only [hpend, hlost] at hmeta
        simp only [Option.toList_some, List.map_nil, List.append_nil, List.map_cons] at hmeta
        have hdata := h.dataEq
        simp only [hpend, hlost] at hdata
        simp only [Option.toList_some, List.flatMap_nil, List.append_nil, List.flatMap_cons] at hdata
        rcases addBlock_cases cfg r.s.afterTake b with ⟨p, hpay, hle, hab⟩ | ⟨hne', _⟩ | ⟨res, hfat, hab⟩
        · simp only [Run.step, hso, hab, handoverLost, AddRes.isFatal, Bool.false_eq_true,
            ↓reduceIte, List.append_nil]
          have hnd0 : (keys ({} : Input).rollupData).Nodup := by simp [keys]
          refine ⟨?_, hemWF hne, ?_, ?_, ?_, h.lostFailed, h.fatalFailed⟩
          · right
            exact ⟨by simp [extend_metadata], hpay, hle, (extend_data cfg _ b "" hnd0).1,
              extend_heightsOK cfg _ b (by simp [Input.HeightsOK, Sub.afterTake])⟩
          · simp only [hlost, metasOf_append, extend_metadata, Sub.afterTake]
            simp only [Option.toList_none, List.map_nil, List.append_nil]
            rw [← hmeta]
            simp [metasOf]
          · intro n
            have h2 := (extend_data cfg ({} : Input) b n hnd0).2
            simp only [hlost, dataOf_append, Sub.afterTake, h2]
            simp only [Option.toList_none, List.flatMap_nil, List.append_nil]
            rw [← hdata n]
            simp [dataOf, dataFor]
          · intro hps
            simp [Sub.afterTake] at hps
        · exact absurd rfl hne'
        · simp only [Run.step, hso, hab, hpend, handoverLost, hfat, ↓reduceIte, Option.toList_some]
          refine ⟨wf_empty cfg, hemWF hne, ?_, ?_, ?_, fun _ => rfl, fun _ => rfl⟩
          · simp only [hlost, metasOf_append, Sub.afterTake]
            simp only [Option.toList_none, List.map_nil, List.append_nil, List.nil_append,
              List.map_cons]
            rw [← hmeta]
            simp [metasOf]
          · intro n
            simp only [hlost, dataOf_append, Sub.afterTake]
            simp only [Option.toList_none, List.flatMap_nil, List.append_nil, List.nil_append,
              List.flatMap_cons]
            rw [← hdata n]
            simp [dataOf, dataFor]
          · intro hps
            simp [Sub.afterTake] at hps

theorem inv_done (cfg : Cfg) (r : Run) (h : Inv cfg r) : Inv cfg (r.step cfg .done) := by
  by_cases hf : r.s.failed = true
  · have hso : r.s.step cfg .done = (r.s, .stopped) := by simp [Sub.step, hf]
    simp only [Run.step, hso]
    exact h
  · have hf' : r.s.failed = false := by simpa using hf
    have hlost := lost_nil_of_not_failed cfg r h hf'
    cases hi : r.s.inflight with
    | none =>
      have hso : r.s.step cfg .done = (r.s, .idle) := by simp [Sub.step, hf', hi]
      simp only [Run.step, hso]
      exact h
    | some g =>
      by_cases hg : g > r.s.last
      · have hso : r.s.step cfg .done = ({ r.s with last := g, inflight := none }, .completed) := by
          simp [Sub.step, hf', hi, hg]
        simp only [Run.step, hso]
        exact ⟨h.nextWF, h.emittedWF, h.metaEq, h.dataEq, h.pendingNonEmpty, h.lostFailed, h.fatalFailed⟩
      · have hso : r.s.step cfg .done = ({ r.s with inflight := none, failed := true }, .submitFailed) := by
          simp [Sub.step, hf', hi, hg]
        simp only [Run.step, hso]
        exact ⟨h.nextWF, h.emittedWF, h.metaEq, h.dataEq, h.pendingNonEmpty, fun _ => rfl, fun _ => rfl⟩

theorem inv_step (cfg : Cfg) (r : Run) (op : Op) (h : Inv cfg r) : Inv cfg (r.step cfg op) := by
  cases op with
  | recv b => exact inv_recv cfg r b h
  | take => exact inv_take cfg r h
  | done => exact inv_done cfg r h

theorem inv_foldl (cfg : Cfg) (ops : List Op) (r : Run) (h : Inv cfg r) :
    Inv cfg (ops.foldl (Run.step cfg) r) := by
  induction ops generalizing r with
  | nil => exact h
  | cons op rest ih => exact ih _ (inv_step cfg r op h)

/-- The invariant holds after every sequence of loop events, from every starting height. -/
theorem inv_run (cfg : Cfg) (last : Nat) (ops : List Op) : Inv cfg (run cfg last ops) :=
  inv_foldl cfg ops _ (inv_init cfg last)

end Astria.Relayer
