import Astria.Block.Model
/-
  Grouping of rollup data by rollup id (insertion into an `IndexMap`, then `sort_unstable_keys`):
  per-rollup data is exactly the submissions in block order followed by the deposits; the key
  list is strictly ascending and is exactly the set of rollups with an entry.
-/
namespace Astria.Block

/-! ### The byte order is a strict total order -/

theorem bytesLt_irrefl : ∀ a : Bytes, bytesLt a a = false
  | [] => rfl
  | x :: xs => by
    simp only [bytesLt, Bool.or_eq_false_iff, decide_eq_false_iff_not, UInt8.lt_irrefl,
      not_false_eq_true, beq_self_eq_true, Bool.true_and, true_and]
    exact bytesLt_irrefl xs

theorem bytesLt_trans : ∀ a b c : Bytes, bytesLt a b = true → bytesLt b c = true → bytesLt a c = true
  | [], [], _, h, _ => by simp [bytesLt] at h
  | [], _ :: _, [], _, h => by simp [bytesLt] at h
  | [], _ :: _, _ :: _, _, _ => by simp [bytesLt]
  | _ :: _, [], _, h, _ => by simp [bytesLt] at h
  | _ :: _, _ :: _, [], _, h => by simp [bytesLt] at h
  | x :: xs, y :: ys, z :: zs, h1, h2 => by
    simp only [bytesLt, Bool.or_eq_true, decide_eq_true_eq, Bool.and_eq_true, beq_iff_eq] at *
    rcases h1 with h1 | ⟨e1, h1⟩
    · rcases h2 with h2 | ⟨e2, _⟩
      · exact Or.inl (UInt8.lt_trans h1 h2)
      · subst e2; exact Or.inl h1
    · subst e1
      rcases h2 with h2 | ⟨e2, h2⟩
      · exact Or.inl h2
      · subst e2; exact Or.inr ⟨rfl, bytesLt_trans xs ys zs h1 h2⟩

theorem bytesLt_tri : ∀ a b : Bytes, a ≠ b → bytesLt a b = true ∨ bytesLt b a = true
  | [], [], h => absurd rfl h
  | [], _ :: _, _ => by simp [bytesLt]
  | _ :: _, [], _ => by simp [bytesLt]
  | x :: xs, y :: ys, h => by
    simp only [bytesLt, Bool.or_eq_true, decide_eq_true_eq, Bool.and_eq_true, beq_iff_eq]
    by_cases hxy : x = y
    · subst hxy
      have hne : xs ≠ ys := fun e => h (by rw [e])
      rcases bytesLt_tri xs ys hne with h1 | h1
      · exact Or.inl (Or.inr ⟨rfl, h1⟩)
      · exact Or.inr (Or.inr ⟨rfl, h1⟩)
    · have hn : x.toNat ≠ y.toNat := fun e => hxy (UInt8.toNat_inj.mp e)
      rcases Nat.lt_or_gt_of_ne hn with h1 | h1
      · exact Or.inl (Or.inl (UInt8.lt_iff_toNat_lt.mpr h1))
      · exact Or.inr (Or.inl (UInt8.lt_iff_toNat_lt.mpr h1))

/-! ### Association-list view of the groups -/

def keys (m : Groups) : List Bytes := m.map (·.1)

def lookupG (m : Groups) (id : Bytes) : List Bytes :=
  match m.find? (fun e => e.1 = id) with
  | some e => e.2
  | none => []

theorem lookupG_cons (e : Bytes × List Bytes) (m : Groups) (id : Bytes) :
    lookupG (e :: m) id = if e.1 = id then e.2 else lookupG m id := by
  unfold lookupG
  by_cases h : e.1 = id <;> simp [List.find?, h]

theorem lookupG_insertGroup (m : Groups) (id : Bytes) (items : List Bytes) (k : Bytes) :
    lookupG (insertGroup m id items) k = if k = id then lookupG m id ++ items else lookupG m k := by
  induction m with
  | nil =>
    simp only [insertGroup, lookupG_cons]
    by_cases h : k = id
    · subst h; simp [lookupG]
    · have : ¬ id = k := fun e => h e.symm
      simp [h, this, lookupG]
  | cons e rest ih =>
    obtain ⟨ek, ev⟩ := e
    simp only [insertGroup]
    by_cases hk : ek = id
    · subst hk
      simp only [if_true, lookupG_cons]
      by_cases h : k = ek
      · subst h; simp
      · have : ¬ ek = k := fun e => h e.symm
        simp [h, this]
    · simp only [hk, if_false, lookupG_cons]
      by_cases h : k = id
      · subst h
        simp only [hk, if_false, if_true] at *
        exact ih
      · by_cases h2 : ek = k
        · simp [h2, h]
        · simp only [h2, if_false, h]
          simpa [h] using ih

theorem keys_insertGroup (m : Groups) (id : Bytes) (items : List Bytes) :
    keys (insertGroup m id items) = if id ∈ keys m then keys m else keys m ++ [id] := by
  induction m with
  | nil => simp [insertGroup, keys]
  | cons e rest ih =>
    obtain ⟨ek, ev⟩ := e
    simp only [insertGroup]
    by_cases hk : ek = id
    · subst hk; simp [keys]
    · simp only [hk, if_false]
      have hk' : ¬ id = ek := fun e => hk e.symm
      simp only [keys, List.map_cons, List.mem_cons, hk', false_or] at ih ⊢
      by_cases hm : id ∈ List.map (fun x => x.1) rest
      · simp only [hm, if_true] at ih ⊢; rw [ih]
      · simp only [hm, if_false] at ih ⊢; rw [ih]; simp

theorem keys_nodup_insertGroup (m : Groups) (id : Bytes) (items : List Bytes) (h : (keys m).Nodup) :
    (keys (insertGroup m id items)).Nodup := by
  rw [keys_insertGroup]
  by_cases hm : id ∈ keys m
  · simp [hm, h]
  · simp only [hm, if_false]
    rw [List.nodup_append]
    refine ⟨h, by simp, ?_⟩
    intro a ha b hb
    simp at hb
    subst hb
    intro e
    subst e
    exact hm ha

/-- Folding a list of `(id, items)` entries into the map. -/
def groupFold (m : Groups) (l : List (Bytes × List Bytes)) : Groups :=
  l.foldl (fun m e => insertGroup m e.1 e.2) m

theorem lookupG_groupFold (l : List (Bytes × List Bytes)) :
    ∀ (m : Groups) (k : Bytes),
      lookupG (groupFold m l) k = lookupG m k ++ (l.filter (fun e => e.1 = k)).flatMap (·.2) := by
  induction l with
  | nil => intro m k; simp [groupFold]
  | cons e rest ih =>
    intro m k
    simp only [groupFold, List.foldl_cons] at ih ⊢
    rw [ih, lookupG_insertGroup]
    by_cases h : k = e.1
    · subst h; simp
    · have : ¬ e.1 = k := fun x => h x.symm
      simp [h, this]

theorem mem_keys_groupFold (l : List (Bytes × List Bytes)) :
    ∀ (m : Groups) (k : Bytes), k ∈ keys (groupFold m l) ↔ k ∈ keys m ∨ k ∈ l.map (·.1) := by
  induction l with
  | nil => intro m k; simp [groupFold]
  | cons e rest ih =>
    intro m k
    simp only [groupFold, List.foldl_cons] at ih ⊢
    rw [ih, keys_insertGroup]
    by_cases hm : e.1 ∈ keys m
    · simp only [hm, if_true, List.map_cons, List.mem_cons]
      constructor
      · rintro (h | h)
        · exact Or.inl h
        · exact Or.inr (Or.inr h)
      · rintro (h | h | h)
        · exact Or.inl h
        · subst h; exact Or.inl hm
        · exact Or.inr h
    · simp only [hm, if_false, List.mem_append, List.mem_cons, List.not_mem_nil, or_false, List.map_cons]
      constructor
      · rintro ((h | h) | h)
        · exact Or.inl h
        · exact Or.inr (Or.inl h)
        · exact Or.inr (Or.inr h)
      · rintro (h | h | h)
        · exact Or.inl (Or.inl h)
        · exact Or.inl (Or.inr h)
        · exact Or.inr h

theorem keys_nodup_groupFold (l : List (Bytes × List Bytes)) :
    ∀ (m : Groups), (keys m).Nodup → (keys (groupFold m l)).Nodup := by
  induction l with
  | nil => intro m h; simpa [groupFold] using h
  | cons e rest ih =>
    intro m h
    simp only [groupFold, List.foldl_cons] at ih ⊢
    exact ih _ (keys_nodup_insertGroup m e.1 e.2 h)

theorem groupAll_eq (subs : List (Bytes × Bytes)) (deps : List (Bytes × List Bytes)) :
    groupAll subs deps = groupFold [] (subs.map (fun s => (s.1, [encSequenced s.2])) ++ deps) := by
  simp [groupAll, groupFold, List.foldl_append, List.foldl_map]

/-- The property's definition of a rollup's data: payloads of its submissions in block order
    followed by its deposits. -/
def expectedData (subs : List (Bytes × Bytes)) (deps : List (Bytes × List Bytes)) (id : Bytes) : List Bytes :=
  ((subs.filter (fun s => s.1 = id)).map fun s => encSequenced s.2) ++
    ((deps.filter (fun d => d.1 = id)).flatMap (·.2))

theorem filter_map_subs (subs : List (Bytes × Bytes)) (k : Bytes) :
    ((subs.map (fun s => (s.1, [encSequenced s.2]))).filter (fun e => e.1 = k)).flatMap (·.2) =
      (subs.filter (fun s => s.1 = k)).map fun s => encSequenced s.2 := by
  induction subs with
  | nil => rfl
  | cons s rest ih =>
    by_cases h : s.1 = k
    · simp [h, ih]
    · simp [h, ih]

theorem lookupG_groupAll (subs : List (Bytes × Bytes)) (deps : List (Bytes × List Bytes)) (k : Bytes) :
    lookupG (groupAll subs deps) k = expectedData subs deps k := by
  rw [groupAll_eq, lookupG_groupFold]
  simp only [lookupG, List.find?, List.nil_append, List.filter_append, List.flatMap_append, expectedData]
  rw [filter_map_subs]

theorem mem_keys_groupAll (subs : List (Bytes × Bytes)) (deps : List (Bytes × List Bytes)) (k : Bytes) :
    k ∈ keys (groupAll subs deps) ↔ k ∈ subs.map (·.1) ∨ k ∈ deps.map (·.1) := by
  rw [groupAll_eq, mem_keys_groupFold]
  simp [keys, List.map_append, Function.comp_def]

theorem keys_nodup_groupAll (subs : List (Bytes × Bytes)) (deps : List (Bytes × List Bytes)) :
    (keys (groupAll subs deps)).Nodup := by
  rw [groupAll_eq]
  exact keys_nodup_groupFold _ [] (by simp [keys])

theorem lookupG_of_mem (m : Groups) (h : (keys m).Nodup) (e : Bytes × List Bytes) (he : e ∈ m) :
    lookupG m e.1 = e.2 := by
  induction m with
  | nil => cases he
  | cons x rest ih =>
    rw [lookupG_cons]
    simp only [keys, List.map_cons, List.nodup_cons] at h
    rcases List.mem_cons.mp he with e1 | e1
    · subst e1; simp
    · have hne : x.1 ≠ e.1 := by
        intro eq
        apply h.1
        rw [eq]
        exact List.mem_map_of_mem e1
      simp only [hne, if_false]
      exact ih h.2 e1

/-! ### Sorting by key -/

theorem mem_insertSorted (g x : Bytes × List Bytes) (l : Groups) :
    x ∈ insertSorted g l ↔ x = g ∨ x ∈ l := by
  induction l with
  | nil => simp [insertSorted]
  | cons h rest ih =>
    simp only [insertSorted]
    cases hc : bytesLt g.1 h.1 with
    | true => simp
    | false =>
      simp only [Bool.false_eq_true, if_false, List.mem_cons, ih]
      constructor
      · rintro (a | a | a)
        · exact Or.inr (Or.inl a)
        · exact Or.inl a
        · exact Or.inr (Or.inr a)
      · rintro (a | a | a)
        · exact Or.inr (Or.inl a)
        · exact Or.inl a
        · exact Or.inr (Or.inr a)

theorem mem_sortGroups (x : Bytes × List Bytes) (l : Groups) : x ∈ sortGroups l ↔ x ∈ l := by
  induction l with
  | nil => simp [sortGroups]
  | cons h rest ih => simp [sortGroups, mem_insertSorted, ih]

/-- strictly ascending keys -/
def SortedKeys (l : Groups) : Prop := l.Pairwise (fun a b => bytesLt a.1 b.1 = true)

theorem sorted_insertSorted (g : Bytes × List Bytes) (l : Groups) (hs : SortedKeys l)
    (hne : ∀ x ∈ l, x.1 ≠ g.1) : SortedKeys (insertSorted g l) := by
  induction l with
  | nil => simp [insertSorted, SortedKeys]
  | cons h rest ih =>
    simp only [SortedKeys, List.pairwise_cons] at hs
    simp only [insertSorted]
    cases hc : bytesLt g.1 h.1 with
    | true =>
      simp only [if_true, SortedKeys, List.pairwise_cons]
      refine ⟨?_, hs.1, hs.2⟩
      intro x hx
      rcases List.mem_cons.mp hx with e | e
      · subst e; exact hc
      · exact bytesLt_trans _ _ _ hc (hs.1 x e)
    | false =>
      simp only [Bool.false_eq_true, if_false, SortedKeys, List.pairwise_cons]
      have hhg : bytesLt h.1 g.1 = true := by
        rcases bytesLt_tri h.1 g.1 (hne h (by simp)) with a | a
        · exact a
        · rw [hc] at a; cases a
      refine ⟨?_, ih hs.2 (fun x hx => hne x (List.mem_cons_of_mem _ hx))⟩
      intro x hx
      rcases (mem_insertSorted g x rest).mp hx with e | e
      · subst e; exact hhg
      · exact hs.1 x e

theorem sorted_sortGroups (l : Groups) (h : (keys l).Nodup) : SortedKeys (sortGroups l) := by
  induction l with
  | nil => simp [sortGroups, SortedKeys]
  | cons g rest ih =>
    simp only [keys, List.map_cons, List.nodup_cons] at h
    simp only [sortGroups]
    apply sorted_insertSorted g _ (ih h.2)
    intro x hx e
    apply h.1
    rw [← e]
    exact List.mem_map_of_mem ((mem_sortGroups x rest).mp hx)

theorem keys_nodup_of_sorted (l : Groups) (h : SortedKeys l) : (keys l).Nodup := by
  induction l with
  | nil => simp [keys]
  | cons g rest ih =>
    simp only [SortedKeys, List.pairwise_cons] at h
    simp only [keys, List.map_cons, List.nodup_cons]
    refine ⟨?_, ih h.2⟩
    intro hm
    obtain ⟨x, hx, e⟩ := List.mem_map.mp hm
    have := h.1 x hx
    rw [e, bytesLt_irrefl] at this
    cases this

theorem mem_keys_sortGroups (k : Bytes) (l : Groups) : k ∈ keys (sortGroups l) ↔ k ∈ keys l := by
  simp only [keys, List.mem_map]
  constructor
  · rintro ⟨x, hx, e⟩; exact ⟨x, (mem_sortGroups x l).mp hx, e⟩
  · rintro ⟨x, hx, e⟩; exact ⟨x, (mem_sortGroups x l).mpr hx, e⟩

/-- The sorted groups of a block: for every entry, the data is what the property says. -/
theorem sorted_groups_exact (subs : List (Bytes × Bytes)) (deps : List (Bytes × List Bytes))
    (e : Bytes × List Bytes) (he : e ∈ sortGroups (groupAll subs deps)) :
    e.2 = expectedData subs deps e.1 := by
  have hm := (mem_sortGroups e _).mp he
  rw [← lookupG_groupAll, lookupG_of_mem _ (keys_nodup_groupAll subs deps) e hm]

end Astria.Block
