/- Model for area `block` (stub). -/
namespace Astria.Block

end Astria.Block
