import Astria.Merkle.Model
/-
  Model of the block → commitment → proof → receiver chain of astria-core / astria-conductor
  (properties C07 and C17):

  * `groupAll`/`sortGroups`/`commitments` — `group_rollup_data_submissions_by_rollup_id`, the
    deposit extension and `sort_unstable_keys` of `SequencerBlockBuilder::try_build` and
    `generate_rollup_datas_commitment` (crates/astria-sequencer/src/proposal/commitment.rs);
  * `expand` — the Merkle part of `ExpandedBlockData::new_from_typed_data`;
  * `tryBuild` — `SequencerBlockBuilder::try_build`;
  * `toFiltered`, `split` — `SequencerBlock::to_filtered_block`, `split_for_celestia`;
  * `fullFromRaw`, `filteredFromRaw`, `metaFromRaw`, `blobFromRaw` — the four `try_from_raw`
    validation functions, in the order the Rust code performs its checks, with its error kinds;
  * `verifyBlob`, `reconstruct` — `celestia/reconstruct.rs` of the conductor, `verifyMetadata`
    the hash/chain-id comparison of `celestia/verify.rs`, `convertBlobs` the all-or-nothing
    list conversion of `celestia/convert.rs`.

  Hash functions are parameters (`Hashes`): `H` is the RFC 6962 triple of astria-merkle, `sha`
  the plain SHA-256 (`Sha256::digest`).  Proof verification is a parameter too (`Verifier`):
  `rfcV` is the RFC 6962 specification the C07 theorems are about, `flatV` is the crate's
  index walk (`Astria.Merkle.Flat`), which can panic on unchecked proofs — every receiver
  therefore returns an `Outcome`.
-/
namespace Astria.Block
open Astria.Merkle

abbrev Bytes := List UInt8

structure Hashes where
  H : HashFns Bytes Bytes
  sha : Bytes → Bytes

/-- All digests are 32 bytes long (a fact about the Rust types `[u8; 32]`, not about security). -/
structure Hashes.Sized (Hs : Hashes) : Prop where
  leaf : ∀ x, (Hs.H.leaf x).length = 32
  node : ∀ a b, (Hs.H.node a b).length = 32
  empty : Hs.H.empty.length = 32
  sha : ∀ x, (Hs.sha x).length = 32

abbrev Proof := Flat.Proof Bytes

/-! ## Outcome plumbing -/

/-- Sequencing of computations that may fail with an error or panic. -/
def andThen {ε α β : Type} (o : Outcome (Except ε α)) (f : α → Outcome (Except ε β)) :
    Outcome (Except ε β) :=
  match o with
  | .panic => .panic
  | .value (.error e) => .value (.error e)
  | .value (.ok a) => f a

def liftE {ε α : Type} (e : Except ε α) : Outcome (Except ε α) := .value e

/-- `if !verify(..) { return Err(err) }`. -/
def guardV {ε : Type} (o : Outcome Bool) (err : ε) : Outcome (Except ε Unit) :=
  match o with
  | .panic => .panic
  | .value true => .value (.ok ())
  | .value false => .value (.error err)

def mapErr {ε ε' α : Type} (f : ε → ε') (o : Outcome (Except ε α)) : Outcome (Except ε' α) :=
  match o with
  | .panic => .panic
  | .value (.error e) => .value (.error (f e))
  | .value (.ok a) => .value (.ok a)

/-- `iter.map(f).collect::<Result<Vec<_>, _>>()`. -/
def mapM' {ε α β : Type} (f : α → Outcome (Except ε β)) : List α → Outcome (Except ε (List β))
  | [] => .value (.ok [])
  | a :: rest => andThen (f a) fun b => andThen (mapM' f rest) fun bs => .value (.ok (b :: bs))

/-! ## Merkle proofs on the wire -/

structure RawProof where
  auditPath : Bytes
  leafIndex : Nat
  treeSize : Nat
  deriving Repr, DecidableEq

def chunks32 : Nat → Bytes → List Bytes
  | 0, _ => []
  | f + 1, bs => if bs.isEmpty then [] else bs.take 32 :: chunks32 f (bs.drop 32)

/-- `merkle::Proof::try_from_raw` (= `UncheckedProof::try_into_proof`). -/
def decodeProof (r : RawProof) : Outcome (Except Flat.ProofError Proof) :=
  match Flat.checkRaw ⟨r.auditPath.length, r.leafIndex, r.treeSize⟩ with
  | .panic => .panic
  | .value (.error e) => .value (.error e)
  | .value (.ok ()) => .value (.ok ⟨chunks32 r.auditPath.length r.auditPath, r.leafIndex, r.treeSize⟩)

def encodeProof (π : Proof) : RawProof := ⟨π.path.flatten, π.leafIndex, π.treeSize⟩

/-- Proof verification: proof, *leaf hash*, root. -/
abbrev Verifier := Proof → Bytes → Bytes → Outcome Bool

/-- Number of leaves of a flat tree with `treeSize` nodes. -/
def leavesOf (treeSize : Nat) : Nat := (treeSize + 1) / 2

def rfcVerify (H : HashFns Bytes Bytes) (π : Proof) (leafHash root : Bytes) : Bool :=
  Rfc.rootFromPath H (leavesOf π.treeSize) π.leafIndex leafHash π.path == some root

/-- RFC 6962 audit-path verification (the specification). -/
def rfcV (Hs : Hashes) : Verifier := fun π lh r => .value (rfcVerify Hs.H π lh r)

/-- astria-merkle's `reconstruct_root_with_leaf_hash` compared with the root. -/
def flatV (Hs : Hashes) : Verifier := fun π lh r =>
  match π.reconstruct Hs.H lh with
  | .panic => .panic
  | .value x => .value (x == r)

/-- `Tree::from_leaves(ls).root()`. -/
def treeRoot (Hs : Hashes) (ls : List Bytes) : Bytes := Rfc.mth Hs.H ls

/-- `Tree::from_leaves(ls).construct_proof(i)` for `i < ls.length`. -/
def treeProof (Hs : Hashes) (ls : List Bytes) (i : Nat) : Proof :=
  ⟨Rfc.path Hs.H i ls, i, 2 * ls.length - 1⟩

/-! ## Grouping rollup data -/

/-- Lexicographic order on byte strings (`Ord` of `[u8; 32]`). -/
def bytesLt : Bytes → Bytes → Bool
  | [], [] => false
  | [], _ :: _ => true
  | _ :: _, [] => false
  | a :: as, b :: bs => a < b || (a == b && bytesLt as bs)

abbrev Groups := List (Bytes × List Bytes)

/-- `map.entry(id).or_default().extend(items)` on an `IndexMap`. -/
def insertGroup (m : Groups) (id : Bytes) (items : List Bytes) : Groups :=
  match m with
  | [] => [(id, items)]
  | (k, v) :: rest => if k = id then (k, v ++ items) :: rest else (k, v) :: insertGroup rest id items

def insertSorted (g : Bytes × List Bytes) : Groups → Groups
  | [] => [g]
  | h :: rest => if bytesLt g.1 h.1 then g :: h :: rest else h :: insertSorted g rest

/-- `sort_unstable_keys` (keys of a map are distinct, so the result is determined). -/
def sortGroups : Groups → Groups
  | [] => []
  | g :: rest => insertSorted g (sortGroups rest)

def varint : Nat → Nat → Bytes
  | 0, _ => [0]
  | f + 1, n => if n < 128 then [UInt8.ofNat n] else UInt8.ofNat (n % 128 + 128) :: varint f (n / 128)

/-- `RollupData::SequencedData(d).into_raw().encode_to_vec()`: field 1, wire type 2. -/
def encSequenced (d : Bytes) : Bytes := 0x0a :: (varint 10 d.length ++ d)

/-- Submissions in block order, then the deposit map (already protobuf-encoded deposits). -/
def groupAll (subs : List (Bytes × Bytes)) (deps : List (Bytes × List Bytes)) : Groups :=
  let m1 := subs.foldl (fun m s => insertGroup m s.1 [encSequenced s.2]) []
  deps.foldl (fun m d => insertGroup m d.1 d.2) m1

def rollupLeaf (Hs : Hashes) (id : Bytes) (txs : List Bytes) : Bytes := id ++ treeRoot Hs txs

def rollupLeaves (Hs : Hashes) (g : Groups) : List Bytes := g.map fun e => rollupLeaf Hs e.1 e.2

/-- `generate_rollup_datas_commitment`: (rollup datas root, rollup ids root). -/
def commitments (Hs : Hashes) (subs : List (Bytes × Bytes)) (deps : List (Bytes × List Bytes)) :
    Bytes × Bytes :=
  let g := sortGroups (groupAll subs deps)
  (treeRoot Hs (rollupLeaves Hs g), treeRoot Hs (g.map (·.1)))

/-! ## Blocks -/

structure HeaderRaw where
  chainId : Bytes                 -- UTF-8 of the string
  height : Nat                    -- u64
  time : Option (Int × Int)       -- (seconds : i64, nanos : i32)
  txsRoot : Bytes
  dataHash : Bytes
  proposer : Bytes
  deriving Repr, DecidableEq

structure Header where
  chainId : Bytes
  height : Nat
  secs : Int
  nanos : Nat
  txsRoot : Bytes
  dataHash : Bytes
  proposer : Bytes
  deriving Repr, DecidableEq

def Header.toRaw (h : Header) : HeaderRaw :=
  ⟨h.chainId, h.height, some (h.secs, (h.nanos : Int)), h.txsRoot, h.dataHash, h.proposer⟩

inductive HeaderErr where
  | invalidChainId | invalidHeight | timeNotSet | time | rootLength | proposer
  deriving Repr, DecidableEq

def chainIdCharOk (b : UInt8) : Bool :=
  (97 ≤ b && b ≤ 122) || (65 ≤ b && b ≤ 90) || (48 ≤ b && b ≤ 57) || b == 45 || b == 95 || b == 46

/-- `tendermint::chain::Id::try_from` rejects this string. -/
def chainIdBad (c : Bytes) : Bool := c.isEmpty || c.length > 50 || !(c.all chainIdCharOk)

/-- `SequencerBlockHeader::try_from_raw`. -/
def decodeHeader (r : HeaderRaw) : Except HeaderErr Header :=
  if chainIdBad r.chainId then .error .invalidChainId
  else if r.height ≥ 2 ^ 63 then .error .invalidHeight
  else match r.time with
    | none => .error .timeNotSet
    | some (s, n) =>
      if n < 0 ∨ n > 999999999 ∨ s < -62135596800 ∨ s > 253402300799 then .error .time
      else if r.txsRoot.length ≠ 32 then .error .rootLength
      else if r.dataHash.length ≠ 32 then .error .rootLength
      else if r.proposer.length ≠ 20 then .error .proposer
      else .ok ⟨r.chainId, r.height, s, n.toNat, r.txsRoot, r.dataHash, r.proposer⟩

structure RtRaw where
  id : Option Bytes
  txs : List Bytes
  proof : Option RawProof
  deriving Repr, DecidableEq

/-- `RollupTransactions`. -/
structure Rt where
  id : Bytes
  txs : List Bytes
  proof : Proof
  deriving Repr, DecidableEq

def Rt.toRaw (r : Rt) : RtRaw := ⟨some r.id, r.txs, some (encodeProof r.proof)⟩

inductive RtErr where
  | idNotSet | idLength | proofNotSet | proof (e : Flat.ProofError)
  deriving Repr, DecidableEq

/-- `RollupTransactions::try_from_raw`. -/
def decodeRt (r : RtRaw) : Outcome (Except RtErr Rt) :=
  match r.id with
  | none => .value (.error .idNotSet)
  | some id =>
    if id.length ≠ 32 then .value (.error .idLength)
    else match r.proof with
      | none => .value (.error .proofNotSet)
      | some p => andThen (mapErr RtErr.proof (decodeProof p)) fun π => .value (.ok ⟨id, r.txs, π⟩)

/-- Outcome of decoding the extended-commit-info bytes (prost + `try_from_raw`): an oracle. -/
inductive EciCheck where
  | ok | decode | invalid
  deriving Repr, DecidableEq

structure EciRaw where
  info : Bytes
  proof : Option RawProof
  deriving Repr, DecidableEq

structure Eci where
  info : Bytes
  proof : Proof
  deriving Repr, DecidableEq

def Eci.toRaw (e : Eci) : EciRaw := ⟨e.info, some (encodeProof e.proof)⟩

inductive EciErr where
  | proofNotSet | proof (e : Flat.ProofError) | notInBlock | decode | invalid
  deriving Repr, DecidableEq

/-- What the receivers are parametric in. -/
structure Ctx where
  Hs : Hashes
  V : Verifier
  eciOk : Bytes → EciCheck
  /-- Does `SequencerBlock::try_from_raw` verify the per-rollup proofs?  `false` is the code as it
      is (finding FB1); `true` is the code as repaired by `fix:` 52f5ed5 (= `/verif/proposed_fixes/FB1.diff`), which is what the driver runs. -/
  fullChecksRts : Bool := false

def rfcCtx (Hs : Hashes) (eciOk : Bytes → EciCheck) (fix : Bool := false) : Ctx :=
  { Hs := Hs, V := rfcV Hs, eciOk := eciOk, fullChecksRts := fix }
def flatCtx (Hs : Hashes) (eciOk : Bytes → EciCheck) (fix : Bool := false) : Ctx :=
  { Hs := Hs, V := flatV Hs, eciOk := eciOk, fullChecksRts := fix }

/-- `proof.verify(leaf, root)`: hashes the leaf first. -/
def verifyLeaf (c : Ctx) (π : Proof) (leaf root : Bytes) : Outcome Bool := c.V π (c.Hs.H.leaf leaf) root

/-- `ExtendedCommitInfoWithProof::try_from_raw(raw, data_hash)`. -/
def decodeEci (c : Ctx) (dataHash : Bytes) (r : EciRaw) : Outcome (Except EciErr Eci) :=
  match r.proof with
  | none => .value (.error .proofNotSet)
  | some p =>
    andThen (mapErr EciErr.proof (decodeProof p)) fun π =>
    andThen (guardV (verifyLeaf c π (c.Hs.sha r.info) dataHash) EciErr.notInBlock) fun _ =>
    match c.eciOk r.info with
    | .decode => .value (.error .decode)
    | .invalid => .value (.error .invalid)
    | .ok => .value (.ok ⟨r.info, π⟩)

def decodeEciOpt (c : Ctx) (dataHash : Bytes) : Option EciRaw → Outcome (Except EciErr (Option Eci))
  | none => .value (.ok none)
  | some r => andThen (decodeEci c dataHash r) fun e => .value (.ok (some e))

/-- `IndexMap::insert`: replaces the value of an existing key in place. -/
def imInsert (m : List Rt) (r : Rt) : List Rt :=
  match m with
  | [] => [r]
  | x :: xs => if x.id = r.id then r :: xs else x :: imInsert xs r

/-- `iter.collect::<IndexMap<_, _>>()`. -/
def imCollect (l : List Rt) : List Rt := l.foldl imInsert []

structure BlockRaw where
  blockHash : Bytes
  header : Option HeaderRaw
  rollups : List RtRaw
  txsProof : Option RawProof
  idsProof : Option RawProof
  uch : List Bytes
  eci : Option EciRaw
  deriving Repr, DecidableEq

/-- `SequencerBlock`. -/
structure Block where
  blockHash : Bytes
  header : Header
  rollups : List Rt
  txsProof : Proof
  idsProof : Proof
  uch : List Bytes
  eci : Option Eci
  deriving Repr, DecidableEq

def Block.toRaw (b : Block) : BlockRaw :=
  ⟨b.blockHash, some b.header.toRaw, b.rollups.map Rt.toRaw, some (encodeProof b.txsProof),
   some (encodeProof b.idsProof), b.uch, b.eci.map Eci.toRaw⟩

def Block.ids (b : Block) : List Bytes := b.rollups.map (·.id)
def Block.content (b : Block) : List (Bytes × List Bytes) := b.rollups.map fun r => (r.id, r.txs)

/-- The error kinds of `SequencerBlockError`, `FilteredSequencerBlockError`,
    `SubmittedMetadataError`, `SubmittedRollupDataError` (one type; each receiver uses a subset). -/
inductive Err where
  | blockHash
  | fieldNotSet (f : String)
  | txsProof (e : Flat.ProofError)
  | idsProof (e : Flat.ProofError)
  | header (e : HeaderErr)
  | rollupTxs (e : RtErr)
  | rollupId                         -- an entry of `all_rollup_ids` / `rollup_ids` / blob id
  | invalidTxsRoot                   -- header root not under data_hash
  | txsNotInBlock                    -- recomputed rollup tree not under data_hash
  | txsForIdNotInBlock (id : Bytes)  -- filtered block: one rollup's proof
  | idsNotInBlock
  | uch
  | eci (e : EciErr)
  | proof (e : Flat.ProofError)      -- rollup blob proof
  deriving Repr, DecidableEq

def decodeUch (l : List Bytes) : Except Err (List Bytes) :=
  if l.all (fun h => h.length == 32) then .ok l else .error .uch

def optField {α : Type} (o : Option α) (name : String) : Outcome (Except Err α) :=
  match o with
  | none => .value (.error (.fieldNotSet name))
  | some a => .value (.ok a)

/-- `are_rollup_txs_included`. -/
def txsIncluded (c : Ctx) (rollups : List Rt) (π : Proof) (dataHash : Bytes) : Outcome Bool :=
  verifyLeaf c π (c.Hs.sha (treeRoot c.Hs (rollups.map fun r => rollupLeaf c.Hs r.id r.txs))) dataHash

/-- `are_rollup_ids_included`. -/
def idsIncluded (c : Ctx) (ids : List Bytes) (π : Proof) (dataHash : Bytes) : Outcome Bool :=
  verifyLeaf c π (c.Hs.sha (treeRoot c.Hs ids)) dataHash

/-- `do_rollup_transactions_match_root` / `verify_rollup_blob_against_sequencer_blob`. -/
def rtMatchesRoot (c : Ctx) (id : Bytes) (txs : List Bytes) (π : Proof) (root : Bytes) : Outcome Bool :=
  verifyLeaf c π (rollupLeaf c.Hs id txs) root

/-- The `for rollup_transactions in rollup_transactions.values()` loop. -/
def checkRts (c : Ctx) (root : Bytes) : List Rt → Outcome (Except Err Unit)
  | [] => .value (.ok ())
  | r :: rest =>
    andThen (guardV (rtMatchesRoot c r.id r.txs r.proof root) (Err.txsForIdNotInBlock r.id)) fun _ =>
    checkRts c root rest

/-- `SequencerBlock::try_from_raw`. -/
def fullFromRaw (c : Ctx) (r : BlockRaw) : Outcome (Except Err Block) :=
  andThen (liftE (if r.blockHash.length = 32 then .ok r.blockHash else .error Err.blockHash)) fun bh =>
  andThen (optField r.txsProof "rollup_transactions_proof") fun rtp =>
  andThen (mapErr Err.txsProof (decodeProof rtp)) fun txsProof =>
  andThen (optField r.idsProof "rollup_ids_proof") fun rip =>
  andThen (mapErr Err.idsProof (decodeProof rip)) fun idsProof =>
  andThen (optField r.header "header") fun rh =>
  andThen (liftE ((decodeHeader rh).mapError Err.header)) fun header =>
  andThen (mapErr Err.rollupTxs (mapM' decodeRt r.rollups)) fun rts =>
  let rollups := imCollect rts
  andThen (guardV (verifyLeaf c txsProof (c.Hs.sha header.txsRoot) header.dataHash) Err.invalidTxsRoot) fun _ =>
  andThen (guardV (txsIncluded c rollups txsProof header.dataHash) Err.txsNotInBlock) fun _ =>
  andThen (if c.fullChecksRts then mapErr (fun _ => Err.txsNotInBlock) (checkRts c header.txsRoot rollups)
           else .value (.ok ())) fun _ =>
  andThen (guardV (idsIncluded c (rollups.map (·.id)) idsProof header.dataHash) Err.idsNotInBlock) fun _ =>
  andThen (liftE (decodeUch r.uch)) fun uch =>
  andThen (mapErr Err.eci (decodeEciOpt c header.dataHash r.eci)) fun eci =>
  .value (.ok ⟨bh, header, rollups, txsProof, idsProof, uch, eci⟩)

/-! ### Filtered block -/

structure FilteredRaw where
  blockHash : Bytes
  header : Option HeaderRaw
  rollups : List RtRaw
  txsProof : Option RawProof
  allIds : List Bytes
  idsProof : Option RawProof
  uch : List Bytes
  eci : Option EciRaw
  deriving Repr, DecidableEq

structure Filtered where
  blockHash : Bytes
  header : Header
  rollups : List Rt
  txsProof : Proof
  allIds : List Bytes
  idsProof : Proof
  uch : List Bytes
  eci : Option Eci
  deriving Repr, DecidableEq

def Filtered.toRaw (b : Filtered) : FilteredRaw :=
  ⟨b.blockHash, some b.header.toRaw, b.rollups.map Rt.toRaw, some (encodeProof b.txsProof), b.allIds,
   some (encodeProof b.idsProof), b.uch, b.eci.map Eci.toRaw⟩

def Filtered.content (b : Filtered) : List (Bytes × List Bytes) := b.rollups.map fun r => (r.id, r.txs)

def decodeIds (l : List Bytes) : Except Err (List Bytes) :=
  if l.all (fun h => h.length == 32) then .ok l else .error .rollupId

/-- `FilteredSequencerBlock::try_from_raw`. -/
def filteredFromRaw (c : Ctx) (r : FilteredRaw) : Outcome (Except Err Filtered) :=
  andThen (liftE (if r.blockHash.length = 32 then .ok r.blockHash else .error Err.blockHash)) fun bh =>
  andThen (optField r.txsProof "rollup_transactions_proof") fun rtp =>
  andThen (mapErr Err.txsProof (decodeProof rtp)) fun txsProof =>
  andThen (optField r.idsProof "rollup_ids_proof") fun rip =>
  andThen (mapErr Err.idsProof (decodeProof rip)) fun idsProof =>
  andThen (optField r.header "header") fun rh =>
  andThen (liftE ((decodeHeader rh).mapError Err.header)) fun header =>
  andThen (mapErr Err.rollupTxs (mapM' decodeRt r.rollups)) fun rts =>
  let rollups := imCollect rts
  andThen (liftE (decodeIds r.allIds)) fun allIds =>
  andThen (guardV (verifyLeaf c txsProof (c.Hs.sha header.txsRoot) header.dataHash) Err.txsNotInBlock) fun _ =>
  andThen (checkRts c header.txsRoot rollups) fun _ =>
  andThen (guardV (idsIncluded c allIds idsProof header.dataHash) Err.idsNotInBlock) fun _ =>
  andThen (liftE (decodeUch r.uch)) fun uch =>
  andThen (mapErr Err.eci (decodeEciOpt c header.dataHash r.eci)) fun eci =>
  .value (.ok ⟨bh, header, rollups, txsProof, allIds, idsProof, uch, eci⟩)

/-- `SequencerBlock::to_filtered_block(ids)`. -/
def toFiltered (b : Block) (ids : List Bytes) : Filtered :=
  let picked := ids.foldl (fun acc id =>
    match b.rollups.find? (fun r => r.id = id) with
    | some r => imInsert acc r
    | none => acc) []
  ⟨b.blockHash, b.header, picked, b.txsProof, b.ids, b.idsProof, b.uch, b.eci⟩

/-! ### The sequencer's gRPC service -/

def insertId (x : Bytes) : List Bytes → List Bytes
  | [] => [x]
  | h :: rest => if bytesLt x h then x :: h :: rest else h :: insertId x rest

/-- `all_rollup_ids.sort_unstable()` -/
def sortIds : List Bytes → List Bytes
  | [] => []
  | x :: rest => insertId x (sortIds rest)

/-- `SequencerService::get_filtered_sequencer_block`: all stored rollup ids, sorted; the stored
    entries of the requested ids that are present, in request order (a repeated request repeats
    the entry; the receiver's `IndexMap` collapses it). -/
def grpcFiltered (b : Block) (req : List Bytes) : FilteredRaw :=
  let allIds := sortIds b.ids
  let present := req.filter fun id => allIds.contains id
  { blockHash := b.blockHash
    header := some b.header.toRaw
    rollups := present.filterMap fun id => (b.rollups.find? fun r => r.id = id).map Rt.toRaw
    txsProof := some (encodeProof b.txsProof)
    allIds := allIds
    idsProof := some (encodeProof b.idsProof)
    uch := b.uch
    eci := b.eci.map Eci.toRaw }

/-! ### Celestia form -/

structure MetaRaw where
  blockHash : Bytes
  header : Option HeaderRaw
  ids : List Bytes
  txsProof : Option RawProof
  idsProof : Option RawProof
  uch : List Bytes
  eci : Option EciRaw
  deriving Repr, DecidableEq

/-- `SubmittedMetadata`. -/
structure Meta where
  blockHash : Bytes
  header : Header
  ids : List Bytes
  txsProof : Proof
  idsProof : Proof
  uch : List Bytes
  eci : Option Eci
  deriving Repr, DecidableEq

def Meta.toRaw (m : Meta) : MetaRaw :=
  ⟨m.blockHash, some m.header.toRaw, m.ids, some (encodeProof m.txsProof), some (encodeProof m.idsProof),
   m.uch, m.eci.map Eci.toRaw⟩

/-- `SubmittedMetadata::try_from_raw` = `UncheckedSubmittedMetadata::try_from_raw` followed by
    `SubmittedMetadata::try_from_unchecked`. -/
def metaFromRaw (c : Ctx) (r : MetaRaw) : Outcome (Except Err Meta) :=
  andThen (optField r.header "header") fun rh =>
  andThen (liftE ((decodeHeader rh).mapError Err.header)) fun header =>
  andThen (liftE (decodeIds r.ids)) fun ids =>
  andThen (optField r.txsProof "rollup_transactions_proof") fun rtp =>
  andThen (mapErr Err.txsProof (decodeProof rtp)) fun txsProof =>
  andThen (optField r.idsProof "rollup_ids_proof") fun rip =>
  andThen (mapErr Err.idsProof (decodeProof rip)) fun idsProof =>
  andThen (liftE (if r.blockHash.length = 32 then .ok r.blockHash else .error Err.blockHash)) fun bh =>
  andThen (liftE (decodeUch r.uch)) fun uch =>
  andThen (mapErr Err.eci (decodeEciOpt c header.dataHash r.eci)) fun eci =>
  andThen (guardV (verifyLeaf c txsProof (c.Hs.sha header.txsRoot) header.dataHash) Err.txsNotInBlock) fun _ =>
  andThen (guardV (idsIncluded c ids idsProof header.dataHash) Err.idsNotInBlock) fun _ =>
  .value (.ok ⟨bh, header, ids, txsProof, idsProof, uch, eci⟩)

structure BlobRaw where
  blockHash : Bytes
  id : Option Bytes
  txs : List Bytes
  proof : Option RawProof
  deriving Repr, DecidableEq

/-- `SubmittedRollupData`. -/
structure Blob where
  blockHash : Bytes
  id : Bytes
  txs : List Bytes
  proof : Proof
  deriving Repr, DecidableEq

def Blob.toRaw (b : Blob) : BlobRaw := ⟨b.blockHash, some b.id, b.txs, some (encodeProof b.proof)⟩

/-- `SubmittedRollupData::try_from_raw`. -/
def blobFromRaw (r : BlobRaw) : Outcome (Except Err Blob) :=
  andThen (optField r.id "rollup_id") fun id =>
  andThen (liftE (if id.length = 32 then .ok id else .error Err.rollupId)) fun id =>
  andThen (liftE (if r.blockHash.length = 32 then .ok r.blockHash else .error Err.blockHash)) fun bh =>
  andThen (optField r.proof "proof") fun rp =>
  andThen (mapErr Err.proof (decodeProof rp)) fun π =>
  .value (.ok ⟨bh, id, r.txs, π⟩)

/-- `SequencerBlock::split_for_celestia`. -/
def split (b : Block) : Meta × List Blob :=
  (⟨b.blockHash, b.header, b.ids, b.txsProof, b.idsProof, b.uch, b.eci⟩,
   b.rollups.map fun r => ⟨b.blockHash, r.id, r.txs, r.proof⟩)

/-! ## Building a block -/

structure BuildInput where
  blockHash : Bytes
  chainId : Bytes
  height : Nat
  secs : Int
  nanos : Nat
  proposer : Bytes
  /-- rollup data submissions `(rollup id, payload)` of the executed transactions, in block order -/
  subs : List (Bytes × Bytes)
  /-- the deposit map `(rollup id, protobuf-encoded deposits in event order)` -/
  deps : List (Bytes × List Bytes)
  /-- the two commitments found at the head of `block.data` -/
  txsRoot : Bytes
  idsRoot : Bytes
  uch : List Bytes
  /-- the encoded extended commit info item of `block.data`, if enabled -/
  eci : Option Bytes
  /-- the remaining items of `block.data` (user-submitted transactions) -/
  userTxs : List Bytes
  deriving Repr, DecidableEq

/-- The leaves of the tree whose root is the block's `data_hash`
    (`ExpandedBlockData::new_from_typed_data`). -/
def dataLeaves (Hs : Hashes) (inp : BuildInput) : List Bytes :=
  [Hs.sha inp.txsRoot, Hs.sha inp.idsRoot] ++ (inp.eci.toList.map Hs.sha) ++ inp.userTxs.map Hs.sha

inductive BuildErr where
  | idsRootMismatch | txsRootMismatch
  deriving Repr, DecidableEq

def mkRts (Hs : Hashes) (leaves : List Bytes) : Nat → Groups → List Rt
  | _, [] => []
  | i, (id, txs) :: rest => ⟨id, txs, treeProof Hs leaves i⟩ :: mkRts Hs leaves (i + 1) rest

/-- `SequencerBlockBuilder::try_build` on top of `ExpandedBlockData::new_from_typed_data`. -/
def tryBuild (Hs : Hashes) (inp : BuildInput) : Except BuildErr Block :=
  let dl := dataLeaves Hs inp
  let g := sortGroups (groupAll inp.subs inp.deps)
  if inp.idsRoot ≠ treeRoot Hs (g.map (·.1)) then .error .idsRootMismatch
  else
    let leaves := rollupLeaves Hs g
    if inp.txsRoot ≠ treeRoot Hs leaves then .error .txsRootMismatch
    else .ok {
      blockHash := inp.blockHash
      header := ⟨inp.chainId, inp.height, inp.secs, inp.nanos, inp.txsRoot, treeRoot Hs dl, inp.proposer⟩
      rollups := mkRts Hs leaves 0 g
      txsProof := treeProof Hs dl 0
      idsProof := treeProof Hs dl 1
      uch := inp.uch
      eci := inp.eci.map fun e => ⟨e, treeProof Hs dl 2⟩ }

/-- A proposer that computes the commitments itself. -/
def honest (Hs : Hashes) (inp : BuildInput) : BuildInput :=
  { inp with txsRoot := (commitments Hs inp.subs inp.deps).1, idsRoot := (commitments Hs inp.subs inp.deps).2 }

/-! ## Conductor: convert, verify, reconstruct -/

/-- `ConvertedBlobs::extend_from_*_list_if_well_formed`: one malformed entry drops the whole list.
    `none` = the blob did not decompress / decode as a list (dropped as a whole as well). -/
def convertList {ρ α : Type} (f : ρ → Outcome (Except Err α)) (blob : Option (List ρ)) : Outcome (List α) :=
  match blob with
  | none => .value []
  | some entries =>
    match mapM' f entries with
    | .panic => .panic
    | .value (.error _) => .value []
    | .value (.ok l) => .value l

def convertAll {ρ α : Type} (f : ρ → Outcome (Except Err α)) : List (Option (List ρ)) → Outcome (List α)
  | [] => .value []
  | b :: rest =>
    match convertList f b, convertAll f rest with
    | .value l, .value ls => .value (l ++ ls)
    | _, _ => .panic

/-- What the conductor learned from the sequencer for a height (after the quorum check, C09). -/
structure Commit where
  chainId : Bytes
  blockHash : Bytes
  deriving Repr, DecidableEq

structure ConductorCfg where
  rollupId : Bytes
  nextFirmHeight : Nat
  commits : Nat → Option Commit

/-- `verify_metadata` + `BlobVerifier::verify_metadata`: headers below the next expected firm
    height are dropped, so are those without a verifiable commit, with another chain id or
    another block hash.  Result keyed by block hash (the first one wins here; the real
    `HashMap::insert` order is scheduling dependent). -/
def verifyMetas (cfg : ConductorCfg) (metas : List Meta) : List Meta :=
  metas.foldl (fun acc m =>
    if m.header.height < cfg.nextFirmHeight then acc
    else match cfg.commits m.header.height with
      | none => acc
      | some cm =>
        if cm.chainId ≠ m.header.chainId then acc
        else if cm.blockHash ≠ m.blockHash then acc
        else if acc.any (fun x => x.blockHash = m.blockHash) then acc
        else acc ++ [m]) []

/-- `verify_rollup_blob_against_sequencer_blob`. -/
def verifyBlob (c : Ctx) (blob : Blob) (m : Meta) : Outcome Bool :=
  rtMatchesRoot c blob.id blob.txs blob.proof m.header.txsRoot

structure Reconstructed where
  blockHash : Bytes
  header : Header
  txs : List Bytes
  deriving Repr, DecidableEq

def removeMeta (hs : List Meta) (h : Bytes) : List Meta := hs.filter (fun m => m.blockHash ≠ h)

/-- The first loop of `reconstruct_blocks_from_verified_blobs`: match rollup blobs to headers.
    `checkId = false` is the code as it is; `checkId = true` additionally requires the blob's
    rollup id to be the conductor's (the repair of DESIGN §7 F10, `fix:` 793934a; the driver runs with `true`). -/
def matchBlobs (c : Ctx) (checkId : Bool) (rollupId : Bytes) :
    List Blob → List Meta → Outcome (List Reconstructed × List Meta)
  | [], hs => .value ([], hs)
  | b :: rest, hs =>
    if checkId && b.id ≠ rollupId then matchBlobs c checkId rollupId rest hs
    else match hs.find? (fun m => m.blockHash = b.blockHash) with
      | none => matchBlobs c checkId rollupId rest hs
      | some m =>
        match verifyBlob c b m with
        | .panic => .panic
        | .value false => matchBlobs c checkId rollupId rest hs
        | .value true =>
          match matchBlobs c checkId rollupId rest (removeMeta hs b.blockHash) with
          | .panic => .panic
          | .value (out, left) => .value (⟨m.blockHash, m.header, b.txs⟩ :: out, left)

/-- `reconstruct_blocks_from_verified_blobs`. -/
def reconstruct (c : Ctx) (checkId : Bool) (rollupId : Bytes) (hs : List Meta) (blobs : List Blob) :
    Outcome (List Reconstructed) :=
  match matchBlobs c checkId rollupId blobs hs with
  | .panic => .panic
  | .value (out, left) =>
    .value (out ++ (left.filter (fun m => !m.ids.contains rollupId)).map fun m => ⟨m.blockHash, m.header, []⟩)

/-- One Celestia height through the conductor: decode → verify metadata → reconstruct. -/
def conductor (c : Ctx) (checkId : Bool) (cfg : ConductorCfg)
    (metaBlobs : List (Option (List MetaRaw))) (rollupBlobs : List (Option (List BlobRaw))) :
    Outcome (List Reconstructed) :=
  match convertAll (metaFromRaw c) metaBlobs, convertAll blobFromRaw rollupBlobs with
  | .value ms, .value bs => reconstruct c checkId cfg.rollupId (verifyMetas cfg ms) bs
  | _, _ => .panic

/-! ## Transactions (`Transaction::try_from_raw`) -/

structure TxRaw where
  signature : Bytes
  publicKey : Bytes
  body : Option (Bytes × Bytes)        -- `Any { type_url, value }`
  deriving Repr, DecidableEq

/-- `Transaction`: signature, verification key, the signed body bytes. -/
structure Tx where
  signature : Bytes
  key : Bytes
  typeUrl : Bytes
  bodyBytes : Bytes
  deriving Repr, DecidableEq

inductive TxErr where
  | signature | verificationKey | unsetBody | verification | body
  deriving Repr, DecidableEq

/-- The cryptographic and structural oracles: which 32-byte strings are ed25519 keys, which
    signatures verify, which `Any` bodies convert to a `TransactionBody` (type URL, actions,
    group rules). -/
structure TxOracles where
  keyOk : Bytes → Bool
  sigOk : (key msg sig : Bytes) → Bool
  bodyOk : (typeUrl value : Bytes) → Bool
  /-- the one type URL `TransactionBody::try_from_any` accepts -/
  bodyUrl : Bytes
  bodyOk_url : ∀ u v, bodyOk u v = true → u = bodyUrl

/-- `Transaction::try_from_raw`. -/
def txFromRaw (o : TxOracles) (r : TxRaw) : Except TxErr Tx :=
  if r.signature.length ≠ 64 then .error .signature
  else if r.publicKey.length ≠ 32 ∨ !o.keyOk r.publicKey then .error .verificationKey
  else match r.body with
    | none => .error .unsetBody
    | some (url, value) =>
      if !o.sigOk r.publicKey value r.signature then .error .verification
      else if !o.bodyOk url value then .error .body
      else .ok ⟨r.signature, r.publicKey, url, value⟩

def Tx.toRaw (o : TxOracles) (t : Tx) : TxRaw := ⟨t.signature, t.key, some (o.bodyUrl, t.bodyBytes)⟩

end Astria.Block
