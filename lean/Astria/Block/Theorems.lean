import Astria.Block.Model
import Astria.Block.Rfc
import Astria.Block.Chain
import Astria.Block.Group
import Astria.Block.Build
import Astria.Block.Tamper
import Astria.Block.Receive
import Astria.Block.Wire
import Astria.Block.Reencode
import Astria.Block.FlatComplete
/-
  Theorems of area `block` (properties C07, C17).  The proofs live in the imported files:

  * `Rfc`          — RFC 6962 layer: tree hash injective up to collisions, audit paths complete,
                     an accepted path shows membership.
  * `Chain`        — both verifiers (RFC 6962, astria-merkle's index walk) are hash chains.
  * `Group`        — grouping by rollup id and sorting: data exactness, strictly sorted id set.
  * `Build`        — what `try_build` returns; every produced proof verifies.
  * `Tamper`       — what acceptance by each receiver means; tamper evidence (collision extractors).
  * `Receive`      — built blocks are accepted; filtering (core and gRPC); conductor reconstruction.
  * `Wire`         — no receiver panics (C17 decode_total).
  * `Reencode`     — accepted values re-encode (C17); transactions.
  * `FlatComplete` — astria-merkle's index walk accepts RFC 6962 audit paths; built blocks pass the
                     receivers under the crate's own verifier, also through raw protobuf.

  The property theorems are in `Astria/Properties/C07.lean` and `Astria/Properties/C17.lean`.
-/
