import Astria.Block.Model
/- Theorems for area `block` (stub). -/
namespace Astria.Block

end Astria.Block
