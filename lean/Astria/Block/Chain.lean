import Astria.Block.Model
import Astria.Block.Rfc
/-
  What an accepted Merkle proof gives, independently of how the verifier walks the tree:
  the claimed root is a *chain* of node hashes above the leaf hash.  Both the RFC 6962
  verifier and astria-merkle's index walk are chains, and a chain that ends in the tree hash
  of a list `L` shows membership of the leaf in `L` — or an explicit collision.
-/
namespace Astria.Block
open Astria.Merkle

variable {β α : Type}

/-- Fold a leaf hash upwards: `(true, s)` = "I am the left child, `s` is my right sibling". -/
def chainFold (H : HashFns β α) (acc : α) : List (Bool × α) → α
  | [] => acc
  | (true, s) :: rest => chainFold H (H.node acc s) rest
  | (false, s) :: rest => chainFold H (H.node s acc) rest

theorem chainFold_append (H : HashFns β α) (acc : α) (l : List (Bool × α)) (d : Bool) (s : α) :
    chainFold H acc (l ++ [(d, s)]) =
      if d then H.node (chainFold H acc l) s else H.node s (chainFold H acc l) := by
  induction l generalizing acc with
  | nil => cases d <;> simp [chainFold]
  | cons h t ih =>
    obtain ⟨hd, hs⟩ := h
    cases hd <;> simp [chainFold, ih]

theorem nil_or_snoc {γ : Type} (l : List γ) : l = [] ∨ ∃ init last, l = init ++ [last] := by
  induction l with
  | nil => exact Or.inl rfl
  | cons h t ih =>
    right
    rcases ih with e | ⟨init, last, e⟩
    · subst e; exact ⟨[], h, rfl⟩
    · subst e; exact ⟨h :: init, last, rfl⟩

/-- A chain from the leaf hash of `y` to the tree hash of `L` shows `y ∈ L` (or a collision). -/
theorem chain_mem (H : HashFns β α) :
    ∀ (k : Nat) (L : List β) (steps : List (Bool × α)) (y : β), L.length ≤ k →
      chainFold H (H.leaf y) steps = Rfc.mth H L → y ∈ L ∨ Collision' H := by
  intro k
  induction k with
  | zero =>
    intro L steps y hk h
    have hL : L = [] := List.eq_nil_of_length_eq_zero (by omega)
    subst hL
    rw [mth_nil] at h
    rcases nil_or_snoc steps with e | ⟨init, last, e⟩
    · subst e; simp [chainFold] at h; exact Or.inr (.emptyLeaf y h.symm)
    · subst e
      obtain ⟨d, s⟩ := last
      rw [chainFold_append] at h
      cases d
      · simp at h; exact Or.inr (.emptyNode _ _ h.symm)
      · simp at h; exact Or.inr (.emptyNode _ _ h.symm)
  | succ k ih =>
    intro L steps y hk h
    rcases nil_or_snoc steps with e | ⟨init, last, e⟩
    · subst e
      simp only [chainFold] at h
      match L with
      | [] => rw [mth_nil] at h; exact Or.inr (.emptyLeaf y h.symm)
      | [x] =>
        rw [mth_single] at h
        by_cases hxy : y = x
        · subst hxy; exact Or.inl (by simp)
        · exact Or.inr (.base (.leaf y x hxy h))
      | x :: z :: rest => rw [mth_ge2 H _ (by simp)] at h; exact Or.inr (.leafNode y _ _ h)
    · subst e
      obtain ⟨d, s⟩ := last
      rw [chainFold_append] at h
      match L with
      | [] =>
        rw [mth_nil] at h
        cases d
        · simp at h; exact Or.inr (.emptyNode _ _ h.symm)
        · simp at h; exact Or.inr (.emptyNode _ _ h.symm)
      | [x] =>
        rw [mth_single] at h
        cases d
        · simp at h; exact Or.inr (.leafNode x _ _ h.symm)
        · simp at h; exact Or.inr (.leafNode x _ _ h.symm)
      | x :: z :: rest =>
        have h2 : 2 ≤ (x :: z :: rest).length := by simp
        generalize hM : x :: z :: rest = M at *
        have hlt := Rfc.pow2lt_lt M.length h2
        have hpos := Rfc.pow2lt_pos M.length
        rw [mth_ge2 H M h2] at h
        have hl : (M.take (Rfc.pow2lt M.length)).length ≤ k := by rw [List.length_take]; omega
        have hr : (M.drop (Rfc.pow2lt M.length)).length ≤ k := by rw [List.length_drop]; omega
        cases d
        · simp only [Bool.false_eq_true, if_false] at h
          by_cases hp : (s, chainFold H (H.leaf y) init) =
              (Rfc.mth H (M.take (Rfc.pow2lt M.length)), Rfc.mth H (M.drop (Rfc.pow2lt M.length)))
          · have hb := congrArg Prod.snd hp
            simp only at hb
            rcases ih _ _ _ hr hb with hm | c
            · exact Or.inl (List.mem_of_mem_drop hm)
            · exact Or.inr c
          · exact Or.inr (.base (.node _ _ _ _ hp h))
        · simp only [if_true] at h
          by_cases hp : (chainFold H (H.leaf y) init, s) =
              (Rfc.mth H (M.take (Rfc.pow2lt M.length)), Rfc.mth H (M.drop (Rfc.pow2lt M.length)))
          · have ha := congrArg Prod.fst hp
            simp only at ha
            rcases ih _ _ _ hl ha with hm | c
            · exact Or.inl (List.mem_of_mem_take hm)
            · exact Or.inr c
          · exact Or.inr (.base (.node _ _ _ _ hp h))

theorem chain_mem' (H : HashFns β α) (L : List β) (steps : List (Bool × α)) (y : β)
    (h : chainFold H (H.leaf y) steps = Rfc.mth H L) : y ∈ L ∨ Collision' H :=
  chain_mem H L.length L steps y (Nat.le_refl _) h

/-! ### Both verifiers are chains -/

theorem rfc_is_chain (H : HashFns β α) :
    ∀ (k : Nat) (p : List α) (n i : Nat) (acc r : α), p.length ≤ k →
      Rfc.rootFromPath H n i acc p = some r → ∃ steps, chainFold H acc steps = r := by
  intro k
  induction k with
  | zero =>
    intro p n i acc r hk h
    have hp : p = [] := List.eq_nil_of_length_eq_zero (by omega)
    subst hp
    by_cases hn : n ≤ 1
    · rw [rootFromPath_le1 _ _ _ _ _ hn] at h
      simp at h
      exact ⟨[], by simp [chainFold, h]⟩
    · rw [rootFromPath_ge2 _ _ _ _ _ (by omega)] at h
      simp at h
  | succ k ih =>
    intro p n i acc r hk h
    by_cases hn : n ≤ 1
    · rw [rootFromPath_le1 _ _ _ _ _ hn] at h
      split at h
      · injection h with h; exact ⟨[], by simp [chainFold, h]⟩
      · cases h
    · rw [rootFromPath_ge2 _ _ _ _ _ (by omega)] at h
      split at h
      · cases h
      · rename_i s hs
        have hne : p ≠ [] := by intro e; subst e; simp at hs
        have hlen : p.dropLast.length ≤ k := by
          rw [List.length_dropLast]
          have : p.length ≠ 0 := fun e => hne (List.eq_nil_of_length_eq_zero e)
          omega
        split at h
        · match hq : Rfc.rootFromPath H (Rfc.pow2lt n) i acc p.dropLast with
          | none => rw [hq] at h; cases h
          | some l =>
            rw [hq] at h; simp at h
            obtain ⟨steps, hst⟩ := ih _ _ _ _ _ hlen hq
            exact ⟨steps ++ [(true, s)], by rw [chainFold_append, hst]; simpa using h⟩
        · match hq : Rfc.rootFromPath H (n - Rfc.pow2lt n) (i - Rfc.pow2lt n) acc p.dropLast with
          | none => rw [hq] at h; cases h
          | some l =>
            rw [hq] at h; simp at h
            obtain ⟨steps, hst⟩ := ih _ _ _ _ _ hlen hq
            exact ⟨steps ++ [(false, s)], by rw [chainFold_append, hst]; simpa using h⟩

theorem flat_is_chain (H : HashFns β α) (n : Nat) :
    ∀ (p : List α) (i : Nat) (acc r : α),
      Flat.reconstructRoot H n i acc p = .value r → ∃ steps, chainFold H acc steps = r := by
  intro p
  induction p with
  | nil =>
    intro i acc r h
    simp [Flat.reconstructRoot] at h
    exact ⟨[], by simp [chainFold, h]⟩
  | cons s rest ih =>
    intro i acc r h
    unfold Flat.reconstructRoot at h
    cases hcp : Flat.completeParent i n with
    | parent q =>
      simp only [hcp] at h
      by_cases hq : q > i
      · simp only [hq, if_true] at h
        obtain ⟨steps, hst⟩ := ih _ _ _ h
        exact ⟨(true, s) :: steps, by simpa [chainFold] using hst⟩
      · simp only [hq, if_false] at h
        obtain ⟨steps, hst⟩ := ih _ _ _ h
        exact ⟨(false, s) :: steps, by simpa [chainFold] using hst⟩
    | noParent => simp [hcp] at h
    | outOfFuel => simp [hcp] at h

/-! ### Same proof, same root ⇒ same leaf hash (or a collision) -/

theorem rfc_same_position (H : HashFns β α) :
    ∀ (k : Nat) (p : List α) (n i : Nat) (a a' r : α), p.length ≤ k →
      Rfc.rootFromPath H n i a p = some r → Rfc.rootFromPath H n i a' p = some r →
      a = a' ∨ Collision' H := by
  intro k
  induction k with
  | zero =>
    intro p n i a a' r hk h h'
    have hp : p = [] := List.eq_nil_of_length_eq_zero (by omega)
    subst hp
    by_cases hn : n ≤ 1
    · rw [rootFromPath_le1 _ _ _ _ _ hn] at h h'
      simp at h h'
      exact Or.inl (h.trans h'.symm)
    · rw [rootFromPath_ge2 _ _ _ _ _ (by omega)] at h
      simp at h
  | succ k ih =>
    intro p n i a a' r hk h h'
    by_cases hn : n ≤ 1
    · rw [rootFromPath_le1 _ _ _ _ _ hn] at h h'
      split at h
      · rename_i hemp
        injection h with h
        simp only [hemp, if_true] at h'
        injection h' with h'
        exact Or.inl (h.trans h'.symm)
      · cases h
    · rw [rootFromPath_ge2 _ _ _ _ _ (by omega)] at h h'
      split at h
      · cases h
      · rename_i s hs
        have hne : p ≠ [] := by intro e; subst e; simp at hs
        have hlen : p.dropLast.length ≤ k := by
          rw [List.length_dropLast]
          have : p.length ≠ 0 := fun e => hne (List.eq_nil_of_length_eq_zero e)
          omega
        rw [hs] at h'
        simp only at h'
        split at h
        · rename_i hc
          simp only [hc, if_true] at h'
          match hq : Rfc.rootFromPath H (Rfc.pow2lt n) i a p.dropLast,
                hq' : Rfc.rootFromPath H (Rfc.pow2lt n) i a' p.dropLast with
          | none, _ => rw [hq] at h; cases h
          | some _, none => rw [hq'] at h'; cases h'
          | some l, some l' =>
            rw [hq] at h; rw [hq'] at h'
            simp at h h'
            by_cases hp : (l, s) = (l', s)
            · have : l = l' := congrArg Prod.fst hp
              subst this
              exact ih _ _ _ _ _ _ hlen hq hq'
            · exact Or.inr (.base (.node _ _ _ _ hp (h.trans h'.symm)))
        · rename_i hc
          simp only [hc, if_false] at h'
          match hq : Rfc.rootFromPath H (n - Rfc.pow2lt n) (i - Rfc.pow2lt n) a p.dropLast,
                hq' : Rfc.rootFromPath H (n - Rfc.pow2lt n) (i - Rfc.pow2lt n) a' p.dropLast with
          | none, _ => rw [hq] at h; cases h
          | some _, none => rw [hq'] at h'; cases h'
          | some l, some l' =>
            rw [hq] at h; rw [hq'] at h'
            simp at h h'
            by_cases hp : (s, l) = (s, l')
            · have : l = l' := congrArg Prod.snd hp
              subst this
              exact ih _ _ _ _ _ _ hlen hq hq'
            · exact Or.inr (.base (.node _ _ _ _ hp (h.trans h'.symm)))

/-! ### The abstract verifier interface the tamper-evidence theorems need -/

/-- What the theorems assume of proof verification; proved below for both verifiers. -/
structure Verifier.Sound (Hs : Hashes) (V : Verifier) : Prop where
  chain : ∀ π lh r, V π lh r = .value true → ∃ steps, chainFold Hs.H lh steps = r
  inj : ∀ π a a' r, V π a r = .value true → V π a' r = .value true → a = a' ∨ Collision' Hs.H

theorem rfcV_sound (Hs : Hashes) : Verifier.Sound Hs (rfcV Hs) where
  chain := by
    intro π lh r h
    simp only [rfcV, rfcVerify, Outcome.value.injEq, beq_iff_eq] at h
    exact rfc_is_chain Hs.H _ _ _ _ _ _ (Nat.le_refl _) h
  inj := by
    intro π a a' r h h'
    simp only [rfcV, rfcVerify, Outcome.value.injEq, beq_iff_eq] at h h'
    exact rfc_same_position Hs.H _ _ _ _ _ _ _ (Nat.le_refl _) h h'

theorem flatV_sound (Hs : Hashes) : Verifier.Sound Hs (flatV Hs) where
  chain := by
    intro π lh r h
    simp only [flatV, Flat.Proof.reconstruct] at h
    split at h
    · cases h
    · rename_i x hx
      simp only [Outcome.value.injEq, beq_iff_eq] at h
      subst h
      split at hx
      · cases hx
      · exact flat_is_chain Hs.H _ _ _ _ _ hx
  inj := by
    intro π a a' r h h'
    simp only [flatV, Flat.Proof.reconstruct] at h h'
    split at h
    · cases h
    · rename_i x hx
      split at h'
      · cases h'
      · rename_i x' hx'
        simp only [Outcome.value.injEq, beq_iff_eq] at h h'
        subst h
        subst h'
        by_cases hni : 2 * π.leafIndex > USIZE_MAX
        · rw [if_pos hni] at hx; cases hx
        · rw [if_neg hni] at hx hx'
          by_cases haa : a = a'
          · exact Or.inl haa
          · exact Or.inr (.base (Flat.reconstructRoot_sound Hs.H _ _ _ _ _ _ _ hx hx' rfl (Or.inl haa)))

end Astria.Block
