import Astria.Block.Build
/-
  Tamper evidence, in extractor form.  For any hash functions and any verifier that is a chain
  (`Verifier.Sound`: both the RFC 6962 verifier and astria-merkle's index walk are): whatever a
  receiver accepts under the `data_hash` of a built block is the built block's data, or an
  explicit hash collision is exhibited.

  The receivers do not pin the *position* of the two commitments in `block.data` (the proofs'
  leaf index and tree size are attacker supplied), so what an accepted proof shows is membership
  of the hashed value among the items of `block.data`; the commitments are told apart from the
  other items by their length (hypothesis `ItemsOk`: no other item is 32 bytes long — signed
  transactions and the extended commit info never are).
-/
set_option linter.unusedSectionVars false

namespace Astria.Block
open Astria.Merkle

/-- An explicit collision of one of the hash functions involved. -/
inductive BlockCollision (Hs : Hashes) : Prop where
  | tree (c : Collision' Hs.H) : BlockCollision Hs
  | sha (x y : Bytes) (hne : x ≠ y) (h : Hs.sha x = Hs.sha y) : BlockCollision Hs

/-! ### What acceptance by a receiver means -/

/-- `SequencerBlock::try_from_raw` returned this block. -/
structure FullAccepted (c : Ctx) (b : Block) : Prop where
  rootLen : b.header.txsRoot.length = 32
  idLen : ∀ r ∈ b.rollups, r.id.length = 32
  txsRoot : verifyLeaf c b.txsProof (c.Hs.sha b.header.txsRoot) b.header.dataHash = .value true
  txsIncl : txsIncluded c b.rollups b.txsProof b.header.dataHash = .value true
  idsIncl : idsIncluded c b.ids b.idsProof b.header.dataHash = .value true

/-- `FilteredSequencerBlock::try_from_raw` returned this block. -/
structure FilteredAccepted (c : Ctx) (f : Filtered) : Prop where
  rootLen : f.header.txsRoot.length = 32
  idLen : ∀ r ∈ f.rollups, r.id.length = 32
  allIdLen : ∀ i ∈ f.allIds, i.length = 32
  txsRoot : verifyLeaf c f.txsProof (c.Hs.sha f.header.txsRoot) f.header.dataHash = .value true
  rts : ∀ r ∈ f.rollups, rtMatchesRoot c r.id r.txs r.proof f.header.txsRoot = .value true
  idsIncl : idsIncluded c f.allIds f.idsProof f.header.dataHash = .value true

/-- `SubmittedMetadata::try_from_raw` returned this value. -/
structure MetaAccepted (c : Ctx) (m : Meta) : Prop where
  rootLen : m.header.txsRoot.length = 32
  idLen : ∀ i ∈ m.ids, i.length = 32
  txsRoot : verifyLeaf c m.txsProof (c.Hs.sha m.header.txsRoot) m.header.dataHash = .value true
  idsIncl : idsIncluded c m.ids m.idsProof m.header.dataHash = .value true

theorem decodeHeader_ok (r : HeaderRaw) (h : Header) (e : decodeHeader r = .ok h) :
    h.txsRoot.length = 32 ∧ h.dataHash.length = 32 ∧ h.txsRoot = r.txsRoot ∧ h.dataHash = r.dataHash := by
  unfold decodeHeader at e
  split at e
  · cases e
  · split at e
    · cases e
    · split at e
      · cases e
      · split at e
        · cases e
        · split at e
          · cases e
          · split at e
            · cases e
            · split at e
              · cases e
              · injection e with e
                subst e
                rename_i h5 h6 _
                simp only [ne_eq, Decidable.not_not] at h5 h6
                exact ⟨h5, h6, rfl, rfl⟩

theorem decodeRt_ok (r : RtRaw) (x : Rt) (h : decodeRt r = .value (.ok x)) : x.id.length = 32 := by
  unfold decodeRt at h
  split at h
  · cases h
  · split at h
    · cases h
    · rename_i hl
      split at h
      · cases h
      · simp only [andThen_eq_ok] at h
        obtain ⟨π, _, h⟩ := h
        injection h with h; injection h with h
        subst h
        simpa using hl

theorem mem_imInsert (m : List Rt) (r x : Rt) (h : x ∈ imInsert m r) : x = r ∨ x ∈ m := by
  induction m with
  | nil => simp [imInsert] at h; exact Or.inl h
  | cons y ys ih =>
    simp only [imInsert] at h
    split at h
    · rcases List.mem_cons.mp h with e | e
      · exact Or.inl e
      · exact Or.inr (List.mem_cons_of_mem _ e)
    · rcases List.mem_cons.mp h with e | e
      · exact Or.inr (by rw [e]; simp)
      · rcases ih e with e | e
        · exact Or.inl e
        · exact Or.inr (List.mem_cons_of_mem _ e)

theorem mem_imCollect_aux (l : List Rt) : ∀ (acc : List Rt) (x : Rt),
    x ∈ l.foldl imInsert acc → x ∈ acc ∨ x ∈ l := by
  induction l with
  | nil => intro acc x h; exact Or.inl h
  | cons r rest ih =>
    intro acc x h
    simp only [List.foldl_cons] at h
    rcases ih _ x h with e | e
    · rcases mem_imInsert acc r x e with e | e
      · exact Or.inr (by rw [e]; simp)
      · exact Or.inl e
    · exact Or.inr (List.mem_cons_of_mem _ e)

theorem mem_imCollect (l : List Rt) (x : Rt) (h : x ∈ imCollect l) : x ∈ l := by
  rcases mem_imCollect_aux l [] x h with e | e
  · cases e
  · exact e

theorem rts_idLen (raws : List RtRaw) (rts : List Rt) (h : mapM' decodeRt raws = .value (.ok rts)) :
    ∀ r ∈ imCollect rts, r.id.length = 32 := by
  intro r hr
  obtain ⟨a, _, ha⟩ := (mapM'_ok decodeRt raws rts h).mem_right r (mem_imCollect rts r hr)
  exact decodeRt_ok a r ha

theorem decodeIds_ok (l out : List Bytes) (h : decodeIds l = .ok out) : out = l ∧ ∀ i ∈ l, i.length = 32 := by
  unfold decodeIds at h
  split at h
  · rename_i hall
    injection h with h
    refine ⟨h.symm, ?_⟩
    intro i hi
    have := List.all_eq_true.mp hall i hi
    simpa using this
  · cases h

theorem checkRts_ok (c : Ctx) (root : Bytes) :
    ∀ (l : List Rt) (u : Unit), checkRts c root l = .value (.ok u) →
      ∀ r ∈ l, rtMatchesRoot c r.id r.txs r.proof root = .value true := by
  intro l
  induction l with
  | nil => intro u _ r hr; cases hr
  | cons x rest ih =>
    intro u h r hr
    simp only [checkRts, andThen_eq_ok, guardV_eq_ok] at h
    obtain ⟨_, hx, hrest⟩ := h
    rcases List.mem_cons.mp hr with e | e
    · subst e; exact hx
    · exact ih _ hrest r e

/-- Whatever `SequencerBlock::try_from_raw` returns has passed its checks. -/
theorem fullFromRaw_accepted (c : Ctx) (r : BlockRaw) (b : Block) (h : fullFromRaw c r = .value (.ok b)) :
    FullAccepted c b := by
  simp only [fullFromRaw, andThen_eq_ok, liftE_eq_ok, guardV_eq_ok, mapErr_eq_ok, optField_eq_ok] at h
  obtain ⟨bh, _, rtp, _, tp, _, rip, _, ip, _, rh, _, hd, hhd, rts, hrts, _, h1, _, h2, _, _, _, h3, uch, _, eci, _, hb⟩ := h
  injection hb with hb; injection hb with hb
  subst hb
  have hhd' : decodeHeader rh = .ok hd := by
    cases hq : decodeHeader rh with
    | error e => rw [hq] at hhd; cases hhd
    | ok v => rw [hq] at hhd; simp only [Except.mapError] at hhd; injection hhd with hhd; rw [hhd]
  exact ⟨(decodeHeader_ok rh hd hhd').1, rts_idLen _ _ hrts, h1, h2, h3⟩

/-- With the repair of finding FB1 (`fullChecksRts`), an accepted full block's per-rollup proofs
    verify against its rollup transactions root. -/
theorem fullFromRaw_rts_verified (c : Ctx) (hfix : c.fullChecksRts = true) (r : BlockRaw) (b : Block)
    (h : fullFromRaw c r = .value (.ok b)) :
    ∀ x ∈ b.rollups, rtMatchesRoot c x.id x.txs x.proof b.header.txsRoot = .value true := by
  simp only [fullFromRaw, andThen_eq_ok, liftE_eq_ok, guardV_eq_ok, mapErr_eq_ok, optField_eq_ok, hfix, if_true] at h
  obtain ⟨bh, _, rtp, _, tp, _, rip, _, ip, _, rh, _, hd, hhd, rts, hrts, _, h1, _, h2, u, hchk, _, h3, uch, _, eci, _, hb⟩ := h
  injection hb with hb; injection hb with hb
  subst hb
  exact checkRts_ok c _ _ u hchk

theorem filteredFromRaw_accepted (c : Ctx) (r : FilteredRaw) (f : Filtered)
    (h : filteredFromRaw c r = .value (.ok f)) : FilteredAccepted c f := by
  simp only [filteredFromRaw, andThen_eq_ok, liftE_eq_ok, guardV_eq_ok, mapErr_eq_ok, optField_eq_ok] at h
  obtain ⟨bh, _, rtp, _, tp, _, rip, _, ip, _, rh, _, hd, hhd, rts, hrts, ids, hids, _, h1, _, h2, _, h3, uch, _, eci, _, hb⟩ := h
  injection hb with hb; injection hb with hb
  subst hb
  have hhd' : decodeHeader rh = .ok hd := by
    cases hq : decodeHeader rh with
    | error e => rw [hq] at hhd; cases hhd
    | ok v => rw [hq] at hhd; simp only [Except.mapError] at hhd; injection hhd with hhd; rw [hhd]
  obtain ⟨hi1, hi2⟩ := decodeIds_ok _ _ hids
  refine ⟨(decodeHeader_ok rh hd hhd').1, rts_idLen _ _ hrts, ?_, h1, checkRts_ok c _ _ _ h2, h3⟩
  intro i hi
  rw [hi1] at hi
  exact hi2 i hi

theorem metaFromRaw_accepted (c : Ctx) (r : MetaRaw) (m : Meta) (h : metaFromRaw c r = .value (.ok m)) :
    MetaAccepted c m := by
  simp only [metaFromRaw, andThen_eq_ok, liftE_eq_ok, guardV_eq_ok, mapErr_eq_ok, optField_eq_ok] at h
  obtain ⟨rh, _, hd, hhd, ids, hids, rtp, _, tp, _, rip, _, ip, _, bh, _, uch, _, eci, _, _, h1, _, h2, hb⟩ := h
  injection hb with hb; injection hb with hb
  subst hb
  have hhd' : decodeHeader rh = .ok hd := by
    cases hq : decodeHeader rh with
    | error e => rw [hq] at hhd; cases hhd
    | ok v => rw [hq] at hhd; simp only [Except.mapError] at hhd; injection hhd with hhd; rw [hhd]
  obtain ⟨hi1, hi2⟩ := decodeIds_ok _ _ hids
  refine ⟨(decodeHeader_ok rh hd hhd').1, ?_, h1, h2⟩
  intro i hi
  rw [hi1] at hi
  exact hi2 i hi

theorem blobFromRaw_ok (r : BlobRaw) (b : Blob) (h : blobFromRaw r = .value (.ok b)) : b.id.length = 32 := by
  simp only [blobFromRaw, andThen_eq_ok, liftE_eq_ok, mapErr_eq_ok, optField_eq_ok] at h
  obtain ⟨id0, _, id, hid, bh, _, rp, _, π, _, hb⟩ := h
  injection hb with hb; injection hb with hb
  subst hb
  split at hid
  · rename_i hl; injection hid with hid; subst hid; exact hl
  · cases hid

/-! ### Membership from an accepted proof -/

section
variable (c : Ctx) (hV : Verifier.Sound c.Hs c.V)
include hV

/-- An accepted proof against the tree hash of `L` shows the leaf is in `L`. -/
theorem accepted_mem (L : List Bytes) (π : Proof) (x : Bytes)
    (h : verifyLeaf c π x (treeRoot c.Hs L) = .value true) : x ∈ L ∨ Collision' c.Hs.H := by
  obtain ⟨steps, hst⟩ := hV.chain π _ _ h
  exact chain_mem' c.Hs.H L steps x hst

end

/-- The items of `block.data` whose hashes are the leaves of the data tree. -/
def dataItems (inp : BuildInput) : List Bytes := [inp.txsRoot, inp.idsRoot] ++ inp.eci.toList ++ inp.userTxs

theorem dataLeaves_eq (Hs : Hashes) (inp : BuildInput) : dataLeaves Hs inp = (dataItems inp).map Hs.sha := by
  simp [dataLeaves, dataItems]

/-- No item of `block.data` other than the two commitments is 32 bytes long. -/
def BuildInput.ItemsOk (inp : BuildInput) : Prop := ∀ t ∈ inp.eci.toList ++ inp.userTxs, t.length ≠ 32

/-- Rollup ids are 32 bytes long (the Rust type `RollupId`). -/
def BuildInput.IdsOk (inp : BuildInput) : Prop :=
  (∀ s ∈ inp.subs, s.1.length = 32) ∧ (∀ d ∈ inp.deps, d.1.length = 32)

theorem keys_len (inp : BuildInput) (h : inp.IdsOk) : ∀ k ∈ keys (groupsOf inp), k.length = 32 := by
  intro k hk
  rw [groupsOf, mem_keys_sortGroups, mem_keys_groupAll] at hk
  rcases hk with hk | hk
  · obtain ⟨s, hs, e⟩ := List.mem_map.mp hk
    rw [← e]; exact h.1 s hs
  · obtain ⟨d, hd, e⟩ := List.mem_map.mp hk
    rw [← e]; exact h.2 d hd

section
variable (c : Ctx) (hs : c.Hs.Sized) (hV : Verifier.Sound c.Hs c.V)
include hs hV

/-- A 32-byte value whose SHA-256 is proven to be under the data hash is one of the two
    commitments (or a collision is exhibited). -/
theorem root_in_data (inp : BuildInput) (hitems : inp.ItemsOk) (π : Proof) (y : Bytes) (hy : y.length = 32)
    (h : verifyLeaf c π (c.Hs.sha y) (treeRoot c.Hs (dataLeaves c.Hs inp)) = .value true) :
    BlockCollision c.Hs ∨ y = inp.txsRoot ∨ y = inp.idsRoot := by
  rcases accepted_mem c hV _ π _ h with hm | col
  · rw [dataLeaves_eq] at hm
    obtain ⟨z, hz, hsha⟩ := List.mem_map.mp hm
    by_cases hzy : z = y
    · subst hzy
      simp only [dataItems, List.cons_append, List.nil_append, List.mem_cons, List.mem_append] at hz
      rcases hz with e | e | e
      · exact Or.inr (Or.inl e)
      · exact Or.inr (Or.inr e)
      · exact absurd hy (hitems z (List.mem_append.mpr e))
    · exact Or.inl (.sha z y hzy hsha)
  · exact Or.inl (.tree col)

end

/-! ### Leaves determine content -/

theorem leaves_inj (Hs : Hashes) :
    ∀ (rs : List (Bytes × List Bytes)) (g : Groups),
      (∀ r ∈ rs, r.1.length = 32) → (∀ e ∈ g, e.1.length = 32) →
      rollupLeaves Hs rs = rollupLeaves Hs g → rs = g ∨ Collision' Hs.H := by
  intro rs
  induction rs with
  | nil =>
    intro g _ _ h
    cases g with
    | nil => exact Or.inl rfl
    | cons _ _ => simp [rollupLeaves] at h
  | cons r rest ih =>
    intro g h1 h2 h
    cases g with
    | nil => simp [rollupLeaves] at h
    | cons e g' =>
      simp only [rollupLeaves, List.map_cons, List.cons.injEq] at h
      obtain ⟨hhead, htail⟩ := h
      have hl : r.1.length = e.1.length := by rw [h1 r (by simp), h2 e (by simp)]
      obtain ⟨hid, hroot⟩ := List.append_inj hhead hl
      rcases mth_inj' Hs.H r.2 e.2 hroot with htx | col
      · rcases ih g' (fun x hx => h1 x (List.mem_cons_of_mem _ hx)) (fun x hx => h2 x (List.mem_cons_of_mem _ hx)) htail with e' | col
        · left
          rw [e']
          congr 1
          exact Prod.ext hid htx
        · exact Or.inr col
      · exact Or.inr col

/-- A list of rollup leaves (64 bytes each) equals a list of rollup ids (32 bytes each) only if
    both are empty. -/
theorem leaves_ne_ids (Hs : Hashes) (hs : Hs.Sized) (rs : List (Bytes × List Bytes)) (ids : List Bytes)
    (h1 : ∀ r ∈ rs, r.1.length = 32) (h2 : ∀ i ∈ ids, i.length = 32) (h : rollupLeaves Hs rs = ids) :
    rs = [] ∧ ids = [] := by
  cases rs with
  | nil =>
    cases ids with
    | nil => exact ⟨rfl, rfl⟩
    | cons _ _ => simp [rollupLeaves] at h
  | cons r rest =>
    cases ids with
    | nil => simp [rollupLeaves] at h
    | cons i ids' =>
      simp only [rollupLeaves, List.map_cons, List.cons.injEq] at h
      have := congrArg List.length h.1
      rw [rollupLeaf_length Hs hs, h1 r (by simp), h2 i (by simp)] at this
      omega

theorem content_leaves (Hs : Hashes) (rts : List Rt) :
    rts.map (fun r => rollupLeaf Hs r.id r.txs) = rollupLeaves Hs (rts.map fun r => (r.id, r.txs)) := by
  simp [rollupLeaves, List.map_map, Function.comp_def]

/-! ### The tamper-evidence theorems -/

section
variable (c : Ctx) (hs : c.Hs.Sized) (hV : Verifier.Sound c.Hs c.V)
variable (inp : BuildInput) (b : Block) (hb : tryBuild c.Hs inp = .ok b)
variable (hids : inp.IdsOk) (hitems : inp.ItemsOk)
include hs hV hb hids hitems

/-- A 32-byte tree hash proven under the data hash of the built block: it is the tree hash of
    the built block's rollup leaves or of its rollup ids. -/
theorem tree_in_data (π : Proof) (L : List Bytes)
    (h : verifyLeaf c π (c.Hs.sha (treeRoot c.Hs L)) b.header.dataHash = .value true) :
    BlockCollision c.Hs ∨ L = rollupLeaves c.Hs (groupsOf inp) ∨ L = keys (groupsOf inp) := by
  obtain ⟨h1, h2, _, hdh, _⟩ := tryBuild_ok c.Hs inp b hb
  rw [hdh] at h
  rcases root_in_data c hs hV inp hitems π _ (treeRoot_length c.Hs hs L) h with col | e | e
  · exact Or.inl col
  · rw [h2] at e
    rcases mth_inj' c.Hs.H _ _ e with e' | col
    · exact Or.inr (Or.inl e')
    · exact Or.inl (.tree col)
  · rw [h1] at e
    rcases mth_inj' c.Hs.H _ _ e with e' | col
    · exact Or.inr (Or.inr e')
    · exact Or.inl (.tree col)

/-- **Full block.**  If `SequencerBlock::try_from_raw` accepts a block under the data hash of a
    built block, its rollup ids, per-rollup data (content and order) and rollup transactions
    root are the built block's — or a collision is exhibited. -/
theorem full_tamper_evident (b' : Block) (hacc : FullAccepted c b')
    (hdh : b'.header.dataHash = b.header.dataHash) :
    BlockCollision c.Hs ∨ (b'.content = b.content ∧ b'.header.txsRoot = b.header.txsRoot) := by
  have hcontent := content_of_built c.Hs inp b hb
  obtain ⟨h1, h2, hroot, _, _⟩ := tryBuild_ok c.Hs inp b hb
  have hklen := keys_len inp hids
  have hglen : ∀ e ∈ groupsOf inp, e.1.length = 32 := fun e he => hklen e.1 (List.mem_map_of_mem he)
  have hclen : ∀ r ∈ b'.content, r.1.length = 32 := by
    intro r hr
    obtain ⟨x, hx, e⟩ := List.mem_map.mp hr
    rw [← e]; exact hacc.idLen x hx
  -- the recomputed rollup tree
  have hincl := hacc.txsIncl
  simp only [txsIncluded, content_leaves] at hincl
  rw [hdh] at hincl
  -- header root and recomputed root sit under the same proof
  have hsame : BlockCollision c.Hs ∨
      b'.header.txsRoot = treeRoot c.Hs (rollupLeaves c.Hs b'.content) := by
    have ht := hacc.txsRoot
    rw [hdh] at ht
    rcases hV.inj _ _ _ _ ht hincl with e | col
    · by_cases hx : c.Hs.sha b'.header.txsRoot = c.Hs.sha (treeRoot c.Hs (rollupLeaves c.Hs b'.content))
      · by_cases hy : b'.header.txsRoot = treeRoot c.Hs (rollupLeaves c.Hs b'.content)
        · exact Or.inr hy
        · exact Or.inl (.sha _ _ hy hx)
      · exact Or.inl (.tree (.base (.leaf _ _ hx e)))
    · exact Or.inl (.tree col)
  rcases tree_in_data c hs hV inp b hb hids hitems _ _ hincl with col | e | e
  · exact Or.inl col
  · rcases leaves_inj c.Hs _ _ hclen hglen e with e' | col
    · rcases hsame with col | hr
      · exact Or.inl col
      · right
        refine ⟨by rw [e', hcontent], ?_⟩
        rw [hr, e', hroot, h2]
    · exact Or.inl (.tree col)
  · obtain ⟨e1, e2⟩ := leaves_ne_ids c.Hs hs _ _ hclen hklen e
    have hg : groupsOf inp = [] := by
      cases hgg : groupsOf inp with
      | nil => rfl
      | cons x xs => rw [hgg] at e2; simp [keys] at e2
    rcases hsame with col | hr
    · exact Or.inl col
    · right
      refine ⟨by rw [e1, hcontent, hg], ?_⟩
      rw [hr, e1, hroot, h2, hg]

/-- One rollup entry (id, data, proof) accepted against the rollup transactions root of the
    built block is an entry of the built block. -/
theorem entry_tamper_evident (π : Proof) (id : Bytes) (txs : List Bytes) (hid : id.length = 32)
    (h : rtMatchesRoot c id txs π b.header.txsRoot = .value true) :
    BlockCollision c.Hs ∨ (id, txs) ∈ b.content := by
  have hcontent := content_of_built c.Hs inp b hb
  obtain ⟨_, h2, hroot, _, _⟩ := tryBuild_ok c.Hs inp b hb
  have hklen := keys_len inp hids
  simp only [rtMatchesRoot] at h
  rw [hroot, h2] at h
  rcases accepted_mem c hV _ π _ h with hm | col
  · simp only [rollupLeaves] at hm
    obtain ⟨e, he, heq⟩ := List.mem_map.mp hm
    have hl : e.1.length = id.length := by rw [hid]; exact hklen e.1 (List.mem_map_of_mem he)
    simp only [rollupLeaf] at heq
    obtain ⟨e1, e2⟩ := List.append_inj heq hl
    rcases mth_inj' c.Hs.H _ _ e2 with e3 | col
    · right
      rw [hcontent]
      have : (id, txs) = e := Prod.ext e1.symm e3.symm
      rw [this]; exact he
    · exact Or.inl (.tree col)
  · exact Or.inl (.tree col)

/-- **Filtered block.**  Every rollup entry of an accepted filtered block is an entry of the
    built block and the list of all rollup ids is the built block's. -/
theorem filtered_tamper_evident (f : Filtered) (hacc : FilteredAccepted c f)
    (hdh : f.header.dataHash = b.header.dataHash) :
    BlockCollision c.Hs ∨ ((∀ r ∈ f.rollups, (r.id, r.txs) ∈ b.content) ∧ f.allIds = b.ids) := by
  have hcontent := content_of_built c.Hs inp b hb
  have hbids := ids_of_built c.Hs inp b hb
  obtain ⟨h1, h2, hroot, hbdh, _⟩ := tryBuild_ok c.Hs inp b hb
  have hklen := keys_len inp hids
  have hglen : ∀ e ∈ groupsOf inp, e.1.length = 32 := fun e he => hklen e.1 (List.mem_map_of_mem he)
  -- all ids
  have hidsI := hacc.idsIncl
  simp only [idsIncluded] at hidsI
  rw [hdh] at hidsI
  have hall : BlockCollision c.Hs ∨ f.allIds = b.ids := by
    rcases tree_in_data c hs hV inp b hb hids hitems _ _ hidsI with col | e | e
    · exact Or.inl col
    · -- the ids list equals the leaves list: only if both are empty
      obtain ⟨e1, e2⟩ := leaves_ne_ids c.Hs hs _ _ hglen hacc.allIdLen e.symm
      right; rw [e2, hbids, e1]; rfl
    · right; rw [e, hbids]
  -- the header root is one of the two commitments
  have ht := hacc.txsRoot
  rw [hdh, hbdh] at ht
  rcases hall with col | hall
  · exact Or.inl col
  · rcases root_in_data c hs hV inp hitems _ _ hacc.rootLen ht with col | e | e
    · exact Or.inl col
    · -- the honest root: every entry is an entry of the built block
      have hcol_or : ∀ r ∈ f.rollups, BlockCollision c.Hs ∨ (r.id, r.txs) ∈ b.content := by
        intro r hr
        have := hacc.rts r hr
        rw [e, ← hroot] at this
        exact entry_tamper_evident c hs hV inp b hb hids hitems r.proof r.id r.txs (hacc.idLen r hr) this
      by_cases hex : ∃ r ∈ f.rollups, (r.id, r.txs) ∉ b.content
      · obtain ⟨r, hr, hn⟩ := hex
        rcases hcol_or r hr with col | hm
        · exact Or.inl col
        · exact absurd hm hn
      · right
        refine ⟨?_, hall⟩
        intro r hr
        by_cases hm : (r.id, r.txs) ∈ b.content
        · exact hm
        · exact absurd ⟨r, hr, hm⟩ hex
    · -- the ids root in place of the rollup transactions root: no entry can be proven under it
      cases hfr : f.rollups with
      | nil => right; exact ⟨(by intro r hr; cases hr), hall⟩
      | cons r rest =>
        have hr : r ∈ f.rollups := by rw [hfr]; simp
        have := hacc.rts r hr
        simp only [rtMatchesRoot] at this
        rw [e, h1] at this
        rcases accepted_mem c hV _ _ _ this with hm | col
        · have h32 := hklen _ hm
          rw [rollupLeaf_length c.Hs hs, hacc.idLen r hr] at h32
          omega
        · exact Or.inl (.tree col)

/-- **Celestia form.**  Metadata accepted under the built block's data hash lists the built
    block's rollup ids, and a rollup blob that passes the conductor's audit against that
    metadata carries an entry of the built block. -/
theorem celestia_tamper_evident (m : Meta) (hacc : MetaAccepted c m)
    (hdh : m.header.dataHash = b.header.dataHash) :
    BlockCollision c.Hs ∨ (m.ids = b.ids ∧
      ∀ blob : Blob, blob.id.length = 32 → verifyBlob c blob m = .value true → (blob.id, blob.txs) ∈ b.content) := by
  have hbids := ids_of_built c.Hs inp b hb
  obtain ⟨h1, h2, hroot, hbdh, _⟩ := tryBuild_ok c.Hs inp b hb
  have hklen := keys_len inp hids
  have hglen : ∀ e ∈ groupsOf inp, e.1.length = 32 := fun e he => hklen e.1 (List.mem_map_of_mem he)
  have hidsI := hacc.idsIncl
  simp only [idsIncluded] at hidsI
  rw [hdh] at hidsI
  have hall : BlockCollision c.Hs ∨ m.ids = b.ids := by
    rcases tree_in_data c hs hV inp b hb hids hitems _ _ hidsI with col | e | e
    · exact Or.inl col
    · obtain ⟨e1, e2⟩ := leaves_ne_ids c.Hs hs _ _ hglen hacc.idLen e.symm
      right; rw [e2, hbids, e1]; rfl
    · right; rw [e, hbids]
  have ht := hacc.txsRoot
  rw [hdh, hbdh] at ht
  rcases hall with col | hall
  · exact Or.inl col
  · rcases root_in_data c hs hV inp hitems _ _ hacc.rootLen ht with col | e | e
    · exact Or.inl col
    · -- classical case split: either some accepted blob is not an entry (then a collision), or all are
      by_cases hex : ∃ blob : Blob, blob.id.length = 32 ∧ verifyBlob c blob m = .value true ∧ (blob.id, blob.txs) ∉ b.content
      · obtain ⟨blob, hl, hv, hn⟩ := hex
        simp only [verifyBlob] at hv
        rw [e, ← hroot] at hv
        rcases entry_tamper_evident c hs hV inp b hb hids hitems blob.proof blob.id blob.txs hl hv with col | hm
        · exact Or.inl col
        · exact absurd hm hn
      · right
        refine ⟨hall, ?_⟩
        intro blob hl hv
        by_cases hm : (blob.id, blob.txs) ∈ b.content
        · exact hm
        · exact absurd ⟨blob, hl, hv, hm⟩ hex
    · by_cases hex : ∃ blob : Blob, blob.id.length = 32 ∧ verifyBlob c blob m = .value true
      · obtain ⟨blob, hl, hv⟩ := hex
        simp only [verifyBlob, rtMatchesRoot] at hv
        rw [e, h1] at hv
        rcases accepted_mem c hV _ _ _ hv with hm | col
        · have h32 := hklen _ hm
          rw [rollupLeaf_length c.Hs hs, hl] at h32
          omega
        · exact Or.inl (.tree col)
      · right
        refine ⟨hall, ?_⟩
        intro blob hl hv
        exact absurd ⟨blob, hl, hv⟩ hex

end

end Astria.Block
