import Astria.Merkle.Model
import Astria.Merkle.Theorems
/-
  Facts about the RFC 6962 layer of the Merkle model (`Astria.Merkle.Rfc`) that the block
  theorems need, for arbitrary hash functions:

  * `mth_inj`       — two different leaf lists with the same tree hash yield an explicit collision;
  * `path_complete` — the audit path of leaf `i` reconstructs the tree hash;
  * `rootFromPath_mem` — if *any* (tree size, index, path) reconstructs the hash of a list `L`
                     from the leaf hash of `y`, then `y ∈ L` or an explicit collision exists.
                     (Verification does not pin the position: index and size are attacker
                     supplied, so membership is exactly what an accepted proof gives.)
-/
namespace Astria.Block
open Astria.Merkle

variable {β α : Type}

/-- Explicit collisions of the tree's hash functions, including the cross-domain ones that
    RFC 6962's `0x00`/`0x01` prefixes (and the non-empty input) rule out for a real hash. -/
inductive Collision' (H : HashFns β α) : Prop where
  | base (c : Collision H) : Collision' H
  | leafNode (x : β) (a b : α) (h : H.leaf x = H.node a b) : Collision' H
  | emptyLeaf (x : β) (h : H.empty = H.leaf x) : Collision' H
  | emptyNode (a b : α) (h : H.empty = H.node a b) : Collision' H

/-! ### Unfolding lemmas -/

theorem mth_nil (H : HashFns β α) : Rfc.mth H [] = H.empty := by
  rw [Rfc.mth]

theorem mth_single (H : HashFns β α) (x : β) : Rfc.mth H [x] = H.leaf x := by
  rw [Rfc.mth]

theorem mth_ge2 (H : HashFns β α) (L : List β) (h : 2 ≤ L.length) :
    Rfc.mth H L = H.node (Rfc.mth H (L.take (Rfc.pow2lt L.length)))
                         (Rfc.mth H (L.drop (Rfc.pow2lt L.length))) := by
  match L, h with
  | x :: y :: rest, _ =>
    rw [Rfc.mth]
    simp only [List.length_cons]

theorem path_ge2 (H : HashFns β α) (i : Nat) (L : List β) (h : 2 ≤ L.length) :
    Rfc.path H i L =
      if i < Rfc.pow2lt L.length then
        Rfc.path H i (L.take (Rfc.pow2lt L.length)) ++ [Rfc.mth H (L.drop (Rfc.pow2lt L.length))]
      else
        Rfc.path H (i - Rfc.pow2lt L.length) (L.drop (Rfc.pow2lt L.length))
          ++ [Rfc.mth H (L.take (Rfc.pow2lt L.length))] := by
  match L, h with
  | x :: y :: rest, _ =>
    rw [Rfc.path]
    simp only [List.length_cons]

theorem path_single (H : HashFns β α) (i : Nat) (x : β) : Rfc.path H i [x] = [] := by
  rw [Rfc.path]

theorem rootFromPath_le1 (H : HashFns β α) (n i : Nat) (acc : α) (p : List α) (h : n ≤ 1) :
    Rfc.rootFromPath H n i acc p = if p.isEmpty then some acc else none := by
  rw [Rfc.rootFromPath]
  simp [h]

theorem rootFromPath_ge2 (H : HashFns β α) (n i : Nat) (acc : α) (p : List α) (h : 2 ≤ n) :
    Rfc.rootFromPath H n i acc p =
      match p.getLast? with
      | none => none
      | some s =>
        if i < Rfc.pow2lt n then
          (Rfc.rootFromPath H (Rfc.pow2lt n) i acc p.dropLast).map (fun l => H.node l s)
        else
          (Rfc.rootFromPath H (n - Rfc.pow2lt n) (i - Rfc.pow2lt n) acc p.dropLast).map
            (fun r => H.node s r) := by
  rw [Rfc.rootFromPath]
  have : ¬ n ≤ 1 := by omega
  simp only [this, dite_false]
  cases p.getLast? <;> rfl

theorem pow2lt_le (n : Nat) (h : 2 ≤ n) : Rfc.pow2lt n ≤ n := Nat.le_of_lt (Rfc.pow2lt_lt n h)

/-! ### The tree hash is injective up to explicit collisions -/

theorem mth_inj (H : HashFns β α) :
    ∀ (k : Nat) (L L' : List β), L.length ≤ k → Rfc.mth H L = Rfc.mth H L' → L = L' ∨ Collision' H := by
  intro k
  induction k with
  | zero =>
    intro L L' hk h
    have hL : L = [] := List.eq_nil_of_length_eq_zero (by omega)
    subst hL
    match L' with
    | [] => exact Or.inl rfl
    | [x] => rw [mth_nil, mth_single] at h; exact Or.inr (.emptyLeaf x h)
    | x :: y :: rest =>
      rw [mth_nil, mth_ge2 H _ (by simp)] at h; exact Or.inr (.emptyNode _ _ h)
  | succ k ih =>
    intro L L' hk h
    match L, L' with
    | [], [] => exact Or.inl rfl
    | [], [x] => rw [mth_nil, mth_single] at h; exact Or.inr (.emptyLeaf x h)
    | [], x :: y :: rest =>
      rw [mth_nil, mth_ge2 H _ (by simp)] at h; exact Or.inr (.emptyNode _ _ h)
    | [x], [] => rw [mth_nil, mth_single] at h; exact Or.inr (.emptyLeaf x h.symm)
    | [x], [y] =>
      rw [mth_single, mth_single] at h
      by_cases hxy : x = y
      · subst hxy; exact Or.inl rfl
      · exact Or.inr (.base (.leaf x y hxy h))
    | [x], y :: z :: rest =>
      rw [mth_single, mth_ge2 H _ (by simp)] at h; exact Or.inr (.leafNode x _ _ h)
    | x :: y :: rest, [] =>
      rw [mth_nil, mth_ge2 H _ (by simp)] at h; exact Or.inr (.emptyNode _ _ h.symm)
    | x :: y :: rest, [z] =>
      rw [mth_single, mth_ge2 H _ (by simp)] at h; exact Or.inr (.leafNode z _ _ h.symm)
    | x :: y :: rest, x' :: y' :: rest' =>
      have h2 : 2 ≤ (x :: y :: rest).length := by simp
      have h2' : 2 ≤ (x' :: y' :: rest').length := by simp
      generalize hM : x :: y :: rest = M at *
      generalize hM' : x' :: y' :: rest' = M' at *
      rw [mth_ge2 H M h2, mth_ge2 H M' h2'] at h
      by_cases hp : (Rfc.mth H (M.take (Rfc.pow2lt M.length)), Rfc.mth H (M.drop (Rfc.pow2lt M.length)))
          = (Rfc.mth H (M'.take (Rfc.pow2lt M'.length)), Rfc.mth H (M'.drop (Rfc.pow2lt M'.length)))
      · have hl := congrArg Prod.fst hp
        have hr := congrArg Prod.snd hp
        simp only at hl hr
        have hlt := Rfc.pow2lt_lt M.length h2
        have hpos := Rfc.pow2lt_pos M.length
        have h1 : (M.take (Rfc.pow2lt M.length)).length ≤ k := by
          rw [List.length_take]; omega
        have h3 : (M.drop (Rfc.pow2lt M.length)).length ≤ k := by
          rw [List.length_drop]; omega
        rcases ih _ _ h1 hl with e1 | c
        · rcases ih _ _ h3 hr with e2 | c
          · left
            rw [← List.take_append_drop (Rfc.pow2lt M.length) M,
                ← List.take_append_drop (Rfc.pow2lt M'.length) M', e1, e2]
          · exact Or.inr c
        · exact Or.inr c
      · exact Or.inr (.base (.node _ _ _ _ hp h))

theorem mth_inj' (H : HashFns β α) (L L' : List β) (h : Rfc.mth H L = Rfc.mth H L') :
    L = L' ∨ Collision' H := mth_inj H L.length L L' (Nat.le_refl _) h

/-! ### Completeness of audit paths -/

theorem path_complete (H : HashFns β α) :
    ∀ (k : Nat) (L : List β) (i : Nat) (y : β), L.length ≤ k → L[i]? = some y →
      Rfc.rootFromPath H L.length i (H.leaf y) (Rfc.path H i L) = some (Rfc.mth H L) := by
  intro k
  induction k with
  | zero =>
    intro L i y hk hy
    have hL : L = [] := List.eq_nil_of_length_eq_zero (by omega)
    subst hL
    simp at hy
  | succ k ih =>
    intro L i y hk hy
    match L with
    | [] => simp at hy
    | [x] =>
      have hi : i = 0 := by
        have := (List.getElem?_eq_some_iff.mp hy).1
        simp at this; exact this
      subst hi
      simp at hy
      subst hy
      rw [path_single, mth_single, rootFromPath_le1 _ _ _ _ _ (by simp)]
      simp
    | x :: z :: rest =>
      have h2 : 2 ≤ (x :: z :: rest).length := by simp
      generalize hM : x :: z :: rest = M at *
      have hlt := Rfc.pow2lt_lt M.length h2
      have hpos := Rfc.pow2lt_pos M.length
      have hi : i < M.length := (List.getElem?_eq_some_iff.mp hy).1
      rw [rootFromPath_ge2 H _ _ _ _ h2, path_ge2 H i M h2, mth_ge2 H M h2]
      by_cases hc : i < Rfc.pow2lt M.length
      · simp only [hc, if_true, List.getLast?_append, List.getLast?_singleton, Option.some_or,
          List.dropLast_append_of_ne_nil, List.dropLast_singleton, List.append_nil, ne_eq,
          List.cons_ne_self, not_false_eq_true]
        have hlen : (M.take (Rfc.pow2lt M.length)).length = Rfc.pow2lt M.length := by
          rw [List.length_take]; omega
        have hy' : (M.take (Rfc.pow2lt M.length))[i]? = some y := by
          rw [List.getElem?_take]; simp [hc, hy]
        have := ih (M.take (Rfc.pow2lt M.length)) i y (by omega) hy'
        rw [hlen] at this
        rw [this]; rfl
      · simp only [hc, if_false, List.getLast?_append, List.getLast?_singleton, Option.some_or,
          List.dropLast_append_of_ne_nil, List.dropLast_singleton, List.append_nil, ne_eq,
          List.cons_ne_self, not_false_eq_true]
        have hlen : (M.drop (Rfc.pow2lt M.length)).length = M.length - Rfc.pow2lt M.length := by
          rw [List.length_drop]
        have hy' : (M.drop (Rfc.pow2lt M.length))[i - Rfc.pow2lt M.length]? = some y := by
          rw [List.getElem?_drop]
          have : Rfc.pow2lt M.length + (i - Rfc.pow2lt M.length) = i := by omega
          rw [this]; exact hy
        have := ih (M.drop (Rfc.pow2lt M.length)) (i - Rfc.pow2lt M.length) y (by omega) hy'
        rw [hlen] at this
        rw [this]; rfl

theorem path_complete' (H : HashFns β α) (L : List β) (i : Nat) (y : β) (hy : L[i]? = some y) :
    Rfc.rootFromPath H L.length i (H.leaf y) (Rfc.path H i L) = some (Rfc.mth H L) :=
  path_complete H L.length L i y (Nat.le_refl _) hy

/-! ### An accepted proof shows membership (or a collision) -/

theorem rootFromPath_mem (H : HashFns β α) :
    ∀ (k : Nat) (L : List β) (n i : Nat) (y : β) (p : List α), L.length ≤ k →
      Rfc.rootFromPath H n i (H.leaf y) p = some (Rfc.mth H L) → y ∈ L ∨ Collision' H := by
  intro k
  induction k with
  | zero =>
    intro L n i y p hk h
    have hL : L = [] := List.eq_nil_of_length_eq_zero (by omega)
    subst hL
    rw [mth_nil] at h
    by_cases hn : n ≤ 1
    · rw [rootFromPath_le1 _ _ _ _ _ hn] at h
      split at h
      · injection h with h; exact Or.inr (.emptyLeaf y h.symm)
      · cases h
    · rw [rootFromPath_ge2 _ _ _ _ _ (by omega)] at h
      split at h
      · cases h
      · split at h
        · match hq : Rfc.rootFromPath H (Rfc.pow2lt n) i (H.leaf y) p.dropLast with
          | none => rw [hq] at h; cases h
          | some l => rw [hq] at h; simp at h; exact Or.inr (.emptyNode _ _ h.symm)
        · match hq : Rfc.rootFromPath H (n - Rfc.pow2lt n) (i - Rfc.pow2lt n) (H.leaf y) p.dropLast with
          | none => rw [hq] at h; cases h
          | some l => rw [hq] at h; simp at h; exact Or.inr (.emptyNode _ _ h.symm)
  | succ k ih =>
    intro L n i y p hk h
    by_cases hn : n ≤ 1
    · rw [rootFromPath_le1 _ _ _ _ _ hn] at h
      split at h
      · injection h with h
        match L with
        | [] => rw [mth_nil] at h; exact Or.inr (.emptyLeaf y h.symm)
        | [x] =>
          rw [mth_single] at h
          by_cases hxy : y = x
          · subst hxy; exact Or.inl (by simp)
          · exact Or.inr (.base (.leaf y x hxy h))
        | x :: z :: rest =>
          rw [mth_ge2 H _ (by simp)] at h; exact Or.inr (.leafNode y _ _ h)
      · cases h
    · rw [rootFromPath_ge2 _ _ _ _ _ (by omega)] at h
      split at h
      · cases h
      · rename_i s _
        -- both branches: `node a b = mth L` with one of a, b reconstructed from the leaf
        have key : ∀ (n' i' : Nat) (a b : α) (left : Bool),
            Rfc.rootFromPath H n' i' (H.leaf y) p.dropLast = some (if left then a else b) →
            H.node a b = Rfc.mth H L → y ∈ L ∨ Collision' H := by
          intro n' i' a b left hq hnode
          match L with
          | [] => rw [mth_nil] at hnode; exact Or.inr (.emptyNode _ _ hnode.symm)
          | [x] => rw [mth_single] at hnode; exact Or.inr (.leafNode x _ _ hnode.symm)
          | x :: z :: rest =>
            have h2 : 2 ≤ (x :: z :: rest).length := by simp
            generalize hM : x :: z :: rest = M at *
            have hlt := Rfc.pow2lt_lt M.length h2
            have hpos := Rfc.pow2lt_pos M.length
            rw [mth_ge2 H M h2] at hnode
            by_cases hp : (a, b) = (Rfc.mth H (M.take (Rfc.pow2lt M.length)),
                                    Rfc.mth H (M.drop (Rfc.pow2lt M.length)))
            · have ha := congrArg Prod.fst hp
              have hb := congrArg Prod.snd hp
              simp only at ha hb
              cases left with
              | true =>
                simp only [if_true] at hq
                rw [ha] at hq
                have hlen : (M.take (Rfc.pow2lt M.length)).length ≤ k := by
                  rw [List.length_take]; omega
                rcases ih _ _ _ _ _ hlen hq with hm | c
                · exact Or.inl (List.mem_of_mem_take hm)
                · exact Or.inr c
              | false =>
                simp only [Bool.false_eq_true, if_false] at hq
                rw [hb] at hq
                have hlen : (M.drop (Rfc.pow2lt M.length)).length ≤ k := by
                  rw [List.length_drop]; omega
                rcases ih _ _ _ _ _ hlen hq with hm | c
                · exact Or.inl (List.mem_of_mem_drop hm)
                · exact Or.inr c
            · exact Or.inr (.base (.node _ _ _ _ hp hnode))
        split at h
        · match hq : Rfc.rootFromPath H (Rfc.pow2lt n) i (H.leaf y) p.dropLast with
          | none => rw [hq] at h; cases h
          | some l =>
            rw [hq] at h; simp at h
            exact key _ _ l s true (by simpa using hq) h
        · match hq : Rfc.rootFromPath H (n - Rfc.pow2lt n) (i - Rfc.pow2lt n) (H.leaf y) p.dropLast with
          | none => rw [hq] at h; cases h
          | some r =>
            rw [hq] at h; simp at h
            exact key _ _ s r false (by simpa using hq) h

theorem rootFromPath_mem' (H : HashFns β α) (L : List β) (n i : Nat) (y : β) (p : List α)
    (h : Rfc.rootFromPath H n i (H.leaf y) p = some (Rfc.mth H L)) : y ∈ L ∨ Collision' H :=
  rootFromPath_mem H L.length L n i y p (Nat.le_refl _) h

end Astria.Block
