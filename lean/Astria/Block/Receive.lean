import Astria.Block.Tamper
/-
  * A built block — and every filtered / Celestia form derived from it — passes the receivers'
    checks (RFC 6962 verification).
  * What `to_filtered_block` and `split_for_celestia` serve.
  * The conductor's reconstruction: what is attached to a header, as the code is and with the
    rollup-id check that DESIGN §7 F10 proposes.
-/
set_option linter.unusedSectionVars false

namespace Astria.Block
open Astria.Merkle

/-! ### Built blocks are accepted -/

section
variable (Hs : Hashes) (hs : Hs.Sized) (eciOk : Bytes → EciCheck)
variable (inp : BuildInput) (b : Block) (hb : tryBuild Hs inp = .ok b) (hids : inp.IdsOk)
include hs hb hids

theorem built_rt_idLen : ∀ r ∈ b.rollups, r.id.length = 32 := by
  intro r hr
  have hc := content_of_built Hs inp b hb
  have hm : (r.id, r.txs) ∈ groupsOf inp := by
    rw [← hc]; exact List.mem_map_of_mem (f := fun r : Rt => (r.id, r.txs)) hr
  exact keys_len inp hids r.id (List.mem_map_of_mem (f := fun e : Bytes × List Bytes => e.1) hm)

theorem built_leaves_root :
    treeRoot Hs (b.rollups.map fun r => rollupLeaf Hs r.id r.txs) = b.header.txsRoot := by
  have hc := content_of_built Hs inp b hb
  obtain ⟨_, h2, hroot, _⟩ := tryBuild_ok Hs inp b hb
  rw [content_leaves]
  simp only [Block.content] at hc
  rw [hc, hroot, h2]

theorem built_full_accepted : FullAccepted (rfcCtx Hs eciOk) b := by
  obtain ⟨hp1, hp2, hp3, _⟩ := built_proofs_verify Hs inp b hb
  obtain ⟨_, h2, hroot, _⟩ := tryBuild_ok Hs inp b hb
  refine ⟨?_, built_rt_idLen Hs hs inp b hb hids, ?_, ?_, ?_⟩
  · rw [hroot, h2]; exact treeRoot_length Hs hs _
  · simp only [verifyLeaf, rfcCtx, rfcV, hp2]
  · simp only [txsIncluded, verifyLeaf, rfcCtx, rfcV]
    rw [built_leaves_root Hs hs inp b hb hids, hp2]
  · simp only [idsIncluded, verifyLeaf, rfcCtx, rfcV, hp3]

theorem built_meta_accepted : MetaAccepted (rfcCtx Hs eciOk) (split b).1 := by
  obtain ⟨_, hp2, hp3, _⟩ := built_proofs_verify Hs inp b hb
  obtain ⟨_, h2, hroot, _⟩ := tryBuild_ok Hs inp b hb
  refine ⟨?_, ?_, ?_, ?_⟩
  · simp only [split]; rw [hroot, h2]; exact treeRoot_length Hs hs _
  · intro i hi
    simp only [split, Block.ids] at hi
    obtain ⟨r, hr, e⟩ := List.mem_map.mp hi
    rw [← e]; exact built_rt_idLen Hs hs inp b hb hids r hr
  · simp only [split, verifyLeaf, rfcCtx, rfcV, hp2]
  · simp only [split, idsIncluded, verifyLeaf, rfcCtx, rfcV, hp3]

/-- Every rollup blob of `split_for_celestia` passes the conductor's audit against the
    metadata of the same split. -/
theorem built_blobs_verify :
    ∀ blob ∈ (split b).2, verifyBlob (rfcCtx Hs eciOk) blob (split b).1 = .value true ∧
      blob.blockHash = (split b).1.blockHash := by
  obtain ⟨hp1, _⟩ := built_proofs_verify Hs inp b hb
  intro blob hblob
  simp only [split] at hblob
  obtain ⟨r, hr, e⟩ := List.mem_map.mp hblob
  subst e
  refine ⟨?_, rfl⟩
  simp only [verifyBlob, rtMatchesRoot, verifyLeaf, rfcCtx, rfcV, split, hp1 r hr]

end

/-! ### Filtering -/

theorem imInsert_subset (m : List Rt) (r : Rt) (S : List Rt) (hm : ∀ x ∈ m, x ∈ S) (hr : r ∈ S) :
    ∀ x ∈ imInsert m r, x ∈ S := by
  intro x hx
  rcases mem_imInsert m r x hx with e | e
  · rw [e]; exact hr
  · exact hm x e

theorem toFiltered_subset (b : Block) (req : List Bytes) : ∀ r ∈ (toFiltered b req).rollups, r ∈ b.rollups := by
  simp only [toFiltered]
  suffices h : ∀ (acc : List Rt), (∀ x ∈ acc, x ∈ b.rollups) →
      ∀ r ∈ req.foldl (fun acc id =>
        match b.rollups.find? (fun r => r.id = id) with
        | some r => imInsert acc r
        | none => acc) acc, r ∈ b.rollups from h [] (by intro x hx; cases hx)
  induction req with
  | nil => intro acc hacc r hr; exact hacc r hr
  | cons id rest ih =>
    intro acc hacc r hr
    simp only [List.foldl_cons] at hr
    apply ih _ _ r hr
    cases hf : b.rollups.find? (fun r => r.id = id) with
    | none => simpa using hacc
    | some x =>
      simp only
      exact imInsert_subset acc x b.rollups hacc (List.mem_of_find?_eq_some hf)

theorem toFiltered_ids (b : Block) (req : List Bytes) : ∀ r ∈ (toFiltered b req).rollups, r.id ∈ req := by
  simp only [toFiltered]
  suffices h : ∀ (acc : List Rt) (R : List Bytes), (∀ x ∈ acc, x.id ∈ R) → (∀ i ∈ req, i ∈ R) →
      ∀ r ∈ req.foldl (fun acc id =>
        match b.rollups.find? (fun r => r.id = id) with
        | some r => imInsert acc r
        | none => acc) acc, r.id ∈ R from h [] req (by intro x hx; cases hx) (fun i hi => hi)
  induction req with
  | nil => intro acc R hacc _ r hr; exact hacc r hr
  | cons id rest ih =>
    intro acc R hacc hR r hr
    simp only [List.foldl_cons] at hr
    apply ih _ R _ (fun i hi => hR i (List.mem_cons_of_mem _ hi)) r hr
    cases hf : b.rollups.find? (fun r => r.id = id) with
    | none => simpa using hacc
    | some x =>
      simp only
      intro y hy
      rcases mem_imInsert acc x y hy with e | e
      · rw [e]
        have := List.find?_some hf
        simp only [decide_eq_true_eq] at this
        rw [this]; exact hR id (by simp)
      · exact hacc y e

theorem mem_imInsert_self (m : List Rt) (r : Rt) : r ∈ imInsert m r := by
  induction m with
  | nil => simp [imInsert]
  | cons y ys ih =>
    simp only [imInsert]
    split
    · simp
    · exact List.mem_cons_of_mem _ ih

theorem mem_imInsert_keep (m : List Rt) (r x : Rt) (hx : x ∈ m) (hne : x.id ≠ r.id) : x ∈ imInsert m r := by
  induction m with
  | nil => cases hx
  | cons y ys ih =>
    simp only [imInsert]
    rcases List.mem_cons.mp hx with e | e
    · subst e
      simp [hne]
    · split
      · exact List.mem_cons_of_mem _ e
      · exact List.mem_cons_of_mem _ (ih e)

theorem inj_of_nodup_map {α β : Type} (f : α → β) :
    ∀ (l : List α), (l.map f).Nodup → ∀ x ∈ l, ∀ y ∈ l, f x = f y → x = y := by
  intro l
  induction l with
  | nil => intro _ x hx; cases hx
  | cons a rest ih =>
    intro hnd x hx y hy e
    simp only [List.map_cons, List.nodup_cons] at hnd
    rcases List.mem_cons.mp hx with ex | ex
    · rcases List.mem_cons.mp hy with ey | ey
      · rw [ex, ey]
      · exfalso; apply hnd.1; rw [← ex, e]; exact List.mem_map_of_mem ey
    · rcases List.mem_cons.mp hy with ey | ey
      · exfalso; apply hnd.1; rw [← ey, ← e]; exact List.mem_map_of_mem ex
      · exact ih hnd.2 x ex y ey e

/-- With pairwise different rollup ids in the block (true of every built block), every
    requested rollup that is present is served. -/
theorem toFiltered_complete (b : Block) (hnd : (b.rollups.map (·.id)).Nodup) (req : List Bytes) :
    ∀ r ∈ b.rollups, r.id ∈ req → r ∈ (toFiltered b req).rollups := by
  have huniq : ∀ x ∈ b.rollups, ∀ y ∈ b.rollups, x.id = y.id → x = y := by
    intro x hx y hy e
    exact inj_of_nodup_map (fun r : Rt => r.id) b.rollups hnd x hx y hy e
  have hfind : ∀ r ∈ b.rollups, b.rollups.find? (fun x => x.id = r.id) = some r := by
    intro r hr
    cases hf : b.rollups.find? (fun x => x.id = r.id) with
    | none =>
      have := List.find?_eq_none.mp hf r hr
      simp at this
    | some y =>
      have hy := List.mem_of_find?_eq_some hf
      have hid := List.find?_some hf
      simp only [decide_eq_true_eq] at hid
      rw [huniq y hy r hr hid]
  simp only [toFiltered]
  suffices h : ∀ (acc : List Rt), (∀ x ∈ acc, x ∈ b.rollups) →
      ∀ r ∈ b.rollups, (r ∈ acc ∨ r.id ∈ req) → r ∈ req.foldl (fun acc id =>
        match b.rollups.find? (fun r => r.id = id) with
        | some r => imInsert acc r
        | none => acc) acc from
    fun r hr hreq => h [] (by intro x hx; cases hx) r hr (Or.inr hreq)
  induction req with
  | nil =>
    intro acc _ r _ h
    rcases h with h | h
    · exact h
    · cases h
  | cons id rest ih =>
    intro acc hacc r hr h
    simp only [List.foldl_cons]
    cases hf : b.rollups.find? (fun r => r.id = id) with
    | none =>
      simp only
      apply ih acc hacc r hr
      rcases h with h | h
      · exact Or.inl h
      · rcases List.mem_cons.mp h with e | e
        · have := hfind r hr
          rw [e, hf] at this; cases this
        · exact Or.inr e
    | some x =>
      simp only
      have hx := List.mem_of_find?_eq_some hf
      have hxid := List.find?_some hf
      simp only [decide_eq_true_eq] at hxid
      apply ih _ (imInsert_subset acc x b.rollups hacc hx) r hr
      by_cases hrid : r.id = id
      · left
        have : r = x := huniq r hr x hx (by rw [hrid, hxid])
        rw [this]; exact mem_imInsert_self acc x
      · rcases h with h | h
        · left; exact mem_imInsert_keep acc x r h (by rw [hxid]; exact hrid)
        · rcases List.mem_cons.mp h with e | e
          · exact absurd e hrid
          · exact Or.inr e

theorem built_ids_nodup (Hs : Hashes) (inp : BuildInput) (b : Block) (hb : tryBuild Hs inp = .ok b) :
    (b.rollups.map (·.id)).Nodup := by
  have := ids_of_built Hs inp b hb
  simp only [Block.ids] at this
  rw [this, groupsOf]
  exact keys_nodup_of_sorted _ (sorted_sortGroups _ (keys_nodup_groupAll _ _))

section
variable (Hs : Hashes) (hs : Hs.Sized) (eciOk : Bytes → EciCheck)
variable (inp : BuildInput) (b : Block) (hb : tryBuild Hs inp = .ok b) (hids : inp.IdsOk)
include hs hb hids

/-- Every filtered form of a built block passes `FilteredSequencerBlock::try_from_raw`'s checks. -/
theorem built_filtered_accepted (req : List Bytes) : FilteredAccepted (rfcCtx Hs eciOk) (toFiltered b req) := by
  obtain ⟨hp1, hp2, hp3, _⟩ := built_proofs_verify Hs inp b hb
  obtain ⟨_, h2, hroot, _⟩ := tryBuild_ok Hs inp b hb
  have hsub := toFiltered_subset b req
  refine ⟨?_, ?_, ?_, ?_, ?_, ?_⟩
  · simp only [toFiltered]; rw [hroot, h2]; exact treeRoot_length Hs hs _
  · intro r hr; exact built_rt_idLen Hs hs inp b hb hids r (hsub r hr)
  · intro i hi
    simp only [toFiltered, Block.ids] at hi
    obtain ⟨r, hr, e⟩ := List.mem_map.mp hi
    rw [← e]; exact built_rt_idLen Hs hs inp b hb hids r hr
  · simp only [toFiltered, verifyLeaf, rfcCtx, rfcV, hp2]
  · intro r hr
    have := hp1 r (hsub r hr)
    simp only [rtMatchesRoot, verifyLeaf, rfcCtx, rfcV, toFiltered, this]
  · simp only [toFiltered, idsIncluded, verifyLeaf, rfcCtx, rfcV, hp3]

end

/-! ### The sequencer's gRPC filter -/

theorem mem_insertId (x y : Bytes) (l : List Bytes) : y ∈ insertId x l ↔ y = x ∨ y ∈ l := by
  induction l with
  | nil => simp [insertId]
  | cons h rest ih =>
    simp only [insertId]
    cases hc : bytesLt x h with
    | true => simp
    | false =>
      simp only [Bool.false_eq_true, if_false, List.mem_cons, ih]
      constructor
      · rintro (a | a | a)
        · exact Or.inr (Or.inl a)
        · exact Or.inl a
        · exact Or.inr (Or.inr a)
      · rintro (a | a | a)
        · exact Or.inr (Or.inl a)
        · exact Or.inl a
        · exact Or.inr (Or.inr a)

theorem mem_sortIds (y : Bytes) (l : List Bytes) : y ∈ sortIds l ↔ y ∈ l := by
  induction l with
  | nil => simp [sortIds]
  | cons h rest ih => simp [sortIds, mem_insertId, ih]

/-- Sorting an already strictly ascending list of ids changes nothing. -/
theorem sortIds_of_sorted (l : List Bytes) (h : l.Pairwise (fun x y => bytesLt x y = true)) : sortIds l = l := by
  induction l with
  | nil => rfl
  | cons x rest ih =>
    simp only [List.pairwise_cons] at h
    simp only [sortIds, ih h.2]
    cases rest with
    | nil => rfl
    | cons y ys => simp [insertId, h.1 y (by simp)]

/-- What `get_filtered_sequencer_block` serves for a built block: the block's id list, and
    exactly the stored entries of the requested rollups that are present. -/
theorem grpcFiltered_exact (Hs : Hashes) (inp : BuildInput) (b : Block) (hb : tryBuild Hs inp = .ok b)
    (req : List Bytes) :
    (grpcFiltered b req).allIds = b.ids ∧
    (∀ r ∈ (grpcFiltered b req).rollups, ∃ x ∈ b.rollups, r = x.toRaw ∧ x.id ∈ req) ∧
    (∀ x ∈ b.rollups, x.id ∈ req → x.toRaw ∈ (grpcFiltered b req).rollups) := by
  have hsorted := (built_data_exact Hs inp b hb).2.1
  have hnd := built_ids_nodup Hs inp b hb
  refine ⟨sortIds_of_sorted _ hsorted, ?_, ?_⟩
  · intro r hr
    simp only [grpcFiltered, List.mem_filterMap, List.mem_filter] at hr
    obtain ⟨id, ⟨hreq, _⟩, hfind⟩ := hr
    cases hf : b.rollups.find? (fun r => r.id = id) with
    | none => rw [hf] at hfind; cases hfind
    | some x =>
      rw [hf] at hfind
      simp only [Option.map_some, Option.some.injEq] at hfind
      have hx := List.mem_of_find?_eq_some hf
      have hid := List.find?_some hf
      simp only [decide_eq_true_eq] at hid
      exact ⟨x, hx, hfind.symm, by rw [hid]; exact hreq⟩
  · intro x hx hreq
    simp only [grpcFiltered, List.mem_filterMap, List.mem_filter]
    refine ⟨x.id, ⟨hreq, ?_⟩, ?_⟩
    · simp only [List.contains_eq_mem, decide_eq_true_eq]
      rw [mem_sortIds]
      exact List.mem_map_of_mem (f := fun r : Rt => r.id) hx
    · have hfind : b.rollups.find? (fun r => r.id = x.id) = some x := by
        cases hf : b.rollups.find? (fun r => r.id = x.id) with
        | none =>
          have := List.find?_eq_none.mp hf x hx
          simp at this
        | some y =>
          have hy := List.mem_of_find?_eq_some hf
          have hid := List.find?_some hf
          simp only [decide_eq_true_eq] at hid
          rw [inj_of_nodup_map (fun r : Rt => r.id) b.rollups hnd y hy x hx hid]
      rw [hfind]; rfl

/-! ### The conductor's reconstruction -/

theorem mem_removeMeta (hs : List Meta) (h : Bytes) (m : Meta) (hm : m ∈ removeMeta hs h) : m ∈ hs :=
  (List.mem_filter.mp hm).1

/-- What the matching loop attaches: every produced block carries the transactions of a rollup
    blob that passed the audit against the header it is attached to; with the id check, a blob of
    the conductor's rollup. -/
theorem matchBlobs_sound (c : Ctx) (checkId : Bool) (rollupId : Bytes) :
    ∀ (blobs : List Blob) (hs : List Meta) (out : List Reconstructed) (left : List Meta),
      matchBlobs c checkId rollupId blobs hs = .value (out, left) →
      (∀ m ∈ left, m ∈ hs) ∧
      ∀ r ∈ out, ∃ blob ∈ blobs, ∃ m ∈ hs,
        m.blockHash = blob.blockHash ∧ verifyBlob c blob m = .value true ∧
        (checkId = true → blob.id = rollupId) ∧ r = ⟨m.blockHash, m.header, blob.txs⟩ := by
  intro blobs
  induction blobs with
  | nil =>
    intro hs out left h
    simp only [matchBlobs, Outcome.value.injEq, Prod.mk.injEq] at h
    obtain ⟨h1, h2⟩ := h
    subst h1; subst h2
    exact ⟨fun m hm => hm, fun r hr => by cases hr⟩
  | cons b rest ih =>
    intro hs out left h
    -- lift the induction hypothesis over the tail to the whole blob list
    have lift : ∀ (hs' : List Meta), (∀ m ∈ hs', m ∈ hs) →
        matchBlobs c checkId rollupId rest hs' = .value (out, left) →
        (∀ m ∈ left, m ∈ hs) ∧
        ∀ r ∈ out, ∃ blob ∈ b :: rest, ∃ m ∈ hs,
          m.blockHash = blob.blockHash ∧ verifyBlob c blob m = .value true ∧
          (checkId = true → blob.id = rollupId) ∧ r = ⟨m.blockHash, m.header, blob.txs⟩ := by
      intro hs' hsub h'
      obtain ⟨i1, i2⟩ := ih hs' out left h'
      refine ⟨fun m hm => hsub m (i1 m hm), ?_⟩
      intro r hr
      obtain ⟨blob, hblob, m, hm, rest'⟩ := i2 r hr
      exact ⟨blob, List.mem_cons_of_mem _ hblob, m, hsub m hm, rest'⟩
    unfold matchBlobs at h
    split at h
    · exact lift hs (fun m hm => hm) h
    · rename_i hcheck
      split at h
      · exact lift hs (fun m hm => hm) h
      · rename_i m hfind
        have hm := List.mem_of_find?_eq_some hfind
        have hmh := List.find?_some hfind
        simp only [decide_eq_true_eq] at hmh
        split at h
        · cases h
        · exact lift hs (fun m hm => hm) h
        · rename_i hver
          split at h
          · cases h
          · rename_i out' left' hrec
            simp only [Outcome.value.injEq, Prod.mk.injEq] at h
            obtain ⟨h1, h2⟩ := h
            subst h1; subst h2
            obtain ⟨i1, i2⟩ := ih _ out' left' hrec
            refine ⟨fun x hx => mem_removeMeta hs _ x (i1 x hx), ?_⟩
            intro r hr
            rcases List.mem_cons.mp hr with e | e
            · refine ⟨b, by simp, m, hm, hmh, hver, ?_, e⟩
              intro hci
              simp only [hci, Bool.true_and, decide_eq_true_eq, Decidable.not_not] at hcheck
              exact hcheck
            · obtain ⟨blob, hblob, m', hm', rest'⟩ := i2 r e
              exact ⟨blob, List.mem_cons_of_mem _ hblob, m', mem_removeMeta hs _ m' hm', rest'⟩

/-- **Receiver attribution (with the rollup-id check).**  Every reconstructed block either is
    an empty block for a header that does not list the conductor's rollup, or carries the
    transactions of a blob of the conductor's rollup that passed the audit against the root in
    the header with the same block hash. -/
theorem reconstruct_attribution (c : Ctx) (rollupId : Bytes) (hs : List Meta) (blobs : List Blob)
    (out : List Reconstructed) (h : reconstruct c true rollupId hs blobs = .value out) :
    ∀ r ∈ out,
      (r.txs = [] ∧ ∃ m ∈ hs, rollupId ∉ m.ids ∧ r.blockHash = m.blockHash ∧ r.header = m.header) ∨
      (∃ blob ∈ blobs, ∃ m ∈ hs, blob.id = rollupId ∧ m.blockHash = blob.blockHash ∧
        verifyBlob c blob m = .value true ∧ r = ⟨m.blockHash, m.header, blob.txs⟩) := by
  unfold reconstruct at h
  split at h
  · cases h
  · rename_i o left hmb
    injection h with h
    subst h
    obtain ⟨i1, i2⟩ := matchBlobs_sound c true rollupId blobs hs o left hmb
    intro r hr
    rcases List.mem_append.mp hr with e | e
    · right
      obtain ⟨blob, hblob, m, hm, h1, h2, h3, h4⟩ := i2 r e
      exact ⟨blob, hblob, m, hm, h3 rfl, h1, h2, h4⟩
    · left
      obtain ⟨m, hmf, e'⟩ := List.mem_map.mp e
      obtain ⟨hml, hnc⟩ := List.mem_filter.mp hmf
      subst e'
      refine ⟨rfl, m, i1 m hml, ?_, rfl, rfl⟩
      intro hc
      simp only [Bool.not_eq_true', List.contains_eq_mem, decide_eq_false_iff_not] at hnc
      exact hnc hc

/-- As the code was at the pinned commit (no id check; before 793934a) the same holds without the rollup-id clause: what is attached
    is *some* rollup's audited blob. -/
theorem reconstruct_bound (c : Ctx) (checkId : Bool) (rollupId : Bytes) (hs : List Meta) (blobs : List Blob)
    (out : List Reconstructed) (h : reconstruct c checkId rollupId hs blobs = .value out) :
    ∀ r ∈ out,
      (r.txs = [] ∧ ∃ m ∈ hs, rollupId ∉ m.ids ∧ r.blockHash = m.blockHash ∧ r.header = m.header) ∨
      (∃ blob ∈ blobs, ∃ m ∈ hs, m.blockHash = blob.blockHash ∧
        verifyBlob c blob m = .value true ∧ r = ⟨m.blockHash, m.header, blob.txs⟩) := by
  unfold reconstruct at h
  split at h
  · cases h
  · rename_i o left hmb
    injection h with h
    subst h
    obtain ⟨i1, i2⟩ := matchBlobs_sound c checkId rollupId blobs hs o left hmb
    intro r hr
    rcases List.mem_append.mp hr with e | e
    · right
      obtain ⟨blob, hblob, m, hm, h1, h2, _, h4⟩ := i2 r e
      exact ⟨blob, hblob, m, hm, h1, h2, h4⟩
    · left
      obtain ⟨m, hmf, e'⟩ := List.mem_map.mp e
      obtain ⟨hml, hnc⟩ := List.mem_filter.mp hmf
      subst e'
      refine ⟨rfl, m, i1 m hml, ?_, rfl, rfl⟩
      intro hc
      simp only [Bool.not_eq_true', List.contains_eq_mem, decide_eq_false_iff_not] at hnc
      exact hnc hc

/-- The data a conductor can attach to accepted metadata of a built block is exactly the
    property's data of the blob's rollup. -/
theorem attached_data_exact (c : Ctx) (hs : c.Hs.Sized) (hV : Verifier.Sound c.Hs c.V)
    (inp : BuildInput) (b : Block) (hb : tryBuild c.Hs inp = .ok b) (hids : inp.IdsOk) (hitems : inp.ItemsOk)
    (m : Meta) (hacc : MetaAccepted c m) (hdh : m.header.dataHash = b.header.dataHash)
    (blob : Blob) (hl : blob.id.length = 32) (hv : verifyBlob c blob m = .value true) :
    BlockCollision c.Hs ∨ blob.txs = expectedData inp.subs inp.deps blob.id := by
  rcases celestia_tamper_evident c hs hV inp b hb hids hitems m hacc hdh with col | ⟨_, h⟩
  · exact Or.inl col
  · right
    have hm := h blob hl hv
    rw [content_of_built c.Hs inp b hb] at hm
    exact sorted_groups_exact inp.subs inp.deps (blob.id, blob.txs) hm

end Astria.Block
