import Astria.Block.Reencode
import Astria.Block.Receive
import Astria.Merkle.Index
import Mathlib.Tactic.Ring
/-
  Completeness of astria-merkle's index walk: the RFC 6962 audit path of leaf `i` makes
  `reconstruct_root_with_leaf_hash` (the walk over `complete_parent`) arrive at the RFC 6962
  tree hash.  This closes, for verification, the refinement between the crate's flat in-order
  tree and the specification layer: a built block passes the receivers under the crate's own
  verifier, not only under the RFC verifier.
-/
namespace Astria.Block
open Astria.Merkle Astria.Merkle.Flat

/-! ### The `complete_parent` loop -/

theorem div_pow_succ (w j : Nat) : w / 2 ^ j / 2 = w / 2 ^ (j + 1) := by
  rw [Nat.div_div_eq_div_mul, Nat.pow_succ]

theorem div2_div_pow (w j : Nat) : w / 2 / 2 ^ j = w / 2 ^ (j + 1) := by
  rw [Nat.div_div_eq_div_mul, ← Nat.pow_succ']

/-- Climbing from node `(t, w)`: while the perfect ancestors lie outside the tree the loop goes
    on; the first ancestor inside the tree is returned. -/
theorem completeParentFuel_climb (s : Nat) :
    ∀ (d t w f : Nat),
      (∀ j, 1 ≤ j → j ≤ d → s ≤ enc (t + j) (w / 2 ^ j)) →
      enc (t + d + 1) (w / 2 ^ (d + 1)) < s →
      (∀ j, j ≤ d → enc (t + j) (w / 2 ^ j) < USIZE_MAX) →
      d + 1 ≤ f →
      completeParentFuel f (enc t w) s = .parent (enc (t + d + 1) (w / 2 ^ (d + 1))) := by
  intro d
  induction d with
  | zero =>
    intro t w f _ hin hmax hf
    cases f with
    | zero => omega
    | succ f =>
      unfold completeParentFuel
      have h0 := hmax 0 (Nat.le_refl _)
      simp only [Nat.add_zero, Nat.pow_zero, Nat.div_one] at h0
      rw [perfectParent_enc t w h0]
      simp only [Nat.add_zero, Nat.zero_add, Nat.pow_one] at hin ⊢
      simp [hin]
  | succ d ih =>
    intro t w f hout hin hmax hf
    cases f with
    | zero => omega
    | succ f =>
      unfold completeParentFuel
      have h0 := hmax 0 (by omega)
      simp only [Nat.add_zero, Nat.pow_zero, Nat.div_one] at h0
      rw [perfectParent_enc t w h0]
      have h1 := hout 1 (Nat.le_refl _) (by omega)
      simp only [Nat.pow_one] at h1
      have hnot : ¬ (enc (t + 1) (w / 2) < s) := by omega
      simp only [hnot, if_false]
      have := ih (t + 1) (w / 2) f
        (by
          intro j hj1 hjd
          have := hout (j + 1) (by omega) (by omega)
          have e : t + 1 + j = t + (j + 1) := by omega
          rw [e, div2_div_pow]
          exact this)
        (by
          have e : t + 1 + d + 1 = t + (d + 1) + 1 := by omega
          rw [e, div2_div_pow]
          exact hin)
        (by
          intro j hj
          have := hmax (j + 1) (by omega)
          have e : t + 1 + j = t + (j + 1) := by omega
          rw [e, div2_div_pow]
          exact this)
        (by omega)
      rw [this]
      have e : t + 1 + d + 1 = t + (d + 1) + 1 := by omega
      rw [e, div2_div_pow]

/-! ### Levels -/

/-- level (in the in-order layout) of the root of a subtree with `m` leaves -/
def lvl (m : Nat) : Nat := if m ≤ 1 then 0 else Nat.log2 (m - 1) + 1

theorem lvl_one : lvl 1 = 0 := by simp [lvl]

theorem pow2lt_eq (m : Nat) (h : 2 ≤ m) : Rfc.pow2lt m = 2 ^ (lvl m - 1) := by
  have : ¬ m ≤ 1 := by omega
  simp [lvl, Rfc.pow2lt, this]

theorem lvl_bounds (m : Nat) (h : 2 ≤ m) : 1 ≤ lvl m ∧ 2 ^ (lvl m - 1) < m ∧ m ≤ 2 ^ lvl m := by
  have hne : ¬ m ≤ 1 := by omega
  have h1 : 2 ^ Nat.log2 (m - 1) ≤ m - 1 := Nat.log2_self_le (by omega)
  have h2 : m - 1 < 2 ^ (Nat.log2 (m - 1) + 1) := Nat.lt_log2_self
  simp only [lvl, hne, if_false, Nat.add_sub_cancel]
  refine ⟨by omega, by omega, by omega⟩

theorem lvl_le (m b : Nat) (h1 : 1 ≤ m) (h : m ≤ 2 ^ b) : lvl m ≤ b := by
  by_cases hm : m ≤ 1
  · simp [lvl, hm]
  · obtain ⟨_, h2, _⟩ := lvl_bounds m (by omega)
    have : 2 ^ (lvl m - 1) < 2 ^ b := by omega
    have := (Nat.pow_lt_pow_iff_right (by decide : 1 < 2)).mp this
    omega

theorem lvl_pow (b : Nat) : lvl (2 ^ b) = b := by
  cases b with
  | zero => simp [lvl]
  | succ c =>
    have hpos : 1 ≤ 2 ^ c := Nat.one_le_two_pow
    have h2 : 2 ≤ 2 ^ (c + 1) := by rw [Nat.pow_succ]; omega
    obtain ⟨_, hlo, hhi⟩ := lvl_bounds (2 ^ (c + 1)) h2
    have hle := lvl_le (2 ^ (c + 1)) (c + 1) (by omega) (Nat.le_refl _)
    have : lvl (2 ^ (c + 1)) - 1 < c + 1 := (Nat.pow_lt_pow_iff_right (by decide : 1 < 2)).mp hlo
    have hge : c + 1 ≤ lvl (2 ^ (c + 1)) := (Nat.pow_le_pow_iff_right (by decide : 1 < 2)).mp hhi
    omega

/-! ### One step of the walk -/

variable {β α : Type}

theorem reconstructRoot_step (H : HashFns β α) (s idx p : Nat) (acc x : α) (rest : List α)
    (h : completeParent idx s = .parent p) :
    reconstructRoot H s idx acc (x :: rest) =
      if p > idx then reconstructRoot H s p (H.node acc x) rest
      else reconstructRoot H s p (H.node x acc) rest := by
  rw [reconstructRoot, h]

theorem enc_off (l w : Nat) : enc l w = w * 2 ^ (l + 1) + 2 ^ l - 1 := by
  have : 1 ≤ 2 ^ l := Nat.one_le_two_pow
  unfold enc; omega

theorem mul_pow_div (x d j : Nat) (h : j ≤ d) : x * 2 ^ d / 2 ^ j = x * 2 ^ (d - j) := by
  have : 2 ^ d = 2 ^ j * 2 ^ (d - j) := by rw [← Nat.pow_add]; congr 1; omega
  rw [this, ← Nat.mul_assoc, Nat.mul_comm x, Nat.mul_assoc, Nat.mul_div_cancel_left _ (Nat.two_pow_pos j)]

theorem odd_mul_pow_div (z d : Nat) : (2 * z + 1) * 2 ^ d / 2 ^ (d + 1) = z := by
  rw [Nat.pow_succ, ← Nat.div_div_eq_div_mul, Nat.mul_div_cancel _ (Nat.two_pow_pos d)]
  omega

/-! ### The walk through a subtree -/

/-- A subtree with the leaves `L` whose root is node `(a, z)` of the in-order layout, inside a
    flat tree of `s` nodes: it is either perfect and lies inside the tree, or it is a suffix of the
    tree (the right spine).  Walking up from leaf `i` with the RFC 6962 audit path arrives at the
    subtree's root with the subtree's RFC 6962 hash. -/
theorem walk (H : HashFns β α) (s : Nat) (hs : s < 2 ^ 62) :
    ∀ (k : Nat) (L : List β) (a z i : Nat) (y : β) (rest : List α),
      L.length ≤ k → 1 ≤ L.length → a = lvl L.length →
      ((L.length = 2 ^ a ∧ z * 2 ^ (a + 1) + 2 * L.length - 1 ≤ s) ∨
        z * 2 ^ (a + 1) + 2 * L.length - 1 = s) →
      L[i]? = some y →
      reconstructRoot H s (z * 2 ^ (a + 1) + 2 * i) (H.leaf y) (Rfc.path H i L ++ rest) =
        reconstructRoot H s (enc a z) (Rfc.mth H L) rest := by
  intro k
  induction k with
  | zero => intro L a z i y rest hk h1; omega
  | succ k ih =>
    intro L a z i y rest hk h1 ha hfit hy
    match L with
    | [] => simp at h1
    | [x] =>
      have hi : i = 0 := by
        have := (List.getElem?_eq_some_iff.mp hy).1
        simp at this; exact this
      subst hi
      simp at hy
      subst hy
      simp only [List.length_singleton, lvl_one] at ha
      subst ha
      rw [path_single, mth_single]
      simp [enc]
    | x :: x2 :: tl =>
      have h2 : 2 ≤ (x :: x2 :: tl).length := by simp
      generalize hM : x :: x2 :: tl = M at *
      have hi : i < M.length := (List.getElem?_eq_some_iff.mp hy).1
      obtain ⟨hl1, hlo, hhi⟩ := lvl_bounds M.length h2
      have hpk := pow2lt_eq M.length h2
      -- a = b + 1
      obtain ⟨b, hb⟩ : ∃ b, lvl M.length = b + 1 := ⟨lvl M.length - 1, by omega⟩
      rw [hb] at ha hlo hhi hpk
      subst ha
      simp only [Nat.add_sub_cancel] at hlo hpk
      -- K = 2^b
      have hK1 : 1 ≤ 2 ^ b := Nat.one_le_two_pow
      have e1 : 2 ^ (b + 1) = 2 * 2 ^ b := by ring
      have e2 : 2 ^ (b + 1 + 1) = 4 * 2 ^ b := by ring
      rw [e1] at hhi
      have hle : z * 2 ^ (b + 1 + 1) + 2 * M.length - 1 ≤ s := by
        rcases hfit with h | h
        · exact h.2
        · omega
      have hroot : enc (b + 1) z < s := by
        rw [enc_off, e1]; omega
      have hb62 : b < 62 := by
        have : 2 ^ b < 2 ^ 62 := by omega
        exact (Nat.pow_lt_pow_iff_right (by decide : 1 < 2)).mp this
      rw [path_ge2 H i M h2, mth_ge2 H M h2, hpk]
      by_cases hc : i < 2 ^ b
      · -- the leaf is in the left (perfect) subtree
        simp only [hc, if_true, List.append_assoc, List.singleton_append]
        have hlen : (M.take (2 ^ b)).length = 2 ^ b := by rw [List.length_take]; omega
        have hy' : (M.take (2 ^ b))[i]? = some y := by
          rw [List.getElem?_take]; simp [hc, hy]
        have hoff : 2 * z * 2 ^ (b + 1) = z * 2 ^ (b + 1 + 1) := by ring
        have hih := ih (M.take (2 ^ b)) b (2 * z) i y (Rfc.mth H (M.drop (2 ^ b)) :: rest)
          (by rw [hlen]; omega) (by rw [hlen]; exact hK1) (by rw [hlen, lvl_pow])
          (Or.inl ⟨hlen, by rw [hlen, hoff]; omega⟩) hy'
        rw [hoff] at hih
        rw [hih]
        -- one step up
        have hcp : completeParent (enc b (2 * z)) s = .parent (enc (b + 1) z) := by
          have := completeParentFuel_climb s 0 b (2 * z) 65
            (by intro j h1 h0; omega)
            (by simpa using hroot)
            (by
              intro j hj
              have : j = 0 := by omega
              subst this
              simp only [Nat.add_zero, Nat.pow_zero, Nat.div_one]
              rw [enc_off, hoff]; unfold USIZE_MAX; omega)
            (by omega)
          simpa [completeParent] using this
        rw [reconstructRoot_step H s _ _ _ _ _ hcp]
        have hgt : enc (b + 1) z > enc b (2 * z) := by
          rw [enc_off, enc_off, hoff, e1, e2]; omega
        simp only [hgt, if_true]
      · -- the leaf is in the right subtree
        simp only [hc, if_false, List.append_assoc, List.singleton_append]
        have hm' : 1 ≤ M.length - 2 ^ b := by omega
        have hlen : (M.drop (2 ^ b)).length = M.length - 2 ^ b := by rw [List.length_drop]
        have hy' : (M.drop (2 ^ b))[i - 2 ^ b]? = some y := by
          rw [List.getElem?_drop]
          have : 2 ^ b + (i - 2 ^ b) = i := by omega
          rw [this]; exact hy
        have ha'le : lvl (M.length - 2 ^ b) ≤ b := lvl_le _ b hm' (by omega)
        generalize ha' : lvl (M.length - 2 ^ b) = a' at ha'le
        obtain ⟨d, hd⟩ : ∃ d, b = a' + d := ⟨b - a', by omega⟩
        have hm'le : M.length - 2 ^ b ≤ 2 ^ a' := by
          by_cases h1' : M.length - 2 ^ b ≤ 1
          · have : 1 ≤ 2 ^ a' := Nat.one_le_two_pow
            omega
          · rw [← ha']; exact (lvl_bounds _ (by omega)).2.2
        have hp : 2 ^ d * 2 ^ (a' + 1) = 2 ^ (b + 1) := by
          rw [← Nat.pow_add]; congr 1; omega
        have hoff : (2 * z + 1) * 2 ^ d * 2 ^ (a' + 1) = z * 2 ^ (b + 1 + 1) + 2 ^ (b + 1) := by
          rw [Nat.mul_assoc, hp]; ring
        have hidx : z * 2 ^ (b + 1 + 1) + 2 * i =
            (2 * z + 1) * 2 ^ d * 2 ^ (a' + 1) + 2 * (i - 2 ^ b) := by
          rw [hoff, e1]; omega
        have hfit' : ((M.drop (2 ^ b)).length = 2 ^ a' ∧
              (2 * z + 1) * 2 ^ d * 2 ^ (a' + 1) + 2 * (M.drop (2 ^ b)).length - 1 ≤ s) ∨
            (2 * z + 1) * 2 ^ d * 2 ^ (a' + 1) + 2 * (M.drop (2 ^ b)).length - 1 = s := by
          rw [hlen, hoff, e1]
          rcases hfit with h | h
          · left
            have hml : M.length = 2 * 2 ^ b := by rw [h.1]; ring
            have : M.length - 2 ^ b = 2 ^ b := by omega
            have hab : a' = b := by rw [← ha', this, lvl_pow]
            rw [this, hab]
            refine ⟨rfl, ?_⟩
            have := h.2
            omega
          · right; omega
        have hih := ih (M.drop (2 ^ b)) a' ((2 * z + 1) * 2 ^ d) (i - 2 ^ b) y
          (Rfc.mth H (M.take (2 ^ b)) :: rest)
          (by rw [hlen]; omega) (by rw [hlen]; exact hm') (by rw [hlen, ha']) hfit' hy'
        rw [hidx, hih]
        -- climb to the root of this subtree
        have hdiv : (2 * z + 1) * 2 ^ d / 2 ^ (d + 1) = z := odd_mul_pow_div z d
        have hencj : ∀ j, j ≤ d → enc (a' + j) ((2 * z + 1) * 2 ^ d / 2 ^ j) =
            z * 2 ^ (b + 1 + 1) + 2 ^ (b + 1) + 2 ^ (a' + j) - 1 := by
          intro j hj
          rw [mul_pow_div _ _ _ hj, enc_off]
          have : (2 * z + 1) * 2 ^ (d - j) * 2 ^ (a' + j + 1) = z * 2 ^ (b + 1 + 1) + 2 ^ (b + 1) := by
            have hq : 2 ^ (d - j) * 2 ^ (a' + j + 1) = 2 ^ (b + 1) := by
              rw [← Nat.pow_add]; congr 1; omega
            rw [Nat.mul_assoc, hq]; ring
          rw [this]
        have hpowj : ∀ j, j ≤ d → 2 ^ (a' + j) ≤ 2 ^ b := by
          intro j hj
          exact (Nat.pow_le_pow_iff_right (by decide : 1 < 2)).mpr (by omega)
        have hcp : completeParent (enc a' ((2 * z + 1) * 2 ^ d)) s = .parent (enc (b + 1) z) := by
          have := completeParentFuel_climb s d a' ((2 * z + 1) * 2 ^ d) 65
            (by
              intro j hj1 hjd
              rw [hencj j hjd, e1]
              -- only possible on the right spine
              rcases hfit with h | h
              · exfalso
                have hml : M.length = 2 * 2 ^ b := by rw [h.1]; ring
                have : M.length - 2 ^ b = 2 ^ b := by omega
                have hab : a' = b := by rw [← ha', this, lvl_pow]
                omega
              · have hpj : 2 * 2 ^ a' ≤ 2 ^ (a' + j) := by
                  have : 2 ^ (a' + 1) ≤ 2 ^ (a' + j) :=
                    (Nat.pow_le_pow_iff_right (by decide : 1 < 2)).mpr (by omega)
                  rw [Nat.pow_succ] at this; omega
                rw [e2] at h ⊢
                omega)
            (by
              have e : a' + d + 1 = b + 1 := by omega
              rw [e, hdiv]; exact hroot)
            (by
              intro j hj
              rw [hencj j hj, e1, e2]
              have := hpowj j hj
              rw [enc_off, e1, e2] at hroot
              unfold USIZE_MAX; omega)
            (by omega)
          have e : a' + d + 1 = b + 1 := by omega
          rw [e, hdiv] at this
          simpa [completeParent] using this
        rw [reconstructRoot_step H s _ _ _ _ _ hcp]
        have hngt : ¬ (enc (b + 1) z > enc a' ((2 * z + 1) * 2 ^ d)) := by
          have := hencj 0 (Nat.zero_le _)
          simp only [Nat.add_zero, Nat.pow_zero, Nat.div_one] at this
          rw [this, enc_off, e1, e2]
          have : 1 ≤ 2 ^ a' := Nat.one_le_two_pow
          omega
        simp only [hngt, if_false]

/-! ### Completeness of the crate's verification -/

/-- **The index walk accepts RFC 6962 audit paths**: for a tree of `n` leaves (`2n − 1` nodes),
    walking `complete_parent` from leaf `i` with the RFC 6962 audit path reconstructs the
    RFC 6962 tree hash — without panic. -/
theorem flat_path_complete (H : HashFns β α) (L : List β) (i : Nat) (y : β) (hy : L[i]? = some y)
    (hsmall : 2 * L.length - 1 < 2 ^ 62) :
    reconstructRoot H (2 * L.length - 1) (2 * i) (H.leaf y) (Rfc.path H i L) = .value (Rfc.mth H L) := by
  have hi : i < L.length := (List.getElem?_eq_some_iff.mp hy).1
  have := walk H (2 * L.length - 1) hsmall L.length L (lvl L.length) 0 i y [] (Nat.le_refl _) (by omega) rfl
    (Or.inr (by simp)) hy
  simp only [Nat.zero_mul, Nat.zero_add, List.append_nil] at this
  rw [this]
  simp [reconstructRoot]

theorem path_length_le (H : HashFns β α) :
    ∀ (k : Nat) (L : List β) (i : Nat), L.length ≤ k → (Rfc.path H i L).length ≤ lvl L.length := by
  intro k
  induction k with
  | zero =>
    intro L i hk
    have : L = [] := List.eq_nil_of_length_eq_zero (by omega)
    subst this
    simp [Rfc.path]
  | succ k ih =>
    intro L i hk
    match L with
    | [] => simp [Rfc.path]
    | [x] => rw [path_single]; simp
    | x :: x2 :: tl =>
      have h2 : 2 ≤ (x :: x2 :: tl).length := by simp
      generalize hM : x :: x2 :: tl = M at *
      obtain ⟨hl1, hlo, hhi⟩ := lvl_bounds M.length h2
      have hpk := pow2lt_eq M.length h2
      rw [path_ge2 H i M h2, hpk]
      have hK1 : 1 ≤ 2 ^ (lvl M.length - 1) := Nat.one_le_two_pow
      have e1 : 2 ^ lvl M.length = 2 * 2 ^ (lvl M.length - 1) := by
        have : lvl M.length = (lvl M.length - 1) + 1 := by omega
        rw [this, Nat.pow_succ]; simp; omega
      split
      · have hlen : (M.take (2 ^ (lvl M.length - 1))).length = 2 ^ (lvl M.length - 1) := by
          rw [List.length_take]; omega
        have := ih (M.take (2 ^ (lvl M.length - 1))) i (by rw [hlen]; omega)
        rw [hlen, lvl_pow] at this
        simp only [List.length_append, List.length_singleton]
        omega
      · have hlen : (M.drop (2 ^ (lvl M.length - 1))).length = M.length - 2 ^ (lvl M.length - 1) := by
          rw [List.length_drop]
        have := ih (M.drop (2 ^ (lvl M.length - 1))) (i - 2 ^ (lvl M.length - 1)) (by rw [hlen]; omega)
        rw [hlen] at this
        have hle := lvl_le (M.length - 2 ^ (lvl M.length - 1)) (lvl M.length - 1) (by omega) (by omega)
        simp only [List.length_append, List.length_singleton]
        omega

theorem reconstruct_len_le_max (H : HashFns β α) (n : Nat) :
    ∀ (p : List α) (f i : Nat) (acc r : α), reconstructRoot H n i acc p = .value r → p.length ≤ f →
      p.length ≤ maxPathLenFuel f i n := by
  intro p
  induction p with
  | nil => intro f i acc r _ _; simp
  | cons x rest ih =>
    intro f i acc r h hf
    cases f with
    | zero => simp at hf
    | succ f =>
      unfold reconstructRoot at h
      unfold maxPathLenFuel
      cases hcp : completeParent i n with
      | parent q =>
        simp only [hcp] at h ⊢
        have hrest : rest.length ≤ f := by simpa using hf
        by_cases hq : q > i
        · simp only [hq, if_true] at h
          have := ih f q _ r h hrest
          simp only [List.length_cons]; omega
        · simp only [hq, if_false] at h
          have := ih f q _ r h hrest
          simp only [List.length_cons]; omega
      | noParent => simp [hcp] at h
      | outOfFuel => simp [hcp] at h

theorem path_segs (Hs : Hashes) (hs : Hs.Sized) :
    ∀ (k : Nat) (L : List Bytes) (i : Nat), L.length ≤ k → ∀ x ∈ Rfc.path Hs.H i L, x.length = 32 := by
  intro k
  induction k with
  | zero =>
    intro L i hk x hx
    have : L = [] := List.eq_nil_of_length_eq_zero (by omega)
    subst this
    simp [Rfc.path] at hx
  | succ k ih =>
    intro L i hk x hx
    match L with
    | [] => simp [Rfc.path] at hx
    | [y] => rw [path_single] at hx; cases hx
    | y :: y2 :: tl =>
      have h2 : 2 ≤ (y :: y2 :: tl).length := by simp
      generalize hM : y :: y2 :: tl = M at *
      have hlt := Rfc.pow2lt_lt M.length h2
      have hpos := Rfc.pow2lt_pos M.length
      rw [path_ge2 Hs.H i M h2] at hx
      split at hx
      · rcases List.mem_append.mp hx with e | e
        · exact ih _ i (by rw [List.length_take]; omega) x e
        · simp at e; rw [e]; exact treeRoot_length Hs hs _
      · rcases List.mem_append.mp hx with e | e
        · exact ih _ _ (by rw [List.length_drop]; omega) x e
        · simp at e; rw [e]; exact treeRoot_length Hs hs _

theorem checkRaw_ok (len li ts : Nat) (h0 : ts ≠ 0) (h1 : 2 * li ≤ USIZE_MAX) (h1' : 2 * li < ts)
    (h2 : len % 32 = 0) (h3 : len / 32 ≤ maxPathLen (2 * li) ts) :
    checkRaw ⟨len, li, ts⟩ = .value (.ok ()) := by
  unfold checkRaw
  simp only
  split
  · contradiction
  · split
    · rename_i h
      rcases h with h | h
      · omega
      · simp [h1'] at h
    · split
      · rename_i h; exact absurd h2 h
      · split
        · omega
        · rfl

/-- The proof `construct_proof` returns (as an RFC 6962 audit path) is accepted by
    `try_into_proof`, re-encodes, and verifies under the crate's own index walk. -/
theorem treeProof_flat (Hs : Hashes) (hs : Hs.Sized) (L : List Bytes) (i : Nat) (y : Bytes)
    (hy : L[i]? = some y) (hsmall : 2 * L.length - 1 < 2 ^ 62) :
    ProofWF (treeProof Hs L i) ∧
    flatV Hs (treeProof Hs L i) (Hs.H.leaf y) (treeRoot Hs L) = .value true := by
  have hi : i < L.length := (List.getElem?_eq_some_iff.mp hy).1
  have hrec := flat_path_complete Hs.H L i y hy hsmall
  have hlen : (Rfc.path Hs.H i L).length ≤ 65 := by
    have h1 := path_length_le Hs.H L.length L i (Nat.le_refl _)
    have h2 : lvl L.length ≤ 62 := lvl_le L.length 62 (by omega) (by omega)
    omega
  have hmax := reconstruct_len_le_max Hs.H (2 * L.length - 1) _ 65 (2 * i) _ _ hrec hlen
  refine ⟨⟨?_, path_segs Hs hs L.length L i (Nat.le_refl _)⟩, ?_⟩
  · simp only [treeProof]
    apply checkRaw_ok
    · omega
    · unfold USIZE_MAX; omega
    · omega
    · omega
    · have : 32 * (Rfc.path Hs.H i L).length / 32 = (Rfc.path Hs.H i L).length := by omega
      rw [this]
      unfold maxPathLen
      exact hmax
  · simp only [flatV, treeProof, Proof.reconstruct, treeRoot]
    have hu : ¬ (2 * i > USIZE_MAX) := by unfold USIZE_MAX; omega
    simp only [hu, if_false, hrec, beq_self_eq_true]

/-! ### A built block passes the receivers under the crate's own verifier -/

/-- The trees of a block are far below the `usize` range (always true in practice: the number of
    `block.data` items and of rollups is bounded by the block size). -/
structure BuildInput.Small (Hs : Hashes) (inp : BuildInput) : Prop where
  data : 2 * (dataLeaves Hs inp).length - 1 < 2 ^ 62
  rollups : 2 * (groupsOf inp).length - 1 < 2 ^ 62

/-- Every proof of a built block is one `try_into_proof` accepts and verifies under
    astria-merkle's index walk. -/
theorem built_proofs_flat (Hs : Hashes) (hs : Hs.Sized) (inp : BuildInput) (b : Block)
    (h : tryBuild Hs inp = .ok b) (hsm : inp.Small Hs) :
    (∀ r ∈ b.rollups, ProofWF r.proof ∧
      flatV Hs r.proof (Hs.H.leaf (rollupLeaf Hs r.id r.txs)) b.header.txsRoot = .value true) ∧
    (ProofWF b.txsProof ∧ flatV Hs b.txsProof (Hs.H.leaf (Hs.sha b.header.txsRoot)) b.header.dataHash = .value true) ∧
    (ProofWF b.idsProof ∧
      flatV Hs b.idsProof (Hs.H.leaf (Hs.sha (treeRoot Hs b.ids))) b.header.dataHash = .value true) ∧
    (∀ e, b.eci = some e → ProofWF e.proof ∧
      flatV Hs e.proof (Hs.H.leaf (Hs.sha e.info)) b.header.dataHash = .value true) := by
  obtain ⟨hids, htxs, hroot, hdh, hr, htp, hip, heci, _⟩ := tryBuild_ok Hs inp b h
  have hi := ids_of_built Hs inp b h
  have hrl : (rollupLeaves Hs (groupsOf inp)).length = (groupsOf inp).length := by simp [rollupLeaves]
  refine ⟨?_, ?_, ?_, ?_⟩
  · intro r hrm
    obtain ⟨i, hi'⟩ := List.getElem?_of_mem hrm
    rw [hr] at hi'
    obtain ⟨hg, hp⟩ := mkRts_getElem? Hs _ _ 0 i r hi'
    rw [hp, hroot, htxs, Nat.zero_add]
    apply treeProof_flat Hs hs
    · simp only [rollupLeaves, List.getElem?_map, hg, Option.map_some]
    · rw [hrl]; exact hsm.rollups
  · rw [htp, hdh]
    apply treeProof_flat Hs hs _ _ _ _ hsm.data
    simp [dataLeaves, hroot]
  · rw [hip, hdh, hi, ← hids]
    apply treeProof_flat Hs hs _ _ _ _ hsm.data
    simp [dataLeaves]
  · intro e he
    rw [heci] at he
    cases hopt : inp.eci with
    | none => rw [hopt] at he; cases he
    | some x =>
      rw [hopt] at he
      simp only [Option.map_some, Option.some.injEq] at he
      subst he
      rw [hdh]
      apply treeProof_flat Hs hs _ _ _ _ hsm.data
      simp [dataLeaves, hopt]

section
variable (Hs : Hashes) (hs : Hs.Sized) (eciOk : Bytes → EciCheck) (fix : Bool)
variable (inp : BuildInput) (b : Block) (hb : tryBuild Hs inp = .ok b) (hids : inp.IdsOk) (hsm : inp.Small Hs)
include hs hb hids hsm

theorem built_full_accepted_flat : FullAccepted (flatCtx Hs eciOk fix) b := by
  obtain ⟨_, hp2, hp3, _⟩ := built_proofs_flat Hs hs inp b hb hsm
  obtain ⟨_, h2, hroot, _⟩ := tryBuild_ok Hs inp b hb
  refine ⟨?_, built_rt_idLen Hs hs inp b hb hids, ?_, ?_, ?_⟩
  · rw [hroot, h2]; exact treeRoot_length Hs hs _
  · simp only [verifyLeaf, flatCtx, hp2.2]
  · simp only [txsIncluded, verifyLeaf, flatCtx]
    rw [built_leaves_root Hs hs inp b hb hids, hp2.2]
  · simp only [idsIncluded, verifyLeaf, flatCtx, hp3.2]

theorem built_filtered_accepted_flat (req : List Bytes) :
    FilteredAccepted (flatCtx Hs eciOk fix) (toFiltered b req) := by
  obtain ⟨hp1, hp2, hp3, _⟩ := built_proofs_flat Hs hs inp b hb hsm
  obtain ⟨_, h2, hroot, _⟩ := tryBuild_ok Hs inp b hb
  have hsub := toFiltered_subset b req
  refine ⟨?_, ?_, ?_, ?_, ?_, ?_⟩
  · simp only [toFiltered]; rw [hroot, h2]; exact treeRoot_length Hs hs _
  · intro r hr; exact built_rt_idLen Hs hs inp b hb hids r (hsub r hr)
  · intro i hi
    simp only [toFiltered, Block.ids] at hi
    obtain ⟨r, hr, e⟩ := List.mem_map.mp hi
    rw [← e]; exact built_rt_idLen Hs hs inp b hb hids r hr
  · simp only [toFiltered, verifyLeaf, flatCtx, hp2.2]
  · intro r hr
    have := (hp1 r (hsub r hr)).2
    simp only [rtMatchesRoot, verifyLeaf, flatCtx, toFiltered, this]
  · simp only [toFiltered, idsIncluded, verifyLeaf, flatCtx, hp3.2]

theorem built_celestia_accepted_flat :
    MetaAccepted (flatCtx Hs eciOk fix) (split b).1 ∧
    ∀ blob ∈ (split b).2, verifyBlob (flatCtx Hs eciOk fix) blob (split b).1 = .value true ∧
      blob.blockHash = (split b).1.blockHash := by
  obtain ⟨hp1, hp2, hp3, _⟩ := built_proofs_flat Hs hs inp b hb hsm
  obtain ⟨_, h2, hroot, _⟩ := tryBuild_ok Hs inp b hb
  refine ⟨⟨?_, ?_, ?_, ?_⟩, ?_⟩
  · simp only [split]; rw [hroot, h2]; exact treeRoot_length Hs hs _
  · intro i hi
    simp only [split, Block.ids] at hi
    obtain ⟨r, hr, e⟩ := List.mem_map.mp hi
    rw [← e]; exact built_rt_idLen Hs hs inp b hb hids r hr
  · simp only [split, verifyLeaf, flatCtx, hp2.2]
  · simp only [split, idsIncluded, verifyLeaf, flatCtx, hp3.2]
  · intro blob hblob
    simp only [split] at hblob
    obtain ⟨r, hr, e⟩ := List.mem_map.mp hblob
    subst e
    refine ⟨?_, rfl⟩
    simp only [verifyBlob, rtMatchesRoot, verifyLeaf, flatCtx, split, (hp1 r hr).2]

end

/-! ### … and through the raw protobuf form -/

/-- The non-Merkle fields of the block are ones the decoders accept (chain id, height, time and
    proposer address as tendermint requires; 32-byte hashes; decodable extended commit info). -/
structure BuildInput.WF (inp : BuildInput) (eciOk : Bytes → EciCheck) : Prop where
  hash : inp.blockHash.length = 32
  chain : chainIdBad inp.chainId = false
  height : inp.height < 2 ^ 63
  secs : -62135596800 ≤ inp.secs ∧ inp.secs ≤ 253402300799
  nanos : inp.nanos ≤ 999999999
  proposer : inp.proposer.length = 20
  uch : inp.uch.all (fun h => h.length == 32) = true
  eci : ∀ e, inp.eci = some e → eciOk e = .ok

theorem decodeRt_toRaw (r : Rt) (hid : r.id.length = 32) (hw : ProofWF r.proof) :
    decodeRt r.toRaw = .value (.ok r) := by
  simp only [decodeRt, Rt.toRaw, hid, ne_eq, not_true_eq_false, if_false, encode_decodeProof r.proof hw,
    mapErr, andThen]

theorem checkRts_of (c : Ctx) (root : Bytes) :
    ∀ (l : List Rt), (∀ r ∈ l, rtMatchesRoot c r.id r.txs r.proof root = .value true) →
      checkRts c root l = .value (.ok ()) := by
  intro l
  induction l with
  | nil => intro _; rfl
  | cons x rest ih =>
    intro h
    simp only [checkRts, h x (by simp), guardV, andThen]
    exact ih (fun r hr => h r (List.mem_cons_of_mem _ hr))

/-- **A built block, encoded to raw protobuf, is accepted by `SequencerBlock::try_from_raw` and
    decodes to itself** — under astria-merkle's own verifier, with or without the repair of FB1. -/
theorem built_full_roundtrip_flat (Hs : Hashes) (hs : Hs.Sized) (eciOk : Bytes → EciCheck) (fix : Bool)
    (inp : BuildInput) (b : Block) (hb : tryBuild Hs inp = .ok b) (hids : inp.IdsOk) (hsm : inp.Small Hs)
    (hwf : inp.WF eciOk) :
    fullFromRaw (flatCtx Hs eciOk fix) b.toRaw = .value (.ok b) := by
  obtain ⟨hp1, hp2, hp3, hp4⟩ := built_proofs_flat Hs hs inp b hb hsm
  have hacc := built_full_accepted_flat Hs hs eciOk fix inp b hb hids hsm
  obtain ⟨hidsR, htxsR, hroot, hdh, hr, htp, hip, heci, hbh⟩ := tryBuild_ok Hs inp b hb
  have hidl := built_rt_idLen Hs hs inp b hb hids
  have hnd := built_ids_nodup Hs inp b hb
  -- the pieces
  have m1 : mapErr Err.txsProof (decodeProof (encodeProof b.txsProof)) = .value (.ok b.txsProof) := by
    rw [encode_decodeProof _ hp2.1]; rfl
  have m2 : mapErr Err.idsProof (decodeProof (encodeProof b.idsProof)) = .value (.ok b.idsProof) := by
    rw [encode_decodeProof _ hp3.1]; rfl
  have m3 : mapErr Err.rollupTxs (mapM' decodeRt (b.rollups.map Rt.toRaw)) = .value (.ok b.rollups) := by
    rw [mapM'_decodeRt_toRaw b.rollups (fun x hx => decodeRt_toRaw x (hidl x hx) (hp1 x hx).1)]; rfl
  have m4 : imCollect b.rollups = b.rollups := by
    have := foldl_imInsert_of_nodup b.rollups [] (by simpa using hnd)
    simpa [imCollect] using this
  have hhdr : decodeHeader b.header.toRaw = .ok b.header := by
    have hb' : b.header = ⟨inp.chainId, inp.height, inp.secs, inp.nanos, inp.txsRoot, treeRoot Hs (dataLeaves Hs inp), inp.proposer⟩ := by
      unfold tryBuild at hb
      simp only at hb
      split at hb
      · cases hb
      · split at hb
        · cases hb
        · injection hb with hb; rw [← hb]
    rw [hb']
    have hrl : inp.txsRoot.length = 32 := by rw [htxsR]; exact treeRoot_length Hs hs _
    have hdl : (treeRoot Hs (dataLeaves Hs inp)).length = 32 := treeRoot_length Hs hs _
    have hn : ¬ ((inp.nanos : Int) < 0 ∨ (inp.nanos : Int) > 999999999 ∨ inp.secs < -62135596800 ∨ inp.secs > 253402300799) := by
      have := hwf.secs; have := hwf.nanos
      omega
    have hh : ¬ inp.height ≥ 2 ^ 63 := by have := hwf.height; omega
    simp only [decodeHeader, Header.toRaw, hwf.chain, Bool.false_eq_true, if_false, hh, hn, hrl, hdl, hwf.proposer,
      ne_eq, not_true_eq_false, Int.toNat_natCast]
  have huch : decodeUch b.uch = .ok b.uch := by
    have : b.uch = inp.uch := by
      unfold tryBuild at hb
      simp only at hb
      split at hb
      · cases hb
      · split at hb
        · cases hb
        · injection hb with hb; rw [← hb]
    rw [this]
    simp [decodeUch, hwf.uch]
  have m5 : mapErr Err.eci (decodeEciOpt (flatCtx Hs eciOk fix) b.header.dataHash (b.eci.map Eci.toRaw)) = .value (.ok b.eci) := by
    cases he : b.eci with
    | none => rfl
    | some e =>
      obtain ⟨hw, hv⟩ := hp4 e he
      have hinfo : eciOk e.info = .ok := by
        rw [heci] at he
        cases hopt : inp.eci with
        | none => rw [hopt] at he; cases he
        | some x =>
          rw [hopt] at he
          simp only [Option.map_some, Option.some.injEq] at he
          rw [← he]; exact hwf.eci x hopt
      simp only [Option.map_some, decodeEciOpt, decodeEci, Eci.toRaw, encode_decodeProof _ hw, mapErr, andThen,
        verifyLeaf, flatCtx, hv, guardV, hinfo]
  have hchk : (if (flatCtx Hs eciOk fix).fullChecksRts = true then
        mapErr (fun _ => Err.txsNotInBlock) (checkRts (flatCtx Hs eciOk fix) b.header.txsRoot b.rollups)
      else Outcome.value (Except.ok ())) = .value (.ok ()) := by
    split
    · rw [checkRts_of _ _ b.rollups (fun r hr => by
        simp only [rtMatchesRoot, verifyLeaf, flatCtx]; exact (hp1 r hr).2)]
      rfl
    · rfl
  have h1 := hacc.txsRoot
  have h2 := hacc.txsIncl
  have h3 := hacc.idsIncl
  have hbl : b.blockHash.length = 32 := by rw [hbh]; exact hwf.hash
  simp only [fullFromRaw, Block.toRaw, hbl, if_true, liftE, andThen, optField, m1, m2, m3, m4, m5, hhdr,
    Except.mapError, h1, h2, hchk, guardV, huch]
  simp only [Block.ids] at h3
  simp only [h3]

end Astria.Block
