import Astria.Block.Wire
/-
  Re-encoding (C17): a value accepted by a receiver re-encodes (`toRaw`) to a raw value that the
  same receiver accepts again, yielding the same value.  For metadata and rollup blobs the
  re-encoding *is* the accepted raw value; for (filtered) blocks it is the raw value with
  duplicate rollup entries collapsed the way `IndexMap` collapses them.
-/
namespace Astria.Block
open Astria.Merkle

theorem decodeHeader_toRaw (r : HeaderRaw) (h : Header) (e : decodeHeader r = .ok h) : h.toRaw = r := by
  unfold decodeHeader at e
  split at e
  · cases e
  · split at e
    · cases e
    · split at e
      · cases e
      · rename_i s n ht
        split at e
        · cases e
        · rename_i hrange
          split at e
          · cases e
          · split at e
            · cases e
            · split at e
              · cases e
              · injection e with e
                subst e
                have hn : (n.toNat : Int) = n := Int.toNat_of_nonneg (by omega)
                cases r
                simp only [Header.toRaw, hn]
                simp_all

theorem decodeUch_ok (l out : List Bytes) (h : decodeUch l = .ok out) : out = l := by
  unfold decodeUch at h
  split at h
  · injection h with h; exact h.symm
  · cases h

theorem decodeEci_toRaw (c : Ctx) (dh : Bytes) (r : EciRaw) (e : Eci) (h : decodeEci c dh r = .value (.ok e)) :
    e.toRaw = r := by
  unfold decodeEci at h
  split at h
  · cases h
  · rename_i p hp
    simp only [andThen_eq_ok, mapErr_eq_ok, guardV_eq_ok] at h
    obtain ⟨π, hπ, _, _, h⟩ := h
    split at h
    · cases h
    · cases h
    · injection h with h; injection h with h
      subst h
      obtain ⟨_, he⟩ := decodeProof_wf p π hπ
      cases r
      simp only [Eci.toRaw, he]
      simp_all

theorem decodeEciOpt_toRaw (c : Ctx) (dh : Bytes) (r : Option EciRaw) (e : Option Eci)
    (h : decodeEciOpt c dh r = .value (.ok e)) : e.map Eci.toRaw = r := by
  cases r with
  | none =>
    simp only [decodeEciOpt] at h
    injection h with h; injection h with h
    subst h; rfl
  | some x =>
    simp only [decodeEciOpt, andThen_eq_ok] at h
    obtain ⟨y, hy, h⟩ := h
    injection h with h; injection h with h
    subst h
    simp only [Option.map_some, decodeEci_toRaw c dh x y hy]

/-- **Rollup blob**: the accepted value re-encodes to the raw value it was decoded from. -/
theorem blob_toRaw (r : BlobRaw) (b : Blob) (h : blobFromRaw r = .value (.ok b)) : b.toRaw = r := by
  simp only [blobFromRaw, andThen_eq_ok, liftE_eq_ok, mapErr_eq_ok, optField_eq_ok] at h
  obtain ⟨id0, hid0, id, hid, bh, hbh, rp, hrp, π, hπ, hb⟩ := h
  injection hb with hb; injection hb with hb
  subst hb
  obtain ⟨_, he⟩ := decodeProof_wf rp π hπ
  split at hid
  · injection hid with hid
    split at hbh
    · injection hbh with hbh
      subst hid; subst hbh
      cases r
      simp only [Blob.toRaw, he]
      simp_all
    · cases hbh
  · cases hid

theorem blob_reencode (r : BlobRaw) (b : Blob) (h : blobFromRaw r = .value (.ok b)) :
    blobFromRaw b.toRaw = .value (.ok b) := by rw [blob_toRaw r b h]; exact h

/-- **Metadata**: the accepted value re-encodes to the raw value it was decoded from. -/
theorem meta_toRaw (c : Ctx) (r : MetaRaw) (m : Meta) (h : metaFromRaw c r = .value (.ok m)) : m.toRaw = r := by
  simp only [metaFromRaw, andThen_eq_ok, liftE_eq_ok, guardV_eq_ok, mapErr_eq_ok, optField_eq_ok] at h
  obtain ⟨rh, hrh, hd, hhd, ids, hids, rtp, hrtp, tp, htp, rip, hrip, ip, hip, bh, hbh, uch, huch, eci, heci, _, _, _, _, hb⟩ := h
  injection hb with hb; injection hb with hb
  subst hb
  have hhd' : decodeHeader rh = .ok hd := by
    cases hq : decodeHeader rh with
    | error e => rw [hq] at hhd; cases hhd
    | ok v => rw [hq] at hhd; simp only [Except.mapError] at hhd; injection hhd with hhd; rw [hhd]
  have e1 := decodeHeader_toRaw rh hd hhd'
  have e2 := (decodeIds_ok _ _ hids).1
  have e3 := (decodeProof_wf rtp tp htp).2
  have e4 := (decodeProof_wf rip ip hip).2
  have e5 := decodeUch_ok _ _ huch
  have e6 := decodeEciOpt_toRaw c _ _ _ heci
  split at hbh
  · injection hbh with hbh
    cases r
    simp only [Meta.toRaw, e1, e2, e3, e4, e5, e6]
    simp_all
  · cases hbh

theorem meta_reencode (c : Ctx) (r : MetaRaw) (m : Meta) (h : metaFromRaw c r = .value (.ok m)) :
    metaFromRaw c m.toRaw = .value (.ok m) := by rw [meta_toRaw c r m h]; exact h

/-! ### Blocks: duplicate entries collapse -/

theorem imInsert_fresh (m : List Rt) (r : Rt) (h : r.id ∉ m.map (·.id)) : imInsert m r = m ++ [r] := by
  induction m with
  | nil => rfl
  | cons x xs ih =>
    simp only [List.map_cons, List.mem_cons, not_or] at h
    simp only [imInsert]
    have : ¬ x.id = r.id := fun e => h.1 e.symm
    simp only [this, if_false, ih h.2, List.cons_append]

theorem imInsert_ids (m : List Rt) (r : Rt) :
    (imInsert m r).map (·.id) = if r.id ∈ m.map (·.id) then m.map (·.id) else m.map (·.id) ++ [r.id] := by
  induction m with
  | nil => simp [imInsert]
  | cons x xs ih =>
    simp only [imInsert]
    by_cases hx : x.id = r.id
    · simp [hx]
    · have hx' : ¬ r.id = x.id := fun e => hx e.symm
      simp only [hx, if_false, List.map_cons, ih, List.mem_cons, hx', false_or]
      by_cases hm : r.id ∈ xs.map (·.id)
      · simp [hm]
      · simp [hm]

theorem imInsert_nodup (m : List Rt) (r : Rt) (h : (m.map (·.id)).Nodup) : ((imInsert m r).map (·.id)).Nodup := by
  rw [imInsert_ids]
  by_cases hm : r.id ∈ m.map (·.id)
  · simp only [hm, if_true]; exact h
  · simp only [hm, if_false]
    rw [List.nodup_append]
    refine ⟨h, by simp, ?_⟩
    intro a ha b hb e
    simp at hb
    subst hb; subst e
    exact hm ha

theorem foldl_imInsert_nodup (l : List Rt) : ∀ (acc : List Rt), (acc.map (·.id)).Nodup →
    ((l.foldl imInsert acc).map (·.id)).Nodup := by
  induction l with
  | nil => intro acc h; exact h
  | cons x xs ih => intro acc h; exact ih _ (imInsert_nodup acc x h)

theorem imCollect_nodup (l : List Rt) : ((imCollect l).map (·.id)).Nodup :=
  foldl_imInsert_nodup l [] (by simp)

theorem foldl_imInsert_of_nodup (l : List Rt) : ∀ (acc : List Rt), ((acc ++ l).map (·.id)).Nodup →
    l.foldl imInsert acc = acc ++ l := by
  induction l with
  | nil => intro acc _; simp
  | cons x xs ih =>
    intro acc h
    simp only [List.foldl_cons]
    have hx : x.id ∉ acc.map (·.id) := by
      simp only [List.map_append, List.map_cons] at h
      rw [List.nodup_append] at h
      intro hm
      exact h.2.2 _ hm _ (by simp) rfl
    rw [imInsert_fresh acc x hx, ih (acc ++ [x]) (by simpa using h)]
    simp

/-- Collecting an already collected list changes nothing. -/
theorem imCollect_idem (l : List Rt) : imCollect (imCollect l) = imCollect l := by
  have := foldl_imInsert_of_nodup (imCollect l) [] (by simpa using imCollect_nodup l)
  simpa [imCollect] using this

theorem mapM'_decodeRt_toRaw : ∀ (l : List Rt), (∀ x ∈ l, decodeRt x.toRaw = .value (.ok x)) →
    mapM' decodeRt (l.map Rt.toRaw) = .value (.ok l) := by
  intro l
  induction l with
  | nil => intro _; rfl
  | cons x xs ih =>
    intro h
    simp only [List.map_cons, mapM', h x (by simp), andThen,
      ih (fun y hy => h y (List.mem_cons_of_mem _ hy))]

theorem decodeRt_reencode (r : RtRaw) (x : Rt) (h : decodeRt r = .value (.ok x)) :
    decodeRt x.toRaw = .value (.ok x) := by rw [(decodeRt_wf r x h).2.2]; exact h

theorem rts_reencode (raws : List RtRaw) (rts : List Rt) (h : mapM' decodeRt raws = .value (.ok rts)) :
    mapM' decodeRt ((imCollect rts).map Rt.toRaw) = .value (.ok (imCollect rts)) := by
  apply mapM'_decodeRt_toRaw
  intro x hx
  obtain ⟨a, _, ha⟩ := (mapM'_ok decodeRt raws rts h).mem_right x (mem_imCollect rts x hx)
  exact decodeRt_reencode a x ha

/-- **Full block**: an accepted block re-encodes to a raw block that is accepted again and
    yields the same block. -/
theorem full_reencode (c : Ctx) (r : BlockRaw) (b : Block) (h : fullFromRaw c r = .value (.ok b)) :
    fullFromRaw c b.toRaw = .value (.ok b) := by
  simp only [fullFromRaw, andThen_eq_ok, liftE_eq_ok, guardV_eq_ok, mapErr_eq_ok, optField_eq_ok] at h
  obtain ⟨bh, hbh, rtp, hrtp, tp, htp, rip, hrip, ip, hip, rh, hrh, hd, hhd, rts, hrts, u1, h1, u2, h2, u4, h4, u3, h3, uch, huch, eci, heci, hb⟩ := h
  injection hb with hb; injection hb with hb
  subst hb
  have hhd' : decodeHeader rh = .ok hd := by
    cases hq : decodeHeader rh with
    | error e => rw [hq] at hhd; cases hhd
    | ok v => rw [hq] at hhd; simp only [Except.mapError] at hhd; injection hhd with hhd; rw [hhd]
  have e1 := decodeHeader_toRaw rh hd hhd'
  have w3 := (decodeProof_wf rtp tp htp).1
  have w4 := (decodeProof_wf rip ip hip).1
  have e5 := decodeUch_ok _ _ huch
  have e6 := decodeEciOpt_toRaw c _ _ _ heci
  have hbh' : bh.length = 32 := by
    split at hbh
    · rename_i hl; injection hbh with hbh; subst hbh; exact hl
    · cases hbh
  subst e5
  have m1 : mapErr Err.txsProof (decodeProof (encodeProof tp)) = .value (.ok tp) := by
    rw [encode_decodeProof tp w3]; rfl
  have m2 : mapErr Err.idsProof (decodeProof (encodeProof ip)) = .value (.ok ip) := by
    rw [encode_decodeProof ip w4]; rfl
  have m3 : mapErr Err.rollupTxs (mapM' decodeRt ((imCollect rts).map Rt.toRaw)) = .value (.ok (imCollect rts)) := by
    rw [rts_reencode _ rts hrts]; rfl
  have m5 : mapErr Err.eci (decodeEciOpt c hd.dataHash (eci.map Eci.toRaw)) = .value (.ok eci) := by
    rw [e6, heci]; rfl
  simp only [fullFromRaw, Block.toRaw, hbh', if_true, liftE, andThen, optField, m1, m2, m3, m5, e1, hhd',
    Except.mapError, imCollect_idem, h1, h2, h3, h4, guardV, huch]

/-- **Filtered block**: likewise. -/
theorem filtered_reencode (c : Ctx) (r : FilteredRaw) (f : Filtered) (h : filteredFromRaw c r = .value (.ok f)) :
    filteredFromRaw c f.toRaw = .value (.ok f) := by
  simp only [filteredFromRaw, andThen_eq_ok, liftE_eq_ok, guardV_eq_ok, mapErr_eq_ok, optField_eq_ok] at h
  obtain ⟨bh, hbh, rtp, hrtp, tp, htp, rip, hrip, ip, hip, rh, hrh, hd, hhd, rts, hrts, ids, hids, u1, h1, u2, h2, u3, h3, uch, huch, eci, heci, hb⟩ := h
  injection hb with hb; injection hb with hb
  subst hb
  have hhd' : decodeHeader rh = .ok hd := by
    cases hq : decodeHeader rh with
    | error e => rw [hq] at hhd; cases hhd
    | ok v => rw [hq] at hhd; simp only [Except.mapError] at hhd; injection hhd with hhd; rw [hhd]
  have e1 := decodeHeader_toRaw rh hd hhd'
  have w3 := (decodeProof_wf rtp tp htp).1
  have w4 := (decodeProof_wf rip ip hip).1
  have e5 := decodeUch_ok _ _ huch
  have e6 := decodeEciOpt_toRaw c _ _ _ heci
  have e7 := (decodeIds_ok _ _ hids).1
  have hbh' : bh.length = 32 := by
    split at hbh
    · rename_i hl; injection hbh with hbh; subst hbh; exact hl
    · cases hbh
  subst e5
  subst e7
  simp only [filteredFromRaw, Filtered.toRaw, hbh', if_true, liftE, andThen, optField, encode_decodeProof tp w3,
    encode_decodeProof ip w4, mapErr, e1, hhd', Except.mapError, rts_reencode _ rts hrts, imCollect_idem,
    h1, h2, h3, guardV, huch, hids, e6, heci]

/-! ### Transactions (`Transaction::try_from_raw`) -/

/-- An accepted transaction carries a signature that verifies over exactly the body bytes it
    carries, under the key it carries; and it re-encodes to the raw value it was decoded from. -/
theorem tx_accepted_consistent (o : TxOracles) (r : TxRaw) (t : Tx) (h : txFromRaw o r = .ok t) :
    o.sigOk t.key t.bodyBytes t.signature = true ∧ o.keyOk t.key = true ∧
    o.bodyOk t.typeUrl t.bodyBytes = true ∧ t.toRaw o = r ∧ txFromRaw o (t.toRaw o) = .ok t := by
  unfold txFromRaw at h
  split at h
  · cases h
  · split at h
    · cases h
    · rename_i hk
      split at h
      · cases h
      · rename_i url value hb
        split at h
        · cases h
        · rename_i hs
          split at h
          · cases h
          · rename_i hbody
            injection h with h
            subst h
            simp only [not_or, Bool.not_eq_true', Bool.not_eq_false, ne_eq, Decidable.not_not,
              Bool.not_eq_eq_eq_not, Bool.not_true, Bool.not_false] at hk hs hbody
            have hurl := o.bodyOk_url url value (by simpa using hbody)
            have hraw : Tx.toRaw o ⟨r.signature, r.publicKey, url, value⟩ = r := by
              cases r
              simp only [Tx.toRaw, ← hurl]
              simp_all
            refine ⟨by simpa using hs, by simpa using hk.2, by simpa using hbody, hraw, ?_⟩
            rw [hraw]
            unfold txFromRaw
            simp_all

end Astria.Block
