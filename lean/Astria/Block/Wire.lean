import Astria.Block.Tamper
/-
  C17, the part Lean can carry: the validation glue between prost-decoded raw structs and the
  checked domain types.

  * `*_total`      — with astria-merkle's index walk as the verifier (`flatCtx`, the verifier that
                     can panic on unchecked proofs), no receiver ever panics, for any raw value:
                     every proof that reaches `verify` went through `try_into_proof`, and checked
                     proofs never walk out of the tree (C08).
  * `*_accepted`   — (in `Tamper.lean`) an accepted value has passed the type's Merkle checks.
  * `*_reencode`   — an accepted value re-encodes to a raw value that is accepted again and
                     yields the same value.
  * transactions   — `Transaction::try_from_raw`: signature over the body bytes.
-/
namespace Astria.Block
open Astria.Merkle

/-! ### Totality plumbing -/

theorem andThen_total {ε α β : Type} {o : Outcome (Except ε α)} {f : α → Outcome (Except ε β)}
    (ho : ∃ r, o = .value r) (hf : ∀ a, o = .value (.ok a) → ∃ r, f a = .value r) :
    ∃ r, andThen o f = .value r := by
  obtain ⟨r, hr⟩ := ho
  subst hr
  cases r with
  | error e => exact ⟨.error e, rfl⟩
  | ok a => exact hf a rfl

theorem liftE_total {ε α : Type} (e : Except ε α) : ∃ r, liftE e = .value r := ⟨e, rfl⟩

theorem optField_total {α : Type} (o : Option α) (name : String) : ∃ r, optField o name = .value r := by
  cases o <;> exact ⟨_, rfl⟩

theorem mapErr_total {ε ε' α : Type} (f : ε → ε') {o : Outcome (Except ε α)} (h : ∃ r, o = .value r) :
    ∃ r, mapErr f o = .value r := by
  obtain ⟨r, hr⟩ := h
  subst hr
  cases r <;> exact ⟨_, rfl⟩

theorem guardV_total {ε : Type} {o : Outcome Bool} (err : ε) (h : ∃ b, o = .value b) :
    ∃ r, guardV o err = .value r := by
  obtain ⟨b, hb⟩ := h
  subst hb
  cases b <;> exact ⟨_, rfl⟩

theorem mapM'_total {ε α β : Type} (f : α → Outcome (Except ε β)) (hf : ∀ a, ∃ r, f a = .value r) :
    ∀ l : List α, ∃ r, mapM' f l = .value r := by
  intro l
  induction l with
  | nil => exact ⟨_, rfl⟩
  | cons a rest ih =>
    simp only [mapM']
    apply andThen_total (hf a)
    intro b _
    apply andThen_total ih
    intro bs _
    exact ⟨_, rfl⟩

/-! ### Proofs on the wire -/

theorem decodeProof_total (r : RawProof) : ∃ v, decodeProof r = .value v := by
  unfold decodeProof
  obtain ⟨v, hv⟩ := Flat.checkRaw_total ⟨r.auditPath.length, r.leafIndex, r.treeSize⟩
  rw [hv]
  cases v with
  | error e => exact ⟨_, rfl⟩
  | ok u => cases u; exact ⟨_, rfl⟩

theorem chunks32_length : ∀ (fuel : Nat) (bs : Bytes), bs.length ≤ fuel →
    (chunks32 fuel bs).length = (bs.length + 31) / 32 := by
  intro fuel
  induction fuel with
  | zero =>
    intro bs h
    have : bs = [] := List.eq_nil_of_length_eq_zero (by omega)
    subst this; rfl
  | succ f ih =>
    intro bs h
    unfold chunks32
    by_cases hemp : bs.isEmpty = true
    · simp only [hemp, if_true]
      have : bs = [] := List.isEmpty_iff.mp hemp
      subst this; rfl
    · have hemp' : bs.isEmpty = false := by simpa using hemp
      simp only [hemp', Bool.false_eq_true, if_false, List.length_cons]
      have hpos : 0 < bs.length := by
        cases bs with
        | nil => simp at hemp
        | cons _ _ => simp
      rw [ih (bs.drop 32) (by rw [List.length_drop]; omega), List.length_drop]
      omega

theorem chunks32_seg : ∀ (fuel : Nat) (bs : Bytes), bs.length ≤ fuel → bs.length % 32 = 0 →
    ∀ s ∈ chunks32 fuel bs, s.length = 32 := by
  intro fuel
  induction fuel with
  | zero => intro bs _ _ s hs; simp [chunks32] at hs
  | succ f ih =>
    intro bs h hm s hs
    unfold chunks32 at hs
    by_cases hemp : bs.isEmpty = true
    · simp [hemp] at hs
    · have hemp' : bs.isEmpty = false := by simpa using hemp
      simp only [hemp', Bool.false_eq_true, if_false] at hs
      have hpos : 0 < bs.length := by
        cases bs with
        | nil => simp at hemp
        | cons _ _ => simp
      rcases List.mem_cons.mp hs with e | e
      · rw [e, List.length_take]; omega
      · exact ih (bs.drop 32) (by rw [List.length_drop]; omega) (by rw [List.length_drop]; omega) s e

theorem chunks32_flatten : ∀ (fuel : Nat) (bs : Bytes), bs.length ≤ fuel →
    (chunks32 fuel bs).flatten = bs := by
  intro fuel
  induction fuel with
  | zero =>
    intro bs h
    have : bs = [] := List.eq_nil_of_length_eq_zero (by omega)
    subst this; rfl
  | succ f ih =>
    intro bs h
    unfold chunks32
    by_cases hemp : bs.isEmpty = true
    · simp only [hemp, if_true]
      have : bs = [] := List.isEmpty_iff.mp hemp
      subst this; rfl
    · have hemp' : bs.isEmpty = false := by simpa using hemp
      simp only [hemp', Bool.false_eq_true, if_false, List.flatten_cons]
      have hpos : 0 < bs.length := by
        cases bs with
        | nil => simp at hemp
        | cons _ _ => simp
      rw [ih (bs.drop 32) (by rw [List.length_drop]; omega), List.take_append_drop]

theorem flatten_chunks32 : ∀ (segs : List Bytes), (∀ s ∈ segs, s.length = 32) →
    ∀ fuel, segs.flatten.length ≤ fuel → chunks32 fuel segs.flatten = segs := by
  intro segs
  induction segs with
  | nil => intro _ fuel _; cases fuel <;> simp [chunks32]
  | cons s rest ih =>
    intro hseg fuel hf
    have hs : s.length = 32 := hseg s (by simp)
    cases fuel with
    | zero => simp only [List.flatten_cons, List.length_append] at hf; omega
    | succ f =>
      unfold chunks32
      have hne : (s :: rest).flatten.isEmpty = false := by
        simp only [List.flatten_cons, List.isEmpty_iff, List.append_eq_nil_iff, not_and, Bool.eq_false_iff, ne_eq]
        intro e; rw [e] at hs; simp at hs
      simp only [List.flatten_cons] at hne ⊢
      simp only [hne, Bool.false_eq_true, if_false]
      have ht : (s ++ rest.flatten).take 32 = s := by
        rw [List.take_append_of_le_length (by omega), List.take_of_length_le (by omega)]
      have hd : (s ++ rest.flatten).drop 32 = rest.flatten := by
        rw [List.drop_append_of_le_length (by omega), List.drop_of_length_le (by omega)]; simp
      rw [ht, hd, ih (fun x hx => hseg x (List.mem_cons_of_mem _ hx)) f
        (by simp only [List.flatten_cons, List.length_append] at hf; omega)]

theorem flatten_length32 : ∀ (segs : List Bytes), (∀ s ∈ segs, s.length = 32) →
    segs.flatten.length = 32 * segs.length := by
  intro segs
  induction segs with
  | nil => intro _; rfl
  | cons s rest ih =>
    intro h
    simp only [List.flatten_cons, List.length_append, List.length_cons]
    rw [ih (fun x hx => h x (List.mem_cons_of_mem _ hx)), h s (by simp)]
    omega

/-- A proof as `try_into_proof` returns it. -/
structure ProofWF (π : Proof) : Prop where
  checked : Flat.checkRaw ⟨32 * π.path.length, π.leafIndex, π.treeSize⟩ = .value (.ok ())
  segs : ∀ s ∈ π.path, s.length = 32

theorem decodeProof_wf (r : RawProof) (π : Proof) (h : decodeProof r = .value (.ok π)) :
    ProofWF π ∧ encodeProof π = r := by
  unfold decodeProof at h
  split at h
  · cases h
  · cases h
  · rename_i hc
    injection h with h; injection h with h
    subst h
    have hmod : r.auditPath.length % 32 = 0 := by
      unfold Flat.checkRaw at hc
      simp only at hc
      split at hc
      · cases hc
      · split at hc
        · cases hc
        · split at hc
          · cases hc
          · rename_i h3; omega
    have hlen := chunks32_length r.auditPath.length r.auditPath (Nat.le_refl _)
    have h32 : 32 * ((r.auditPath.length + 31) / 32) = r.auditPath.length := by omega
    refine ⟨⟨?_, chunks32_seg _ _ (Nat.le_refl _) hmod⟩, ?_⟩
    · simp only [hlen, h32]; exact hc
    · simp only [encodeProof, chunks32_flatten _ _ (Nat.le_refl _)]

theorem encode_decodeProof (π : Proof) (h : ProofWF π) : decodeProof (encodeProof π) = .value (.ok π) := by
  unfold decodeProof encodeProof
  simp only
  rw [flatten_length32 π.path h.segs, h.checked]
  simp only
  rw [← flatten_length32 π.path h.segs, flatten_chunks32 π.path h.segs _ (Nat.le_refl _)]

/-- Checked proofs never make the index walk leave the tree: verification is total (C08). -/
theorem flatV_total (Hs : Hashes) (π : Proof) (h : ProofWF π) (lh r : Bytes) :
    ∃ b, flatV Hs π lh r = .value b := by
  have hc : π.Checked := h.checked
  obtain ⟨hidx, hlen⟩ := Flat.checked_bounds π hc
  unfold flatV Flat.Proof.reconstruct
  have hnot : ¬ (2 * π.leafIndex > USIZE_MAX) := by omega
  simp only [hnot, if_false]
  obtain ⟨x, hx⟩ := Flat.reconstructRoot_total Hs.H π.treeSize π.path 65 (2 * π.leafIndex) lh hlen
  rw [hx]
  exact ⟨_, rfl⟩

theorem verifyLeaf_total (Hs : Hashes) (eciOk : Bytes → EciCheck) (fix : Bool) (π : Proof) (h : ProofWF π) (leaf r : Bytes) :
    ∃ b, verifyLeaf (flatCtx Hs eciOk fix) π leaf r = .value b := flatV_total Hs π h _ _

/-! ### Every receiver is total -/

theorem decodeRt_total (r : RtRaw) : ∃ v, decodeRt r = .value v := by
  unfold decodeRt
  split
  · exact ⟨_, rfl⟩
  · split
    · exact ⟨_, rfl⟩
    · split
      · exact ⟨_, rfl⟩
      · apply andThen_total (mapErr_total _ (decodeProof_total _))
        intro π _
        exact ⟨_, rfl⟩

theorem decodeRt_wf (r : RtRaw) (x : Rt) (h : decodeRt r = .value (.ok x)) :
    ProofWF x.proof ∧ x.id.length = 32 ∧ x.toRaw = r := by
  unfold decodeRt at h
  split at h
  · cases h
  · rename_i id hid
    split at h
    · cases h
    · rename_i hl
      split at h
      · cases h
      · rename_i p hp
        simp only [andThen_eq_ok, mapErr_eq_ok] at h
        obtain ⟨π, hπ, h⟩ := h
        injection h with h; injection h with h
        subst h
        obtain ⟨hw, he⟩ := decodeProof_wf p π hπ
        refine ⟨hw, by simpa using hl, ?_⟩
        simp only [Rt.toRaw, he]
        cases r
        simp_all

theorem decodeEci_total (Hs : Hashes) (eciOk : Bytes → EciCheck) (fix : Bool) (dh : Bytes) (r : EciRaw) :
    ∃ v, decodeEci (flatCtx Hs eciOk fix) dh r = .value v := by
  unfold decodeEci
  split
  · exact ⟨_, rfl⟩
  · rename_i p _
    apply andThen_total (mapErr_total _ (decodeProof_total _))
    intro π hπ
    have hw := (decodeProof_wf p π (mapErr_eq_ok.mp hπ)).1
    apply andThen_total (guardV_total _ (verifyLeaf_total Hs eciOk fix π hw _ _))
    intro _ _
    split <;> exact ⟨_, rfl⟩

theorem decodeEciOpt_total (Hs : Hashes) (eciOk : Bytes → EciCheck) (fix : Bool) (dh : Bytes) (r : Option EciRaw) :
    ∃ v, decodeEciOpt (flatCtx Hs eciOk fix) dh r = .value v := by
  cases r with
  | none => exact ⟨_, rfl⟩
  | some e =>
    simp only [decodeEciOpt]
    apply andThen_total (decodeEci_total Hs eciOk fix dh e)
    intro _ _
    exact ⟨_, rfl⟩

theorem rts_wf (raws : List RtRaw) (rts : List Rt) (h : mapM' decodeRt raws = .value (.ok rts)) :
    ∀ r ∈ imCollect rts, ProofWF r.proof := by
  intro r hr
  obtain ⟨a, _, ha⟩ := (mapM'_ok decodeRt raws rts h).mem_right r (mem_imCollect rts r hr)
  exact (decodeRt_wf a r ha).1

theorem checkRts_total (Hs : Hashes) (eciOk : Bytes → EciCheck) (fix : Bool) (root : Bytes) :
    ∀ (l : List Rt), (∀ r ∈ l, ProofWF r.proof) → ∃ v, checkRts (flatCtx Hs eciOk fix) root l = .value v := by
  intro l
  induction l with
  | nil => intro _; exact ⟨_, rfl⟩
  | cons x rest ih =>
    intro h
    simp only [checkRts]
    apply andThen_total (guardV_total _ (verifyLeaf_total Hs eciOk fix x.proof (h x (by simp)) _ _))
    intro _ _
    exact ih (fun r hr => h r (List.mem_cons_of_mem _ hr))

/-- `SequencerBlock::try_from_raw` returns `Ok` or `Err` — never panics — for every raw value. -/
theorem fullFromRaw_total (Hs : Hashes) (eciOk : Bytes → EciCheck) (fix : Bool) (r : BlockRaw) :
    ∃ v, fullFromRaw (flatCtx Hs eciOk fix) r = .value v := by
  unfold fullFromRaw
  apply andThen_total (liftE_total _); intro bh _
  apply andThen_total (optField_total _ _); intro rtp _
  apply andThen_total (mapErr_total _ (decodeProof_total _)); intro txsProof htp
  have wtp := (decodeProof_wf rtp txsProof (mapErr_eq_ok.mp htp)).1
  apply andThen_total (optField_total _ _); intro rip _
  apply andThen_total (mapErr_total _ (decodeProof_total _)); intro idsProof hip
  have wip := (decodeProof_wf rip idsProof (mapErr_eq_ok.mp hip)).1
  apply andThen_total (optField_total _ _); intro rh _
  apply andThen_total (liftE_total _); intro header _
  apply andThen_total (mapErr_total _ (mapM'_total decodeRt decodeRt_total _)); intro rts hrts
  have wrts := rts_wf _ rts (mapErr_eq_ok.mp hrts)
  apply andThen_total (guardV_total _ (verifyLeaf_total Hs eciOk fix txsProof wtp _ _)); intro _ _
  apply andThen_total (guardV_total _ (verifyLeaf_total Hs eciOk fix txsProof wtp _ _)); intro _ _
  apply andThen_total (by
    split
    · exact mapErr_total _ (checkRts_total Hs eciOk fix _ _ wrts)
    · exact ⟨_, rfl⟩); intro _ _
  apply andThen_total (guardV_total _ (verifyLeaf_total Hs eciOk fix idsProof wip _ _)); intro _ _
  apply andThen_total (liftE_total _); intro uch _
  apply andThen_total (mapErr_total _ (decodeEciOpt_total Hs eciOk fix _ _)); intro eci _
  exact ⟨_, rfl⟩

/-- `FilteredSequencerBlock::try_from_raw` never panics. -/
theorem filteredFromRaw_total (Hs : Hashes) (eciOk : Bytes → EciCheck) (fix : Bool) (r : FilteredRaw) :
    ∃ v, filteredFromRaw (flatCtx Hs eciOk fix) r = .value v := by
  unfold filteredFromRaw
  apply andThen_total (liftE_total _); intro bh _
  apply andThen_total (optField_total _ _); intro rtp _
  apply andThen_total (mapErr_total _ (decodeProof_total _)); intro txsProof htp
  have wtp := (decodeProof_wf rtp txsProof (mapErr_eq_ok.mp htp)).1
  apply andThen_total (optField_total _ _); intro rip _
  apply andThen_total (mapErr_total _ (decodeProof_total _)); intro idsProof hip
  have wip := (decodeProof_wf rip idsProof (mapErr_eq_ok.mp hip)).1
  apply andThen_total (optField_total _ _); intro rh _
  apply andThen_total (liftE_total _); intro header _
  apply andThen_total (mapErr_total _ (mapM'_total decodeRt decodeRt_total _)); intro rts hrts
  have wrts := rts_wf _ rts (mapErr_eq_ok.mp hrts)
  apply andThen_total (liftE_total _); intro allIds _
  apply andThen_total (guardV_total _ (verifyLeaf_total Hs eciOk fix txsProof wtp _ _)); intro _ _
  apply andThen_total (checkRts_total Hs eciOk fix _ _ wrts); intro _ _
  apply andThen_total (guardV_total _ (verifyLeaf_total Hs eciOk fix idsProof wip _ _)); intro _ _
  apply andThen_total (liftE_total _); intro uch _
  apply andThen_total (mapErr_total _ (decodeEciOpt_total Hs eciOk fix _ _)); intro eci _
  exact ⟨_, rfl⟩

/-- `SubmittedMetadata::try_from_raw` never panics. -/
theorem metaFromRaw_total (Hs : Hashes) (eciOk : Bytes → EciCheck) (fix : Bool) (r : MetaRaw) :
    ∃ v, metaFromRaw (flatCtx Hs eciOk fix) r = .value v := by
  unfold metaFromRaw
  apply andThen_total (optField_total _ _); intro rh _
  apply andThen_total (liftE_total _); intro header _
  apply andThen_total (liftE_total _); intro ids _
  apply andThen_total (optField_total _ _); intro rtp _
  apply andThen_total (mapErr_total _ (decodeProof_total _)); intro txsProof htp
  have wtp := (decodeProof_wf rtp txsProof (mapErr_eq_ok.mp htp)).1
  apply andThen_total (optField_total _ _); intro rip _
  apply andThen_total (mapErr_total _ (decodeProof_total _)); intro idsProof hip
  have wip := (decodeProof_wf rip idsProof (mapErr_eq_ok.mp hip)).1
  apply andThen_total (liftE_total _); intro bh _
  apply andThen_total (liftE_total _); intro uch _
  apply andThen_total (mapErr_total _ (decodeEciOpt_total Hs eciOk fix _ _)); intro eci _
  apply andThen_total (guardV_total _ (verifyLeaf_total Hs eciOk fix txsProof wtp _ _)); intro _ _
  apply andThen_total (guardV_total _ (verifyLeaf_total Hs eciOk fix idsProof wip _ _)); intro _ _
  exact ⟨_, rfl⟩

/-- `SubmittedRollupData::try_from_raw` never panics. -/
theorem blobFromRaw_total (r : BlobRaw) : ∃ v, blobFromRaw r = .value v := by
  unfold blobFromRaw
  apply andThen_total (optField_total _ _); intro id0 _
  apply andThen_total (liftE_total _); intro id _
  apply andThen_total (liftE_total _); intro bh _
  apply andThen_total (optField_total _ _); intro rp _
  apply andThen_total (mapErr_total _ (decodeProof_total _)); intro π _
  exact ⟨_, rfl⟩

end Astria.Block
