import Astria.Block.Model
import Astria.Block.Chain
import Astria.Block.Group
/-
  Facts about `tryBuild` (SequencerBlockBuilder::try_build): what a built block contains, that
  an honest proposer's commitments are accepted, and that every proof it carries verifies
  (RFC 6962 verification) against the roots placed in its header.
-/
namespace Astria.Block
open Astria.Merkle

/-! ### Plumbing: when does a chain of `andThen` succeed -/

theorem andThen_eq_ok {ε α β : Type} {o : Outcome (Except ε α)} {f : α → Outcome (Except ε β)} {b : β} :
    andThen o f = .value (.ok b) ↔ ∃ a, o = .value (.ok a) ∧ f a = .value (.ok b) := by
  unfold andThen
  constructor
  · intro h
    split at h
    · cases h
    · cases h
    · rename_i a; exact ⟨a, rfl, h⟩
  · rintro ⟨a, rfl, h⟩; exact h

theorem liftE_eq_ok {ε α : Type} {e : Except ε α} {a : α} : liftE e = .value (.ok a) ↔ e = .ok a := by
  unfold liftE
  constructor
  · intro h; injection h
  · intro h; rw [h]

theorem guardV_eq_ok {ε : Type} {o : Outcome Bool} {err : ε} {u : Unit} :
    guardV o err = .value (.ok u) ↔ o = .value true := by
  unfold guardV
  constructor
  · intro h
    split at h
    · cases h
    · rfl
    · cases h
  · intro h; rw [h]

theorem mapErr_eq_ok {ε ε' α : Type} {f : ε → ε'} {o : Outcome (Except ε α)} {a : α} :
    mapErr f o = .value (.ok a) ↔ o = .value (.ok a) := by
  unfold mapErr
  constructor
  · intro h
    split at h
    · cases h
    · cases h
    · injection h with h; injection h with h; subst h; rfl
  · intro h; rw [h]

theorem optField_eq_ok {α : Type} {o : Option α} {name : String} {a : α} :
    optField o name = .value (.ok a) ↔ o = some a := by
  unfold optField
  constructor
  · intro h
    split at h
    · cases h
    · injection h with h; injection h with h; rw [h]
  · intro h; rw [h]

/-- Element-wise relation between two lists. -/
inductive Rel2 {α β : Type} (R : α → β → Prop) : List α → List β → Prop where
  | nil : Rel2 R [] []
  | cons {a : α} {b : β} {as : List α} {bs : List β} : R a b → Rel2 R as bs → Rel2 R (a :: as) (b :: bs)

theorem Rel2.mem_right {α β : Type} {R : α → β → Prop} {l : List α} {out : List β} (h : Rel2 R l out) :
    ∀ b ∈ out, ∃ a ∈ l, R a b := by
  induction h with
  | nil => intro b hb; cases hb
  | cons hab _ ih =>
    intro b hb
    rcases List.mem_cons.mp hb with e | e
    · subst e; exact ⟨_, by simp, hab⟩
    · obtain ⟨a, ha, hr⟩ := ih b e
      exact ⟨a, List.mem_cons_of_mem _ ha, hr⟩

theorem mapM'_ok {ε α β : Type} (f : α → Outcome (Except ε β)) :
    ∀ (l : List α) (out : List β), mapM' f l = .value (.ok out) →
      Rel2 (fun a b => f a = .value (.ok b)) l out := by
  intro l
  induction l with
  | nil => intro out h; simp [mapM'] at h; subst h; exact .nil
  | cons a rest ih =>
    intro out h
    simp only [mapM', andThen_eq_ok] at h
    obtain ⟨b, hb, bs, hbs, hout⟩ := h
    injection hout with hout; injection hout with hout
    subst hout
    exact .cons hb (ih bs hbs)

/-! ### Sizes -/

theorem treeRoot_length (Hs : Hashes) (hs : Hs.Sized) (L : List Bytes) : (treeRoot Hs L).length = 32 := by
  unfold treeRoot
  match L with
  | [] => rw [mth_nil]; exact hs.empty
  | [x] => rw [mth_single]; exact hs.leaf x
  | x :: y :: rest => rw [mth_ge2 Hs.H _ (by simp)]; exact hs.node _ _

theorem rollupLeaf_length (Hs : Hashes) (hs : Hs.Sized) (id : Bytes) (txs : List Bytes) :
    (rollupLeaf Hs id txs).length = id.length + 32 := by
  simp [rollupLeaf, treeRoot_length Hs hs]

/-! ### What `tryBuild` returns -/

theorem mkRts_content (Hs : Hashes) (leaves : List Bytes) :
    ∀ (g : Groups) (k : Nat), (mkRts Hs leaves k g).map (fun r => (r.id, r.txs)) = g := by
  intro g
  induction g with
  | nil => intro k; rfl
  | cons e rest ih => intro k; obtain ⟨id, txs⟩ := e; simp [mkRts, ih]

theorem mkRts_getElem? (Hs : Hashes) (leaves : List Bytes) :
    ∀ (g : Groups) (k i : Nat) (r : Rt), (mkRts Hs leaves k g)[i]? = some r →
      g[i]? = some (r.id, r.txs) ∧ r.proof = treeProof Hs leaves (k + i) := by
  intro g
  induction g with
  | nil => intro k i r h; simp [mkRts] at h
  | cons e rest ih =>
    intro k i r h
    obtain ⟨id, txs⟩ := e
    cases i with
    | zero =>
      simp [mkRts] at h
      subst h
      simp
    | succ j =>
      simp only [mkRts, List.getElem?_cons_succ] at h ⊢
      obtain ⟨h1, h2⟩ := ih (k + 1) j r h
      refine ⟨h1, ?_⟩
      rw [h2]; congr 1; omega

/-- The sorted groups of a block. -/
def groupsOf (inp : BuildInput) : Groups := sortGroups (groupAll inp.subs inp.deps)

theorem tryBuild_ok (Hs : Hashes) (inp : BuildInput) (b : Block) (h : tryBuild Hs inp = .ok b) :
    inp.idsRoot = treeRoot Hs (keys (groupsOf inp)) ∧
    inp.txsRoot = treeRoot Hs (rollupLeaves Hs (groupsOf inp)) ∧
    b.header.txsRoot = inp.txsRoot ∧
    b.header.dataHash = treeRoot Hs (dataLeaves Hs inp) ∧
    b.rollups = mkRts Hs (rollupLeaves Hs (groupsOf inp)) 0 (groupsOf inp) ∧
    b.txsProof = treeProof Hs (dataLeaves Hs inp) 0 ∧
    b.idsProof = treeProof Hs (dataLeaves Hs inp) 1 ∧
    b.eci = inp.eci.map (fun e => ⟨e, treeProof Hs (dataLeaves Hs inp) 2⟩) ∧
    b.blockHash = inp.blockHash := by
  unfold tryBuild at h
  simp only at h
  split at h
  · cases h
  · rename_i h1
    split at h
    · cases h
    · rename_i h2
      injection h with h
      subst h
      simp only [ne_eq, Decidable.not_not] at h1 h2
      exact ⟨h1, h2, rfl, rfl, rfl, rfl, rfl, rfl, rfl⟩

theorem content_of_built (Hs : Hashes) (inp : BuildInput) (b : Block) (h : tryBuild Hs inp = .ok b) :
    b.content = groupsOf inp := by
  obtain ⟨_, _, _, _, hr, _⟩ := tryBuild_ok Hs inp b h
  simp only [Block.content, hr]
  exact mkRts_content Hs _ _ 0

theorem ids_of_built (Hs : Hashes) (inp : BuildInput) (b : Block) (h : tryBuild Hs inp = .ok b) :
    b.ids = keys (groupsOf inp) := by
  have := content_of_built Hs inp b h
  simp only [Block.content] at this
  simp only [Block.ids, keys, ← this, List.map_map, Function.comp_def]

/-- An honest proposer (commitments computed by `generate_rollup_datas_commitment`) always
    gets a block. -/
theorem honest_builds (Hs : Hashes) (inp : BuildInput) : ∃ b, tryBuild Hs (honest Hs inp) = .ok b := by
  simp only [tryBuild, honest, commitments, rollupLeaves, ne_eq, not_true_eq_false, if_false]
  exact ⟨_, rfl⟩

/-! ### Data of a built block (C07, first sentence) -/

theorem built_data_exact (Hs : Hashes) (inp : BuildInput) (b : Block) (h : tryBuild Hs inp = .ok b) :
    (∀ r ∈ b.rollups, r.txs = expectedData inp.subs inp.deps r.id) ∧
    b.ids.Pairwise (fun x y => bytesLt x y = true) ∧
    (∀ id, id ∈ b.ids ↔ id ∈ inp.subs.map (·.1) ∨ id ∈ inp.deps.map (·.1)) := by
  have hc := content_of_built Hs inp b h
  have hi := ids_of_built Hs inp b h
  refine ⟨?_, ?_, ?_⟩
  · intro r hr
    have hm : (r.id, r.txs) ∈ groupsOf inp := by
      rw [← hc]; exact List.mem_map_of_mem (f := fun r : Rt => (r.id, r.txs)) hr
    exact sorted_groups_exact inp.subs inp.deps (r.id, r.txs) hm
  · rw [hi]
    have := sorted_sortGroups (groupAll inp.subs inp.deps) (keys_nodup_groupAll _ _)
    simp only [SortedKeys] at this
    simp only [keys, groupsOf]
    exact List.pairwise_map.mpr this
  · intro id
    rw [hi, groupsOf, mem_keys_sortGroups, mem_keys_groupAll]

/-! ### Every proof of a built block verifies (RFC 6962) -/

theorem leavesOf_tree (n : Nat) (h : 0 < n) : leavesOf (2 * n - 1) = n := by
  unfold leavesOf; omega

theorem treeProof_verifies (Hs : Hashes) (L : List Bytes) (i : Nat) (y : Bytes) (hy : L[i]? = some y) :
    rfcVerify Hs.H (treeProof Hs L i) (Hs.H.leaf y) (treeRoot Hs L) = true := by
  have hi : i < L.length := (List.getElem?_eq_some_iff.mp hy).1
  simp only [rfcVerify, treeProof, treeRoot, beq_iff_eq]
  rw [leavesOf_tree L.length (by omega)]
  exact path_complete' Hs.H L i y hy

theorem built_proofs_verify (Hs : Hashes) (inp : BuildInput) (b : Block) (h : tryBuild Hs inp = .ok b) :
    (∀ r ∈ b.rollups, rfcVerify Hs.H r.proof (Hs.H.leaf (rollupLeaf Hs r.id r.txs)) b.header.txsRoot = true) ∧
    rfcVerify Hs.H b.txsProof (Hs.H.leaf (Hs.sha b.header.txsRoot)) b.header.dataHash = true ∧
    rfcVerify Hs.H b.idsProof (Hs.H.leaf (Hs.sha (treeRoot Hs b.ids))) b.header.dataHash = true ∧
    (∀ e, b.eci = some e → rfcVerify Hs.H e.proof (Hs.H.leaf (Hs.sha e.info)) b.header.dataHash = true) := by
  obtain ⟨hids, htxs, hroot, hdh, hr, htp, hip, heci, _⟩ := tryBuild_ok Hs inp b h
  have hi := ids_of_built Hs inp b h
  refine ⟨?_, ?_, ?_, ?_⟩
  · intro r hrm
    obtain ⟨i, hi'⟩ := List.getElem?_of_mem hrm
    rw [hr] at hi'
    obtain ⟨hg, hp⟩ := mkRts_getElem? Hs _ _ 0 i r hi'
    rw [hp, hroot, htxs, Nat.zero_add]
    apply treeProof_verifies
    simp only [rollupLeaves, List.getElem?_map, hg, Option.map_some]
  · rw [htp, hdh]
    apply treeProof_verifies
    simp [dataLeaves, hroot]
  · rw [hip, hdh, hi, ← hids]
    apply treeProof_verifies
    simp [dataLeaves]
  · intro e he
    rw [heci] at he
    cases hopt : inp.eci with
    | none => rw [hopt] at he; cases he
    | some x =>
      rw [hopt] at he
      simp only [Option.map_some, Option.some.injEq] at he
      subst he
      rw [hdh]
      apply treeProof_verifies
      simp [dataLeaves, hopt]

end Astria.Block
