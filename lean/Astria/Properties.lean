import Astria.Merkle.Theorems
import Astria.Merkle.Index
import Astria.Composer.Theorems
import Astria.Quorum.Theorems
import Astria.Quorum.Median
/-
  The property theorems, and nothing else.  One block per property of
  /verif/properties.jsonl; helper lemmas live in the area modules.  Statements here are the
  ones the checks audit with `#print axioms`.
-/
namespace Astria
open Astria.Merkle Astria.Merkle.Flat

/-! ## C08 — Merkle tree: RFC 6962 roots, complete and sound proofs, total verification -/

/-- Decoding any raw proof (any path length, leaf index, tree size) returns a value: never a panic. -/
theorem C08_decode_total (r : RawProof) : ∃ v, checkRaw r = .value v := checkRaw_total r

/-- Verifying any decodable proof against any leaf and root returns `true`/`false`: never a panic,
    for every hash function. -/
theorem C08_verify_total {β α : Type} [DecidableEq α] (H : HashFns β α) (π : Proof α)
    (h : π.Checked) (leaf : β) (root : α) : ∃ b, π.verify H leaf root = .value b :=
  verify_total H π h leaf root

/-- A proof verifies only for the leaf and path it was built for: two different (leaf, path) pairs
    accepted at the same position for the same root yield an explicit hash collision. -/
theorem C08_proof_sound {β α : Type} [DecidableEq α] (H : HashFns β α) (π π' : Proof α) (x x' : β)
    (root : α) (hpos : π.leafIndex = π'.leafIndex ∧ π.treeSize = π'.treeSize)
    (hlen : π.path.length = π'.path.length)
    (h1 : π.verify H x root = .value true) (h2 : π'.verify H x' root = .value true)
    (hne : x ≠ x' ∨ π.path ≠ π'.path) : Collision H :=
  verify_sound H π π' x x' root hpos hlen h1 h2 hne

/-- Changing the claimed root makes verification return false. -/
theorem C08_root_change {β α : Type} [DecidableEq α] (H : HashFns β α) (π : Proof α) (x : β)
    (root root' : α) (h : π.verify H x root = .value true) (hne : root' ≠ root) :
    π.verify H x root' = .value false := verify_root_change H π x root root' h hne

/-- The model's loop fuel for `complete_parent` is never exhausted on `usize` indices, i.e. the
    Rust loop terminates within 64 iterations (the termination argument the crate only cites). -/
theorem C08_walk_terminates (i n : Nat) (hi : i ≤ USIZE_MAX) : completeParent i n ≠ .outOfFuel :=
  completeParent_ne_outOfFuel i n hi

/-- The pinned source violated totality (fixed by `fix:` commit a0ab6cd; DESIGN §7 F1, F2). -/
theorem C08_original_counterexamples :
    checkRawOriginal ⟨0, 2 ^ 63, 1⟩ = .panic ∧
    (checkRawOriginal ⟨32, 0, 1⟩ = .value (.ok ()) ∧ completeParent 0 1 = .noParent) :=
  ⟨checkRawOriginal_panics, verify_total_counterexample⟩


/-! ## C16 — Composer bundles each accepted transaction once, in order, within the size limit -/
section C16
open Astria.Composer

/-- For every sequence of pushes / finished-queue pops / timer pre-emptions, every maximum and
    every queue capacity: the emitted bundles, then the finished queue, then the current bundle,
    flattened, are exactly the accepted actions in acceptance order (so each accepted action is in
    exactly one bundle and order is preserved), and every bundle's accounted size is the sum of
    its actions' encoded lengths and at most the maximum. -/
theorem C16_exactly_once_in_order_within_limit (max cap : Nat) (ops : List Op) :
    let r := run max cap ops
    allActions r.emitted ++ allActions r.f.finished ++ r.f.curr.actions = r.accepted ∧
    (∀ b ∈ r.emitted ++ r.f.finished ++ [r.f.curr], b.size = sumLen b.actions ∧ b.size ≤ max) := by
  intro r
  have h := inv_run max cap ops
  have hm := run_max max cap ops
  refine ⟨h.order, ?_⟩
  intro b hb
  simp only [List.mem_append, List.mem_singleton] at hb
  rcases hb with (hb | hb) | hb
  · have := h.emittedWF b hb; rw [hm] at this; exact this
  · have := h.finishedWF b hb; rw [hm] at this; exact this
  · subst hb; have := h.currWF; rw [hm] at this; exact this

/-- An action is refused only when it alone exceeds the maximum, or it does not fit into the
    current bundle and the finished queue is full; a refused action changes nothing. -/
theorem C16_refusal (f : Factory) (a : Action) :
    ((f.tryPush a).2 ≠ .ok → (f.tryPush a).1 = f) ∧
    ((f.tryPush a).2 ≠ .ok ↔ (a.len > f.max ∨ (f.curr.size + a.len > f.max ∧ f.finished.length ≥ f.cap))) :=
  tryPush_refusal f a

/-- Non-vacuity: a run that accepts, flushes, refuses and emits. -/
example :
    let r := run 10 1 [.push ⟨1, 6⟩, .push ⟨2, 6⟩, .push ⟨3, 6⟩, .push ⟨4, 11⟩, .popFinished, .popNow]
    r.accepted = [⟨1, 6⟩, ⟨2, 6⟩] ∧ r.emitted.length = 2 := by decide

end C16


/-! ## C09 — Conductor accepts firm data only if >2/3 voting power committed the block -/
section C09
open Astria.Quorum

/-- The quorum threshold is exactly "strictly more than two thirds". -/
theorem C09_quorum_exact (c t : Nat) : hasQuorum c t = true ↔ 3 * c > 2 * t := hasQuorum_exact c t

/-- For every validator set, commit and signature oracle: if `ensure_commit_has_quorum` accepts,
    the commit's height equals the validator set's and there is a duplicate-free list of
    validators of the set, each with a signature in the commit that verifies under its own key,
    holding strictly more than two thirds of the total voting power. -/
theorem C09_accept_sound (sigOk : Nat → Nat → Bool) (hm : Bool) (vals : List Validator)
    (sigs : List CommitSig) (h : ensureQuorum sigOk hm vals sigs = .ok ()) :
    hm = true ∧ ∃ total, totalPower vals = some total ∧ ∃ S : List Nat, S.Nodup ∧
      (∀ a ∈ S, ∃ v s, lookup vals a = some v ∧ CommitSig.commit a (some s) ∈ sigs ∧ sigOk v.key s = true) ∧
      3 * powerOf vals S > 2 * total := ensureQuorum_sound sigOk hm vals sigs h

/-- Metadata is kept only if the commit has quorum and chain id and block hash equal the commit's. -/
theorem C09_metadata_bound (q c hsh : Bool) (h : acceptMetadata q c hsh = true) :
    q = true ∧ c = true ∧ hsh = true := acceptMetadata_sound q c hsh h

/-- The pinned source violated the statement in three ways (fixed by `fix:` commits 71ea661 and
    c1a8dd4): 3 of 5 passed the threshold; a hash mismatch was only logged. (Duplicate counting:
    see the replay in corpus/quorum.ops.) -/
theorem C09_original_counterexamples :
    (hasQuorumOriginal 3 5 = true ∧ ¬ (3 * 3 > 2 * 5)) ∧ acceptMetadataOriginal true true false = true :=
  ⟨hasQuorumOriginal_counterexample, acceptMetadataOriginal_counterexample⟩

/-- Non-vacuity: 4 validators, 3 distinct valid signatures are accepted; the same signature
    three times is not. -/
example :
    ensureQuorum (fun k s => k == s) true [⟨1, 1⟩, ⟨2, 1⟩, ⟨3, 1⟩, ⟨4, 1⟩]
      [.commit 1 (some 1), .commit 2 (some 2), .other, .commit 4 (some 4)] = .ok () ∧
    ensureQuorum (fun k s => k == s) true [⟨1, 1⟩, ⟨2, 1⟩, ⟨3, 1⟩, ⟨4, 1⟩]
      [.commit 1 (some 1), .commit 1 (some 1), .commit 1 (some 1)] = .error .duplicateVote := by decide

end C09

/-! ## C15 — Oracle prices need >2/3 validly signed extensions and stay within reported range -/
section C15
open Astria.Quorum

/-- The vote-extension threshold `submitted ≥ 2·total/3 + 1` is exactly "strictly more than 2/3". -/
theorem C15_threshold (s t : Nat) : s ≥ t * 2 / 3 + 1 ↔ 3 * s > 2 * t := ve_threshold s t

/-- A proposal carrying a non-empty extended commit (height > 1) is accepted only if the rounds
    match, the extended commit matches the last commit entry by entry (address, power, flag —
    or an absent vote without extension), voters are distinct, every commit-flagged vote is
    signed validly under the key stored for the validator it is attributed to, every other vote
    carries neither extension nor signature, and the signers hold strictly more than two thirds
    of the listed voting power. -/
theorem C15_accept_sound (sigOk : Nat → Nat → Bool) (keyOf : Nat → Option Nat) (height : Nat)
    (rm : Bool) (last : List LastVote) (ext : List ExtVote) (hh : height ≠ 1) (hne : ext ≠ [])
    (h : validateProposal sigOk keyOf height rm last ext = .ok ()) :
    rm = true ∧ last.length = ext.length ∧
    (∀ i (h1 : i < last.length) (h2 : i < ext.length),
        last[i].addr = ext[i].addr ∧ last[i].power = ext[i].power ∧
        (ext[i].flag = last[i].flag ∨ (ext[i].flag = .absent ∧ ext[i].extEmpty = true ∧ ext[i].sig = none))) ∧
    (ext.map (·.addr)).Nodup ∧
    (∀ v ∈ ext, (v.flag = .commit → ∃ k s, keyOf v.addr = some k ∧ v.sig = some s ∧ sigOk k s = true) ∧
                (v.flag ≠ .commit → v.extEmpty = true ∧ v.sig = none)) ∧
    3 * sumCommitPower ext > 2 * sumPower ext := by
  obtain ⟨h1, h2, h3, h4⟩ := validateProposal_sound sigOk keyOf height rm last ext hh hne h
  obtain ⟨h5, h6, h7⟩ := validateVoteExtensions_sound sigOk keyOf ext h4
  exact ⟨h1, h2, againstLastLoop_sound last ext h2 h3, h5, h6, h7⟩

/-- An empty extended commit is always acceptable. -/
theorem C15_empty_ok (sigOk : Nat → Nat → Bool) (keyOf : Nat → Option Nat) (height : Nat)
    (last : List LastVote) : validateProposal sigOk keyOf height true last [] = .ok () :=
  empty_extended_commit_ok sigOk keyOf height last

/-- Each published price (the median) exists for a non-empty report list and lies between two
    reported prices, hence between the smallest and the largest. -/
theorem C15_median_in_range (ps : List Int) (hne : ps ≠ []) :
    ∃ m, median ps = some m ∧ ∃ a ∈ ps, ∃ b ∈ ps, a ≤ m ∧ m ≤ b := median_in_range ps hne

/-- The pinned `median` left the range for negative odd pairs (fixed by `fix:` commit 933c6c9). -/
theorem C15_original_counterexample :
    medianOriginal [-3, -3] = some (-2) ∧ ¬ (∃ b ∈ [(-3 : Int), -3], (-2 : Int) ≤ b) :=
  medianOriginal_counterexample

/-- OBSERVATION (recorded in DESIGN §10; none of the 18 properties speaks about it): the check
    that admits a vote extension (`verify_vote_extension`: every price at most 33 bytes) is
    weaker than the decoder that FinalizeBlock later applies to the same bytes (`Price::try_from`:
    exactly 16 bytes) — lengths 0–15 and 17–33 are admitted but not decodable. The `pricelen`
    lines of the vote-extension harness tie both functions to the code. -/
theorem C15_observation_admitted_price_not_decodable :
    ∃ n, Quorum.verifyAcceptsPriceLen n = true ∧ Quorum.priceDecodes n = false := ⟨17, by decide⟩

/-- …and the two agree exactly on 16-byte prices and on anything longer than 33 bytes. -/
theorem C15_price_length_consistent_iff (n : Nat) :
    (Quorum.verifyAcceptsPriceLen n = true ∧ Quorum.priceDecodes n = false) ↔ (n ≤ 33 ∧ n ≠ 16) := by
  unfold Quorum.verifyAcceptsPriceLen Quorum.priceDecodes Quorum.MAX_PRICE_BYTES
  constructor
  · rintro ⟨h1, h2⟩; exact ⟨by simpa using h1, by simpa using h2⟩
  · rintro ⟨h1, h2⟩; exact ⟨by simpa using h1, by simpa using h2⟩

end C15

end Astria
