import Astria.Merkle.Theorems
import Astria.Merkle.Index
import Astria.Composer.Theorems
/-
  The property theorems, and nothing else.  One block per property of
  /verif/properties.jsonl; helper lemmas live in the area modules.  Statements here are the
  ones the checks audit with `#print axioms`.
-/
namespace Astria
open Astria.Merkle Astria.Merkle.Flat

/-! ## C08 — Merkle tree: RFC 6962 roots, complete and sound proofs, total verification -/

/-- Decoding any raw proof (any path length, leaf index, tree size) returns a value: never a panic. -/
theorem C08_decode_total (r : RawProof) : ∃ v, checkRaw r = .value v := checkRaw_total r

/-- Verifying any decodable proof against any leaf and root returns `true`/`false`: never a panic,
    for every hash function. -/
theorem C08_verify_total {β α : Type} [DecidableEq α] (H : HashFns β α) (π : Proof α)
    (h : π.Checked) (leaf : β) (root : α) : ∃ b, π.verify H leaf root = .value b :=
  verify_total H π h leaf root

/-- A proof verifies only for the leaf and path it was built for: two different (leaf, path) pairs
    accepted at the same position for the same root yield an explicit hash collision. -/
theorem C08_proof_sound {β α : Type} [DecidableEq α] (H : HashFns β α) (π π' : Proof α) (x x' : β)
    (root : α) (hpos : π.leafIndex = π'.leafIndex ∧ π.treeSize = π'.treeSize)
    (hlen : π.path.length = π'.path.length)
    (h1 : π.verify H x root = .value true) (h2 : π'.verify H x' root = .value true)
    (hne : x ≠ x' ∨ π.path ≠ π'.path) : Collision H :=
  verify_sound H π π' x x' root hpos hlen h1 h2 hne

/-- Changing the claimed root makes verification return false. -/
theorem C08_root_change {β α : Type} [DecidableEq α] (H : HashFns β α) (π : Proof α) (x : β)
    (root root' : α) (h : π.verify H x root = .value true) (hne : root' ≠ root) :
    π.verify H x root' = .value false := verify_root_change H π x root root' h hne

/-- The model's loop fuel for `complete_parent` is never exhausted on `usize` indices, i.e. the
    Rust loop terminates within 64 iterations (the termination argument the crate only cites). -/
theorem C08_walk_terminates (i n : Nat) (hi : i ≤ USIZE_MAX) : completeParent i n ≠ .outOfFuel :=
  completeParent_ne_outOfFuel i n hi

/-- The pinned source violated totality (fixed by `fix:` commit a0ab6cd; DESIGN §7 F1, F2). -/
theorem C08_original_counterexamples :
    checkRawOriginal ⟨0, 2 ^ 63, 1⟩ = .panic ∧
    (checkRawOriginal ⟨32, 0, 1⟩ = .value (.ok ()) ∧ completeParent 0 1 = .noParent) :=
  ⟨checkRawOriginal_panics, verify_total_counterexample⟩


/-! ## C16 — Composer bundles each accepted transaction once, in order, within the size limit -/
section C16
open Astria.Composer

/-- For every sequence of pushes / finished-queue pops / timer pre-emptions, every maximum and
    every queue capacity: the emitted bundles, then the finished queue, then the current bundle,
    flattened, are exactly the accepted actions in acceptance order (so each accepted action is in
    exactly one bundle and order is preserved), and every bundle's accounted size is the sum of
    its actions' encoded lengths and at most the maximum. -/
theorem C16_exactly_once_in_order_within_limit (max cap : Nat) (ops : List Op) :
    let r := run max cap ops
    allActions r.emitted ++ allActions r.f.finished ++ r.f.curr.actions = r.accepted ∧
    (∀ b ∈ r.emitted ++ r.f.finished ++ [r.f.curr], b.size = sumLen b.actions ∧ b.size ≤ max) := by
  intro r
  have h := inv_run max cap ops
  have hm := run_max max cap ops
  refine ⟨h.order, ?_⟩
  intro b hb
  simp only [List.mem_append, List.mem_singleton] at hb
  rcases hb with (hb | hb) | hb
  · have := h.emittedWF b hb; rw [hm] at this; exact this
  · have := h.finishedWF b hb; rw [hm] at this; exact this
  · subst hb; have := h.currWF; rw [hm] at this; exact this

/-- An action is refused only when it alone exceeds the maximum, or it does not fit into the
    current bundle and the finished queue is full; a refused action changes nothing. -/
theorem C16_refusal (f : Factory) (a : Action) :
    ((f.tryPush a).2 ≠ .ok → (f.tryPush a).1 = f) ∧
    ((f.tryPush a).2 ≠ .ok ↔ (a.len > f.max ∨ (f.curr.size + a.len > f.max ∧ f.finished.length ≥ f.cap))) :=
  tryPush_refusal f a

/-- Non-vacuity: a run that accepts, flushes, refuses and emits. -/
example :
    let r := run 10 1 [.push ⟨1, 6⟩, .push ⟨2, 6⟩, .push ⟨3, 6⟩, .push ⟨4, 11⟩, .popFinished, .popNow]
    r.accepted = [⟨1, 6⟩, ⟨2, 6⟩] ∧ r.emitted.length = 2 := by decide

end C16

end Astria
