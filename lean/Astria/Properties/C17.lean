import Astria.Block.Reencode
import Astria.Properties.C07
/-
  C17 — Untrusted wire data never panics a decoder; accepted values are self-consistent.

  The part Lean carries is the validation glue between the prost-decoded raw structs and the
  checked domain types (the byte layer — prost, brotli, serde — is explored by the harness, not
  proved).  `flatCtx` is the context whose proof verifier is astria-merkle's index walk, the one
  that panics when it is handed an unchecked proof.
-/
namespace Astria
open Astria.Merkle Astria.Block

instance {ε α : Type} [DecidableEq ε] [DecidableEq α] : DecidableEq (Except ε α) := fun a b =>
  match a, b with
  | .ok x, .ok y => if h : x = y then isTrue (by rw [h]) else isFalse (fun e => h (by injection e))
  | .error x, .error y => if h : x = y then isTrue (by rw [h]) else isFalse (fun e => h (by injection e))
  | .ok _, .error _ => isFalse (fun e => by cases e)
  | .error _, .ok _ => isFalse (fun e => by cases e)

/-- **decode_total.**  For every raw value (any field missing, any length, any proof index /
    size / path) each `try_from_raw` of the proof-carrying messages returns `Ok` or `Err`: the
    glue never reaches a panicking operation, for every hash function. -/
theorem C17_decode_total (Hs : Hashes) (eciOk : Bytes → EciCheck) (fix : Bool) :
    (∀ r : RawProof, ∃ v, decodeProof r = .value v) ∧
    (∀ r : BlockRaw, ∃ v, fullFromRaw (flatCtx Hs eciOk fix) r = .value v) ∧
    (∀ r : FilteredRaw, ∃ v, filteredFromRaw (flatCtx Hs eciOk fix) r = .value v) ∧
    (∀ r : MetaRaw, ∃ v, metaFromRaw (flatCtx Hs eciOk fix) r = .value v) ∧
    (∀ r : BlobRaw, ∃ v, blobFromRaw r = .value v) :=
  ⟨decodeProof_total, fullFromRaw_total Hs eciOk fix, filteredFromRaw_total Hs eciOk fix,
   metaFromRaw_total Hs eciOk fix, blobFromRaw_total⟩

/-- **accepted_consistent.**  A filtered block, a metadata value accepted by `try_from_raw`
    satisfies the type's stated checks: the rollup-transactions root and the list of rollup ids
    are proven under the header's data hash and (filtered block) every rollup's data is proven
    under the rollup-transactions root; lengths are as the types require. -/
theorem C17_accepted_consistent (c : Ctx) :
    (∀ r f, filteredFromRaw c r = .value (.ok f) → FilteredAccepted c f) ∧
    (∀ r m, metaFromRaw c r = .value (.ok m) → MetaAccepted c m) ∧
    (∀ r b, blobFromRaw r = .value (.ok b) → b.id.length = 32) :=
  ⟨filteredFromRaw_accepted c, metaFromRaw_accepted c, blobFromRaw_ok⟩

/-- For the full block the same holds for the block-level checks (`_partial`: at the pinned commit the
    per-rollup proofs were not among them — next theorem, finding FB1). -/
theorem C17_accepted_consistent_full_partial (c : Ctx) (r : BlockRaw) (b : Block)
    (h : fullFromRaw c r = .value (.ok b)) : FullAccepted c b := fullFromRaw_accepted c r b h

/-- With the repair `fix:` 52f5ed5 (= `/verif/proposed_fixes/FB1.diff`; model switch `fullChecksRts`, which the driver sets to `true`) the full block is
    consistent too: every per-rollup proof of an accepted block verifies against its root. -/
theorem C17_accepted_consistent_full_fixed (c : Ctx) (hfix : c.fullChecksRts = true) (r : BlockRaw) (b : Block)
    (h : fullFromRaw c r = .value (.ok b)) :
    ∀ x ∈ b.rollups, rtMatchesRoot c x.id x.txs x.proof b.header.txsRoot = .value true :=
  fullFromRaw_rts_verified c hfix r b h

/-- The example block of C07 with the proof of its first rollup replaced by a different path of
    the right length: accepted by the full-block receiver, although that proof does not verify
    against the rollup-transactions root (and the filtered-block receiver rejects the same entry). -/
def fullBlockUncheckedProof : Bool :=
  match tryBuild toyHs (honest toyHs exInput) with
  | .error _ => false
  | .ok b =>
    match b.rollups with
    | r0 :: rest =>
      let bad : Rt := { r0 with proof := { r0.proof with path := r0.proof.path.map fun _ => List.replicate 32 7 } }
      let b' : Block := { b with rollups := bad :: rest }
      let c := flatCtx toyHs (fun _ => .ok)
      fullFromRaw c b'.toRaw == .value (.ok b') &&
      fullFromRaw (flatCtx toyHs (fun _ => .ok) true) b'.toRaw == .value (.error .txsNotInBlock) &&
      rtMatchesRoot c bad.id bad.txs bad.proof b'.header.txsRoot == .value false &&
      (match filteredFromRaw c (toFiltered b' [bad.id]).toRaw with
        | .value (.error (.txsForIdNotInBlock _)) => true
        | _ => false)
    | [] => false

/-- **Not true of the unchanged `SequencerBlock::try_from_raw`** (finding FB1): the per-rollup
    Merkle proofs of an accepted full block are never verified. -/
theorem C17_full_block_rollup_proofs_counterexample : fullBlockUncheckedProof = true := by decide +kernel

/-- **reencode.**  Whatever a receiver accepts re-encodes to a raw message that is accepted again
    and yields the same value; for metadata and rollup blobs the re-encoding is the received
    message itself. -/
theorem C17_reencode (c : Ctx) :
    (∀ r b, fullFromRaw c r = .value (.ok b) → fullFromRaw c b.toRaw = .value (.ok b)) ∧
    (∀ r f, filteredFromRaw c r = .value (.ok f) → filteredFromRaw c f.toRaw = .value (.ok f)) ∧
    (∀ r m, metaFromRaw c r = .value (.ok m) → m.toRaw = r) ∧
    (∀ r b, blobFromRaw r = .value (.ok b) → b.toRaw = r) :=
  ⟨full_reencode c, filtered_reencode c, meta_toRaw c, blob_toRaw⟩

/-- **Transactions.**  An accepted transaction's signature verifies over exactly the body bytes
    it carries under the key it carries, its body is a valid `TransactionBody`, and it re-encodes
    to the message it was decoded from — for every signature / key / body oracle. -/
theorem C17_transaction_consistent (o : TxOracles) (r : TxRaw) (t : Tx) (h : txFromRaw o r = .ok t) :
    o.sigOk t.key t.bodyBytes t.signature = true ∧ o.keyOk t.key = true ∧
    o.bodyOk t.typeUrl t.bodyBytes = true ∧ t.toRaw o = r ∧ txFromRaw o (t.toRaw o) = .ok t :=
  tx_accepted_consistent o r t h

/-! ### Non-vacuity -/

/-- the example block round-trips through both verifiers; with a truncated txs proof it is rejected -/
example : (match tryBuild toyHs (honest toyHs exInput) with
    | .ok b =>
      fullFromRaw (flatCtx toyHs fun _ => .ok) b.toRaw == .value (.ok b) &&
      fullFromRaw (rfcCtx toyHs fun _ => .ok) b.toRaw == .value (.ok b) &&
      metaFromRaw (flatCtx toyHs fun _ => .ok) (split b).1.toRaw == .value (.ok (split b).1) &&
      fullFromRaw (flatCtx toyHs fun _ => .ok) { b.toRaw with txsProof := none } == .value (.error (.fieldNotSet "rollup_transactions_proof")) &&
      fullFromRaw (flatCtx toyHs fun _ => .ok)
        { b.toRaw with idsProof := some ⟨[], 2 ^ 63, 1⟩ } == .value (.error (.idsProof .leafIndexOutsideTree))
    | .error _ => false) = true := by decide +kernel

end Astria
