import Astria.Ledger.Escrow
/-
  C18 — IBC transfers: exact escrow accounting; a failed receive has no side effects.
-/
namespace Astria
open Astria.Ledger

/-- An incoming packet that cannot be fully applied (unparsable recipient, disallowed asset,
    disabled or mismatched bridge, bad memo, insufficient escrow, balance overflow) is
    acknowledged with an error and changes nothing: no balance, no escrow, no deposit, no
    deposit event, no asset registration. -/
theorem C18_recv_all_or_nothing (s : State) (p : RecvPacket) (h : (recvPacket s p).1 = false) :
    (recvPacket s p).2 = s := recvPacket_all_or_nothing s p h

/-- A release from escrow succeeds only if the amount is there, and then decreases the escrow of
    exactly that (channel, asset) by exactly that amount: an incoming transfer or a refund can
    never release more than is escrowed. -/
theorem C18_release_bounded (s s' : State) (c : Nat) (a : String) (n : Nat)
    (h : applyEffect s (.escSub c a n) = some s') :
    n ≤ getN s.esc (c, a) ∧ getN s'.esc (c, a) = getN s.esc (c, a) - n := escSub_bounded s s' c a n h

/-- Escrow, balances and block fees together change by exactly the minted amount on receive
    (see C01): for an asset coming home the escrow decrease equals the credit. -/
theorem C18_recv_exact (s s' : State) (p : RecvPacket) (ok : Bool) (a : String)
    (h : recvPacket s p = (ok, s')) :
    (total s' a : Int) = total s a +
      (if ok = true ∧ hasLeading p.denom p.srcChan = false ∧ recvAsset p = a then (p.amount : Int) else 0) :=
  recvPacket_total s s' p ok a h

/-- The escrow identity, for every channel and asset, along EVERY history (transactions valid or
    failing, packets acknowledged or rejected, refunds, block ends) from any state: escrow now +
    everything returned or refunded over the channel = escrow at the start + everything sent out
    over it. -/
theorem C18_escrow_identity (k : Nat × String) (ops : List Op) (s : State) :
    getN (run s ops).esc k + totalReturned k s ops = getN s.esc k + totalSent k s ops :=
  escrow_identity k ops s

/-- The pinned handler kept the effects made before the failing step (fixed by `fix:` commit
    5215c1f; replay in corpus/ledger.ops). -/
theorem C18_original_counterexample :
    let s : State := { postAspen := true, postBlackburn := true, sudo := "s", ibcSudo := "i" }
    let d : Deposit := ⟨"b0", 1, "nria", 500, 11, 0⟩
    let r := applyEffectsPartial s [.deposit d, .escSub 0 "nria" 500, .credit "b0" "nria" 500]
    r.1 = false ∧ r.2.deposits.length = 1 := recvPacketOriginal_counterexample

end Astria
