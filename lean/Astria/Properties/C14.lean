import Astria.Ledger.Validators
import Astria.Ledger.ValCount
/-
  C14 — Validator set given to CometBFT mirrors the application's and is never empty.
  The mirror (as a map) is proved for every sequence of updates; applicability of the returned
  batch is FALSE of the unchanged code in two corners (open findings F7a, F7b), kept as
  counterexample theorems.
-/
namespace Astria
open Astria.Ledger

/-- Post-Aspen, from the start of a block (no pending updates; CometBFT's set equals the stored
    one) through any sequence of executed validator updates — several per block, repeated keys,
    add-then-remove, remove-then-add, power changes — the update batch the application returns at
    the end of the block, applied to CometBFT's set as a map, yields exactly the set the
    application stores; and the batch has one entry per key. -/
theorem C14_mirror (comet : List (String × Nat)) (ups : List (String × Nat)) (s s' : State)
    (hpost : s.postAspen = true) (hstart : s.valUpdates = []) (hcomet : s.vals = comet)
    (h : applyEffects s (ups.map fun e => Effect.valUpdate e.1 e.2) = some s') :
    (∀ k, lookup (applyValUpdates comet s'.valUpdates) k = lookup s'.vals k) ∧
    (s'.valUpdates.map (·.1)).Nodup := by
  apply mirror_block comet ups s s' hpost _ _ h
  · rw [hstart, hcomet]; exact mirror_start comet
  · rw [hstart]; exact List.nodup_nil

/-- Pre-Aspen the application computes its new set by the very computation CometBFT performs. -/
theorem C14_mirror_pre_aspen (s : State) (h : s.postAspen = false) :
    (authorityEndBlock s).vals = applyValUpdates s.vals s.valUpdates := mirror_pre_aspen s h

/-- The Aspen upgrade (migration of the validator storage) keeps the validator set and makes the
    stored count equal to its size. -/
theorem C14_aspen_migration_preserves (s : State) (pairs markets : List (String × Nat)) :
    (aspenUpgrade s pairs markets).vals = s.vals ∧
    (aspenUpgrade s pairs markets).valCount = s.vals.length ∧
    (aspenUpgrade s pairs markets).valUpdates = s.valUpdates := ⟨rfl, rfl, rfl⟩

/-- Whenever CometBFT accepts a batch, its new set is the batch applied as a map (so with
    `C14_mirror` it equals the stored set). -/
theorem C14_accepted_batch_mirrors (ups set r : List (String × Nat))
    (h : cometApply set ups = some r) : r = applyValUpdates set ups := cometApply_result ups set r h

/-- **Count = size, never empty — every history, post-Aspen.**  From any state whose validator
    storage is well formed (distinct keys, stored count = size, not empty), along every sequence
    of transactions (any signers and bundles; taking effect or failing), ICS20 packets and block
    ends, the storage stays well formed: in particular the stored count always equals the size of
    the stored set and the set is never emptied (a removal is refused unless more than one
    validator remains).  Side condition: room for the validators the history could add (the
    count saturates at u64::MAX). -/
theorem C14_count_and_nonempty_history (ops : List Op) (s : State) (hpost : s.postAspen = true)
    (hinv : ValInv s) (hsmall : s.vals.length + totalActions ops ≤ U64_MAX) :
    ValInv (run s ops) ∧ (run s ops).postAspen = true :=
  valinv_history ops s hpost hinv hsmall

/-- The Aspen migration establishes the well-formedness that the theorem above starts from, for
    any pre-Aspen set with distinct keys that is not empty. -/
theorem C14_aspen_establishes_count (s : State) (pairs markets : List (String × Nat))
    (hnd : (s.vals.map (·.1)).Nodup) (hpos : 0 < s.vals.length) :
    ValInv (aspenUpgrade s pairs markets) ∧ (aspenUpgrade s pairs markets).postAspen = true :=
  ⟨⟨hnd, rfl, hpos⟩, rfl⟩

/-- Non-vacuity: the harness genesis storage is well formed, and removing two of its three
    validators in one history is refused at the second removal. -/
example :
    let s : State := { postAspen := true, postBlackburn := true, sudo := "s", ibcSudo := "i",
                       vals := [("va", 10), ("vb", 10)], valCount := 2 }
    ValInv s ∧
    (run s [Op.tx ⟨"s", 0, [.valUpdate "va" 0]⟩, Op.tx ⟨"s", 1, [.valUpdate "vb" 0]⟩, Op.endBlock]).vals = [("vb", 10)] := by
  refine ⟨⟨by decide, rfl, by decide⟩, by decide⟩

/-- OPEN FINDING F7a: "every update batch is one CometBFT can apply" is false of the unchanged
    code — a key added and removed within one block is returned as a removal of a validator
    CometBFT never had. -/
theorem C14_add_then_remove_counterexample :
    let s0 : State := { postAspen := true, postBlackburn := true, sudo := "s", ibcSudo := "i",
                        vals := [("va", 10), ("vb", 10)], valCount := 2 }
    ∃ s1 s2, applyEffect s0 (.valUpdate "v0" 10) = some s1 ∧ applyEffect s1 (.valUpdate "v0" 0) = some s2 ∧
      s2.valUpdates = [("v0", 0)] ∧ cometApply s0.vals s2.valUpdates = none := add_then_remove_counterexample

/-- OPEN FINDING F7b: pre-Aspen, two removals in one block are both checked against the
    start-of-block set and can empty it. -/
theorem C14_double_removal_counterexample :
    let s0 : State := { postAspen := false, postBlackburn := false, sudo := "s", ibcSudo := "i",
                        vals := [("va", 10), ("vb", 10)] }
    mutableOk s0 "s" (.valUpdate "va" 0) = true ∧
    (∃ s1, applyEffect s0 (.valUpdate "va" 0) = some s1 ∧ mutableOk s1 "s" (.valUpdate "vb" 0) = true ∧
      ∃ s2, applyEffect s1 (.valUpdate "vb" 0) = some s2 ∧ (authorityEndBlock s2).vals = []) :=
  double_removal_counterexample

end Astria
