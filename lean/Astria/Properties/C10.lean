import Astria.Conductor.Model
import Astria.Conductor.Spec
import Astria.Conductor.Theorems
/-
  C10 — Conductor executes each height once, in order, under any soft/firm interleaving.

  The property theorems, and nothing else; lemmas live in Astria/Conductor/Theorems.lean.
  `run cfg ops` is the model of the executor (Astria/Conductor/Model.lean, tied to
  crates/astria-conductor/src/executor/mod.rs by the correspondence run of `bin/check C10`)
  against a contract-enforcing rollup, over an arbitrary list `ops` of deliveries
  `soft h` / `firm h celestiaHeight` with arbitrary heights.  `Accepted cfg evs` is the decidable
  C10 acceptor of Astria/Conductor/Spec.lean; the check evaluates the very same acceptor on the
  histories reported by the real executor.
-/
namespace Astria
open Astria.Conductor

/-! ## C10 -/
section C10

/-- For every well-formed session (any commit level, any start offsets, any initial firm/soft
    commitment) and EVERY sequence of deliveries the readers can make (any heights: duplicates,
    stale, gapped, firm before soft, long soft leads), the history the executor produces is
    accepted by the C10 acceptor. -/
theorem C10_model_accepted (cfg : Cfg) (hwf : cfg.WF) (ops : List Op)
    (hadm : ∀ op ∈ ops, op.admissible cfg.mode = true) : Accepted cfg (run cfg ops).2 :=
  model_accepted cfg hwf ops hadm

/-- What acceptance means, for ANY history (in particular the ones the real executor produced and
    the check's monitor accepted): every `ExecuteBlock` request was answered; the calls carry
    the strictly consecutive sequencer heights `start, start+1, …` where `start` is the height
    following the session's initial soft commitment; each call is made on the block produced by
    the previous call (the first on the initial soft block) and each produced block records the
    height it was executed from; the commitment states sent never decrease and firm ≤ soft. -/
theorem C10_accepted_history_in_order (cfg : Cfg) (evs : List Event) (h : Accepted cfg evs) :
    execRequests (allRpcs evs) = (execCalls (allRpcs evs)).length ∧
    (execCalls (allRpcs evs)).map (·.seq)
      = List.range' (nextSeq cfg cfg.soft0) (execCalls (allRpcs evs)).length ∧
    Chained (initSoft cfg).id (execCalls (allRpcs evs)) ∧
    (∀ k (hk : k + 1 < (execCalls (allRpcs evs)).length),
      (execCalls (allRpcs evs))[k + 1].parent = (execCalls (allRpcs evs))[k].blk.id) ∧
    (∀ c ∈ execCalls (allRpcs evs), c.blk.seq = c.seq) ∧
    Monotone (initCommit cfg) (updates (allRpcs evs)) := by
  obtain ⟨h1, h2, h3, h4⟩ := accepted_exec_in_order cfg evs h
  exact ⟨h1, h2, h3, chained_index _ _ h3, h4, accepted_commitments cfg evs h⟩

/-- In any accepted history, an `UpdateCommitmentState` caused by a firm delivery for sequencer
    height `hh` names as firm a block executed from exactly that height — an initial block of the
    session or the answer to this history's `ExecuteBlock` call for `hh` — and carries the
    delivery's Celestia height. -/
theorem C10_accepted_firm_names_executed_block (cfg : Cfg) (before after : List Event) (e : Event)
    (h : Accepted cfg (before ++ e :: after)) (hh c : Nat) (hop : e.op = .firm hh c)
    (f s : Blk) (cc : Nat) (r : Res Unit) (hmem : Rpc.update f s cc r ∈ e.rpcs) :
    f.seq = hh ∧ cc = c ∧
    (f ∈ initBlocks cfg ∨
      ∃ call ∈ execCalls (allRpcs (before ++ e :: after)), call.blk = f ∧ call.seq = hh) :=
  accepted_firm_names_executed cfg before after e h hh c hop f s cc r hmem

/-- In any accepted history, out-of-order and duplicate deliveries are never executed: a soft
    block whose height is not `start + (ExecuteBlock calls so far)` causes no RPC at all (silently
    dropped if below, an error if above), and so does a firm block whose height is not the one
    following the current firm commitment (an error). -/
theorem C10_accepted_bad_delivery_not_executed (cfg : Cfg) (before after : List Event) (e : Event)
    (h : Accepted cfg (before ++ e :: after)) :
    (∀ hh, e.op = .soft hh →
        hh ≠ nextSeq cfg cfg.soft0 + (execCalls (allRpcs before)).length →
        e.rpcs = [] ∧
        (hh < nextSeq cfg cfg.soft0 + (execCalls (allRpcs before)).length → e.res = .dropped) ∧
        (hh > nextSeq cfg cfg.soft0 + (execCalls (allRpcs before)).length → e.res.isErr = true)) ∧
    (∀ hh c, e.op = .firm hh c →
        hh ≠ nextSeq cfg (lastCommit (initCommit cfg) (updates (allRpcs before))).firm.number →
        e.rpcs = [] ∧ e.res.isErr = true) :=
  accepted_not_executed cfg before after e h

/-- The statement of C10 for the executor model, all at once: for every well-formed session and
    every delivery sequence, the `ExecuteBlock` calls have the strictly consecutive sequencer
    heights starting at the session start, every request is answered, each call builds on the
    block of the previous one, and the commitment updates are monotone with firm ≤ soft. -/
theorem C10_exec_once_in_order (cfg : Cfg) (hwf : cfg.WF) (ops : List Op)
    (hadm : ∀ op ∈ ops, op.admissible cfg.mode = true) :
    let calls := execCalls (allRpcs (run cfg ops).2)
    execRequests (allRpcs (run cfg ops).2) = calls.length ∧
    calls.map (·.seq) = List.range' (nextSeq cfg cfg.soft0) calls.length ∧
    Chained (initSoft cfg).id calls ∧
    (∀ k (hk : k + 1 < calls.length), calls[k + 1].parent = calls[k].blk.id) ∧
    Monotone (initCommit cfg) (updates (allRpcs (run cfg ops).2)) := by
  obtain ⟨h1, h2, h3, h4, _, h6⟩ :=
    C10_accepted_history_in_order cfg _ (model_accepted cfg hwf ops hadm)
  exact ⟨h1, h2, h3, h4, h6⟩

/-- `run_event_loop` over channels that were filled beforehand (firm first — the `select!` is
    biased —, soft only while the soft/firm spread is below the look-ahead, exit on the first
    error) is one particular delivery sequence: replaying the deliveries it made through `runFrom`
    gives the same events and final state, so the theorems above cover it. -/
theorem C10_event_loop_is_a_delivery_sequence (s : Sys) (fl : List (Nat × Nat)) (sl : List Nat) :
    runFrom s ((runLoop s fl sl).2.2.1.map (·.op)) = ((runLoop s fl sl).1, (runLoop s fl sl).2.2.1) :=
  runLoop_is_run s fl sl

/-- In any state whatsoever, a soft block that is not the expected height changes nothing and
    causes no RPC: it is dropped (`Ok`) if stale and an error if ahead; a firm block that is not
    the expected height is an error, changes nothing and causes no RPC. -/
theorem C10_unexpected_delivery_is_noop (s : Sys) (h cel : Nat) :
    (h ≠ s.nextSoft →
      step s (.soft h) = (s, ⟨if h < s.nextSoft then .dropped else .err .outOfOrder, []⟩)) ∧
    (h ≠ s.nextFirm → step s (.firm h cel) = (s, ⟨.err .heightMismatch, []⟩)) :=
  ⟨soft_unexpected_noop s h, firm_unexpected_noop s h cel⟩

/-- `BlockCache`: for every sequence of `insert` / `pop` / `drop_obsolete`, the heights handed
    out by `pop` are strictly increasing and never below the starting next height; without a
    `drop_obsolete` in between they are exactly `next, next+1, next+2, …`; each pop hands out the
    block stored at the next height and advances it by one; blocks below the next height are
    refused. -/
theorem C10_cache_sequential (c : Cache) (ops : List COp) :
    (poppedHeights (c.run ops).2).Pairwise (· < ·) ∧
    (∀ h ∈ poppedHeights (c.run ops).2, c.next ≤ h) ∧
    ((∀ op ∈ ops, op.isDrop = false) →
      poppedHeights (c.run ops).2 = List.range' c.next (poppedHeights (c.run ops).2).length) ∧
    (∀ op h tag, (c.step op).2 = .popped h tag →
      h = c.next ∧ (c.step op).1.next = c.next + 1 ∧ (h, tag) ∈ c.inner) ∧
    (∀ h tag, h < c.next → c.insert h tag = .error .old) := by
  obtain ⟨h1, h2, _⟩ := cache_run_increasing c ops
  exact ⟨h1, h2, cache_run_sequential c ops, fun op => (cache_step_next c op).2.1,
    fun h tag => (cache_insert_refuses c h tag).1⟩

/-- Non-vacuity: a soft-and-firm session starting at sequencer height 10 / rollup block 3 with
    duplicates, a gap, and firm blocks both behind and ahead of soft. Heights 10, 11, 12 are each
    executed exactly once (12 by the firm path), on a chain of parents. -/
example :
    let cfg : Cfg := ⟨.softAndFirm, 10, 3, 2, 2, 1, 5, 0⟩
    let r := run cfg [.soft 10, .soft 10, .firm 11 7, .firm 10 7, .soft 13, .soft 11, .firm 11 8,
                      .firm 12 9, .soft 12, .firm 12 9]
    (execCalls (allRpcs r.2)).map (·.seq) = [10, 11, 12] ∧
    (execCalls (allRpcs r.2)).map (·.parent) = [1, 2, 3] ∧
    r.2.map (·.res) = [.ok, .dropped, .err .heightMismatch, .ok, .err .outOfOrder, .ok, .ok, .ok,
                       .dropped, .err .heightMismatch] ∧
    r.1.ex.c.firm.number = 5 ∧ r.1.ex.c.soft.number = 5 ∧ r.1.ex.pending = [] := by decide

/-- Non-vacuity of the hypotheses and of the acceptor: the session above is well formed, its
    history is accepted, and a history that executes a height twice is not. -/
example :
    let cfg : Cfg := ⟨.softAndFirm, 10, 3, 2, 2, 1, 5, 0⟩
    (cfg.firm0 ≤ cfg.soft0 ∧ cfg.rollupStart ≤ cfg.firm0 + 1 ∧ 1 ≤ cfg.seqStart ∧ cfg.lie = 0) ∧
    (Mon.stepEvents cfg (Mon.init cfg) (run cfg [.soft 10, .firm 10 7, .firm 11 8]).2).isSome = true ∧
    (Mon.stepEvents cfg (Mon.init cfg)
      [⟨.soft 10, .ok, [.exec 10 1 (.ok ⟨3, 2, 1, 10⟩), .update ⟨2, 1, 0, 9⟩ ⟨3, 2, 1, 10⟩ 1 (.ok ())]⟩,
       ⟨.soft 10, .ok, [.exec 10 2 (.ok ⟨4, 3, 2, 10⟩), .update ⟨2, 1, 0, 9⟩ ⟨4, 3, 2, 10⟩ 1 (.ok ())]⟩]).isSome
      = false := by decide

/-- Non-vacuity for the cache: a hole blocks `pop`, `drop_obsolete` jumps over it. -/
example :
    poppedHeights ((⟨[], 5⟩ : Cache).run
      [.insert 5 1, .insert 7 2, .insert 5 3, .pop, .pop, .insert 4 4, .dropObsolete 7, .pop, .pop]).2
      = [5, 7] := by decide

end C10

end Astria
