import Astria.Mempool.Theorems
import Astria.Mempool.PromoTotal
/-
  C13 — Mempool keeps nonce order and never duplicates or silently loses a transaction.

  The property theorems, and nothing else (helper lemmas live in `Astria/Mempool/*`).
  All of them are statements about EVERY sequence of mempool operations (`insert`,
  `remove_tx_invalid`, `remove_from_removal_cache`, `run_maintenance` with any chain state, any
  fee table, any iteration order of the accounts, the passing of time) that respects the
  mempool's documented preconditions (`ValidSeq`: the account nonce shown to the mempool never
  decreases; `insert` is not used for an id that is currently tracked unless the call is rejected).

  Reading of "last shown" (DESIGN §6 C13): the nonce last shown for an account is the one of the
  most recent `insert` for that account or `run_maintenance` that processed it (`State.shown`);
  the balances "last shown" are those of the last operation that validated the account's ready
  queue — a successful ready-insert or a maintenance run (`State.vbal`).
-/
namespace Astria
open Astria.Mempool

/-- Executable check of the preconditions (with the simple form "the id is not tracked"). -/
def C13_validB : State → List Op → Bool
  | _, [] => true
  | s, op :: ops =>
    (match op with
      | .insert t cur _ => decide (s.shown t.acct ≤ cur) && !(s.contained.contains t.id)
      | .maintain c _ _ _ order => order.all (fun a => decide (s.shown a ≤ c.nonce a))
      | _ => true) && C13_validB (step s op).1 ops

theorem C13_validB_sound (s : State) (ops : List Op) (h : C13_validB s ops = true) :
    ValidSeq s ops := by
  induction ops generalizing s with
  | nil => exact ValidSeq.nil s
  | cons op ops ih =>
    simp only [C13_validB, Bool.and_eq_true] at h
    refine ValidSeq.cons ?_ (ih _ h.2)
    cases op with
    | insert t cur bal =>
      simp only [Bool.and_eq_true, decide_eq_true_eq, Bool.not_eq_true', List.contains_eq_mem,
        decide_eq_false_iff_not] at h
      exact ⟨h.1.1, Or.inl h.1.2⟩
    | maintain c recost results height order =>
      intro a ha
      have := List.all_eq_true.mp h.1 a ha
      simpa using this
    | removeInvalid a n id r => trivial
    | uncache id => trivial
    | advance dt => trivial

/-- **Exactly one place.** In every reachable state an id is tracked iff it is held exactly once
    in the ready or the parked container; no id is held twice; `transaction_status` answers
    `Pending` exactly for the ids in the ready container and `Parked` exactly for those in the
    parked container; `len()` is the number of transactions held. -/
theorem C13_one_place (cfg : Cfg) (hc : 0 < cfg.cacheMax) (ops : List Op)
    (hv : ValidSeq (init cfg) ops) :
    let s := run (init cfg) ops
    (∀ i, i ∈ s.contained ↔ idc s.pend i + idc s.park i = 1)
    ∧ (∀ i, idc s.pend i + idc s.park i ≤ 1)
    ∧ (∀ i, status s i = some .pending ↔ ∃ t ∈ s.pend, t.id = i)
    ∧ (∀ i, status s i = some .parked ↔ ∃ t ∈ s.park, t.id = i)
    ∧ len s = s.pend.length + s.park.length := by
  intro s
  have h : Track s [] [] := (inv_reachable cfg hc ops hv).track
  refine ⟨fun i => ?_, fun i => (tracked_counts h i).2, status_pending_iff h, status_parked_iff h,
    len_eq h⟩
  have hcnt := tracked_counts h i
  rw [← List.count_pos_iff]
  omega

/-- **Never silently lost — what holds for both the pinned and the repaired code** (any value of
    `cfg.reportFailedMoves`). Every id ever accepted is still
    tracked, or has a reason in the removal cache, or was taken out of the removal cache by the
    caller since it was last accepted, or was pushed out of the removal cache by its size bound
    (which only happens once 50 000 removals were recorded), or was *dropped*: un-tracked by a
    promotion/demotion that failed inside `run_maintenance` — possible only in the pinned code
    (finding F13, counterexample below); the repaired code (/repo commit 8c2d14f) never drops,
    see `C13_no_silent_loss_fixed`.
    A removed id that still has its cache entry is reported as `Removed(reason)`. -/
theorem C13_no_silent_loss_partial (cfg : Cfg) (hc : 0 < cfg.cacheMax) (ops : List Op)
    (hv : ValidSeq (init cfg) ops) :
    let s := run (init cfg) ops
    (∀ i ∈ s.accepted, i ∈ s.contained ∨ i ∈ s.cache.map (·.1) ∨ i ∈ s.acked ∨ i ∈ s.dropped
        ∨ i ∈ s.evicted)
    ∧ (s.evicted ≠ [] → s.cacheQ.length = s.cfg.cacheMax)
    ∧ (∀ i, i ∉ s.contained → i ∈ s.cache.map (·.1) → ∃ r, status s i = some (.removed r)) := by
  intro s
  have h := (inv_reachable cfg hc ops hv).ledger
  refine ⟨h.acc, fun hne => ?_, fun i hnc hcache => ?_⟩
  · rcases h.ev.2 with h1 | h1
    · exact absurd h1 hne
    · exact h1
  · unfold status
    have : s.contained.contains i = false := by simpa using hnc
    simp only [this]
    cases hres : s.res.lookup i with
    | some hc => exact ⟨_, rfl⟩
    | none =>
      obtain ⟨e, he, hei⟩ := List.mem_map.mp hcache
      cases hl : s.cache.lookup i with
      | some r => exact ⟨r, by simp⟩
      | none =>
        rw [List.lookup_eq_none_iff] at hl
        have := hl e he
        simp [hei] at this

/-- **The pinned code (before /repo commit 8c2d14f, `reportFailedMoves := false`, finding F13)
    did lose a transaction silently** — kept as the regression witness. Parked container at its limit of 1
    (account 0, nonce 1); account 1 has a ready transaction of cost 5; its balance drops to 1;
    `run_maintenance` demotes it, `parked.add` refuses (container full), and the id is un-tracked
    without a removal-cache entry: `transaction_status` answers `None`.
    (Same for the per-account limit of 15 and for a nonce already parked; corpus/mempool.ops
    sessions A–C reproduced all three on the real pinned `Mempool`; on the repaired code the same
    sessions end with `Removed(InternalError)`.) -/
theorem C13_no_silent_loss_counterexample :
    ∃ (ops : List Op), C13_validB (init { parkedMax := 1 }) ops = true ∧
      let s := run (init { parkedMax := 1 }) ops
      1 ∈ s.accepted ∧ 1 ∉ s.contained ∧ s.cache.lookup 1 = none ∧ s.acked = [] ∧ s.evicted = []
        ∧ status s 1 = none ∧ s.dropped = [1] := by
  refine ⟨[
    .insert { id := 0, acct := 0, nonce := 1, group := 4, costs := [(0, 1)] } 0
      (fun k => if k = 0 then 10 else 0),
    .insert { id := 1, acct := 1, nonce := 0, group := 4, costs := [(0, 5)] } 0
      (fun k => if k = 0 then 10 else 0),
    .maintain { nonce := fun _ => 0,
                bal := fun a k => if k = 0 then (if a = 1 then 1 else 10) else 0,
                fee := fun _ => none, allowed := fun _ => true } false [] 11 [0, 1]], ?_, ?_⟩
  · decide
  · decide

/-- **Never silently lost — the code as it is now** (/repo commit 8c2d14f =
    `proposed_fixes/C13.diff`: a failed promotion/demotion in `run_maintenance` records
    `RemovalReason::InternalError`, as `insert` already did; `reportFailedMoves := true`, the
    configuration the check's driver runs the model with): every accepted id is tracked, or has a
    removal reason, or was acknowledged by the caller, or fell out of the removal cache at its
    size bound. -/
theorem C13_no_silent_loss_fixed (cfg : Cfg) (hc : 0 < cfg.cacheMax)
    (hfix : cfg.reportFailedMoves = true) (ops : List Op) (hv : ValidSeq (init cfg) ops) :
    let s := run (init cfg) ops
    ∀ i ∈ s.accepted, i ∈ s.contained ∨ i ∈ s.cache.map (·.1) ∨ i ∈ s.acked ∨ i ∈ s.evicted := by
  intro s i hi
  have h := (inv_reachable cfg hc ops hv).ledger
  have hcfg : s.cfg = cfg := by
    have : ∀ (ops : List Op) (s0 : State), (run s0 ops).cfg = s0.cfg := by
      intro ops
      induction ops with
      | nil => intro s0; rfl
      | cons op r ih =>
        intro s0
        show (run (step s0 op).1 r).cfg = s0.cfg
        rw [ih]
        cases op with
        | insert t cur bal =>
          unfold step insertTx
          simp only
          generalize pendAdd _ _ _ _ = r1
          generalize parkAdd _ _ _ _ = r2
          rcases r1 with e1 | q
          · cases e1 <;> first
              | rfl
              | (rcases r2 with e2 | q2
                 · rfl
                 · exact (track_samePool _ _).2.2.2.2)
          · exact ((track_samePool _ _).2.2.2.2).trans
              (promoteReady_accLe _ _ _ _ _ _).2.1
        | removeInvalid a n id r => exact (removeInvalid_accLe s0 a n id r).2.1
        | uncache id => rfl
        | maintain c recost results height order =>
          exact (maintain_accLe s0 c recost results height order).2.1
        | advance dt => rfl
    exact this ops (init cfg)
  have hd : s.dropped = [] := h.fixed (by rw [hcfg]; exact hfix)
  rcases h.acc i hi with h1 | h1 | h1 | h1 | h1
  · exact Or.inl h1
  · exact Or.inr (Or.inl h1)
  · exact Or.inr (Or.inr (Or.inl h1))
  · rw [hd] at h1; cases h1
  · exact Or.inr (Or.inr (Or.inr h1))

/-- **Only a failed demotion could drop an id (pinned code); the promotion branch never fails
    (pinned and repaired code).** The other branch of `run_maintenance` that
    un-tracked an id without a reason — "failed to promote transaction during maintenance" — is
    dead: in every reachable state (indeed in every state with ordered containers whose ready
    queues are covered, which includes the states in the middle of a maintenance run), when an
    account has nothing to demote, its maintenance step drops nothing, whatever the chain state,
    fee table and re-costing. -/
theorem C13_maintenance_promotion_total (cfg : Cfg) (hc : 0 < cfg.cacheMax) (ops : List Op)
    (hv : ValidSeq (init cfg) ops) (c : Chain) (recost : Bool) (results : List (Nat × Nat))
    (height a : Nat) :
    let s := run (init cfg) ops
    (maintainPrep c recost results height s a).2.1 = [] →
      (maintainAcct c recost results height (s, []) a).1.dropped = s.dropped := by
  intro s hnd
  have h := inv_reachable cfg hc ops hv
  exact maintenance_promotion_total c recost results height s a h.shape h.afford hnd

/-- **Ready nonces are consecutive from the account nonce last shown.** For every ready
    transaction, every nonce between the account nonce last shown to the mempool and the
    transaction's nonce is ready too (and the ready container holds at most one transaction per
    account and nonce, in nonce order). Ready transactions *below* the nonce last shown are the
    already-executed ones that the next `run_maintenance` removes
    (`C13_no_used_nonce_after_maintenance`). -/
theorem C13_ready_consecutive (cfg : Cfg) (hc : 0 < cfg.cacheMax) (ops : List Op)
    (hv : ValidSeq (init cfg) ops) :
    let s := run (init cfg) ops
    (∀ t ∈ s.pend, ∀ n, s.shown t.acct ≤ n → n ≤ t.nonce →
        ∃ u ∈ s.pend, u.acct = t.acct ∧ u.nonce = n)
    ∧ s.pend.Pairwise (fun x y => x.acct < y.acct ∨ (x.acct = y.acct ∧ x.nonce < y.nonce)) := by
  intro s
  have h := (inv_reachable cfg hc ops hv).shape
  refine ⟨ready_no_gap h.gap, ?_⟩
  refine List.Pairwise.imp ?_ h.pendSorted
  intro x y hxy
  exact (klt_iff x y).mp hxy

/-- **Ready transactions are jointly affordable** from the balances shown when the account's
    ready queue was last validated (successful ready-insert or maintenance), for every asset. -/
theorem C13_ready_affordable (cfg : Cfg) (hc : 0 < cfg.cacheMax) (ops : List Op)
    (hv : ValidSeq (init cfg) ops) :
    let s := run (init cfg) ops
    ∀ a k, costSum (acctQ a s.pend) k ≤ s.vbal a k :=
  (inv_reachable cfg hc ops hv).afford

/-- **Block-building order.** `builder_queue` is a permutation of the ready container (nothing
    skipped, nothing duplicated), and of two transactions of the same account and the same
    action group the one with the lower nonce comes first. -/
theorem C13_builder_order (cfg : Cfg) (hc : 0 < cfg.cacheMax) (ops : List Op)
    (hv : ValidSeq (init cfg) ops) :
    let s := run (init cfg) ops
    (builderQueue s).Perm s.pend
    ∧ (builderQueue s).Pairwise
        (fun x y => x.acct = y.acct → x.group = y.group → x.nonce < y.nonce) := by
  intro s
  have h := (inv_reachable cfg hc ops hv).shape
  refine ⟨?_, builderQueue_order s h.pendSorted⟩
  have := builderQueue_perm s
  rwa [queueEntries_all h.pendSorted] at this

/-- **After maintenance no already-used nonce remains.** Whatever the state, after
    `run_maintenance` against a chain state every ready or parked transaction of a processed
    account has a nonce not below that account's chain nonce. -/
theorem C13_no_used_nonce_after_maintenance (s : State) (c : Chain) (recost : Bool)
    (results : List (Nat × Nat)) (height : Nat) (order : List Nat) :
    let s' := (step s (.maintain c recost results height order)).1
    ∀ a ∈ order, ∀ t ∈ s'.pend ++ s'.park, t.acct = a → c.nonce a ≤ t.nonce := by
  intro s' a ha
  exact maintain_fresh s c recost results height order a ha

/-- **Parked limits.** At most `MAX_PARKED_TXS_PER_ACCOUNT` parked transactions per account and
    at most `parked_max_tx_count` in total, in every reachable state. -/
theorem C13_parked_limits (cfg : Cfg) (hc : 0 < cfg.cacheMax) (ops : List Op)
    (hv : ValidSeq (init cfg) ops) :
    let s := run (init cfg) ops
    (∀ a, (acctQ a s.park).length ≤ cfg.perAcct) ∧ s.park.length ≤ cfg.parkedMax := by
  intro s
  have h := inv_reachable cfg hc ops hv
  have hcfg : s.cfg = cfg := by
    have : ∀ (ops : List Op) (s0 : State), Inv s0 → ValidSeq s0 ops → (run s0 ops).cfg = s0.cfg := by
      intro ops
      induction ops with
      | nil => intro s0 _ _; rfl
      | cons op r ih =>
        intro s0 hi hv
        cases hv with
        | cons hop hrest =>
          show (run (step s0 op).1 r).cfg = s0.cfg
          rw [ih _ (inv_step hi hop) hrest]
          cases op with
          | insert t cur bal =>
            unfold step insertTx
            simp only
            generalize pendAdd _ _ _ _ = r1
            generalize parkAdd _ _ _ _ = r2
            rcases r1 with e1 | q
            · cases e1 <;> first
                | rfl
                | (rcases r2 with e2 | q2
                   · rfl
                   · exact (track_samePool _ _).2.2.2.2)
            · exact ((track_samePool _ _).2.2.2.2).trans
                (promoteReady_accLe _ _ _ _ _ _).2.1
          | removeInvalid a n id r => exact (removeInvalid_accLe s0 a n id r).2.1
          | uncache id => rfl
          | maintain c recost results height order =>
            exact (maintain_accLe s0 c recost results height order).2.1
          | advance dt => rfl
    exact this ops (init cfg) (inv_init cfg hc) hv
  exact ⟨fun a => hcfg ▸ h.shape.perAcct a, hcfg ▸ h.shape.total⟩

/-! ### non-vacuity: a concrete valid history with promotion, demotion, removal, maintenance -/

private def exBal (n : Nat) : Bal := fun k => if k = 0 then n else 0
private def exChain (n0 : Nat) (b0 : Nat) : Chain :=
  { nonce := fun a => if a = 0 then n0 else 0, bal := fun a => if a = 0 then exBal b0 else exBal 50,
    fee := fun _ => some 2, allowed := fun _ => true }
private def exOps : List Op :=
  [ .insert { id := 0, acct := 0, nonce := 1, group := 4, costs := [(0, 10)], feeAsset := some 0 } 0 (exBal 100),
    .insert { id := 1, acct := 0, nonce := 0, group := 3, costs := [(0, 10)], feeAsset := some 0 } 0 (exBal 100),
    .insert { id := 2, acct := 1, nonce := 0, group := 4, costs := [(0, 60)], feeAsset := some 0 } 0 (exBal 50),
    .insert { id := 3, acct := 0, nonce := 2, group := 4, costs := [(0, 70)], feeAsset := some 0 } 0 (exBal 100),
    .advance 5,
    .maintain (exChain 1 15) false [(1, 0)] 11 [1, 0],
    .removeInvalid 0 2 3 (.failedExec 1),
    .uncache 3 ]

/-- The hypotheses of the theorems above are satisfiable by a history that exercises promotion
    (id 0 is promoted when id 1 arrives), parking for lack of balance (id 2), inclusion in a
    block and a stale nonce (id 1), re-costing, demotion (id 3) and an invalid-removal. -/
example : C13_validB (init { parkedMax := 4 }) exOps = true := by decide

example :
    let s := run (init { parkedMax := 4 }) exOps
    s.pend.map (·.id) = [0] ∧ s.park.map (·.id) = [2] ∧ s.accepted = [3, 2, 1, 0]
      ∧ status s 0 = some .pending ∧ status s 2 = some .parked
      ∧ status s 1 = some (.removed (.included 11 0)) ∧ status s 3 = none ∧ s.acked = [3]
      ∧ s.dropped = [] ∧ (builderQueue s).map (·.id) = [0] := by
  decide

/-- … and just before the invalid-removal, id 3 sits in parked because maintenance demoted it. -/
example :
    let s := run (init { parkedMax := 4 }) (exOps.take 6)
    s.pend.map (·.id) = [0] ∧ s.park.map (·.id) = [3, 2] := by
  decide

end Astria
