import Astria.Ledger.Theorems
import Astria.Ledger.History
/-
  C01 — Ledger conservation: value only moves; fees are exact and fully routed.
  Property theorems only; the lemmas are in Astria/Ledger/{Conservation,Theorems}.lean.
-/
namespace Astria
open Astria.Ledger

/-- For every state, transaction (any signer, nonce, bundle of actions, amounts up to u128::MAX)
    and asset: if the transaction takes effect, the sum of all account balances, all IBC escrow
    balances and the fees accumulated in the block changes by exactly what its ICS20 withdrawals
    burn (withdrawals of bridged-in assets) — every other action conserves every asset. -/
theorem C01_tx_conserves (s s' : State) (tx : Tx) (a : String) (h : execTx s tx = .ok s') :
    (total s' a : Int) = total s a + (tx.actions.map (mintBurn a)).sum := execTx_total s s' tx a h

/-- A failed transaction changes nothing (so it conserves trivially). -/
theorem C01_failed_tx_conserves (s : State) (tx : Tx) (e : Err) (a : String) (h : execTx s tx = .error e) :
    total (stepTx s tx) a = total s a := by rw [stepTx_error s tx e h]

/-- An incoming ICS20 packet mints exactly its amount of a foreign asset when it is acknowledged
    successfully, and nothing otherwise (assets coming home are released from escrow). -/
theorem C01_recv_mints_exactly (s s' : State) (p : RecvPacket) (ok : Bool) (a : String)
    (h : recvPacket s p = (ok, s')) :
    (total s' a : Int) = total s a +
      (if ok = true ∧ hasLeading p.denom p.srcChan = false ∧ recvAsset p = a then (p.amount : Int) else 0) :=
  recvPacket_total s s' p ok a h

/-- A refund (timeout or failed acknowledgement) mints back exactly the amount of a bridged-in
    asset that was burnt when it was sent; a sequencer-origin asset is released from escrow. -/
theorem C01_refund_mints_exactly (s s' : State) (p : RefundPacket) (a : String)
    (h : refundPacket s p = .ok s') :
    (total s' a : Int) = total s a +
      (if hasLeading p.denom p.srcChan = true ∧ p.denom = a then (p.amount : Int) else 0) :=
  refundPacket_total s s' p a h

/-- Every fee charged equals `base + multiplier * size` of the fee schedule in force at that
    moment, in an allowed fee asset; that amount is added to the block's fees and debited from
    the transaction signer and from nobody else (the plan contains no other debit). -/
theorem C01_fee_exact (s : State) (k : Kind) (size : Nat) (fa signer : String) (pos : Nat)
    (fx : List Effect) (h : feePlan s k size fa signer pos = some fx) :
    ∃ cfg, lookup s.fees k = some cfg ∧ fa ∈ s.feeAssets ∧ cfg.base + size * cfg.mult ≤ U128_MAX ∧
      fx = [.blockFee fa (cfg.base + size * cfg.mult) pos, .debit signer fa (cfg.base + size * cfg.mult)] :=
  feePlan_exact s k size fa signer pos fx h

/-- When the block ends the fees accumulated for every asset are credited to the fee recipient
    (the sudo address), the accumulators are cleared, and every asset's total is unchanged. -/
theorem C01_end_block_routes_fees (s s' : State) (ups : List (String × Nat))
    (h : endBlock s = (true, ups, s')) :
    (∀ a, getN s'.bal (s.sudo, a) = getN s.bal (s.sudo, a) + getN s.blockFees a) ∧
    s'.blockFees = [] ∧ s'.deposits = [] ∧ (∀ a, total s' a = total s a) := endBlock_routes s s' ups h

/-- The pinned source charged `u128::MAX` where `base + multiplier * size` exceeds it
    (fixed by `fix:` commit e775163; replay in corpus/ledger.ops). -/
theorem C01_original_counterexample :
    feeAmountOriginal ⟨U128_MAX, 1⟩ 1 = U128_MAX ∧ U128_MAX + 1 * 1 ≠ U128_MAX := feeAmountOriginal_counterexample

/-- Non-vacuity: a concrete fee plan exists and is the stated one. -/
example : feePlan { postAspen := true, postBlackburn := true, sudo := "s", ibcSudo := "i",
                    fees := [(.rollup, ⟨1, 1001⟩)], feeAssets := ["nria"] } .rollup 3 "nria" "a0" 0 =
    some [.blockFee "nria" 3004 0, .debit "a0" "nria" 3004] := by decide

/-- **Every history.** From any state, along every sequence of transactions (taking effect or
    failing), received packets (acknowledged or rejected), timeouts / error acknowledgements and
    block ends — as long as the chain does not halt on a failing `end_block` — the total of every
    asset (all balances + all escrow + block fees) is the initial total plus exactly what the IBC
    operations minted minus what they burnt (`mintedBy`: a foreign asset received, a bridged-in
    asset refunded, minus bridged-in assets withdrawn).  Nothing else creates or destroys value. -/
theorem C01_history_conserves (a : String) (ops : List Op) (s s' : State)
    (h : runH s ops = some s') : (total s' a : Int) = total s a + totalMinted a s ops :=
  conservation_history a ops s s' h

/-- Non-vacuity: a two-operation history (a transfer, then the end of the block) runs and moves
    value without changing the total. -/
example :
    let s : State := { postAspen := true, postBlackburn := true, sudo := "s", ibcSudo := "i",
                       bal := [(("a0", "nria"), 100)], fees := [(.transfer, ⟨2, 0⟩)], feeAssets := ["nria"] }
    let ops := [Op.tx ⟨"a0", 0, [.transfer "a1" "nria" 10 "nria"]⟩, Op.endBlock]
    (runH s ops).isSome = true ∧ totalMinted "nria" s ops = 0 ∧
    ((runH s ops).map fun s' => (getN s'.bal ("a1", "nria"), getN s'.bal ("s", "nria"), total s' "nria")) = some (10, 2, 100) := by
  decide

end Astria
