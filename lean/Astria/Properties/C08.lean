import Astria.Block.FlatComplete
/-
  C08 — additional property theorems at the RFC 6962 specification layer (the theorems about
  decoding / verification totality and soundness are in Astria/Properties.lean).  The lemmas are
  in Astria/Block/{Rfc,FlatComplete}.lean.
-/
namespace Astria
open Astria.Merkle Astria.Merkle.Flat Astria.Block

/-- The RFC 6962 audit path of any leaf of any leaf sequence verifies against the RFC 6962 Merkle
    Tree Hash of that sequence — for all sizes, positions, contents and hash functions. -/
theorem C08_rfc_proof_complete {β α : Type} (H : HashFns β α) (L : List β) (i : Nat) (y : β)
    (hy : L[i]? = some y) :
    Rfc.rootFromPath H L.length i (H.leaf y) (Rfc.path H i L) = some (Rfc.mth H L) :=
  path_complete' H L i y hy

/-- astria-merkle's own verification — the walk over `complete_parent` in the flat in-order
    array — applied to the RFC 6962 audit path of leaf `i` arrives, without panic, at the
    RFC 6962 tree hash: the crate's verifier accepts exactly the specification's proofs for the
    specification's root, for every tree with fewer than 2^61 leaves. -/
theorem C08_index_walk_accepts_rfc_paths {β α : Type} (H : HashFns β α) (L : List β) (i : Nat) (y : β)
    (hy : L[i]? = some y) (hsmall : 2 * L.length - 1 < 2 ^ 62) :
    reconstructRoot H (2 * L.length - 1) (2 * i) (H.leaf y) (Rfc.path H i L) = .value (Rfc.mth H L) :=
  flat_path_complete H L i y hy hsmall

/-- The root binds the whole leaf sequence: two leaf sequences with the same RFC 6962 tree hash
    are equal, or an explicit hash collision is exhibited. -/
theorem C08_root_binds_leaves {β α : Type} (H : HashFns β α) (L L' : List β)
    (h : Rfc.mth H L = Rfc.mth H L') : L = L' ∨ Collision' H := mth_inj' H L L' h

end Astria
