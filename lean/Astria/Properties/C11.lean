import Astria.RelayerCrash.Theorems
/-
  C11 — "Relayer never skips a sequencer block on Celestia across any crash/restart".

  `run (init base ch) acts` is the state of the crash/restart model
  (`Astria/RelayerCrash/Model.lean`) after the environment did `acts`, starting from a state
  file that is `fresh` (`base = 0`) or `started` at sequencer height `base`.  `Benign acts` only
  excludes overwriting the state file behind the relayer's back; crashes at every await point,
  restarts, every outcome of every RPC (lost / pending / confirmed / timed out / rejected),
  arbitrary block arrival, late inclusion of old transactions and temp files left in an
  arbitrary state are all benign.  Every theorem holds for ALL such action sequences.
-/
namespace Astria
open RelayerCrash

/-- After any benign history the state file holds a complete state and the relayer's own
    `State::read` (parse + `sequencer_height > last_submission.sequencer_height`) accepts it. -/
theorem C11_state_file_always_readable (base ch : Nat) (acts : List Action) (hb : Benign acts) :
    ∃ st, (run (init base ch) acts).file = some (.ok st) ∧
      readState (run (init base ch) acts).file = .ok st :=
  file_readable base ch acts hb

/-- After any benign history the relayer process has never ended by itself: neither start-up
    (unreadable state file) nor the submitter task (a height at or below the last completed
    one reaching `into_prepared`) ever failed. -/
theorem C11_never_stops_by_itself (base ch : Nat) (acts : List Action) (hb : Benign acts) :
    (run (init base ch) acts).exits = 0 :=
  never_exits base ch acts hb

/-- Whatever sequencer height the state file records as submitted (`started L`, or the `L` of
    `prepared _ L _`): every height from the first relayed one (`base + 1`) up to `L` is carried
    by a transaction that the (truthful) Celestia chain has confirmed. -/
theorem C11_recorded_implies_confirmed (base ch : Nat) (acts : List Action) (hb : Benign acts)
    (st : FileSt) (hf : (run (init base ch) acts).file = some (.ok st)) (k : Nat)
    (h1 : base < k) (h2 : k ≤ st.last) : Covered (run (init base ch) acts) k :=
  recorded_confirmed base ch acts hb st hf k h1 h2

/-- The sequencer heights confirmed on Celestia have no gap: with a height, every height from
    the first relayed one up to it is confirmed (duplicates are allowed, and occur). -/
theorem C11_no_gap (base ch : Nat) (acts : List Action) (hb : Benign acts) (h : Nat)
    (hc : Covered (run (init base ch) acts) h) :
    base < h ∧ ∀ k, base < k → k ≤ h → Covered (run (init base ch) acts) k :=
  no_gap base ch acts hb h hc

/-- The decidable spec that the driver's monitors evaluate on the implementation's reports
    (`gapFree`, `coveredUpTo`, readability) holds in every reachable state of the model. -/
theorem C11_monitor_spec (base ch : Nat) (acts : List Action) (hb : Benign acts) :
    let w := run (init base ch) acts
    gapFree base (confirmedHeights w.chainHeights) = true ∧
    ∃ st, w.file = some (.ok st) ∧ readState w.file = .ok st ∧
      coveredUpTo base (confirmedHeights w.chainHeights) st.last = true :=
  spec_holds base ch acts hb

/-- Transaction numbers are unique: "a confirmed transaction carries height `k`" speaks about
    the very BlobTx that was broadcast. -/
theorem C11_tx_numbers_unique (base ch : Nat) (acts : List Action) (hb : Benign acts) :
    ((run (init base ch) acts).txs.map (·.id)).Nodup :=
  tx_ids_unique base ch acts hb

/-- a run with a crash right after the broadcast, a restart whose confirmation times out, a
    resubmission, late inclusion of the old transaction (duplicate) and a multi-block batch -/
def C11_witness : List Action :=
  [.bump 3, .restart, .fs, .fs, .fs, .fetch, .fs, .fs, .fetch, .fetch, .bcast .ok, .crash,
   .restart, .fs, .fs, .fs, .fetch, .fetch, .fetch, .wait, .giveup, .fs, .fs, .fs, .fs,
   .bcast .ok, .wait, .include 2, .include 1, .gettx .truth, .fs, .fs, .fs, .fs, .bcast .ok,
   .wait, .include 3, .gettx .truth, .fs, .fs]

/-- Non-vacuity: the hypotheses are satisfiable by a history that does relay blocks, crashes,
    duplicates a submission and ends with heights 1..3 confirmed and recorded. -/
example : Benign C11_witness ∧
    (run (init 0 5) C11_witness).file = some (.ok (.started ⟨13, 3⟩)) ∧
    (run (init 0 5) C11_witness).chainHeights = [[1], [1], [2, 3]] := by decide

/-- The hypothesis `Benign` is needed: if the state file is overwritten while the relayer is
    down, the next start-up ends the process (here: truncated file). -/
example : (run (init 0 5) (C11_witness ++ [.crash, .tamperFile (some .bad), .restart, .fs])).exits = 1 := by
  decide

end Astria
