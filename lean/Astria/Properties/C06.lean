import Astria.Abci.Theorems
import Astria.Abci.Examples
/-!
# C06 — Honest proposals are always accepted; malformed or over-limit ones rejected

Property theorems only (thin restatements of `Astria/Abci/Theorems.lean`).  `Prims S` are the
opaque primitives (transaction execution, construction checks, commitments, vote-extension
validation, pre/post execution); every theorem holds for all of them.
-/
namespace Astria
open Astria.Abci

variable {S : Type} (p : Prims S)

/-- **Within both limits.** Whatever the mempool's builder queue, the execution outcomes and
`max_tx_bytes`: if `prepare_proposal` returns a proposal, `max_tx_bytes` is non-negative, the sum
of the raw lengths of all returned items (commitments, extended commit info, transactions) is at
most `max_tx_bytes`, and the sequenced data of the included transactions is at most 256 000 bytes. -/
theorem C06_prepare_within_limits {a a' : AppState S} {r : PrepReq} {items : List Item}
    (h : stepPrepare p a r = (a', .prepared items)) :
    0 ≤ r.maxTxBytes ∧ ((items.map Item.len).sum : Int) ≤ r.maxTxBytes ∧
    ∃ added, a'.executedTxs = some added ∧ seqSum added ≤ maxSeqBytes :=
  prepare_within_limits p h

/-- **Ordered by group.** The proposal consists of the two commitments, the injected items (upgrade
change hashes if an upgrade ran, the extended commit info iff vote extensions are enabled:
`InjShape`) and then transactions taken from the queue in queue order whose
action groups never increase (starting from `BundleableGeneral` = 4). -/
theorem C06_prepare_group_order {a a' : AppState S} {r : PrepReq} {items : List Item}
    (h : stepPrepare p a r = (a', .prepared items)) :
    ∃ (s1 : S) (r1 r2 : Nat) (inj : List Item) (added : List Executed),
      items = proposalItems r1 r2 inj added ∧ InjShape p s1 r inj ∧ (added.map (·.1)).Sublist r.queue ∧
      GroupSorted 4 (added.map (·.1)) := by
  obtain ⟨s1, inj, added, _, _, st, _, _, he, _, hext, hsub, hitems, _⟩ := stepPrepare_spec p h
  exact ⟨s1, _, _, inj, added, hitems, (prepInjected_ok p he).2.2.2.2.2, hsub,
    GroupChain_sorted _ _ (by simpa [LoopSt.init] using hext.chain)⟩

/-- **Only transactions that execute without a fatal error.** Executed one after the other on the
block-start state (the committed state after `pre_execute_transactions`), every included
transaction either succeeds (code 0) or fails non-fatally (code 10, state untouched); this run ends
in exactly the state the proposer keeps, and its result list is the one it caches. -/
theorem C06_prepare_only_nonfatal {a a' : AppState S} {r : PrepReq} {items : List Item}
    (h : stepPrepare p a r = (a', .prepared items)) :
    ∃ (s1 : S) (added : List Executed),
      p.pre a.committed (r.asBlock []) = .ok s1 ∧ Runs p s1 added a'.work ∧
      a'.executedTxs = some added ∧ (∀ e ∈ added, Item.tx e.1 ∈ items) := by
  obtain ⟨s1, inj, added, _, _, st, hpre, _, _, _, hext, _, hitems, hwork, hex, _⟩ := stepPrepare_spec p h
  refine ⟨s1, added, hpre, by simpa [LoopSt.init, hwork] using hext.runs, hex, ?_⟩
  intro e he
  rw [hitems]
  exact List.mem_append_right _ (List.mem_map.mpr ⟨e, he, rfl⟩)

/-- **Prepare then process accepts** (partial — the remaining proviso is forced by the unchanged
code, see the F11 counterexample below). Any node `v` on the same committed state that cannot skip
execution accepts the proposal, and so does the proposer itself, provided that (F11) every
included transaction is constructible against the block-start state, and: vote-extension
enablement does not depend on uncommitted writes, `pre_execute_transactions` depends on the block
data only, the proposer's own extended commit info validates, and `post_execute_transactions`
succeeds. (The former F12 proviso — the extended commit info fits into `max_tx_bytes` — is no
longer needed since `fix:` commit 259c046: the fallback item is well-formed.) -/
theorem C06_prepare_then_process_accepts_partial
    {a a1 : AppState S} {r : PrepReq} {items : List Item} {σ : S} {hash : Nat}
    (hprep : stepPrepare p a r = (a1, .prepared items)) (hσ : a.committed = σ)
    (v : AppState S) (hvc : v.committed = σ) (hvw : v.writeBatch = none) {ex1 : ExecState}
    (hck : v.exec.checkPrepared (r.proposed items hash).fp = (ex1, false))
    (hi64 : r.maxTxBytes ≤ 2 ^ 63 - 1)
    (hve : ∀ s s', p.veEnabled s r.height = p.veEnabled s' r.height)
    (hpre : p.pre σ (r.proposed items hash) = p.pre σ (r.asBlock []))
    (hvalid : p.veValid σ (r.proposed items hash) = true)
    (hcons : ∀ s1, p.pre σ (r.asBlock []) = .ok s1 → ∀ t, Item.tx t ∈ items → p.constructible s1 t = true)
    (hpost : ∀ ex, a1.executedTxs = some ex →
        ∃ s'' aux, p.post a1.work (r.proposed items hash) ex = .ok (s'', aux)) :
    (stepProcess p v (r.proposed items hash)).2 = .accept ∧
    (stepProcess p a1 (r.proposed items hash)).2 = .accept :=
  ⟨prepare_then_process_accepts p hprep hσ v hvc hvw hck hi64 hve hpre hvalid hcons hpost,
   prepare_then_own_process_accepts p hprep hσ hve hpost⟩

/-- **Acceptance is sound.** A node that cannot skip execution accepts a proposal only if: the data
items are in the required order; all further items are transactions constructible at block start
(decodable, signed, nonce not in the past, action checks pass); their groups never increase; their
sequenced data is at most 256 000 bytes; executed in order none fails fatally; and both commitment
roots equal the ones recomputed from that execution. -/
theorem C06_process_accept_sound {a a' : AppState S} {b : Block} {σ : S} {ex1 : ExecState}
    (hc : a.committed = σ) (hw : a.writeBatch = none)
    (hck : a.exec.checkPrepared b.fp = (ex1, false))
    (h : stepProcess p a b = (a', .accept)) :
    ∃ pd s1 txs, parseItems (p.veEnabled a.work b.height) b.items = .ok pd ∧ p.pre σ b = .ok s1 ∧
      pd.txs = txs.map Item.tx ∧ (∀ t ∈ txs, p.constructible s1 t = true) ∧
      GroupSorted 4 txs ∧ (txs.map (·.seq)).sum ≤ maxSeqBytes ∧
      (∃ added s', added.map (·.1) = txs ∧ Runs p s1 added s' ∧
         pd.r1 = (p.roots s' txs).1 ∧ pd.r2 = (p.roots s' txs).2) :=
  process_accept_items p hc hw hck h

/-- **Every mutation class is rejected.** (i) If the data items do not parse (missing, misplaced or
malformed commitment / extended-commit-info item) every node rejects. (ii) A node that cannot skip
execution does not accept a parsed proposal that has an item in transaction position which is not
a transaction (undecodable), or a transaction that cannot be constructed at block start (unsigned,
stale nonce, failing checks), or a group-order violation, or more than 256 000 bytes of sequenced
data, or for which no fatal-failure-free execution with matching commitment roots exists (a
fatally failing transaction, or either root wrong). -/
theorem C06_process_rejects {a : AppState S} {b : Block} {σ : S} {ex1 : ExecState} :
    (∀ e, parseItems (p.veEnabled a.work b.height) b.items = .error e → (stepProcess p a b).2 = .reject e) ∧
    (a.committed = σ → a.writeBatch = none → a.exec.checkPrepared b.fp = (ex1, false) →
      ∀ pd s1, parseItems (p.veEnabled a.work b.height) b.items = .ok pd → p.pre σ b = .ok s1 →
        ((∃ it ∈ pd.txs, ∀ t, it ≠ Item.tx t) ∨
         (∃ t, Item.tx t ∈ pd.txs ∧ p.constructible s1 t = false) ∨
         (∃ txs : List Tx, pd.txs = txs.map Item.tx ∧ ¬ GroupSorted 4 txs) ∨
         (∃ txs : List Tx, pd.txs = txs.map Item.tx ∧ (txs.map (·.seq)).sum > maxSeqBytes) ∨
         (∃ txs : List Tx, pd.txs = txs.map Item.tx ∧ ∀ (added : List Executed) (s' : S), added.map (·.1) = txs → Runs p s1 added s' →
            pd.r1 ≠ (p.roots s' txs).1 ∨ pd.r2 ≠ (p.roots s' txs).2)) →
        (stepProcess p a b).2 ≠ .accept) := by
  refine ⟨fun e h => process_parse_error p h, ?_⟩
  intro hc hw hck pd s1 hp hpre hdef hacc
  have hinj : ∀ l1 l2 : List Tx, l1.map Item.tx = l2.map Item.tx → l1 = l2 := by
    intro l1
    induction l1 with
    | nil => intro l2 h; cases l2 <;> simp_all
    | cons x xs ih =>
      intro l2 h
      cases l2 with
      | nil => simp at h
      | cons y ys => simp at h; obtain ⟨h1, h2⟩ := h; rw [h1, ih ys h2]
  obtain ⟨pd', s1', txs, hp', hpre', htx, hcons, hgrp, hseq, added, s', hmap, hrun, hr1, hr2⟩ :=
    process_accept_items p hc hw hck (a' := (stepProcess p a b).1) (by rw [← hacc])
  have e1 : pd' = pd := by rw [hp] at hp'; injection hp' with h; exact h.symm
  have e2 : s1' = s1 := by rw [hpre] at hpre'; injection hpre' with h; exact h.symm
  subst e1 e2
  rcases hdef with ⟨it, hit, hne⟩ | ⟨t, ht, hf⟩ | ⟨txs', h1, h2⟩ | ⟨txs', h1, h2⟩ | ⟨txs', h1, h2⟩
  · rw [htx] at hit
    obtain ⟨t, _, rfl⟩ := List.mem_map.mp hit
    exact hne t rfl
  · rw [htx] at ht
    obtain ⟨t', ht', heq⟩ := List.mem_map.mp ht
    injection heq with heq; subst heq
    rw [hcons _ ht'] at hf; simp at hf
  · have := hinj _ _ (htx.symm.trans h1); subst this; exact h2 hgrp
  · have := hinj _ _ (htx.symm.trans h1); subst this; omega
  · have := hinj _ _ (htx.symm.trans h1); subst this
    rcases h2 added s' hmap hrun with h | h
    · exact h hr1
    · exact h hr2

open Astria.Abci.Examples in
/-- **Counterexample (F11), proved on the as-is model and reproduced on the real code**
(`corpus/abci.ops`, second session): the mempool holds `IbcRelayerChange::Addition(R)` and the
earlier-admitted `Removal(R)`; `prepare_proposal` includes both (each executes fine in order), a
validator on the same committed state rejects the proposal because `construct_checked_txs`
evaluates `Removal(R)`'s checks at block start. -/
theorem C06_prepare_process_disagree_counterexample :
    prepared? (stepPrepare f11 (AppState.init false) f11Req).2 = some f11Items ∧
    rejected? (stepProcess f11 (AppState.init false) (f11Req.proposed f11Items 0x7b19db6b)).2 = some .construct := by
  decide

open Astria.Abci.Examples in
/-- **Counterexample (F12) about the pinned code, fixed by `fix:` commit 259c046** (reproduced on
the pinned tree by the third session of `corpus/abci.ops`). With `max_tx_bytes` = 100 the 463-byte
extended commit info does not fit; the original `prepare_proposal` (`stepPrepareOriginal`)
substituted `DataItem::ExtendedCommitInfo(empty bytes)`, and that proposal was rejected with a
parse error by every other node and by the proposer itself. The repaired `prepare_proposal`
(`stepPrepare`) proposes the well-formed empty value and both accept. -/
theorem C06_eci_fallback_counterexample :
    prepared? (stepPrepareOriginal f12 (AppState.init ()) f12Req).2 = some f12Items ∧
    rejected? (stepProcess f12 (AppState.init ()) (f12Req.proposed f12Items 1)).2 = some .parse ∧
    rejected? (stepProcess f12 (stepPrepareOriginal f12 (AppState.init ()) f12Req).1 (f12Req.proposed f12Items 1)).2
      = some .parse ∧
    prepared? (stepPrepare f12 (AppState.init ()) f12Req).2 = some f12ItemsFixed ∧
    isAccept (stepProcess f12 (AppState.init ()) (f12Req.proposed f12ItemsFixed 1)).2 = true ∧
    isAccept (stepProcess f12 (stepPrepare f12 (AppState.init ()) f12Req).1 (f12Req.proposed f12ItemsFixed 1)).2 = true := by
  decide

/-! ### non-vacuity -/

open Astria.Abci.Examples in
/-- a queue with a too-large, an out-of-order, a non-fatally and a fatally failing transaction:
the proposal is non-trivial, a fresh validator and the proposer accept it -/
example :
    prepared? (stepPrepare counter (AppState.init 0) okReq).2 = some okItems ∧
    isAccept (stepProcess counter (AppState.init 0) okBlock).2 = true ∧
    isAccept (stepProcess counter (stepPrepare counter (AppState.init 0) okReq).1 okBlock).2 = true := by
  decide

open Astria.Abci.Examples in
/-- the same at an upgrade height (the proposal carries the upgrade change hashes) -/
example :
    prepared? (stepPrepare counter (AppState.init 0) upReq).2 = some upItems ∧
    isAccept (stepProcess counter (AppState.init 0) upBlock).2 = true := by
  decide

open Astria.Abci.Examples in
/-- single-field mutations of that proposal are rejected with the expected kinds -/
example :
    rejected? (stepProcess counter (AppState.init 0) { okBlock with items := [.root1 9, .root2 4, .eci 2 463 true, .tx t1, .tx t2, .tx t4, .tx t6] }).2 = some .root1 ∧
    rejected? (stepProcess counter (AppState.init 0) { okBlock with items := [.root2 4, .root1 3, .eci 2 463 true, .tx t1] }).2 = some .parse ∧
    rejected? (stepProcess counter (AppState.init 0) { okBlock with items := [.root1 3, .root2 4, .eci 2 463 true, .tx t4, .tx t1] }).2 = some .group ∧
    rejected? (stepProcess counter (AppState.init 0) { okBlock with items := [.root1 3, .root2 4, .eci 2 463 true, .tx t2, .tx t3] }).2 = some .seqlimit ∧
    rejected? (stepProcess counter (AppState.init 0) { okBlock with items := [.root1 3, .root2 4, .eci 2 463 true, .tx t1, .tx t7] }).2 = some .exec ∧
    rejected? (stepProcess counter (AppState.init 0) { okBlock with items := [.root1 3, .root2 4, .eci 2 463 true, .garbage 7 30] }).2 = some .construct := by
  decide

end Astria
