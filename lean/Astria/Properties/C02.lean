import Astria.Ledger.Authority
/-
  C02 — Only the owner or the designated authority moves funds or changes privileged state.
-/
namespace Astria
open Astria.Ledger

/-- For every state, signer and action: if executing the action (fee payment included) decreases
    the balance of account `x` in any asset, then `x` is the transaction signer, or `x` is a
    bridge account whose withdrawer in the state the action executes on is the signer.  Signers
    that held the withdrawer role in the past, bridge accounts signing plain transfers, locks,
    or ICS20 withdrawals for themselves, and everybody else cannot decrease it. -/
theorem C02_debit_authorised (s s' : State) (signer : String) (pos : Nat) (act : Action)
    (x a : String) (h : execAction s signer pos act = some s')
    (hlt : getN s'.bal (x, a) < getN s.bal (x, a)) :
    x = signer ∨ ∃ b, lookup s.bridges x = some b ∧ b.withdrawer = signer :=
  execAction_debit_authorised s s' signer pos act x a h hlt

/-- An action of a privileged kind (sudo / IBC sudo change, fee change, fee-asset change,
    validator update; relayer change; bridge sudo change) executes only if the transaction is
    signed by the authority that holds that privilege in the state the action executes on:
    the sudo address, the IBC sudo address, resp. the bridge account's sudo address. -/
theorem C02_priv_authorised (s s' : State) (signer : String) (pos : Nat) (act : Action)
    (auth : Option String) (hr : requiredAuthority s act = some auth)
    (h : execAction s signer pos act = some s') : auth = some signer :=
  execAction_authority s s' signer pos act auth hr h

/-- A bridge account can only be initialised by a transaction signed with its own key, and only
    if it is not a bridge account yet. -/
theorem C02_init_bridge_authorised (s s' : State) (signer : String) (pos : Nat) (r : Nat)
    (asset fa : String) (su w : Option String)
    (h : execAction s signer pos (.initBridge r asset fa su w) = some s') :
    lookup s.bridges signer = none ∧ (lookup s'.bridges signer).isSome :=
  initBridge_authorised s s' signer pos r asset fa su w h

/-- A bridge account cannot be the source of a plain transfer, a bridge lock or a bridge-less
    ICS20 withdrawal. -/
theorem C02_bridge_source_guard (s : State) (signer : String) (h : isBridge s signer = true) :
    (∀ to asset amount fa, mutableOk s signer (.transfer to asset amount fa) = false) ∧
    (∀ to asset amount fa dl, mutableOk s signer (.lock to asset amount fa dl) = false) ∧
    (∀ amount denom chan fa id blk ret, mutableOk s signer (.ics20 amount denom chan fa none id blk ret) = false) := by
  refine ⟨?_, ?_, ?_⟩ <;> intros <;> simp [mutableOk, h]

/-- Non-vacuity: the withdrawer may unlock, a former withdrawer may not. -/
example :
    let s : State := { postAspen := true, postBlackburn := true, sudo := "s", ibcSudo := "i",
                       bridges := [("b0", ⟨1, "nria", "a0", "a1", false⟩)] }
    mutableOk s "a1" (.unlock "a2" "b0" 5 "nria" "e0" 1) = true ∧
    mutableOk s "a3" (.unlock "a2" "b0" 5 "nria" "e0" 1) = false := by decide

end Astria
