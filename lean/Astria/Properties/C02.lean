import Astria.Ledger.Authority
import Astria.Ledger.Privileged
/-
  C02 — Only the owner or the designated authority moves funds or changes privileged state.
-/
namespace Astria
open Astria.Ledger

/-- For every state, signer and action: if executing the action (fee payment included) decreases
    the balance of account `x` in any asset, then `x` is the transaction signer, or `x` is a
    bridge account whose withdrawer in the state the action executes on is the signer.  Signers
    that held the withdrawer role in the past, bridge accounts signing plain transfers, locks,
    or ICS20 withdrawals for themselves, and everybody else cannot decrease it. -/
theorem C02_debit_authorised (s s' : State) (signer : String) (pos : Nat) (act : Action)
    (x a : String) (h : execAction s signer pos act = some s')
    (hlt : getN s'.bal (x, a) < getN s.bal (x, a)) :
    x = signer ∨ ∃ b, lookup s.bridges x = some b ∧ b.withdrawer = signer :=
  execAction_debit_authorised s s' signer pos act x a h hlt

/-- An action of a privileged kind (sudo / IBC sudo change, fee change, fee-asset change,
    validator update; relayer change; bridge sudo change) executes only if the transaction is
    signed by the authority that holds that privilege in the state the action executes on:
    the sudo address, the IBC sudo address, resp. the bridge account's sudo address. -/
theorem C02_priv_authorised (s s' : State) (signer : String) (pos : Nat) (act : Action)
    (auth : Option String) (hr : requiredAuthority s act = some auth)
    (h : execAction s signer pos act = some s') : auth = some signer :=
  execAction_authority s s' signer pos act auth hr h

/-- A bridge account can only be initialised by a transaction signed with its own key, and only
    if it is not a bridge account yet. -/
theorem C02_init_bridge_authorised (s s' : State) (signer : String) (pos : Nat) (r : Nat)
    (asset fa : String) (su w : Option String)
    (h : execAction s signer pos (.initBridge r asset fa su w) = some s') :
    lookup s.bridges signer = none ∧ (lookup s'.bridges signer).isSome :=
  initBridge_authorised s s' signer pos r asset fa su w h

/-- A bridge account cannot be the source of a plain transfer, a bridge lock or a bridge-less
    ICS20 withdrawal. -/
theorem C02_bridge_source_guard (s : State) (signer : String) (h : isBridge s signer = true) :
    (∀ to asset amount fa, mutableOk s signer (.transfer to asset amount fa) = false) ∧
    (∀ to asset amount fa dl, mutableOk s signer (.lock to asset amount fa dl) = false) ∧
    (∀ amount denom chan fa id blk ret, mutableOk s signer (.ics20 amount denom chan fa none id blk ret) = false) := by
  refine ⟨?_, ?_, ?_⟩ <;> intros <;> simp [mutableOk, h]

/-- Non-vacuity: the withdrawer may unlock, a former withdrawer may not. -/
example :
    let s : State := { postAspen := true, postBlackburn := true, sudo := "s", ibcSudo := "i",
                       bridges := [("b0", ⟨1, "nria", "a0", "a1", false⟩)] }
    mutableOk s "a1" (.unlock "a2" "b0" 5 "nria" "e0" 1) = true ∧
    mutableOk s "a3" (.unlock "a2" "b0" 5 "nria" "e0" 1) = false := by decide

/-- **Frame direction, one action.** Whatever action executes (fee payment included): if anything
    the sudo address owns (sudo address, IBC sudo address, fee schedule, allowed fee assets,
    validator set and pending updates, currency pairs with their counters, market map) differs
    afterwards, the signer is the sudo address of the state the action executed on; if the
    relayer set differs, the signer is the IBC sudo address; if the entry of a bridge account
    (rollup, asset, sudo, withdrawer, deposit switch) differs, the signer is that bridge
    account's sudo address — or the entry did not exist and the account created it itself. -/
theorem C02_priv_change_authorised (s s' : State) (signer : String) (pos : Nat) (act : Action)
    (h : execAction s signer pos act = some s') :
    (sudoOwned s' ≠ sudoOwned s → s.sudo = signer) ∧
    (s'.relayers ≠ s.relayers → s.ibcSudo = signer) ∧
    (∀ x, lookup s'.bridges x ≠ lookup s.bridges x →
      (∃ br, lookup s.bridges x = some br ∧ br.sudo = signer) ∨
      (x = signer ∧ lookup s.bridges x = none)) :=
  execAction_priv_change s s' signer pos act h

/-- **Frame direction, one transaction** (any number of actions; the authorities are those of
    the state the transaction starts on — a former holder, or a holder-to-be, cannot).  The
    relayer set can also change in a transaction of the sudo address that first re-assigns the
    IBC sudo address to itself. -/
theorem C02_tx_priv_change_authorised (s s' : State) (tx : Tx) (h : execTx s tx = .ok s') :
    (sudoOwned s' ≠ sudoOwned s → s.sudo = tx.signer) ∧
    (s'.relayers ≠ s.relayers → s.ibcSudo = tx.signer ∨ s.sudo = tx.signer) ∧
    (∀ x, lookup s'.bridges x ≠ lookup s.bridges x →
      (∃ br, lookup s.bridges x = some br ∧ br.sudo = tx.signer) ∨
      (x = tx.signer ∧ lookup s.bridges x = none)) :=
  execTx_priv_change s s' tx h

/-- ICS20 packets (receive, timeout, error acknowledgement) change no privileged state. -/
theorem C02_packets_change_no_privileged_state (s : State) :
    (∀ p : RecvPacket, sudoOwned (recvPacket s p).2 = sudoOwned s ∧
        (recvPacket s p).2.relayers = s.relayers ∧
        ∀ x, lookup (recvPacket s p).2.bridges x = lookup s.bridges x) ∧
    (∀ (p : RefundPacket) s', refundPacket s p = .ok s' → sudoOwned s' = sudoOwned s ∧
        s'.relayers = s.relayers ∧ ∀ x, lookup s'.bridges x = lookup s.bridges x) :=
  ⟨fun p => recvPacket_priv_frame s p, fun p s' h => refundPacket_priv_frame s s' p h⟩

/-- **Every step of every history.**  For each operation of a chain history (a transaction taking
    effect or failing, an ICS20 receive / timeout / acknowledgement, a block end): if it changes a
    bridge account's entry, the relayer set, or anything the sudo address owns apart from the
    validator set, then it is a transaction whose signer held that privilege in the state the
    step started on.  Since this holds for every state, it holds at every point of every history
    (`run` of `Ledger/Escrow.lean`), so a former holder — whose privilege was re-assigned at any
    earlier point — can change nothing. -/
theorem C02_every_step_attributed (s : State) (op : Op) :
    (sudoOwnedStatic (stepOp s op) ≠ sudoOwnedStatic s → ∃ t, op = .tx t ∧ s.sudo = t.signer) ∧
    ((stepOp s op).relayers ≠ s.relayers →
      ∃ t, op = .tx t ∧ (s.ibcSudo = t.signer ∨ s.sudo = t.signer)) ∧
    (∀ x, lookup (stepOp s op).bridges x ≠ lookup s.bridges x →
      ∃ t, op = .tx t ∧ ((∃ br, lookup s.bridges x = some br ∧ br.sudo = t.signer) ∨
        (x = t.signer ∧ lookup s.bridges x = none))) :=
  stepOp_priv_change s op

/-- The block end changes no privileged state except the validator set, and that only by
    applying the pending updates (which only sudo-signed transactions can create, by
    `C02_tx_priv_change_authorised`: `valUpdates` is part of `sudoOwned`). -/
theorem C02_block_end_applies_pending_updates_only (s : State) :
    sudoOwnedStatic (endBlock s).2.2 = sudoOwnedStatic s ∧
    (endBlock s).2.2.relayers = s.relayers ∧
    (∀ x, lookup (endBlock s).2.2.bridges x = lookup s.bridges x) ∧
    ((endBlock s).1 = true → (endBlock s).2.2.valUpdates = [] ∧
      (endBlock s).2.2.vals = if s.postAspen then s.vals else applyValUpdates s.vals s.valUpdates) :=
  endBlock_priv_frame s

/-- Non-vacuity of the frame theorems: a sudo change by the sudo address executes and changes
    what the sudo address owns; the same action signed by anybody else does not execute. -/
example :
    let s : State := { postAspen := true, postBlackburn := true, sudo := "s", ibcSudo := "i" }
    (∃ s', execAction s "s" 0 (.sudoChange "a0") = some s' ∧ sudoOwned s' ≠ sudoOwned s) ∧
    execAction s "a3" 0 (.sudoChange "a0") = none := by
  refine ⟨⟨_, rfl, by decide⟩, by decide⟩

end Astria
