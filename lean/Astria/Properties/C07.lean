import Astria.Block.Receive
import Astria.Block.FlatComplete
/-
  C07 — Rollup data is complete, ordered and provable from block to rollup.

  Only the property theorems.  `Hs` (the RFC 6962 hash triple and SHA-256) is arbitrary in
  every statement; tamper evidence is in extractor form (an accepted alteration yields an
  explicit collision, `BlockCollision`), and holds for every proof verifier that is a hash chain
  (`Verifier.Sound`), in particular for astria-merkle's index walk (`flatV`) and for the RFC 6962
  verifier (`rfcV`).
-/
namespace Astria
open Astria.Merkle Astria.Block

/-- For every block the builder produces: each rollup's stored data is exactly the payloads of
    that rollup's submissions in block order followed by its deposits; the list of rollup ids is
    strictly ascending (hence duplicate free) and is exactly the set of rollups that have a
    submission or a deposit entry. -/
theorem C07_data_exact (Hs : Hashes) (inp : BuildInput) (b : Block) (h : tryBuild Hs inp = .ok b) :
    (∀ r ∈ b.rollups, r.txs = expectedData inp.subs inp.deps r.id) ∧
    b.ids.Pairwise (fun x y => bytesLt x y = true) ∧
    (∀ id, id ∈ b.ids ↔ id ∈ inp.subs.map (·.1) ∨ id ∈ inp.deps.map (·.1)) :=
  built_data_exact Hs inp b h

/-- A proposer that places the commitments of `generate_rollup_datas_commitment` into the block
    always gets a block from `try_build` (for every block content). -/
theorem C07_honest_proposer_builds (Hs : Hashes) (inp : BuildInput) :
    ∃ b, tryBuild Hs (honest Hs inp) = .ok b := honest_builds Hs inp

/-- Every Merkle proof a built block carries (per rollup, rollup-transactions root, rollup-ids
    root, extended commit info) verifies against the commitments placed in its header. -/
theorem C07_proofs_verify (Hs : Hashes) (inp : BuildInput) (b : Block) (h : tryBuild Hs inp = .ok b) :
    (∀ r ∈ b.rollups, rfcVerify Hs.H r.proof (Hs.H.leaf (rollupLeaf Hs r.id r.txs)) b.header.txsRoot = true) ∧
    rfcVerify Hs.H b.txsProof (Hs.H.leaf (Hs.sha b.header.txsRoot)) b.header.dataHash = true ∧
    rfcVerify Hs.H b.idsProof (Hs.H.leaf (Hs.sha (treeRoot Hs b.ids))) b.header.dataHash = true ∧
    (∀ e, b.eci = some e → rfcVerify Hs.H e.proof (Hs.H.leaf (Hs.sha e.info)) b.header.dataHash = true) :=
  built_proofs_verify Hs inp b h

/-- A built block passes the checks of all three receivers: as a full block, filtered to any
    list of requested rollup ids, and split for Celestia (metadata checks and the conductor's
    audit of every rollup blob against the metadata). -/
theorem C07_built_block_accepted (Hs : Hashes) (hs : Hs.Sized) (eciOk : Bytes → EciCheck)
    (inp : BuildInput) (b : Block) (hb : tryBuild Hs inp = .ok b) (hids : inp.IdsOk) :
    FullAccepted (rfcCtx Hs eciOk) b ∧
    (∀ req, FilteredAccepted (rfcCtx Hs eciOk) (toFiltered b req)) ∧
    MetaAccepted (rfcCtx Hs eciOk) (split b).1 ∧
    (∀ blob ∈ (split b).2, verifyBlob (rfcCtx Hs eciOk) blob (split b).1 = .value true ∧
      blob.blockHash = (split b).1.blockHash) :=
  ⟨built_full_accepted Hs hs eciOk inp b hb hids,
   fun req => built_filtered_accepted Hs hs eciOk inp b hb hids req,
   built_meta_accepted Hs hs eciOk inp b hb hids,
   built_blobs_verify Hs hs eciOk inp b hb hids⟩

/-- **astria-merkle's index walk accepts RFC 6962 audit paths** (the refinement between the
    crate's flat in-order tree and the specification, for verification): in a tree of `n` leaves
    (`2n − 1` nodes, far below `usize`), walking `complete_parent` from leaf `i` along the RFC 6962
    audit path reconstructs the RFC 6962 tree hash, without leaving the tree. -/
theorem C07_index_walk_accepts_rfc_paths {β α : Type} (H : HashFns β α) (L : List β) (i : Nat) (y : β)
    (hy : L[i]? = some y) (hsmall : 2 * L.length - 1 < 2 ^ 62) :
    Flat.reconstructRoot H (2 * L.length - 1) (2 * i) (H.leaf y) (Rfc.path H i L) = .value (Rfc.mth H L) :=
  flat_path_complete H L i y hy hsmall

/-- The same as `C07_built_block_accepted` under **astria-merkle's own verifier** (`flatCtx`, with
    or without the repair of FB1), and through the raw protobuf form: a built block, encoded with
    `into_raw`, is accepted by `SequencerBlock::try_from_raw` and decodes to itself. -/
theorem C07_built_block_accepted_by_crate_verifier (Hs : Hashes) (hs : Hs.Sized) (eciOk : Bytes → EciCheck)
    (fix : Bool) (inp : BuildInput) (b : Block) (hb : tryBuild Hs inp = .ok b) (hids : inp.IdsOk)
    (hsm : inp.Small Hs) :
    FullAccepted (flatCtx Hs eciOk fix) b ∧
    (∀ req, FilteredAccepted (flatCtx Hs eciOk fix) (toFiltered b req)) ∧
    MetaAccepted (flatCtx Hs eciOk fix) (split b).1 ∧
    (∀ blob ∈ (split b).2, verifyBlob (flatCtx Hs eciOk fix) blob (split b).1 = .value true ∧
      blob.blockHash = (split b).1.blockHash) ∧
    (inp.WF eciOk → fullFromRaw (flatCtx Hs eciOk fix) b.toRaw = .value (.ok b)) :=
  ⟨built_full_accepted_flat Hs hs eciOk fix inp b hb hids hsm,
   fun req => built_filtered_accepted_flat Hs hs eciOk fix inp b hb hids hsm req,
   (built_celestia_accepted_flat Hs hs eciOk fix inp b hb hids hsm).1,
   (built_celestia_accepted_flat Hs hs eciOk fix inp b hb hids hsm).2,
   fun hwf => built_full_roundtrip_flat Hs hs eciOk fix inp b hb hids hsm hwf⟩

/-- Filtering a built block to any requested list of rollup ids serves exactly the stored
    entries of the requested rollups that are present, the unchanged list of all rollup ids and
    the unchanged header and proofs. -/
theorem C07_filter_serves_exactly (Hs : Hashes) (inp : BuildInput) (b : Block) (hb : tryBuild Hs inp = .ok b)
    (req : List Bytes) :
    (∀ r, r ∈ (toFiltered b req).rollups ↔ r ∈ b.rollups ∧ r.id ∈ req) ∧
    (toFiltered b req).allIds = b.ids ∧ (toFiltered b req).header = b.header ∧
    (toFiltered b req).txsProof = b.txsProof ∧ (toFiltered b req).idsProof = b.idsProof :=
  ⟨fun r => ⟨fun h => ⟨toFiltered_subset b req r h, toFiltered_ids b req r h⟩,
             fun h => toFiltered_complete b (built_ids_nodup Hs inp b hb) req r h.1 h.2⟩,
   rfl, rfl, rfl, rfl⟩

/-- The sequencer's gRPC service (`get_filtered_sequencer_block`) serves, for a built block and
    any request, the block's list of rollup ids and exactly the stored entries of the requested
    rollups that are present (a repeated request repeats the entry). -/
theorem C07_grpc_filter_serves_exactly (Hs : Hashes) (inp : BuildInput) (b : Block) (hb : tryBuild Hs inp = .ok b)
    (req : List Bytes) :
    (grpcFiltered b req).allIds = b.ids ∧
    (∀ r ∈ (grpcFiltered b req).rollups, ∃ x ∈ b.rollups, r = x.toRaw ∧ x.id ∈ req) ∧
    (∀ x ∈ b.rollups, x.id ∈ req → x.toRaw ∈ (grpcFiltered b req).rollups) :=
  grpcFiltered_exact Hs inp b hb req

/-- Both proof verifiers — the RFC 6962 specification and astria-merkle's index walk — are hash
    chains, which is all the tamper-evidence theorems below assume. -/
theorem C07_verifiers_sound (Hs : Hashes) :
    Verifier.Sound Hs (rfcV Hs) ∧ Verifier.Sound Hs (flatV Hs) := ⟨rfcV_sound Hs, flatV_sound Hs⟩

/-- **Full block.**  Whatever `SequencerBlock::try_from_raw` accepts under the data hash of a
    built block has the built block's rollup ids and per-rollup data (altered, reordered,
    truncated, extended or re-attributed data is rejected) and its rollup transactions root —
    or an explicit hash collision is exhibited. -/
theorem C07_full_tamper_evident (c : Ctx) (hs : c.Hs.Sized) (hV : Verifier.Sound c.Hs c.V)
    (inp : BuildInput) (b : Block) (hb : tryBuild c.Hs inp = .ok b) (hids : inp.IdsOk) (hitems : inp.ItemsOk)
    (raw : BlockRaw) (b' : Block) (hacc : fullFromRaw c raw = .value (.ok b'))
    (hdh : b'.header.dataHash = b.header.dataHash) :
    BlockCollision c.Hs ∨ (b'.content = b.content ∧ b'.header.txsRoot = b.header.txsRoot) :=
  full_tamper_evident c hs hV inp b hb hids hitems b' (fullFromRaw_accepted c raw b' hacc) hdh

/-- **Filtered block.**  Every rollup entry of a filtered block that
    `FilteredSequencerBlock::try_from_raw` accepts under the data hash of a built block is an
    entry (id and data) of the built block, and the list of all rollup ids is the built block's —
    or a collision is exhibited. -/
theorem C07_filtered_tamper_evident (c : Ctx) (hs : c.Hs.Sized) (hV : Verifier.Sound c.Hs c.V)
    (inp : BuildInput) (b : Block) (hb : tryBuild c.Hs inp = .ok b) (hids : inp.IdsOk) (hitems : inp.ItemsOk)
    (raw : FilteredRaw) (f : Filtered) (hacc : filteredFromRaw c raw = .value (.ok f))
    (hdh : f.header.dataHash = b.header.dataHash) :
    BlockCollision c.Hs ∨ ((∀ r ∈ f.rollups, (r.id, r.txs) ∈ b.content) ∧ f.allIds = b.ids) :=
  filtered_tamper_evident c hs hV inp b hb hids hitems f (filteredFromRaw_accepted c raw f hacc) hdh

/-- **Celestia form.**  Metadata that `SubmittedMetadata::try_from_raw` accepts under the data
    hash of a built block lists the built block's rollup ids; and a decoded rollup blob that
    passes the conductor's audit against that metadata carries exactly the data of its rollup
    in the built block — or a collision is exhibited. -/
theorem C07_celestia_tamper_evident (c : Ctx) (hs : c.Hs.Sized) (hV : Verifier.Sound c.Hs c.V)
    (inp : BuildInput) (b : Block) (hb : tryBuild c.Hs inp = .ok b) (hids : inp.IdsOk) (hitems : inp.ItemsOk)
    (raw : MetaRaw) (m : Meta) (hacc : metaFromRaw c raw = .value (.ok m))
    (hdh : m.header.dataHash = b.header.dataHash)
    (rawBlob : BlobRaw) (blob : Blob) (hblob : blobFromRaw rawBlob = .value (.ok blob))
    (hv : verifyBlob c blob m = .value true) :
    BlockCollision c.Hs ∨
      (m.ids = b.ids ∧ (blob.id, blob.txs) ∈ b.content ∧ blob.txs = expectedData inp.subs inp.deps blob.id) := by
  have hm := metaFromRaw_accepted c raw m hacc
  have hl := blobFromRaw_ok rawBlob blob hblob
  rcases celestia_tamper_evident c hs hV inp b hb hids hitems m hm hdh with col | ⟨h1, h2⟩
  · exact Or.inl col
  · rcases attached_data_exact c hs hV inp b hb hids hitems m hm hdh blob hl hv with col | h3
    · exact Or.inl col
    · exact Or.inr ⟨h1, h2 blob hl hv, h3⟩

/-- **Receiver attribution, with the rollup-id check** (`reconstruct … true`: the code as repaired by `fix:` 793934a,
    for DESIGN §7 F10): every reconstructed block is either an empty block for a header that does
    not list the conductor's rollup, or carries the transactions of a blob *of the conductor's
    rollup* that passed the audit against the root of the header with the same block hash. -/
theorem C07_receiver_attribution (c : Ctx) (rollupId : Bytes) (hs : List Meta) (blobs : List Blob)
    (out : List Reconstructed) (h : reconstruct c true rollupId hs blobs = .value out) :
    ∀ r ∈ out,
      (r.txs = [] ∧ ∃ m ∈ hs, rollupId ∉ m.ids ∧ r.blockHash = m.blockHash ∧ r.header = m.header) ∨
      (∃ blob ∈ blobs, ∃ m ∈ hs, blob.id = rollupId ∧ m.blockHash = blob.blockHash ∧
        verifyBlob c blob m = .value true ∧ r = ⟨m.blockHash, m.header, blob.txs⟩) :=
  reconstruct_attribution c rollupId hs blobs out h

/-- **As the code was at the pinned commit** (`reconstruct … false`, no rollup-id check; kept as the regression witness of F10): what is attached to a header is bound to that
    header's root and block hash — but it may be another rollup's blob (next theorem). -/
theorem C07_receiver_bound_partial (c : Ctx) (rollupId : Bytes) (hs : List Meta) (blobs : List Blob)
    (out : List Reconstructed) (h : reconstruct c false rollupId hs blobs = .value out) :
    ∀ r ∈ out,
      (r.txs = [] ∧ ∃ m ∈ hs, rollupId ∉ m.ids ∧ r.blockHash = m.blockHash ∧ r.header = m.header) ∨
      (∃ blob ∈ blobs, ∃ m ∈ hs, m.blockHash = blob.blockHash ∧
        verifyBlob c blob m = .value true ∧ r = ⟨m.blockHash, m.header, blob.txs⟩) :=
  reconstruct_bound c false rollupId hs blobs out h

/-! ### Non-vacuity and the counterexample for `reconstruct.rs` as pinned (before 793934a) -/

/-- position-weighted byte sum, the ingredient of the toy digest -/
def wsum : Nat → Bytes → Nat
  | _, [] => 0
  | i, b :: bs => (i + 1) * (b.toNat + 1) + wsum (i + 1) bs

def spread (s : Nat) : Bytes := (List.range 32).map fun k => UInt8.ofNat (s * (2 * k + 1) + k)

/-- A toy digest with 32-byte output that depends on every input byte and its position (far from
    collision free; used only to evaluate examples). -/
def toyDigest (tag : Nat) (x : Bytes) : Bytes := spread (tag + wsum 0 x)

def toyHs : Hashes where
  H := { leaf := fun x => toyDigest 1 x, node := fun a b => toyDigest 2 (a ++ b), empty := toyDigest 3 [] }
  sha := fun x => toyDigest 4 x

theorem toyHs_sized : toyHs.Sized := by
  constructor <;> intros <;> simp [toyHs, toyDigest, spread]

def idA : Bytes := List.replicate 32 1
def idB : Bytes := List.replicate 32 2

/-- Two rollups: A with two submissions, B with one submission and one deposit. -/
def exInput : BuildInput :=
  { blockHash := List.replicate 32 9, chainId := [97], height := 5, secs := 1, nanos := 2,
    proposer := List.replicate 20 7,
    subs := [(idB, [11]), (idA, [21]), (idA, [22])], deps := [(idB, [[12, 34]])],
    txsRoot := [], idsRoot := [], uch := [], eci := none, userTxs := [[1, 2, 3]] }

/-- the example block exists, lists A before B, and stores A's submissions in block order -/
example : (match tryBuild toyHs (honest toyHs exInput) with
    | .ok b => b.content == [(idA, [encSequenced [21], encSequenced [22]]), (idB, [encSequenced [11], [12, 34]])]
    | .error _ => false) = true := by decide +kernel

/-- The conductor of rollup A, given the metadata of the example block and only rollup B's
    (valid) blob: the unchanged code reconstructs a block carrying B's transactions; with the
    rollup-id check nothing is reconstructed. -/
def attributionCounterexample : Bool :=
  match tryBuild toyHs (honest toyHs exInput) with
  | .error _ => false
  | .ok b =>
    match (split b).2 with
    | [_blobA, blobB] =>
      let c := rfcCtx toyHs (fun _ => .ok)
      blobB.id != idA &&
      blobB.txs != expectedData exInput.subs exInput.deps idA &&
      reconstruct c false idA [(split b).1] [blobB] == .value [⟨b.blockHash, b.header, blobB.txs⟩] &&
      reconstruct c true idA [(split b).1] [blobB] == .value []
    | _ => false

/-- **Not true of `reconstruct.rs` as pinned, before 793934a** (DESIGN §7 F10): the rollup blob's rollup id
    is never compared with the conductor's. -/
theorem C07_receiver_attribution_counterexample : attributionCounterexample = true := by decide +kernel

end Astria
