import Astria.Ledger.Authority
import Astria.Ledger.Withdrawals
/-
  C04 — Bridge solvency: deposits are backed, withdrawals are paid at most once.
-/
namespace Astria
open Astria.Ledger

/-- Every Deposit an action emits is accompanied, in the same effect list (so in the same
    transaction delta: both happen or neither), by an equal credit of the named bridge account,
    and names that bridge account's rollup. -/
theorem C04_deposit_backed (s : State) (signer : String) (pos : Nat) (act : Action) (d : Deposit)
    (h : Effect.deposit d ∈ actionEffects s signer pos act) :
    Effect.credit d.bridge d.asset d.amount ∈ actionEffects s signer pos act ∧
    d.rollup = bridgeRollup s d.bridge := action_deposit_backed s signer pos act d h

/-- …and, given the action's construction-time checks, is denominated in the bridge's asset. -/
theorem C04_deposit_asset (s : State) (signer : String) (pos : Nat) (act : Action) (d : Deposit)
    (hi : immutableOk s act = true) (h : Effect.deposit d ∈ actionEffects s signer pos act) :
    d.asset = bridgeAsset s d.bridge := action_deposit_asset s signer pos act d hi h

/-- A received ICS20 packet emits a deposit only for a bridge-account recipient with deposits
    enabled, in that bridge's asset and rollup, for exactly the packet's amount, and together
    with the equal credit. -/
theorem C04_recv_deposit_backed (s : State) (p : RecvPacket) (fx : List Effect) (d : Deposit)
    (hp : recvPlan s p = some fx) (h : Effect.deposit d ∈ fx) :
    Effect.credit d.bridge d.asset d.amount ∈ fx ∧
    ∃ b, lookup s.bridges d.bridge = some b ∧ b.asset = d.asset ∧ b.rollup = d.rollup ∧
      b.disabled = false ∧ d.amount = p.amount := recv_deposit_backed s p fx d hp h

/-- A refund (timeout or error acknowledgement) publishes a deposit only for a withdrawal that
    came from a rollup and only to a bridge account, in that bridge's asset and rollup, with the
    equal credit in the same (all-or-nothing) effect list. -/
theorem C04_refund_deposit_backed (s : State) (p : RefundPacket) (fx : List Effect) (d : Deposit)
    (hp : refundPlan s p = some fx) (h : Effect.deposit d ∈ fx) :
    Effect.credit d.bridge d.asset d.amount ∈ fx ∧ p.memo = .fromRollup ∧
    ∃ b, lookup s.bridges d.bridge = some b ∧ b.asset = d.asset ∧ b.rollup = d.rollup ∧
      d.amount = p.amount := refund_deposit_backed s p fx d hp h

/-- No Deposit is published on behalf of a transaction or packet that did not take effect. -/
theorem C04_no_orphan_deposit (s : State) :
    (∀ tx e, execTx s tx = .error e → (stepTx s tx).deposits = s.deposits) ∧
    (∀ p, (recvPacket s p).1 = false → (recvPacket s p).2.deposits = s.deposits) := by
  constructor
  · intro tx e h; rw [stepTx_error s tx e h]
  · intro p h; exact (recv_failed_no_deposit s p h).1

/-- A withdrawal event id is honoured at most once per bridge account, whichever action type
    carries it: a carrier (unlock, bridge transfer, ICS20 withdrawal from a bridge) executes only
    on a state in which its (bridge, id) is unrecorded, and leaves it recorded… -/
theorem C04_withdrawal_once (s s' : State) (signer : String) (pos : Nat) (act : Action)
    (b id : String) (hc : carrier act = some (b, id)) (h : execAction s signer pos act = some s') :
    (lookup s'.wd (b, id)).isSome ∧
    ∃ s1, mutableOk s1 signer act = true ∧ lookup s1.wd (b, id) = none :=
  execAction_carrier s s' signer pos act b id hc h

/-- …and no effect of any later action, packet or block end ever un-records it. -/
theorem C04_withdrawal_recorded_forever (fx : List Effect) (s s' : State) (k : String × String)
    (h : applyEffects s fx = some s') (hk : (lookup s.wd k).isSome) : (lookup s'.wd k).isSome :=
  applyEffects_wd_mono fx s s' k h hk

/-- A carrier whose id is already recorded fails its mutable checks. -/
theorem C04_replayed_withdrawal_rejected (s : State) (signer : String) (act : Action)
    (k : String × String) (hc : carrier act = some k) (hk : (lookup s.wd k).isSome) :
    mutableOk s signer act = false := by
  cases hm : mutableOk s signer act with
  | false => rfl
  | true => have := carrier_requires_fresh s signer act k hc hm; simp [this] at hk

/-- **Withdrawals are paid at most once — every history.**  From any state, along every sequence
    of transactions (taking effect or failing; any signers, nonces and bundles), ICS20 packets and
    block ends, the number of times a given (bridge account, rollup withdrawal event id) is
    honoured — counted over all three carrier kinds and all transactions that take effect — is at
    most one. -/
theorem C04_withdrawal_once_history (k : String × String) (ops : List Op) (s : State) :
    totalHonoured k s ops ≤ 1 :=
  withdrawal_once_history k ops s

/-- …and zero once the id is on record. -/
theorem C04_recorded_withdrawal_never_honoured (k : String × String) (ops : List Op) (s : State)
    (hk : (lookup s.wd k).isSome) : totalHonoured k s ops = 0 :=
  totalHonoured_zero_of_recorded k ops s hk

/-- Non-vacuity: the withdrawer unlocks with event id "e0"; a second unlock and a bridge transfer
    carrying the same id fail; the id was honoured exactly once. -/
example :
    let s : State := { postAspen := true, postBlackburn := true, sudo := "s", ibcSudo := "i",
                       bal := [(("b0", "nria"), 100), (("a1", "nria"), 100)],
                       bridges := [("b0", ⟨1, "nria", "a0", "a1", false⟩), ("b1", ⟨2, "nria", "a0", "a1", false⟩)],
                       fees := [(.unlock, ⟨1, 0⟩), (.bridgeTransfer, ⟨1, 0⟩)], feeAssets := ["nria"] }
    let ops := [Op.tx ⟨"a1", 0, [.unlock "a2" "b0" 5 "nria" "e0" 1]⟩,
                Op.tx ⟨"a1", 1, [.unlock "a2" "b0" 5 "nria" "e0" 1]⟩,
                Op.tx ⟨"a1", 1, [.bridgeTransfer "b1" "b0" 5 "nria" "e0" 1 3]⟩,
                Op.endBlock]
    totalHonoured ("b0", "e0") s ops = 1 ∧ getN (run s ops).bal ("a2", "nria") = 5 := by
  decide

end Astria
