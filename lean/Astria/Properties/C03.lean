import Astria.Ledger.Theorems
import Astria.Ledger.History
/-
  C03 — Transactions are atomic and execute at most once, in nonce order.
-/
namespace Astria
open Astria.Ledger

/-- A transaction takes effect only if its nonce equals the signer's current nonce; a successful
    execution raises that nonce by exactly one and changes no other account's nonce. -/
theorem C03_nonce_gate (s s' : State) (tx : Tx) (h : execTx s tx = .ok s') :
    getN s.nonce tx.signer = tx.nonce ∧ getN s'.nonce tx.signer = tx.nonce + 1 ∧
    ∀ x, x ≠ tx.signer → getN s'.nonce x = getN s.nonce x := execTx_nonce_gate s s' tx h

/-- Along any history of transactions (valid, invalid, replays, any interleaving of signers),
    from any state, a given signed transaction takes effect at most once. -/
theorem C03_no_replay (tx : Tx) (hist : List Tx) (s : State) : successes tx s hist ≤ 1 :=
  no_replay tx hist s

/-- A transaction that fails — wrong nonce, nonce overflow, or any action of the bundle failing
    its checks, its fee payment or its execution — leaves the chain state exactly as it was: no
    balance, nonce, block-fee, deposit, event or other write of its earlier actions survives.
    (In the model this is by construction of `execTx`; its tie to the code is the correspondence
    run, which diffs the complete state after every failing transaction.) -/
theorem C03_atomic (s : State) (tx : Tx) (e : Err) (h : execTx s tx = .error e) : stepTx s tx = s :=
  stepTx_error s tx e h

/-- At nonce `u32::MAX` a transaction fails. -/
theorem C03_nonce_overflow (s : State) (tx : Tx) (h1 : getN s.nonce tx.signer = U32_MAX)
    (h2 : tx.nonce = U32_MAX) : execTx s tx = .error .nonceOverflow := by
  unfold execTx
  simp [h1, h2, U32_MAX]

/-- Non-vacuity: the same transfer succeeds once and fails when replayed. -/
example :
    let s : State := { postAspen := true, postBlackburn := true, sudo := "s", ibcSudo := "i" }
    let tx : Tx := ⟨"a0", 0, [.sudoChange "a1"]⟩
    successes tx { s with sudo := "a0" } [tx, tx] = 1 := by decide

/-- **At most once, every mixed history.**  Along any sequence of transactions of any signers
    (taking effect or failing), ICS20 receives / timeouts / acknowledgements and block ends, from
    any state, a given signed transaction takes effect at most once: packets and block ends never
    move a nonce (`stepOp_nonce_mono`), so nothing re-opens the nonce gate. -/
theorem C03_no_replay_history (tx : Tx) (ops : List Op) (s : State) : successesOp tx s ops ≤ 1 :=
  no_replay_history tx ops s

end Astria
