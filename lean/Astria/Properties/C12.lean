import Astria.Relayer.Drain
/-
  C12 — Relayer batching preserves every block exactly and respects the payload bound.

  Only the property theorems; each is a thin corollary of the invariant `Astria.Relayer.Inv`
  (`Astria/Relayer/Loop.lean`) which is proved by induction over ALL sequences of loop events
  (`recv block` / `take` / `done`), for every starting height, every rollup filter, every
  namespace function, every limit and EVERY compressed-size function `csize`.
-/
namespace Astria
open Astria.Relayer

/-- **Exactly once, in order.** After any sequence of loop events the metadata entries of all
    emitted submissions, then those of the accumulating batch, then the pending block, (then
    the one block whose re-add after a take failed hard, which implies the loop has failed)
    are exactly the accepted blocks' metadata, in the order the blocks were handed over: no
    block is lost, none is duplicated, none is reordered — whatever the filter. -/
theorem C12_exactly_once (cfg : Cfg) (last : Nat) (ops : List Op) :
    let r := run cfg last ops
    metasOf r.emitted ++ r.s.next.input.metadata ++ r.s.pending.toList.map (·.md) ++ r.lost.map (·.md)
      = r.accepted.map (·.md) ∧
    (r.lost ≠ [] → r.s.failed = true) :=
  let h := inv_run cfg last ops
  ⟨h.metaEq, h.lostFailed⟩

/-- **Nothing handed over is dropped silently.** A block offered to the loop is not consumed
    (loop already stopped, or no capacity because a block is pending: it stays in the channel),
    or skipped because its height is not above the last submitted height, or accepted, or it
    stops the loop with a hard error — and that hard error is `OversizedBlock` only on an EMPTY
    batch, otherwise a failed payload construction. -/
theorem C12_no_silent_drop (cfg : Cfg) (r : Run) (b : Block) :
    ((r.s.failed = true ∨ r.s.pending.isSome = true) ∧ r.step cfg (.recv b) = r) ∨
    (b.height ≤ r.s.last ∧ (r.step cfg (.recv b)).skipped = r.skipped ++ [b] ∧
      (r.step cfg (.recv b)).accepted = r.accepted ∧ (r.step cfg (.recv b)).s = r.s) ∨
    ((r.step cfg (.recv b)).accepted = r.accepted ++ [b] ∧ (r.step cfg (.recv b)).fatal = r.fatal ∧
      (r.step cfg (.recv b)).s.failed = r.s.failed) ∨
    ((r.step cfg (.recv b)).fatal = r.fatal ++ [b] ∧ (r.step cfg (.recv b)).s.failed = true ∧
      (r.step cfg (.recv b)).accepted = r.accepted ∧ r.s.next.input.metadata = [] ∨
     (r.step cfg (.recv b)).fatal = r.fatal ++ [b] ∧ (r.step cfg (.recv b)).s.failed = true ∧
      (r.step cfg (.recv b)).accepted = r.accepted ∧
      ∃ e, (r.s.next.input.extend cfg b).tryIntoPayload cfg = .error e) :=
  recv_outcome cfg r b

/-- **A block that is too large on its own is a hard error, never bounced.** `try_add` into an
    empty batch never answers `Full`, so the pending-block hand-over after a take either
    succeeds or stops the loop; a block can never circulate as "pending" forever. -/
theorem C12_oversized_is_hard_error (cfg : Cfg) (s : Next) (b b' : Block)
    (h : s.input.metadata = []) : (s.tryAdd cfg b).2 ≠ .full b' :=
  tryAdd_empty_not_full cfg s b b' h

/-- **The hand-over is live.** From every reachable state, two rounds of "in-flight submission
    completes, take" leave the submitter empty (no accumulating batch, no pending block) unless
    the loop stopped with a hard error: together with `C12_exactly_once` every accepted block
    then sits in exactly one emitted submission. -/
theorem C12_drain (cfg : Cfg) (last : Nat) (ops : List Op) :
    let r := run cfg last (ops ++ [.done, .take, .done, .take])
    r.s.failed = true ∨
      (r.s.next = {} ∧ r.s.pending = none ∧ metasOf r.emitted = r.accepted.map (·.md) ∧
        ∀ n, dataOf n r.emitted = r.accepted.flatMap (blockData cfg n)) := by
  intro r
  by_cases hf : r.s.failed = true
  · exact Or.inl hf
  · right
    have hf' : r.s.failed = false := by simpa using hf
    have hinv : Inv cfg r := inv_run cfg last (ops ++ [.done, .take, .done, .take])
    have hs : r.s = ((((((((run cfg last ops).s.step cfg .done).1).step cfg .take).1).step cfg .done).1).step cfg .take).1 := by
      simp only [r, run, List.foldl_append, List.foldl_cons, List.foldl_nil, Run.step_s]
    have hd := drain cfg (run cfg last ops).s (ready_of_inv cfg _ (inv_run cfg last ops))
    simp only at hd
    rw [← hs] at hd
    rcases hd with hff | ⟨hn, hp⟩
    · exact absurd hff hf
    · have hl0 := lost_nil_of_not_failed cfg r hinv hf'
      have hm := hinv.metaEq
      rw [hn, hp, hl0] at hm
      refine ⟨hn, hp, by simpa using hm, fun n => ?_⟩
      have := hinv.dataEq n
      rw [hn, hp, hl0] at this
      simpa [dataFor] using this

/-- **Increasing height order.** If blocks are handed over in strictly increasing height order
    (what the reader task does), the emitted submissions, concatenated, carry them in strictly
    increasing height order — hence so does each submission — and the height a submission
    reports as its greatest is the maximum of the heights it carries. -/
theorem C12_height_order (cfg : Cfg) (last : Nat) (ops : List Op) :
    let r := run cfg last ops
    ((r.accepted.map (·.height)).Pairwise (· < ·) →
        ((metasOf r.emitted).map (·.height)).Pairwise (· < ·) ∧
        ∀ sub ∈ r.emitted, (sub.input.metadata.map (·.height)).Pairwise (· < ·)) ∧
    ∀ sub ∈ r.emitted,
      (∃ m ∈ sub.input.metadata, m.height = sub.greatest) ∧
      ∀ m ∈ sub.input.metadata, m.height ≤ sub.greatest := by
  intro r
  have h : Inv cfg r := inv_run cfg last ops
  refine ⟨fun hp => ?_, fun sub hm => greatest_is_max cfg sub (h.emittedWF sub hm)⟩
  have hpre : ((metasOf r.emitted).map (·.height)).Sublist (r.accepted.map (·.height)) := by
    have hm := h.metaEq
    have : (r.accepted.map (·.height)) = (r.accepted.map (·.md)).map (·.height) := by
      simp [Block.height]
    rw [this, ← hm]
    simp only [List.map_append, List.append_assoc]
    exact List.sublist_append_left _ _
  have hflat := List.Pairwise.sublist hpre hp
  refine ⟨hflat, fun sub hm => ?_⟩
  exact List.Pairwise.sublist (List.Sublist.map _ (metadata_sublist r.emitted sub hm)) hflat

/-- The same, stated on the stream the loop is offered: if the blocks arriving on the channel
    have strictly increasing heights, every sequence of loop events emits them in strictly
    increasing height order. -/
theorem C12_height_order_stream (cfg : Cfg) (last : Nat) (ops : List Op)
    (h : ((recvBlocks ops).map (·.height)).Pairwise (· < ·)) :
    ((metasOf (run cfg last ops).emitted).map (·.height)).Pairwise (· < ·) := by
  obtain ⟨X, hX, hs⟩ := accepted_sublist cfg ops (Run.init last)
  have hacc : (run cfg last ops).accepted = X := by
    simpa [run, Run.init] using hX
  refine ((C12_height_order cfg last ops).1 ?_).1
  rw [hacc]
  exact List.Pairwise.sublist (List.Sublist.map _ hs) h

/-- **Payload bound.** Every submission `take` hands out is non-empty, its blobs are exactly
    `try_into_payload` of its input (metadata list under the sequencer namespace, one list per
    rollup namespace), the size it accounts is the compressed size of exactly those blobs, and
    that size is at most the limit — for every size function. -/
theorem C12_payload_bound (cfg : Cfg) (last : Nat) (ops : List Op) :
    ∀ sub ∈ (run cfg last ops).emitted,
      sub.input.metadata ≠ [] ∧
      ∃ s, sub.input.seqNs = some s ∧ sub.payload.blobs = sub.input.blobs s ∧
        cfg.csize sub.payload.blobs = some sub.payload.size ∧ sub.payload.size ≤ cfg.max := by
  intro sub hm
  have hw := (inv_run cfg last ops).emittedWF sub hm
  exact ⟨hw.1, wf_payload cfg sub hw⟩

/-- **The filter removes only filtered rollups' data.** For every namespace, the rollup entries
    of the emitted submissions, the accumulating batch, the pending block (and a block lost to
    a hard error) are exactly the accepted blocks' entries whose rollup passes the filter and
    maps to that namespace, in order. (Metadata is not filtered at all: `C12_exactly_once` does
    not mention the filter.) With the empty filter nothing is removed. -/
theorem C12_filter_only_drops_data (cfg : Cfg) (last : Nat) (ops : List Op) :
    let r := run cfg last ops
    (∀ n, dataOf n r.emitted ++ dataFor n r.s.next.input.rollupData ++
        r.s.pending.toList.flatMap (blockData cfg n) ++ r.lost.flatMap (blockData cfg n) =
        r.accepted.flatMap (fun b => b.rollups.filter
          (fun e => shouldInclude cfg.filter e.rollup && decide (cfg.ns e.rollup = n)))) ∧
    (cfg.filter = [] → ∀ n b, blockData cfg n b = b.rollups.filter (fun e => decide (cfg.ns e.rollup = n))) := by
  intro r
  refine ⟨(inv_run cfg last ops).dataEq, ?_⟩
  intro hf n b
  simp [blockData, shouldInclude, hf]

/-- **Decode round trip.** Decoding the blobs of any emitted submission the way conductor does
    (select by namespace, concatenate the decoded lists) gives back exactly the submission's
    metadata entries under the sequencer namespace and, for every namespace, exactly the rollup
    entries stored for it. -/
theorem C12_decode_roundtrip (cfg : Cfg) (last : Nat) (ops : List Op) :
    ∀ sub ∈ (run cfg last ops).emitted,
      sub.decodedMeta = sub.input.metadata ∧
      ∀ n, decodeRollup n sub.payload.blobs = dataFor n sub.input.rollupData := by
  intro sub hm
  exact wf_decode cfg sub ((inv_run cfg last ops).emittedWF sub hm)

/-- **What conductor sees, end to end.** Once the submitter has drained (two completion/take
    rounds) without a hard error, decoding all emitted submissions yields every accepted
    block's metadata exactly once and in order, and for every namespace exactly the accepted
    blocks' unfiltered rollup entries, in order. -/
theorem C12_conductor_view (cfg : Cfg) (last : Nat) (ops : List Op) :
    let r := run cfg last (ops ++ [.done, .take, .done, .take])
    r.s.failed = true ∨
      (r.emitted.flatMap (·.decodedMeta) = r.accepted.map (·.md) ∧
        ∀ n, r.emitted.flatMap (fun sub => decodeRollup n sub.payload.blobs) =
          r.accepted.flatMap (blockData cfg n)) := by
  intro r
  rcases C12_drain cfg last ops with hf | ⟨_, _, hm, hd⟩
  · exact Or.inl hf
  · right
    have hdec := decoded_all cfg r.emitted (inv_run cfg last _).emittedWF
    exact ⟨hdec.1.trans hm, fun n => (hdec.2 n).trans (hd n)⟩

/-! ### non-vacuity: a concrete run that exercises hand-over, filter and the limit -/

section Example

/-- size = number of entries in the payload; limit 5 -/
private def cnt (bs : List Blob) : Option Nat :=
  some (bs.foldl (fun a b => a + match b.body with
    | .metaList es => es.length
    | .rollupList es => es.length) 0)

private def cfg0 : Cfg := { filter := ["aa", "ab"], ns := fun r => (r.take 1).toString, csize := cnt, max := 5 }

private def blk (h : Nat) (rs : List String) : Block :=
  ⟨⟨h, "seq", s!"m{h}"⟩, rs.map (fun r => ⟨r, s!"{r}{h}"⟩)⟩

private def ops0 : List Op :=
  [.recv (blk 1 ["aa"]), .recv (blk 2 ["aa", "ab", "cc"]), .recv (blk 3 ["aa", "cc"]), .recv (blk 4 []),
   .take, .recv (blk 4 []), .done, .take, .done, .take]

/-- block 3 does not fit behind 1 and 2 (2+3+2 = 7 > 5), becomes pending, `recv 4` finds no
    capacity, the take hands 3 over, 4 is accepted afterwards; rollup `cc` is filtered, `aa`
    and `ab` share namespace `a`. -/
example : ((run cfg0 0 ops0).emitted.map (fun s => s.input.metadata.map (·.height))) = [[1, 2], [3, 4]] := by
  decide

example : ((run cfg0 0 ops0).emitted.map (fun s => (decodeRollup "a" s.payload.blobs).map (·.digest))) =
    [["aa1", "aa2", "ab2"], ["aa3"]] := by decide

example : ((run cfg0 0 ops0).emitted.map (·.payload.size)) = [5, 3] ∧ (run cfg0 0 ops0).s.failed = false ∧
    (run cfg0 0 ops0).accepted.map (·.height) = [1, 2, 3, 4] := by decide

/-- a block that is too large alone stops the loop (here 1 metadata + 5 entries = 6 > 5) -/
example : (run cfg0 0 [.recv (blk 1 ["aa", "aa", "aa", "aa", "aa"])]).s.failed = true ∧
    (run cfg0 0 [.recv (blk 1 ["aa", "aa", "aa", "aa", "aa"])]).fatal.map (·.height) = [1] := by decide

end Example

end Astria
