import Astria.Abci.Theorems
import Astria.Abci.Examples
/-!
# C05 — Block execution is deterministic and independent of a node's ABCI call path

Property theorems only (thin restatements of `Astria/Abci/Theorems.lean`).  `Prims S` are the
opaque phases of block execution (`pre`, transaction construction / execution, `post`, `prices`,
…) over an arbitrary state type; `step` is the code's control flow: the `ExecutionState`
fingerprint, the skip decisions, the early bails.  A *schedule* is any list of `PrepareProposal` /
`ProcessProposal` / restart calls (own, foreign, accepted or rejected proposals, any number of
rounds) issued on a node whose committed state is `σ`, before `FinalizeBlock(b)` and `Commit`.
-/
namespace Astria
open Astria.Abci

variable {S : Type} (p : Prims S)

/-- **The fingerprint checks are sound, for every schedule.** After any schedule on the committed
state `σ`: `check_if_prepared_proposal(c)` answers `true` only if the working state and the cached
results are exactly what `prepare_proposal` produced on `σ` for a request/response pair with
fingerprint `c`; `check_if_executed_block(h)` answers `true` only if the working state was
produced by executing, on `σ`, a proposal of this schedule with block hash `h` (by
`process_proposal`'s own execution, or by the cached `prepare_proposal` execution of the
byte-identical proposal) followed by `post_execute_transactions` for that proposal. -/
theorem C05_fingerprint_sound (σ : S) (cs : List Call) (hlegal : ∀ c ∈ cs, PreCall c) :
    let a := runCalls p (AppState.init σ) cs
    (∀ c e', a.exec.checkPrepared c = (e', true) → PreparedOk p σ a c) ∧
    (∀ h e', a.exec.checkExecuted h = (e', true) →
      ∃ cp, a.exec = .executedBlock h cp ∧ ExecutedOk p σ cs a h cp) := by
  intro a
  have hinv : Inv p σ cs a := by
    simpa using Inv_runCalls p cs [] (AppState.init σ) (Inv_init p σ) hlegal
  obtain ⟨_, _, hex⟩ := hinv
  constructor
  · intro c e' h
    obtain ⟨hor, _⟩ := checkPrepared_true h
    rcases hor with h' | h' <;> simpa [h'] using hex
  · intro h e' hh
    obtain ⟨cp, h', _⟩ := checkExecuted_true hh
    exact ⟨cp, h', by simpa [h'] using hex⟩

/-- **`process_proposal` and `finalize_block` agree.** If `process_proposal`'s own (strict)
execution of a block succeeds on the committed state, `finalize_block`'s (lenient) execution of
the same block on the same state is that execution followed by the same post-execution step — no
hypothesis needed. -/
theorem C05_process_agrees_with_finalize {σ : S} {b : Block} {pd : Parsed} {a1 : AppState S}
    {ex : List Executed} (h : processExec p (AppState.init σ) b pd = (a1, .ok ex)) :
    finalizeExec p (AppState.init σ) b pd = postStep p { (AppState.init σ) with work := a1.work } b pd ex :=
  processExec_finalizeExec p h

/-- **Path independence** (partial; the full statement is false of the unchanged code, see the
counterexamples). For every schedule `cs` on the committed state `σ` and every decided block `b`:
`FinalizeBlock(b)` returns the same response (price events, per-item result codes, validator /
consensus-param digest, app state) as on a node that only received `FinalizeBlock(b)`, fails iff it
fails there, leaves the committed state untouched and stages the same state for `Commit` —
provided

* `PricesCommute p σ b`: applying the block's oracle prices before `pre_execute; construct;
  execute; post_execute` (the uncached path of the unchanged `finalize_block`) or after it (the
  cached path) yields the same state, events and results, or both orders fail;
* `PrepareCoherent p σ b`: what `prepare_proposal` cached for this block equals its fresh
  execution (sufficient conditions: `C05_prepare_coherent_of_constructible`);
* `VeStable p b.height`: `vote_extensions_enabled(height)` ignores uncommitted writes;
* block hashes bind block contents within the schedule. -/
theorem C05_path_independence_partial {σ : S} {b : Block} {h : Nat} (hh : b.hash = some h)
    (cs : List Call) (hlegal : ∀ c ∈ cs, PreCall c)
    (hbind : ∀ b', Call.process b' ∈ cs → b'.hash = b.hash → b' = b)
    (hve : VeStable p b.height) (hcomm : PricesCommute p σ b) (hprep : PrepareCoherent p σ b) :
    let a := runCalls p (AppState.init σ) cs
    (stepFinalize p a b).2.finalized? = (stepFinalize p (AppState.init σ) b).2.finalized? ∧
    (stepFinalize p a b).1.committed = σ ∧
    (stepFinalize p a b).1.writeBatch = (stepFinalize p (AppState.init σ) b).1.writeBatch :=
  path_independence p hh cs hlegal hbind hve hcomm hprep

/-- **No split failure, over multi-block histories** (partial, same hypotheses at every height).
A node driven through an arbitrary legal schedule at every height ends with the same committed
state as a node that only ever receives `FinalizeBlock; Commit` (a syncing node), and if one of
them halts at some height (`none`: `FinalizeBlock` failed) so does the other, at the same height. -/
theorem C05_no_split_failure_partial (hs : List (List Call × Block)) (σ : S) (hok : HistOk p σ hs) :
    runHistory p σ hs = runHistory p σ (hs.map (fun x => ([], x.2))) :=
  history_independence p hs σ hok

/-- **C06 ⇒ C05.** `PrepareCoherent` holds for every block all of whose transactions are
constructible against the block-start state (the F11 proviso), when `pre_execute_transactions`
depends on the block data only and vote-extension enablement is stable. -/
theorem C05_prepare_coherent_of_constructible {σ : S} {b : Block}
    (hve : VeStable p b.height)
    (hpre : ∀ (r : PrepReq) (items : List Item), r.fp items = b.fp → p.pre σ b = p.pre σ (r.asBlock []))
    (hcons : ∀ s1, p.pre σ b = .ok s1 → ∀ t, Item.tx t ∈ b.items → p.constructible s1 t = true) :
    PrepareCoherent p σ b :=
  prepareCoherent_of_constructible p hve hpre hcons

open Astria.Abci.Examples in
/-- **Counterexample (F4), proved on the as-is model and reproduced on the real code**
(`corpus/abci.ops`, first session). A block carries an oracle price for pair P and
`CurrencyPairsChange::Removal(P)`. A node that only receives `FinalizeBlock` applies the price
first and succeeds; a validator that accepted the block in `ProcessProposal` has already removed P
when `finalize_block` applies the price on the cached path and fails ("currency pair state not
found"). `PricesCommute` is exactly what fails. -/
theorem C05_path_dependence_counterexample :
    ((stepFinalize f4 (AppState.init f4Genesis) f4Block).2.finalized?).isSome = true ∧
    isAccept (stepProcess f4 (AppState.init f4Genesis) f4Block).2 = true ∧
    ((stepFinalize f4 (runCalls f4 (AppState.init f4Genesis) [.process f4Block]) f4Block).2.finalized?).isSome = false ∧
    ¬ PricesCommute f4 f4Genesis f4Block := by
  refine ⟨by decide, by decide, by decide, ?_⟩
  intro h
  have := h { r1 := 0, r2 := 1, upgrade := none, eci := some (2, 463), txs := [.tx removePair] } (by rfl)
  revert this
  decide

open Astria.Abci.Examples in
/-- **Counterexample (F11), proved on the as-is model and reproduced on the real code** (second
session of the corpus). The proposer finalizes from the execution `prepare_proposal` cached, every
other path constructs the block's transactions against the block-start state: the proposer's
`FinalizeBlock` succeeds, a syncing node's fails. -/
theorem C05_prepare_incoherence_counterexample :
    prepared? (stepPrepare f11 (AppState.init false) f11Req).2 = some f11Items ∧
    ((stepFinalize f11 (runCalls f11 (AppState.init false) [.prepare f11Req, .process f11Block]) f11Block).2.finalized?).isSome = true ∧
    ((stepFinalize f11 (AppState.init false) f11Block).2.finalized?).isSome = false := by
  decide

/-! ### non-vacuity -/

open Astria.Abci.Examples in
/-- the hypotheses of `C05_path_independence_partial` are satisfiable by a non-trivial block and
schedule (own proposal, restart, a foreign variant, the decided block twice), and the conclusion is
about a successful `FinalizeBlock` -/
example :
    let cs : List Call := [.prepare okReq, .process okBlock, .restart,
                           .process { okBlock with proposer := 9, hash := some 78 }, .process okBlock,
                           .process okBlock]
    (∀ c ∈ cs, PreCall c) ∧
    (∀ b', Call.process b' ∈ cs → b'.hash = okBlock.hash → b' = okBlock) ∧
    VeStable counter okBlock.height ∧ PricesCommute counter 0 okBlock ∧ PrepareCoherent counter 0 okBlock ∧
    ((stepFinalize counter (runCalls counter (AppState.init 0) cs) okBlock).2.finalized?).isSome = true := by
  intro cs
  refine ⟨?_, ?_, ?_, ?_, ?_, by decide⟩
  · intro c hc; simp [cs] at hc; rcases hc with rfl | rfl | rfl | rfl | rfl <;> trivial
  · intro b' hb' hh
    simp [cs] at hb'
    rcases hb' with rfl | rfl | rfl
    · rfl
    · exact absurd hh (by decide)
    · rfl
  · intro s s'; rfl
  · intro pd hpd
    have h2 : parseItems true okItems
        = .ok { r1 := 3, r2 := 4, upgrade := none, eci := some (2, 463), txs := [.tx t1, .tx t2, .tx t4, .tx t6] } := by
      rfl
    have : pd = { r1 := 3, r2 := 4, upgrade := none, eci := some (2, 463), txs := [.tx t1, .tx t2, .tx t4, .tx t6] } := by
      have := hpd.symm.trans h2; injection this
    subst this
    decide
  · exact prepareCoherent_of_constructible counter (fun _ _ => rfl) (fun _ _ _ => rfl) (fun _ _ _ _ => rfl)

end Astria
