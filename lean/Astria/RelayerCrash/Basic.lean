import Astria.RelayerCrash.Model
/-
  Vocabulary of the C11 proofs: consecutive height lists, "confirmed on Celestia", and the
  monotonicity of everything that is stated in terms of it.
-/
namespace Astria.RelayerCrash

/-- `xs = [a+1, a+2, …, a+|xs|]` -/
def Consec : Nat → List Nat → Prop
  | _, [] => True
  | a, x :: xs => x = a + 1 ∧ Consec (a + 1) xs

theorem consec_mem {a : Nat} {xs : List Nat} (h : Consec a xs) (k : Nat) :
    k ∈ xs ↔ a < k ∧ k ≤ a + xs.length := by
  induction xs generalizing a with
  | nil => simp
  | cons x xs ih =>
    obtain ⟨hx, hxs⟩ := h
    have := ih hxs
    simp [List.mem_cons, this, hx]
    omega

theorem consec_append {a : Nat} {xs ys : List Nat} :
    Consec a (xs ++ ys) ↔ Consec a xs ∧ Consec (a + xs.length) ys := by
  induction xs generalizing a with
  | nil => simp [Consec]
  | cons x xs ih =>
    simp only [List.cons_append, Consec, ih, List.length_cons]
    have : a + 1 + xs.length = a + (xs.length + 1) := by omega
    rw [this]
    exact and_assoc.symm

theorem consec_single (a b : Nat) : Consec a [b] ↔ b = a + 1 := by simp [Consec]

theorem largest_consec {a : Nat} {xs : List Nat} (h : Consec a xs) (hne : xs ≠ []) :
    largest xs = a + xs.length := by
  unfold largest
  suffices ∀ (xs : List Nat) (a m : Nat), Consec a xs → m ≤ a → xs ≠ [] →
      xs.foldl max m = a + xs.length from this xs a 0 h (Nat.zero_le _) hne
  intro xs
  induction xs with
  | nil => intro a m _ _ hne; exact absurd rfl hne
  | cons x xs ih =>
    intro a m hc hm _
    obtain ⟨hx, hxs⟩ := hc
    simp only [List.foldl_cons, List.length_cons]
    by_cases hnil : xs = []
    · subst hnil; simp; omega
    · rw [ih (a + 1) (max m x) hxs (by omega) hnil]; omega

/-- sequencer height `k` is confirmed on Celestia: a transaction on the chain carries it -/
def Covered (w : World) (k : Nat) : Prop :=
  ∃ e ∈ w.chain, ∃ tx ∈ w.txs, tx.id = e.2 ∧ k ∈ tx.hs

/-- every height above the first relayed one up to `n` is confirmed -/
def CovUpTo (w : World) (n : Nat) : Prop :=
  ∀ k, w.base < k → k ≤ n → Covered w k

/-- including a transaction with these heights keeps the confirmed set gap-free -/
def Attach (w : World) (hs : List Nat) : Prop :=
  ∀ h ∈ hs, w.base < h ∧ ∀ k, w.base < k → k ≤ h → Covered w k ∨ k ∈ hs

/-- `w'` has at least the transactions and chain of `w` -/
structure Grows (w w' : World) : Prop where
  base : w'.base = w.base
  txs : ∀ tx ∈ w.txs, tx ∈ w'.txs
  chain : ∀ e ∈ w.chain, e ∈ w'.chain

theorem Grows.refl (w : World) : Grows w w := ⟨rfl, fun _ h => h, fun _ h => h⟩

theorem Covered.mono {w w' : World} (g : Grows w w') {k : Nat} (h : Covered w k) : Covered w' k := by
  obtain ⟨e, he, tx, htx, hid, hk⟩ := h
  exact ⟨e, g.chain e he, tx, g.txs tx htx, hid, hk⟩

theorem CovUpTo.mono {w w' : World} (g : Grows w w') {n : Nat} (h : CovUpTo w n) : CovUpTo w' n := by
  intro k hb hk
  exact (h k (g.base ▸ hb) hk).mono g

theorem Attach.mono {w w' : World} (g : Grows w w') {hs : List Nat} (h : Attach w hs) : Attach w' hs := by
  intro x hx
  obtain ⟨hb, hall⟩ := h x hx
  refine ⟨g.base ▸ hb, fun k hk hle => ?_⟩
  rcases hall k (g.base ▸ hk) hle with hc | hm
  · exact Or.inl (hc.mono g)
  · exact Or.inr hm

theorem CovUpTo.le {w : World} {n m : Nat} (h : CovUpTo w n) (hm : m ≤ n) : CovUpTo w m :=
  fun k hb hk => h k hb (Nat.le_trans hk hm)

/-- a consecutive batch right above a fully confirmed prefix attaches -/
theorem attach_of_consec {w : World} {a : Nat} {hs : List Nat} (hc : Consec a hs)
    (hb : w.base ≤ a) (hcov : CovUpTo w a) : Attach w hs := by
  intro h hh
  have hm := (consec_mem hc h).1 hh
  refine ⟨by omega, fun k hk hle => ?_⟩
  by_cases hka : k ≤ a
  · exact Or.inl (hcov k hk hka)
  · exact Or.inr ((consec_mem hc k).2 ⟨by omega, by omega⟩)

/-- once a consecutive batch above a confirmed prefix is on chain, the prefix extends over it -/
theorem covUpTo_of_onchain {w : World} {a t : Nat} {hs : List Nat} (hc : Consec a hs)
    (hcov : CovUpTo w a) (hreg : ∃ tx ∈ w.txs, tx.id = t ∧ tx.hs = hs)
    (hon : ∃ e ∈ w.chain, e.2 = t) : CovUpTo w (a + hs.length) := by
  intro k hk hle
  by_cases hka : k ≤ a
  · exact hcov k hk hka
  · obtain ⟨tx, htx, hid, hhs⟩ := hreg
    obtain ⟨e, he, het⟩ := hon
    exact ⟨e, he, tx, htx, by rw [hid, het], hhs ▸ (consec_mem hc k).2 ⟨by omega, hle⟩⟩

theorem confirmedAt_some {w : World} {t ch : Nat} (h : w.confirmedAt t = some ch) :
    ∃ e ∈ w.chain, e.2 = t := by
  unfold World.confirmedAt at h
  cases hf : w.chain.find? (·.2 = t) with
  | none => simp [hf] at h
  | some e =>
    refine ⟨e, List.mem_of_find?_eq_some hf, ?_⟩
    have := List.find?_some hf
    simpa using this

end Astria.RelayerCrash
