import Astria.RelayerCrash.Basic
/-
  The inductive invariant of the crash/restart model and its preservation by every benign
  action (any number of crashes, any outcome of any RPC, any interleaving).
-/
namespace Astria.RelayerCrash

/-- what a state (in the file, in the temp file about to be renamed, or just read) promises -/
def GoodSt (w : World) : FileSt → Prop
  | .fresh => w.base = 0
  | .started l => w.base ≤ l.sh ∧ CovUpTo w l.sh
  | .prepared h l t =>
    w.base ≤ l.sh ∧ CovUpTo w l.sh ∧
      ∃ tx ∈ w.txs, tx.id = t ∧ tx.hs ≠ [] ∧ Consec l.sh tx.hs ∧ h = l.sh + tx.hs.length

theorem GoodSt.mono {w w' : World} (g : Grows w w') {st : FileSt} (h : GoodSt w st) : GoodSt w' st := by
  cases st with
  | fresh => simp only [GoodSt] at h ⊢; rw [g.base]; exact h
  | started l => exact ⟨g.base ▸ h.1, h.2.mono g⟩
  | prepared hh l t =>
    obtain ⟨h1, h2, tx, htx, h3⟩ := h
    exact ⟨g.base ▸ h1, h2.mono g, tx, g.txs tx htx, h3⟩

theorem GoodSt.base_le_last {w : World} {st : FileSt} (h : GoodSt w st) : w.base ≤ st.last := by
  cases st with
  | fresh => simp [GoodSt] at h; simp [FileSt.last, h]
  | started l => exact h.1
  | prepared hh l t => exact h.1

theorem GoodSt.cov_last {w : World} {st : FileSt} (h : GoodSt w st) : CovUpTo w st.last := by
  cases st with
  | fresh => intro k hk hle; simp [FileSt.last] at hle; omega
  | started l => exact h.2
  | prepared hh l t => exact h.2.1

theorem readState_good {w : World} {st : FileSt} (h : GoodSt w st) :
    readState (some (.ok st)) = .ok st := by
  cases st with
  | fresh => rfl
  | started l => rfl
  | prepared hh l t =>
    obtain ⟨_, _, tx, _, _, hne, _, hh'⟩ := h
    have : 0 < tx.hs.length := List.length_pos_iff.mpr hne
    simp [readState]; omega

def Ongoing.hs : Ongoing → List Nat
  | .none => []
  | .wPrepTmp hs | .wPrepRen hs _ | .bcast hs _ | .csleep hs _ | .cget hs _ | .wStartTmp hs _
  | .wStartRen hs _ | .backoff hs | .fsleep hs _ | .fget hs _ => hs

/-- nothing of the process's volatile state is in use before its main loops run -/
def Proc.pristine (p : Proc) : Prop :=
  p.chan = [] ∧ p.inflight = none ∧ p.next = [] ∧ p.ongoing = .none ∧ p.fwd = none

/-- what the in-flight submission promises, per await point -/
def OngoingInv (w : World) (p : Proc) : Ongoing → Prop
  | .none | .wPrepTmp _ | .backoff _ => True
  | .wPrepRen hs t =>
    (⟨t, hs⟩ : Tx) ∈ w.txs ∧ w.tmp = some (.ok (.prepared (largest hs) p.started t))
  | .bcast hs t | .csleep hs t | .cget hs t | .fsleep hs t | .fget hs t => (⟨t, hs⟩ : Tx) ∈ w.txs
  | .wStartTmp hs new => new.sh = p.started.sh + hs.length ∧ CovUpTo w new.sh
  | .wStartRen hs new =>
    new.sh = p.started.sh + hs.length ∧ CovUpTo w new.sh ∧ w.tmp = some (.ok (.started new))

/-- `BlobSubmitter::run` inside its select loop -/
structure LoopInv (w : World) (p : Proc) : Prop where
  base : w.base ≤ p.started.sh
  cov : CovUpTo w p.started.sh
  consec : Consec p.started.sh (p.ongoing.hs ++ p.next)
  nonempty : p.ongoing ≠ .none → p.ongoing.hs ≠ []
  recvd : (p.ongoing.hs ++ p.next = [] ∧ p.recvd ≤ p.started.sh) ∨
      p.recvd = p.started.sh + (p.ongoing.hs ++ p.next).length
  ongoing : OngoingInv w p p.ongoing

def StartupInv (w : World) (p : Proc) : Startup → Prop
  | .lsleep h l t | .lget h l t =>
    GoodSt w (.prepared h l t) ∧ p.recvd = l.sh ∧ p.next = [] ∧ p.ongoing = .none
  | .lwTmp new =>
    w.base ≤ new.sh ∧ CovUpTo w new.sh ∧ p.recvd ≤ new.sh ∧ p.next = [] ∧ p.ongoing = .none
  | .lwRen new =>
    w.base ≤ new.sh ∧ CovUpTo w new.sh ∧ p.recvd ≤ new.sh ∧ p.next = [] ∧ p.ongoing = .none ∧
      w.tmp = some (.ok (.started new))
  | .loop => LoopInv w p

/-- reader → channel → submitter: the blocks in flight are the consecutive ones after the last
    received one, and the next request continues them -/
def StreamInv (p : Proc) : Prop :=
  Consec p.recvd (p.chan ++ p.fwd.toList ++ p.inflight.toList) ∧
    p.rnext = p.recvd + (p.chan ++ p.fwd.toList ++ p.inflight.toList).length + 1 ∧
    (p.fwd.isSome → p.inflight = none)

def PInv (w : World) (p : Proc) : Prop :=
  match p.boot with
  | .read => p.pristine
  | .wTmp st => p.pristine ∧ GoodSt w st
  | .wRen st => p.pristine ∧ GoodSt w st ∧ w.tmp = some (.ok st)
  | .up => StreamInv p ∧ StartupInv w p p.su

structure Inv (w : World) : Prop where
  /-- transactions are numbered 1, 2, … in the order in which they were signed -/
  ids : w.txs.map (·.id) = List.range' 1 w.txs.length
  chainIds : ∀ e ∈ w.chain, e.2 ≤ w.txs.length
  memIds : ∀ t ∈ w.mempool, t ≤ w.txs.length
  attach : ∀ tx ∈ w.txs, Attach w tx.hs
  file : ∃ st, w.file = some (.ok st) ∧ GoodSt w st
  proc : ∀ p, w.proc = some p → PInv w p
  exits : w.exits = 0

/-! ### monotonicity in the world -/

theorem OngoingInv.mono {w w' : World} (g : Grows w w') (ht : w'.tmp = w.tmp) {p : Proc} {o : Ongoing}
    (h : OngoingInv w p o) : OngoingInv w' p o := by
  cases o <;> simp only [OngoingInv] at h ⊢
  case wPrepRen hs t => exact ⟨g.txs _ h.1, ht ▸ h.2⟩
  case bcast hs t => exact g.txs _ h
  case csleep hs t => exact g.txs _ h
  case cget hs t => exact g.txs _ h
  case fsleep hs t => exact g.txs _ h
  case fget hs t => exact g.txs _ h
  case wStartTmp hs new => exact ⟨h.1, h.2.mono g⟩
  case wStartRen hs new => exact ⟨h.1, h.2.1.mono g, ht ▸ h.2.2⟩

theorem StartupInv.mono {w w' : World} (g : Grows w w') (ht : w'.tmp = w.tmp) {p : Proc} {s : Startup}
    (h : StartupInv w p s) : StartupInv w' p s := by
  cases s with
  | lsleep hh l t => exact ⟨h.1.mono g, h.2⟩
  | lget hh l t => exact ⟨h.1.mono g, h.2⟩
  | lwTmp new => exact ⟨g.base ▸ h.1, h.2.1.mono g, h.2.2⟩
  | lwRen new =>
    obtain ⟨a, b, c, d, e, f⟩ := h
    exact ⟨g.base ▸ a, b.mono g, c, d, e, ht ▸ f⟩
  | loop =>
    obtain ⟨a, b, c, d, e, f⟩ := h
    exact ⟨g.base ▸ a, b.mono g, c, d, e, f.mono g ht⟩

theorem PInv.mono {w w' : World} (g : Grows w w') (ht : w'.tmp = w.tmp) {p : Proc}
    (h : PInv w p) : PInv w' p := by
  unfold PInv at h ⊢
  split
  · rename_i hb; rw [hb] at h; exact h
  · rename_i st hb; rw [hb] at h; exact ⟨h.1, h.2.mono g⟩
  · rename_i st hb; rw [hb] at h; exact ⟨h.1, h.2.1.mono g, ht ▸ h.2.2⟩
  · rename_i hb; rw [hb] at h; exact ⟨h.1, h.2.mono g ht⟩

/-! ### the process running between two environment actions -/

theorem StartupInv.congr {w : World} {p p' : Proc} {s : Startup}
    (h1 : p'.started = p.started) (h2 : p'.ongoing = p.ongoing) (h3 : p'.next = p.next)
    (h4 : p'.recvd = p.recvd) (h : StartupInv w p s) : StartupInv w p' s := by
  cases s with
  | lsleep hh l t => simpa [StartupInv, h2, h3, h4] using h
  | lget hh l t => simpa [StartupInv, h2, h3, h4] using h
  | lwTmp new => simpa [StartupInv, h2, h3, h4] using h
  | lwRen new => simpa [StartupInv, h2, h3, h4] using h
  | loop =>
    obtain ⟨a, b, c, d, e, f⟩ := h
    refine ⟨h1 ▸ a, h1 ▸ b, ?_, ?_, ?_, ?_⟩
    · rw [h1, h2, h3]; exact c
    · rw [h2]; exact d
    · rw [h1, h2, h3, h4]; exact e
    · rw [h2]
      cases ho : p.ongoing <;> simp only [ho, OngoingInv, h1] at f ⊢ <;> exact f

theorem PInv.up {w : World} {p : Proc} (hb : p.boot = .up) (h : PInv w p) :
    StreamInv p ∧ StartupInv w p p.su := by
  unfold PInv at h; rw [hb] at h; exact h

theorem PInv.of_up {w : World} {p : Proc} (hb : p.boot = .up)
    (h : StreamInv p ∧ StartupInv w p p.su) : PInv w p := by
  unfold PInv; rw [hb]; exact h

theorem readerStep_inv {w : World} {p : Proc} (hb : p.boot = .up) (h : PInv w p) :
    PInv w (readerStep p) := by
  obtain ⟨⟨hc, hn, hfi⟩, hs⟩ := h.up hb
  unfold readerStep
  split
  · rename_i o hi hf ho
    split
    · refine PInv.of_up hb ⟨⟨?_, ?_, ?_⟩, StartupInv.congr (p := p) (s := p.su) rfl rfl rfl rfl hs⟩
      · simp only [hi, hf, Option.toList_none, List.append_nil, Option.toList_some] at hc hn ⊢
        rw [consec_append]
        refine ⟨hc, ?_⟩
        simp [Consec]; omega
      · simp only [hi, hf, Option.toList_none, List.append_nil, Option.toList_some,
          List.length_append, List.length_cons, List.length_nil] at hn ⊢
        omega
      · intro hfs
        simp [hf] at hfs
    · exact h
  · exact h

theorem loopStep_not_exit {w : World} {p : Proc} (h : PInv w p) : loopStep p ≠ .exit := by
  unfold loopStep
  split
  · rename_i hb hsu
    have hl := (h.up hb).2
    rw [hsu] at hl
    split
    · rename_i x xs _ ho hn
      have hc := hl.consec
      simp only [ho, Ongoing.hs, List.nil_append, hn] at hc
      have := largest_consec hc (by simp)
      split
      · simp
      · rename_i hlt
        simp at this; omega
    · split <;> simp
    · simp
  · simp

theorem loopStep_inv {w : World} {p p' : Proc} {d : Nat} (h : PInv w p)
    (hs : loopStep p = .cont p' d) : PInv w p' ∧ p'.boot = .up := by
  unfold loopStep at hs
  split at hs
  · rename_i hb hsu
    obtain ⟨⟨hc, hn, hfi⟩, hl⟩ := h.up hb
    rw [hsu] at hl
    split at hs
    · -- take
      rename_i x xs _ ho hnx
      split at hs
      · injection hs with hp _
        subst hp
        refine ⟨PInv.of_up hb ⟨⟨hc, hn, hfi⟩, ?_⟩, hb⟩
        show StartupInv w _ p.su
        rw [hsu]
        obtain ⟨a, b, c, _, e, _⟩ := hl
        simp only [ho, Ongoing.hs, List.nil_append, hnx] at c e
        refine ⟨a, b, ?_, ?_, ?_, trivial⟩
        · simpa [Ongoing.hs] using c
        · simp [Ongoing.hs]
        · simpa [Ongoing.hs] using e
      · cases hs
    · -- recv
      rename_i b rest hch _
      obtain ⟨a, bb, c, dd, e, f⟩ := hl
      simp only [hch, List.cons_append, Consec] at hc
      simp only [hch, List.cons_append, List.length_cons] at hn
      have hn' : p.rnext = b + (rest ++ p.fwd.toList ++ p.inflight.toList).length + 1 := by omega
      obtain ⟨hb1, hc⟩ := hc
      split at hs
      · -- skipped
        rename_i hle
        injection hs with hp _
        subst hp
        refine ⟨PInv.of_up hb ⟨⟨?_, ?_, hfi⟩, ?_⟩, hb⟩
        · show Consec b (rest ++ p.fwd.toList ++ p.inflight.toList)
          rw [hb1]; exact hc
        · exact hn'
        · show StartupInv w _ p.su
          rw [hsu]
          refine ⟨a, bb, c, dd, ?_, ?_⟩
          · rcases e with ⟨e1, _⟩ | e2
            · exact Or.inl ⟨e1, hle⟩
            · omega
          · cases ho : p.ongoing <;> simp only [ho, OngoingInv] at f ⊢ <;> exact f
      · rename_i hgt
        injection hs with hp _
        subst hp
        refine ⟨PInv.of_up hb ⟨⟨?_, ?_, hfi⟩, ?_⟩, hb⟩
        · show Consec b (rest ++ p.fwd.toList ++ p.inflight.toList)
          rw [hb1]; exact hc
        · exact hn'
        · show StartupInv w _ p.su
          rw [hsu]
          have hbtop : b = p.started.sh + (p.ongoing.hs.length + p.next.length) + 1 := by
            rcases e with ⟨e1, e2⟩ | e2
            · have := congrArg List.length e1
              simp only [List.length_append, List.length_nil] at this
              omega
            · simp only [List.length_append] at e2; omega
          refine ⟨a, bb, ?_, dd, ?_, ?_⟩
          · show Consec p.started.sh (p.ongoing.hs ++ (p.next ++ [b]))
            rw [← List.append_assoc, consec_append]
            exact ⟨c, by simp [Consec]; omega⟩
          · right
            show b = p.started.sh + (p.ongoing.hs ++ (p.next ++ [b])).length
            simp only [List.length_append, List.length_cons, List.length_nil]
            omega
          · cases ho : p.ongoing <;> simp only [ho, OngoingInv] at f ⊢ <;> exact f
    · cases hs
  · cases hs

/-- a step that keeps transactions, chain and mempool: only file / temp file / process change -/
theorem Inv.frame {w w' : World} (h : Inv w) (hb : w'.base = w.base) (ht : w'.txs = w.txs)
    (hc : w'.chain = w.chain) (hm : w'.mempool = w.mempool) (he : w'.exits = w.exits)
    (hf : ∃ st, w'.file = some (.ok st) ∧ GoodSt w' st)
    (hp : ∀ p, w'.proc = some p → PInv w' p) : Inv w' := by
  have g : Grows w w' := ⟨hb, fun tx h => ht ▸ h, fun e h => hc ▸ h⟩
  refine ⟨?_, ?_, ?_, ?_, hf, hp, he ▸ h.exits⟩
  · rw [ht]; exact h.ids
  · rw [ht, hc]; exact h.chainIds
  · rw [ht, hm]; exact h.memIds
  · rw [ht]; exact fun tx htx => (h.attach tx htx).mono g

theorem Inv.grows_self {w w' : World} (hb : w'.base = w.base) (ht : w'.txs = w.txs)
    (hc : w'.chain = w.chain) : Grows w w' :=
  ⟨hb, fun _ h => ht ▸ h, fun _ h => hc ▸ h⟩

theorem settleLoop_inv {w : World} (fuel : Nat) {p : Proc} (np : Nat) (h : PInv w p) :
    ∃ p' np', settleLoop fuel p np = (some p', np') ∧ PInv w p' ∧ (p.boot = .up → p'.boot = .up) ∧
      (p.boot ≠ .up → p' = p) := by
  induction fuel generalizing p np with
  | zero => exact ⟨p, np, rfl, h, id, fun _ => rfl⟩
  | succ f ih =>
    unfold settleLoop
    cases hl : loopStep p with
    | idle => exact ⟨p, np, rfl, h, id, fun _ => rfl⟩
    | exit => exact absurd hl (loopStep_not_exit h)
    | cont p1 d =>
      obtain ⟨h1, hb1⟩ := loopStep_inv h hl
      obtain ⟨p', np', he, hp', hb', _⟩ := ih (np + d) h1
      refine ⟨p', np', he, hp', fun _ => hb' hb1, fun hne => ?_⟩
      exfalso
      unfold loopStep at hl
      split at hl
      · rename_i hb _; exact hne hb
      · cases hl

theorem forwardStep_inv {w : World} {p : Proc} (h : PInv w p) : PInv w (forwardStep p) := by
  unfold forwardStep
  split
  · rename_i b hf
    split
    · by_cases hb : p.boot = .up
      · obtain ⟨⟨hc, hn, hfi⟩, hs⟩ := h.up hb
        have hi : p.inflight = none := hfi (by simp [hf])
        refine PInv.of_up hb ⟨⟨?_, ?_, ?_⟩, StartupInv.congr (p := p) (s := p.su) rfl rfl rfl rfl hs⟩
        · simpa [hf, hi] using hc
        · simpa [hf, hi] using hn
        · intro hfs; simp at hfs
      · -- not up: nothing can be parked
        exfalso
        unfold PInv at h
        split at h
        · rw [h.2.2.2.2] at hf; cases hf
        · rw [h.1.2.2.2.2] at hf; cases hf
        · rw [h.1.2.2.2.2] at hf; cases hf
        · rename_i hb'; exact hb hb'
    · exact h
  · exact h

theorem settleProc_inv {w : World} {p : Proc} (np : Nat) (h : PInv w p) :
    ∃ p' np', settleProc p np = (some p', np') ∧ PInv w p' := by
  unfold settleProc
  obtain ⟨p1, np1, he1, hp1, _, _⟩ := settleLoop_inv (2 * p.chan.length + 4) np h
  rw [he1]
  obtain ⟨p2, np2, he2, hp2, _, _⟩ := settleLoop_inv 6 np1 (forwardStep_inv hp1)
  simp only [he2]
  refine ⟨_, np2, rfl, ?_⟩
  split
  · rename_i hb; exact readerStep_inv hb hp2
  · exact hp2

theorem inv_settle {w : World} (h : Inv w) : Inv w.settle := by
  unfold World.settle
  cases hp : w.proc with
  | none => exact h
  | some p =>
    obtain ⟨p', np', he, hp'⟩ := settleProc_inv w.np (h.proc p hp)
    simp only [he]
    refine h.frame rfl rfl rfl rfl (by simp) ?_ ?_
    · obtain ⟨st, hf, hg⟩ := h.file
      refine ⟨st, hf, GoodSt.mono ?_ hg⟩
      exact Inv.grows_self rfl rfl rfl
    · intro q hq
      cases hq
      refine PInv.mono ?_ ?_ hp'
      · exact Inv.grows_self rfl rfl rfl
      · rfl

theorem OngoingInv.congr {w : World} {p p' : Proc} (h1 : p'.started = p.started) {o : Ongoing}
    (h : OngoingInv w p o) : OngoingInv w p' o := by
  cases o <;> simp only [OngoingInv, h1] at h ⊢ <;> exact h

/-- the in-flight submission moves to its next await (same batch) -/
theorem LoopInv.setOngoing {w : World} {p : Proc} (h : LoopInv w p) (o : Ongoing)
    (hhs : o.hs = p.ongoing.hs) (hpo : p.ongoing ≠ .none) (ho : OngoingInv w p o) :
    LoopInv w { p with ongoing := o } := by
  obtain ⟨a, b, c, d, e, _⟩ := h
  refine ⟨a, b, ?_, ?_, ?_, ho.congr rfl⟩
  · show Consec p.started.sh (o.hs ++ p.next); rw [hhs]; exact c
  · intro _; show o.hs ≠ []; rw [hhs]; exact d hpo
  · show (o.hs ++ p.next = [] ∧ _) ∨ p.recvd = p.started.sh + (o.hs ++ p.next).length
    rw [hhs]; exact e

/-- facts about a process that is pristine: not up, or nothing in flight -/
theorem PInv.ongoing_up {w : World} {p : Proc} (h : PInv w p) (ho : p.ongoing ≠ .none) :
    p.boot = .up ∧ p.su = .loop := by
  unfold PInv at h
  split at h
  · exact absurd h.2.2.2.1 ho
  · exact absurd h.1.2.2.2.1 ho
  · exact absurd h.1.2.2.2.1 ho
  · rename_i hb
    refine ⟨hb, ?_⟩
    cases hs : p.su with
    | lsleep hh l t => rw [hs] at h; exact absurd h.2.2.2.2 ho
    | lget hh l t => rw [hs] at h; exact absurd h.2.2.2.2 ho
    | lwTmp new => rw [hs] at h; exact absurd h.2.2.2.2.2 ho
    | lwRen new => rw [hs] at h; exact absurd h.2.2.2.2.2.1 ho
    | loop => rfl

theorem PInv.loop {w : World} {p : Proc} (h : PInv w p) (hb : p.boot = .up) (hs : p.su = .loop) :
    StreamInv p ∧ LoopInv w p := by
  have := h.up hb
  rw [hs] at this
  exact this

theorem Inv.id_le {w : World} (h : Inv w) {tx : Tx} (htx : tx ∈ w.txs) : tx.id ≤ w.txs.length := by
  have : tx.id ∈ w.txs.map (·.id) := List.mem_map_of_mem htx
  rw [h.ids, List.mem_range'] at this
  obtain ⟨i, hi, he⟩ := this
  omega

/-! ### the environment actions -/

theorem Inv.setProc {w : World} (h : Inv w) (p' : Proc) (n : Nat) (hp : PInv w p') :
    Inv { w with proc := some p', np := n } := by
  refine h.frame rfl rfl rfl rfl rfl ?_ ?_
  · obtain ⟨st, hf, hg⟩ := h.file
    refine ⟨st, hf, GoodSt.mono ?_ hg⟩
    exact Inv.grows_self rfl rfl rfl
  · intro q hq
    cases hq
    refine PInv.mono ?_ ?_ hp
    · exact Inv.grows_self rfl rfl rfl
    · rfl

/-- a state-file write, first half: the temp file is (over)written -/
theorem Inv.setTmpProc {w : World} (h : Inv w) (c : Option Content) (p' : Proc)
    (hp : PInv { w with tmp := c } p') : Inv { w with tmp := c, proc := some p' } := by
  refine h.frame rfl rfl rfl rfl rfl ?_ ?_
  · obtain ⟨st, hf, hg⟩ := h.file
    refine ⟨st, hf, GoodSt.mono ?_ hg⟩
    exact Inv.grows_self rfl rfl rfl
  · intro q hq
    cases hq
    refine PInv.mono ?_ ?_ hp
    · exact Inv.grows_self rfl rfl rfl
    · rfl

theorem rename_eq {w : World} {c : Content} (ht : w.tmp = some c) :
    w.rename = { w with file := some c, tmp := none } := by
  unfold World.rename; rw [ht]

/-- a state-file write, second half: the temp file (holding `st`) replaces the state file -/
theorem Inv.renameProc {w : World} (h : Inv w) {st : FileSt} (ht : w.tmp = some (.ok st))
    (hg : GoodSt w st) (p' : Proc) (hp : PInv { w with tmp := none } p') :
    Inv { w.rename with proc := some p' } := by
  rw [rename_eq ht]
  refine h.frame rfl rfl rfl rfl rfl ?_ ?_
  · refine ⟨st, rfl, GoodSt.mono ?_ hg⟩
    exact Inv.grows_self rfl rfl rfl
  · intro q hq
    cases hq
    refine PInv.mono ?_ ?_ hp
    · exact Inv.grows_self rfl rfl rfl
    · rfl

theorem pinv_tmp {w : World} (c : Option Content) {p : Proc} (h : PInv w p)
    (hn : ∀ st, p.boot ≠ .wRen st) (hs : ∀ n, p.su ≠ .lwRen n)
    (ho : ∀ hs t, p.ongoing ≠ .wPrepRen hs t) (ho' : ∀ hs n, p.ongoing ≠ .wStartRen hs n) :
    PInv { w with tmp := c } p := by
  have g : Grows w { w with tmp := c } := Inv.grows_self rfl rfl rfl
  unfold PInv at h ⊢
  split
  · rename_i hb; rw [hb] at h; exact h
  · rename_i st hb; rw [hb] at h; exact ⟨h.1, h.2.mono g⟩
  · rename_i st hb; exact absurd hb (hn st)
  · rename_i hb
    rw [hb] at h
    refine ⟨h.1, ?_⟩
    have h2 := h.2
    cases hsu : p.su with
    | lsleep hh l t => rw [hsu] at h2; exact ⟨h2.1.mono g, h2.2⟩
    | lget hh l t => rw [hsu] at h2; exact ⟨h2.1.mono g, h2.2⟩
    | lwTmp new => rw [hsu] at h2; exact ⟨h2.1, h2.2.1.mono g, h2.2.2⟩
    | lwRen new => exact absurd hsu (hs new)
    | loop =>
      rw [hsu] at h2
      obtain ⟨a, b, c', d, e, f⟩ := h2
      refine ⟨a, b.mono g, c', d, e, ?_⟩
      cases hon : p.ongoing <;> rw [hon] at f <;> simp only [OngoingInv] at f ⊢
      case wPrepRen hs t => exact absurd hon (ho hs t)
      case wStartRen hs n => exact absurd hon (ho' hs n)
      case wStartTmp hs n => exact ⟨f.1, f.2.mono g⟩
      all_goals exact f

theorem pinv_afterBoot {w : World} {p : Proc} {st : FileSt} (hpr : p.pristine) (hg : GoodSt w st) :
    PInv w (procAfterBoot w p st) := by
  obtain ⟨hc, hi, hn, ho, hfw⟩ := hpr
  cases st with
  | fresh =>
    refine PInv.of_up rfl ⟨⟨?_, ?_, ?_⟩, ?_⟩
    · simp [procAfterBoot, hc, hi, hfw, Consec]
    · simp [procAfterBoot, hc, hi, hfw]
    · simp [procAfterBoot, hi]
    · show LoopInv w _
      simp only [GoodSt] at hg
      refine ⟨by simp [procAfterBoot, hg], ?_, ?_, ?_, ?_, ?_⟩
      · intro k hk hle; simp [procAfterBoot] at hle; omega
      · simp [procAfterBoot, ho, hn, Ongoing.hs, Consec]
      · intro hne; exact absurd ho hne
      · left; simp [procAfterBoot, ho, hn, Ongoing.hs, FileSt.last]
      · simp [procAfterBoot, ho, OngoingInv]
  | started l =>
    refine PInv.of_up rfl ⟨⟨?_, ?_, ?_⟩, ?_⟩
    · simp [procAfterBoot, hc, hi, hfw, Consec]
    · simp [procAfterBoot, hc, hi, hfw]
    · simp [procAfterBoot, hi]
    · show LoopInv w _
      refine ⟨hg.1, hg.2, ?_, ?_, ?_, ?_⟩
      · simp [procAfterBoot, ho, hn, Ongoing.hs, Consec]
      · intro hne; exact absurd ho hne
      · left; simp [procAfterBoot, ho, hn, Ongoing.hs, FileSt.last]
      · simp [procAfterBoot, ho, OngoingInv]
  | prepared hh l t =>
    refine PInv.of_up rfl ⟨⟨?_, ?_, ?_⟩, ?_⟩
    · simp [procAfterBoot, hc, hi, hfw, Consec]
    · simp [procAfterBoot, hc, hi, hfw]
    · simp [procAfterBoot, hi]
    · show GoodSt w _ ∧ _
      exact ⟨hg, by simp [procAfterBoot, FileSt.last], by simp [procAfterBoot, hn], by simp [procAfterBoot, ho]⟩

theorem rename_latest (w : World) : w.rename.latest = w.latest := by
  unfold World.rename; split <;> rfl

theorem procAfterBoot_congr {w w' : World} (h : w.latest = w'.latest) (p : Proc) (st : FileSt) :
    procAfterBoot w p st = procAfterBoot w' p st := by
  unfold procAfterBoot; rw [h]

/-- the in-flight submission moves to its next await (same batch), possibly in a grown world -/
theorem LoopInv.step {w w' : World} {p : Proc} (h : LoopInv w p) (g : Grows w w') (o : Ongoing)
    (hhs : o.hs = p.ongoing.hs) (hpo : p.ongoing ≠ .none) (ho : OngoingInv w' p o) :
    LoopInv w' { p with ongoing := o } := by
  obtain ⟨a, b, c, d, e, _⟩ := h
  refine ⟨g.base ▸ a, b.mono g, ?_, ?_, ?_, ho.congr rfl⟩
  · show Consec p.started.sh (o.hs ++ p.next); rw [hhs]; exact c
  · intro _; show o.hs ≠ []; rw [hhs]; exact d hpo
  · show (o.hs ++ p.next = [] ∧ _) ∨ p.recvd = p.started.sh + (o.hs ++ p.next).length
    rw [hhs]; exact e

theorem StartupInv.of_loop {w : World} {p : Proc} (hs : p.su = .loop) (h : LoopInv w p) :
    StartupInv w p p.su := by
  rw [hs]; exact h

theorem inv_stepFs {w : World} (h : Inv w) : Inv (stepFs w) := by
  unfold stepFs
  split
  · exact h
  · rename_i p hp
    have hP := h.proc p hp
    split
    · -- `State::read`
      rename_i hb
      obtain ⟨st, hf, hg⟩ := h.file
      have hr : readState w.file = .ok st := by rw [hf]; exact readState_good hg
      rw [hr]
      refine h.setProc _ _ (?_ : PInv w _)
      unfold PInv at hP ⊢
      rw [hb] at hP
      exact ⟨hP, hg⟩
    · -- temp write of the state just read
      rename_i st hb
      refine h.setTmpProc _ _ ?_
      unfold PInv at hP ⊢
      rw [hb] at hP
      refine ⟨hP.1, GoodSt.mono ?_ hP.2, rfl⟩
      exact Inv.grows_self rfl rfl rfl
    · -- rename; the main loops start
      rename_i st hb
      unfold PInv at hP
      rw [hb] at hP
      obtain ⟨hpr, hg, ht⟩ := hP
      apply inv_settle
      refine h.renameProc ht hg _ ?_
      rw [procAfterBoot_congr (rename_latest w) p st]
      have := pinv_afterBoot (w := { w with tmp := none }) hpr (GoodSt.mono (Inv.grows_self rfl rfl rfl) hg)
      exact this
    · rename_i hb
      obtain ⟨hst, hsu⟩ := hP.up hb
      split
      · -- `into_started` / `revert` at start-up: temp write
        rename_i new hs
        rw [hs] at hsu
        obtain ⟨a, b, c, d, e⟩ := hsu
        refine h.setTmpProc _ _ (PInv.of_up hb ⟨hst, ?_⟩)
        show StartupInv _ _ (.lwRen new)
        exact ⟨a, CovUpTo.mono (Inv.grows_self rfl rfl rfl) b, c, d, e, rfl⟩
      · -- rename: the submitter enters its loop
        rename_i new hs
        rw [hs] at hsu
        obtain ⟨a, b, c, d, e, f⟩ := hsu
        apply inv_settle
        refine h.renameProc f ⟨a, b⟩ _ (PInv.of_up hb ⟨hst, ?_⟩)
        show LoopInv _ _
        have g : Grows w { w with tmp := none } := Inv.grows_self rfl rfl rfl
        refine ⟨a, b.mono g, ?_, ?_, ?_, ?_⟩
        · simp [e, d, Ongoing.hs, Consec]
        · intro hne; exact absurd e hne
        · left; exact ⟨by simp [e, d, Ongoing.hs], c⟩
        · simp [e, OngoingInv]
      · -- the submitter's loop: the in-flight submission writes
        rename_i hs
        rw [hs] at hsu
        split
        · -- `into_prepared`: temp write; the BlobTx gets its number
          rename_i hs' ho
          obtain ⟨la, lb, lc, ld, le, lf⟩ := hsu
          have lc' : Consec p.started.sh hs' := by
            rw [ho] at lc; exact (consec_append.1 lc).1
          show Inv { w with
            txs := w.txs ++ [⟨w.txs.length + 1, hs'⟩],
            tmp := some (.ok (.prepared (largest hs') p.started (w.txs.length + 1))),
            proc := some { p with ongoing := .wPrepRen hs' (w.txs.length + 1) } }
          have g : Grows w { w with
              txs := w.txs ++ [⟨w.txs.length + 1, hs'⟩],
              tmp := some (.ok (.prepared (largest hs') p.started (w.txs.length + 1))),
              proc := some { p with ongoing := .wPrepRen hs' (w.txs.length + 1) } } :=
            ⟨rfl, fun tx htx => List.mem_append_left _ htx, fun _ he => he⟩
          refine ⟨?_, ?_, ?_, ?_, ?_, ?_, h.exits⟩
          · show (w.txs ++ [_]).map _ = List.range' 1 (w.txs ++ [_]).length
            rw [List.map_append, h.ids, List.length_append, List.length_singleton, List.range'_concat]
            simp; omega
          · intro e he
            have := h.chainIds e he
            show e.2 ≤ (w.txs ++ [_]).length
            rw [List.length_append]; omega
          · intro t ht
            have := h.memIds t ht
            show t ≤ (w.txs ++ [_]).length
            rw [List.length_append]; omega
          · intro tx htx
            rcases List.mem_append.1 htx with hold | hnew
            · exact (h.attach tx hold).mono g
            · rw [List.mem_singleton.1 hnew]
              exact attach_of_consec lc' la (lb.mono g)
          · obtain ⟨st, hf, hg⟩ := h.file
            exact ⟨st, hf, hg.mono g⟩
          · intro q hq
            cases hq
            refine PInv.of_up hb ⟨hst, StartupInv.of_loop hs ?_⟩
            refine LoopInv.step ⟨la, lb, lc, ld, le, lf⟩ g (.wPrepRen hs' (w.txs.length + 1))
              (by rw [ho]; rfl) (by rw [ho]; simp) ?_
            exact ⟨List.mem_append_right _ (List.mem_singleton.2 rfl), rfl⟩
        · -- rename: the `prepared` state is on disk; `BroadcastTx` goes out
          rename_i hs' t ho
          obtain ⟨la, lb, lc, ld, le, lf⟩ := hsu
          have lf0 := lf
          rw [ho] at lf
          obtain ⟨hreg, htmp⟩ := lf
          have lc' : Consec p.started.sh hs' := by
            rw [ho] at lc; exact (consec_append.1 lc).1
          have hne : hs' ≠ [] := by have := ld (by rw [ho]; simp); rwa [ho] at this
          refine h.renameProc htmp ?_ _ (PInv.of_up hb ⟨hst, ?_⟩)
          · exact ⟨la, lb, ⟨t, hs'⟩, hreg, rfl, hne, lc', largest_consec lc' hne⟩
          · refine StartupInv.of_loop hs ?_
            refine LoopInv.step ⟨la, lb, lc, ld, le, lf0⟩ ?_ (.bcast hs' t)
              (by rw [ho]; rfl) (by rw [ho]; simp) hreg
            exact Inv.grows_self rfl rfl rfl
        · -- `into_started`: temp write
          rename_i hs' new ho
          obtain ⟨la, lb, lc, ld, le, lf⟩ := hsu
          have lf0 := lf
          rw [ho] at lf
          refine h.setTmpProc _ _ (PInv.of_up hb ⟨hst, StartupInv.of_loop hs ?_⟩)
          have g : Grows w { w with tmp := some (.ok (.started new)) } := Inv.grows_self rfl rfl rfl
          exact LoopInv.step ⟨la, lb, lc, ld, le, lf0⟩ g (.wStartRen hs' new)
            (by rw [ho]; rfl) (by rw [ho]; simp) ⟨lf.1, lf.2.mono g, rfl⟩
        · -- rename: the submission is recorded as completed; the loop goes on
          rename_i hs' new ho
          obtain ⟨la, lb, lc, ld, le, lf⟩ := hsu
          have lf0 := lf
          rw [ho] at lf
          obtain ⟨hsh, hcov, htmp⟩ := lf
          have hne : hs' ≠ [] := by have := ld (by rw [ho]; simp); rwa [ho] at this
          apply inv_settle
          refine h.renameProc htmp ⟨by omega, hcov⟩ _ (PInv.of_up hb ⟨hst, StartupInv.of_loop hs ?_⟩)
          have g : Grows w { w with tmp := none } := Inv.grows_self rfl rfl rfl
          rw [ho] at lc le
          simp only [Ongoing.hs] at lc le
          refine ⟨by show w.base ≤ new.sh; omega, hcov.mono g, ?_, ?_, ?_, ?_⟩
          · show Consec new.sh ([] ++ p.next)
            rw [hsh]; exact (consec_append.1 lc).2
          · intro hn; exact absurd rfl hn
          · right
            show p.recvd = new.sh + ([] ++ p.next).length
            rcases le with ⟨le1, _⟩ | le2
            · exact absurd (List.append_eq_nil_iff.1 le1).1 hne
            · simp only [List.length_append, List.nil_append] at le2 ⊢; omega
          · trivial
        · exact h
      · exact h

theorem pinv_observe {w : World} {p : Proc} (h : PInv w p) : PInv w (observe w p) := by
  unfold observe
  split
  · rename_i hb
    obtain ⟨hst, hsu⟩ := h.up hb
    exact PInv.of_up hb ⟨hst, StartupInv.congr (p := p) (s := p.su) rfl rfl rfl rfl hsu⟩
  · exact h

theorem observe_fields (w : World) (p : Proc) :
    (observe w p).boot = p.boot ∧ (observe w p).su = p.su ∧ (observe w p).ongoing = p.ongoing ∧
    (observe w p).started = p.started ∧ (observe w p).next = p.next ∧ (observe w p).recvd = p.recvd := by
  unfold observe; split <;> simp

theorem inv_stepFetch {w : World} (h : Inv w) : Inv (stepFetch w) := by
  unfold stepFetch
  split
  · exact h
  · rename_i p hp
    have hP := h.proc p hp
    split
    · exact h
    · rename_i x hi
      apply inv_settle
      refine h.setProc _ _ ?_
      -- only an up process has a fetch in flight
      have hb : p.boot = .up := by
        unfold PInv at hP
        split at hP
        · rw [hP.2.1] at hi; cases hi
        · rw [hP.1.2.1] at hi; cases hi
        · rw [hP.1.2.1] at hi; cases hi
        · assumption
      obtain ⟨⟨hc, hn, hfi⟩, hsu⟩ := hP.up hb
      have hf : p.fwd = none := by
        cases hfw : p.fwd with
        | none => rfl
        | some b => have := hfi (by simp [hfw]); rw [this] at hi; cases hi
      unfold forwardBlock
      split
      · refine PInv.of_up hb ⟨⟨?_, ?_, ?_⟩, StartupInv.congr (p := p) (s := p.su) rfl rfl rfl rfl hsu⟩
        · show Consec p.recvd ((p.chan ++ [x]) ++ p.fwd.toList ++ (none : Option Nat).toList)
          simpa [hi, hf] using hc
        · show p.rnext = p.recvd + ((p.chan ++ [x]) ++ p.fwd.toList ++ (none : Option Nat).toList).length + 1
          simpa [hi, hf] using hn
        · intro _; rfl
      · refine PInv.of_up hb ⟨⟨?_, ?_, ?_⟩, StartupInv.congr (p := p) (s := p.su) rfl rfl rfl rfl hsu⟩
        · show Consec p.recvd (p.chan ++ (some x).toList ++ (none : Option Nat).toList)
          simpa [hi, hf] using hc
        · show p.rnext = p.recvd + (p.chan ++ (some x).toList ++ (none : Option Nat).toList).length + 1
          simpa [hi, hf] using hn
        · intro _; rfl

/-- like `Inv.frame`, the mempool may change as long as it only holds registered transactions -/
theorem Inv.frameMem {w w' : World} (h : Inv w) (hb : w'.base = w.base) (ht : w'.txs = w.txs)
    (hc : w'.chain = w.chain) (hm : ∀ t ∈ w'.mempool, t ≤ w.txs.length) (he : w'.exits = w.exits)
    (hf : w'.file = w.file) (htmp : w'.tmp = w.tmp)
    (hp : ∀ p, w'.proc = some p → PInv w p) : Inv w' := by
  have g : Grows w w' := ⟨hb, fun tx h => ht ▸ h, fun e h => hc ▸ h⟩
  refine ⟨?_, ?_, ?_, ?_, ?_, fun p hpp => (hp p hpp).mono g htmp, he ▸ h.exits⟩
  · rw [ht]; exact h.ids
  · rw [ht, hc]; exact h.chainIds
  · rw [ht]; exact hm
  · rw [ht]; exact fun tx htx => (h.attach tx htx).mono g
  · obtain ⟨st, hf', hg⟩ := h.file
    exact ⟨st, hf ▸ hf', hg.mono g⟩

/-- a process with a submission in flight is in the submitter's loop -/
theorem PInv.loop_of_ongoing {w : World} {p : Proc} (h : PInv w p) (ho : p.ongoing ≠ .none) :
    p.boot = .up ∧ p.su = .loop ∧ StreamInv p ∧ LoopInv w p := by
  obtain ⟨hb, hs⟩ := h.ongoing_up ho
  exact ⟨hb, hs, h.loop hb hs⟩

theorem inv_stepBcast {w : World} (h : Inv w) (o : BcastOutcome) : Inv (stepBcast w o) := by
  unfold stepBcast
  split
  · exact h
  · rename_i p hp
    have hP := h.proc p hp
    split
    · rename_i hs t ho
      obtain ⟨hb, hsu, hst, hl⟩ := hP.loop_of_ongoing (by rw [ho]; simp)
      have hreg : (⟨t, hs⟩ : Tx) ∈ w.txs := by have := hl.ongoing; rw [ho] at this; exact this
      have hpo : p.ongoing ≠ .none := by rw [ho]; simp
      have hhs : ∀ o' : Ongoing, o'.hs = hs → o'.hs = p.ongoing.hs := fun o' h' => by rw [ho]; exact h'
      cases o with
      | ok =>
        refine h.frameMem rfl rfl rfl ?_ rfl rfl rfl ?_
        · intro t' ht'
          rcases List.mem_append.1 ht' with h1 | h1
          · exact h.memIds t' h1
          · rw [List.mem_singleton.1 h1]; exact h.id_le hreg
        · intro q hq; cases hq
          exact PInv.of_up hb ⟨hst, StartupInv.of_loop hsu
            (hl.step (Grows.refl w) (.csleep hs t) (hhs _ rfl) hpo hreg)⟩
      | lost =>
        refine h.setProc _ _ ?_
        exact PInv.of_up hb ⟨hst, StartupInv.of_loop hsu
          (hl.step (Grows.refl w) (.csleep hs t) (hhs _ rfl) hpo hreg)⟩
      | reject =>
        refine h.setProc _ _ ?_
        exact PInv.of_up hb ⟨hst, StartupInv.of_loop hsu
          (hl.step (Grows.refl w) (.backoff hs) (hhs _ rfl) hpo trivial)⟩
      | timeout acc =>
        apply inv_settle
        have hf := observe_fields w p
        have hPo := pinv_observe hP
        obtain ⟨hb', hsu', hst', hl'⟩ := hPo.loop_of_ongoing (by rw [hf.2.2.1]; exact hpo)
        refine h.frameMem rfl rfl rfl ?_ rfl rfl rfl ?_
        · intro t' ht'
          show t' ≤ w.txs.length
          split at ht'
          · rcases List.mem_append.1 ht' with h1 | h1
            · exact h.memIds t' h1
            · rw [List.mem_singleton.1 h1]; exact h.id_le hreg
          · exact h.memIds t' ht'
        · intro q hq; cases hq
          exact PInv.of_up hb' ⟨hst', StartupInv.of_loop hsu'
            (hl'.step (Grows.refl w) (.fget hs t) (by rw [hf.2.2.1, ho]; rfl)
              (by rw [hf.2.2.1]; exact hpo) hreg)⟩
    · exact h

/-- a confirmed in-flight batch extends the confirmed prefix up to its greatest height -/
theorem LoopInv.cov_batch {w : World} {p : Proc} (hl : LoopInv w p) {hs : List Nat} {t ch : Nat}
    (hhs : p.ongoing.hs = hs) (hne : hs ≠ []) (hreg : (⟨t, hs⟩ : Tx) ∈ w.txs)
    (hc : w.confirmedAt t = some ch) :
    largest hs = p.started.sh + hs.length ∧ CovUpTo w (largest hs) := by
  have lc : Consec p.started.sh hs := by
    have := hl.consec; rw [hhs] at this; exact (consec_append.1 this).1
  have hlg := largest_consec lc hne
  refine ⟨hlg, ?_⟩
  rw [hlg]
  exact covUpTo_of_onchain lc hl.cov ⟨_, hreg, rfl, rfl⟩ (confirmedAt_some hc)

/-- before the main loops run the start-up state of the submitter is not looked at -/
theorem PInv.set_su {w : World} {p : Proc} (hb : p.boot ≠ .up) (s : Startup) (h : PInv w p) :
    PInv w { p with su := s } := by
  unfold PInv at h ⊢
  split at h
  · rename_i hb'; simp only [hb']; exact h
  · rename_i st hb'; simp only [hb']; exact h
  · rename_i st hb'; simp only [hb']; exact h
  · rename_i hb'; exact absurd hb' hb

theorem GoodSt.cov_confirmed {w : World} {hh t ch : Nat} {l : Sub} (hg : GoodSt w (.prepared hh l t))
    (hc : w.confirmedAt t = some ch) : w.base ≤ hh ∧ CovUpTo w hh ∧ l.sh ≤ hh := by
  obtain ⟨a, b, tx, htx, hid, hne, hcs, he⟩ := hg
  refine ⟨by omega, ?_, by omega⟩
  rw [he]
  exact covUpTo_of_onchain hcs b ⟨tx, htx, hid, rfl⟩ (confirmedAt_some hc)

theorem inv_stepGetTx {w : World} (h : Inv w) (m : GetTxMode) : Inv (stepGetTx w m) := by
  unfold stepGetTx
  split
  · exact h
  · rename_i p hp
    have hP := h.proc p hp
    split
    · -- start-up confirmation
      rename_i hh l t hsu
      by_cases hb : p.boot = .up
      · obtain ⟨hst, hs⟩ := hP.up hb
        rw [hsu] at hs
        obtain ⟨hg, hr, hn, ho⟩ := hs
        split
        · exact h.setProc _ _ (PInv.of_up hb ⟨hst, ⟨hg, hr, hn, ho⟩⟩)
        · exact h.setProc _ _ (PInv.of_up hb ⟨hst, ⟨hg, hr, hn, ho⟩⟩)
        · rename_i ch _ hc
          obtain ⟨c1, c2, c3⟩ := hg.cov_confirmed hc
          refine h.setProc _ _ (PInv.of_up hb ⟨hst, ?_⟩)
          show StartupInv w _ (.lwTmp ⟨ch, hh⟩)
          exact ⟨c1, c2, by show p.recvd ≤ hh; omega, hn, ho⟩
      · split
        · exact h.setProc _ _ (hP.set_su hb _)
        · exact h.setProc _ _ (hP.set_su hb _)
        · exact h.setProc _ _ (hP.set_su hb _)
    · rename_i hsu
      split
      · -- confirmation of the submission in flight (unbounded)
        rename_i hs t ho
        obtain ⟨hb, _, hst, hl⟩ := hP.loop_of_ongoing (by rw [ho]; simp)
        have hreg : (⟨t, hs⟩ : Tx) ∈ w.txs := by have := hl.ongoing; rw [ho] at this; exact this
        have hpo : p.ongoing ≠ .none := by rw [ho]; simp
        have hne : hs ≠ [] := by have := hl.nonempty hpo; rwa [ho] at this
        split
        · exact h.setProc _ _ (PInv.of_up hb ⟨hst, StartupInv.of_loop hsu
            (hl.step (Grows.refl w) (.csleep hs t) (by rw [ho]; rfl) hpo hreg)⟩)
        · exact h.setProc _ _ (PInv.of_up hb ⟨hst, StartupInv.of_loop hsu
            (hl.step (Grows.refl w) (.csleep hs t) (by rw [ho]; rfl) hpo hreg)⟩)
        · rename_i ch _ hc
          obtain ⟨c1, c2⟩ := hl.cov_batch (by rw [ho]; rfl) hne hreg hc
          exact h.setProc _ _ (PInv.of_up hb ⟨hst, StartupInv.of_loop hsu
            (hl.step (Grows.refl w) (.wStartTmp hs ⟨ch, largest hs⟩) (by rw [ho]; rfl) hpo ⟨c1, c2⟩)⟩)
      · -- confirmation of a broadcast that timed out (bounded)
        rename_i hs t ho
        obtain ⟨hb, _, hst, hl⟩ := hP.loop_of_ongoing (by rw [ho]; simp)
        have hreg : (⟨t, hs⟩ : Tx) ∈ w.txs := by have := hl.ongoing; rw [ho] at this; exact this
        have hpo : p.ongoing ≠ .none := by rw [ho]; simp
        have hne : hs ≠ [] := by have := hl.nonempty hpo; rwa [ho] at this
        split
        · exact h.setProc _ _ (PInv.of_up hb ⟨hst, StartupInv.of_loop hsu
            (hl.step (Grows.refl w) (.fsleep hs t) (by rw [ho]; rfl) hpo hreg)⟩)
        · exact h.setProc _ _ (PInv.of_up hb ⟨hst, StartupInv.of_loop hsu
            (hl.step (Grows.refl w) (.fsleep hs t) (by rw [ho]; rfl) hpo hreg)⟩)
        · rename_i ch _ hc
          obtain ⟨c1, c2⟩ := hl.cov_batch (by rw [ho]; rfl) hne hreg hc
          exact h.setProc _ _ (PInv.of_up hb ⟨hst, StartupInv.of_loop hsu
            (hl.step (Grows.refl w) (.wStartTmp hs ⟨ch, largest hs⟩) (by rw [ho]; rfl) hpo ⟨c1, c2⟩)⟩)
      · exact h
    · exact h

theorem inv_stepGiveup {w : World} (h : Inv w) : Inv (stepGiveup w) := by
  unfold stepGiveup
  split
  · exact h
  · rename_i p hp
    have hP := h.proc p hp
    have hf := observe_fields w p
    have hPo := pinv_observe hP
    split
    · -- the start-up confirmation gives up: revert to the last completed submission
      rename_i hh l t hsu
      split
      · exact h
      · apply inv_settle
        by_cases hb : p.boot = .up
        · have hb' : (observe w p).boot = .up := by rw [hf.1]; exact hb
          obtain ⟨hst, hs⟩ := hPo.up hb'
          rw [hf.2.1, hsu] at hs
          obtain ⟨hg, hr, hn, ho⟩ := hs
          refine h.setProc _ _ (PInv.of_up hb' ⟨hst, ?_⟩)
          show StartupInv w _ (.lwTmp l)
          exact ⟨hg.1, hg.2.1, by show (observe w p).recvd ≤ l.sh; omega, hn, ho⟩
        · exact h.setProc _ _ (hPo.set_su (by rw [hf.1]; exact hb) _)
    · rename_i hsu
      split
      · -- the bounded confirmation of a timed-out broadcast gives up: prepare again
        rename_i hs t ho
        split
        · exact h
        · apply inv_settle
          have ho' : (observe w p).ongoing = .fget hs t := by rw [hf.2.2.1]; exact ho
          obtain ⟨hb, hsu', hst, hl⟩ := hPo.loop_of_ongoing (by rw [ho']; simp)
          exact h.setProc _ _ (PInv.of_up hb ⟨hst, StartupInv.of_loop hsu'
            (hl.step (Grows.refl w) (.wPrepTmp hs) (by rw [ho']; rfl) (by rw [ho']; simp) trivial)⟩)
      · rename_i hs t ho
        split
        · exact h
        · apply inv_settle
          exact h.setProc _ _ hPo
      · exact h
    · exact h

theorem inv_stepExpire {w : World} (h : Inv w) : Inv (stepExpire w) := by
  unfold stepExpire
  split
  · exact h
  · rename_i p hp
    have hP := h.proc p hp
    have hf := observe_fields w p
    have hPo := pinv_observe hP
    split
    · rename_i hh l t hsu
      apply inv_settle
      by_cases hb : p.boot = .up
      · have hb' : (observe w p).boot = .up := by rw [hf.1]; exact hb
        obtain ⟨hst, hs⟩ := hPo.up hb'
        rw [hf.2.1, hsu] at hs
        obtain ⟨hg, hr, hn, ho⟩ := hs
        refine h.setProc _ _ (PInv.of_up hb' ⟨hst, ?_⟩)
        show StartupInv w _ (.lwTmp l)
        exact ⟨hg.1, hg.2.1, by show (observe w p).recvd ≤ l.sh; omega, hn, ho⟩
      · exact h.setProc _ _ (hPo.set_su (by rw [hf.1]; exact hb) _)
    · rename_i hsu
      split
      · rename_i hs t ho
        apply inv_settle
        have ho' : (observe w p).ongoing = .fsleep hs t := by rw [hf.2.2.1]; exact ho
        obtain ⟨hb, hsu', hst, hl⟩ := hPo.loop_of_ongoing (by rw [ho']; simp)
        exact h.setProc _ _ (PInv.of_up hb ⟨hst, StartupInv.of_loop hsu'
          (hl.step (Grows.refl w) (.wPrepTmp hs) (by rw [ho']; rfl) (by rw [ho']; simp) trivial)⟩)
      · exact h
    · exact h

theorem inv_stepWait {w : World} (h : Inv w) : Inv (stepWait w) := by
  unfold stepWait
  split
  · exact h
  · rename_i p hp
    have hP := h.proc p hp
    have hf := observe_fields w p
    have hPo := pinv_observe hP
    split
    · exact h
    · simp only
      split
      · -- start-up confirmation: next poll
        rename_i hh l t hsu
        apply inv_settle
        by_cases hb : (observe w p).boot = .up
        · obtain ⟨hst, hs⟩ := hPo.up hb
          rw [hsu] at hs
          exact h.setProc _ _ (PInv.of_up hb ⟨hst, hs⟩)
        · exact h.setProc _ _ (hPo.set_su hb _)
      · rename_i hsu
        split
        · rename_i hs t ho
          apply inv_settle
          obtain ⟨hb, hsu', hst, hl⟩ := hPo.loop_of_ongoing (by rw [ho]; simp)
          have hreg : (⟨t, hs⟩ : Tx) ∈ w.txs := by have := hl.ongoing; rw [ho] at this; exact this
          exact h.setProc _ _ (PInv.of_up hb ⟨hst, StartupInv.of_loop hsu'
            (hl.step (Grows.refl w) (.cget hs t) (by rw [ho]; rfl) (by rw [ho]; simp) hreg)⟩)
        · rename_i hs t ho
          apply inv_settle
          obtain ⟨hb, hsu', hst, hl⟩ := hPo.loop_of_ongoing (by rw [ho]; simp)
          have hreg : (⟨t, hs⟩ : Tx) ∈ w.txs := by have := hl.ongoing; rw [ho] at this; exact this
          exact h.setProc _ _ (PInv.of_up hb ⟨hst, StartupInv.of_loop hsu'
            (hl.step (Grows.refl w) (.fget hs t) (by rw [ho]; rfl) (by rw [ho]; simp) hreg)⟩)
        · rename_i hs ho
          apply inv_settle
          obtain ⟨hb, hsu', hst, hl⟩ := hPo.loop_of_ongoing (by rw [ho]; simp)
          exact h.setProc _ _ (PInv.of_up hb ⟨hst, StartupInv.of_loop hsu'
            (hl.step (Grows.refl w) (.wPrepTmp hs) (by rw [ho]; rfl) (by rw [ho]; simp) trivial)⟩)
        · apply inv_settle
          exact h.setProc _ _ hPo
      · apply inv_settle
        exact h.setProc _ _ hPo

/-! ### every benign action, every sequence of them -/

theorem inv_step {w : World} (h : Inv w) (a : Action) (hb : a.benign = true) : Inv (step w a) := by
  cases a with
  | restart =>
    simp only [step]
    split
    · refine h.setProc _ _ ?_
      unfold PInv
      exact ⟨rfl, rfl, rfl, rfl, rfl⟩
    · exact h
  | crash =>
    simp only [step]
    refine h.frame rfl rfl rfl rfl rfl ?_ ?_
    · obtain ⟨st, hf, hg⟩ := h.file
      exact ⟨st, hf, hg.mono (Inv.grows_self rfl rfl rfl)⟩
    · intro p hp; cases hp
  | fs => exact inv_stepFs h
  | fetch => exact inv_stepFetch h
  | bcast o => exact inv_stepBcast h o
  | gettx m => exact inv_stepGetTx h m
  | giveup => exact inv_stepGiveup h
  | expire => exact inv_stepExpire h
  | wait => exact inv_stepWait h
  | poll =>
    simp only [step]
    split
    · exact h
    · rename_i p hp
      apply inv_settle
      exact h.setProc _ _ (pinv_observe (h.proc p hp))
  | bump n =>
    simp only [step]
    refine h.frame rfl rfl rfl rfl rfl ?_ ?_
    · obtain ⟨st, hf, hg⟩ := h.file
      exact ⟨st, hf, hg.mono (Inv.grows_self rfl rfl rfl)⟩
    · intro p hp
      refine PInv.mono ?_ ?_ (h.proc p hp)
      · exact Inv.grows_self rfl rfl rfl
      · rfl
  | «include» t =>
    simp only [step]
    split
    · rename_i hm
      have g : Grows w { w with mempool := w.mempool.erase t, cheight := w.cheight + 1,
                                chain := w.chain ++ [(w.cheight + 1, t)] } :=
        ⟨rfl, fun _ h => h, fun e he => List.mem_append_left _ he⟩
      refine ⟨h.ids, ?_, ?_, fun tx htx => (h.attach tx htx).mono g, ?_, ?_, h.exits⟩
      · intro e he
        rcases List.mem_append.1 he with h1 | h1
        · exact h.chainIds e h1
        · rw [List.mem_singleton.1 h1]; exact h.memIds t hm
      · intro t' ht'
        exact h.memIds t' (List.mem_of_mem_erase ht')
      · obtain ⟨st, hf, hg⟩ := h.file
        exact ⟨st, hf, hg.mono g⟩
      · intro p hp
        exact (h.proc p hp).mono g rfl
    · exact h
  | drop t =>
    simp only [step]
    split
    · refine h.frameMem rfl rfl rfl ?_ rfl rfl rfl ?_
      · intro t' ht'
        exact h.memIds t' (List.mem_of_mem_erase ht')
      · intro p hp; exact h.proc p hp
    · exact h
  | corruptTmp c =>
    simp only [step]
    split
    · rename_i hp
      refine h.frame rfl rfl rfl rfl rfl ?_ ?_
      · obtain ⟨st, hf, hg⟩ := h.file
        exact ⟨st, hf, hg.mono (Inv.grows_self rfl rfl rfl)⟩
      · intro p hp'
        rw [hp] at hp'
        cases hp'
    · exact h
  | tamperFile c => simp [Action.benign] at hb

theorem inv_init (base ch : Nat) : Inv (init base ch) := by
  refine ⟨rfl, ?_, ?_, ?_, ?_, ?_, rfl⟩
  · intro e he; simp [init] at he
  · intro t ht; simp [init] at ht
  · intro tx htx; simp [init] at htx
  · by_cases hb : base = 0
    · refine ⟨.fresh, by simp [init, hb], ?_⟩
      simp [GoodSt, init, hb]
    · refine ⟨.started ⟨ch, base⟩, by simp [init, hb], ?_⟩
      refine ⟨Nat.le_refl _, ?_⟩
      intro k hk hle
      simp [init] at hk hle
      omega
  · intro p hp; simp [init] at hp

theorem inv_run {w : World} (h : Inv w) (acts : List Action) (hb : ∀ a ∈ acts, a.benign = true) :
    Inv (run w acts) := by
  induction acts generalizing w with
  | nil => exact h
  | cons a as ih =>
    simp only [run, List.foldl_cons]
    exact ih (inv_step h a (hb a (List.mem_cons_self ..))) (fun b hb' => hb b (List.mem_cons_of_mem _ hb'))

end Astria.RelayerCrash
