/-
  Crash/restart model of the sequencer-relayer (property C11).

  Code modelled (crates/astria-sequencer-relayer/src/relayer):
  * `submission.rs`   — the state file (`State::{read, write}`, `new_from_path`, `into_prepared`,
                        `into_started`, `revert`, `FreshSubmission::into_started`);
  * `write/mod.rs`    — `BlobSubmitter::run` (select loop: take / recv with skip),
                        `try_confirm_submission_from_last_session`, `submit_with_retry`,
                        `try_submit`, `try_confirm_submission_from_failed_attempt`;
  * `celestia_client` — `try_prepare`, `try_submit` (= broadcast, then poll `GetTx` for ever),
                        `confirm_submission_with_timeout`;
  * `mod.rs`, `read.rs` — `Relayer::run` start-up (`new_from_path`, reader starts at
                        `last_completed + 1`), `BlockStream` (one fetch in flight, in order,
                        pause/resume), forwarding of fetched blocks into the submitter's channel
                        (`try_send`, `forward_once_free` when its 128 slots are taken).

  One `Action` = one thing the *environment* does: let the one queued blocking file-system
  operation run (`fs`), answer the one held RPC of a kind (`fetch`, `bcast`, `gettx`), let time
  pass (`wait` = until the submitter side sends its next Celestia RPC; `giveup` = a bounded
  confirmation is answered "unknown" until it times out; `expire` = it times out between two
  polls; `poll` = only the reader's latest-height poll runs, which in the real system also
  happens while a Celestia RPC is held), move a transaction of the fake Celestia mempool
  (`include`, `drop`), produce sequencer blocks (`bump`), kill the process (`crash`), start it
  (`restart`), leave a partially written temp file behind (`corruptTmp`) and — not benign —
  overwrite the state file (`tamperFile`).  Between two such actions the process runs until it
  blocks again (`settle`): every `await` of the Rust code that needs the environment is a
  separate state.

  Not modelled: a block that does not fit the payload limit (`pending_block`; model and
  theorems of C12, `Astria/Relayer/Loop.lean`), graceful shutdown, failing sequencer RPCs (they
  are retried without any state change), a `BroadcastTx` response carrying another hash than the
  locally computed one, durations (every timeout is an action the environment may take at any
  moment; sleeping and retry delays are "until the next RPC").
-/
namespace Astria.RelayerCrash

/-- `CompletedSubmission` -/
structure Sub where
  ch : Nat      -- celestia height
  sh : Nat      -- sequencer height
  deriving DecidableEq, Repr, Inhabited

/-- `submission::State`; `tx` stands for the blob-tx hash (transactions are numbered in the
    order in which the relayer signs them; the `at` stamp only bounds a timeout) -/
inductive FileSt where
  | fresh
  | started (last : Sub)
  | prepared (h : Nat) (last : Sub) (tx : Nat)
  deriving DecidableEq, Repr, Inhabited

/-- `last_completed_sequencer_height` (0 for `fresh`: the reader then starts at 1) -/
def FileSt.last : FileSt → Nat
  | .fresh => 0
  | .started l => l.sh
  | .prepared _ l _ => l.sh

/-- what a file on disk holds: the complete JSON of a state, or anything else
    (truncated, garbage, unknown tag, missing field) -/
inductive Content where
  | ok (st : FileSt)
  | bad
  deriving DecidableEq, Repr, Inhabited

inductive ReadErr where
  | missing | parse | invariant
  deriving DecidableEq, Repr

/-- `State::read`: read, parse, then `ensure!(sequencer_height > last_submission.sequencer_height)` -/
def readState : Option Content → Except ReadErr FileSt
  | none => .error .missing
  | some .bad => .error .parse
  | some (.ok (.prepared h l t)) => if l.sh < h then .ok (.prepared h l t) else .error .invariant
  | some (.ok st) => .ok st

/-- a BlobTx the relayer signed: its number and the sequencer heights whose data it carries -/
structure Tx where
  id : Nat
  hs : List Nat
  deriving DecidableEq, Repr

/-- `greatest_sequencer_height` of a submission -/
def largest (hs : List Nat) : Nat := hs.foldl max 0

/-- `Relayer::run` before its select loop -/
inductive Boot where
  | read                  -- `State::read` queued
  | wTmp (st : FileSt)    -- "ensure the state can be written": temp write queued
  | wRen (st : FileSt)    -- rename queued
  | up
  deriving DecidableEq, Repr

/-- `BlobSubmitter::run` before its select loop -/
inductive Startup where
  | lsleep (h : Nat) (l : Sub) (tx : Nat)   -- confirming the last session's tx: between polls
  | lget (h : Nat) (l : Sub) (tx : Nat)     -- `GetTx` held by the environment
  | lwTmp (new : Sub)                        -- `into_started` / `revert`: temp write queued
  | lwRen (new : Sub)
  | loop
  deriving DecidableEq, Repr

/-- the in-flight `submit_blobs` future (`started_submission` is the loop's, it does not change
    while a submission is in flight) -/
inductive Ongoing where
  | none
  | wPrepTmp (hs : List Nat)               -- `try_prepare` done; `into_prepared`: temp write queued
  | wPrepRen (hs : List Nat) (tx : Nat)
  | bcast (hs : List Nat) (tx : Nat)       -- `BroadcastTx` held
  | csleep (hs : List Nat) (tx : Nat)      -- `confirm_submission`: between polls (no timeout)
  | cget (hs : List Nat) (tx : Nat)        -- `GetTx` held
  | wStartTmp (hs : List Nat) (new : Sub)  -- `into_started`: temp write queued
  | wStartRen (hs : List Nat) (new : Sub)
  | backoff (hs : List Nat)                -- attempt failed (not a broadcast timeout): retry delay
  | fsleep (hs : List Nat) (tx : Nat)      -- broadcast timed out: confirming it first (bounded)
  | fget (hs : List Nat) (tx : Nat)
  deriving DecidableEq, Repr

/-- volatile state of the process -/
structure Proc where
  boot : Boot := .read
  -- reader (`BlockStream` + forwarding)
  rnext : Nat := 1
  observed : Option Nat := none
  requested : Option Nat := none
  fetched : Option Nat := none
  inflight : Option Nat := none
  chan : List Nat := []
  /-- `forward_once_free`: the block that found the submitter's channel full; the block stream
      is paused while it waits -/
  fwd : Option Nat := none
  /-- ghost: height of the last block the submitter took out of the channel (start − 1 at first) -/
  recvd : Nat := 0
  -- submitter
  su : Startup := .loop
  started : Sub := ⟨0, 0⟩
  next : List Nat := []
  ongoing : Ongoing := .none
  cc : Option Nat := none     -- `latest_confirmed_celestia_height` of the status page
  deriving DecidableEq, Repr

structure World where
  /-- sequencer height the very first state file stands at (0 = `fresh`); constant -/
  base : Nat := 0
  file : Option Content := some (.ok .fresh)
  tmp : Option Content := none
  txs : List Tx := []                 -- every BlobTx ever written into a `prepared` state
  mempool : List Nat := []
  chain : List (Nat × Nat) := []      -- (celestia height, tx), oldest first
  cheight : Nat := 10
  latest : Nat := 0                   -- latest sequencer height
  np : Nat := 0                       -- number of `try_prepare` rounds
  proc : Option Proc := none
  /-- ghost: how often the process ended by itself (unreadable state file at start-up, or the
      submitter task failing); the theorems show it stays 0 -/
  exits : Nat := 0
  deriving Repr

inductive BcastOutcome where
  | ok                          -- accepted into the mempool
  | lost                        -- accepted by the node, then evicted: never included
  | reject                      -- error code / gRPC error / empty response
  | timeout (accepted : Bool)   -- no answer within the gRPC timeout (the tx may have got in)
  deriving DecidableEq, Repr

inductive GetTxMode where
  | truth     -- `NotFound` status unless on chain
  | h0        -- response with height 0 unless on chain
  | err       -- transient failure
  deriving DecidableEq, Repr

inductive Action where
  | restart
  | crash
  | fs
  | fetch
  | bcast (o : BcastOutcome)
  | gettx (m : GetTxMode)
  | giveup
  | expire
  | wait
  | poll
  | bump (n : Nat)
  | include (t : Nat)
  | drop (t : Nat)
  | corruptTmp (c : Option Content)
  | tamperFile (c : Option Content)
  deriving DecidableEq, Repr

/-- everything except overwriting the state file behind the relayer's back -/
def Action.benign : Action → Bool
  | .tamperFile _ => false
  | _ => true

def World.confirmedAt (w : World) (t : Nat) : Option Nat :=
  (w.chain.find? (·.2 = t)).map (·.1)

/-! ### the process between two environment actions -/

/-- capacity of the channel between `Relayer::run` and the submitter -/
def chanCap : Nat := 128

/-- `BlockStream::poll_next`: one fetch in flight, heights in order, up to the observed height;
    nothing is fetched while the stream is paused -/
def readerStep (p : Proc) : Proc :=
  match p.inflight, p.fwd, p.observed with
  | none, none, some o =>
    if p.rnext ≤ o then
      { p with inflight := some p.rnext, requested := some p.rnext, rnext := p.rnext + 1 }
    else p
  | _, _, _ => p

/-- `forward_block_for_submission`: `try_send`, or park the block and pause the stream -/
def forwardBlock (p : Proc) (h : Nat) : Proc :=
  if p.chan.length < chanCap then { p with chan := p.chan ++ [h] } else { p with fwd := some h }

/-- the parked `send` completes as soon as the channel has room; the stream resumes -/
def forwardStep (p : Proc) : Proc :=
  match p.fwd with
  | some b => if p.chan.length < chanCap then { p with chan := p.chan ++ [b], fwd := none } else p
  | none => p

inductive LoopRes where
  | idle
  | exit
  | cont (p : Proc) (prepared : Nat)

/-- one iteration of the `select!` of `BlobSubmitter::run` (biased: take before recv) -/
def loopStep (p : Proc) : LoopRes :=
  match p.boot, p.su with
  | .up, .loop =>
    match p.ongoing, p.next, p.chan with
    | .none, h :: hs, _ =>
      -- take; `submit_blobs` → `try_submit` → `try_prepare` → `into_prepared` (`ensure!`)
      if p.started.sh < largest (h :: hs) then
        .cont { p with next := [], ongoing := .wPrepTmp (h :: hs) } 1
      else .exit
    | _, _, b :: rest =>
      -- recv; blocks at or below the last completed submission are skipped
      if b ≤ p.started.sh then .cont { p with chan := rest, recvd := b } 0
      else .cont { p with chan := rest, recvd := b, next := p.next ++ [b] } 0
    | _, _, [] => .idle
  | _, _ => .idle

/-- runs the submitter loop until it blocks; `none` = the process ended by itself -/
def settleLoop : Nat → Proc → Nat → Option Proc × Nat
  | 0, p, np => (some p, np)
  | fuel + 1, p, np =>
    match loopStep p with
    | .idle => (some p, np)
    | .exit => (none, np)
    | .cont p' d => settleLoop fuel p' (np + d)

def settleProc (p : Proc) (np : Nat) : Option Proc × Nat :=
  match settleLoop (2 * p.chan.length + 4) p np with
  | (some p1, np1) =>
    -- a parked block gets in once the submitter has made room, and is received in turn
    match settleLoop 6 (forwardStep p1) np1 with
    | (some p2, np2) => (some (if p2.boot = .up then readerStep p2 else p2), np2)
    | (none, np2) => (none, np2)
  | (none, np') => (none, np')

def World.settle (w : World) : World :=
  match w.proc with
  | none => w
  | some p =>
    let (op, np) := settleProc p w.np
    { w with proc := op, np := np, exits := if op.isSome then w.exits else w.exits + 1 }

/-- time passes while the process is in its main loop: the latest-height poll runs -/
def observe (w : World) (p : Proc) : Proc :=
  if p.boot = .up then { p with observed := some w.latest } else p

/-! ### the actions -/

/-- the relayer's view right after `new_from_path` succeeded with `st` -/
def procAfterBoot (w : World) (p : Proc) (st : FileSt) : Proc :=
  let p := { p with boot := .up, rnext := st.last + 1, recvd := st.last, observed := some w.latest }
  match st with
  | .fresh => { p with su := .loop, started := ⟨0, 0⟩ }
  | .started l => { p with su := .loop, started := l }
  | .prepared h l t => { p with su := .lsleep h l t, started := l }

/-- `tokio::fs::rename(temp, state)` -/
def World.rename (w : World) : World :=
  match w.tmp with
  | some c => { w with file := some c, tmp := none }
  | none => w

/-- lets the one queued blocking file-system operation run -/
def stepFs (w : World) : World :=
  match w.proc with
  | none => w
  | some p =>
    match p.boot with
    | .read =>
      match readState w.file with
      | .error _ => { w with proc := none, exits := w.exits + 1 }
      | .ok st => { w with proc := some { p with boot := .wTmp st } }
    | .wTmp st => { w with tmp := some (.ok st), proc := some { p with boot := .wRen st } }
    | .wRen st =>
      let w := w.rename
      ({ w with proc := some (procAfterBoot w p st) }).settle
    | .up =>
      match p.su with
      | .lwTmp new =>
        { w with tmp := some (.ok (.started new)), proc := some { p with su := .lwRen new } }
      | .lwRen new =>
        let w := w.rename
        ({ w with proc := some { p with su := .loop, started := new, cc := some new.ch } }).settle
      | .loop =>
        match p.ongoing with
        | .wPrepTmp hs =>
          let t := w.txs.length + 1
          { w with txs := w.txs ++ [⟨t, hs⟩],
                   tmp := some (.ok (.prepared (largest hs) p.started t)),
                   proc := some { p with ongoing := .wPrepRen hs t } }
        | .wPrepRen hs t =>
          let w := w.rename
          { w with proc := some { p with ongoing := .bcast hs t } }
        | .wStartTmp hs new =>
          { w with tmp := some (.ok (.started new)),
                   proc := some { p with ongoing := .wStartRen hs new } }
        | .wStartRen _ new =>
          let w := w.rename
          ({ w with proc := some { p with started := new, cc := some new.ch, ongoing := .none } }).settle
        | _ => w
      | _ => w

/-- answers the held `GetSequencerBlock` with the block -/
def stepFetch (w : World) : World :=
  match w.proc with
  | none => w
  | some p =>
    match p.inflight with
    | none => w
    | some h =>
      ({ w with proc := some (forwardBlock { p with inflight := none, fetched := some h } h) }).settle

def stepBcast (w : World) (o : BcastOutcome) : World :=
  match w.proc with
  | none => w
  | some p =>
    match p.ongoing with
    | .bcast hs t =>
      match o with
      | .ok => { w with mempool := w.mempool ++ [t], proc := some { p with ongoing := .csleep hs t } }
      | .lost => { w with proc := some { p with ongoing := .csleep hs t } }
      | .reject => { w with proc := some { p with ongoing := .backoff hs } }
      | .timeout acc =>
        ({ w with mempool := if acc then w.mempool ++ [t] else w.mempool,
                  proc := some { observe w p with ongoing := .fget hs t } }).settle
    | _ => w

def stepGetTx (w : World) (m : GetTxMode) : World :=
  match w.proc with
  | none => w
  | some p =>
    match p.su with
    | .lget h l t =>
      match m, w.confirmedAt t with
      | .err, _ | _, none => { w with proc := some { p with su := .lsleep h l t } }
      | _, some ch => { w with proc := some { p with su := .lwTmp ⟨ch, h⟩ } }
    | .loop =>
      match p.ongoing with
      | .cget hs t =>
        match m, w.confirmedAt t with
        | .err, _ | _, none => { w with proc := some { p with ongoing := .csleep hs t } }
        | _, some ch => { w with proc := some { p with ongoing := .wStartTmp hs ⟨ch, largest hs⟩ } }
      | .fget hs t =>
        match m, w.confirmedAt t with
        | .err, _ | _, none => { w with proc := some { p with ongoing := .fsleep hs t } }
        | _, some ch => { w with proc := some { p with ongoing := .wStartTmp hs ⟨ch, largest hs⟩ } }
      | _ => w
    | _ => w

/-- the held `GetTx` and all following ones are answered "unknown" until a *bounded*
    confirmation gives up (the transaction must not be on chain: the fake answers truthfully) -/
def stepGiveup (w : World) : World :=
  match w.proc with
  | none => w
  | some p =>
    match p.su with
    | .lget _ l t =>
      if (w.confirmedAt t).isSome then w
      else ({ w with proc := some { observe w p with su := .lwTmp l } }).settle
    | .loop =>
      match p.ongoing with
      | .fget hs t =>
        if (w.confirmedAt t).isSome then w
        else ({ w with np := w.np + 1, proc := some { observe w p with ongoing := .wPrepTmp hs } }).settle
      | .cget _ t =>
        if (w.confirmedAt t).isSome then w
        else ({ w with proc := some (observe w p) }).settle
      | _ => w
    | _ => w

/-- a *bounded* confirmation expires between two polls (transient `GetTx` failures stretch the
    poll interval up to 12 s): same continuation as `giveup`, whatever the chain says meanwhile -/
def stepExpire (w : World) : World :=
  match w.proc with
  | none => w
  | some p =>
    match p.su with
    | .lsleep _ l _ => ({ w with proc := some { observe w p with su := .lwTmp l } }).settle
    | .loop =>
      match p.ongoing with
      | .fsleep hs _ =>
        ({ w with np := w.np + 1, proc := some { observe w p with ongoing := .wPrepTmp hs } }).settle
      | _ => w
    | _ => w

/-- is a Celestia RPC of the process held by the environment? (time must not pass then:
    the 5 s gRPC timeout would fire) -/
def Proc.celestiaHeld (p : Proc) : Bool :=
  (match p.su with | .lget .. => true | _ => false) ||
  (match p.ongoing with | .bcast .. | .cget .. | .fget .. => true | _ => false)

/-- time passes until the submitter side sends its next Celestia RPC (at most 16 s) -/
def stepWait (w : World) : World :=
  match w.proc with
  | none => w
  | some p =>
    if p.celestiaHeld then w
    else
      let p := observe w p
      match p.su with
      | .lsleep h l t => ({ w with proc := some { p with su := .lget h l t } }).settle
      | .loop =>
        match p.ongoing with
        | .csleep hs t => ({ w with proc := some { p with ongoing := .cget hs t } }).settle
        | .fsleep hs t => ({ w with proc := some { p with ongoing := .fget hs t } }).settle
        | .backoff hs =>
          ({ w with np := w.np + 1, proc := some { p with ongoing := .wPrepTmp hs } }).settle
        | _ => ({ w with proc := some p }).settle
      | _ => ({ w with proc := some p }).settle

def step (w : World) : Action → World
  | .restart => match w.proc with
    | none => { w with proc := some {} }
    | some _ => w
  | .crash => { w with proc := none }
  | .fs => stepFs w
  | .fetch => stepFetch w
  | .bcast o => stepBcast w o
  | .gettx m => stepGetTx w m
  | .giveup => stepGiveup w
  | .expire => stepExpire w
  | .wait => stepWait w
  | .poll => match w.proc with
    | none => w
    | some p => ({ w with proc := some (observe w p) }).settle
  | .bump n => { w with latest := w.latest + n }
  | .include t =>
    if t ∈ w.mempool then
      { w with mempool := w.mempool.erase t, cheight := w.cheight + 1,
               chain := w.chain ++ [(w.cheight + 1, t)] }
    else w
  | .drop t => if t ∈ w.mempool then { w with mempool := w.mempool.erase t } else w
  | .corruptTmp c => match w.proc with
    | none => { w with tmp := c }
    | some _ => w
  | .tamperFile c => match w.proc with
    | none => { w with file := c }
    | some _ => w

def run (w : World) (acts : List Action) : World := acts.foldl step w

/-- the world before the relayer is started for the first time: `fresh`, or an operator-written
    `started` state at sequencer height `base` -/
def init (base ch : Nat) : World :=
  { base := base,
    file := some (.ok (if base = 0 then .fresh else .started ⟨ch, base⟩)),
    latest := base }

/-! ### the decidable spec (evaluated by the driver on what the implementation reports) -/

/-- sequencer heights confirmed on Celestia, given the chain content as (tx, heights) -/
def confirmedHeights (chain : List (List Nat)) : List Nat := chain.flatten

/-- every height above `base` up to `n` is in `hs` -/
def coveredUpTo (base : Nat) (hs : List Nat) (n : Nat) : Bool :=
  (List.range (n - base)).all (fun i => hs.contains (base + 1 + i))

/-- gap-free: with a height, every height above `base` below it is confirmed too -/
def gapFree (base : Nat) (hs : List Nat) : Bool :=
  hs.all (fun h => base < h && coveredUpTo base hs h)

end Astria.RelayerCrash
