/- Model for area `crash` (stub). -/
namespace Astria.RelayerCrash

end Astria.RelayerCrash
