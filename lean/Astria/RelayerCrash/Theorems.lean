import Astria.RelayerCrash.Model
/- Theorems for area `crash` (stub). -/
namespace Astria.RelayerCrash

end Astria.RelayerCrash
