import Astria.RelayerCrash.Invariant
/-
  Main theorems of the crash/restart model (C11): for every sequence of benign environment
  actions — any number of crashes at any await point, any outcome of any RPC, any block
  arrival pattern, temp files left in any state —
  * the state file is always a complete state that `State::read` accepts, and the process never
    ends by itself;
  * whatever sequencer height the file records as submitted is confirmed on Celestia, together
    with every height from the first relayed one up to it;
  * the heights confirmed on Celestia have no gap.
  The same statements for the decidable spec functions the driver's monitors evaluate.
-/
namespace Astria.RelayerCrash

/-! ### `base` never changes -/

theorem settle_base (w : World) : w.settle.base = w.base := by
  unfold World.settle; split <;> rfl

theorem rename_base (w : World) : w.rename.base = w.base := by
  unfold World.rename; split <;> rfl

theorem stepFs_base (w : World) : (stepFs w).base = w.base := by
  unfold stepFs
  repeat' split
  all_goals first | rfl | simp only [settle_base, rename_base]

theorem stepFetch_base (w : World) : (stepFetch w).base = w.base := by
  unfold stepFetch
  repeat' split
  all_goals first | rfl | simp only [settle_base]

theorem stepBcast_base (w : World) (o : BcastOutcome) : (stepBcast w o).base = w.base := by
  unfold stepBcast
  repeat' split
  all_goals first | rfl | simp only [settle_base]

theorem stepGetTx_base (w : World) (m : GetTxMode) : (stepGetTx w m).base = w.base := by
  unfold stepGetTx
  repeat' split
  all_goals rfl

theorem stepGiveup_base (w : World) : (stepGiveup w).base = w.base := by
  unfold stepGiveup
  repeat' split
  all_goals first | rfl | simp only [settle_base]

theorem stepExpire_base (w : World) : (stepExpire w).base = w.base := by
  unfold stepExpire
  repeat' split
  all_goals first | rfl | simp only [settle_base]

theorem stepWait_base (w : World) : (stepWait w).base = w.base := by
  unfold stepWait
  split
  · rfl
  · split
    · rfl
    · simp only []
      repeat' split
      all_goals simp only [settle_base]

theorem step_base (w : World) (a : Action) : (step w a).base = w.base := by
  cases a with
  | fs => exact stepFs_base w
  | fetch => exact stepFetch_base w
  | bcast o => exact stepBcast_base w o
  | gettx m => exact stepGetTx_base w m
  | giveup => exact stepGiveup_base w
  | expire => exact stepExpire_base w
  | wait => exact stepWait_base w
  | poll => simp only [step]; split <;> first | rfl | simp only [settle_base]
  | restart => simp only [step]; split <;> rfl
  | crash => rfl
  | bump n => rfl
  | «include» t => simp only [step]; split <;> rfl
  | drop t => simp only [step]; split <;> rfl
  | corruptTmp c => simp only [step]; split <;> rfl
  | tamperFile c => simp only [step]; split <;> rfl

theorem run_base (w : World) (acts : List Action) : (run w acts).base = w.base := by
  induction acts generalizing w with
  | nil => rfl
  | cons a as ih => simp only [run, List.foldl_cons]; exact (ih (step w a)).trans (step_base w a)

/-! ### the three parts of C11 on the model -/

def Benign (acts : List Action) : Prop := ∀ a ∈ acts, a.benign = true

instance (acts : List Action) : Decidable (Benign acts) :=
  inferInstanceAs (Decidable (∀ a ∈ acts, a.benign = true))

theorem reachable_inv (base ch : Nat) (acts : List Action) (hb : Benign acts) :
    Inv (run (init base ch) acts) :=
  inv_run (inv_init base ch) acts hb

/-- the state file always holds a complete state that `State::read` accepts -/
theorem file_readable (base ch : Nat) (acts : List Action) (hb : Benign acts) :
    ∃ st, (run (init base ch) acts).file = some (.ok st) ∧
      readState (run (init base ch) acts).file = .ok st := by
  obtain ⟨st, hf, hg⟩ := (reachable_inv base ch acts hb).file
  exact ⟨st, hf, hf ▸ readState_good hg⟩

/-- the process never ends by itself (unreadable state file, failed submitter task) -/
theorem never_exits (base ch : Nat) (acts : List Action) (hb : Benign acts) :
    (run (init base ch) acts).exits = 0 :=
  (reachable_inv base ch acts hb).exits

/-- a height the state file records as submitted, and every height from the first relayed one
    up to it, is confirmed on Celestia -/
theorem recorded_confirmed (base ch : Nat) (acts : List Action) (hb : Benign acts) (st : FileSt)
    (hf : (run (init base ch) acts).file = some (.ok st)) (k : Nat) (h1 : base < k)
    (h2 : k ≤ st.last) : Covered (run (init base ch) acts) k := by
  obtain ⟨st', hf', hg⟩ := (reachable_inv base ch acts hb).file
  rw [hf] at hf'
  cases hf'
  exact hg.cov_last k (by rw [run_base]; exact h1) h2

/-- the heights confirmed on Celestia lie above the first relayed one and have no gap -/
theorem no_gap (base ch : Nat) (acts : List Action) (hb : Benign acts) (h : Nat)
    (hc : Covered (run (init base ch) acts) h) :
    base < h ∧ ∀ k, base < k → k ≤ h → Covered (run (init base ch) acts) k := by
  have hinv := reachable_inv base ch acts hb
  have hbase := run_base (init base ch) acts
  obtain ⟨e, he, tx, htx, hid, hk⟩ := hc
  obtain ⟨h1, h2⟩ := hinv.attach tx htx h hk
  rw [hbase] at h1
  refine ⟨h1, fun k hk1 hk2 => ?_⟩
  rcases h2 k (by rw [hbase]; exact hk1) hk2 with hc | hm
  · exact hc
  · exact ⟨e, he, tx, htx, hid, hm⟩

/-- transactions are numbered uniquely, so "a transaction on chain carries `k`" is about the
    very transaction that was broadcast under that number -/
theorem tx_ids_unique (base ch : Nat) (acts : List Action) (hb : Benign acts) :
    ((run (init base ch) acts).txs.map (·.id)).Nodup := by
  rw [(reachable_inv base ch acts hb).ids]
  exact List.nodup_range'

/-! ### the same in terms of the decidable spec the monitors evaluate -/

/-- the chain as the harness reports it: for every entry the heights its transaction carries -/
def World.chainHeights (w : World) : List (List Nat) :=
  w.chain.map (fun e => (w.txs.filter (fun tx => tx.id = e.2)).flatMap (·.hs))

theorem mem_confirmedHeights (w : World) (k : Nat) :
    k ∈ confirmedHeights w.chainHeights ↔ Covered w k := by
  simp only [confirmedHeights, World.chainHeights, List.mem_flatten, List.mem_map, Covered]
  constructor
  · rintro ⟨l, ⟨e, he, rfl⟩, hk⟩
    simp only [List.mem_flatMap, List.mem_filter, decide_eq_true_eq] at hk
    obtain ⟨tx, ⟨htx, hid⟩, hkk⟩ := hk
    exact ⟨e, he, tx, htx, hid, hkk⟩
  · rintro ⟨e, he, tx, htx, hid, hk⟩
    refine ⟨_, ⟨e, he, rfl⟩, ?_⟩
    simp only [List.mem_flatMap, List.mem_filter, decide_eq_true_eq]
    exact ⟨tx, ⟨htx, hid⟩, hk⟩

theorem coveredUpTo_iff (base : Nat) (hs : List Nat) (n : Nat) :
    coveredUpTo base hs n = true ↔ ∀ k, base < k → k ≤ n → k ∈ hs := by
  simp only [coveredUpTo, List.all_eq_true, List.mem_range, List.contains_iff_mem]
  constructor
  · intro h k h1 h2
    have := h (k - base - 1) (by omega)
    have e : base + 1 + (k - base - 1) = k := by omega
    rwa [e] at this
  · intro h i hi
    exact h _ (by omega) (by omega)

theorem gapFree_iff (base : Nat) (hs : List Nat) :
    gapFree base hs = true ↔ ∀ h ∈ hs, base < h ∧ ∀ k, base < k → k ≤ h → k ∈ hs := by
  simp only [gapFree, List.all_eq_true, Bool.and_eq_true, decide_eq_true_eq, coveredUpTo_iff]

/-- the monitors' spec holds in every reachable state of the model -/
theorem spec_holds (base ch : Nat) (acts : List Action) (hb : Benign acts) :
    let w := run (init base ch) acts
    gapFree base (confirmedHeights w.chainHeights) = true ∧
    ∃ st, w.file = some (.ok st) ∧ readState w.file = .ok st ∧
      coveredUpTo base (confirmedHeights w.chainHeights) st.last = true := by
  intro w
  refine ⟨?_, ?_⟩
  · rw [gapFree_iff]
    intro h hh
    obtain ⟨h1, h2⟩ := no_gap base ch acts hb h ((mem_confirmedHeights w h).1 hh)
    exact ⟨h1, fun k a b => (mem_confirmedHeights w k).2 (h2 k a b)⟩
  · obtain ⟨st, hf, hr⟩ := file_readable base ch acts hb
    refine ⟨st, hf, hr, ?_⟩
    rw [coveredUpTo_iff]
    intro k h1 h2
    exact (mem_confirmedHeights w k).2 (recorded_confirmed base ch acts hb st hf k h1 h2)

end Astria.RelayerCrash
