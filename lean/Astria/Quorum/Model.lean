/-
  Models of the two places where ">2/3 of the voting power" decides acceptance:

  * conductor `celestia/block_verifier.rs::ensure_commit_has_quorum` and
    `celestia/verify.rs::BlobVerifier::verify_metadata`                         (C09)
  * sequencer `app/vote_extension.rs::{validate_vote_extensions,
    validate_extended_commit_against_last_commit, validate_proposal}` and
    `astria-core oracles/price_feed/utils.rs::median`                           (C15)

  Signatures are abstract: a validator is identified by its key `k : Nat`, a signature is a
  tag `s : Nat`, and `sigOk k s` says whether `s` verifies under `k` for the message at hand
  (the harness signs with real ed25519 keys and reports which key each signature is valid
  for; 0 = valid for nobody).  Every theorem is stated for an arbitrary `sigOk`.
-/
namespace Astria.Quorum

def U64_MAX : Nat := 2 ^ 64 - 1

/-- `checked_add` on `u64`. -/
def checkedAdd64 (a b : Nat) : Option Nat := if a + b ≤ U64_MAX then some (a + b) else none

/-- `saturating_add` on `u64`. -/
def satAdd64 (a b : Nat) : Nat := if a + b ≤ U64_MAX then a + b else U64_MAX

/-! ## C09: conductor commit quorum -/

structure Validator where
  key : Nat          -- also stands for the address derived from the key
  power : Nat
  deriving DecidableEq, Repr

inductive CommitSig where
  | other                                  -- absent / nil vote: skipped
  | commit (addr : Nat) (sig : Option Nat) -- BlockIdFlagCommit
  deriving DecidableEq, Repr

inductive QErr where
  | heightMismatch | totalOverflow | emptySignature | noSuchValidator | duplicateVote
  | badSignature | exceedsTotal | noQuorum
  deriving DecidableEq, Repr

/-- `does_commit_voting_power_have_quorum` as repaired: exact arithmetic (in `u128`). -/
def hasQuorum (committed total : Nat) : Bool := decide (3 * committed > 2 * total)

/-- The function as in the pinned source (DESIGN §7 F8). -/
def hasQuorumOriginal (committed total : Nat) : Bool :=
  if total < 3 then decide (min (committed * 3) U64_MAX > min (total * 2) U64_MAX)
  else decide (committed > (total / 3) * 2)

def totalPower : List Validator → Option Nat
  | [] => some 0
  | v :: rest => match totalPower rest with
    | none => none
    | some t => checkedAdd64 v.power t

/-- `HashMap` built from the validator list: the last entry for an address wins. -/
def lookup (vals : List Validator) (addr : Nat) : Option Validator :=
  (vals.reverse.find? (·.key = addr))

/-- The vote loop: returns the tally, given the already counted addresses. -/
def tally (sigOk : Nat → Nat → Bool) (vals : List Validator) :
    List CommitSig → List Nat → Nat → Except QErr Nat
  | [], _, acc => .ok acc
  | .other :: rest, seen, acc => tally sigOk vals rest seen acc
  | .commit addr sig :: rest, seen, acc =>
    match sig with
    | none => .error .emptySignature
    | some s =>
      match lookup vals addr with
      | none => .error .noSuchValidator
      | some v =>
        if addr ∈ seen then .error .duplicateVote
        else if !sigOk v.key s then .error .badSignature
        else tally sigOk vals rest (addr :: seen) (satAdd64 acc v.power)

def ensureQuorum (sigOk : Nat → Nat → Bool) (heightsMatch : Bool) (vals : List Validator)
    (sigs : List CommitSig) : Except QErr Unit :=
  if !heightsMatch then .error .heightMismatch
  else match totalPower vals with
    | none => .error .totalOverflow
    | some total =>
      match tally sigOk vals sigs [] 0 with
      | .error e => .error e
      | .ok committed =>
        if committed > total then .error .exceedsTotal
        else if !hasQuorum committed total then .error .noQuorum
        else .ok ()

/-- `BlobVerifier::verify_metadata` as repaired: metadata is kept only if the commit for its
    height has quorum and chain id and block hash equal the commit's. -/
def acceptMetadata (quorumOk : Bool) (chainIdEq hashEq : Bool) : Bool :=
  quorumOk && chainIdEq && hashEq

/-- As in the pinned source: the mismatch is only logged (DESIGN §7 F9). -/
def acceptMetadataOriginal (quorumOk : Bool) (_chainIdEq _hashEq : Bool) : Bool := quorumOk

/-! ## C15: vote extensions -/

inductive Flag where
  | commit | nil | absent | unknown
  deriving DecidableEq, Repr

structure ExtVote where
  addr : Nat
  power : Nat
  flag : Flag
  extEmpty : Bool            -- `vote_extension.is_empty()`
  sig : Option Nat           -- extension signature tag
  deriving DecidableEq, Repr

structure LastVote where
  addr : Nat
  power : Nat
  flag : Flag
  deriving DecidableEq, Repr

inductive VErr where
  | votedTwice | totalOverflow | missingSignature | nonCommitExtension | nonCommitSignature
  | submittedOverflow | unknownValidator | badSignature | zeroPower | mulOverflow | insufficient
  | roundMismatch | lengthMismatch | addressMismatch | powerMismatch | flagMismatch
  deriving DecidableEq, Repr

structure VEAcc where
  seen : List Nat := []
  total : Nat := 0
  submitted : Nat := 0
  deriving Repr

/-- The loop of `validate_vote_extensions`; `keyOf addr` = the verification key stored for
    the validator with that address. -/
def veLoop (sigOk : Nat → Nat → Bool) (keyOf : Nat → Option Nat) :
    List ExtVote → VEAcc → Except VErr VEAcc
  | [], acc => .ok acc
  | v :: rest, acc =>
    if v.addr ∈ acc.seen then .error .votedTwice
    else match checkedAdd64 acc.total v.power with
      | none => .error .totalOverflow
      | some total =>
        if v.flag = .commit then
          match v.sig with
          | none => .error .missingSignature
          | some s =>
            match checkedAdd64 acc.submitted v.power with
            | none => .error .submittedOverflow
            | some submitted =>
              match keyOf v.addr with
              | none => .error .unknownValidator
              | some k =>
                if !sigOk k s then .error .badSignature
                else veLoop sigOk keyOf rest { seen := v.addr :: acc.seen, total := total, submitted := submitted }
        else if !v.extEmpty then .error .nonCommitExtension
        else if v.sig.isSome then .error .nonCommitSignature
        else veLoop sigOk keyOf rest { acc with seen := v.addr :: acc.seen, total := total }

def validateVoteExtensions (sigOk : Nat → Nat → Bool) (keyOf : Nat → Option Nat)
    (votes : List ExtVote) : Except VErr Unit :=
  match veLoop sigOk keyOf votes {} with
  | .error e => .error e
  | .ok acc =>
    if acc.total = 0 then .error .zeroPower
    else if acc.total * 2 > U64_MAX then .error .mulOverflow
    else if acc.submitted ≥ acc.total * 2 / 3 + 1 then .ok () else .error .insufficient

def againstLastLoop : List LastVote → List ExtVote → Except VErr Unit
  | l :: ls, e :: es =>
    if l.addr ≠ e.addr then .error .addressMismatch
    else if l.power ≠ e.power then .error .powerMismatch
    else if e.flag = .absent ∧ e.extEmpty ∧ e.sig.isNone then againstLastLoop ls es
    else if e.flag ≠ l.flag then .error .flagMismatch
    else againstLastLoop ls es
  | _, _ => .ok ()

def validateAgainstLastCommit (roundsMatch : Bool) (last : List LastVote) (ext : List ExtVote) :
    Except VErr Unit :=
  if !roundsMatch then .error .roundMismatch
  else if last.length ≠ ext.length then .error .lengthMismatch
  else againstLastLoop last ext

/-- The quorum part of `ProposalHandler::validate_proposal` (the currency-pair-mapping and
    size checks that follow are separate). -/
def validateProposal (sigOk : Nat → Nat → Bool) (keyOf : Nat → Option Nat) (height : Nat)
    (roundsMatch : Bool) (last : List LastVote) (ext : List ExtVote) : Except VErr Unit :=
  if height = 1 then .ok ()
  else if ext.isEmpty then (if roundsMatch then .ok () else .error .roundMismatch)
  else match validateAgainstLastCommit roundsMatch last ext with
    | .error e => .error e
    | .ok () => validateVoteExtensions sigOk keyOf ext

/-! ## C15: median of reported prices (`i128`) -/

/-- Insertion sort (the result of `sort_unstable` on integers is the sorted list). -/
def insertSorted (x : Int) : List Int → List Int
  | [] => [x]
  | y :: ys => if x ≤ y then x :: y :: ys else y :: insertSorted x ys

def sortInts : List Int → List Int
  | [] => []
  | x :: xs => insertSorted x (sortInts xs)

/-- Rust `x / 2` on `i128`: truncation towards zero. -/
def tdiv2 (x : Int) : Int := if x ≥ 0 then x / 2 else -((-x) / 2)

/-- Rust `x % 2` on `i128`: the remainder has the sign of `x` (-1, 0 or 1). -/
def tmod2 (x : Int) : Int := x - 2 * tdiv2 x

/-- `median` as repaired: both halves are truncated; when both middle prices are odd the two
    truncations lose a whole unit, which is given back with the sign of the operands. -/
def median (ps : List Int) : Option Int :=
  let s := sortInts ps
  let mid := s.length / 2
  if s.length % 2 = 1 then s[mid]?
  else if mid = 0 then none
  else match s[mid - 1]?, s[mid]? with
    | some lo, some hi =>
      let sum := tdiv2 hi + tdiv2 lo
      if tmod2 hi = 1 ∧ tmod2 lo = 1 then some (sum + 1)
      else if tmod2 hi = -1 ∧ tmod2 lo = -1 then some (sum - 1)
      else some sum
    | _, _ => none

/-- `median` as in the pinned source: only the positive correction exists (DESIGN §7 F3). -/
def medianOriginal (ps : List Int) : Option Int :=
  let s := sortInts ps
  let mid := s.length / 2
  if s.length % 2 = 1 then s[mid]?
  else if mid = 0 then none
  else match s[mid - 1]?, s[mid]? with
    | some lo, some hi =>
      let sum := tdiv2 hi + tdiv2 lo
      if tmod2 hi = 1 ∧ tmod2 lo = 1 then some (sum + 1) else some sum
    | _, _ => none

/-! ## vote-extension price bytes: acceptance vs. use -/

/-- `verify_vote_extension` (VerifyVoteExtension, and through `validate_vote_extensions` every
    proposal check): a price is accepted if it is at most 33 bytes long — the bound of
    skip-mev/connect, where prices are gob-encoded big integers. -/
def MAX_PRICE_BYTES : Nat := 33
def verifyAcceptsPriceLen (n : Nat) : Bool := n ≤ MAX_PRICE_BYTES

/-- `Price::try_from(Bytes)` (used by `OracleVoteExtension::try_from_raw` inside
    `calculate_prices_from_vote_extensions`, i.e. by FinalizeBlock): exactly 16 big-endian bytes. -/
def priceDecodes (n : Nat) : Bool := n = 16

end Astria.Quorum
