import Astria.Quorum.Model
/-
  Theorems for the quorum / vote-extension / median models.  `sigOk` is arbitrary.
-/
namespace Astria.Quorum

/-! ## thresholds -/

theorem hasQuorum_exact (c t : Nat) : hasQuorum c t = true ↔ 3 * c > 2 * t := by
  simp [hasQuorum]

/-- The pinned threshold accepts 3 of 5 (60 %), which is not more than two thirds. -/
theorem hasQuorumOriginal_counterexample :
    hasQuorumOriginal 3 5 = true ∧ ¬ (3 * 3 > 2 * 5) := by decide

theorem ve_threshold (s t : Nat) : s ≥ t * 2 / 3 + 1 ↔ 3 * s > 2 * t := by omega

/-! ## C09 -/

def powerOf (vals : List Validator) (S : List Nat) : Nat :=
  (S.map (fun a => match lookup vals a with | some v => v.power | none => 0)).sum

theorem satAdd64_le (a b : Nat) : satAdd64 a b ≤ a + b := by
  unfold satAdd64; split <;> omega

/-- What the vote loop guarantees about the votes it counted. -/
theorem tally_sound (sigOk : Nat → Nat → Bool) (vals : List Validator) :
    ∀ (sigs : List CommitSig) (seen : List Nat) (acc c : Nat),
      tally sigOk vals sigs seen acc = .ok c →
      ∃ S : List Nat, S.Nodup ∧ (∀ a ∈ S, a ∉ seen) ∧
        (∀ a ∈ S, ∃ v s, lookup vals a = some v ∧ CommitSig.commit a (some s) ∈ sigs ∧ sigOk v.key s = true) ∧
        c ≤ acc + powerOf vals S := by
  intro sigs
  induction sigs with
  | nil =>
    intro seen acc c h
    simp [tally] at h
    exact ⟨[], List.nodup_nil, by simp, by simp, by simp [powerOf, h]⟩
  | cons sg rest ih =>
    intro seen acc c h
    cases sg with
    | other =>
      simp only [tally] at h
      obtain ⟨S, hnd, hns, hall, hc⟩ := ih seen acc c h
      refine ⟨S, hnd, hns, ?_, hc⟩
      intro a ha
      obtain ⟨v, s, h1, h2, h3⟩ := hall a ha
      exact ⟨v, s, h1, List.mem_cons_of_mem _ h2, h3⟩
    | commit addr sig =>
      simp only [tally] at h
      cases sig with
      | none => simp at h
      | some s =>
        simp only at h
        cases hl : lookup vals addr with
        | none => simp [hl] at h
        | some v =>
          simp only [hl] at h
          by_cases hseen : addr ∈ seen
          · simp [hseen] at h
          · simp only [hseen, if_false] at h
            by_cases hsig : sigOk v.key s = true
            · simp only [hsig, Bool.not_true, Bool.false_eq_true, if_false] at h
              obtain ⟨S, hnd, hns, hall, hc⟩ := ih (addr :: seen) (satAdd64 acc v.power) c h
              have haddr : addr ∉ S := by
                intro hin
                exact hns addr hin (List.mem_cons_self ..)
              refine ⟨addr :: S, List.nodup_cons.mpr ⟨haddr, hnd⟩, ?_, ?_, ?_⟩
              · intro a ha
                rcases List.mem_cons.mp ha with rfl | ha
                · exact hseen
                · intro hin; exact hns a ha (List.mem_cons_of_mem _ hin)
              · intro a ha
                rcases List.mem_cons.mp ha with rfl | ha
                · exact ⟨v, s, hl, List.mem_cons_self .., hsig⟩
                · obtain ⟨v', s', h1, h2, h3⟩ := hall a ha
                  exact ⟨v', s', h1, List.mem_cons_of_mem _ h2, h3⟩
              · have := satAdd64_le acc v.power
                simp only [powerOf, List.map_cons, List.sum_cons, hl]
                simp only [powerOf] at hc
                omega
            · simp [hsig] at h

/-- Acceptance by `ensure_commit_has_quorum` implies: heights match, and a set of *distinct*
    validators of the set, each with a signature in the commit that verifies under its key,
    holds strictly more than two thirds of the total voting power. -/
theorem ensureQuorum_sound (sigOk : Nat → Nat → Bool) (hm : Bool) (vals : List Validator)
    (sigs : List CommitSig) (h : ensureQuorum sigOk hm vals sigs = .ok ()) :
    hm = true ∧ ∃ total, totalPower vals = some total ∧ ∃ S : List Nat, S.Nodup ∧
      (∀ a ∈ S, ∃ v s, lookup vals a = some v ∧ CommitSig.commit a (some s) ∈ sigs ∧ sigOk v.key s = true) ∧
      3 * powerOf vals S > 2 * total := by
  unfold ensureQuorum at h
  cases hm with
  | false => simp at h
  | true =>
    simp only [Bool.not_true, Bool.false_eq_true, if_false] at h
    refine ⟨rfl, ?_⟩
    cases ht : totalPower vals with
    | none => simp [ht] at h
    | some total =>
      simp only [ht] at h
      refine ⟨total, rfl, ?_⟩
      cases htl : tally sigOk vals sigs [] 0 with
      | error e => simp [htl] at h
      | ok c =>
        simp only [htl] at h
        obtain ⟨S, hnd, _, hall, hc⟩ := tally_sound sigOk vals sigs [] 0 c htl
        refine ⟨S, hnd, hall, ?_⟩
        by_cases h1 : c > total
        · simp [h1] at h
        · simp only [h1, if_false] at h
          by_cases hq : hasQuorum c total = true
          · have := (hasQuorum_exact c total).mp hq
            omega
          · simp [hq] at h

theorem totalPower_eq (vals : List Validator) (t : Nat) (h : totalPower vals = some t) :
    t = (vals.map (·.power)).sum := by
  induction vals generalizing t with
  | nil => simp [totalPower] at h; simp [h]
  | cons v rest ih =>
    simp only [totalPower] at h
    cases hr : totalPower rest with
    | none => simp [hr] at h
    | some t' =>
      simp only [hr, checkedAdd64] at h
      split at h
      · injection h with h
        simp [← h, ih t' hr]
      · cases h

/-- Metadata is accepted only with quorum and equal chain id and block hash. -/
theorem acceptMetadata_sound (q c hsh : Bool) (h : acceptMetadata q c hsh = true) :
    q = true ∧ c = true ∧ hsh = true := by
  simp [acceptMetadata] at h; exact ⟨h.1.1, h.1.2, h.2⟩

/-- The pinned `verify_metadata` keeps metadata whose hash differs from the commit's. -/
theorem acceptMetadataOriginal_counterexample : acceptMetadataOriginal true true false = true := rfl

/-! ## C15: vote extensions -/

def sumPower (vs : List ExtVote) : Nat := (vs.map (·.power)).sum
def sumCommitPower (vs : List ExtVote) : Nat := ((vs.filter (·.flag = .commit)).map (·.power)).sum

theorem veLoop_sound (sigOk : Nat → Nat → Bool) (keyOf : Nat → Option Nat) :
    ∀ (votes : List ExtVote) (acc acc' : VEAcc), veLoop sigOk keyOf votes acc = .ok acc' →
      (votes.map (·.addr)).Nodup ∧ (∀ v ∈ votes, v.addr ∉ acc.seen) ∧
      acc'.total = acc.total + sumPower votes ∧
      acc'.submitted = acc.submitted + sumCommitPower votes ∧
      (∀ v ∈ votes, (v.flag = .commit → ∃ k s, keyOf v.addr = some k ∧ v.sig = some s ∧ sigOk k s = true) ∧
                    (v.flag ≠ .commit → v.extEmpty = true ∧ v.sig = none)) := by
  intro votes
  induction votes with
  | nil =>
    intro acc acc' h
    simp [veLoop] at h
    subst h
    simp [sumPower, sumCommitPower]
  | cons v rest ih =>
    intro acc acc' h
    unfold veLoop at h
    by_cases hseen : v.addr ∈ acc.seen
    · simp [hseen] at h
    · simp only [hseen, if_false] at h
      cases hca : checkedAdd64 acc.total v.power with
      | none => simp [hca] at h
      | some total =>
        simp only [hca] at h
        have htot : total = acc.total + v.power := by
          unfold checkedAdd64 at hca; split at hca <;> simp_all
        by_cases hflag : v.flag = .commit
        · simp only [hflag, if_true] at h
          cases hsig : v.sig with
          | none => simp [hsig] at h
          | some sg =>
            simp only [hsig] at h
            cases hcs : checkedAdd64 acc.submitted v.power with
            | none => simp [hcs] at h
            | some submitted =>
              simp only [hcs] at h
              have hsub : submitted = acc.submitted + v.power := by
                unfold checkedAdd64 at hcs; split at hcs <;> simp_all
              cases hk : keyOf v.addr with
              | none => simp [hk] at h
              | some k =>
                simp only [hk] at h
                by_cases hok : sigOk k sg = true
                · simp only [hok, Bool.not_true, Bool.false_eq_true, if_false] at h
                  obtain ⟨hnd, hns, ht, hs, hall⟩ := ih _ _ h
                  simp only at hns ht hs
                  refine ⟨?_, ?_, ?_, ?_, ?_⟩
                  · simp only [List.map_cons, List.nodup_cons]
                    refine ⟨?_, hnd⟩
                    intro hin
                    obtain ⟨w, hw, hwa⟩ := List.mem_map.mp hin
                    exact hns w hw (by rw [hwa]; exact List.mem_cons_self ..)
                  · intro w hw
                    rcases List.mem_cons.mp hw with rfl | hw
                    · exact hseen
                    · intro hin; exact hns w hw (List.mem_cons_of_mem _ hin)
                  · simp only [sumPower, List.map_cons, List.sum_cons] at *; omega
                  · simp only [sumCommitPower, List.filter_cons, hflag, decide_true, if_true, List.map_cons, List.sum_cons] at *
                    omega
                  · intro w hw
                    rcases List.mem_cons.mp hw with rfl | hw
                    · exact ⟨fun _ => ⟨k, sg, hk, hsig, hok⟩, fun hne => absurd hflag hne⟩
                    · exact hall w hw
                · simp [hok] at h
        · simp only [hflag, if_false] at h
          by_cases hext : v.extEmpty = true
          · simp only [hext, Bool.not_true, Bool.false_eq_true, if_false] at h
            cases hsig : v.sig with
            | some sg => simp [hsig] at h
            | none =>
              simp only [hsig, Option.isSome_none, Bool.false_eq_true, if_false] at h
              obtain ⟨hnd, hns, ht, hs, hall⟩ := ih _ _ h
              simp only at hns ht hs
              refine ⟨?_, ?_, ?_, ?_, ?_⟩
              · simp only [List.map_cons, List.nodup_cons]
                refine ⟨?_, hnd⟩
                intro hin
                obtain ⟨w, hw, hwa⟩ := List.mem_map.mp hin
                exact hns w hw (by rw [hwa]; exact List.mem_cons_self ..)
              · intro w hw
                rcases List.mem_cons.mp hw with rfl | hw
                · exact hseen
                · intro hin; exact hns w hw (List.mem_cons_of_mem _ hin)
              · simp only [sumPower, List.map_cons, List.sum_cons] at *; omega
              · have : decide (v.flag = Flag.commit) = false := by simp [hflag]
                simp only [sumCommitPower, List.filter_cons, this, Bool.false_eq_true, if_false] at *
                omega
              · intro w hw
                rcases List.mem_cons.mp hw with rfl | hw
                · exact ⟨fun hc => absurd hc hflag, fun _ => ⟨hext, hsig⟩⟩
                · exact hall w hw
          · simp [hext] at h

/-- Acceptance of a non-empty extended commit: voters are distinct, every commit-flagged vote
    carries a signature that verifies under the key stored for that validator, every other
    vote carries neither extension nor signature, and the signers hold strictly more than two
    thirds of the listed voting power. -/
theorem validateVoteExtensions_sound (sigOk : Nat → Nat → Bool) (keyOf : Nat → Option Nat)
    (votes : List ExtVote) (h : validateVoteExtensions sigOk keyOf votes = .ok ()) :
    (votes.map (·.addr)).Nodup ∧
    (∀ v ∈ votes, (v.flag = .commit → ∃ k s, keyOf v.addr = some k ∧ v.sig = some s ∧ sigOk k s = true) ∧
                  (v.flag ≠ .commit → v.extEmpty = true ∧ v.sig = none)) ∧
    3 * sumCommitPower votes > 2 * sumPower votes := by
  unfold validateVoteExtensions at h
  cases hl : veLoop sigOk keyOf votes {} with
  | error e => simp [hl] at h
  | ok acc =>
    simp only [hl] at h
    obtain ⟨hnd, _, ht, hs, hall⟩ := veLoop_sound sigOk keyOf votes {} acc hl
    simp only [Nat.zero_add] at ht hs
    refine ⟨hnd, hall, ?_⟩
    by_cases h0 : acc.total = 0
    · simp [h0] at h
    · simp only [h0, if_false] at h
      by_cases hm : acc.total * 2 > U64_MAX
      · simp [hm] at h
      · simp only [hm, if_false] at h
        by_cases hq : acc.submitted ≥ acc.total * 2 / 3 + 1
        · have := (ve_threshold acc.submitted acc.total).mp hq
          rw [← ht, ← hs]; exact this
        · simp [hq] at h

theorem againstLastLoop_sound :
    ∀ (last : List LastVote) (ext : List ExtVote), last.length = ext.length →
      againstLastLoop last ext = .ok () →
      ∀ i (h1 : i < last.length) (h2 : i < ext.length),
        last[i].addr = ext[i].addr ∧ last[i].power = ext[i].power ∧
        (ext[i].flag = last[i].flag ∨ (ext[i].flag = .absent ∧ ext[i].extEmpty = true ∧ ext[i].sig = none)) := by
  intro last
  induction last with
  | nil => intro ext _ _ i h1; simp at h1
  | cons l ls ih =>
    intro ext hlen h i h1 h2
    cases ext with
    | nil => simp at h2
    | cons e es =>
      unfold againstLastLoop at h
      by_cases ha : l.addr ≠ e.addr
      · simp [ha] at h
      · simp only [ha, if_false] at h
        by_cases hp : l.power ≠ e.power
        · simp [hp] at h
        · simp only [hp, if_false] at h
          have ha' : l.addr = e.addr := by simpa using ha
          have hp' : l.power = e.power := by simpa using hp
          have hlen' : ls.length = es.length := by simpa using hlen
          by_cases habs : e.flag = .absent ∧ e.extEmpty = true ∧ e.sig.isNone = true
          · simp only [habs, and_self, if_true] at h
            cases i with
            | zero =>
              simp only [List.getElem_cons_zero]
              exact ⟨ha', hp', Or.inr ⟨habs.1, habs.2.1, by simpa using habs.2.2⟩⟩
            | succ j =>
              simp only [List.getElem_cons_succ]
              exact ih es hlen' h j (by simpa using h1) (by simpa using h2)
          · simp only [habs, if_false] at h
            by_cases hf : e.flag ≠ l.flag
            · simp [hf] at h
            · simp only [hf, if_false] at h
              cases i with
              | zero =>
                simp only [List.getElem_cons_zero]
                exact ⟨ha', hp', Or.inl (by simpa using hf)⟩
              | succ j =>
                simp only [List.getElem_cons_succ]
                exact ih es hlen' h j (by simpa using h1) (by simpa using h2)

/-- An empty extended commit is always acceptable (round match only), so block production
    continues when too few validators supplied extensions. -/
theorem empty_extended_commit_ok (sigOk : Nat → Nat → Bool) (keyOf : Nat → Option Nat) (height : Nat)
    (last : List LastVote) : validateProposal sigOk keyOf height true last [] = .ok () := by
  unfold validateProposal
  by_cases h : height = 1 <;> simp [h]

/-- A proposal carrying a non-empty extended commit is accepted only if it matches the last
    commit entry-wise and satisfies `validateVoteExtensions_sound`. -/
theorem validateProposal_sound (sigOk : Nat → Nat → Bool) (keyOf : Nat → Option Nat) (height : Nat)
    (rm : Bool) (last : List LastVote) (ext : List ExtVote) (hh : height ≠ 1) (hne : ext ≠ [])
    (h : validateProposal sigOk keyOf height rm last ext = .ok ()) :
    rm = true ∧ last.length = ext.length ∧ againstLastLoop last ext = .ok () ∧
    validateVoteExtensions sigOk keyOf ext = .ok () := by
  unfold validateProposal at h
  simp only [hh, if_false] at h
  have : ext.isEmpty = false := by cases ext <;> simp_all
  simp only [this, Bool.false_eq_true, if_false] at h
  cases hv : validateAgainstLastCommit rm last ext with
  | error e => simp [hv] at h
  | ok u =>
    simp only [hv] at h
    unfold validateAgainstLastCommit at hv
    cases rm with
    | false => simp at hv
    | true =>
      simp only [Bool.not_true, Bool.false_eq_true, if_false] at hv
      by_cases hl : last.length ≠ ext.length
      · simp [hl] at hv
      · simp only [hl, if_false] at hv
        exact ⟨rfl, by simpa using hl, hv, h⟩

end Astria.Quorum
