import Astria.Quorum.Model
/- The published price (median) lies between the smallest and largest reported price. -/
namespace Astria.Quorum

theorem mem_insertSorted (x a : Int) (l : List Int) : a ∈ insertSorted x l ↔ a = x ∨ a ∈ l := by
  induction l with
  | nil => simp [insertSorted]
  | cons y ys ih =>
    unfold insertSorted
    split
    · simp
    · simp only [List.mem_cons, ih]
      constructor
      · rintro (h | h | h)
        · exact Or.inr (Or.inl h)
        · exact Or.inl h
        · exact Or.inr (Or.inr h)
      · rintro (h | h | h)
        · exact Or.inr (Or.inl h)
        · exact Or.inl h
        · exact Or.inr (Or.inr h)

theorem mem_sortInts (a : Int) (l : List Int) : a ∈ sortInts l ↔ a ∈ l := by
  induction l with
  | nil => simp [sortInts]
  | cons y ys ih => simp [sortInts, mem_insertSorted, ih]

theorem length_insertSorted (x : Int) (l : List Int) : (insertSorted x l).length = l.length + 1 := by
  induction l with
  | nil => simp [insertSorted]
  | cons y ys ih => unfold insertSorted; split <;> simp [ih]

theorem length_sortInts (l : List Int) : (sortInts l).length = l.length := by
  induction l with
  | nil => simp [sortInts]
  | cons y ys ih => simp [sortInts, length_insertSorted, ih]

theorem sorted_insertSorted (x : Int) (l : List Int) (h : l.Pairwise (· ≤ ·)) :
    (insertSorted x l).Pairwise (· ≤ ·) := by
  induction l with
  | nil => simp [insertSorted]
  | cons y ys ih =>
    unfold insertSorted
    have hy := List.pairwise_cons.mp h
    split
    · rename_i hxy
      apply List.pairwise_cons.mpr
      refine ⟨?_, h⟩
      intro a ha
      rcases List.mem_cons.mp ha with rfl | ha
      · exact hxy
      · exact Int.le_trans hxy (hy.1 a ha)
    · rename_i hxy
      apply List.pairwise_cons.mpr
      refine ⟨?_, ih hy.2⟩
      intro a ha
      rcases (mem_insertSorted x a ys).mp ha with rfl | ha
      · omega
      · exact hy.1 a ha

theorem sorted_sortInts (l : List Int) : (sortInts l).Pairwise (· ≤ ·) := by
  induction l with
  | nil => simp [sortInts]
  | cons y ys ih => exact sorted_insertSorted y _ ih

theorem sorted_getElem_le (l : List Int) (h : l.Pairwise (· ≤ ·)) (i j : Nat) (hij : i ≤ j)
    (hj : j < l.length) : l[i]'(by omega) ≤ l[j] := by
  by_cases he : i = j
  · subst he; exact Int.le_refl _
  · exact (List.pairwise_iff_getElem.mp h) i j (by omega) hj (by omega)

theorem tdiv2_cases (x : Int) : (0 ≤ x ∧ tdiv2 x = x / 2) ∨ (x < 0 ∧ tdiv2 x = -((-x) / 2)) := by
  unfold tdiv2
  rcases Int.lt_or_le x 0 with h | h
  · right; refine ⟨h, ?_⟩; have : ¬ (x ≥ 0) := by omega
    simp [this]
  · left; exact ⟨h, by simp [h]⟩

/-- The even-length step: the corrected sum of the truncated halves lies between the two
    middle elements. -/
theorem median_step (lo hi : Int) (h : lo ≤ hi) :
    lo ≤ (if tmod2 hi = 1 ∧ tmod2 lo = 1 then tdiv2 hi + tdiv2 lo + 1
          else if tmod2 hi = -1 ∧ tmod2 lo = -1 then tdiv2 hi + tdiv2 lo - 1
          else tdiv2 hi + tdiv2 lo) ∧
    (if tmod2 hi = 1 ∧ tmod2 lo = 1 then tdiv2 hi + tdiv2 lo + 1
          else if tmod2 hi = -1 ∧ tmod2 lo = -1 then tdiv2 hi + tdiv2 lo - 1
          else tdiv2 hi + tdiv2 lo) ≤ hi := by
  unfold tmod2
  rcases tdiv2_cases hi with ⟨h1, e1⟩ | ⟨h1, e1⟩ <;> rcases tdiv2_cases lo with ⟨h2, e2⟩ | ⟨h2, e2⟩ <;>
    rw [e1, e2] <;> (repeat' (first | omega | split | constructor))

/-- C15: the median of a non-empty list of reported prices exists and lies between two of
    the reported prices (hence between the smallest and the largest). -/
theorem median_in_range (ps : List Int) (hne : ps ≠ []) :
    ∃ m, median ps = some m ∧ ∃ a ∈ ps, ∃ b ∈ ps, a ≤ m ∧ m ≤ b := by
  have hlen : (sortInts ps).length = ps.length := length_sortInts ps
  have hpos : 0 < ps.length := List.length_pos_iff.mpr hne
  have hs := sorted_sortInts ps
  unfold median
  simp only
  generalize hS : sortInts ps = s at *
  by_cases hodd : s.length % 2 = 1
  · simp only [hodd, if_true]
    have hmid : s.length / 2 < s.length := by omega
    refine ⟨s[s.length / 2], by simp [hmid], ?_⟩
    have hm : s[s.length / 2] ∈ ps := by
      rw [← mem_sortInts, hS]; exact List.getElem_mem hmid
    exact ⟨_, hm, _, hm, Int.le_refl _, Int.le_refl _⟩
  · simp only [hodd, if_false]
    have hmid0 : ¬ (s.length / 2 = 0) := by omega
    simp only [hmid0, if_false]
    have h1 : s.length / 2 - 1 < s.length := by omega
    have h2 : s.length / 2 < s.length := by omega
    have e1 : s[s.length / 2 - 1]? = some s[s.length / 2 - 1] := by simp [h1]
    have e2 : s[s.length / 2]? = some s[s.length / 2] := by simp [h2]
    rw [e1, e2]
    simp only
    have hle : s[s.length / 2 - 1] ≤ s[s.length / 2] :=
      sorted_getElem_le s hs _ _ (by omega) h2
    have hm1 : s[s.length / 2 - 1] ∈ ps := by
      rw [← mem_sortInts, hS]; exact List.getElem_mem h1
    have hm2 : s[s.length / 2] ∈ ps := by
      rw [← mem_sortInts, hS]; exact List.getElem_mem h2
    generalize s[s.length / 2 - 1] = lo at *
    generalize s[s.length / 2] = hi at *
    obtain ⟨e1, e2⟩ := median_step lo hi hle
    by_cases hb : tmod2 hi = 1 ∧ tmod2 lo = 1
    · simp only [hb, and_self, if_true] at e1 e2 ⊢
      exact ⟨_, rfl, lo, hm1, hi, hm2, e1, e2⟩
    · simp only [hb, if_false] at e1 e2 ⊢
      by_cases hc : tmod2 hi = -1 ∧ tmod2 lo = -1
      · simp only [hc, and_self, if_true] at e1 e2 ⊢
        exact ⟨_, rfl, lo, hm1, hi, hm2, e1, e2⟩
      · simp only [hc, if_false] at e1 e2 ⊢
        exact ⟨_, rfl, lo, hm1, hi, hm2, e1, e2⟩

/-- The model's `tdiv2`/`tmod2` are Rust's truncating `/ 2` and `% 2`. -/
theorem tdiv2_eq_tdiv (x : Int) : tdiv2 x = Int.tdiv x 2 ∧ tmod2 x = Int.tmod x 2 := by
  have h1 : tdiv2 x = Int.tdiv x 2 := by
    unfold tdiv2
    by_cases hx : x ≥ 0
    · simp only [hx, if_true]
      exact (Int.tdiv_eq_ediv_of_nonneg hx).symm
    · simp only [hx, if_false]
      have hn : -x ≥ 0 := by omega
      have : Int.tdiv x 2 = -(Int.tdiv (-x) 2) := by
        rw [Int.neg_tdiv]; simp
      rw [this, Int.tdiv_eq_ediv_of_nonneg hn]
  refine ⟨h1, ?_⟩
  unfold tmod2
  rw [h1]
  rw [Int.tmod_def]

/-- The pinned `median` (truncating division) leaves the range for negative odd pairs:
    `[-3, -3] ↦ -2` (DESIGN §7 F3). -/
theorem medianOriginal_counterexample :
    medianOriginal [-3, -3] = some (-2) ∧ ¬ (∃ b ∈ [(-3 : Int), -3], (-2 : Int) ≤ b) := by
  decide

end Astria.Quorum
