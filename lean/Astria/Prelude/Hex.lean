/- Hex / parsing helpers for the line protocol (driver only). -/
namespace Astria.Hex

def hexDigit (n : Nat) : Char :=
  if n < 10 then Char.ofNat (48 + n) else Char.ofNat (87 + n)

def encode (bs : List UInt8) : String :=
  String.ofList (bs.flatMap fun b => [hexDigit (b.toNat / 16), hexDigit (b.toNat % 16)])

def nibble? (c : Char) : Option Nat :=
  if '0' ≤ c ∧ c ≤ '9' then some (c.toNat - 48)
  else if 'a' ≤ c ∧ c ≤ 'f' then some (c.toNat - 87)
  else if 'A' ≤ c ∧ c ≤ 'F' then some (c.toNat - 55)
  else none

def decodeChars : List Char → Option (List UInt8)
  | [] => some []
  | [_] => none
  | a :: b :: rest => do
    let x ← nibble? a
    let y ← nibble? b
    let r ← decodeChars rest
    pure (UInt8.ofNat (16 * x + y) :: r)

/-- `-` denotes the empty byte string. -/
def decode? (s : String) : Option (List UInt8) :=
  if s = "-" then some [] else decodeChars s.toList

def encodeOrDash (bs : List UInt8) : String :=
  if bs.isEmpty then "-" else encode bs

end Astria.Hex
