/-
  Executable SHA-256 (FIPS 180-4) used ONLY by the driver so that Merkle roots and proofs
  can be compared byte-for-byte with the Rust crates.  No theorem depends on it: all
  theorems are parametric in the hash functions.
-/
namespace Astria.Sha256

def K : Array UInt32 := #[
  0x428a2f98, 0x71374491, 0xb5c0fbcf, 0xe9b5dba5, 0x3956c25b, 0x59f111f1, 0x923f82a4, 0xab1c5ed5,
  0xd807aa98, 0x12835b01, 0x243185be, 0x550c7dc3, 0x72be5d74, 0x80deb1fe, 0x9bdc06a7, 0xc19bf174,
  0xe49b69c1, 0xefbe4786, 0x0fc19dc6, 0x240ca1cc, 0x2de92c6f, 0x4a7484aa, 0x5cb0a9dc, 0x76f988da,
  0x983e5152, 0xa831c66d, 0xb00327c8, 0xbf597fc7, 0xc6e00bf3, 0xd5a79147, 0x06ca6351, 0x14292967,
  0x27b70a85, 0x2e1b2138, 0x4d2c6dfc, 0x53380d13, 0x650a7354, 0x766a0abb, 0x81c2c92e, 0x92722c85,
  0xa2bfe8a1, 0xa81a664b, 0xc24b8b70, 0xc76c51a3, 0xd192e819, 0xd6990624, 0xf40e3585, 0x106aa070,
  0x19a4c116, 0x1e376c08, 0x2748774c, 0x34b0bcb5, 0x391c0cb3, 0x4ed8aa4a, 0x5b9cca4f, 0x682e6ff3,
  0x748f82ee, 0x78a5636f, 0x84c87814, 0x8cc70208, 0x90befffa, 0xa4506ceb, 0xbef9a3f7, 0xc67178f2]

def H0 : Array UInt32 := #[
  0x6a09e667, 0xbb67ae85, 0x3c6ef372, 0xa54ff53a, 0x510e527f, 0x9b05688c, 0x1f83d9ab, 0x5be0cd19]

@[inline] def rotr (x : UInt32) (n : UInt32) : UInt32 := (x >>> n) ||| (x <<< (32 - n))

def pad (msg : ByteArray) : ByteArray := Id.run do
  let len := msg.size
  let mut out := msg.push 0x80
  while out.size % 64 != 56 do
    out := out.push 0
  let bits : UInt64 := (UInt64.ofNat len) * 8
  for i in [0:8] do
    out := out.push (UInt8.ofNat ((bits >>> (UInt64.ofNat (8 * (7 - i)))).toNat % 256))
  return out

def compress (h : Array UInt32) (blk : ByteArray) (off : Nat) : Array UInt32 := Id.run do
  let mut w : Array UInt32 := Array.replicate 64 0
  for t in [0:16] do
    let b0 := (blk.get! (off + 4*t)).toUInt32
    let b1 := (blk.get! (off + 4*t + 1)).toUInt32
    let b2 := (blk.get! (off + 4*t + 2)).toUInt32
    let b3 := (blk.get! (off + 4*t + 3)).toUInt32
    w := w.set! t ((b0 <<< 24) ||| (b1 <<< 16) ||| (b2 <<< 8) ||| b3)
  for t in [16:64] do
    let w15 := w[t-15]!
    let w2 := w[t-2]!
    let s0 := rotr w15 7 ^^^ rotr w15 18 ^^^ (w15 >>> 3)
    let s1 := rotr w2 17 ^^^ rotr w2 19 ^^^ (w2 >>> 10)
    w := w.set! t (w[t-16]! + s0 + w[t-7]! + s1)
  let mut a := h[0]!
  let mut b := h[1]!
  let mut c := h[2]!
  let mut d := h[3]!
  let mut e := h[4]!
  let mut f := h[5]!
  let mut g := h[6]!
  let mut hh := h[7]!
  for t in [0:64] do
    let S1 := rotr e 6 ^^^ rotr e 11 ^^^ rotr e 25
    let ch := (e &&& f) ^^^ ((~~~ e) &&& g)
    let t1 := hh + S1 + ch + K[t]! + w[t]!
    let S0 := rotr a 2 ^^^ rotr a 13 ^^^ rotr a 22
    let maj := (a &&& b) ^^^ (a &&& c) ^^^ (b &&& c)
    let t2 := S0 + maj
    hh := g; g := f; f := e; e := d + t1
    d := c; c := b; b := a; a := t1 + t2
  return #[h[0]! + a, h[1]! + b, h[2]! + c, h[3]! + d, h[4]! + e, h[5]! + f, h[6]! + g, h[7]! + hh]

def hash (msg : ByteArray) : ByteArray := Id.run do
  let p := pad msg
  let mut h := H0
  for i in [0:p.size / 64] do
    h := compress h p (64 * i)
  let mut out := ByteArray.empty
  for x in h do
    out := out.push (x >>> 24).toUInt8
    out := out.push (x >>> 16).toUInt8
    out := out.push (x >>> 8).toUInt8
    out := out.push x.toUInt8
  return out

/-- SHA-256 on byte lists (the representation the models use). -/
def hashList (msg : List UInt8) : List UInt8 := (hash ⟨msg.toArray⟩).toList

end Astria.Sha256
