import Astria.Composer.Model
/-
  Invariant of the bundle factory over all operation sequences, all `max`, all capacities.
-/
namespace Astria.Composer

def sumLen (as : List Action) : Nat := (as.map (·.len)).sum

def Bundle.WF (max : Nat) (b : Bundle) : Prop := b.size = sumLen b.actions ∧ b.size ≤ max

def allActions (bs : List Bundle) : List Action := bs.flatMap (·.actions)

structure Inv (r : Run) : Prop where
  /-- emitted ++ finished ++ current, flattened, is exactly the accepted sequence, in order -/
  order : allActions r.emitted ++ allActions r.f.finished ++ r.f.curr.actions = r.accepted
  emittedWF : ∀ b ∈ r.emitted, b.WF r.f.max
  finishedWF : ∀ b ∈ r.f.finished, b.WF r.f.max
  currWF : r.f.curr.WF r.f.max
  capOk : r.f.finished.length ≤ r.f.cap

theorem sumLen_append (xs ys : List Action) : sumLen (xs ++ ys) = sumLen xs + sumLen ys := by
  simp [sumLen]

theorem allActions_append (xs ys : List Bundle) : allActions (xs ++ ys) = allActions xs ++ allActions ys := by
  simp [allActions]

theorem inv_init (max cap : Nat) : Inv (Run.init max cap) := by
  constructor <;> simp [Run.init, allActions, Bundle.WF, sumLen]

/-- `try_push` never changes `max`/`cap`. -/
theorem tryPush_cfg (f : Factory) (a : Action) :
    (f.tryPush a).1.max = f.max ∧ (f.tryPush a).1.cap = f.cap := by
  unfold Factory.tryPush
  split
  · simp
  · simp
  · split <;> simp

/-- A refused action leaves the factory untouched; refusal happens exactly when the action
    alone exceeds the maximum, or it does not fit and the finished queue is full. -/
theorem tryPush_refusal (f : Factory) (a : Action) :
    ((f.tryPush a).2 ≠ .ok → (f.tryPush a).1 = f) ∧
    ((f.tryPush a).2 ≠ .ok ↔ (a.len > f.max ∨ (f.curr.size + a.len > f.max ∧ f.finished.length ≥ f.cap))) := by
  unfold Factory.tryPush Bundle.tryPush
  by_cases h1 : a.len > f.max
  · simp [h1]
  · by_cases h2 : f.curr.size + a.len > f.max
    · by_cases h3 : f.finished.length ≥ f.cap
      · simp [h1, h2, h3]
      · simp [h1, h2, h3]
    · simp [h1, h2]

theorem inv_step (r : Run) (op : Op) (h : Inv r) : Inv (r.step op) := by
  obtain ⟨ho, he, hf, hc, hcap⟩ := h
  cases op with
  | push a =>
    unfold Run.step Factory.tryPush Bundle.tryPush
    by_cases h1 : a.len > r.f.max
    · simp only [h1, if_true]
      exact ⟨ho, he, hf, hc, hcap⟩
    · by_cases h2 : r.f.curr.size + a.len > r.f.max
      · by_cases h3 : r.f.finished.length ≥ r.f.cap
        · simp only [h1, h2, h3, if_true, if_false]
          exact ⟨ho, he, hf, hc, hcap⟩
        · simp only [h1, h2, h3, if_true, if_false]
          constructor
          · simp only [allActions_append]
            rw [← ho]
            simp [allActions]
          · exact he
          · intro b hb
            simp only [List.mem_append, List.mem_singleton] at hb
            rcases hb with hb | hb
            · exact hf b hb
            · subst hb; exact hc
          · constructor
            · simp [sumLen]
            · simp only; omega
          · simp only [List.length_append, List.length_singleton]; omega
      · simp only [h1, h2, if_false]
        constructor
        · simp only
          rw [← ho]
          simp [List.append_assoc]
        · exact he
        · exact hf
        · constructor
          · simp only [sumLen_append]
            rw [hc.1]
            simp [sumLen]
          · simp only; omega
        · exact hcap
  | popFinished =>
    unfold Run.step Factory.popFinished
    cases hfin : r.f.finished with
    | nil =>
      simp only
      exact ⟨ho, he, by simp [hfin], hc, by simp [hfin]⟩
    | cons b rest =>
      simp only
      rw [hfin] at ho hf hcap
      constructor
      · simp only [allActions_append]
        rw [← ho]
        simp [allActions, List.append_assoc]
      · intro b' hb'
        simp only [List.mem_append, List.mem_singleton] at hb'
        rcases hb' with hb' | hb'
        · exact he b' hb'
        · subst hb'; exact hf _ (List.mem_cons_self ..)
      · intro b' hb'; exact hf b' (List.mem_cons_of_mem _ hb')
      · exact hc
      · simp only [List.length_cons] at hcap; simp only; omega
  | popNow =>
    unfold Run.step Factory.popNow
    cases hfin : r.f.finished with
    | cons b rest =>
      simp only
      rw [hfin] at ho hf hcap
      constructor
      · simp only [allActions_append]
        rw [← ho]
        simp [allActions, List.append_assoc]
      · intro b' hb'
        simp only [List.mem_append, List.mem_singleton] at hb'
        rcases hb' with hb' | hb'
        · exact he b' hb'
        · subst hb'; exact hf _ (List.mem_cons_self ..)
      · intro b' hb'; exact hf b' (List.mem_cons_of_mem _ hb')
      · exact hc
      · simp only [List.length_cons] at hcap; simp only; omega
    | nil =>
      simp only
      rw [hfin] at ho
      constructor
      · simp only [allActions_append]
        rw [← ho]
        simp [allActions]
      · intro b' hb'
        simp only [List.mem_append, List.mem_singleton] at hb'
        rcases hb' with hb' | hb'
        · exact he b' hb'
        · subst hb'; exact hc
      · intro b' hb'; simp at hb'
      · simp [Bundle.WF, sumLen]
      · simp

theorem step_cfg (r : Run) (op : Op) : (r.step op).f.max = r.f.max ∧ (r.step op).f.cap = r.f.cap := by
  cases op with
  | push a =>
    have := tryPush_cfg r.f a
    simp only [Run.step]
    rcases hp : r.f.tryPush a with ⟨f', res⟩
    rw [hp] at this
    cases res <;> simpa using this
  | popFinished =>
    unfold Run.step Factory.popFinished
    cases r.f.finished <;> simp
  | popNow =>
    unfold Run.step Factory.popNow
    cases r.f.finished <;> simp

theorem inv_foldl (ops : List Op) : ∀ r, Inv r → Inv (ops.foldl Run.step r) := by
  induction ops with
  | nil => intro r h; exact h
  | cons op rest ih => intro r h; exact ih _ (inv_step r op h)

theorem inv_run (max cap : Nat) (ops : List Op) : Inv (run max cap ops) :=
  inv_foldl ops _ (inv_init max cap)

theorem run_max (max cap : Nat) (ops : List Op) : (run max cap ops).f.max = max := by
  unfold run
  suffices h : ∀ r : Run, (ops.foldl Run.step r).f.max = r.f.max by simpa [Run.init] using h (Run.init max cap)
  induction ops with
  | nil => intro r; rfl
  | cons op rest ih => intro r; simp only [List.foldl_cons]; rw [ih, (step_cfg r op).1]

end Astria.Composer
