/-
  Model of `crates/astria-composer/src/executor/bundle_factory/mod.rs`
  (`SizedBundle`, `BundleFactory::{try_push, next_finished().pop, pop_now}`).

  An action is an identifier together with its encoded length (the harness reports the
  `prost` encoded length of the action after the fee asset was ibc-prefixed).
-/
namespace Astria.Composer

structure Action where
  id : Nat
  len : Nat
  deriving DecidableEq, Repr

structure Bundle where
  actions : List Action := []
  size : Nat := 0
  deriving DecidableEq, Repr

structure Factory where
  max : Nat
  cap : Nat
  curr : Bundle := {}
  finished : List Bundle := []     -- front = oldest
  deriving DecidableEq, Repr

inductive PushResult where
  | ok | tooLarge | queueFull
  deriving DecidableEq, Repr

inductive BundlePush where
  | ok (b : Bundle) | tooLarge | notEnoughSpace

/-- `SizedBundle::try_push` (sizes are far below `usize::MAX`; `saturating_add` = `+`). -/
def Bundle.tryPush (b : Bundle) (max : Nat) (a : Action) : BundlePush :=
  if a.len > max then .tooLarge
  else if b.size + a.len > max then .notEnoughSpace
  else .ok { actions := b.actions ++ [a], size := b.size + a.len }

/-- `BundleFactory::try_push`. -/
def Factory.tryPush (f : Factory) (a : Action) : Factory × PushResult :=
  match f.curr.tryPush f.max a with
  | .tooLarge => (f, .tooLarge)
  | .ok b => ({ f with curr := b }, .ok)
  | .notEnoughSpace =>
    if f.finished.length ≥ f.cap then (f, .queueFull)
    else
      -- flush the current bundle to the finished queue and start a new one with `a`
      ({ f with finished := f.finished ++ [f.curr], curr := { actions := [a], size := a.len } }, .ok)

/-- `next_finished().map(pop)`. -/
def Factory.popFinished (f : Factory) : Factory × Option Bundle :=
  match f.finished with
  | [] => (f, none)
  | b :: rest => ({ f with finished := rest }, some b)

/-- `pop_now`: the oldest finished bundle, else the (possibly empty) current bundle. -/
def Factory.popNow (f : Factory) : Factory × Bundle :=
  match f.finished with
  | b :: rest => ({ f with finished := rest }, b)
  | [] => ({ f with curr := {} }, f.curr)

inductive Op where
  | push (a : Action)
  | popFinished
  | popNow
  deriving Repr

/-- Observable history: what was accepted (in order), what was refused, what was emitted. -/
structure Run where
  f : Factory
  accepted : List Action := []
  emitted : List Bundle := []
  deriving Repr

def Run.step (r : Run) : Op → Run
  | .push a =>
    match r.f.tryPush a with
    | (f', .ok) => { r with f := f', accepted := r.accepted ++ [a] }
    | (f', _) => { r with f := f' }
  | .popFinished =>
    match r.f.popFinished with
    | (f', some b) => { r with f := f', emitted := r.emitted ++ [b] }
    | (f', none) => { r with f := f' }
  | .popNow =>
    match r.f.popNow with
    | (f', b) => { r with f := f', emitted := r.emitted ++ [b] }

def Run.init (max cap : Nat) : Run := { f := { max := max, cap := cap } }

def run (max cap : Nat) (ops : List Op) : Run := ops.foldl Run.step (Run.init max cap)

end Astria.Composer
