import Astria.Merkle.Model
import Mathlib.Tactic.Ring
/-
  Arithmetic of the in-order index scheme: a node index is `enc m z = z·2^(m+1) + 2^m − 1`
  (level `m` = number of trailing one bits, `z` = position within the level).
  `perfect_parent` maps `(m, z) ↦ (m+1, z/2)`.
-/
namespace Astria.Merkle.Flat

def enc (m z : Nat) : Nat := z * 2 ^ (m + 1) + (2 ^ m - 1)

theorem trailingOnes_enc (m : Nat) : ∀ z, trailingOnes (enc m z) = m := by
  induction m with
  | zero =>
    intro z
    rw [trailingOnes]
    simp [enc]
  | succ m ih =>
    intro z
    have hpos : 1 ≤ 2 ^ m := Nat.one_le_two_pow
    have e1 : enc (m + 1) z = 2 * enc m z + 1 := by
      unfold enc
      have : 2 ^ (m + 1 + 1) = 2 * 2 ^ (m + 1) := by ring
      rw [this]
      have : 2 ^ (m + 1) = 2 * 2 ^ m := by ring
      rw [this]
      generalize 2 ^ m = a at *
      have : z * (2 * (2 * a)) = 4 * (z * a) := by ring
      have : z * (2 * a) = 2 * (z * a) := by ring
      omega
    rw [trailingOnes, e1]
    have h1 : (2 * enc m z + 1) % 2 = 1 := by omega
    have h2 : (2 * enc m z + 1) / 2 = enc m z := by omega
    simp [h1, h2, ih z]

theorem enc_decomp (i : Nat) :
    i = enc (trailingOnes i) (i / 2 ^ (trailingOnes i + 1)) := by
  induction i using Nat.strongRecOn with
  | _ i ih =>
    rw [trailingOnes]
    by_cases h : i % 2 = 1
    · simp only [h, if_true]
      have hj := ih (i / 2) (by omega)
      generalize trailingOnes (i / 2) = k at *
      have hdiv : i / 2 ^ (k + 1 + 1) = i / 2 / 2 ^ (k + 1) := by
        rw [Nat.div_div_eq_div_mul]; congr 1; ring
      rw [hdiv]
      generalize i / 2 / 2 ^ (k + 1) = y at *
      unfold enc at *
      have hpos : 1 ≤ 2 ^ k := Nat.one_le_two_pow
      have p1 : 2 ^ (k + 1 + 1) = 4 * 2 ^ k := by ring
      have p2 : 2 ^ (k + 1) = 2 * 2 ^ k := by ring
      simp only [p1, p2] at hj ⊢
      generalize 2 ^ k = a at *
      have : y * (4 * a) = 4 * (y * a) := by ring
      have : y * (2 * a) = 2 * (y * a) := by ring
      omega
    · simp only [h, if_false]
      unfold enc
      simp
      omega

theorem perfectParent_enc (m z : Nat) (h : enc m z < USIZE_MAX) :
    perfectParent (enc m z) = some (enc (m + 1) (z / 2)) := by
  unfold perfectParent
  have hlt : ¬ (enc m z ≥ USIZE_MAX) := by omega
  simp only [hlt, if_false, trailingOnes_enc]
  have hpos : 1 ≤ 2 ^ m := Nat.one_le_two_pow
  have hdiv : enc m z / 2 ^ (m + 1) = z := by
    unfold enc
    have : 2 ^ m - 1 < 2 ^ (m + 1) := by
      have : 2 ^ (m + 1) = 2 * 2 ^ m := by ring
      omega
    rw [Nat.mul_comm, Nat.mul_add_div (Nat.two_pow_pos _), Nat.div_eq_of_lt this]
    simp
  rw [hdiv]
  have p1 : 2 ^ (m + 1 + 1) = 4 * 2 ^ m := by ring
  have p2 : 2 ^ (m + 1) = 2 * 2 ^ m := by ring
  by_cases hz : z % 2 = 0
  · simp only [hz, if_true]
    congr 1
    unfold enc
    rw [p1, p2]
    generalize 2 ^ m = a at *
    have e1 : z * (2 * a) = 2 * (z * a) := by ring
    have e2 : z / 2 * (4 * a) = 4 * ((z / 2) * a) := by ring
    have e3 : z * a = 2 * ((z / 2) * a) := by
      have : z = 2 * (z / 2) := by omega
      calc z * a = (2 * (z / 2)) * a := by rw [← this]
        _ = 2 * ((z / 2) * a) := by ring
    omega
  · simp only [hz, if_false]
    congr 1
    unfold enc
    rw [p1, p2]
    generalize 2 ^ m = a at *
    have e1 : z * (2 * a) = 2 * (z * a) := by ring
    have e2 : z / 2 * (4 * a) = 4 * ((z / 2) * a) := by ring
    have e3 : z * a = 2 * ((z / 2) * a) + a := by
      have : z = 2 * (z / 2) + 1 := by omega
      calc z * a = (2 * (z / 2) + 1) * a := by rw [← this]
        _ = 2 * ((z / 2) * a) + a := by ring
    omega

/-- `perfect_parent` raises the level by exactly one. -/
theorem perfectParent_level (i p : Nat) (h : perfectParent i = some p) :
    trailingOnes p = trailingOnes i + 1 := by
  have hlt : i < USIZE_MAX := by
    unfold perfectParent at h
    by_cases hc : i ≥ USIZE_MAX
    · simp [hc] at h
    · omega
  have hd := enc_decomp i
  rw [hd] at h hlt
  rw [perfectParent_enc _ _ hlt] at h
  injection h with h
  rw [← h, trailingOnes_enc]

theorem trailingOnes_le (w : Nat) : ∀ i, i < 2 ^ w → trailingOnes i ≤ w := by
  induction w with
  | zero => intro i h; have : i = 0 := by simpa using h
            subst this; rw [trailingOnes]; simp
  | succ w ih =>
    intro i h
    rw [trailingOnes]
    by_cases hodd : i % 2 = 1
    · simp only [hodd, if_true]
      have : i / 2 < 2 ^ w := by
        have : 2 ^ (w + 1) = 2 * 2 ^ w := by ring
        omega
      have := ih _ this
      omega
    · simp [hodd]

/-- `perfect_parent` stays within `usize`. -/
theorem perfectParent_lt (i p : Nat) (hi : i < 2 ^ 64) (h : perfectParent i = some p) :
    p < 2 ^ 64 := by
  have hlt : i < USIZE_MAX := by
    unfold perfectParent at h
    by_cases hc : i ≥ USIZE_MAX
    · simp [hc] at h
    · omega
  have hd := enc_decomp i
  have hk : trailingOnes i ≤ 64 := trailingOnes_le 64 i hi
  generalize trailingOnes i = k at *
  generalize i / 2 ^ (k + 1) = y at *
  subst hd
  rw [perfectParent_enc _ _ hlt] at h
  injection h with h
  subst h
  -- enc k y < 2^64 - 1  ⊢  enc (k+1) (y/2) < 2^64
  by_cases hk64 : k = 64
  · subst hk64
    unfold enc USIZE_MAX at hlt
    omega
  · have hk' : k ≤ 63 := by omega
    -- 2^64 = 2^(63-k) * 2^(k+1)
    have hsplit : (2:Nat) ^ 64 = 2 ^ (63 - k) * 2 ^ (k + 1) := by
      rw [← Nat.pow_add]; congr 1; omega
    unfold enc USIZE_MAX at *
    have p1 : 2 ^ (k + 1 + 1) = 4 * 2 ^ k := by ring
    have p2 : 2 ^ (k + 1) = 2 * 2 ^ k := by ring
    rw [p1]
    rw [p2] at hlt hsplit ⊢
    have hpos : 1 ≤ 2 ^ k := Nat.one_le_two_pow
    have hq : 1 ≤ 2 ^ (63 - k) := Nat.one_le_two_pow
    generalize 2 ^ k = a at *
    generalize (2:Nat) ^ (63 - k) = q at *
    -- y * (2a) + a - 1 < q * (2a) - 1, so y < q
    have hyq : y < q := by
      by_contra hge
      have : q ≤ y := by omega
      have : q * (2 * a) ≤ y * (2 * a) := Nat.mul_le_mul_right _ this
      omega
    -- (y/2) * 4a + 2a - 1 < q * 2a : since 2*(y/2) ≤ y ≤ q - 1
    have h2 : 2 * (y / 2) + 1 ≤ q := by omega
    have h3 : (2 * (y / 2) + 1) * (2 * a) ≤ q * (2 * a) := Nat.mul_le_mul_right _ h2
    have e : (2 * (y / 2) + 1) * (2 * a) = y / 2 * (4 * a) + 2 * a := by ring
    omega

/-- The fuel of the model's `complete_parent` loop is never exhausted on `usize` indices:
    every iteration raises the level, and levels of 64-bit indices are at most 64. -/
theorem completeParentFuel_ok (n : Nat) :
    ∀ (f i : Nat), i < 2 ^ 64 → 65 ≤ f + trailingOnes i →
      completeParentFuel f i n ≠ .outOfFuel := by
  intro f
  induction f with
  | zero =>
    intro i hi hf
    have := trailingOnes_le 64 i hi
    omega
  | succ f ih =>
    intro i hi hf
    unfold completeParentFuel
    cases hp : perfectParent i with
    | none => simp
    | some p =>
      simp only
      by_cases hpn : p < n
      · simp [hpn]
      · simp only [hpn, if_false]
        have hl := perfectParent_level i p hp
        have hlt := perfectParent_lt i p hi hp
        exact ih p hlt (by omega)

theorem completeParent_ne_outOfFuel (i n : Nat) (hi : i ≤ USIZE_MAX) :
    completeParent i n ≠ .outOfFuel := by
  unfold completeParent
  apply completeParentFuel_ok
  · unfold USIZE_MAX at hi; omega
  · omega


/-- Walking up from the root of a one-node tree leaves the tree (all-ones indices). -/
theorem walk_off_top : ∀ (f m : Nat), m ≤ 64 → 65 ≤ f + m →
    completeParentFuel f (enc m 0) 1 = .noParent := by
  intro f
  induction f with
  | zero => intro m hm hf; omega
  | succ f ih =>
    intro m hm hf
    unfold completeParentFuel
    by_cases h64 : m = 64
    · subst h64
      have : perfectParent (enc 64 0) = none := by
        unfold perfectParent enc USIZE_MAX; simp
      rw [this]
    · have hlt : enc m 0 < USIZE_MAX := by
        unfold enc USIZE_MAX
        have : (2:Nat) ^ m < 2 ^ 64 := Nat.pow_lt_pow_right (by decide) (by omega)
        omega
      rw [perfectParent_enc m 0 hlt]
      have hge : ¬ (enc (m + 1) (0 / 2) < 1) := by
        unfold enc
        have : 1 ≤ 2 ^ m := Nat.one_le_two_pow
        have : 2 ^ (m + 1) = 2 * 2 ^ m := by ring
        omega
      simp only [hge, if_false]
      have : (0 : Nat) / 2 = 0 := by decide
      rw [this]
      exact ih (m + 1) (by omega) (by omega)

/-- Before the repair `verify_total` is false: a tree of one node and one path segment
    (DESIGN §7 F2).  The pinned decoder accepts it, the walk then leaves the tree, which is
    a panic in `complete_parent`. -/
theorem verify_total_counterexample :
    checkRawOriginal ⟨32, 0, 1⟩ = .value (.ok ()) ∧ completeParent 0 1 = .noParent := by
  constructor
  · simp [checkRawOriginal, USIZE_MAX]
  · have := walk_off_top 65 0 (by omega) (by omega)
    simpa [enc, completeParent] using this

end Astria.Merkle.Flat
