import Astria.Merkle.Model
/-
  Theorems about the Merkle model.  Hash functions are arbitrary; soundness is in
  *extractor form*: whenever verification accepts two different things for one root, an
  explicit collision of the hash functions is exhibited (no collision-freedom axiom).
-/
namespace Astria.Merkle

variable {β α : Type}

/-- An explicit collision among the values hashed while verifying. -/
inductive Collision (H : HashFns β α) : Prop where
  | leaf (x y : β) (hne : x ≠ y) (heq : H.leaf x = H.leaf y) : Collision H
  | node (a b c d : α) (hne : (a, b) ≠ (c, d)) (heq : H.node a b = H.node c d) : Collision H

namespace Flat

/-! ### Decoding never panics -/

theorem checkRaw_total (r : RawProof) : ∃ v, checkRaw r = .value v := by
  unfold checkRaw
  split
  · exact ⟨_, rfl⟩
  · split
    · exact ⟨_, rfl⟩
    · split
      · exact ⟨_, rfl⟩
      · split <;> exact ⟨_, rfl⟩

/-- The pinned (un-repaired) decoder panics on a leaf index ≥ 2^63 (DESIGN §7 F1). -/
theorem checkRawOriginal_panics : checkRawOriginal ⟨0, 2 ^ 63, 1⟩ = .panic := by
  simp [checkRawOriginal, USIZE_MAX]

/-! ### Verification of a checked proof never panics -/

theorem reconstructRoot_total (H : HashFns β α) (n : Nat) :
    ∀ (path : List α) (f i : Nat) (acc : α), path.length ≤ maxPathLenFuel f i n →
      ∃ r, reconstructRoot H n i acc path = .value r := by
  intro path
  induction path with
  | nil => intro f i acc _; exact ⟨acc, by simp [reconstructRoot]⟩
  | cons s rest ih =>
    intro f i acc hlen
    cases f with
    | zero => simp [maxPathLenFuel] at hlen
    | succ f' =>
      unfold maxPathLenFuel at hlen
      unfold reconstructRoot
      cases hcp : completeParent i n with
      | parent p =>
        simp only [hcp] at hlen
        have hrest : rest.length ≤ maxPathLenFuel f' p n := by
          simp only [List.length_cons] at hlen; omega
        by_cases hp : p > i
        · simp only [hp, if_true]; exact ih f' p _ hrest
        · simp only [hp, if_false]; exact ih f' p _ hrest
      | noParent => simp [hcp] at hlen
      | outOfFuel => simp [hcp] at hlen

theorem checked_bounds (π : Proof α) (h : π.Checked) :
    2 * π.leafIndex ≤ USIZE_MAX ∧ π.path.length ≤ maxPathLen (2 * π.leafIndex) π.treeSize := by
  unfold Proof.Checked checkRaw Proof.toRaw at h
  simp only at h
  split at h
  · cases h
  · split at h
    · cases h
    · rename_i h2
      split at h
      · cases h
      · split at h
        · cases h
        · rename_i h4
          have hdiv : 32 * π.path.length / 32 = π.path.length := by omega
          rw [hdiv] at h4
          constructor
          · have := h2; simp only [not_or] at this; omega
          · omega

theorem verify_total [DecidableEq α] (H : HashFns β α) (π : Proof α) (h : π.Checked)
    (leaf : β) (root : α) : ∃ b, π.verify H leaf root = .value b := by
  obtain ⟨hidx, hlen⟩ := checked_bounds π h
  unfold Proof.verify Proof.reconstruct
  have hnot : ¬ (2 * π.leafIndex > USIZE_MAX) := by omega
  simp only [hnot, if_false]
  obtain ⟨r, hr⟩ := reconstructRoot_total H π.treeSize π.path 65 (2 * π.leafIndex) (H.leaf leaf) hlen
  rw [hr]
  exact ⟨_, rfl⟩

/-! ### Soundness of verification (extractor form) -/

theorem reconstructRoot_sound (H : HashFns β α) (n : Nat) :
    ∀ (p p' : List α) (i : Nat) (a a' r : α),
      reconstructRoot H n i a p = .value r → reconstructRoot H n i a' p' = .value r →
      p.length = p'.length → (a ≠ a' ∨ p ≠ p') → Collision H := by
  intro p
  induction p with
  | nil =>
    intro p' i a a' r h1 h2 hl hne
    cases p' with
    | nil =>
      simp [reconstructRoot] at h1 h2
      rcases hne with hne | hne
      · exact absurd (h1.trans h2.symm) hne
      · exact absurd rfl hne
    | cons _ _ => simp at hl
  | cons s rest ih =>
    intro p' i a a' r h1 h2 hl hne
    cases p' with
    | nil => simp at hl
    | cons s' rest' =>
      unfold reconstructRoot at h1 h2
      cases hcp : completeParent i n with
      | parent q =>
        simp only [hcp] at h1 h2
        have hl' : rest.length = rest'.length := by simpa using hl
        by_cases hq : q > i
        · simp only [hq, if_true] at h1 h2
          by_cases hb : H.node a s = H.node a' s'
          · by_cases hpair : (a, s) = (a', s')
            · have ha : a = a' := congrArg Prod.fst hpair
              have hs : s = s' := congrArg Prod.snd hpair
              have hrest : rest ≠ rest' := by
                rcases hne with hne | hne
                · exact absurd ha hne
                · intro hr; apply hne; rw [hs, hr]
              rw [← hb] at h2
              exact ih rest' q _ _ r h1 h2 hl' (Or.inr hrest)
            · exact Collision.node a s a' s' hpair hb
          · exact ih rest' q _ _ r h1 h2 hl' (Or.inl hb)
        · simp only [hq, if_false] at h1 h2
          by_cases hb : H.node s a = H.node s' a'
          · by_cases hpair : (s, a) = (s', a')
            · have hs : s = s' := congrArg Prod.fst hpair
              have ha : a = a' := congrArg Prod.snd hpair
              have hrest : rest ≠ rest' := by
                rcases hne with hne | hne
                · exact absurd ha hne
                · intro hr; apply hne; rw [hs, hr]
              rw [← hb] at h2
              exact ih rest' q _ _ r h1 h2 hl' (Or.inr hrest)
            · exact Collision.node s a s' a' hpair hb
          · exact ih rest' q _ _ r h1 h2 hl' (Or.inl hb)
      | noParent => simp [hcp] at h1
      | outOfFuel => simp [hcp] at h1

/-- If two (leaf, path) pairs of the same shape verify against the same root at the same
    position, either they are equal or a hash collision has been found. -/
theorem verify_sound [DecidableEq α] (H : HashFns β α) (π π' : Proof α) (x x' : β) (root : α)
    (hpos : π.leafIndex = π'.leafIndex ∧ π.treeSize = π'.treeSize)
    (hlen : π.path.length = π'.path.length)
    (h1 : π.verify H x root = .value true) (h2 : π'.verify H x' root = .value true)
    (hne : x ≠ x' ∨ π.path ≠ π'.path) : Collision H := by
  unfold Proof.verify Proof.reconstruct at h1 h2
  rw [← hpos.1, ← hpos.2] at h2
  split at h1
  · cases h1
  · rename_i r hr
    split at h2
    · cases h2
    · rename_i r' hr'
      have e1 : r = root := by simpa using h1
      have e2 : r' = root := by simpa using h2
      subst e1
      subst e2
      split at hr
      · cases hr
      · split at hr'
        · cases hr'
        · by_cases hleaf : H.leaf x = H.leaf x'
          · rcases hne with hx | hp
            · exact Collision.leaf x x' hx hleaf
            · rw [← hleaf] at hr'
              exact reconstructRoot_sound H _ _ _ _ _ _ _ hr hr' hlen (Or.inr hp)
          · exact reconstructRoot_sound H _ _ _ _ _ _ _ hr hr' hlen (Or.inl hleaf)

/-- Changing the claimed root makes verification return false. -/
theorem verify_root_change [DecidableEq α] (H : HashFns β α) (π : Proof α) (x : β) (root root' : α)
    (h : π.verify H x root = .value true) (hne : root' ≠ root) :
    π.verify H x root' = .value false := by
  unfold Proof.verify at *
  split at h
  · cases h
  · rename_i r hr
    have e : r = root := by simpa using h
    subst e
    simp [hne.symm]

end Flat
end Astria.Merkle
