/-
  Model of `crates/astria-merkle` (lib.rs, audit.rs).

  Two layers:
  * `Rfc`  — RFC 6962 Merkle Tree Hash, audit path and verification (the specification).
  * `Flat` — the crate's own algorithms: flat in-order node array, index arithmetic on
             `usize`, incremental `push`, `construct_proof`, `try_into_proof`, `verify`.

  Hash functions are parameters (`HashFns`); nothing here assumes anything about them.
  `usize` is 64 bit; every `checked_*().unwrap()` of the Rust code is an explicit
  `Outcome.panic` here.
-/
namespace Astria.Merkle

/-- The hash functions the tree is built from.  `β` = leaf content, `α` = digest. -/
structure HashFns (β α : Type) where
  leaf  : β → α          -- SHA256(0x00 ‖ leaf)
  node  : α → α → α      -- SHA256(0x01 ‖ left ‖ right)
  empty : α              -- SHA256("")

/-- Result of a Rust computation that may panic. -/
inductive Outcome (α : Type) where
  | value (a : α)
  | panic
  deriving Repr, DecidableEq

def USIZE_MAX : Nat := 2 ^ 64 - 1

/-! ## RFC 6962 specification layer -/
namespace Rfc

/-- Largest power of two strictly smaller than `n` (for `n ≥ 2`). -/
def pow2lt (n : Nat) : Nat := 2 ^ Nat.log2 (n - 1)

theorem pow2lt_pos (n : Nat) : 0 < pow2lt n := Nat.two_pow_pos _

theorem pow2lt_lt (n : Nat) (h : 2 ≤ n) : pow2lt n < n := by
  unfold pow2lt
  have : 2 ^ Nat.log2 (n - 1) ≤ n - 1 := Nat.log2_self_le (by omega)
  omega

variable {β α : Type}

/-- MTH of RFC 6962 §2.1. -/
def mth (H : HashFns β α) : List β → α
  | [] => H.empty
  | [x] => H.leaf x
  | x :: y :: rest =>
    H.node (mth H ((x :: y :: rest).take (pow2lt (rest.length + 2))))
           (mth H ((x :: y :: rest).drop (pow2lt (rest.length + 2))))
termination_by xs => xs.length
decreasing_by
  all_goals
    have h1 := pow2lt_lt (rest.length + 2) (by omega)
    have h2 := pow2lt_pos (rest.length + 2)
    simp only [List.length_cons, List.length_take, List.length_drop] at *
    omega

/-- Audit path of RFC 6962 §2.1.1 for leaf `i`, listed from the leaf upwards
    (the order in which the crate stores it). -/
def path (H : HashFns β α) : Nat → List β → List α
  | _, [] => []
  | _, [_] => []
  | i, x :: y :: rest =>
    if i < pow2lt (rest.length + 2) then
      path H i ((x :: y :: rest).take (pow2lt (rest.length + 2)))
        ++ [mth H ((x :: y :: rest).drop (pow2lt (rest.length + 2)))]
    else
      path H (i - pow2lt (rest.length + 2)) ((x :: y :: rest).drop (pow2lt (rest.length + 2)))
        ++ [mth H ((x :: y :: rest).take (pow2lt (rest.length + 2)))]
termination_by _ xs => xs.length
decreasing_by
  all_goals
    have h1 := pow2lt_lt (rest.length + 2) (by omega)
    have h2 := pow2lt_pos (rest.length + 2)
    simp only [List.length_cons, List.length_take, List.length_drop] at *
    omega

/-- Root reconstruction from a leaf hash and an audit path for leaf `i` in a tree of `n`
    leaves (path listed from the leaf upwards, as `path` produces it). `none` = the path
    has the wrong length for this position. -/
def rootFromPath (H : HashFns β α) : Nat → Nat → α → List α → Option α
  | n, i, acc, p =>
    if _h : n ≤ 1 then (if p.isEmpty then some acc else none)
    else
      let k := pow2lt n
      match p.getLast? with
      | none => none
      | some s =>
        if i < k then (rootFromPath H k i acc p.dropLast).map (fun l => H.node l s)
        else (rootFromPath H (n - k) (i - k) acc p.dropLast).map (fun r => H.node s r)
termination_by n => n
decreasing_by
  · exact pow2lt_lt n (by omega)
  · have := pow2lt_pos n; omega

def verify (H : HashFns β α) [DecidableEq α] (n i : Nat) (leaf : β) (p : List α) (root : α) : Bool :=
  rootFromPath H n i (H.leaf leaf) p == some root

end Rfc

/-! ## Implementation layer: index arithmetic of `lib.rs` -/
namespace Flat

/-- Number of trailing one bits = the level of a node in the in-order layout. -/
def trailingOnes (i : Nat) : Nat :=
  if i % 2 = 1 then trailingOnes (i / 2) + 1 else 0
decreasing_by omega

/-- `last_zero_bit(i)` as a mask, panics for `usize::MAX`. -/
def lastZeroBit (i : Nat) : Outcome Nat :=
  if i ≥ USIZE_MAX then .panic else .value (2 ^ trailingOnes i)

/-- `perfect_parent`: set the last zero bit, clear the next more significant one.
    `none` = panic (`i = usize::MAX`). -/
def perfectParent (i : Nat) : Option Nat :=
  if i ≥ USIZE_MAX then none
  else
    let k := trailingOnes i
    if (i / 2 ^ (k + 1)) % 2 = 0 then some (i + 2 ^ k) else some (i - 2 ^ k)

/-- Result of walking up to the next ancestor that lies inside the tree. -/
inductive Parent where
  | parent (p : Nat)
  | noParent          -- walked off the top (`usize::MAX`): the Rust `complete_parent` panics here
  | outOfFuel         -- model artefact; theorem `completeParent_fuel` shows it never occurs
  deriving Repr, DecidableEq

/-- The loop of `complete_parent(i, n)` with fuel. -/
def completeParentFuel : Nat → Nat → Nat → Parent
  | 0, _, _ => .outOfFuel
  | f + 1, i, n =>
    match perfectParent i with
    | none => .noParent
    | some p => if p < n then .parent p else completeParentFuel f p n

def completeParent (i n : Nat) : Parent := completeParentFuel 65 i n

def isPow2 (n : Nat) : Bool := n != 0 && 2 ^ Nat.log2 n == n

/-- `usize::next_power_of_two` for `1 ≤ n ≤ 2^63` (otherwise overflow: panic in debug). -/
def nextPow2 (n : Nat) : Outcome Nat :=
  if n ≤ 1 then .value 1
  else if n > 2 ^ 63 then .panic
  else if isPow2 n then .value n else .value (2 ^ (Nat.log2 n + 1))

/-- `complete_root(n)`. -/
def completeRoot (n : Nat) : Outcome Nat :=
  -- n.wrapping_add(1).next_power_of_two().saturating_sub(1), then perfect_root = >> 1
  let n1 := if n = USIZE_MAX then 0 else n + 1
  match nextPow2 n1 with
  | .panic => .panic
  | .value p => .value ((p - 1) / 2)

def isBranch (i : Nat) : Bool := i % 2 == 1

/-- `complete_left_child(p)` (asserts `is_branch`). -/
def leftChild (p : Nat) : Outcome Nat :=
  if !isBranch p then .panic
  else match lastZeroBit p with
    | .panic => .panic
    | .value z => .value (p - z / 2)

/-- `complete_right_child(p, n)`. -/
def rightChild (p n : Nat) : Outcome Nat :=
  if !isBranch p || !(p < n) then .panic
  else match lastZeroBit p with
    | .panic => .panic
    | .value z =>
      let rc := p + z / 2       -- perfect right child: set bit k, clear bit k-1
      if rc < n then .value rc
      else match completeRoot (n - (p + 1)) with
        | .panic => .panic
        | .value r => if p + 1 + r > USIZE_MAX then .panic else .value (p + 1 + r)

/-- `complete_parent_and_sibling(i, n)`. -/
def parentAndSibling (i n : Nat) : Outcome (Nat × Nat) :=
  if !(i < n) then .panic
  else match completeParent i n with
    | .parent p =>
      if i < p then
        match rightChild p n with
        | .value s => .value (p, s)
        | .panic => .panic
      else
        match leftChild p with
        | .value s => .value (p, s)
        | .panic => .panic
    | _ => .panic

/-! ## Implementation layer: the tree -/

variable {β α : Type}

/-- The flat node array.  `nodes.size = 2·leaves − 1` for a non-empty tree. -/
structure Tree (α : Type) where
  nodes : Array α
  deriving Repr

def Tree.new : Tree α := ⟨#[]⟩
def Tree.len (t : Tree α) : Nat := t.nodes.size

/-- The spine re-hash loop of `LeafBuilder::drop`. -/
def rehashSpine [Inhabited α] (H : HashFns β α) (size root : Nat) :
    Nat → Nat → Array α → Outcome (Array α)
  | 0, _, _ => .panic
  | f + 1, idx, nodes =>
    match completeParent idx size with
    | .parent p =>
      match leftChild p, rightChild p size with
      | .value l, .value r =>
        if l < nodes.size ∧ r < nodes.size ∧ p < nodes.size then
          let nodes' := nodes.set! p (H.node nodes[l]! nodes[r]!)
          if p = root then .value nodes' else rehashSpine H size root f p nodes'
        else .panic
      | _, _ => .panic
    | _ => .panic

/-- `Tree::push` given the already computed leaf hash. -/
def Tree.pushHash [Inhabited α] (H : HashFns β α) (t : Tree α) (leafHash : α) : Outcome (Tree α) :=
  if t.nodes.isEmpty then .value ⟨#[leafHash]⟩
  else
    -- append two slots; the last one is the new leaf
    let nodes := (t.nodes.push leafHash).push leafHash
    let size := nodes.size
    match completeRoot size with
    | .panic => .panic
    | .value root =>
      match rehashSpine H size root 65 (size - 1) nodes with
      | .value ns => .value ⟨ns⟩
      | .panic => .panic

def Tree.push [Inhabited α] (H : HashFns β α) (t : Tree α) (leaf : β) : Outcome (Tree α) :=
  t.pushHash H (H.leaf leaf)

def Tree.fromLeaves [Inhabited α] (H : HashFns β α) (ls : List β) : Outcome (Tree α) :=
  ls.foldl (fun acc l => match acc with
    | .panic => .panic
    | .value t => t.push H l) (.value Tree.new)

def Tree.root [Inhabited α] (H : HashFns β α) (t : Tree α) : Outcome α :=
  if t.nodes.isEmpty then .value H.empty
  else match completeRoot t.len with
    | .panic => .panic
    | .value r => if r < t.len then .value t.nodes[r]! else .panic

/-- A checked proof (`audit::Proof`). `treeSize` counts *nodes* of the flat tree. -/
structure Proof (α : Type) where
  path : List α
  leafIndex : Nat
  treeSize : Nat
  deriving Repr, DecidableEq

def constructProofLoop [Inhabited α] (t : Tree α) (root : Nat) :
    Nat → Nat → List α → Outcome (List α)
  | 0, _, _ => .panic
  | f + 1, ti, acc =>
    if ti = root then .value acc
    else match parentAndSibling ti t.len with
      | .panic => .panic
      | .value (p, s) =>
        if s < t.len then constructProofLoop t root f p (acc ++ [t.nodes[s]!]) else .panic

/-- `Tree::construct_proof`: `value none` = leaf outside the tree. -/
def Tree.constructProof [Inhabited α] (t : Tree α) (leafIndex : Nat) : Outcome (Option (Proof α)) :=
  if t.len = 0 then .value none
  else if 2 * leafIndex > USIZE_MAX then .panic      -- leaf_index_to_tree_index
  else if !(2 * leafIndex < t.len) then .value none
  else match completeRoot t.len with
    | .panic => .panic
    | .value root =>
      match constructProofLoop t root 65 (2 * leafIndex) [] with
      | .panic => .panic
      | .value p => .value (some ⟨p, leafIndex, t.len⟩)

/-! ## Implementation layer: decoding and verification (`audit.rs`) -/

inductive ProofError where
  | zeroTreeSize
  | leafIndexOutsideTree
  | auditPathNotMultipleOf32
  | auditPathTooLong
  deriving Repr, DecidableEq

/-- Number of ancestors of tree index `i` inside a tree of `n` nodes, i.e. the maximal
    number of audit-path segments that can be consumed starting from `i`. -/
def maxPathLenFuel : Nat → Nat → Nat → Nat
  | 0, _, _ => 0
  | f + 1, i, n =>
    match completeParent i n with
    | .parent p => maxPathLenFuel f p n + 1
    | _ => 0

def maxPathLen (i n : Nat) : Nat := maxPathLenFuel 65 i n

/-- Raw proof as it comes off the wire: path as bytes, two `u64`s. -/
structure RawProof where
  pathBytes : Nat        -- length of the byte buffer
  leafIndex : Nat
  treeSize : Nat
  deriving Repr, DecidableEq

/-- The checks of `UncheckedProof::try_into_proof` *as repaired* (see DESIGN §7 F1/F2):
    a leaf index whose tree index overflows is "outside the tree" (not a panic) and a path
    with more segments than the leaf has ancestors is rejected. -/
def checkRaw (r : RawProof) : Outcome (Except ProofError Unit) :=
  if r.treeSize = 0 then .value (.error .zeroTreeSize)
  else if 2 * r.leafIndex > USIZE_MAX ∨ !(2 * r.leafIndex < r.treeSize) then
    .value (.error .leafIndexOutsideTree)
  else if r.pathBytes % 32 ≠ 0 then .value (.error .auditPathNotMultipleOf32)
  else if r.pathBytes / 32 > maxPathLen (2 * r.leafIndex) r.treeSize then
    .value (.error .auditPathTooLong)
  else .value (.ok ())

/-- `try_into_proof` as in the pinned source (before the repair): used by the
    counterexample theorems only. -/
def checkRawOriginal (r : RawProof) : Outcome (Except ProofError Unit) :=
  if r.treeSize = 0 then .value (.error .zeroTreeSize)
  else if 2 * r.leafIndex > USIZE_MAX then .panic
  else if !(2 * r.leafIndex < r.treeSize) then .value (.error .leafIndexOutsideTree)
  else if r.pathBytes % 32 ≠ 0 then .value (.error .auditPathNotMultipleOf32)
  else .value (.ok ())

/-- `Proof::reconstruct_root_with_leaf_hash`. -/
def reconstructRoot (H : HashFns β α) (n : Nat) : Nat → α → List α → Outcome α
  | _, acc, [] => .value acc
  | i, acc, s :: rest =>
    match completeParent i n with
    | .parent p =>
      if p > i then reconstructRoot H n p (H.node acc s) rest
      else reconstructRoot H n p (H.node s acc) rest
    | _ => .panic

def Proof.reconstruct (H : HashFns β α) (π : Proof α) (leafHash : α) : Outcome α :=
  if 2 * π.leafIndex > USIZE_MAX then .panic
  else reconstructRoot H π.treeSize (2 * π.leafIndex) leafHash π.path

/-- `Proof::verify(leaf, root)`. -/
def Proof.verify [DecidableEq α] (H : HashFns β α) (π : Proof α) (leaf : β) (root : α) : Outcome Bool :=
  match π.reconstruct H (H.leaf leaf) with
  | .panic => .panic
  | .value r => .value (decide (r = root))

def Proof.toRaw (π : Proof α) : RawProof := ⟨32 * π.path.length, π.leafIndex, π.treeSize⟩

/-- A proof that passed `try_into_proof`. -/
def Proof.Checked (π : Proof α) : Prop := checkRaw π.toRaw = .value (.ok ())

end Flat
end Astria.Merkle
