import Astria.Mempool.Ledger
/-
  Shape invariants of the two containers: strictly ordered by (account, nonce), parked limits,
  and the nonce-gap invariant of the ready container.
-/
namespace Astria.Mempool

/-! ### what a successful `add` tells -/

theorem vacant_of_find_none {q : List Tx} {t : Tx}
    (h : (acctQ t.acct q).find? (fun x => x.nonce == t.nonce) = none) :
    ∀ x ∈ q, ¬(x.acct = t.acct ∧ x.nonce = t.nonce) := by
  intro x hx ⟨ha, hn⟩
  have := List.find?_eq_none.mp h x (mem_acctQ.mpr ⟨hx, ha⟩)
  simp [hn] at this

theorem pendAdd_ok {q q' : List Tx} {t : Tx} {cur : Nat} {bal : Bal}
    (h : pendAdd q t cur bal = .ok q') :
    q' = oins t q ∧ cur ≤ t.nonce ∧ (∀ x ∈ q, ¬(x.acct = t.acct ∧ x.nonce = t.nonce))
    ∧ seqOk (acctQ t.acct q) t cur = true
    ∧ (∀ k, costSum (acctQ t.acct q) k + tot t.costs k ≤ bal k) := by
  unfold pendAdd at h
  simp only at h
  split at h
  · cases h
  · rename_i hlt
    split at h
    · cases h
    · rename_i hfind
      split at h
      · cases h
      · rename_i hseq
        split at h
        · cases h
        · rename_i hded
          injection h with h
          refine ⟨h.symm, by omega, vacant_of_find_none hfind, by simpa using hseq, ?_⟩
          have hd : (deductAll (acctQ t.acct q ++ [t]) bal).isSome = true := by
            cases hd' : (deductAll (acctQ t.acct q ++ [t]) bal) with
            | none => simp [hd'] at hded
            | some _ => rfl
          intro k
          have := (deductAll_isSome_iff _ _).mp hd k
          rw [costSum_append] at this
          simpa [costSum] using this

theorem parkAdd_ok {cfg : Cfg} {q q' : List Tx} {t : Tx} {cur : Nat}
    (h : parkAdd cfg q t cur = .ok q') :
    q' = oins t q ∧ q.length < cfg.parkedMax ∧ (acctQ t.acct q).length < cfg.perAcct
    ∧ cur ≤ t.nonce ∧ (∀ x ∈ q, ¬(x.acct = t.acct ∧ x.nonce = t.nonce)) := by
  unfold parkAdd at h
  split at h
  · cases h
  · rename_i h1
    simp only at h
    split at h
    · cases h
    · rename_i h2
      split at h
      · cases h
      · rename_i h3
        split at h
        · cases h
        · rename_i hfind
          injection h with h
          exact ⟨h.symm, by omega, by omega, by omega, vacant_of_find_none hfind⟩

/-! ### the gap invariant of the ready container -/

/-- Every ready transaction either directly follows another ready transaction of its account or
    its nonce is not above the account nonce last shown. -/
def Gap (shown : Nat → Nat) (q : List Tx) : Prop :=
  ∀ t ∈ q, t.nonce ≤ shown t.acct ∨ ∃ u ∈ q, u.acct = t.acct ∧ u.nonce + 1 = t.nonce

theorem Gap.mono {shown shown' : Nat → Nat} {q : List Tx} (h : Gap shown q)
    (hle : ∀ a, shown a ≤ shown' a) : Gap shown' q := by
  intro t ht
  rcases h t ht with h | h
  · left; have := hle t.acct; omega
  · right; exact h

theorem Gap.oins {shown : Nat → Nat} {q : List Tx} {t : Tx} (h : Gap shown q)
    (ht : t.nonce ≤ shown t.acct ∨ ∃ u ∈ q, u.acct = t.acct ∧ u.nonce + 1 = t.nonce) :
    Gap shown (oins t q) := by
  intro x hx
  rcases mem_oins.mp hx with rfl | hx
  · rcases ht with h | ⟨u, hu, h⟩
    · exact Or.inl h
    · exact Or.inr ⟨u, mem_oins.mpr (Or.inr hu), h⟩
  · rcases h x hx with h | ⟨u, hu, h⟩
    · exact Or.inl h
    · exact Or.inr ⟨u, mem_oins.mpr (Or.inr hu), h⟩

theorem Gap.filter {shown : Nat → Nat} {q : List Tx} (p : Tx → Bool) (h : Gap shown q)
    (closed : ∀ t u, t ∈ q → u ∈ q → p t = true → u.acct = t.acct → u.nonce + 1 = t.nonce →
      p u = true ∨ t.nonce ≤ shown t.acct) : Gap shown (q.filter p) := by
  intro t ht
  obtain ⟨htq, hpt⟩ := List.mem_filter.mp ht
  rcases h t htq with h | ⟨u, hu, hua, hun⟩
  · exact Or.inl h
  · rcases closed t u htq hu hpt hua hun with hpu | hle
    · exact Or.inr ⟨u, List.mem_filter.mpr ⟨hu, hpu⟩, hua, hun⟩
    · exact Or.inl hle

theorem Gap.map {shown : Nat → Nat} {q : List Tx} (f : Tx → Tx) (h : Gap shown q)
    (hf : ∀ t, (f t).acct = t.acct ∧ (f t).nonce = t.nonce) : Gap shown (q.map f) := by
  intro t ht
  obtain ⟨t0, ht0, rfl⟩ := List.mem_map.mp ht
  rw [(hf t0).1, (hf t0).2]
  rcases h t0 ht0 with h | ⟨u, hu, hua, hun⟩
  · exact Or.inl h
  · exact Or.inr ⟨f u, List.mem_map_of_mem hu, by rw [(hf u).1]; exact hua, by rw [(hf u).2]; exact hun⟩

theorem seqOk_gap {v : List Tx} {t : Tx} {cur : Nat} (h : seqOk v t cur = true) :
    t.nonce ≤ cur ∨ ∃ u ∈ v, u.nonce + 1 = t.nonce := by
  unfold seqOk at h
  split at h
  · left; omega
  · rename_i hn
    simp only [Bool.or_eq_true, List.any_eq_true, beq_iff_eq] at h
    rcases h with ⟨u, hu, hun⟩ | h
    · right; exact ⟨u, hu, by omega⟩
    · left; omega

/-! ### re-costing keeps keys -/

theorem recostTx_key (c : Chain) (t : Tx) :
    (recostTx c t).acct = t.acct ∧ (recostTx c t).nonce = t.nonce ∧ (recostTx c t).id = t.id
    ∧ (recostTx c t).group = t.group ∧ (recostTx c t).seen = t.seen := by
  unfold recostTx
  split
  · simp
  · split
    · simp
    · split <;> simp

theorem recostAcct_key (c : Chain) (a : Nat) (t : Tx) :
    (if t.acct == a then recostTx c t else t).acct = t.acct
    ∧ (if t.acct == a then recostTx c t else t).nonce = t.nonce
    ∧ (if t.acct == a then recostTx c t else t).id = t.id := by
  split
  · exact ⟨(recostTx_key c t).1, (recostTx_key c t).2.1, (recostTx_key c t).2.2.1⟩
  · simp

theorem sorted_map {q : List Tx} (f : Tx → Tx) (h : Sorted q)
    (hf : ∀ t, (f t).acct = t.acct ∧ (f t).nonce = t.nonce) : Sorted (q.map f) := by
  unfold Sorted at *
  rw [List.pairwise_map]
  refine h.imp ?_
  intro x y hxy
  rw [klt_iff] at *
  rw [(hf x).1, (hf x).2, (hf y).1, (hf y).2]
  exact hxy

theorem acctQ_map (a : Nat) (f : Tx → Tx) (q : List Tx) (hf : ∀ t, (f t).acct = t.acct) :
    acctQ a (q.map f) = (acctQ a q).map f := by
  induction q with
  | nil => simp [acctQ]
  | cons x r ih =>
    simp only [acctQ] at ih ⊢
    by_cases hx : x.acct = a
    · simp [List.filter_cons, hf, hx, ih]
    · simp [List.filter_cons, hf, hx, ih]

theorem sorted_recostAcct (c : Chain) (a : Nat) {q : List Tx} (h : Sorted q) :
    Sorted (recostAcct c a q) :=
  sorted_map _ h (fun t => ⟨(recostAcct_key c a t).1, (recostAcct_key c a t).2.1⟩)

theorem acctQ_recostAcct (c : Chain) (a b : Nat) (q : List Tx) :
    acctQ b (recostAcct c a q) = (acctQ b q).map (fun t => if t.acct == a then recostTx c t else t) :=
  acctQ_map b _ q (fun t => (recostAcct_key c a t).1)

/-! ### the cleaned container is a filter of the old one -/

/-- What `clean_account_stale_expired` keeps: a filter that leaves other accounts alone, keeps
    nothing of the account below the chain nonce, and — if it keeps anything of the account —
    keeps everything of it from the chain nonce on. -/
theorem cleanAcct_filter (q : List Tx) (a cur : Nat) (results : List (Nat × Nat))
    (height now ttl : Nat) :
    ∃ p : Tx → Bool, (cleanAcct q a cur results height now ttl).1 = q.filter p
      ∧ (∀ t, t.acct ≠ a → p t = true)
      ∧ (∀ t, t.acct = a → p t = true → cur ≤ t.nonce)
      ∧ (∀ t u, t.acct = a → u.acct = a → p t = true → cur ≤ u.nonce → p u = true) := by
  unfold cleanAcct
  simp only
  split
  · refine ⟨fun t => !(t.acct == a && decide (t.nonce < cur)), rfl, ?_, ?_, ?_⟩
    · intro t ht; simp [ht]
    · intro t ht hp; simp [ht] at hp; exact hp
    · intro t u ht hu hp hc; simp [hu]; exact hc
  · split
    · refine ⟨fun t => !(t.acct == a), rfl, ?_, ?_, ?_⟩
      · intro t ht; simp [ht]
      · intro t ht hp; simp [ht] at hp
      · intro t u ht hu hp hc; simp [ht] at hp
    · refine ⟨fun t => !(t.acct == a && decide (t.nonce < cur)), rfl, ?_, ?_, ?_⟩
      · intro t ht; simp [ht]
      · intro t ht hp; simp [ht] at hp; exact hp
      · intro t u ht hu hp hc; simp [hu]; exact hc

/-! ### the shape invariant -/

structure Shape (s : State) : Prop where
  pendSorted : Sorted s.pend
  parkSorted : Sorted s.park
  perAcct : ∀ a, (acctQ a s.park).length ≤ s.cfg.perAcct
  total : s.park.length ≤ s.cfg.parkedMax
  gap : Gap s.shown s.pend

theorem Shape.of_eq {s s' : State} (h : Shape s) (h1 : s'.pend = s.pend) (h2 : s'.park = s.park)
    (h3 : s'.shown = s.shown) (h4 : s'.cfg = s.cfg) : Shape s' := by
  constructor
  · rw [h1]; exact h.pendSorted
  · rw [h2]; exact h.parkSorted
  · rw [h2, h4]; exact h.perAcct
  · rw [h2, h4]; exact h.total
  · rw [h1, h3]; exact h.gap

/-- The fields of the pool proper (containers, configuration, ghost nonces and balances). -/
def SamePool (s s' : State) : Prop :=
  s'.pend = s.pend ∧ s'.park = s.park ∧ s'.shown = s.shown ∧ s'.vbal = s.vbal ∧ s'.cfg = s.cfg

theorem SamePool.refl (s : State) : SamePool s s := ⟨rfl, rfl, rfl, rfl, rfl⟩

theorem SamePool.trans {a b c : State} (h₁ : SamePool a b) (h₂ : SamePool b c) : SamePool a c :=
  ⟨h₂.1.trans h₁.1, h₂.2.1.trans h₁.2.1, h₂.2.2.1.trans h₁.2.2.1, h₂.2.2.2.1.trans h₁.2.2.2.1,
   h₂.2.2.2.2.trans h₁.2.2.2.2⟩

theorem cacheAdd_samePool (s : State) (i : Nat) (r : Reason) : SamePool s (cacheAdd s i r) := by
  obtain ⟨_, h2, _, _, _, h6, h7, h8, h9⟩ := cacheAdd_accepted s i r
  exact ⟨h6, h7, h8, h9, h2⟩

theorem untrack_samePool (s : State) (i : Nat) : SamePool s (untrack s i) := ⟨rfl, rfl, rfl, rfl, rfl⟩

theorem track_samePool (s : State) (i : Nat) : SamePool s (track s i) := by
  unfold track; split <;> exact ⟨rfl, rfl, rfl, rfl, rfl⟩

theorem failMove_samePool (s : State) (i : Nat) (m : Bool) : SamePool s (failMove s i m) := by
  unfold failMove
  simp only
  split
  · exact ⟨rfl, rfl, rfl, rfl, rfl⟩
  · exact (untrack_samePool s i).trans (cacheAdd_samePool _ _ _)

theorem Shape.samePool {s s' : State} (h : Shape s) (e : SamePool s s') : Shape s' :=
  h.of_eq e.1 e.2.1 e.2.2.1 e.2.2.2.2

/-- Adding one promoted transaction to the ready container. -/
theorem Shape.pendAdd {s : State} {p : Tx} {cur : Nat} {bal : Bal} {q : List Tx} (h : Shape s)
    (hq : pendAdd s.pend p cur bal = .ok q) (hcur : cur ≤ s.shown p.acct) :
    Shape { s with pend := q } := by
  obtain ⟨rfl, _, hvac, hseq, _⟩ := pendAdd_ok hq
  refine ⟨sorted_oins h.pendSorted hvac, h.parkSorted, h.perAcct, h.total, ?_⟩
  apply h.gap.oins
  rcases seqOk_gap hseq with hle | ⟨u, hu, hun⟩
  · left; show p.nonce ≤ s.shown p.acct; omega
  · right
    obtain ⟨huq, hua⟩ := mem_acctQ.mp hu
    exact ⟨u, huq, hua, hun⟩

theorem Shape.parkAdd {s : State} {d : Tx} {cur : Nat} {q : List Tx} (h : Shape s)
    (hq : parkAdd s.cfg s.park d cur = .ok q) : Shape { s with park := q } := by
  obtain ⟨rfl, htot, hper, _, hvac⟩ := parkAdd_ok hq
  refine ⟨h.pendSorted, sorted_oins h.parkSorted hvac, ?_, ?_, h.gap⟩
  · intro a
    show (acctQ a (oins d s.park)).length ≤ s.cfg.perAcct
    rw [length_acctQ_oins]
    have := h.perAcct a
    by_cases ha : d.acct = a
    · subst ha; simp; omega
    · simp [ha]; exact this
  · show (oins d s.park).length ≤ s.cfg.parkedMax
    rw [length_oins]; omega

theorem promoteAll_shape (proms : List Tx) (cur : Nat) (bal : Bal) (m : Bool) (s : State)
    (h : Shape s) (hcur : ∀ p ∈ proms, cur ≤ s.shown p.acct) :
    Shape (promoteAll s proms cur bal m) ∧ (promoteAll s proms cur bal m).shown = s.shown
      ∧ (promoteAll s proms cur bal m).park = s.park
      ∧ (promoteAll s proms cur bal m).cfg = s.cfg
      ∧ (promoteAll s proms cur bal m).vbal = s.vbal := by
  unfold promoteAll
  induction proms generalizing s with
  | nil => exact ⟨h, rfl, rfl, rfl, rfl⟩
  | cons p r ih =>
    simp only [List.foldl_cons]
    have hp := hcur p (List.mem_cons_self ..)
    split
    · rename_i q hq
      have h' : Shape { s with pend := q } := h.pendAdd hq hp
      exact ih _ h' (fun x hx => hcur x (List.mem_cons_of_mem _ hx))
    · have e := failMove_samePool s p.id m
      obtain ⟨a1, a2, a3, a4, a5⟩ := ih _ (h.samePool e)
        (fun x hx => by rw [e.2.2.1]; exact hcur x (List.mem_cons_of_mem _ hx))
      exact ⟨a1, a2.trans e.2.2.1, a3.trans e.2.1, a4.trans e.2.2.2.2, a5.trans e.2.2.2.1⟩

theorem demoteAll_shape (dems : List Tx) (cur : Nat) (s : State) (h : Shape s) :
    Shape (demoteAll s dems cur) ∧ (demoteAll s dems cur).shown = s.shown
      ∧ (demoteAll s dems cur).pend = s.pend ∧ (demoteAll s dems cur).cfg = s.cfg
      ∧ (demoteAll s dems cur).vbal = s.vbal := by
  unfold demoteAll
  induction dems generalizing s with
  | nil => exact ⟨h, rfl, rfl, rfl, rfl⟩
  | cons d r ih =>
    simp only [List.foldl_cons]
    split
    · rename_i q hq
      exact ih _ (h.parkAdd hq)
    · have e := failMove_samePool s d.id true
      obtain ⟨a1, a2, a3, a4, a5⟩ := ih _ (h.samePool e)
      exact ⟨a1, a2.trans e.2.2.1, a3.trans e.1, a4.trans e.2.2.2.2, a5.trans e.2.2.2.1⟩

/-- Removing from parked by a filter keeps the shape. -/
theorem Shape.filterPark {s : State} (h : Shape s) (p : Tx → Bool) :
    Shape { s with park := s.park.filter p } := by
  refine ⟨h.pendSorted, h.parkSorted.filter p, ?_, ?_, h.gap⟩
  · intro a
    show (acctQ a (s.park.filter p)).length ≤ s.cfg.perAcct
    rw [acctQ_filter]
    exact Nat.le_trans (List.length_filter_le _ _) (h.perAcct a)
  · exact Nat.le_trans (List.length_filter_le _ _) h.total

theorem mem_findPromotables {park : List Tx} {a target : Nat} {avail : Bal} {p : Tx}
    (hp : p ∈ (findPromotables park a target avail).1) : p ∈ park ∧ p.acct = a := by
  unfold findPromotables at hp
  simp only at hp
  exact mem_acctQ.mp (List.mem_filter.mp hp).1

theorem promoteReady_shape (s : State) (a cur : Nat) (bal : Bal) (m : Bool) (target : Nat)
    (h : Shape s) (hcur : cur ≤ s.shown a) :
    Shape (promoteReady s a cur bal m target)
      ∧ (promoteReady s a cur bal m target).shown = s.shown
      ∧ (promoteReady s a cur bal m target).cfg = s.cfg
      ∧ (promoteReady s a cur bal m target).vbal = s.vbal := by
  unfold promoteReady
  simp only
  have h' := h.filterPark (fun t => !(t.acct == a && decide (t.nonce < promoSplit (acctQ a s.park) target
    (remain (acctQ a s.pend) bal) 0)))
  obtain ⟨a1, a2, _, a4, a5⟩ := promoteAll_shape
    (findPromotables s.park a target (remain (acctQ a s.pend) bal)).1 cur bal m _ h'
    (fun p hp => by
      have := (mem_findPromotables hp).2
      show cur ≤ s.shown p.acct
      rw [this]; exact hcur)
  exact ⟨a1, a2, a4, a5⟩

end Astria.Mempool
