import Astria.Mempool.Basic
/-
  `builder_queue`: the block-building order never places a higher nonce of an account before a
  lower one of the same action group; the queue is exactly the ready set.
-/
namespace Astria.Mempool

theorem prioLe_total {x y : Tx × Nat} (h : prioLe x y = false) : prioLe y x = true := by
  simp only [prioLe, Bool.or_eq_false_iff, Bool.and_eq_false_iff, decide_eq_false_iff_not,
    Bool.or_eq_true, Bool.and_eq_true, decide_eq_true_eq, beq_iff_eq, beq_eq_false_iff_ne, ne_eq] at *
  omega

theorem prioLe_trans {x y z : Tx × Nat} (h₁ : prioLe x y = true) (h₂ : prioLe y z = true) :
    prioLe x z = true := by
  simp only [prioLe, Bool.or_eq_true, Bool.and_eq_true, decide_eq_true_eq, beq_iff_eq] at *
  omega

theorem mem_insSorted {x y : Tx × Nat} {l : List (Tx × Nat)} :
    y ∈ insSorted x l ↔ y = x ∨ y ∈ l := by
  induction l with
  | nil => simp [insSorted]
  | cons z r ih =>
    unfold insSorted
    split
    · simp
    · simp [ih]
      constructor
      · rintro (h | h | h) <;> simp [h]
      · rintro (h | h | h) <;> simp [h]

theorem insSorted_perm (x : Tx × Nat) (l : List (Tx × Nat)) : (insSorted x l).Perm (x :: l) := by
  induction l with
  | nil => simp [insSorted]
  | cons z r ih =>
    unfold insSorted
    split
    · exact List.Perm.refl _
    · exact (List.Perm.cons z ih).trans (List.Perm.swap x z r)

theorem insSort_perm (l : List (Tx × Nat)) : (insSort l).Perm l := by
  induction l with
  | nil => simp [insSort]
  | cons x r ih => exact (insSorted_perm x (insSort r)).trans (List.Perm.cons x ih)

theorem insSorted_sorted {x : Tx × Nat} {l : List (Tx × Nat)}
    (h : l.Pairwise (fun a b => prioLe a b = true)) :
    (insSorted x l).Pairwise (fun a b => prioLe a b = true) := by
  induction l with
  | nil => simp [insSorted]
  | cons z r ih =>
    have hz := (List.pairwise_cons.mp h).1
    have hr := (List.pairwise_cons.mp h).2
    unfold insSorted
    split
    · rename_i hxz
      refine List.pairwise_cons.mpr ⟨?_, h⟩
      intro y hy
      rcases List.mem_cons.mp hy with rfl | hy
      · exact hxz
      · exact prioLe_trans hxz (hz y hy)
    · rename_i hxz
      refine List.pairwise_cons.mpr ⟨?_, ih hr⟩
      intro y hy
      rcases mem_insSorted.mp hy with rfl | hy
      · exact prioLe_total (by simpa using hxz)
      · exact hz y hy

theorem insSort_sorted (l : List (Tx × Nat)) :
    (insSort l).Pairwise (fun a b => prioLe a b = true) := by
  induction l with
  | nil => simp [insSort]
  | cons x r ih => exact insSorted_sorted ih

/-- The entries of one account carry `nonce - lowest ready nonce of the account`, and the nonce
    is not below that lowest nonce. -/
theorem queueEntries_spec {pend : List Tx} {e : Tx × Nat} (h : e ∈ queueEntries pend) :
    e.1 ∈ pend ∧ ∃ f, firstNonce pend e.1.acct = some f ∧ f ≤ e.1.nonce ∧ e.2 = e.1.nonce - f := by
  unfold queueEntries at h
  obtain ⟨t, ht, he⟩ := List.mem_filterMap.mp h
  split at he
  · cases he
  · rename_i f hf
    split at he
    · cases he
    · rename_i hlt
      injection he with he
      subst he
      exact ⟨ht, f, hf, by simpa using hlt, rfl⟩

theorem queueEntries_fst_sublist (pend : List Tx) :
    ((queueEntries pend).map (·.1)).Sublist pend := by
  unfold queueEntries
  generalize firstNonce pend = fn
  induction pend with
  | nil => simp
  | cons t r ih =>
    simp only [List.filterMap_cons]
    split
    · exact List.Sublist.cons _ ih
    · rename_i e he
      have : e.1 = t := by
        split at he
        · cases he
        · split at he
          · cases he
          · injection he with he; subst he; rfl
      simp only [List.map_cons, this]
      exact List.Sublist.cons₂ _ ih

/-- Keys of a sorted container are pairwise different. -/
theorem Sorted.keys_ne {q : List Tx} (h : Sorted q) :
    q.Pairwise (fun x y => ¬(x.acct = y.acct ∧ x.nonce = y.nonce)) := by
  refine List.Pairwise.imp ?_ h
  intro x y hxy
  rw [klt_iff] at hxy
  omega

/-- In the block-building order, of two ready transactions of the same account and the same
    action group the one with the lower nonce comes first. -/
theorem builderQueue_order (s : State) (hs : Sorted s.pend) :
    (builderQueue s).Pairwise (fun x y => x.acct = y.acct → x.group = y.group → x.nonce < y.nonce) := by
  unfold builderQueue
  rw [List.pairwise_map]
  have hperm := insSort_perm (queueEntries s.pend)
  have hsorted := insSort_sorted (queueEntries s.pend)
  -- different keys, carried over the permutation
  have hne0 : (queueEntries s.pend).Pairwise
      (fun a b => ¬(a.1.acct = b.1.acct ∧ a.1.nonce = b.1.nonce)) := by
    have := (hs.keys_ne).sublist (queueEntries_fst_sublist s.pend)
    rwa [List.pairwise_map] at this
  have hne : (insSort (queueEntries s.pend)).Pairwise
      (fun a b => ¬(a.1.acct = b.1.acct ∧ a.1.nonce = b.1.nonce)) :=
    (hperm.pairwise_iff (fun {a b} h => by intro h'; exact h ⟨h'.1.symm, h'.2.symm⟩)).mpr hne0
  have hboth := hsorted.and hne
  refine List.Pairwise.imp_of_mem ?_ hboth
  intro a b ha hb ⟨hle, hkey⟩ hacct hgroup
  obtain ⟨_, fa, hfa, hfa1, hfa2⟩ := queueEntries_spec (hperm.mem_iff.mp ha)
  obtain ⟨_, fb, hfb, hfb1, hfb2⟩ := queueEntries_spec (hperm.mem_iff.mp hb)
  rw [hacct, hfb] at hfa
  injection hfa with hfa
  simp only [prioLe, Bool.or_eq_true, Bool.and_eq_true, decide_eq_true_eq, beq_iff_eq] at hle
  omega

/-- The queue holds exactly the ready transactions whose nonce is not below the lowest ready
    nonce of their account — i.e. all of them (see `queueEntries_all`). -/
theorem builderQueue_perm (s : State) :
    (builderQueue s).Perm ((queueEntries s.pend).map (·.1)) := by
  unfold builderQueue
  exact (insSort_perm _).map _

/-- No ready transaction is skipped: the `priority` error branch is dead on a well-formed
    container. -/
theorem queueEntries_all {pend : List Tx} (hs : Sorted pend) :
    (queueEntries pend).map (·.1) = pend := by
  have key : ∀ t ∈ pend, ∃ f, firstNonce pend t.acct = some f ∧ f ≤ t.nonce := by
    intro t ht
    unfold firstNonce
    have hmem : t ∈ acctQ t.acct pend := mem_acctQ.mpr ⟨ht, rfl⟩
    cases hq : acctQ t.acct pend with
    | nil => rw [hq] at hmem; cases hmem
    | cons u r =>
      refine ⟨u.nonce, by simp, ?_⟩
      rw [hq] at hmem
      rcases List.mem_cons.mp hmem with rfl | hr
      · exact Nat.le_refl _
      · have hsv : Sorted (acctQ t.acct pend) := hs.filter _
        rw [hq] at hsv
        have := (List.pairwise_cons.mp hsv).1 t hr
        have hu : u ∈ acctQ t.acct pend := by rw [hq]; exact List.mem_cons_self ..
        have hua := (mem_acctQ.mp hu).2
        rw [klt_iff] at this
        omega
  unfold queueEntries
  generalize hfn : firstNonce pend = fn at key
  clear hfn hs
  induction pend with
  | nil => simp
  | cons t r ih =>
    obtain ⟨f, hf, hle⟩ := key t (List.mem_cons_self ..)
    simp only [List.filterMap_cons, hf]
    have : ¬ t.nonce < f := by omega
    simp only [this, if_false, List.map_cons]
    rw [ih (fun x hx => key x (List.mem_cons_of_mem _ hx))]

end Astria.Mempool
