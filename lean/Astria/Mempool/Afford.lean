import Astria.Mempool.Steps
/-
  The ready transactions of every account are jointly affordable from the balances that were
  shown when that account's ready queue was last validated (`vbal`).
-/
namespace Astria.Mempool

def Afford (s : State) : Prop := ∀ a k, costSum (acctQ a s.pend) k ≤ s.vbal a k

theorem Afford.of_eq {s s' : State} (h : Afford s) (h1 : s'.pend = s.pend) (h2 : s'.vbal = s.vbal) :
    Afford s' := by
  intro a k; rw [h1, h2]; exact h a k

theorem Afford.samePool {s s' : State} (h : Afford s) (e : SamePool s s') : Afford s' :=
  h.of_eq e.1 e.2.2.2.1

/-- Within one account the nonces of a sorted container increase strictly. -/
theorem Sorted.acctQ_nonce {q : List Tx} (h : Sorted q) (a : Nat) :
    (acctQ a q).Pairwise (fun x y => x.nonce < y.nonce) := by
  unfold acctQ
  rw [List.pairwise_filter]
  refine List.Pairwise.imp ?_ h
  intro x y hxy hx hy
  rw [klt_iff] at hxy
  simp only [beq_iff_eq] at hx hy
  omega

theorem le_demoSplit (v : List Tx) (b : Bal) (s : Nat)
    (hs : v.Pairwise (fun x y => x.nonce < y.nonce)) (hge : ∀ t ∈ v, s ≤ t.nonce + 1) :
    s ≤ demoSplit v b s := by
  induction v generalizing b s with
  | nil => simp [demoSplit]
  | cons t r ih =>
    unfold demoSplit
    split
    · exact Nat.le_refl _
    · rename_i b' _
      have h1 := (List.pairwise_cons.mp hs).1
      have := ih b' (t.nonce + 1) (List.pairwise_cons.mp hs).2
        (fun x hx => by have := h1 x hx; omega)
      have := hge t (List.mem_cons_self ..)
      omega

/-- What `find_demotables` leaves in the ready queue is covered by the balances. -/
theorem demoSplit_afford (v : List Tx) (b : Bal) (s : Nat)
    (hs : v.Pairwise (fun x y => x.nonce < y.nonce)) (hge : ∀ t ∈ v, s ≤ t.nonce) (k : Nat) :
    costSum (v.filter (fun t => decide (t.nonce < demoSplit v b s))) k ≤ b k := by
  induction v generalizing b s with
  | nil => simp [costSum]
  | cons t r ih =>
    have h1 := (List.pairwise_cons.mp hs).1
    have hr := (List.pairwise_cons.mp hs).2
    unfold demoSplit
    split
    · -- nothing of this queue is kept
      have : (t :: r).filter (fun x => decide (x.nonce < s)) = [] := by
        rw [List.filter_eq_nil_iff]
        intro x hx
        have := hge x hx
        simp; omega
      rw [this]; simp [costSum]
    · rename_i b' hb'
      have hle := le_demoSplit r b' (t.nonce + 1) hr (fun x hx => by have := h1 x hx; omega)
      have hkeep : decide (t.nonce < demoSplit r b' (t.nonce + 1)) = true := by simp; omega
      rw [List.filter_cons, if_pos hkeep]
      have := ih b' (t.nonce + 1) hr (fun x hx => by have := h1 x hx; omega)
      have e := deductE_some hb' k
      simp only [costSum]
      omega

theorem acctQ_filter_other (a b : Nat) (p : Tx → Bool) (q : List Tx)
    (hp : ∀ t, t.acct ≠ a → p t = true) (hba : b ≠ a) : acctQ b (q.filter p) = acctQ b q := by
  unfold acctQ
  rw [List.filter_filter]
  apply List.filter_congr
  intro x _
  by_cases hx : x.acct = b
  · have : x.acct ≠ a := by rw [hx]; exact hba
    simp [hx, hp x this]
  · simp [hx]

theorem acctQ_recost_other (c : Chain) (a b : Nat) (recost : Bool) (q : List Tx) (hba : b ≠ a) :
    acctQ b (if recost then recostAcct c a q else q) = acctQ b q := by
  split
  · rw [acctQ_recostAcct]
    conv => rhs; rw [← List.map_id (acctQ b q)]
    apply List.map_congr_left
    intro x hx
    have := (mem_acctQ.mp hx).2
    have : ¬ x.acct = a := by rw [this]; exact hba
    simp [this]
  · rfl

theorem maintainPrep_afford (c : Chain) (recost : Bool) (results : List (Nat × Nat)) (height : Nat)
    (s : State) (a : Nat) (hsh : Shape s) (h : Afford s) :
    Afford (maintainPrep c recost results height s a).1 := by
  obtain ⟨e1, _, _, _, e5, _, _, _⟩ := maintainPrep_fields c recost results height s a
  intro b k
  rw [e1, e5]
  unfold findDemotables
  simp only
  by_cases hba : b = a
  · subst hba
    simp only [if_true]
    rw [acctQ_filter]
    -- the kept part is the filter by `nonce < split`
    have hsorted := (sorted_recost c b recost
      (sorted_clean b (c.nonce b) results height s.now s.cfg.ttl hsh.pendSorted)).acctQ_nonce b
    have := demoSplit_afford _ (c.bal b) 0 hsorted (fun _ _ => Nat.zero_le _) k
    refine Nat.le_trans (Nat.le_of_eq ?_) this
    congr 1
    apply List.filter_congr
    intro x hx
    have hxa := (mem_acctQ.mp hx).2
    generalize demoSplit _ _ _ = sp
    by_cases hlt : x.nonce < sp
    · have : ¬ sp ≤ x.nonce := by omega
      simp [hxa, hlt, this]
    · have : sp ≤ x.nonce := by omega
      simp [hxa, hlt, this]
  · simp only [hba, if_false]
    obtain ⟨p, hp, p1, _⟩ := cleanAcct_filter s.pend a (c.nonce a) results height s.now s.cfg.ttl
    rw [acctQ_filter_other a b _ _ (fun t ht => by simp [ht]) hba, acctQ_recost_other c a b recost _ hba,
      hp, acctQ_filter_other a b p _ p1 hba]
    exact h b k

/-- Adding a transaction that passed the ready queue's balance check against `bal`, for an
    account whose ghost balances are `bal`. -/
theorem Afford.pendAdd {s : State} {p : Tx} {cur : Nat} {bal : Bal} {q : List Tx} (h : Afford s)
    (hq : pendAdd s.pend p cur bal = .ok q) (hv : s.vbal p.acct = bal) :
    Afford { s with pend := q } := by
  obtain ⟨rfl, _, _, _, hcost⟩ := pendAdd_ok hq
  intro a k
  show costSum (acctQ a (oins p s.pend)) k ≤ s.vbal a k
  rw [costSum_acctQ_oins]
  by_cases ha : p.acct = a
  · subst ha; simp; rw [hv]; exact hcost k
  · simp [ha]; exact h a k

theorem promoteAll_afford (proms : List Tx) (cur : Nat) (bal : Bal) (m : Bool) (s : State)
    (h : Afford s) (hv : ∀ p ∈ proms, s.vbal p.acct = bal) :
    Afford (promoteAll s proms cur bal m) := by
  unfold promoteAll
  induction proms generalizing s with
  | nil => exact h
  | cons p r ih =>
    simp only [List.foldl_cons]
    split
    · rename_i q hq
      exact ih _ (h.pendAdd hq (hv p (List.mem_cons_self ..)))
        (fun x hx => hv x (List.mem_cons_of_mem _ hx))
    · have e := failMove_samePool s p.id m
      exact ih _ (h.samePool e) (fun x hx => by rw [e.2.2.2.1]; exact hv x (List.mem_cons_of_mem _ hx))

theorem promoteReady_afford (s : State) (a cur : Nat) (bal : Bal) (m : Bool) (target : Nat)
    (h : Afford s) (hv : s.vbal a = bal) : Afford (promoteReady s a cur bal m target) := by
  unfold promoteReady
  simp only
  apply promoteAll_afford
  · exact h.of_eq rfl rfl
  · intro p hp
    have := (mem_findPromotables hp).2
    show s.vbal p.acct = bal
    rw [this]; exact hv

theorem demoteAll_afford (dems : List Tx) (cur : Nat) (s : State) (h : Afford s) :
    Afford (demoteAll s dems cur) := by
  unfold demoteAll
  induction dems generalizing s with
  | nil => exact h
  | cons d r ih =>
    simp only [List.foldl_cons]
    split
    · exact ih _ (h.of_eq rfl rfl)
    · exact ih _ (h.samePool (failMove_samePool s d.id true))

theorem maintainAcct_afford (c : Chain) (recost : Bool) (results : List (Nat × Nat)) (height : Nat)
    (acc : State × List (Nat × Reason)) (a : Nat) (hsh : Shape acc.1) (h : Afford acc.1) :
    Afford (maintainAcct c recost results height acc a).1 := by
  unfold maintainAcct maintainMove
  simp only
  have hp := maintainPrep_afford c recost results height acc.1 a hsh h
  obtain ⟨_, _, _, _, e5, _⟩ := maintainPrep_fields c recost results height acc.1 a
  split
  · exact promoteReady_afford _ _ _ _ _ _ hp (by rw [e5]; simp)
  · exact demoteAll_afford _ _ _ hp

theorem foldl_maintainAcct_afford (c : Chain) (recost : Bool) (results : List (Nat × Nat))
    (height : Nat) (order : List Nat) (acc : State × List (Nat × Reason)) (hsh : Shape acc.1)
    (hcur : ∀ a ∈ order, acc.1.shown a ≤ c.nonce a) (h : Afford acc.1) :
    Afford (order.foldl (maintainAcct c recost results height) acc).1 := by
  induction order generalizing acc with
  | nil => exact h
  | cons a r ih =>
    simp only [List.foldl_cons]
    obtain ⟨h1, h2, _⟩ := maintainAcct_shape c recost results height acc a hsh
      (hcur a (List.mem_cons_self ..))
    apply ih _ h1 _ (maintainAcct_afford c recost results height acc a hsh h)
    intro b hb
    rw [h2]
    unfold upd
    split
    · rename_i hba; subst hba; exact Nat.le_refl _
    · exact hcur b (List.mem_cons_of_mem _ hb)

theorem maintain_afford (s : State) (c : Chain) (recost : Bool) (results : List (Nat × Nat))
    (height : Nat) (order : List Nat) (hsh : Shape s) (hcur : ∀ a ∈ order, s.shown a ≤ c.nonce a)
    (h : Afford s) : Afford (maintain s c recost results height order) := by
  unfold maintain
  simp only
  generalize hacc : List.foldl (maintainAcct c recost results height) (s, []) order = acc
  have h1 : Afford acc.1 := by
    have := foldl_maintainAcct_afford c recost results height order (s, []) hsh hcur h
    rw [hacc] at this; exact this
  have h2 : SamePool acc.1
      (List.foldl (fun s (e : Nat × Reason) => cacheAdd (untrack s e.1) e.1 e.2) acc.1 acc.2) :=
    foldl_samePool _ (fun s (e : Nat × Reason) =>
      (untrack_samePool s e.1).trans (cacheAdd_samePool _ _ _)) _ _
  obtain ⟨_, _, _, _, _, _, _, e8, _, _, e11, _⟩ := resultsAdd_sameCore
    (List.foldl (fun s (e : Nat × Reason) => cacheAdd (untrack s e.1) e.1 e.2) acc.1 acc.2) results height
  exact (h1.samePool h2).of_eq e8 e11

theorem Afford.filterPend {s : State} (h : Afford s) (p : Tx → Bool) :
    Afford { s with pend := s.pend.filter p } := by
  intro a k
  show costSum (acctQ a (s.pend.filter p)) k ≤ s.vbal a k
  rw [acctQ_filter]
  exact Nat.le_trans (costSum_filter_le _ _ _) (h a k)

theorem removeInvalid_afford (s : State) (a n id : Nat) (r : Reason) (h : Afford s) :
    Afford (removeInvalid s a n id r) := by
  unfold removeInvalid
  simp only
  split
  · exact h
  · rename_i pend' park' ids hfound
    have hs : Afford { s with pend := pend', park := park' } := by
      split at hfound
      · rename_i pq pids hrem
        injection hfound with hfound
        injection hfound with e1 e2
        obtain ⟨rfl, _⟩ := removeFrom_some hrem
        subst e1
        exact (h.filterPend _).of_eq rfl rfl
      · split at hfound
        · injection hfound with hfound
          injection hfound with e1 e2
          subst e1
          exact h.of_eq rfl rfl
        · cases hfound
    have e1 : SamePool { s with pend := pend', park := park' }
        (cacheAdd { s with pend := pend', park := park' } id r) := cacheAdd_samePool _ _ _
    have e2 := foldl_samePool (fun s i => cacheAdd (untrack s i) i Reason.lowerNonce)
      (fun s i => (untrack_samePool s i).trans (cacheAdd_samePool _ _ _)) ids
      (cacheAdd { s with pend := pend', park := park' } id r)
    exact hs.samePool (e1.trans e2)

theorem insertTx_afford (s : State) (t : Tx) (cur : Nat) (bal : Bal) (h : Afford s) :
    Afford (insertTx s t cur bal).1 := by
  have h1 : Afford (noteShown s t.acct cur) := h.of_eq rfl rfl
  unfold insertTx
  simp only
  split
  · split
    · rename_i park' _
      exact (h1.of_eq (s' := noteAccepted { noteShown s t.acct cur with park := park' } t.id)
        rfl rfl).samePool (track_samePool _ _)
    · exact h1
  · split
    · rename_i park' _
      exact (h1.of_eq (s' := noteAccepted { noteShown s t.acct cur with park := park' } t.id)
        rfl rfl).samePool (track_samePool _ _)
    · exact h1
  · exact h1
  · rename_i pend' hpd
    obtain ⟨rfl, _, _, _, hcost⟩ := pendAdd_ok hpd
    have h2 : Afford (noteBal (noteAccepted { noteShown s t.acct cur with
        pend := oins { t with seen := s.now } s.pend } t.id) t.acct bal) := by
      intro a k
      show costSum (acctQ a (oins { t with seen := s.now } s.pend)) k
        ≤ (if a = t.acct then bal else s.vbal a) k
      rw [costSum_acctQ_oins]
      by_cases ha : t.acct = a
      · subst ha; simp; exact hcost k
      · have : ¬ a = t.acct := fun e => ha e.symm
        simp [ha, this]; exact h a k
    exact (promoteReady_afford _ _ _ _ _ _ h2 (by simp [noteBal])).samePool (track_samePool _ _)

end Astria.Mempool
