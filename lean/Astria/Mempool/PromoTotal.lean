import Astria.Mempool.Afford
import Astria.Mempool.Fresh
/-
  The promotion loop of `run_maintenance` never fails: on a well-formed pool every transaction
  that `find_promotables` hands over is accepted by `pending.add`.  Hence the "failed to promote
  transaction during maintenance" branch (which un-tracks the id without a removal reason) is
  dead, and ids can only be dropped by a failed *demotion*.
-/
namespace Astria.Mempool

/-- The transactions `find_promotables` takes: the longest prefix of the account's parked queue
    with nonces `target, target+1, …` whose costs can be deducted one after the other. -/
def promoPrefix : List Tx → Nat → Bal → List Tx
  | [], _, _ => []
  | t :: r, target, b =>
    if t.nonce ≠ target then []
    else
      match deductE t.costs b with
      | none => []
      | some b' => t :: promoPrefix r (target + 1) b'

theorem le_promoSplit (v : List Tx) (target : Nat) (b : Bal) (s : Nat) (hs : s ≤ target + 1) :
    s ≤ promoSplit v target b s := by
  induction v generalizing target b s with
  | nil => simp [promoSplit]
  | cons t r ih =>
    unfold promoSplit
    split
    · exact Nat.le_refl _
    · split
      · exact Nat.le_refl _
      · rename_i b' _
        have := ih (target + 1) b' (target + 1) (by omega)
        omega

theorem promoSplit_cons (t : Tx) (r : List Tx) (target : Nat) (b : Bal) (s : Nat) :
    promoSplit (t :: r) target b s
      = if t.nonce ≠ target then s
        else match deductE t.costs b with
          | none => s
          | some b' => promoSplit r (target + 1) b' (target + 1) := rfl

theorem promoPrefix_cons (t : Tx) (r : List Tx) (target : Nat) (b : Bal) :
    promoPrefix (t :: r) target b
      = if t.nonce ≠ target then []
        else match deductE t.costs b with
          | none => []
          | some b' => t :: promoPrefix r (target + 1) b' := rfl

theorem promoSplit_filter (v : List Tx) (target : Nat) (b : Bal) (s : Nat)
    (hv : v.Pairwise (fun x y => x.nonce < y.nonce)) (hge : ∀ t ∈ v, s ≤ t.nonce)
    (hs : s ≤ target + 1) :
    v.filter (fun t => decide (t.nonce < promoSplit v target b s)) = promoPrefix v target b := by
  induction v generalizing target b s with
  | nil => simp [promoPrefix]
  | cons t r ih =>
    have h1 := (List.pairwise_cons.mp hv).1
    have hr := (List.pairwise_cons.mp hv).2
    have none_kept : (t :: r).filter (fun x => decide (x.nonce < s)) = [] := by
      rw [List.filter_eq_nil_iff]
      intro x hx
      have := hge x hx
      simp; omega
    rw [promoSplit_cons, promoPrefix_cons]
    by_cases hnt : t.nonce = target
    · have hne : ¬ (t.nonce ≠ target) := fun h => h hnt
      rw [if_neg hne, if_neg hne]
      cases hd : deductE t.costs b with
      | none => exact none_kept
      | some b' =>
        simp only
        have hle := le_promoSplit r (target + 1) b' (target + 1) (by omega)
        have hkeep : decide (t.nonce < promoSplit r (target + 1) b' (target + 1)) = true := by
          simp; omega
        rw [List.filter_cons, if_pos hkeep]
        congr 1
        exact ih (target + 1) b' (target + 1) hr (fun x hx => by have := h1 x hx; omega) (by omega)
    · have hne : t.nonce ≠ target := hnt
      rw [if_pos hne, if_pos hne]
      exact none_kept

/-- The taken prefix: consecutive nonces from `target`, jointly covered by `b`. -/
theorem promoPrefix_spec (v : List Tx) (target : Nat) (b : Bal) :
    (∀ k, costSum (promoPrefix v target b) k ≤ b k)
    ∧ (∀ j (h : j < (promoPrefix v target b).length), ((promoPrefix v target b)[j]).nonce = target + j)
    ∧ (∀ t ∈ promoPrefix v target b, t ∈ v) := by
  induction v generalizing target b with
  | nil => simp [promoPrefix, costSum]
  | cons t r ih =>
    rw [promoPrefix_cons]
    by_cases hnt : t.nonce = target
    · have hne : ¬ (t.nonce ≠ target) := fun h => h hnt
      rw [if_neg hne]
      cases hd : deductE t.costs b with
      | none => simp [costSum]
      | some b' =>
        simp only
        obtain ⟨i1, i3, i4⟩ := ih (target + 1) b'
        refine ⟨fun k => ?_, ?_, ?_⟩
        · have e := deductE_some hd k
          have := i1 k
          simp only [costSum]; omega
        · intro j hj
          cases j with
          | zero => simpa using hnt
          | succ j =>
            simp only [List.getElem_cons_succ]
            rw [i3 j (by simpa using hj)]; omega
        · intro x hx
          rcases List.mem_cons.mp hx with rfl | hx
          · exact List.mem_cons_self ..
          · exact List.mem_cons_of_mem _ (i4 x hx)
    · have hne : t.nonce ≠ target := hnt
      rw [if_pos hne]
      simp [costSum]

/-- Sufficient conditions for `pending.add` to accept. -/
theorem pendAdd_ok_of {q : List Tx} {t : Tx} {cur : Nat} {bal : Bal}
    (h1 : cur ≤ t.nonce) (h2 : ∀ x ∈ q, x.acct = t.acct → x.nonce ≠ t.nonce)
    (h3 : (t.nonce = cur ∧ ∀ x ∈ q, x.acct ≠ t.acct) ∨ ∃ x ∈ q, x.acct = t.acct ∧ x.nonce + 1 = t.nonce)
    (h4 : ∀ k, costSum (acctQ t.acct q) k + tot t.costs k ≤ bal k) :
    pendAdd q t cur bal = .ok (oins t q) := by
  unfold pendAdd
  simp only
  have e1 : ¬ t.nonce < cur := by omega
  rw [if_neg e1]
  have e2 : (acctQ t.acct q).find? (fun x => x.nonce == t.nonce) = none := by
    rw [List.find?_eq_none]
    intro x hx
    obtain ⟨hxq, hxa⟩ := mem_acctQ.mp hx
    simpa using h2 x hxq hxa
  rw [e2]
  have e3 : seqOk (acctQ t.acct q) t cur = true := by
    unfold seqOk
    rcases h3 with ⟨hc, hnone⟩ | ⟨x, hx, hxa, hxn⟩
    · split
      · rename_i h0; simp; omega
      · simp [hc]
    · have hn0 : ¬ t.nonce = 0 := by omega
      rw [if_neg hn0]
      simp only [Bool.or_eq_true, List.any_eq_true, beq_iff_eq]
      left
      exact ⟨x, mem_acctQ.mpr ⟨hx, hxa⟩, by omega⟩
  have e4 : (deductAll (acctQ t.acct q ++ [t]) bal).isSome = true := by
    rw [deductAll_isSome_iff]
    intro k
    rw [costSum_append]
    simpa [costSum] using h4 k
  simp [e3, e4]

/-- The promotion loop accepts a run of consecutive nonces that continues the ready queue and is
    jointly affordable on top of it: no failure, so only the ready container changes. -/
theorem promoteAll_total (proms : List Tx) (a cur : Nat) (bal : Bal) (m : Bool) (T : Nat) (s : State)
    (hacct : ∀ p ∈ proms, p.acct = a)
    (hnonce : ∀ j (h : j < proms.length), (proms[j]).nonce = T + j)
    (hcur : cur ≤ T)
    (hbelow : ∀ x ∈ s.pend, x.acct = a → x.nonce < T)
    (hprev : (T = cur ∧ ∀ x ∈ s.pend, x.acct ≠ a) ∨ ∃ x ∈ s.pend, x.acct = a ∧ x.nonce + 1 = T)
    (hcost : ∀ k, costSum (acctQ a s.pend) k + costSum proms k ≤ bal k) :
    (promoteAll s proms cur bal m).dropped = s.dropped
      ∧ (promoteAll s proms cur bal m).contained = s.contained
      ∧ (promoteAll s proms cur bal m).cache = s.cache := by
  unfold promoteAll
  induction proms generalizing s T with
  | nil => exact ⟨rfl, rfl, rfl⟩
  | cons p r ih =>
    simp only [List.foldl_cons]
    have hpa : p.acct = a := hacct p (List.mem_cons_self ..)
    have hpn : p.nonce = T := by
      have := hnonce 0 (by simp)
      simpa only [List.getElem_cons_zero, Nat.add_zero] using this
    have hadd : pendAdd s.pend p cur bal = .ok (oins p s.pend) := by
      apply pendAdd_ok_of
      · omega
      · intro x hx hxa
        have := hbelow x hx (hxa.trans hpa); omega
      · rcases hprev with ⟨h1, h2⟩ | ⟨x, hx, hxa, hxn⟩
        · left; exact ⟨by omega, fun x hx => by rw [hpa]; exact h2 x hx⟩
        · right; exact ⟨x, hx, hxa.trans hpa.symm, by omega⟩
      · intro k
        have := hcost k
        rw [hpa]
        simp only [costSum] at this
        omega
    rw [hadd]
    simp only
    have := ih (T + 1) { s with pend := oins p s.pend }
      (fun x hx => hacct x (List.mem_cons_of_mem _ hx))
      (fun j hj => by
        have := hnonce (j + 1) (by simpa using hj)
        simp only [List.getElem_cons_succ] at this
        omega)
      (by omega)
      (fun x hx hxa => by
        rcases mem_oins.mp hx with rfl | hx
        · omega
        · have := hbelow x hx hxa; omega)
      (Or.inr ⟨p, mem_oins.mpr (Or.inl rfl), hpa, by omega⟩)
      (fun k => by
        show costSum (acctQ a (oins p s.pend)) k + costSum r k ≤ bal k
        rw [costSum_acctQ_oins]
        have := hcost k
        simp only [costSum, hpa, if_true] at this ⊢
        omega)
    exact this

/-- Every nonce of a strictly increasing list is at most the last one. -/
theorem le_getLast {v : List Tx} (hv : v.Pairwise (fun x y => x.nonce < y.nonce)) {l : Tx}
    (hl : v.getLast? = some l) : ∀ x ∈ v, x.nonce ≤ l.nonce := by
  induction v with
  | nil => simp at hl
  | cons t r ih =>
    intro x hx
    have h1 := (List.pairwise_cons.mp hv).1
    cases r with
    | nil =>
      simp at hl hx
      subst hl hx
      exact Nat.le_refl _
    | cons u r' =>
      have hl' : (u :: r').getLast? = some l := by simpa [List.getLast?_cons_cons] using hl
      have hmem : l ∈ u :: r' := List.mem_of_getLast? hl'
      rcases List.mem_cons.mp hx with rfl | hx
      · have := h1 l hmem; omega
      · exact ih (List.pairwise_cons.mp hv).2 hl' x hx

/-- **The promotion branch of maintenance never fails.** On a pool whose containers are ordered,
    whose transactions of account `a` are not below `cur`, and whose ready queue of `a` is covered
    by `bal`, promoting from parked (from the ready queue's next nonce) un-tracks nothing. -/
theorem promoteReady_total (s : State) (a cur : Nat) (bal : Bal)
    (hp : Sorted s.pend) (hk : Sorted s.park)
    (hfresh : ∀ t ∈ s.pend, t.acct = a → cur ≤ t.nonce)
    (haff : ∀ k, costSum (acctQ a s.pend) k ≤ bal k) :
    let s' := promoteReady s a cur bal true ((pendingNonce s.pend a).getD cur)
    s'.dropped = s.dropped ∧ s'.contained = s.contained ∧ s'.cache = s.cache := by
  intro s'
  show (promoteReady s a cur bal true ((pendingNonce s.pend a).getD cur)).dropped = _
    ∧ (promoteReady s a cur bal true ((pendingNonce s.pend a).getD cur)).contained = _
    ∧ (promoteReady s a cur bal true ((pendingNonce s.pend a).getD cur)).cache = _
  unfold promoteReady findPromotables
  simp only
  have hvk := hk.acctQ_nonce a
  rw [promoSplit_filter (acctQ a s.park) _ (remain (acctQ a s.pend) bal) 0 hvk
    (fun _ _ => Nat.zero_le _) (Nat.zero_le _)]
  generalize List.filter _ s.park = park'
  obtain ⟨c1, c3, c4⟩ := promoPrefix_spec (acctQ a s.park) ((pendingNonce s.pend a).getD cur)
    (remain (acctQ a s.pend) bal)
  have hvp := hp.acctQ_nonce a
  -- facts about the next ready nonce
  have hT : cur ≤ (pendingNonce s.pend a).getD cur
      ∧ (∀ x ∈ s.pend, x.acct = a → x.nonce < (pendingNonce s.pend a).getD cur)
      ∧ (((pendingNonce s.pend a).getD cur = cur ∧ ∀ x ∈ s.pend, x.acct ≠ a)
          ∨ ∃ x ∈ s.pend, x.acct = a ∧ x.nonce + 1 = (pendingNonce s.pend a).getD cur) := by
    unfold pendingNonce
    cases hl : (acctQ a s.pend).getLast? with
    | none =>
      have hnil : acctQ a s.pend = [] := by simpa using hl
      refine ⟨by simp, ?_, Or.inl ⟨by simp, ?_⟩⟩
      · intro x hx hxa
        have : x ∈ acctQ a s.pend := mem_acctQ.mpr ⟨hx, hxa⟩
        rw [hnil] at this; cases this
      · intro x hx hxa
        have : x ∈ acctQ a s.pend := mem_acctQ.mpr ⟨hx, hxa⟩
        rw [hnil] at this; cases this
    | some l =>
      have hlm : l ∈ acctQ a s.pend := List.mem_of_getLast? hl
      obtain ⟨hlq, hla⟩ := mem_acctQ.mp hlm
      have hmax := le_getLast hvp hl
      simp only [Option.map_some, Option.getD_some]
      refine ⟨?_, ?_, Or.inr ⟨l, hlq, hla, rfl⟩⟩
      · have := hfresh l hlq hla; omega
      · intro x hx hxa
        have := hmax x (mem_acctQ.mpr ⟨hx, hxa⟩); omega
  refine promoteAll_total _ a cur bal true _ { s with park := park' }
    (fun p hp => (mem_acctQ.mp (c4 p hp)).2) c3 hT.1 hT.2.1 hT.2.2
    (fun k => by
      have h1 := c1 k
      have h2 := haff k
      rw [remain_eq] at h1
      show costSum (acctQ a s.pend) k + _ ≤ bal k
      omega)

/-- `run_maintenance`, one account, nothing to demote: nothing is dropped. -/
theorem maintenance_promotion_total (c : Chain) (recost : Bool) (results : List (Nat × Nat))
    (height : Nat) (s : State) (a : Nat) (hsh : Shape s) (haf : Afford s)
    (hnd : (maintainPrep c recost results height s a).2.1 = []) :
    (maintainAcct c recost results height (s, []) a).1.dropped = s.dropped := by
  unfold maintainAcct maintainMove
  simp only [hnd, List.isEmpty_nil, if_true]
  have hp := maintainPrep_shape c recost results height s a hsh
  have hfr := (maintainPrep_fresh c recost results height s a).1
  have haff := maintainPrep_afford c recost results height s a hsh haf
  obtain ⟨_, _, e3, _, e5, _⟩ := maintainPrep_fields c recost results height s a
  -- the shape of the prepared state does not need the nonce precondition for the parts used here
  have hps : Sorted (maintainPrep c recost results height s a).1.pend := by
    obtain ⟨e1, _⟩ := maintainPrep_fields c recost results height s a
    rw [e1]
    exact sorted_demote _ _ (sorted_recost _ _ _ (sorted_clean _ _ _ _ _ _ hsh.pendSorted))
  have hks : Sorted (maintainPrep c recost results height s a).1.park := by
    obtain ⟨_, e2, _⟩ := maintainPrep_fields c recost results height s a
    rw [e2]
    exact sorted_recost _ _ _ (sorted_clean _ _ _ _ _ _ hsh.parkSorted)
  have := promoteReady_total (maintainPrep c recost results height s a).1 a (c.nonce a) (c.bal a)
    hps hks (fun t ht hta => hfr t ht hta)
    (fun k => by have := haff a k; rw [e5] at this; simpa using this)
  exact this.1

end Astria.Mempool
