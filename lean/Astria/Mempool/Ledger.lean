import Astria.Mempool.Basic
/-
  "Never silently lost": every id the mempool ever accepted is still tracked, or has a removal
  reason in the removal cache, or was acknowledged by the caller (`remove_from_removal_cache`),
  or was pushed out of the removal cache by its size bound, or — the defect F13 of the pinned
  code, repaired by /repo commit 8c2d14f (`cfg.reportFailedMoves`) — was un-tracked by a failed
  promotion/demotion inside `run_maintenance` (`dropped`).
-/
namespace Astria.Mempool

/-- The id is accounted for. -/
def Acc (s : State) (i : Nat) : Prop :=
  i ∈ s.contained ∨ i ∈ s.cache.map (·.1) ∨ i ∈ s.acked ∨ i ∈ s.dropped ∨ i ∈ s.evicted

/-- The removal cache evicts only at its size bound. -/
def EvOk (s : State) : Prop :=
  0 < s.cfg.cacheMax ∧ (s.evicted = [] ∨ s.cacheQ.length = s.cfg.cacheMax)

/-- Nothing that was accounted for stops being accounted for; the accepted list is unchanged;
    evictions happen only at the bound; with the repair (`reportFailedMoves`) nothing is dropped. -/
def AccLe (s s' : State) : Prop :=
  s'.accepted = s.accepted ∧ s'.cfg = s.cfg ∧ (∀ i, Acc s i → Acc s' i) ∧ (EvOk s → EvOk s')
    ∧ (s.cfg.reportFailedMoves = true → s'.dropped = s.dropped)

theorem AccLe.refl (s : State) : AccLe s s := ⟨rfl, rfl, fun _ h => h, fun h => h, fun _ => rfl⟩

theorem AccLe.trans {a b c : State} (h₁ : AccLe a b) (h₂ : AccLe b c) : AccLe a c :=
  ⟨h₂.1.trans h₁.1, h₂.2.1.trans h₁.2.1, fun i h => h₂.2.2.1 i (h₁.2.2.1 i h),
   fun h => h₂.2.2.2.1 (h₁.2.2.2.1 h),
   fun h => (h₂.2.2.2.2 (by rw [h₁.2.1]; exact h)).trans (h₁.2.2.2.2 h)⟩

/-- States that differ only outside the ledger fields. -/
theorem AccLe.of_eq {s s' : State} (h1 : s'.contained = s.contained) (h2 : s'.cache = s.cache)
    (h3 : s'.acked = s.acked) (h4 : s'.dropped = s.dropped) (h5 : s'.evicted = s.evicted)
    (h6 : s'.accepted = s.accepted) (h7 : s'.cfg = s.cfg) (h8 : s'.cacheQ = s.cacheQ) :
    AccLe s s' := by
  refine ⟨h6, h7, fun i h => ?_, fun h => ?_, fun _ => h4⟩
  · simpa [Acc, h1, h2, h3, h4, h5] using h
  · simpa [EvOk, h5, h7, h8] using h

theorem cacheAdd_accepted (s : State) (i : Nat) (r : Reason) :
    (cacheAdd s i r).accepted = s.accepted ∧ (cacheAdd s i r).cfg = s.cfg
    ∧ (cacheAdd s i r).contained = s.contained ∧ (cacheAdd s i r).acked = s.acked
    ∧ (cacheAdd s i r).dropped = s.dropped ∧ (cacheAdd s i r).pend = s.pend
    ∧ (cacheAdd s i r).park = s.park ∧ (cacheAdd s i r).shown = s.shown
    ∧ (cacheAdd s i r).vbal = s.vbal := by
  unfold cacheAdd
  split
  · simp
  · split
    · split <;> simp
    · simp

theorem cacheAdd_mem (s : State) (i : Nat) (r : Reason) : i ∈ (cacheAdd s i r).cache.map (·.1) := by
  unfold cacheAdd
  split
  · rename_i h
    simp only [List.any_eq_true, beq_iff_eq] at h
    obtain ⟨e, he, rfl⟩ := h
    exact List.mem_map_of_mem he
  · split
    · split <;> simp
    · simp

theorem cacheAdd_keeps (s : State) (i : Nat) (r : Reason) (j : Nat)
    (h : j ∈ s.cache.map (·.1) ∨ j ∈ s.evicted) :
    j ∈ (cacheAdd s i r).cache.map (·.1) ∨ j ∈ (cacheAdd s i r).evicted := by
  unfold cacheAdd
  split
  · exact h
  · split
    · split
      · rcases h with h | h
        · left; simp only [List.map_cons, List.mem_cons]; exact Or.inr h
        · right; exact h
      · rename_i old rest _
        rcases h with h | h
        · by_cases hj : j = old
          · right; simp [hj]
          · left
            simp only [List.map_cons, List.mem_cons]
            right
            simp only [List.mem_map] at h ⊢
            obtain ⟨e, he, rfl⟩ := h
            refine ⟨e, ?_, rfl⟩
            simp [he, hj]
        · right; simp [h]
    · rcases h with h | h
      · left; simp only [List.map_cons, List.mem_cons]; exact Or.inr h
      · right; exact h

theorem cacheAdd_evOk (s : State) (i : Nat) (r : Reason) (h : EvOk s) : EvOk (cacheAdd s i r) := by
  obtain ⟨hpos, h⟩ := h
  unfold cacheAdd
  split
  · exact ⟨hpos, h⟩
  · split
    · rename_i hlen
      split
      · rename_i hq
        simp [hq] at hlen; omega
      · rename_i old rest hq
        refine ⟨hpos, Or.inr ?_⟩
        simp [hq] at hlen ⊢; omega
    · rename_i hlen
      refine ⟨hpos, ?_⟩
      rcases h with h | h
      · left; exact h
      · exact absurd h hlen

theorem cacheAdd_accLe (s : State) (i : Nat) (r : Reason) : AccLe s (cacheAdd s i r) := by
  obtain ⟨h1, h2, h3, h4, h5, _⟩ := cacheAdd_accepted s i r
  refine ⟨h1, h2, fun j hj => ?_, cacheAdd_evOk s i r, fun _ => h5⟩
  unfold Acc at *
  rw [h3, h4, h5]
  rcases hj with h | h | h | h | h
  · exact Or.inl h
  · rcases cacheAdd_keeps s i r j (Or.inl h) with h | h
    · exact Or.inr (Or.inl h)
    · exact Or.inr (Or.inr (Or.inr (Or.inr h)))
  · exact Or.inr (Or.inr (Or.inl h))
  · exact Or.inr (Or.inr (Or.inr (Or.inl h)))
  · rcases cacheAdd_keeps s i r j (Or.inr h) with h | h
    · exact Or.inr (Or.inl h)
    · exact Or.inr (Or.inr (Or.inr (Or.inr h)))

theorem cacheAdd_acc (s : State) (i : Nat) (r : Reason) : Acc (cacheAdd s i r) i :=
  Or.inr (Or.inl (cacheAdd_mem s i r))

/-- Un-tracking an id and recording a reason for it keeps everything accounted for. -/
theorem untrack_cacheAdd_accLe (s : State) (i : Nat) (r : Reason) :
    AccLe s (cacheAdd (untrack s i) i r) := by
  have h := cacheAdd_accLe (untrack s i) i r
  refine ⟨h.1, h.2.1, fun j hj => ?_, fun e => h.2.2.2.1 e, fun e => h.2.2.2.2 e⟩
  by_cases hji : j = i
  · subst hji; exact cacheAdd_acc _ _ _
  · apply h.2.2.1
    unfold Acc at *
    rcases hj with h | h
    · left; simp [untrack, h, hji]
    · right; simpa [untrack] using h

theorem failMove_accLe (s : State) (i : Nat) (m : Bool) : AccLe s (failMove s i m) := by
  unfold failMove
  simp only
  split
  · rename_i hcond
    refine ⟨rfl, rfl, fun j hj => ?_, fun e => e, fun hr => ?_⟩
    · unfold Acc at *
      by_cases hji : j = i
      · subst hji; simp [untrack]
      · rcases hj with h | h
        · left; simp [untrack, h, hji]
        · right
          rcases h with h | h | h | h
          · left; simpa [untrack] using h
          · right; left; simpa [untrack] using h
          · right; right; left; simp [untrack, h]
          · right; right; right; simpa [untrack] using h
    · simp [untrack, hr] at hcond
  · exact untrack_cacheAdd_accLe s i .internal

theorem track_accLe (s : State) (i : Nat) : AccLe s (track s i) := by
  unfold track
  split
  · exact AccLe.refl s
  · refine ⟨rfl, rfl, fun j hj => ?_, fun e => e, fun _ => rfl⟩
    unfold Acc at *
    rcases hj with h | h
    · left; simp [h]
    · right; exact h

theorem track_acc (s : State) (i : Nat) : Acc (track s i) i := by
  unfold track
  split
  · rename_i h; left; simpa using h
  · left; simp

theorem foldl_accLe {α : Type} (f : State → α → State) (hf : ∀ s x, AccLe s (f s x))
    (l : List α) (s : State) : AccLe s (l.foldl f s) := by
  induction l generalizing s with
  | nil => exact AccLe.refl s
  | cons x r ih => exact (hf s x).trans (ih (f s x))

theorem promoteAll_accLe (s : State) (proms : List Tx) (cur : Nat) (bal : Bal) (m : Bool) :
    AccLe s (promoteAll s proms cur bal m) := by
  unfold promoteAll
  apply foldl_accLe
  intro s p
  split
  · exact AccLe.of_eq rfl rfl rfl rfl rfl rfl rfl rfl
  · exact failMove_accLe s p.id m

theorem demoteAll_accLe (s : State) (dems : List Tx) (cur : Nat) :
    AccLe s (demoteAll s dems cur) := by
  unfold demoteAll
  apply foldl_accLe
  intro s p
  split
  · exact AccLe.of_eq rfl rfl rfl rfl rfl rfl rfl rfl
  · exact failMove_accLe s p.id true

theorem removeInvalid_accLe (s : State) (a n id : Nat) (r : Reason) :
    AccLe s (removeInvalid s a n id r) := by
  unfold removeInvalid
  simp only
  split
  · exact AccLe.refl s
  · rename_i pend' park' ids _
    refine AccLe.trans (b := cacheAdd { s with pend := pend', park := park' } id r) ?_ ?_
    · exact (AccLe.of_eq rfl rfl rfl rfl rfl rfl rfl rfl).trans (cacheAdd_accLe _ id r)
    · apply foldl_accLe
      intro s i
      exact untrack_cacheAdd_accLe s i .lowerNonce

theorem promoteReady_accLe (s : State) (a cur : Nat) (bal : Bal) (m : Bool) (target : Nat) :
    AccLe s (promoteReady s a cur bal m target) := by
  unfold promoteReady
  exact (AccLe.of_eq rfl rfl rfl rfl rfl rfl rfl rfl).trans (promoteAll_accLe _ _ _ _ _)

theorem maintainPrep_accLe (c : Chain) (recost : Bool) (results : List (Nat × Nat)) (height : Nat)
    (s : State) (a : Nat) : AccLe s (maintainPrep c recost results height s a).1 := by
  unfold maintainPrep
  exact AccLe.of_eq rfl rfl rfl rfl rfl rfl rfl rfl

theorem maintainMove_accLe (c : Chain) (s : State) (a : Nat) (dems : List Tx) :
    AccLe s (maintainMove c s a dems) := by
  unfold maintainMove
  split
  · exact promoteReady_accLe _ _ _ _ _ _
  · exact demoteAll_accLe _ _ _

theorem maintainAcct_accLe (c : Chain) (recost : Bool) (results : List (Nat × Nat)) (height : Nat)
    (acc : State × List (Nat × Reason)) (a : Nat) :
    AccLe acc.1 (maintainAcct c recost results height acc a).1 := by
  unfold maintainAcct
  exact (maintainPrep_accLe c recost results height acc.1 a).trans (maintainMove_accLe _ _ _ _)

theorem foldl_maintainAcct_accLe (c : Chain) (recost : Bool) (results : List (Nat × Nat))
    (height : Nat) (order : List Nat) (acc : State × List (Nat × Reason)) :
    AccLe acc.1 (order.foldl (maintainAcct c recost results height) acc).1 := by
  induction order generalizing acc with
  | nil => exact AccLe.refl _
  | cons a r ih => exact (maintainAcct_accLe c recost results height acc a).trans (ih _)

/-- Everything except the recent-results cache is the same. -/
def SameCore (s s' : State) : Prop :=
  s'.contained = s.contained ∧ s'.cache = s.cache ∧ s'.acked = s.acked ∧ s'.dropped = s.dropped
    ∧ s'.evicted = s.evicted ∧ s'.accepted = s.accepted ∧ s'.cfg = s.cfg ∧ s'.pend = s.pend
    ∧ s'.park = s.park ∧ s'.shown = s.shown ∧ s'.vbal = s.vbal ∧ s'.now = s.now
    ∧ s'.cacheQ = s.cacheQ

theorem SameCore.trans {a b c : State} (h₁ : SameCore a b) (h₂ : SameCore b c) : SameCore a c := by
  unfold SameCore at *
  obtain ⟨a1, a2, a3, a4, a5, a6, a7, a8, a9, a10, a11, a12, a13⟩ := h₁
  obtain ⟨b1, b2, b3, b4, b5, b6, b7, b8, b9, b10, b11, b12, b13⟩ := h₂
  exact ⟨b1.trans a1, b2.trans a2, b3.trans a3, b4.trans a4, b5.trans a5, b6.trans a6, b7.trans a7,
    b8.trans a8, b9.trans a9, b10.trans a10, b11.trans a11, b12.trans a12, b13.trans a13⟩

theorem resultsAddOne_sameCore {s s1 : State} {id code h : Nat}
    (h1 : resultsAddOne s id code h = some s1) : SameCore s s1 := by
  unfold resultsAddOne at h1
  simp only at h1
  repeat' split at h1
  all_goals first
    | (have := Option.some.inj h1; subst this; simp [SameCore])
    | cases h1

theorem resultsAdd_sameCore (s : State) (batch : List (Nat × Nat)) (h : Nat) :
    SameCore s (resultsAdd s batch h) := by
  have go : ∀ (l : List (Nat × Nat)) (s : State), SameCore s (resultsAdd.go h s l) := by
    intro l
    induction l with
    | nil => intro s; simp [resultsAdd.go, SameCore]
    | cons e r ih =>
      intro s
      obtain ⟨id, code⟩ := e
      simp only [resultsAdd.go]
      split
      · simp [SameCore]
      · rename_i s1 h1
        exact (resultsAddOne_sameCore h1).trans (ih s1)
  have hc : SameCore s (resultsClean s) := by simp [resultsClean, SameCore]
  exact hc.trans (go batch (resultsClean s))

theorem maintain_accLe (s : State) (c : Chain) (recost : Bool) (results : List (Nat × Nat))
    (height : Nat) (order : List Nat) : AccLe s (maintain s c recost results height order) := by
  unfold maintain
  simp only
  generalize hacc : List.foldl (maintainAcct c recost results height) (s, []) order = acc
  have h1 : AccLe s acc.1 := by
    have := foldl_maintainAcct_accLe c recost results height order (s, [])
    rw [hacc] at this; exact this
  have h2 : AccLe acc.1 (List.foldl (fun s (e : Nat × Reason) => cacheAdd (untrack s e.1) e.1 e.2) acc.1 acc.2) :=
    foldl_accLe _ (fun s (e : Nat × Reason) => untrack_cacheAdd_accLe s e.1 e.2) _ _
  obtain ⟨e1, e2, e3, e4, e5, e6, e7, _, _, _, _, _, e13⟩ := resultsAdd_sameCore
    (List.foldl (fun s (e : Nat × Reason) => cacheAdd (untrack s e.1) e.1 e.2) acc.1 acc.2) results height
  exact (h1.trans h2).trans (AccLe.of_eq e1 e2 e3 e4 e5 e6 e7 e13)

/-- The ledger invariant. -/
structure Ledger (s : State) : Prop where
  acc : ∀ i ∈ s.accepted, Acc s i
  ev : EvOk s
  fixed : s.cfg.reportFailedMoves = true → s.dropped = []

theorem Ledger.of_accLe {s s' : State} (h : Ledger s) (hle : AccLe s s') : Ledger s' := by
  refine ⟨fun i hi => ?_, hle.2.2.2.1 h.ev, fun hr => ?_⟩
  · rw [hle.1] at hi
    exact hle.2.2.1 i (h.acc i hi)
  · rw [hle.2.1] at hr
    rw [hle.2.2.2.2 hr]; exact h.fixed hr

end Astria.Mempool
