import Astria.Mempool.Track
/-
  The one-place invariant `Track s [] []` is preserved by every operation.
-/
namespace Astria.Mempool

theorem Track.congr {s : State} {extra extra' missing : List Nat} (h : Track s extra missing)
    (e : ∀ i, extra'.count i = extra.count i) : Track s extra' missing :=
  ⟨fun i => by rw [e]; exact h.bal i, fun i => by rw [e]; exact h.uniq i, h.miss⟩

theorem Track.of_eq {s s' : State} {extra missing : List Nat} (h : Track s extra missing)
    (h1 : s'.pend = s.pend) (h2 : s'.park = s.park) (h3 : s'.contained = s.contained) :
    Track s' extra missing :=
  ⟨by rw [h1, h2, h3]; exact h.bal, by rw [h1, h2]; exact h.uniq, by rw [h1]; exact h.miss⟩

theorem idc_stale_live (v : List Tx) (cur i : Nat) :
    idc v i = idc (v.filter (fun t => decide (t.nonce < cur))) i
            + idc (v.filter (fun t => decide (cur ≤ t.nonce))) i := by
  have h := idc_filter_split v (fun t => decide (t.nonce < cur)) i
  have e : v.filter (fun t => !decide (t.nonce < cur)) = v.filter (fun t => decide (cur ≤ t.nonce)) := by
    apply List.filter_congr
    intro x _
    by_cases hx : x.nonce < cur
    · have : ¬ cur ≤ x.nonce := by omega
      simp [hx, this]
    · have : cur ≤ x.nonce := by omega
      simp [hx, this]
  rw [e] at h; exact h

theorem count_fst_map {α : Type} (l : List Tx) (f : Tx → α) (i : Nat) :
    ((l.map (fun t => (t.id, f t))).map (·.1)).count i = idc l i := by
  rw [List.map_map]
  exact count_map_id l i

/-- Cleaning an account: what is removed plus what is kept is what was there. -/
theorem cleanAcct_count (q : List Tx) (a cur : Nat) (results : List (Nat × Nat))
    (height now ttl : Nat) (i : Nat) :
    ((cleanAcct q a cur results height now ttl).2.map (·.1)).count i
      + idc (cleanAcct q a cur results height now ttl).1 i = idc q i := by
  have hA := idc_filter_split q (fun t => t.acct == a) i
  have hSL := idc_stale_live (acctQ a q) cur i
  have hP := idc_filter_split q (fun t => t.acct == a && decide (t.nonce < cur)) i
  have hst : (acctQ a q).filter (fun t => decide (t.nonce < cur))
      = q.filter (fun t => t.acct == a && decide (t.nonce < cur)) := acctQ_filter_eq a _ q
  unfold cleanAcct
  simp only
  split
  · simp only
    rw [count_fst_map, hst]; omega
  · rename_i f rest hlive
    split
    · simp only
      rw [List.map_append, List.count_append, count_fst_map]
      have e : (((f.id, Reason.expired) :: rest.map (fun t => (t.id, Reason.lowerNonce))).map (·.1)).count i
          = idc ((acctQ a q).filter (fun t => decide (cur ≤ t.nonce))) i := by
        rw [hlive]
        simp only [List.map_cons, List.map_map]
        rw [← count_map_id]
        rfl
      rw [e]
      unfold acctQ at hSL hst ⊢
      omega
    · simp only
      rw [count_fst_map, hst]; omega

theorem findDemotables_count (q : List Tx) (a : Nat) (bal : Bal) (i : Nat) :
    idc (findDemotables q a bal).2 i + ((findDemotables q a bal).1.map (·.id)).count i = idc q i := by
  unfold findDemotables
  simp only
  rw [count_map_id, acctQ_filter_eq]
  have := idc_filter_split q (fun t => t.acct == a && decide (demoSplit (acctQ a q) bal 0 ≤ t.nonce)) i
  omega

theorem maintainPrep_track (c : Chain) (recost : Bool) (results : List (Nat × Nat)) (height : Nat)
    (s : State) (a : Nat) (extra : List Nat) (h : Track s extra []) :
    Track (maintainPrep c recost results height s a).1
      ((maintainPrep c recost results height s a).2.1.map (·.id)
        ++ ((maintainPrep c recost results height s a).2.2.map (·.1) ++ extra)) [] := by
  obtain ⟨e1, e2, _, _, _, e6, e7, e8⟩ := maintainPrep_fields c recost results height s a
  have hp := fun i => cleanAcct_count s.pend a (c.nonce a) results height s.now s.cfg.ttl i
  have hk := fun i => cleanAcct_count s.park a (c.nonce a) results height s.now s.cfg.ttl i
  have hd := fun i => findDemotables_count (if recost then recostAcct c a
      (cleanAcct s.pend a (c.nonce a) results height s.now s.cfg.ttl).1
    else (cleanAcct s.pend a (c.nonce a) results height s.now s.cfg.ttl).1) a (c.bal a) i
  refine ⟨fun i => ?_, fun i => ?_, fun i => by simp⟩
  · rw [e1, e2, e6, e7, e8]
    have := h.bal i
    have := hp i; have := hk i; have := hd i
    simp only [List.count_append, List.map_append, idc_recost] at *
    omega
  · rw [e1, e2, e7, e8]
    have := h.uniq i
    have := hp i; have := hk i; have := hd i
    simp only [List.count_append, List.map_append, idc_recost] at *
    omega

theorem maintainMove_track (c : Chain) (s : State) (a : Nat) (dems : List Tx) (extra : List Nat)
    (h : Track s (dems.map (·.id) ++ extra) []) : Track (maintainMove c s a dems) extra [] := by
  unfold maintainMove
  split
  · rename_i he
    have : dems = [] := by simpa using he
    subst this
    exact promoteReady_track _ _ _ _ _ _ _ _ (by simpa using h)
  · exact demoteAll_track _ _ _ _ _ h

theorem maintainAcct_track (c : Chain) (recost : Bool) (results : List (Nat × Nat)) (height : Nat)
    (acc : State × List (Nat × Reason)) (a : Nat) (h : Track acc.1 (acc.2.map (·.1)) []) :
    Track (maintainAcct c recost results height acc a).1
      ((maintainAcct c recost results height acc a).2.map (·.1)) [] := by
  unfold maintainAcct
  simp only
  have hp := maintainPrep_track c recost results height acc.1 a _ h
  have := maintainMove_track c _ a _ _ hp
  apply this.congr
  intro i
  simp only [List.map_append, List.count_append]
  omega

theorem foldl_maintainAcct_track (c : Chain) (recost : Bool) (results : List (Nat × Nat))
    (height : Nat) (order : List Nat) (acc : State × List (Nat × Reason))
    (h : Track acc.1 (acc.2.map (·.1)) []) :
    Track (order.foldl (maintainAcct c recost results height) acc).1
      ((order.foldl (maintainAcct c recost results height) acc).2.map (·.1)) [] := by
  induction order generalizing acc with
  | nil => exact h
  | cons a r ih => exact ih _ (maintainAcct_track c recost results height acc a h)

theorem maintain_track (s : State) (c : Chain) (recost : Bool) (results : List (Nat × Nat))
    (height : Nat) (order : List Nat) (h : Track s [] []) :
    Track (maintain s c recost results height order) [] [] := by
  unfold maintain
  simp only
  generalize hacc : List.foldl (maintainAcct c recost results height) (s, []) order = acc
  have h1 : Track acc.1 (acc.2.map (·.1)) [] := by
    have := foldl_maintainAcct_track c recost results height order (s, []) (by simpa using h)
    rw [hacc] at this; exact this
  have h2 := removeLoop_track acc.2 acc.1 [] (by simpa using h1)
  obtain ⟨e1, _, _, _, _, _, _, e8, e9, _⟩ := resultsAdd_sameCore
    (List.foldl (fun s (e : Nat × Reason) => cacheAdd (untrack s e.1) e.1 e.2) acc.1 acc.2) results height
  exact h2.of_eq e8 e9 e1

theorem removeInvalid_track (s : State) (a n id : Nat) (r : Reason) (h : Track s [] []) :
    Track (removeInvalid s a n id r) [] [] := by
  unfold removeInvalid
  simp only
  split
  · exact h
  · rename_i pend' park' ids hfound
    have hs : Track { s with pend := pend', park := park' } ids [] := by
      split at hfound
      · rename_i pq pids hrem
        injection hfound with hfound
        injection hfound with e1 e2
        injection e2 with e2 e3
        obtain ⟨rfl, rfl⟩ := removeFrom_some hrem
        subst e1 e2 e3
        unfold clearAccount
        simp only
        have h1 := h.takePend (fun t => t.acct == a && decide (n ≤ t.nonce))
        have h2 := h1.takePark (fun t => t.acct == a)
        apply (h2.of_eq (s' := { s with
          pend := s.pend.filter (fun t => !(t.acct == a && decide (n ≤ t.nonce))),
          park := s.park.filter (fun t => !(t.acct == a)) }) rfl rfl rfl).congr
        intro i
        rw [acctQ_filter_eq]
        unfold acctQ
        simp only [List.count_append, List.count_nil]
        omega
      · split at hfound
        · rename_i kq kids hrem
          injection hfound with hfound
          injection hfound with e1 e2
          injection e2 with e2 e3
          obtain ⟨rfl, rfl⟩ := removeFrom_some hrem
          subst e1 e2 e3
          have h2 := h.takePark (fun t => t.acct == a && decide (n ≤ t.nonce))
          apply (h2.of_eq (s' := { s with
            park := s.park.filter (fun t => !(t.acct == a && decide (n ≤ t.nonce))) }) rfl rfl rfl).congr
          intro i
          rw [acctQ_filter_eq]
          simp only [List.count_append, List.count_nil]
          omega
        · cases hfound
    have h3 := cacheAdd_track id r hs
    have := removeLoop_track (ids.map (fun i => (i, Reason.lowerNonce)))
      (cacheAdd { s with pend := pend', park := park' } id r) []
      (by simpa [List.map_map, Function.comp_def] using h3)
    rw [List.foldl_map] at this
    exact this

theorem track_fresh {s : State} {j : Nat} (h : Track s [] [j]) : Track (track s j) [] [] := by
  have hb := h.bal j
  have hu := h.uniq j
  simp only [List.count_cons_self, List.count_nil] at hb hu
  have hnot : s.contained.count j = 0 := by omega
  have hnm : ¬ j ∈ s.contained := List.count_eq_zero.mp hnot
  unfold track
  have : s.contained.contains j = false := by simpa using hnm
  simp only [this]
  refine ⟨fun i => ?_, fun i => ?_, fun i => by simp⟩
  · have := h.bal i
    show (j :: s.contained).count i + _ = _
    simp only [List.count_cons, List.count_nil] at this ⊢
    by_cases hji : j = i <;> simp [hji] at this ⊢ <;> omega
  · have := h.uniq i
    simpa using this

/-- A fresh id was added to one of the containers; tracking it restores the invariant. -/
theorem track_new {s s' : State} {j : Nat} (h : Track s [] []) (hfresh : j ∉ s.contained)
    (hc : s'.contained = s.contained)
    (hp : ∀ i, idc s'.pend i + idc s'.park i
      = idc s.pend i + idc s.park i + (if j = i then 1 else 0)) :
    Track (track s' j) [] [] := by
  have hc0 : s.contained.count j = 0 := List.count_eq_zero.mpr hfresh
  unfold track
  have : s'.contained.contains j = false := by rw [hc]; simpa using hfresh
  simp only [this]
  refine ⟨fun i => ?_, fun i => ?_, fun i => by simp⟩
  · have := h.bal i
    have := hp i
    show (j :: s'.contained).count i + _ = idc s'.pend i + idc s'.park i + _
    rw [hc]
    simp only [List.count_cons, List.count_nil] at *
    by_cases hji : j = i <;> simp [hji] at * <;> omega
  · have := h.uniq i
    have := h.bal i
    have := hp i
    show idc s'.pend i + idc s'.park i + _ ≤ 1
    simp only [List.count_nil] at *
    by_cases hji : j = i
    · subst hji; simp at *; omega
    · simp [hji] at *; omega

theorem insertTx_track (s : State) (t : Tx) (cur : Nat) (bal : Bal) (h : Track s [] [])
    (hfresh : t.id ∉ s.contained) : Track (insertTx s t cur bal).1 [] [] := by
  have hc0 : s.contained.count t.id = 0 := List.count_eq_zero.mpr hfresh
  have h1 : Track (noteShown s t.acct cur) [] [] := h.of_eq rfl rfl rfl
  have addPark : ∀ park', parkAdd (noteShown s t.acct cur).cfg (noteShown s t.acct cur).park
      { t with seen := s.now } cur = .ok park' →
      Track (track (noteAccepted { noteShown s t.acct cur with park := park' } t.id) t.id) [] [] := by
    intro park' hpk
    obtain ⟨rfl, _⟩ := parkAdd_ok hpk
    apply track_new (s' := noteAccepted { noteShown s t.acct cur with
      park := oins { t with seen := s.now } s.park } t.id) h hfresh rfl
    intro i
    show idc s.pend i + idc (oins { t with seen := s.now } s.park) i = _
    rw [idc_oins]; simp; omega
  unfold insertTx
  simp only
  split
  · split
    · rename_i park' hpk; exact addPark park' hpk
    · exact h1
  · split
    · rename_i park' hpk; exact addPark park' hpk
    · exact h1
  · exact h1
  · rename_i pend' hpd
    obtain ⟨rfl, _⟩ := pendAdd_ok hpd
    apply track_fresh
    apply promoteReady_track
    refine ⟨fun i => ?_, fun i => ?_, fun i => ?_⟩
    · have := h.bal i
      show s.contained.count i + _ = idc (oins { t with seen := s.now } s.pend) i + idc s.park i + _
      rw [idc_oins]
      simp only [List.count_cons, List.count_nil] at this ⊢
      by_cases hti : t.id = i <;> simp [hti] at this ⊢ <;> omega
    · have := h.uniq i
      have := h.bal i
      show idc (oins { t with seen := s.now } s.pend) i + idc s.park i + _ ≤ 1
      rw [idc_oins]
      simp only [List.count_nil] at *
      by_cases hti : t.id = i
      · subst hti; simp at *; omega
      · simp [hti] at *; omega
    · show [t.id].count i ≤ idc (oins { t with seen := s.now } s.pend) i
      rw [idc_oins]
      simp only [List.count_cons, List.count_nil]
      by_cases hti : t.id = i <;> simp [hti]

end Astria.Mempool
