import Astria.Mempool.Shape
/-
  The shape invariant is preserved by every operation of the mempool.
-/
namespace Astria.Mempool

def upd (f : Nat → Nat) (a v : Nat) : Nat → Nat := fun x => if x = a then v else f x

/-! ### container-level steps of maintenance -/

theorem gap_clean {shown : Nat → Nat} {q : List Tx} (a cur : Nat) (results : List (Nat × Nat))
    (height now ttl : Nat) (h : Gap shown q) (hcur : shown a ≤ cur) :
    Gap (upd shown a cur) (cleanAcct q a cur results height now ttl).1 := by
  obtain ⟨p, hp, p1, p2, p3⟩ := cleanAcct_filter q a cur results height now ttl
  rw [hp]
  have hm : Gap (upd shown a cur) q := h.mono (fun x => by
    unfold upd; split
    · rename_i hx; subst hx; exact hcur
    · exact Nat.le_refl _)
  apply hm.filter
  intro t u _ _ hpt hua hun
  by_cases hta : t.acct = a
  · have hge := p2 t hta hpt
    by_cases hu : cur ≤ u.nonce
    · left; exact p3 t u hta (hua.trans hta) hpt hu
    · right; simp [upd, hta]; omega
  · left; exact p1 u (by rw [hua]; exact hta)

theorem gap_recost {shown : Nat → Nat} {q : List Tx} (c : Chain) (a : Nat) (recost : Bool)
    (h : Gap shown q) : Gap shown (if recost then recostAcct c a q else q) := by
  split
  · exact h.map _ (fun t => ⟨(recostAcct_key c a t).1, (recostAcct_key c a t).2.1⟩)
  · exact h

theorem gap_demote {shown : Nat → Nat} {q : List Tx} (a : Nat) (bal : Bal) (h : Gap shown q) :
    Gap shown (findDemotables q a bal).2 := by
  unfold findDemotables
  simp only
  apply h.filter
  intro t u _ _ hpt hua hun
  left
  by_cases hta : t.acct = a
  · simp [hta] at hpt
    simp [hua.trans hta]; omega
  · have : ¬ u.acct = a := by rw [hua]; exact hta
    simp [this]

theorem sorted_recost {q : List Tx} (c : Chain) (a : Nat) (recost : Bool) (h : Sorted q) :
    Sorted (if recost then recostAcct c a q else q) := by
  split
  · exact sorted_recostAcct c a h
  · exact h

theorem sorted_clean {q : List Tx} (a cur : Nat) (results : List (Nat × Nat))
    (height now ttl : Nat) (h : Sorted q) : Sorted (cleanAcct q a cur results height now ttl).1 := by
  obtain ⟨p, hp, _⟩ := cleanAcct_filter q a cur results height now ttl
  rw [hp]; exact h.filter p

theorem sorted_demote {q : List Tx} (a : Nat) (bal : Bal) (h : Sorted q) :
    Sorted (findDemotables q a bal).2 := by
  unfold findDemotables; exact h.filter _

theorem length_recost (c : Chain) (a : Nat) (recost : Bool) (q : List Tx) :
    (if recost then recostAcct c a q else q).length = q.length := by
  split <;> simp [recostAcct]

theorem length_acctQ_recost (c : Chain) (a b : Nat) (recost : Bool) (q : List Tx) :
    (acctQ b (if recost then recostAcct c a q else q)).length = (acctQ b q).length := by
  split
  · rw [acctQ_recostAcct]; simp
  · rfl

theorem length_clean_le (q : List Tx) (a cur : Nat) (results : List (Nat × Nat))
    (height now ttl : Nat) : (cleanAcct q a cur results height now ttl).1.length ≤ q.length := by
  obtain ⟨p, hp, _⟩ := cleanAcct_filter q a cur results height now ttl
  rw [hp]; exact List.length_filter_le _ _

theorem length_acctQ_clean_le (q : List Tx) (a b cur : Nat) (results : List (Nat × Nat))
    (height now ttl : Nat) :
    (acctQ b (cleanAcct q a cur results height now ttl).1).length ≤ (acctQ b q).length := by
  obtain ⟨p, hp, _⟩ := cleanAcct_filter q a cur results height now ttl
  rw [hp, acctQ_filter]; exact List.length_filter_le _ _

/-! ### `run_maintenance`, one account -/

theorem maintainPrep_fields (c : Chain) (recost : Bool) (results : List (Nat × Nat)) (height : Nat)
    (s : State) (a : Nat) :
    (maintainPrep c recost results height s a).1.pend
      = (findDemotables (if recost then recostAcct c a
            (cleanAcct s.pend a (c.nonce a) results height s.now s.cfg.ttl).1
          else (cleanAcct s.pend a (c.nonce a) results height s.now s.cfg.ttl).1) a (c.bal a)).2
    ∧ (maintainPrep c recost results height s a).1.park
      = (if recost then recostAcct c a (cleanAcct s.park a (c.nonce a) results height s.now s.cfg.ttl).1
          else (cleanAcct s.park a (c.nonce a) results height s.now s.cfg.ttl).1)
    ∧ (maintainPrep c recost results height s a).1.shown = upd s.shown a (c.nonce a)
    ∧ (maintainPrep c recost results height s a).1.cfg = s.cfg
    ∧ (maintainPrep c recost results height s a).1.vbal
      = (fun x => if x = a then c.bal a else s.vbal x)
    ∧ (maintainPrep c recost results height s a).1.contained = s.contained
    ∧ (maintainPrep c recost results height s a).2.1
      = (findDemotables (if recost then recostAcct c a
            (cleanAcct s.pend a (c.nonce a) results height s.now s.cfg.ttl).1
          else (cleanAcct s.pend a (c.nonce a) results height s.now s.cfg.ttl).1) a (c.bal a)).1
    ∧ (maintainPrep c recost results height s a).2.2
      = (cleanAcct s.pend a (c.nonce a) results height s.now s.cfg.ttl).2
        ++ (cleanAcct s.park a (c.nonce a) results height s.now s.cfg.ttl).2 :=
  ⟨rfl, rfl, rfl, rfl, rfl, rfl, rfl, rfl⟩

theorem maintainPrep_shape (c : Chain) (recost : Bool) (results : List (Nat × Nat)) (height : Nat)
    (s : State) (a : Nat) (h : Shape s) (hcur : s.shown a ≤ c.nonce a) :
    Shape (maintainPrep c recost results height s a).1 := by
  obtain ⟨e1, e2, e3, e4, _, _, _, _⟩ := maintainPrep_fields c recost results height s a
  constructor
  · rw [e1]
    exact sorted_demote _ _ (sorted_recost _ _ _ (sorted_clean _ _ _ _ _ _ h.pendSorted))
  · rw [e2]
    exact sorted_recost _ _ _ (sorted_clean _ _ _ _ _ _ h.parkSorted)
  · intro b
    rw [e2, e4, length_acctQ_recost]
    exact Nat.le_trans (length_acctQ_clean_le _ _ _ _ _ _ _ _) (h.perAcct b)
  · rw [e2, e4, length_recost]
    exact Nat.le_trans (length_clean_le _ _ _ _ _ _ _) h.total
  · rw [e1, e3]
    exact gap_demote _ _ (gap_recost _ _ _ (gap_clean _ _ _ _ _ _ h.gap hcur))

theorem maintainMove_shape (c : Chain) (s : State) (a : Nat) (dems : List Tx) (h : Shape s)
    (hcur : c.nonce a ≤ s.shown a) :
    Shape (maintainMove c s a dems) ∧ (maintainMove c s a dems).shown = s.shown
      ∧ (maintainMove c s a dems).cfg = s.cfg ∧ (maintainMove c s a dems).vbal = s.vbal := by
  unfold maintainMove
  split
  · exact promoteReady_shape s a (c.nonce a) (c.bal a) true _ h hcur
  · obtain ⟨a1, a2, _, a4, a5⟩ := demoteAll_shape dems (c.nonce a) s h
    exact ⟨a1, a2, a4, a5⟩

theorem maintainAcct_shape (c : Chain) (recost : Bool) (results : List (Nat × Nat)) (height : Nat)
    (acc : State × List (Nat × Reason)) (a : Nat) (h : Shape acc.1)
    (hcur : acc.1.shown a ≤ c.nonce a) :
    Shape (maintainAcct c recost results height acc a).1
      ∧ (maintainAcct c recost results height acc a).1.shown = upd acc.1.shown a (c.nonce a)
      ∧ (maintainAcct c recost results height acc a).1.cfg = acc.1.cfg := by
  unfold maintainAcct
  simp only
  have hp := maintainPrep_shape c recost results height acc.1 a h hcur
  obtain ⟨_, _, e3, e4, _⟩ := maintainPrep_fields c recost results height acc.1 a
  obtain ⟨m1, m2, m3, _⟩ := maintainMove_shape c (maintainPrep c recost results height acc.1 a).1 a
    (maintainPrep c recost results height acc.1 a).2.1 hp (by rw [e3]; simp [upd])
  exact ⟨m1, m2.trans e3, m3.trans e4⟩

theorem foldl_maintainAcct_shape (c : Chain) (recost : Bool) (results : List (Nat × Nat))
    (height : Nat) (order : List Nat) (acc : State × List (Nat × Reason)) (h : Shape acc.1)
    (hcur : ∀ a ∈ order, acc.1.shown a ≤ c.nonce a) :
    Shape (order.foldl (maintainAcct c recost results height) acc).1 := by
  induction order generalizing acc with
  | nil => exact h
  | cons a r ih =>
    simp only [List.foldl_cons]
    obtain ⟨h1, h2, _⟩ := maintainAcct_shape c recost results height acc a h
      (hcur a (List.mem_cons_self ..))
    apply ih _ h1
    intro b hb
    rw [h2]
    unfold upd
    split
    · rename_i hba; subst hba; exact Nat.le_refl _
    · exact hcur b (List.mem_cons_of_mem _ hb)

theorem foldl_samePool {α : Type} (f : State → α → State) (hf : ∀ s x, SamePool s (f s x))
    (l : List α) (s : State) : SamePool s (l.foldl f s) := by
  induction l generalizing s with
  | nil => exact SamePool.refl s
  | cons x r ih => exact (hf s x).trans (ih (f s x))

theorem maintain_shape (s : State) (c : Chain) (recost : Bool) (results : List (Nat × Nat))
    (height : Nat) (order : List Nat) (h : Shape s) (hcur : ∀ a ∈ order, s.shown a ≤ c.nonce a) :
    Shape (maintain s c recost results height order) := by
  unfold maintain
  simp only
  generalize hacc : List.foldl (maintainAcct c recost results height) (s, []) order = acc
  have h1 : Shape acc.1 := by
    have := foldl_maintainAcct_shape c recost results height order (s, []) h hcur
    rw [hacc] at this; exact this
  have h2 : SamePool acc.1
      (List.foldl (fun s (e : Nat × Reason) => cacheAdd (untrack s e.1) e.1 e.2) acc.1 acc.2) :=
    foldl_samePool _ (fun s (e : Nat × Reason) =>
      (untrack_samePool s e.1).trans (cacheAdd_samePool _ _ _)) _ _
  obtain ⟨_, _, _, _, _, _, e7, e8, e9, e10, _⟩ := resultsAdd_sameCore
    (List.foldl (fun s (e : Nat × Reason) => cacheAdd (untrack s e.1) e.1 e.2) acc.1 acc.2) results height
  exact (h1.samePool h2).of_eq e8 e9 e10 e7

/-! ### `remove_tx_invalid` -/

theorem removeFrom_some {q q' : List Tx} {a n : Nat} {ids : List Nat}
    (h : removeFrom q a n = some (q', ids)) :
    q' = q.filter (fun t => !(t.acct == a && decide (n ≤ t.nonce)))
    ∧ ids = ((acctQ a q).filter (fun t => decide (n ≤ t.nonce))).map (·.id) := by
  unfold removeFrom at h
  split at h
  · injection h with h; injection h with h1 h2; exact ⟨h1.symm, h2.symm⟩
  · cases h

theorem gap_removeAbove {shown : Nat → Nat} {q : List Tx} (a n : Nat) (h : Gap shown q) :
    Gap shown (q.filter (fun t => !(t.acct == a && decide (n ≤ t.nonce)))) := by
  apply h.filter
  intro t u _ _ hpt hua hun
  left
  by_cases hta : t.acct = a
  · simp [hta] at hpt
    simp [hua.trans hta]; omega
  · have : ¬ u.acct = a := by rw [hua]; exact hta
    simp [this]

theorem Shape.filterPend {s : State} (h : Shape s) (p : Tx → Bool)
    (hg : Gap s.shown (s.pend.filter p)) : Shape { s with pend := s.pend.filter p } :=
  ⟨h.pendSorted.filter p, h.parkSorted, h.perAcct, h.total, hg⟩

theorem removeInvalid_shape (s : State) (a n id : Nat) (r : Reason) (h : Shape s) :
    Shape (removeInvalid s a n id r) := by
  unfold removeInvalid
  simp only
  split
  · exact h
  · rename_i pend' park' ids hfound
    have hs : Shape { s with pend := pend', park := park' } := by
      split at hfound
      · rename_i pq pids hrem
        injection hfound with hfound
        injection hfound with e1 e2
        injection e2 with e2 e3
        obtain ⟨rfl, _⟩ := removeFrom_some hrem
        subst e1 e2
        have := (h.filterPend _ (gap_removeAbove a n h.gap)).filterPark (fun t => !(t.acct == a))
        exact this
      · split at hfound
        · rename_i kq kids hrem
          injection hfound with hfound
          injection hfound with e1 e2
          injection e2 with e2 e3
          obtain ⟨rfl, _⟩ := removeFrom_some hrem
          subst e1 e2
          exact h.filterPark _
        · cases hfound
    have e1 : SamePool { s with pend := pend', park := park' }
        (cacheAdd { s with pend := pend', park := park' } id r) := cacheAdd_samePool _ _ _
    have e2 := foldl_samePool (fun s i => cacheAdd (untrack s i) i Reason.lowerNonce)
      (fun s i => (untrack_samePool s i).trans (cacheAdd_samePool _ _ _)) ids
      (cacheAdd { s with pend := pend', park := park' } id r)
    exact hs.samePool (e1.trans e2)

/-! ### `insert` -/

theorem insertTx_shape (s : State) (t : Tx) (cur : Nat) (bal : Bal) (h : Shape s)
    (hcur : s.shown t.acct ≤ cur) : Shape (insertTx s t cur bal).1 := by
  have h1 : Shape (noteShown s t.acct cur) :=
    ⟨h.pendSorted, h.parkSorted, h.perAcct, h.total, h.gap.mono (fun x => by
      show s.shown x ≤ if x = t.acct then cur else s.shown x
      split
      · rename_i hx; subst hx; exact hcur
      · exact Nat.le_refl _)⟩
  have hsh : cur ≤ (noteShown s t.acct cur).shown t.acct := by simp [noteShown]
  unfold insertTx
  simp only
  split
  · split
    · rename_i park' hpk
      have := h1.parkAdd (d := { t with seen := s.now }) hpk
      exact (this.of_eq (s' := noteAccepted { noteShown s t.acct cur with park := park' } t.id)
        rfl rfl rfl rfl).samePool (track_samePool _ _)
    · exact h1
  · split
    · rename_i park' hpk
      have := h1.parkAdd (d := { t with seen := s.now }) hpk
      exact (this.of_eq (s' := noteAccepted { noteShown s t.acct cur with park := park' } t.id)
        rfl rfl rfl rfl).samePool (track_samePool _ _)
    · exact h1
  · exact h1
  · rename_i pend' hpd
    have h2 := h1.pendAdd (p := { t with seen := s.now }) hpd hsh
    have h3 := promoteReady_shape _ t.acct cur bal false (t.nonce + 1)
      (h2.of_eq (s' := noteBal (noteAccepted { noteShown s t.acct cur with pend := pend' } t.id) t.acct bal)
        rfl rfl rfl rfl) hsh
    exact h3.1.samePool (track_samePool _ _)

end Astria.Mempool
