import Astria.Mempool.Steps
/-
  After `run_maintenance` against a chain state, no transaction of a processed account with a
  nonce below the chain nonce (an already-used nonce) remains, ready or parked.
-/
namespace Astria.Mempool

/-- Every transaction of the container satisfies a predicate on its key (account, nonce). -/
def AllK (S : Nat → Nat → Prop) (q : List Tx) : Prop := ∀ t ∈ q, S t.acct t.nonce

theorem AllK.filter {S : Nat → Nat → Prop} {q : List Tx} (h : AllK S q) (p : Tx → Bool) :
    AllK S (q.filter p) := fun t ht => h t (List.mem_filter.mp ht).1

theorem AllK.oins {S : Nat → Nat → Prop} {q : List Tx} {t : Tx} (h : AllK S q)
    (ht : S t.acct t.nonce) : AllK S (oins t q) := by
  intro x hx
  rcases mem_oins.mp hx with rfl | hx
  · exact ht
  · exact h x hx

theorem AllK.recost {S : Nat → Nat → Prop} {q : List Tx} (h : AllK S q) (c : Chain) (a : Nat)
    (recost : Bool) : AllK S (if recost then recostAcct c a q else q) := by
  split
  · intro t ht
    obtain ⟨u, hu, rfl⟩ := List.mem_map.mp ht
    rw [(recostAcct_key c a u).1, (recostAcct_key c a u).2.1]
    exact h u hu
  · exact h

theorem AllK.clean {S : Nat → Nat → Prop} {q : List Tx} (h : AllK S q) (a cur : Nat)
    (results : List (Nat × Nat)) (height now ttl : Nat) :
    AllK S (cleanAcct q a cur results height now ttl).1 := by
  obtain ⟨p, hp, _⟩ := cleanAcct_filter q a cur results height now ttl
  rw [hp]; exact h.filter p

theorem clean_fresh (q : List Tx) (a cur : Nat) (results : List (Nat × Nat)) (height now ttl : Nat) :
    AllK (fun ac n => ac = a → cur ≤ n) (cleanAcct q a cur results height now ttl).1 := by
  obtain ⟨p, hp, _, p2, _⟩ := cleanAcct_filter q a cur results height now ttl
  rw [hp]
  intro t ht ha
  exact p2 t ha (List.mem_filter.mp ht).2

theorem AllK.and {S T : Nat → Nat → Prop} {q : List Tx} (h₁ : AllK S q) (h₂ : AllK T q) :
    AllK (fun a n => S a n ∧ T a n) q := fun t ht => ⟨h₁ t ht, h₂ t ht⟩

theorem AllK.demoteKeep {S : Nat → Nat → Prop} {q : List Tx} (h : AllK S q) (a : Nat) (bal : Bal) :
    AllK S (findDemotables q a bal).2 ∧ AllK S (findDemotables q a bal).1 := by
  unfold findDemotables
  simp only
  exact ⟨h.filter _, fun t ht => h t (mem_acctQ.mp (List.mem_filter.mp ht).1).1⟩

theorem AllK.promoKeep {S : Nat → Nat → Prop} {q : List Tx} (h : AllK S q) (a target : Nat)
    (avail : Bal) :
    AllK S (findPromotables q a target avail).2 ∧ AllK S (findPromotables q a target avail).1 := by
  unfold findPromotables
  simp only
  exact ⟨h.filter _, fun t ht => h t (mem_acctQ.mp (List.mem_filter.mp ht).1).1⟩

theorem promoteAll_allK {S : Nat → Nat → Prop} (proms : List Tx) (cur : Nat) (bal : Bal) (m : Bool)
    (s : State) (hp : AllK S s.pend) (hk : AllK S s.park) (hpr : AllK S proms) :
    AllK S (promoteAll s proms cur bal m).pend ∧ AllK S (promoteAll s proms cur bal m).park := by
  unfold promoteAll
  induction proms generalizing s with
  | nil => exact ⟨hp, hk⟩
  | cons p r ih =>
    simp only [List.foldl_cons]
    have hr : AllK S r := fun x hx => hpr x (List.mem_cons_of_mem _ hx)
    split
    · rename_i q hq
      obtain ⟨rfl, _⟩ := pendAdd_ok hq
      exact ih _ (hp.oins (hpr p (List.mem_cons_self ..))) hk hr
    · have e := failMove_samePool s p.id m
      exact ih _ (by rw [e.1]; exact hp) (by rw [e.2.1]; exact hk) hr

theorem demoteAll_allK {S : Nat → Nat → Prop} (dems : List Tx) (cur : Nat)
    (s : State) (hp : AllK S s.pend) (hk : AllK S s.park) (hd : AllK S dems) :
    AllK S (demoteAll s dems cur).pend ∧ AllK S (demoteAll s dems cur).park := by
  unfold demoteAll
  induction dems generalizing s with
  | nil => exact ⟨hp, hk⟩
  | cons d r ih =>
    simp only [List.foldl_cons]
    have hr : AllK S r := fun x hx => hd x (List.mem_cons_of_mem _ hx)
    split
    · rename_i q hq
      obtain ⟨rfl, _⟩ := parkAdd_ok hq
      exact ih _ hp (hk.oins (hd d (List.mem_cons_self ..))) hr
    · have e := failMove_samePool s d.id true
      exact ih _ (by rw [e.1]; exact hp) (by rw [e.2.1]; exact hk) hr

theorem promoteReady_allK {S : Nat → Nat → Prop} (s : State) (a cur : Nat) (bal : Bal) (m : Bool)
    (target : Nat) (hp : AllK S s.pend) (hk : AllK S s.park) :
    AllK S (promoteReady s a cur bal m target).pend
      ∧ AllK S (promoteReady s a cur bal m target).park := by
  unfold promoteReady
  simp only
  have := hk.promoKeep a target (remain (acctQ a s.pend) bal)
  exact promoteAll_allK _ _ _ _ _ hp this.1 this.2

theorem maintainPrep_allK {S : Nat → Nat → Prop} (c : Chain) (recost : Bool)
    (results : List (Nat × Nat)) (height : Nat) (s : State) (a : Nat)
    (hp : AllK S s.pend) (hk : AllK S s.park) :
    AllK S (maintainPrep c recost results height s a).1.pend
      ∧ AllK S (maintainPrep c recost results height s a).1.park
      ∧ AllK S (maintainPrep c recost results height s a).2.1 := by
  obtain ⟨e1, e2, _, _, _, _, e7, _⟩ := maintainPrep_fields c recost results height s a
  rw [e1, e2, e7]
  have h1 := ((hp.clean a (c.nonce a) results height s.now s.cfg.ttl).recost c a recost).demoteKeep
    a (c.bal a)
  exact ⟨h1.1, (hk.clean a (c.nonce a) results height s.now s.cfg.ttl).recost c a recost, h1.2⟩

theorem maintainPrep_fresh (c : Chain) (recost : Bool)
    (results : List (Nat × Nat)) (height : Nat) (s : State) (a : Nat) :
    AllK (fun ac n => ac = a → c.nonce a ≤ n) (maintainPrep c recost results height s a).1.pend
      ∧ AllK (fun ac n => ac = a → c.nonce a ≤ n) (maintainPrep c recost results height s a).1.park
      ∧ AllK (fun ac n => ac = a → c.nonce a ≤ n) (maintainPrep c recost results height s a).2.1 := by
  obtain ⟨e1, e2, _, _, _, _, e7, _⟩ := maintainPrep_fields c recost results height s a
  rw [e1, e2, e7]
  have h1 := ((clean_fresh s.pend a (c.nonce a) results height s.now s.cfg.ttl).recost c a
    recost).demoteKeep a (c.bal a)
  exact ⟨h1.1, (clean_fresh s.park a (c.nonce a) results height s.now s.cfg.ttl).recost c a recost,
    h1.2⟩

theorem maintainMove_allK {S : Nat → Nat → Prop} (c : Chain) (s : State) (a : Nat) (dems : List Tx)
    (hp : AllK S s.pend) (hk : AllK S s.park) (hd : AllK S dems) :
    AllK S (maintainMove c s a dems).pend ∧ AllK S (maintainMove c s a dems).park := by
  unfold maintainMove
  split
  · exact promoteReady_allK _ _ _ _ _ _ hp hk
  · exact demoteAll_allK _ _ _ hp hk hd

/-- Maintenance of any account introduces no new keys. -/
theorem maintainAcct_allK {S : Nat → Nat → Prop} (c : Chain) (recost : Bool)
    (results : List (Nat × Nat)) (height : Nat) (acc : State × List (Nat × Reason)) (a : Nat)
    (hp : AllK S acc.1.pend) (hk : AllK S acc.1.park) :
    AllK S (maintainAcct c recost results height acc a).1.pend
      ∧ AllK S (maintainAcct c recost results height acc a).1.park := by
  unfold maintainAcct
  simp only
  obtain ⟨h1, h2, h3⟩ := maintainPrep_allK (S := S) c recost results height acc.1 a hp hk
  exact maintainMove_allK c _ a _ h1 h2 h3

/-- Maintenance of account `a` leaves nothing of `a` below the chain nonce. -/
theorem maintainAcct_fresh (c : Chain) (recost : Bool)
    (results : List (Nat × Nat)) (height : Nat) (acc : State × List (Nat × Reason)) (a : Nat) :
    AllK (fun ac n => ac = a → c.nonce a ≤ n) (maintainAcct c recost results height acc a).1.pend
      ∧ AllK (fun ac n => ac = a → c.nonce a ≤ n)
          (maintainAcct c recost results height acc a).1.park := by
  unfold maintainAcct
  simp only
  obtain ⟨h1, h2, h3⟩ := maintainPrep_fresh c recost results height acc.1 a
  exact maintainMove_allK c _ a _ h1 h2 h3

theorem foldl_maintainAcct_allK {S : Nat → Nat → Prop} (c : Chain) (recost : Bool)
    (results : List (Nat × Nat)) (height : Nat) (order : List Nat)
    (acc : State × List (Nat × Reason)) (hp : AllK S acc.1.pend) (hk : AllK S acc.1.park) :
    AllK S (order.foldl (maintainAcct c recost results height) acc).1.pend
      ∧ AllK S (order.foldl (maintainAcct c recost results height) acc).1.park := by
  induction order generalizing acc with
  | nil => exact ⟨hp, hk⟩
  | cons a r ih =>
    obtain ⟨h1, h2⟩ := maintainAcct_allK (S := S) c recost results height acc a hp hk
    exact ih _ h1 h2

theorem foldl_maintainAcct_fresh (c : Chain) (recost : Bool)
    (results : List (Nat × Nat)) (height : Nat) (order : List Nat)
    (acc : State × List (Nat × Reason)) (a : Nat) (ha : a ∈ order) :
    AllK (fun ac n => ac = a → c.nonce a ≤ n)
        (order.foldl (maintainAcct c recost results height) acc).1.pend
      ∧ AllK (fun ac n => ac = a → c.nonce a ≤ n)
        (order.foldl (maintainAcct c recost results height) acc).1.park := by
  induction order generalizing acc with
  | nil => cases ha
  | cons x r ih =>
    simp only [List.foldl_cons]
    by_cases hx : a = x
    · subst hx
      obtain ⟨h1, h2⟩ := maintainAcct_fresh c recost results height acc a
      exact foldl_maintainAcct_allK c recost results height r _ h1 h2
    · rcases List.mem_cons.mp ha with h | h
      · exact absurd h hx
      · exact ih _ h

/-- After `run_maintenance`: for every processed account nothing below the chain nonce is left. -/
theorem maintain_fresh (s : State) (c : Chain) (recost : Bool) (results : List (Nat × Nat))
    (height : Nat) (order : List Nat) (a : Nat) (ha : a ∈ order) :
    ∀ t ∈ (maintain s c recost results height order).pend
            ++ (maintain s c recost results height order).park,
      t.acct = a → c.nonce a ≤ t.nonce := by
  unfold maintain
  simp only
  generalize hacc : List.foldl (maintainAcct c recost results height) (s, []) order = acc
  have h1 := foldl_maintainAcct_fresh c recost results height order (s, []) a ha
  rw [hacc] at h1
  have h2 : SamePool acc.1
      (List.foldl (fun s (e : Nat × Reason) => cacheAdd (untrack s e.1) e.1 e.2) acc.1 acc.2) :=
    foldl_samePool _ (fun s (e : Nat × Reason) =>
      (untrack_samePool s e.1).trans (cacheAdd_samePool _ _ _)) _ _
  obtain ⟨_, _, _, _, _, _, _, e8, e9, _⟩ := resultsAdd_sameCore
    (List.foldl (fun s (e : Nat × Reason) => cacheAdd (untrack s e.1) e.1 e.2) acc.1 acc.2) results height
  intro t ht
  rw [e8, e9, h2.1, h2.2.1] at ht
  rcases List.mem_append.mp ht with h | h
  · exact h1.1 t h
  · exact h1.2 t h

end Astria.Mempool
