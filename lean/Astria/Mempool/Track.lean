import Astria.Mempool.Steps
/-
  "Exactly one place": the tracked set `contained_txs` is exactly the set of ids held in the
  ready and parked containers, and no id is held twice.  Stated with occurrence counts so that
  moving transactions between containers is plain arithmetic.

  `Track s extra missing`: `extra` are ids in flight (taken out of a container, not yet re-added
  or un-tracked), `missing` are ids already put into the ready container but not yet tracked
  (`insert` tracks the new id last).
-/
namespace Astria.Mempool

/-- How often id `i` occurs in a container. -/
def idc (q : List Tx) (i : Nat) : Nat := q.countP (fun t => t.id == i)

theorem idc_oins (t : Tx) (q : List Tx) (i : Nat) :
    idc (oins t q) i = idc q i + (if t.id = i then 1 else 0) := by
  unfold idc
  rw [(oins_perm t q).countP_eq, List.countP_cons]
  simp

theorem idc_filter_split (q : List Tx) (p : Tx → Bool) (i : Nat) :
    idc q i = idc (q.filter p) i + idc (q.filter (fun t => !p t)) i := by
  unfold idc
  exact List.countP_eq_countP_filter_add q _ p

theorem idc_map (q : List Tx) (f : Tx → Tx) (hf : ∀ t, (f t).id = t.id) (i : Nat) :
    idc (q.map f) i = idc q i := by
  unfold idc
  rw [List.countP_map]
  apply List.countP_congr
  intro x _
  simp [hf]

theorem idc_recost (c : Chain) (a : Nat) (recost : Bool) (q : List Tx) (i : Nat) :
    idc (if recost then recostAcct c a q else q) i = idc q i := by
  split
  · exact idc_map q _ (fun t => (recostAcct_key c a t).2.2) i
  · rfl

theorem count_map_id (q : List Tx) (i : Nat) : (q.map (·.id)).count i = idc q i := by
  unfold idc
  rw [List.count_eq_countP, List.countP_map]
  rfl

theorem idc_pos_iff {q : List Tx} {i : Nat} : 0 < idc q i ↔ ∃ t ∈ q, t.id = i := by
  unfold idc
  rw [List.countP_pos_iff]
  simp

/-- `(acctQ a q).filter g` is the part of `q` a filter on (account = a ∧ g) selects. -/
theorem acctQ_filter_eq (a : Nat) (g : Tx → Bool) (q : List Tx) :
    (acctQ a q).filter g = q.filter (fun t => t.acct == a && g t) := by
  simp [acctQ, List.filter_filter, Bool.and_comm]

structure Track (s : State) (extra missing : List Nat) : Prop where
  bal : ∀ i, s.contained.count i + missing.count i
          = idc s.pend i + idc s.park i + extra.count i
  uniq : ∀ i, idc s.pend i + idc s.park i + extra.count i ≤ 1
  miss : ∀ i, missing.count i ≤ idc s.pend i

theorem untrack_count (s : State) (j i : Nat) :
    (untrack s j).contained.count i = if i = j then 0 else s.contained.count i := by
  unfold untrack
  simp only
  split
  · rename_i h; subst h
    rw [List.count_eq_zero]; simp
  · rename_i h
    rw [List.count_eq_countP, List.count_eq_countP, List.countP_filter]
    apply List.countP_congr
    intro x _
    simp
    intro hx; subst hx; exact h

theorem cacheAdd_track {s : State} {extra missing : List Nat} (i : Nat) (r : Reason)
    (h : Track s extra missing) : Track (cacheAdd s i r) extra missing := by
  obtain ⟨_, _, h3, _, _, h6, h7, _⟩ := cacheAdd_accepted s i r
  exact ⟨by rw [h3, h6, h7]; exact h.bal, by rw [h6, h7]; exact h.uniq, by rw [h6]; exact h.miss⟩

/-- Un-tracking an id that is in flight. -/
theorem untrack_track {s : State} {j : Nat} {extra missing : List Nat}
    (h : Track s (j :: extra) missing) : Track (untrack s j) extra missing := by
  have hu := h.uniq j
  have hb := h.bal j
  have hm := h.miss j
  simp only [List.count_cons_self] at hu hb
  refine ⟨fun i => ?_, fun i => ?_, h.miss⟩
  · rw [untrack_count]
    show _ = idc s.pend i + idc s.park i + extra.count i
    have := h.bal i
    by_cases hij : i = j
    · subst hij; simp; omega
    · have hji : ¬ j = i := fun e => hij e.symm
      simp [hij, List.count_cons, hji] at this ⊢; exact this
  · have := h.uniq i
    show idc s.pend i + idc s.park i + extra.count i ≤ 1
    simp only [List.count_cons] at this
    omega

theorem failMove_track {s : State} {j : Nat} {extra missing : List Nat} (m : Bool)
    (h : Track s (j :: extra) missing) : Track (failMove s j m) extra missing := by
  unfold failMove
  simp only
  split
  · have := untrack_track h
    exact ⟨this.bal, this.uniq, this.miss⟩
  · exact cacheAdd_track _ _ (untrack_track h)

theorem promoteAll_track (proms : List Tx) (cur : Nat) (bal : Bal) (m : Bool) (s : State)
    (extra missing : List Nat) (h : Track s (proms.map (·.id) ++ extra) missing) :
    Track (promoteAll s proms cur bal m) extra missing := by
  unfold promoteAll
  induction proms generalizing s with
  | nil => simpa using h
  | cons p r ih =>
    simp only [List.foldl_cons]
    simp only [List.map_cons, List.cons_append] at h
    split
    · rename_i q hq
      obtain ⟨rfl, _⟩ := pendAdd_ok hq
      apply ih
      refine ⟨fun i => ?_, fun i => ?_, fun i => ?_⟩
      · have := h.bal i
        show s.contained.count i + missing.count i = idc (oins p s.pend) i + idc s.park i + _
        rw [idc_oins]
        simp only [List.count_cons] at this
        by_cases hpi : p.id = i <;> simp [hpi] at this ⊢ <;> omega
      · have := h.uniq i
        show idc (oins p s.pend) i + idc s.park i + _ ≤ 1
        rw [idc_oins]
        simp only [List.count_cons] at this
        by_cases hpi : p.id = i <;> simp [hpi] at this ⊢ <;> omega
      · have := h.miss i
        show missing.count i ≤ idc (oins p s.pend) i
        rw [idc_oins]; omega
    · exact ih _ (failMove_track m h)

theorem demoteAll_track (dems : List Tx) (cur : Nat) (s : State)
    (extra missing : List Nat) (h : Track s (dems.map (·.id) ++ extra) missing) :
    Track (demoteAll s dems cur) extra missing := by
  unfold demoteAll
  induction dems generalizing s with
  | nil => simpa using h
  | cons p r ih =>
    simp only [List.foldl_cons]
    simp only [List.map_cons, List.cons_append] at h
    split
    · rename_i q hq
      obtain ⟨rfl, _⟩ := parkAdd_ok hq
      apply ih
      refine ⟨fun i => ?_, fun i => ?_, h.miss⟩
      · have := h.bal i
        show s.contained.count i + missing.count i = idc s.pend i + idc (oins p s.park) i + _
        rw [idc_oins]
        simp only [List.count_cons] at this
        by_cases hpi : p.id = i <;> simp [hpi] at this ⊢ <;> omega
      · have := h.uniq i
        show idc s.pend i + idc (oins p s.park) i + _ ≤ 1
        rw [idc_oins]
        simp only [List.count_cons] at this
        by_cases hpi : p.id = i <;> simp [hpi] at this ⊢ <;> omega
    · exact ih _ (failMove_track true h)

/-- Taking transactions out of parked by a filter puts their ids in flight. -/
theorem Track.takePark {s : State} {extra missing : List Nat} (h : Track s extra missing)
    (p : Tx → Bool) :
    Track { s with park := s.park.filter (fun t => !p t) }
      ((s.park.filter p).map (·.id) ++ extra) missing := by
  refine ⟨fun i => ?_, fun i => ?_, h.miss⟩
  · have := h.bal i
    have e := idc_filter_split s.park p i
    show s.contained.count i + missing.count i
      = idc s.pend i + idc (s.park.filter (fun t => !p t)) i + _
    rw [List.count_append, count_map_id]; omega
  · have := h.uniq i
    have e := idc_filter_split s.park p i
    show idc s.pend i + idc (s.park.filter (fun t => !p t)) i + _ ≤ 1
    rw [List.count_append, count_map_id]; omega

theorem Track.takePend {s : State} {extra : List Nat} (h : Track s extra [])
    (p : Tx → Bool) :
    Track { s with pend := s.pend.filter (fun t => !p t) }
      ((s.pend.filter p).map (·.id) ++ extra) [] := by
  refine ⟨fun i => ?_, fun i => ?_, fun i => by simp⟩
  · have := h.bal i
    have e := idc_filter_split s.pend p i
    show s.contained.count i + _ = idc (s.pend.filter (fun t => !p t)) i + idc s.park i + _
    rw [List.count_append, count_map_id]; omega
  · have := h.uniq i
    have e := idc_filter_split s.pend p i
    show idc (s.pend.filter (fun t => !p t)) i + idc s.park i + _ ≤ 1
    rw [List.count_append, count_map_id]; omega

theorem promoteReady_track (s : State) (a cur : Nat) (bal : Bal) (m : Bool) (target : Nat)
    (extra missing : List Nat) (h : Track s extra missing) :
    Track (promoteReady s a cur bal m target) extra missing := by
  unfold promoteReady findPromotables
  simp only
  apply promoteAll_track
  rw [acctQ_filter_eq]
  exact h.takePark _

/-- The closing loop of `remove_tx_invalid` / `run_maintenance`: un-track every removed id and
    give it a removal reason. -/
theorem removeLoop_track (rs : List (Nat × Reason)) (s : State) (extra : List Nat)
    (h : Track s (rs.map (·.1) ++ extra) []) :
    Track (rs.foldl (fun s e => cacheAdd (untrack s e.1) e.1 e.2) s) extra [] := by
  induction rs generalizing s with
  | nil => simpa using h
  | cons e r ih =>
    simp only [List.foldl_cons]
    simp only [List.map_cons, List.cons_append] at h
    exact ih _ (cacheAdd_track _ _ (untrack_track h))

end Astria.Mempool
