/-
  Model of the app-side mempool of astria-sequencer
  (`crates/astria-sequencer/src/mempool/{mod.rs, transactions_container.rs,
  recent_execution_results.rs}`).

  Representation.  The Rust keeps two containers `HashMap<address, BTreeMap<nonce, tx>>`
  (pending, parked).  The model keeps each container as ONE list of transactions ordered by the
  key `(account, nonce)`; the per-account `BTreeMap` is the sub-list `acctQ a q` (already in nonce
  order).  Accounts whose map is empty are removed by the Rust and simply have an empty sub-list
  here.  Balances are total functions `asset → amount` (an asset missing from the Rust
  `HashMap` behaves exactly like a zero balance in every function modelled here: a non-zero cost
  fails against it, a zero cost is skipped).  A transaction's costs are an association list
  `asset ↦ amount`, walked entry by entry like the Rust `HashMap`.
  Time is a natural number (milliseconds of the paused tokio clock the harness drives).
  Nonces are unbounded naturals: the `u32::MAX` corner (`checked_add(1).expect(..)` in `insert`,
  `saturating_add` in `find_demotables`/`pending_account_nonce`) is not modelled.

  Fields of `State` marked *ghost* do not exist in the Rust; they record history that the
  theorems talk about and never influence a non-ghost field.
-/
namespace Astria.Mempool

/-- `RemovalReason` (the `String` of `FailedExecution` and the `ExecTxResult` are abstracted to a
    tag / result code). -/
inductive Reason where
  | expired
  | nonceStale
  | lowerNonce
  | failedExec (tag : Nat)
  | internal
  | included (height : Nat) (code : Nat)
  deriving DecidableEq, Repr, Inhabited

/-- `InsertionError`. -/
inductive InsErr where
  | alreadyPresent | nonceTooLow | nonceTaken | nonceGap | accountSizeLimit
  | balanceTooLow | parkedSizeLimit
  deriving DecidableEq, Repr, Inhabited

/-- Balances: asset ↦ amount. -/
def Bal := Nat → Nat

/-- `TimemarkedTransaction`: the checked transaction (id, signer, nonce, group and what
    `total_costs` needs to re-cost it), the time it was first seen and its current costs. -/
structure Tx where
  id : Nat
  acct : Nat
  nonce : Nat
  group : Nat                         -- `Group as u8`: 1 UnbundleableSudo … 4 BundleableGeneral
  seen : Nat := 0
  costs : List (Nat × Nat) := []      -- asset ↦ cost
  kind : Nat := 0                     -- which fee table entry its (single) action uses
  feeAsset : Option Nat := none
  xfer : Option (Nat × Nat) := none   -- `asset_and_amount_to_transfer`
  deriving DecidableEq, Repr, Inhabited

structure Cfg where
  parkedMax : Nat                     -- `parked_max_tx_count`
  perAcct : Nat := 15                 -- `MAX_PARKED_TXS_PER_ACCOUNT`
  ttl : Nat := 240000                 -- `TX_TTL` (ms)
  resultsMax : Nat := 100             -- `execution_results_cache_size`
  retention : Nat := 60000            -- `RETENTION_DURATION` (ms)
  cacheMax : Nat := 50000             -- `REMOVAL_CACHE_SIZE`
  /-- `true` = the code as it is since /repo commit 8c2d14f (repair of finding F13): a
      promotion/demotion that fails during maintenance records `RemovalReason::InternalError`
      like `insert` does; the driver runs the model with `true`. `false` = the pinned code, which
      only un-tracked the id (kept for the counterexample theorem). -/
  reportFailedMoves : Bool := false
  deriving DecidableEq, Repr, Inhabited

structure State where
  cfg : Cfg
  pend : List Tx := []                -- `pending`, ordered by (account, nonce)
  park : List Tx := []                -- `parked`,  ordered by (account, nonce)
  contained : List Nat := []          -- `contained_txs`
  cache : List (Nat × Reason) := []   -- `comet_bft_removal_cache.cache`
  cacheQ : List Nat := []             -- `comet_bft_removal_cache.remove_queue` (front = oldest)
  res : List (Nat × Nat × Nat) := []  -- `recent_execution_results.execution_results`: id ↦ (height, code)
  resQ : List (Nat × Nat) := []       -- `…timestamped_ids` (front = oldest): (id, time)
  now : Nat := 0
  -- ghost
  shown : Nat → Nat := fun _ => 0     -- account ↦ nonce last shown for it (insert / maintenance)
  vbal : Nat → Bal := fun _ _ => 0    -- account ↦ balances shown when its ready queue was last validated
  accepted : List Nat := []           -- ids ever accepted by `insert`
  acked : List Nat := []              -- ids the caller took out of the removal cache since they were last accepted
  dropped : List Nat := []            -- ids dropped with no reason (failed move in maintenance)
  evicted : List Nat := []            -- ids pushed out of the removal cache by its size bound

/-! ### keys, ordered insertion, per-account view -/

/-- Strict order of the container key `(account, nonce)`. -/
def klt (x y : Tx) : Bool := x.acct < y.acct || (x.acct == y.acct && x.nonce < y.nonce)

/-- `BTreeMap::insert` into the flat ordered list (the key is known to be vacant). -/
def oins (t : Tx) : List Tx → List Tx
  | [] => [t]
  | x :: xs => if klt t x then t :: x :: xs else x :: oins t xs

/-- The `BTreeMap<nonce, tx>` of account `a`. -/
def acctQ (a : Nat) (q : List Tx) : List Tx := q.filter (fun t => t.acct == a)

/-! ### costs -/

/-- `TimemarkedTransaction::deduct_costs`: entry by entry; zero costs are skipped; a cost that
    exceeds the (possibly missing = zero) balance is an error. -/
def deductE : List (Nat × Nat) → Bal → Option Bal
  | [], b => some b
  | (k, v) :: r, b =>
    if v = 0 then deductE r b
    else if b k < v then none
    else deductE r (fun j => if j = k then b k - v else b j)

/-- `try_for_each(|ttx| ttx.deduct_costs(..))` over a sequence of transactions. -/
def deductAll : List Tx → Bal → Option Bal
  | [], b => some b
  | t :: r, b =>
    match deductE t.costs b with
    | none => none
    | some b' => deductAll r b'

/-- Inner loop of `subtract_contained_costs` for one transaction (saturating). -/
def subE : List (Nat × Nat) → Bal → Bal
  | [], b => b
  | (k, v) :: r, b => subE r (fun j => if j = k then b k - v else b j)

/-- `PendingTransactionsForAccount::subtract_contained_costs`. -/
def remain : List Tx → Bal → Bal
  | [], b => b
  | t :: r, b => remain r (subE t.costs b)

/-! ### `TransactionsForAccount::add` / `TransactionsContainer::add` -/

/-- `PendingTransactionsForAccount::is_sequential_nonce_precondition_met`. -/
def seqOk (v : List Tx) (t : Tx) (cur : Nat) : Bool :=
  if t.nonce = 0 then cur == 0
  else v.any (fun x => x.nonce == t.nonce - 1) || t.nonce == cur

/-- `PendingTransactions::add` (no size limits). -/
def pendAdd (q : List Tx) (t : Tx) (cur : Nat) (bal : Bal) : Except InsErr (List Tx) :=
  let v := acctQ t.acct q
  if t.nonce < cur then .error .nonceTooLow
  else
    match v.find? (fun x => x.nonce == t.nonce) with
    | some e => .error (if e.id = t.id then .alreadyPresent else .nonceTaken)
    | none =>
      if !(seqOk v t cur) then .error .nonceGap
      else if !(deductAll (v ++ [t]) bal).isSome then .error .balanceTooLow
      else .ok (oins t q)

/-- `ParkedTransactions::add`: total limit, per-account limit, stale nonce, vacant nonce. -/
def parkAdd (cfg : Cfg) (q : List Tx) (t : Tx) (cur : Nat) : Except InsErr (List Tx) :=
  if q.length ≥ cfg.parkedMax then .error .parkedSizeLimit
  else
    let v := acctQ t.acct q
    if v.length ≥ cfg.perAcct then .error .accountSizeLimit
    else if t.nonce < cur then .error .nonceTooLow
    else
      match v.find? (fun x => x.nonce == t.nonce) with
      | some e => .error (if e.id = t.id then .alreadyPresent else .nonceTaken)
      | none => .ok (oins t q)

/-! ### promotion / demotion -/

/-- The loop of `ParkedTransactionsForAccount::find_promotables`: returns `split_at`. -/
def promoSplit : List Tx → Nat → Bal → Nat → Nat
  | [], _, _, s => s
  | t :: r, target, b, s =>
    if t.nonce ≠ target then s
    else
      match deductE t.costs b with
      | none => s
      | some b' => promoSplit r (target + 1) b' (target + 1)

/-- `ParkedTransactions::find_promotables`: (promoted in nonce order, remaining container). -/
def findPromotables (park : List Tx) (a target : Nat) (avail : Bal) : List Tx × List Tx :=
  let split := promoSplit (acctQ a park) target avail 0
  ((acctQ a park).filter (fun t => t.nonce < split),
   park.filter (fun t => !(t.acct == a && t.nonce < split)))

/-- The loop of `PendingTransactionsForAccount::find_demotables`: returns `split_at`. -/
def demoSplit : List Tx → Bal → Nat → Nat
  | [], _, s => s
  | t :: r, b, s =>
    match deductE t.costs b with
    | none => s
    | some b' => demoSplit r b' (t.nonce + 1)

/-- `PendingTransactions::find_demotables`: (demoted in nonce order, remaining container). -/
def findDemotables (pend : List Tx) (a : Nat) (bal : Bal) : List Tx × List Tx :=
  let split := demoSplit (acctQ a pend) bal 0
  ((acctQ a pend).filter (fun t => split ≤ t.nonce),
   pend.filter (fun t => !(t.acct == a && split ≤ t.nonce)))

/-- `PendingTransactions::pending_nonce`. -/
def pendingNonce (pend : List Tx) (a : Nat) : Option Nat :=
  ((acctQ a pend).getLast?).map (fun t => t.nonce + 1)

/-! ### removal -/

/-- `TransactionsContainer::remove`: by (account, nonce); that nonce and all higher ones. -/
def removeFrom (q : List Tx) (a n : Nat) : Option (List Tx × List Nat) :=
  if (acctQ a q).any (fun t => t.nonce == n) then
    some (q.filter (fun t => !(t.acct == a && n ≤ t.nonce)),
          ((acctQ a q).filter (fun t => n ≤ t.nonce)).map (·.id))
  else none

/-- `TransactionsContainer::clear_account`. -/
def clearAccount (q : List Tx) (a : Nat) : List Tx × List Nat :=
  (q.filter (fun t => !(t.acct == a)), (acctQ a q).map (·.id))

/-- `RemovalCache::add`. -/
def cacheAdd (s : State) (id : Nat) (r : Reason) : State :=
  if s.cache.any (fun e => e.1 == id) then s
  else
    let s :=
      if s.cacheQ.length = s.cfg.cacheMax then
        match s.cacheQ with
        | [] => s
        | old :: rest =>
          { s with cacheQ := rest, cache := s.cache.filter (fun e => e.1 != old),
                   evicted := old :: s.evicted }
      else s
    { s with cacheQ := s.cacheQ ++ [id], cache := (id, r) :: s.cache }

def untrack (s : State) (id : Nat) : State :=
  { s with contained := s.contained.filter (fun i => i != id) }

def track (s : State) (id : Nat) : State :=
  if s.contained.contains id then s else { s with contained := id :: s.contained }

/-- `MempoolInner::remove_tx_invalid` (the Rust looks the transaction up by its signer and nonce). -/
def removeInvalid (s : State) (a n id : Nat) (reason : Reason) : State :=
  let found : Option (List Tx × List Tx × List Nat) :=
    match removeFrom s.pend a n with
    | some (pend', ids) =>
      let c := clearAccount s.park a
      some (pend', c.1, ids ++ c.2)
    | none =>
      match removeFrom s.park a n with
      | some (park', ids) => some (s.pend, park', ids)
      | none => none
  match found with
  | none => s
  | some (pend', park', ids) =>
    let s := cacheAdd { s with pend := pend', park := park' } id reason
    ids.foldl (fun s i => cacheAdd (untrack s i) i .lowerNonce) s

/-! ### maintenance pieces -/

/-- `TransactionsContainer::clean_account_stale_expired`: (container, removed with reasons). -/
def cleanAcct (q : List Tx) (a cur : Nat) (results : List (Nat × Nat)) (height now ttl : Nat) :
    List Tx × List (Nat × Reason) :=
  let v := acctQ a q
  let stale := (v.filter (fun t => t.nonce < cur)).map (fun t =>
    (t.id, match results.lookup t.id with
           | some code => Reason.included height code
           | none => Reason.nonceStale))
  let keepLive := q.filter (fun t => !(t.acct == a && t.nonce < cur))
  match v.filter (fun t => cur ≤ t.nonce) with
  | [] => (keepLive, stale)
  | f :: rest =>
    if now - f.seen > ttl then
      (q.filter (fun t => !(t.acct == a)),
       stale ++ (f.id, Reason.expired) :: rest.map (fun t => (t.id, Reason.lowerNonce)))
    else (keepLive, stale)

/-- Chain state handed to `run_maintenance` (what it reads of it). -/
structure Chain where
  nonce : Nat → Nat
  bal : Nat → Bal
  fee : Nat → Option Nat      -- fee table: action kind ↦ base fee, `none` = action disabled
  allowed : Nat → Bool        -- allowed fee assets

/-- `HashMap` of the fee entry merged with the transferred amount (`total_costs`). -/
def mergeCost (fee : List (Nat × Nat)) (x : Option (Nat × Nat)) : List (Nat × Nat) :=
  match x with
  | none => fee
  | some (asset, amt) =>
    match fee with
    | [(f, base)] => if f = asset then [(f, base + amt)] else [(f, base), (asset, amt)]
    | _ => fee ++ [(asset, amt)]

/-- `TimemarkedTransaction::recalculate_costs`: on any error the old costs stay. -/
def recostTx (c : Chain) (t : Tx) : Tx :=
  match c.fee t.kind with
  | none => t
  | some base =>
    match t.feeAsset with
    | none => { t with costs := mergeCost [] t.xfer }
    | some f => if c.allowed f then { t with costs := mergeCost [(f, base)] t.xfer } else t

/-- `TransactionsContainer::recost_transactions`. -/
def recostAcct (c : Chain) (a : Nat) (q : List Tx) : List Tx :=
  q.map (fun t => if t.acct == a then recostTx c t else t)

/-- The promotion loops (`insert`: a failure records `InternalError`; `run_maintenance`: a
    failure only un-tracks the id, unless `reportFailedMoves`). -/
def failMove (s : State) (id : Nat) (inMaint : Bool) : State :=
  let s := untrack s id
  if inMaint && !s.cfg.reportFailedMoves then { s with dropped := id :: s.dropped }
  else cacheAdd s id .internal

def promoteAll (s : State) (proms : List Tx) (cur : Nat) (bal : Bal) (inMaint : Bool) : State :=
  proms.foldl (fun s p =>
    match pendAdd s.pend p cur bal with
    | .ok q => { s with pend := q }
    | .error _ => failMove s p.id inMaint) s

def demoteAll (s : State) (dems : List Tx) (cur : Nat) : State :=
  dems.foldl (fun s d =>
    match parkAdd s.cfg s.park d cur with
    | .ok q => { s with park := q }
    | .error _ => failMove s d.id true) s

/-- Take what can be promoted out of parked (contiguous nonces from `target`, covered by what the
    ready queue leaves of `bal`) and add it to the ready queue. -/
def promoteReady (s : State) (a cur : Nat) (bal : Bal) (inMaint : Bool) (target : Nat) : State :=
  let pr := findPromotables s.park a target (remain (acctQ a s.pend) bal)
  promoteAll { s with park := pr.2 } pr.1 cur bal inMaint

/-! ### `MempoolInner::insert` -/

inductive Out where
  | pending | parked | err (e : InsErr) | done
  deriving DecidableEq, Repr, Inhabited

/-- ghost: the account nonce shown by this call. -/
def noteShown (s : State) (a cur : Nat) : State :=
  { s with shown := fun x => if x = a then cur else s.shown x }

/-- ghost: the id was accepted (again). -/
def noteAccepted (s : State) (id : Nat) : State :=
  { s with accepted := id :: s.accepted, acked := s.acked.filter (fun i => i != id) }

/-- ghost: the balances against which the account's ready queue was just validated. -/
def noteBal (s : State) (a : Nat) (bal : Bal) : State :=
  { s with vbal := fun x => if x = a then bal else s.vbal x }

def insertTx (s0 : State) (t0 : Tx) (cur : Nat) (bal : Bal) : State × Out :=
  let t := { t0 with seen := s0.now }
  let s := noteShown s0 t.acct cur
  match pendAdd s.pend t cur bal with
  | .error .nonceGap | .error .balanceTooLow =>
    match parkAdd s.cfg s.park t cur with
    | .ok park' => (track (noteAccepted { s with park := park' } t.id) t.id, .parked)
    | .error e => (s, .err e)
  | .error e => (s, .err e)
  | .ok pend' =>
    let s := noteBal (noteAccepted { s with pend := pend' } t.id) t.acct bal
    (track (promoteReady s t.acct cur bal false (t.nonce + 1)) t.id, .pending)

/-! ### `MempoolInner::run_maintenance` -/

/-- First half of the body of the `for address_bytes in &addresses` loop: clean stale/expired,
    re-cost, split off what the balances no longer cover.
    Returns (state, demoted transactions, removed ids with reasons). -/
def maintainPrep (c : Chain) (recost : Bool) (results : List (Nat × Nat)) (height : Nat)
    (s : State) (a : Nat) : State × List Tx × List (Nat × Reason) :=
  let cp := cleanAcct s.pend a (c.nonce a) results height s.now s.cfg.ttl
  let ck := cleanAcct s.park a (c.nonce a) results height s.now s.cfg.ttl
  let dm := findDemotables (if recost then recostAcct c a cp.1 else cp.1) a (c.bal a)
  ({ s with pend := dm.2, park := if recost then recostAcct c a ck.1 else ck.1,
            shown := fun x => if x = a then c.nonce a else s.shown x,
            vbal := fun x => if x = a then c.bal a else s.vbal x },
   dm.1, cp.2 ++ ck.2)

/-- Second half: demote what was split off, or (nothing to demote) promote from parked. -/
def maintainMove (c : Chain) (s : State) (a : Nat) (dems : List Tx) : State :=
  if dems.isEmpty then
    promoteReady s a (c.nonce a) (c.bal a) true ((pendingNonce s.pend a).getD (c.nonce a))
  else demoteAll s dems (c.nonce a)

/-- The body of the `for address_bytes in &addresses` loop. -/
def maintainAcct (c : Chain) (recost : Bool) (results : List (Nat × Nat)) (height : Nat)
    (acc : State × List (Nat × Reason)) (a : Nat) : State × List (Nat × Reason) :=
  let p := maintainPrep c recost results height acc.1 a
  (maintainMove c p.1 a p.2.1, acc.2 ++ p.2.2)

/-- `RecentExecutionResults::clean_stale`. -/
def resultsClean (s : State) : State :=
  let stale := s.resQ.takeWhile (fun e => s.now - e.2 > s.cfg.retention)
  { s with resQ := s.resQ.drop stale.length,
           res := s.res.filter (fun e => !(stale.any (fun x => x.1 == e.1))) }

/-- One iteration of the loop in `RecentExecutionResults::add`; `none` = the early `return`. -/
def resultsAddOne (s : State) (id code height : Nat) : Option State :=
  if s.cfg.resultsMax = 0 then none
  else
    let k := if s.resQ.length ≥ s.cfg.resultsMax then s.resQ.length + 1 - s.cfg.resultsMax else 0
    let popped := s.resQ.take k
    let s := { s with resQ := s.resQ.drop k,
                      res := s.res.filter (fun e => !(popped.any (fun x => x.1 == e.1))) }
    if s.res.any (fun e => e.1 == id) then
      some { s with res := s.res.map (fun e => if e.1 == id then (id, height, code) else e) }
    else
      some { s with res := (id, height, code) :: s.res, resQ := s.resQ ++ [(id, s.now)] }

def resultsAdd (s : State) (batch : List (Nat × Nat)) (height : Nat) : State :=
  let rec go (s : State) : List (Nat × Nat) → State
    | [] => s
    | (id, code) :: r =>
      match resultsAddOne s id code height with
      | none => s
      | some s' => go s' r
  go (resultsClean s) batch

/-- `run_maintenance`; `order` is the iteration order of the address `HashSet`. -/
def maintain (s0 : State) (c : Chain) (recost : Bool) (results : List (Nat × Nat)) (height : Nat)
    (order : List Nat) : State :=
  let acc := order.foldl (maintainAcct c recost results height) (s0, [])
  let s := acc.2.foldl (fun s e => cacheAdd (untrack s e.1) e.1 e.2) acc.1
  resultsAdd s results height

/-! ### operations -/

inductive Op where
  | insert (t : Tx) (cur : Nat) (bal : Bal)
  | removeInvalid (acct nonce id : Nat) (reason : Reason)
  | uncache (id : Nat)
  | maintain (c : Chain) (recost : Bool) (results : List (Nat × Nat)) (height : Nat)
      (order : List Nat)
  | advance (dt : Nat)

def step (s : State) : Op → State × Out
  | .insert t cur bal => insertTx s t cur bal
  | .removeInvalid a n id r => (removeInvalid s a n id r, .done)
  | .uncache id =>
    ({ s with cache := s.cache.filter (fun e => e.1 != id),
              acked := if s.cache.any (fun e => e.1 == id) then id :: s.acked else s.acked }, .done)
  | .maintain c recost results height order => (maintain s c recost results height order, .done)
  | .advance dt => ({ s with now := s.now + dt }, .done)

def run (s : State) : List Op → State
  | [] => s
  | op :: r => run (step s op).1 r

/-- The accounts `run_maintenance` iterates over. -/
def addresses (s : State) : List Nat := ((s.pend ++ s.park).map (·.acct)).eraseDups

/-! ### queries -/

/-- Position of a queue entry in the block-building order (`TransactionPriority`, reversed):
    higher group first, then smaller nonce difference, then earlier first-seen time
    (ties beyond that are unspecified in the Rust — `sort_unstable`; the model breaks them by id). -/
def prioLe (x y : Tx × Nat) : Bool :=
  x.1.group > y.1.group ||
  (x.1.group == y.1.group &&
    (x.2 < y.2 ||
     (x.2 == y.2 &&
       (x.1.seen < y.1.seen || (x.1.seen == y.1.seen && x.1.id ≤ y.1.id)))))

def insSorted (x : Tx × Nat) : List (Tx × Nat) → List (Tx × Nat)
  | [] => [x]
  | y :: ys => if prioLe x y then x :: y :: ys else y :: insSorted x ys

def insSort : List (Tx × Nat) → List (Tx × Nat)
  | [] => []
  | x :: xs => insSorted x (insSort xs)

/-- `current_account_nonce()` of the account's pending map: its lowest nonce. -/
def firstNonce (pend : List Tx) (a : Nat) : Option Nat := ((acctQ a pend).head?).map (·.nonce)

/-- Queue entries with their nonce difference (`TimemarkedTransaction::priority`; an entry whose
    nonce is below the account's lowest pending nonce would be skipped — impossible). -/
def queueEntries (pend : List Tx) : List (Tx × Nat) :=
  pend.filterMap (fun t =>
    match firstNonce pend t.acct with
    | none => none
    | some f => if t.nonce < f then none else some (t, t.nonce - f))

/-- `builder_queue`. -/
def builderQueue (s : State) : List Tx := (insSort (queueEntries s.pend)).map (·.1)

inductive Status where
  | pending | parked | removed (r : Reason)
  deriving DecidableEq, Repr

/-- `transaction_status`. -/
def status (s : State) (id : Nat) : Option Status :=
  if s.contained.contains id then
    if s.pend.any (fun t => t.id == id) then some .pending else some .parked
  else
    match s.res.lookup id with
    | some (h, c) => some (.removed (.included h c))
    | none => (s.cache.lookup id).map .removed

def len (s : State) : Nat := s.contained.length

def init (cfg : Cfg) : State := { cfg := cfg }

end Astria.Mempool
