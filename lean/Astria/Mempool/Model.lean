/- Model for area `mempool` (stub). -/
namespace Astria.Mempool

end Astria.Mempool
