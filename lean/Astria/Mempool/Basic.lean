import Astria.Mempool.Model
/-
  Helper lemmas about the data structures of the mempool model: the ordered flat containers
  (`oins`, `acctQ`, filters) and the cost arithmetic (`deductE`, `deductAll`, `subE`, `remain`).
-/
namespace Astria.Mempool

/-! ### the key order -/

theorem klt_iff (x y : Tx) :
    klt x y = true ↔ x.acct < y.acct ∨ (x.acct = y.acct ∧ x.nonce < y.nonce) := by
  simp [klt]

/-- A container is well-formed when it is strictly ordered by `(account, nonce)`
    (in particular no key occurs twice). -/
def Sorted (q : List Tx) : Prop := q.Pairwise (fun x y => klt x y = true)

theorem Sorted.filter {q : List Tx} (p : Tx → Bool) (h : Sorted q) : Sorted (q.filter p) :=
  List.Pairwise.filter p h

theorem mem_oins {t x : Tx} {q : List Tx} : x ∈ oins t q ↔ x = t ∨ x ∈ q := by
  induction q with
  | nil => simp [oins]
  | cons y ys ih =>
    unfold oins
    split
    · simp
    · simp [ih]; constructor
      · rintro (h | h | h) <;> simp [h]
      · rintro (h | h | h) <;> simp [h]

theorem oins_perm (t : Tx) (q : List Tx) : (oins t q).Perm (t :: q) := by
  induction q with
  | nil => simp [oins]
  | cons y ys ih =>
    unfold oins
    split
    · exact List.Perm.refl _
    · exact (List.Perm.cons y ih).trans (List.Perm.swap t y ys)

theorem length_oins (t : Tx) (q : List Tx) : (oins t q).length = q.length + 1 := by
  simpa using (oins_perm t q).length_eq

theorem sorted_oins {t : Tx} {q : List Tx} (h : Sorted q)
    (vac : ∀ x ∈ q, ¬(x.acct = t.acct ∧ x.nonce = t.nonce)) : Sorted (oins t q) := by
  induction q with
  | nil => simp [oins, Sorted]
  | cons y ys ih =>
    have hy : ∀ z ∈ ys, klt y z = true := (List.pairwise_cons.mp h).1
    have hys : Sorted ys := (List.pairwise_cons.mp h).2
    unfold oins
    split
    · rename_i hty
      refine List.pairwise_cons.mpr ⟨?_, h⟩
      intro z hz
      rcases List.mem_cons.mp hz with rfl | hz
      · exact hty
      · have := hy z hz
        rw [klt_iff] at *
        omega
    · rename_i hty
      refine List.pairwise_cons.mpr ⟨?_, ih hys (fun x hx => vac x (List.mem_cons_of_mem _ hx))⟩
      intro z hz
      rcases mem_oins.mp hz with rfl | hz
      · have := vac y (List.mem_cons_self ..)
        rw [klt_iff] at *
        omega
      · exact hy z hz

/-! ### the per-account view -/

theorem mem_acctQ {a : Nat} {x : Tx} {q : List Tx} : x ∈ acctQ a q ↔ x ∈ q ∧ x.acct = a := by
  simp [acctQ]

theorem acctQ_filter (a : Nat) (p : Tx → Bool) (q : List Tx) :
    acctQ a (q.filter p) = (acctQ a q).filter p := by
  simp [acctQ, List.filter_filter, Bool.and_comm]

theorem acctQ_oins_perm (a : Nat) (t : Tx) (q : List Tx) :
    (acctQ a (oins t q)).Perm (if t.acct = a then t :: acctQ a q else acctQ a q) := by
  have h := (oins_perm t q).filter (fun x => x.acct == a)
  by_cases ha : t.acct = a
  · simpa [acctQ, ha] using h
  · simpa [acctQ, ha] using h

theorem mem_acctQ_oins {a : Nat} {t x : Tx} {q : List Tx} :
    x ∈ acctQ a (oins t q) ↔ (x = t ∧ t.acct = a) ∨ x ∈ acctQ a q := by
  simp only [mem_acctQ, mem_oins]
  constructor
  · rintro ⟨rfl | h, ha⟩
    · exact Or.inl ⟨rfl, ha⟩
    · exact Or.inr ⟨h, ha⟩
  · rintro (⟨rfl, ha⟩ | ⟨h, ha⟩)
    · exact ⟨Or.inl rfl, ha⟩
    · exact ⟨Or.inr h, ha⟩

theorem length_acctQ_oins (a : Nat) (t : Tx) (q : List Tx) :
    (acctQ a (oins t q)).length = (acctQ a q).length + (if t.acct = a then 1 else 0) := by
  have h := (acctQ_oins_perm a t q).length_eq
  by_cases ha : t.acct = a <;> simp [ha] at h ⊢ <;> exact h

/-! ### costs -/

/-- Total cost a list of cost entries puts on asset `k`. -/
def tot : List (Nat × Nat) → Nat → Nat
  | [], _ => 0
  | (k', v) :: r, k => (if k' = k then v else 0) + tot r k

/-- Total cost of a list of transactions on asset `k`. -/
def costSum : List Tx → Nat → Nat
  | [], _ => 0
  | t :: r, k => tot t.costs k + costSum r k

theorem deductE_some {es : List (Nat × Nat)} {b b' : Bal} (h : deductE es b = some b') :
    ∀ k, tot es k ≤ b k ∧ b' k = b k - tot es k := by
  induction es generalizing b with
  | nil => simp [deductE] at h; subst h; intro k; simp [tot]
  | cons e r ih =>
    obtain ⟨k', v⟩ := e
    unfold deductE at h
    split at h
    · rename_i hv
      intro k
      have := ih h k
      simp [tot, hv]; exact this
    · split at h
      · simp at h
      · rename_i hv hlt
        intro k
        have := ih h k
        simp only [tot]
        by_cases hk : k' = k
        · subst hk; simp at this ⊢; omega
        · have hk' : ¬ k = k' := fun e => hk e.symm
          simp [hk, hk'] at this ⊢; exact this

theorem deductE_of_le {es : List (Nat × Nat)} {b : Bal} (h : ∀ k, tot es k ≤ b k) :
    ∃ b', deductE es b = some b' := by
  induction es generalizing b with
  | nil => exact ⟨b, rfl⟩
  | cons e r ih =>
    obtain ⟨k', v⟩ := e
    unfold deductE
    split
    · rename_i hv
      apply ih; intro k; have := h k; simp [tot, hv] at this; exact this
    · split
      · rename_i hv hlt
        have := h k'; simp [tot] at this; omega
      · rename_i hv hlt
        apply ih; intro k
        have := h k; have h' := h k'
        simp only [tot] at this h'
        by_cases hk : k' = k
        · subst hk; simp at this h' ⊢; omega
        · have hk' : ¬ k = k' := fun e => hk e.symm
          simp [hk, hk'] at this ⊢; exact this

theorem deductAll_some {l : List Tx} {b b' : Bal} (h : deductAll l b = some b') :
    ∀ k, costSum l k ≤ b k ∧ b' k = b k - costSum l k := by
  induction l generalizing b with
  | nil => simp [deductAll] at h; subst h; intro k; simp [costSum]
  | cons t r ih =>
    unfold deductAll at h
    split at h
    · simp at h
    · rename_i b1 h1
      intro k
      have e1 := deductE_some h1 k
      have e2 := ih h k
      simp only [costSum]; omega

theorem deductAll_of_le {l : List Tx} {b : Bal} (h : ∀ k, costSum l k ≤ b k) :
    ∃ b', deductAll l b = some b' := by
  induction l generalizing b with
  | nil => exact ⟨b, rfl⟩
  | cons t r ih =>
    unfold deductAll
    obtain ⟨b1, h1⟩ := deductE_of_le (es := t.costs) (b := b)
      (fun k => by have := h k; simp only [costSum] at this; omega)
    rw [h1]
    apply ih
    intro k
    have := h k
    have e := (deductE_some h1 k).2
    simp only [costSum] at this; omega

/-- The balance check of the ready queue is exactly: the costs are jointly covered. -/
theorem deductAll_isSome_iff (l : List Tx) (b : Bal) :
    (deductAll l b).isSome = true ↔ ∀ k, costSum l k ≤ b k := by
  constructor
  · intro h
    obtain ⟨b', hb⟩ := Option.isSome_iff_exists.mp h
    exact fun k => (deductAll_some hb k).1
  · intro h
    obtain ⟨b', hb⟩ := deductAll_of_le h
    simp [hb]

theorem costSum_append (l₁ l₂ : List Tx) (k : Nat) :
    costSum (l₁ ++ l₂) k = costSum l₁ k + costSum l₂ k := by
  induction l₁ with
  | nil => simp [costSum]
  | cons t r ih => simp [costSum, ih]; omega

theorem costSum_perm {l₁ l₂ : List Tx} (h : l₁.Perm l₂) (k : Nat) : costSum l₁ k = costSum l₂ k := by
  induction h with
  | nil => rfl
  | cons x _ ih => simp [costSum, ih]
  | swap x y l => simp [costSum]; omega
  | trans _ _ ih₁ ih₂ => exact ih₁.trans ih₂

theorem costSum_filter_le (p : Tx → Bool) (l : List Tx) (k : Nat) :
    costSum (l.filter p) k ≤ costSum l k := by
  induction l with
  | nil => simp [costSum]
  | cons t r ih =>
    by_cases hp : p t = true
    · simp [hp, costSum]; exact ih
    · simp [hp, costSum]; omega

theorem costSum_acctQ_oins (a : Nat) (t : Tx) (q : List Tx) (k : Nat) :
    costSum (acctQ a (oins t q)) k
      = costSum (acctQ a q) k + (if t.acct = a then tot t.costs k else 0) := by
  rw [costSum_perm (acctQ_oins_perm a t q) k]
  by_cases ha : t.acct = a <;> simp [ha, costSum]; omega

/-- `subtract_contained_costs` leaves `balance - costs` (saturating). -/
theorem subE_eq (es : List (Nat × Nat)) (b : Bal) (k : Nat) : subE es b k = b k - tot es k := by
  induction es generalizing b with
  | nil => simp [subE, tot]
  | cons e r ih =>
    obtain ⟨k', v⟩ := e
    have e := ih (fun j => if j = k' then b k' - v else b j)
    simp only [subE, tot]
    rw [e]
    by_cases hk : k' = k
    · subst hk; simp; omega
    · have hk' : ¬ k = k' := fun e => hk e.symm
      simp [hk, hk']

theorem remain_eq (l : List Tx) (b : Bal) (k : Nat) : remain l b k = b k - costSum l k := by
  induction l generalizing b with
  | nil => simp [remain, costSum]
  | cons t r ih => simp only [remain, costSum, ih, subE_eq]; omega

end Astria.Mempool
