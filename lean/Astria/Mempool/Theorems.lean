import Astria.Mempool.TrackOps
import Astria.Mempool.Afford
import Astria.Mempool.Fresh
import Astria.Mempool.Queue
/-
  Main theorems of the mempool model: the invariant `Inv` holds after every sequence of
  operations that respects the mempool's documented preconditions (`Valid`), and what follows
  from it.
-/
namespace Astria.Mempool

/-- The invariant. -/
structure Inv (s : State) : Prop where
  shape : Shape s          -- containers ordered by (account, nonce); parked limits; no nonce gap
  track : Track s [] []    -- tracked set = ids held, each exactly once
  afford : Afford s        -- ready costs covered by the balances last validated against
  ledger : Ledger s        -- accepted ids are accounted for

/-- The mempool's documented preconditions.
    * `insert`: the account nonce shown never decreases ("if the account `current_account_nonce`
      ever decreases, this is a logic error", transactions_container.rs), and `insert` is not
      used for an id that is currently tracked — unless the call is rejected anyway (the CheckTx
      service looks the id up first).
    * `run_maintenance`: the chain nonce of every processed account is not below the nonce shown
      before. -/
def Valid (s : State) : Op → Prop
  | .insert t cur bal =>
    s.shown t.acct ≤ cur ∧ (t.id ∉ s.contained ∨ ∃ e, (insertTx s t cur bal).2 = .err e)
  | .maintain c _ _ _ order => ∀ a ∈ order, s.shown a ≤ c.nonce a
  | _ => True

inductive ValidSeq : State → List Op → Prop
  | nil (s : State) : ValidSeq s []
  | cons {s : State} {op : Op} {ops : List Op} :
      Valid s op → ValidSeq (step s op).1 ops → ValidSeq s (op :: ops)

theorem inv_init (cfg : Cfg) (hc : 0 < cfg.cacheMax) : Inv (init cfg) := by
  refine ⟨⟨?_, ?_, ?_, ?_, ?_⟩, ⟨?_, ?_, ?_⟩, ?_, ⟨?_, ?_, ?_⟩⟩
  all_goals simp [init, Sorted, acctQ, Gap, idc, Afford, costSum, Acc, EvOk, hc]

/-! ### a rejected `insert` changes nothing but the ghost nonce -/

theorem insertTx_err {s : State} {t : Tx} {cur : Nat} {bal : Bal} {e : InsErr}
    (h : (insertTx s t cur bal).2 = .err e) : (insertTx s t cur bal).1 = noteShown s t.acct cur := by
  unfold insertTx at h ⊢
  simp only at h ⊢
  generalize pendAdd _ _ _ _ = r at h ⊢
  generalize parkAdd _ _ _ _ = r2 at h ⊢
  rcases r with e1 | q
  · cases e1 <;> first
      | rfl
      | (rcases r2 with e2 | q2
         · rfl
         · simp at h)
  · simp at h

theorem noteAccepted_acc {s : State} {i id : Nat} (h : Acc s i) (hne : i ≠ id) :
    Acc (noteAccepted s id) i := by
  unfold Acc noteAccepted at *
  rcases h with h | h | h | h | h
  · exact Or.inl h
  · exact Or.inr (Or.inl h)
  · exact Or.inr (Or.inr (Or.inl (by simp [h, hne])))
  · exact Or.inr (Or.inr (Or.inr (Or.inl h)))
  · exact Or.inr (Or.inr (Or.inr (Or.inr h)))

/-- `s'` is `s` after the ghost bookkeeping of an accepted id, followed by steps that keep
    everything accounted for, followed by tracking the id. -/
theorem ledger_accept {s s1 s2 : State} {id : Nat} (h : Ledger s)
    (h1 : ∀ i, i ≠ id → Acc s i → Acc s1 i) (ha : s1.accepted = id :: s.accepted)
    (hcfg : s1.cfg = s.cfg) (hev : EvOk s → EvOk s1) (hdr : s1.dropped = s.dropped)
    (h2 : AccLe s1 s2) : Ledger (track s2 id) := by
  have h3 := track_accLe s2 id
  refine ⟨fun i hi => ?_, h3.2.2.2.1 (h2.2.2.2.1 (hev h.ev)), fun hr => ?_⟩
  · rw [h3.1, h2.1, ha] at hi
    by_cases hid : i = id
    · subst hid; exact track_acc _ _
    · rcases List.mem_cons.mp hi with hi | hi
      · exact absurd hi hid
      · exact h3.2.2.1 i (h2.2.2.1 i (h1 i hid (h.acc i hi)))
  · rw [h3.2.1, h2.2.1, hcfg] at hr
    rw [h3.2.2.2.2 (by rw [h2.2.1, hcfg]; exact hr), h2.2.2.2.2 (by rw [hcfg]; exact hr), hdr]
    exact h.fixed hr

theorem insertTx_ledger (s : State) (t : Tx) (cur : Nat) (bal : Bal) (h : Ledger s) :
    Ledger (insertTx s t cur bal).1 := by
  have h0 : Ledger (noteShown s t.acct cur) :=
    h.of_accLe (AccLe.of_eq rfl rfl rfl rfl rfl rfl rfl rfl)
  unfold insertTx
  simp only
  split
  · split
    · rename_i park' _
      exact ledger_accept (s1 := noteAccepted { noteShown s t.acct cur with park := park' } t.id) h
        (fun i hne hi => noteAccepted_acc (s := { noteShown s t.acct cur with park := park' }) hi hne)
        rfl rfl (fun e => e) rfl (AccLe.refl _)
    · exact h0
  · split
    · rename_i park' _
      exact ledger_accept (s1 := noteAccepted { noteShown s t.acct cur with park := park' } t.id) h
        (fun i hne hi => noteAccepted_acc (s := { noteShown s t.acct cur with park := park' }) hi hne)
        rfl rfl (fun e => e) rfl (AccLe.refl _)
    · exact h0
  · exact h0
  · rename_i pend' _
    exact ledger_accept
      (s1 := noteBal (noteAccepted { noteShown s t.acct cur with pend := pend' } t.id) t.acct bal) h
      (fun i hne hi => noteAccepted_acc (s := { noteShown s t.acct cur with pend := pend' }) hi hne)
      rfl rfl (fun e => e) rfl (promoteReady_accLe _ _ _ _ _ _)

/-! ### the step theorem -/

theorem inv_step {s : State} {op : Op} (h : Inv s) (hv : Valid s op) : Inv (step s op).1 := by
  cases op with
  | insert t cur bal =>
    obtain ⟨hcur, hfresh⟩ := hv
    show Inv (insertTx s t cur bal).1
    rcases hfresh with hfresh | ⟨e, he⟩
    · exact ⟨insertTx_shape s t cur bal h.shape hcur, insertTx_track s t cur bal h.track hfresh,
        insertTx_afford s t cur bal h.afford, insertTx_ledger s t cur bal h.ledger⟩
    · rw [insertTx_err he]
      refine ⟨?_, h.track.of_eq rfl rfl rfl, h.afford.of_eq rfl rfl,
        h.ledger.of_accLe (AccLe.of_eq rfl rfl rfl rfl rfl rfl rfl rfl)⟩
      exact ⟨h.shape.pendSorted, h.shape.parkSorted, h.shape.perAcct, h.shape.total,
        h.shape.gap.mono (fun x => by
          show s.shown x ≤ if x = t.acct then cur else s.shown x
          split
          · rename_i hx; subst hx; exact hcur
          · exact Nat.le_refl _)⟩
  | removeInvalid a n id r =>
    exact ⟨removeInvalid_shape s a n id r h.shape, removeInvalid_track s a n id r h.track,
      removeInvalid_afford s a n id r h.afford, h.ledger.of_accLe (removeInvalid_accLe s a n id r)⟩
  | uncache id =>
    refine ⟨h.shape.of_eq rfl rfl rfl rfl, h.track.of_eq rfl rfl rfl, h.afford.of_eq rfl rfl, ?_⟩
    refine ⟨fun i hi => ?_, h.ledger.ev, h.ledger.fixed⟩
    have := h.ledger.acc i hi
    simp only [step, Acc] at this ⊢
    rcases this with h1 | h1 | h1 | h1 | h1
    · exact Or.inl h1
    · by_cases hid : i = id
      · subst hid
        right; right; left
        have : s.cache.any (fun e => e.1 == i) = true := by
          obtain ⟨e, he, rfl⟩ := List.mem_map.mp h1
          exact List.any_eq_true.mpr ⟨e, he, by simp⟩
        simp [this]
      · right; left
        obtain ⟨e, he, rfl⟩ := List.mem_map.mp h1
        exact List.mem_map.mpr ⟨e, List.mem_filter.mpr ⟨he, by simpa using hid⟩, rfl⟩
    · right; right; left
      split
      · exact List.mem_cons_of_mem _ h1
      · exact h1
    · exact Or.inr (Or.inr (Or.inr (Or.inl h1)))
    · exact Or.inr (Or.inr (Or.inr (Or.inr h1)))
  | maintain c recost results height order =>
    exact ⟨maintain_shape s c recost results height order h.shape hv,
      maintain_track s c recost results height order h.track,
      maintain_afford s c recost results height order h.shape hv h.afford,
      h.ledger.of_accLe (maintain_accLe s c recost results height order)⟩
  | advance dt =>
    exact ⟨h.shape.of_eq rfl rfl rfl rfl, h.track.of_eq rfl rfl rfl, h.afford.of_eq rfl rfl,
      h.ledger.of_accLe (AccLe.of_eq rfl rfl rfl rfl rfl rfl rfl rfl)⟩

theorem inv_run {s : State} {ops : List Op} (h : Inv s) (hv : ValidSeq s ops) : Inv (run s ops) := by
  induction hv with
  | nil s => exact h
  | cons hop _ ih => exact ih (inv_step h hop)

/-- The invariant holds in every reachable state. -/
theorem inv_reachable (cfg : Cfg) (hc : 0 < cfg.cacheMax) (ops : List Op)
    (hv : ValidSeq (init cfg) ops) : Inv (run (init cfg) ops) :=
  inv_run (inv_init cfg hc) hv

/-! ### consequences -/

/-- No nonce gap: every nonce between the account nonce last shown and a ready nonce is ready. -/
theorem ready_no_gap {s : State} (h : Gap s.shown s.pend) :
    ∀ t ∈ s.pend, ∀ n, s.shown t.acct ≤ n → n ≤ t.nonce →
      ∃ u ∈ s.pend, u.acct = t.acct ∧ u.nonce = n := by
  intro t ht n hlo hhi
  generalize hd : t.nonce - n = d
  induction d generalizing t with
  | zero => exact ⟨t, ht, rfl, by omega⟩
  | succ d ih =>
    rcases h t ht with hle | ⟨u, hu, hua, hun⟩
    · omega
    · obtain ⟨w, hw, hwa, hwn⟩ := ih u hu (by rw [hua]; exact hlo) (by omega) (by omega)
      exact ⟨w, hw, hwa.trans hua, hwn⟩

/-- The tracked set and the two containers: counts. -/
theorem tracked_counts {s : State} (h : Track s [] []) (i : Nat) :
    s.contained.count i = idc s.pend i + idc s.park i ∧ idc s.pend i + idc s.park i ≤ 1 := by
  have h1 := h.bal i
  have h2 := h.uniq i
  simp only [List.count_nil] at h1 h2
  omega

theorem len_eq {s : State} (h : Track s [] []) : len s = s.pend.length + s.park.length := by
  have hperm : s.contained.Perm ((s.pend ++ s.park).map (·.id)) := by
    rw [List.perm_iff_count]
    intro i
    rw [count_map_id]
    have := (tracked_counts h i).1
    unfold idc at *
    rw [List.countP_append]
    exact this
  have := hperm.length_eq
  simpa [len] using this

theorem status_pending_iff {s : State} (h : Track s [] []) (i : Nat) :
    status s i = some .pending ↔ ∃ t ∈ s.pend, t.id = i := by
  have hc := tracked_counts h i
  unfold status
  constructor
  · intro hs
    split at hs
    · split at hs
      · rename_i _ hany
        obtain ⟨t, ht, hid⟩ := List.any_eq_true.mp hany
        exact ⟨t, ht, by simpa using hid⟩
      · cases hs
    · split at hs
      · cases hs
      · cases hq : s.cache.lookup i <;> simp [hq] at hs
  · rintro ⟨t, ht, hid⟩
    have hp : 0 < idc s.pend i := idc_pos_iff.mpr ⟨t, ht, hid⟩
    have hmem : i ∈ s.contained := List.count_pos_iff.mp (by omega)
    have : s.contained.contains i = true := by simpa using hmem
    have hany : s.pend.any (fun t => t.id == i) = true :=
      List.any_eq_true.mpr ⟨t, ht, by simpa using hid⟩
    simp [hany, hmem]

theorem status_parked_iff {s : State} (h : Track s [] []) (i : Nat) :
    status s i = some .parked ↔ ∃ t ∈ s.park, t.id = i := by
  have hc := tracked_counts h i
  unfold status
  constructor
  · intro hs
    split at hs
    · rename_i hcont
      split at hs
      · cases hs
      · rename_i hany
        have hmem : i ∈ s.contained := by simpa using hcont
        have hpos : 0 < s.contained.count i := List.count_pos_iff.mpr hmem
        have hp0 : idc s.pend i = 0 := by
          unfold idc
          rw [List.countP_eq_zero]
          intro t ht hid
          exact hany (List.any_eq_true.mpr ⟨t, ht, hid⟩)
        exact idc_pos_iff.mp (by omega)
    · split at hs
      · cases hs
      · cases hq : s.cache.lookup i <;> simp [hq] at hs
  · rintro ⟨t, ht, hid⟩
    have hk : 0 < idc s.park i := idc_pos_iff.mpr ⟨t, ht, hid⟩
    have hmem : i ∈ s.contained := List.count_pos_iff.mp (by omega)
    have : s.contained.contains i = true := by simpa using hmem
    have hp0 : idc s.pend i = 0 := by omega
    have hany : s.pend.any (fun t => t.id == i) = false := by
      rw [Bool.eq_false_iff]
      intro hany
      obtain ⟨u, hu, hid'⟩ := List.any_eq_true.mp hany
      have : 0 < idc s.pend i := idc_pos_iff.mpr ⟨u, hu, by simpa using hid'⟩
      omega
    simp [hany, hmem]

end Astria.Mempool
