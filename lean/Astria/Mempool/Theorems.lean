import Astria.Mempool.Model
/- Theorems for area `mempool` (stub). -/
namespace Astria.Mempool

end Astria.Mempool
