import Astria.Conductor.Model
/-
  The decidable specification of property C10, as an acceptor over what a contract-enforcing
  rollup observes: the deliveries handed to the executor, the executor's verdict on each, and
  the `ExecuteBlock` / `UpdateCommitmentState` / `GetExecutedBlockMetadata` RPCs each delivery
  caused.  The acceptor knows nothing about the executor's internals (no pending map, no tracked
  state): it only remembers which blocks the rollup produced, the last commitment the rollup
  acknowledged, and which sequencer height has to be executed next.

  `Astria/Conductor/Theorems.lean` proves
    (A) every accepted history has the C10 properties (`accepted_*`), and
    (B) the model of the executor only produces accepted histories (`model_accepted`).
  The driver evaluates the same acceptor on the histories the real executor produced.
-/
namespace Astria.Conductor

/-- Acceptor state. -/
structure Mon where
  known : List Blk      -- blocks the rollup holds: the initial ones and every ExecuteBlock result
  head : Blk            -- the block the next ExecuteBlock has to build on
  c : Commit            -- last acknowledged commitment state
  next : Nat            -- sequencer height the next ExecuteBlock has to carry
  deriving DecidableEq, Repr

def Mon.init (cfg : Cfg) : Mon :=
  ⟨initBlocks cfg, initSoft cfg, initCommit cfg, nextSeq cfg cfg.soft0⟩

/-- One RPC, independent of the delivery that caused it.
    * `ExecuteBlock` must carry exactly the next sequencer height, name the latest executed block
      as parent, may only be sent once that block is the soft commitment, and the rollup's answer
      is the next block number with a fresh hash;
    * `UpdateCommitmentState` must name blocks the rollup produced, soft = the latest executed
      block, firm ≤ soft, neither commitment decreases, and it must be acknowledged;
    * `GetExecutedBlockMetadata` answers are blocks the rollup produced, at the requested number. -/
def Mon.stepRpc (m : Mon) : Rpc → Option Mon
  | .exec seq parent (.ok b) =>
    if seq = m.next ∧ parent = m.head.id ∧ m.head = m.c.soft ∧ b.number = m.head.number + 1
        ∧ b.parent = parent ∧ b.seq = seq ∧ (∀ k ∈ m.known, k.id ≠ b.id) then
      some { m with known := b :: m.known, head := b, next := m.next + 1 }
    else none
  | .exec _ _ (.rej _) => none
  | .update f s cel (.ok ()) =>
    if f ∈ m.known ∧ s = m.head ∧ f.number ≤ s.number ∧ m.c.firm.number ≤ f.number
        ∧ m.c.soft.number ≤ s.number then
      some { m with c := ⟨f, s, cel⟩ }
    else none
  | .update _ _ _ (.rej _) => none
  | .get n (.ok b) => if b ∈ m.known ∧ b.number = n then some m else none
  | .get _ (.rej _) => none

def Mon.stepRpcs (m : Mon) : List Rpc → Option Mon
  | [] => some m
  | r :: rs => (m.stepRpc r).bind (fun m' => m'.stepRpcs rs)

/-- One delivery.
    * soft block below the next height: dropped silently, no RPC; above: error, no RPC; equal:
      executed on the latest block, then soft-committed with firm and Celestia height unchanged;
    * firm block ≠ the height after the firm commitment: error, no RPC; equal: if the rollup has
      nothing beyond the firm commitment (or the conductor is firm-only) it is executed and both
      commitments move to the new block; otherwise nothing is executed and the firm commitment
      moves to the next block number, which must be a block executed from this very height. -/
def Mon.stepEvent (cfg : Cfg) (m : Mon) (e : Event) : Option Mon :=
  match e.op with
  | .soft h =>
    if h < m.next then (if e.res = .dropped ∧ e.rpcs = [] then some m else none)
    else if h > m.next then (if e.res.isErr ∧ e.rpcs = [] then some m else none)
    else
      match e.rpcs with
      | [.exec seq p r, .update f s cel u] =>
        if e.res = .ok ∧ seq = h ∧ f = m.c.firm ∧ cel = m.c.cel then
          m.stepRpcs [.exec seq p r, .update f s cel u]
        else none
      | _ => none
  | .firm h cel =>
    if h ≠ nextSeq cfg m.c.firm.number then (if e.res.isErr ∧ e.rpcs = [] then some m else none)
    else if cfg.mode = .firmOnly ∨ m.c.firm.number = m.c.soft.number then
      match e.rpcs with
      | [.exec seq p r, .update f s c u] =>
        if e.res = .ok ∧ seq = h ∧ f = s ∧ c = cel then m.stepRpcs [.exec seq p r, .update f s c u]
        else none
      | _ => none
    else
      match e.rpcs with
      | [.update f s c u] =>
        if e.res = .ok ∧ f.number = m.c.firm.number + 1 ∧ f.seq = h ∧ c = cel then
          m.stepRpcs [.update f s c u]
        else none
      | [.get n g, .update f s c u] =>
        if e.res = .ok ∧ f.number = m.c.firm.number + 1 ∧ f.seq = h ∧ c = cel ∧ n = f.number
            ∧ g = .ok f then
          m.stepRpcs [.get n g, .update f s c u]
        else none
      | _ => none

def Mon.stepEvents (cfg : Cfg) (m : Mon) : List Event → Option Mon
  | [] => some m
  | e :: es => (m.stepEvent cfg e).bind (fun m' => m'.stepEvents cfg es)

/-- A history is accepted. -/
def Accepted (cfg : Cfg) (evs : List Event) : Prop := (Mon.stepEvents cfg (Mon.init cfg) evs).isSome

/-! ### What the C10 statement talks about, read off a history -/

def allRpcs (evs : List Event) : List Rpc := evs.flatMap (·.rpcs)

/-- An `ExecuteBlock` call with its answer. -/
structure ExecCall where
  seq : Nat
  parent : Nat
  blk : Blk
  deriving DecidableEq, Repr

/-- Answered `ExecuteBlock` calls, in order. -/
def execCalls : List Rpc → List ExecCall
  | [] => []
  | .exec seq p (.ok b) :: rest => ⟨seq, p, b⟩ :: execCalls rest
  | _ :: rest => execCalls rest

/-- Number of `ExecuteBlock` requests, answered or not. -/
def execRequests : List Rpc → Nat
  | [] => 0
  | .exec _ _ _ :: rest => execRequests rest + 1
  | _ :: rest => execRequests rest

/-- Commitment states sent with `UpdateCommitmentState`, in order. -/
def updates : List Rpc → List Commit
  | [] => []
  | .update f s cel _ :: rest => ⟨f, s, cel⟩ :: updates rest
  | _ :: rest => updates rest

/-- Every call is made on the block produced by the previous call; the first on `p`. -/
def Chained : Nat → List ExecCall → Prop
  | _, [] => True
  | p, c :: cs => c.parent = p ∧ c.blk.parent = p ∧ Chained c.blk.id cs

/-- Commitments starting from `c0` never decrease, and firm never exceeds soft. -/
def Monotone : Commit → List Commit → Prop
  | _, [] => True
  | c0, c :: cs =>
    c0.firm.number ≤ c.firm.number ∧ c0.soft.number ≤ c.soft.number ∧ c.firm.number ≤ c.soft.number
      ∧ Monotone c cs

/-- Hash of the block the next `ExecuteBlock` has to build on after the calls `cs`. -/
def lastId : Nat → List ExecCall → Nat
  | p, [] => p
  | _, c :: cs => lastId c.blk.id cs

/-- The commitment state in force after the updates `cs`. -/
def lastCommit : Commit → List Commit → Commit
  | c0, [] => c0
  | _, c :: cs => lastCommit c cs

end Astria.Conductor
