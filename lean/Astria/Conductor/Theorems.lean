import Astria.Conductor.Model
import Astria.Conductor.Spec
/-
  Theorems about the executor model, for ALL delivery sequences (C10).

  Part A  every history accepted by the acceptor `Mon` (Spec.lean) has the C10 properties;
  Part B  the executor model produces only accepted histories (simulation invariant);
  Part C  single-step facts about deliveries that are not the expected height;
  Part D  `BlockCache`.
-/
namespace Astria.Conductor

/-- Hypotheses on the execution session: what `ExecutionSession::try_from_raw` /
    `State::try_from_execution_session` guarantee (`firm0 ≤ soft0`, `R ≤ firm0 + 1`), a
    sequencer start height of at least 1, — for a firm-only conductor — a rollup whose soft
    head is its firm block (otherwise the rollup refuses the very first `ExecuteBlock`), and a
    rollup that honours the execution API contract (no fault injection). -/
structure Cfg.WF (cfg : Cfg) : Prop where
  firm_le_soft : cfg.firm0 ≤ cfg.soft0
  start_ok : cfg.rollupStart ≤ cfg.firm0 + 1
  seq_pos : 1 ≤ cfg.seqStart
  firmOnly_eq : cfg.mode = .firmOnly → cfg.firm0 = cfg.soft0
  honest : cfg.lie = 0

/-! ## Part A: accepted histories -/

section lists

theorem execCalls_append (a b : List Rpc) : execCalls (a ++ b) = execCalls a ++ execCalls b := by
  induction a with
  | nil => rfl
  | cons r rs ih =>
    cases r with
    | exec seq p res => cases res <;> simp [execCalls, ih]
    | update f s c res => simp [execCalls, ih]
    | get n res => simp [execCalls, ih]

theorem execRequests_append (a b : List Rpc) : execRequests (a ++ b) = execRequests a + execRequests b := by
  induction a with
  | nil => simp [execRequests]
  | cons r rs ih =>
    cases r with
    | exec seq p res => simp [execRequests, ih]; omega
    | update f s c res => simp [execRequests, ih]
    | get n res => simp [execRequests, ih]

theorem updates_append (a b : List Rpc) : updates (a ++ b) = updates a ++ updates b := by
  induction a with
  | nil => rfl
  | cons r rs ih =>
    cases r with
    | exec seq p res => simp [updates, ih]
    | update f s c res => simp [updates, ih]
    | get n res => simp [updates, ih]

theorem lastId_concat (p : Nat) (cs : List ExecCall) (c : ExecCall) : lastId p (cs ++ [c]) = c.blk.id := by
  induction cs generalizing p with
  | nil => rfl
  | cons x xs ih => simp [lastId, ih]

theorem chained_concat (p : Nat) (cs : List ExecCall) (c : ExecCall) :
    Chained p (cs ++ [c]) ↔ Chained p cs ∧ c.parent = lastId p cs ∧ c.blk.parent = lastId p cs := by
  induction cs generalizing p with
  | nil => simp [Chained, lastId]
  | cons x xs ih => simp [Chained, lastId, ih, and_assoc]

theorem lastCommit_concat (c0 : Commit) (cs : List Commit) (c : Commit) : lastCommit c0 (cs ++ [c]) = c := by
  induction cs generalizing c0 with
  | nil => rfl
  | cons x xs ih => simp [lastCommit, ih]

theorem monotone_concat (c0 : Commit) (cs : List Commit) (c : Commit) :
    Monotone c0 (cs ++ [c]) ↔ Monotone c0 cs ∧ (lastCommit c0 cs).firm.number ≤ c.firm.number
      ∧ (lastCommit c0 cs).soft.number ≤ c.soft.number ∧ c.firm.number ≤ c.soft.number := by
  induction cs generalizing c0 with
  | nil => simp [Monotone, lastCommit]
  | cons x xs ih => simp [Monotone, lastCommit, ih, and_assoc]

/-- Index form of `Chained`: call `k+1` names the block produced by call `k` as its parent. -/
theorem chained_index (p : Nat) (cs : List ExecCall) (h : Chained p cs) (k : Nat) (hk : k + 1 < cs.length) :
    cs[k + 1].parent = cs[k].blk.id := by
  induction cs generalizing p k with
  | nil => simp at hk
  | cons x xs ih =>
    obtain ⟨_, _, hrest⟩ := h
    cases k with
    | zero =>
      cases xs with
      | nil => simp at hk
      | cons y ys => exact hrest.1
    | succ k =>
      have : k + 1 < xs.length := by simpa using hk
      simpa using ih x.blk.id hrest k this

end lists

/-- What is known about the acceptor after it consumed the RPCs `pre`. -/
structure MonInv (cfg : Cfg) (m : Mon) (pre : List Rpc) : Prop where
  next_eq : m.next = nextSeq cfg cfg.soft0 + (execCalls pre).length
  seqs : (execCalls pre).map (·.seq) = List.range' (nextSeq cfg cfg.soft0) (execCalls pre).length
  answered : execRequests pre = (execCalls pre).length
  chained : Chained (initSoft cfg).id (execCalls pre)
  head_id : m.head.id = lastId (initSoft cfg).id (execCalls pre)
  mono : Monotone (initCommit cfg) (updates pre)
  commit : m.c = lastCommit (initCommit cfg) (updates pre)
  known : ∀ b ∈ m.known, b ∈ initBlocks cfg ∨ ∃ c ∈ execCalls pre, c.blk = b
  blkseq : ∀ c ∈ execCalls pre, c.blk.seq = c.seq

theorem monInv_init (cfg : Cfg) : MonInv cfg (Mon.init cfg) [] := by
  constructor <;> simp [Mon.init, execCalls, execRequests, updates, Chained, lastId, Monotone, lastCommit]

theorem stepRpc_inv (cfg : Cfg) (m m' : Mon) (pre : List Rpc) (r : Rpc) (hi : MonInv cfg m pre)
    (h : m.stepRpc r = some m') : MonInv cfg m' (pre ++ [r]) := by
  cases r with
  | exec seq parent res =>
    cases res with
    | rej e => simp [Mon.stepRpc] at h
    | ok b =>
      simp only [Mon.stepRpc] at h
      split at h
      · rename_i hc
        obtain ⟨h1, h2, h3, h4, h5, h6, h7⟩ := hc
        injection h with h; subst h
        have hcalls : execCalls (pre ++ [Rpc.exec seq parent (.ok b)]) = execCalls pre ++ [⟨seq, parent, b⟩] := by
          simp [execCalls_append, execCalls]
        have hups : updates (pre ++ [Rpc.exec seq parent (.ok b)]) = updates pre := by
          simp [updates_append, updates]
        constructor
        · simp [hcalls, hi.next_eq]; omega
        · rw [hcalls]
          simp only [List.map_append, List.map_cons, List.map_nil, List.length_append, List.length_cons,
            List.length_nil, Nat.zero_add, List.range'_1_concat, hi.seqs]
          congr 2
          rw [h1, hi.next_eq]
        · simp [execRequests_append, execRequests, hcalls, hi.answered]
        · rw [hcalls, chained_concat]
          refine ⟨hi.chained, ?_, ?_⟩
          · simp only; rw [h2, hi.head_id]
          · simp only; rw [h5, h2, hi.head_id]
        · simp only [hcalls, lastId_concat]
        · rw [hups]; exact hi.mono
        · simp only [hups]; exact hi.commit
        · intro k hk
          simp only [List.mem_cons] at hk
          rcases hk with hk | hk
          · right; exact ⟨⟨seq, parent, b⟩, by simp [hcalls], hk.symm⟩
          · rcases hi.known k hk with h | ⟨c, hc, hcb⟩
            · left; exact h
            · right; exact ⟨c, by simp [hcalls, hc], hcb⟩
        · intro c hc
          rw [hcalls] at hc
          simp only [List.mem_append, List.mem_singleton] at hc
          rcases hc with hc | hc
          · exact hi.blkseq c hc
          · subst hc; exact h6
      · simp at h
  | update f s cel res =>
    cases res with
    | rej e => simp [Mon.stepRpc] at h
    | ok u =>
      cases u
      simp only [Mon.stepRpc] at h
      split at h
      · rename_i hc
        obtain ⟨h1, h2, h3, h4, h5⟩ := hc
        injection h with h; subst h
        have hcalls : execCalls (pre ++ [Rpc.update f s cel (.ok ())]) = execCalls pre := by
          simp [execCalls_append, execCalls]
        have hups : updates (pre ++ [Rpc.update f s cel (.ok ())]) = updates pre ++ [⟨f, s, cel⟩] := by
          simp [updates_append, updates]
        constructor
        · simp only [hcalls]; exact hi.next_eq
        · simp only [hcalls]; exact hi.seqs
        · simp [execRequests_append, execRequests, hcalls, hi.answered]
        · simp only [hcalls]; exact hi.chained
        · simp only [hcalls]; exact hi.head_id
        · rw [hups, monotone_concat, ← hi.commit]
          exact ⟨hi.mono, h4, h5, h3⟩
        · simp only [hups, lastCommit_concat]
        · intro k hk
          rcases hi.known k hk with h | ⟨c, hc, hcb⟩
          · left; exact h
          · right; exact ⟨c, by simp [hcalls, hc], hcb⟩
        · intro c hc
          rw [hcalls] at hc
          exact hi.blkseq c hc
      · simp at h
  | get n res =>
    cases res with
    | rej e => simp [Mon.stepRpc] at h
    | ok b =>
      simp only [Mon.stepRpc] at h
      split at h
      · injection h with h; subst h
        have hcalls : execCalls (pre ++ [Rpc.get n (.ok b)]) = execCalls pre := by
          simp [execCalls_append, execCalls]
        have hups : updates (pre ++ [Rpc.get n (.ok b)]) = updates pre := by
          simp [updates_append, updates]
        constructor
        · simp only [hcalls]; exact hi.next_eq
        · simp only [hcalls]; exact hi.seqs
        · simp [execRequests_append, execRequests, hcalls, hi.answered]
        · simp only [hcalls]; exact hi.chained
        · simp only [hcalls]; exact hi.head_id
        · rw [hups]; exact hi.mono
        · simp only [hups]; exact hi.commit
        · intro k hk
          rcases hi.known k hk with h | ⟨c, hc, hcb⟩
          · left; exact h
          · right; exact ⟨c, by simp [hcalls, hc], hcb⟩
        · intro c hc
          rw [hcalls] at hc
          exact hi.blkseq c hc
      · simp at h

theorem stepRpcs_inv (cfg : Cfg) (m m' : Mon) (pre rs : List Rpc) (hi : MonInv cfg m pre)
    (h : m.stepRpcs rs = some m') : MonInv cfg m' (pre ++ rs) := by
  induction rs generalizing m pre with
  | nil => simp [Mon.stepRpcs] at h; subst h; simpa using hi
  | cons r rs ih =>
    simp only [Mon.stepRpcs, Option.bind_eq_some_iff] at h
    obtain ⟨m1, h1, h2⟩ := h
    have := ih m1 (pre ++ [r]) (stepRpc_inv cfg m m1 pre r hi h1) h2
    simpa using this

theorem stepEvent_rpcs (cfg : Cfg) (m m' : Mon) (e : Event) (h : m.stepEvent cfg e = some m') :
    m.stepRpcs e.rpcs = some m' := by
  obtain ⟨op, res, rpcs⟩ := e
  cases op with
  | soft hh =>
    simp only [Mon.stepEvent] at h
    split at h
    · split at h
      · rename_i hc; injection h with h; subst h; simp [hc.2, Mon.stepRpcs]
      · simp at h
    · split at h
      · split at h
        · rename_i hc; injection h with h; subst h; simp [hc.2, Mon.stepRpcs]
        · simp at h
      · split at h
        · split at h
          · exact h
          · simp at h
        · simp at h
  | firm hh cel =>
    simp only [Mon.stepEvent] at h
    split at h
    · split at h
      · rename_i hc; injection h with h; subst h; simp [hc.2, Mon.stepRpcs]
      · simp at h
    · split at h
      · split at h
        · split at h
          · exact h
          · simp at h
        · simp at h
      · split at h
        · split at h
          · exact h
          · simp at h
        · split at h
          · exact h
          · simp at h
        · simp at h

theorem stepEvent_inv (cfg : Cfg) (m m' : Mon) (pre : List Rpc) (e : Event) (hi : MonInv cfg m pre)
    (h : m.stepEvent cfg e = some m') : MonInv cfg m' (pre ++ e.rpcs) :=
  stepRpcs_inv cfg m m' pre e.rpcs hi (stepEvent_rpcs cfg m m' e h)

theorem allRpcs_cons (e : Event) (evs : List Event) : allRpcs (e :: evs) = e.rpcs ++ allRpcs evs := by
  simp [allRpcs]

theorem allRpcs_append (a b : List Event) : allRpcs (a ++ b) = allRpcs a ++ allRpcs b := by
  simp [allRpcs]

theorem stepEvents_inv (cfg : Cfg) (m m' : Mon) (pre : List Rpc) (evs : List Event) (hi : MonInv cfg m pre)
    (h : m.stepEvents cfg evs = some m') : MonInv cfg m' (pre ++ allRpcs evs) := by
  induction evs generalizing m pre with
  | nil => simp [Mon.stepEvents] at h; subst h; simpa [allRpcs] using hi
  | cons e es ih =>
    simp only [Mon.stepEvents, Option.bind_eq_some_iff] at h
    obtain ⟨m1, h1, h2⟩ := h
    have := ih m1 (pre ++ e.rpcs) (stepEvent_inv cfg m m1 pre e hi h1) h2
    simpa [allRpcs_cons] using this

theorem stepEvents_append (cfg : Cfg) (m : Mon) (a b : List Event) :
    m.stepEvents cfg (a ++ b) = (m.stepEvents cfg a).bind (fun m' => m'.stepEvents cfg b) := by
  induction a generalizing m with
  | nil => simp [Mon.stepEvents]
  | cons e es ih =>
    simp only [List.cons_append, Mon.stepEvents]
    cases m.stepEvent cfg e with
    | none => simp
    | some m1 => simp [ih]

/-- Splitting an accepted history at an event: the acceptor state before it, with its invariant,
    and the state after it. -/
theorem accepted_split (cfg : Cfg) (before after : List Event) (e : Event)
    (h : Accepted cfg (before ++ e :: after)) :
    ∃ m m1, MonInv cfg m (allRpcs before) ∧ m.stepEvent cfg e = some m1
      ∧ MonInv cfg m1 (allRpcs before ++ e.rpcs) := by
  unfold Accepted at h
  rw [stepEvents_append, Option.isSome_iff_exists] at h
  obtain ⟨mf, h⟩ := h
  simp only [Option.bind_eq_some_iff, Mon.stepEvents] at h
  obtain ⟨m, hm, m1, hm1, _⟩ := h
  have hi := stepEvents_inv cfg (Mon.init cfg) m [] before (monInv_init cfg) hm
  simp only [List.nil_append] at hi
  exact ⟨m, m1, hi, hm1, stepEvent_inv cfg m m1 _ e hi hm1⟩

/-- What the acceptor demands of a single delivery, in terms of its own state. -/
theorem stepEvent_facts (cfg : Cfg) (m m' : Mon) (e : Event) (h : m.stepEvent cfg e = some m') :
    (∀ hh, e.op = .soft hh → hh ≠ m.next →
        e.rpcs = [] ∧ (hh < m.next → e.res = .dropped) ∧ (hh > m.next → e.res.isErr = true)) ∧
    (∀ hh c, e.op = .firm hh c → hh ≠ nextSeq cfg m.c.firm.number → e.rpcs = [] ∧ e.res.isErr = true) ∧
    (∀ hh c, e.op = .firm hh c → ∀ f s cc r, Rpc.update f s cc r ∈ e.rpcs →
        f.seq = hh ∧ cc = c ∧ f ∈ m'.known) := by
  obtain ⟨op, res, rpcs⟩ := e
  cases op with
  | soft hh =>
    refine ⟨?_, by simp, by simp⟩
    intro h' heq hne
    injection heq with heq; subst heq
    simp only [Mon.stepEvent] at h
    split at h
    · rename_i hlt
      split at h
      · rename_i hc
        exact ⟨hc.2, fun _ => hc.1, fun hgt => by omega⟩
      · simp at h
    · rename_i hnlt
      split at h
      · rename_i hgt
        split at h
        · rename_i hc
          exact ⟨hc.2, fun hlt => by omega, fun _ => hc.1⟩
        · simp at h
      · omega
  | firm hh cel =>
    refine ⟨by simp, ?_, ?_⟩
    · intro h' c heq hne
      injection heq with heq1 heq2; subst heq1
      simp only [Mon.stepEvent] at h
      split at h
      · split at h
        · rename_i hc; exact ⟨hc.2, hc.1⟩
        · simp at h
      · rename_i hn; exact absurd hne hn
    · intro h' c heq f s cc r hmem
      injection heq with heq1 heq2; subst heq1; subst heq2
      simp only [Mon.stepEvent] at h
      split at h
      · split at h
        · rename_i hc; simp [hc.2] at hmem
        · simp at h
      · split at h
        · split at h
          · rename_i _ seq p r' f' s' c' u'
            split at h
            · rename_i hc
              obtain ⟨_, hseq, hfs, hcc⟩ := hc
              simp only [List.mem_cons, List.mem_nil_iff, or_false, reduceCtorEq, false_or] at hmem
              injection hmem with e1 e2 e3 e4
              subst e1; subst e2; subst e3; subst e4
              -- unfold the two RPC steps
              simp only [Mon.stepRpcs, Option.bind_eq_some_iff] at h
              obtain ⟨m1, hx, m2, hu, hm2⟩ := h
              injection hm2 with hm2; subst hm2
              cases r' with
              | rej e => simp [Mon.stepRpc] at hx
              | ok b =>
                simp only [Mon.stepRpc] at hx
                split at hx
                · rename_i hxc
                  injection hx with hx; subst hx
                  cases r with
                  | rej e => simp [Mon.stepRpc] at hu
                  | ok uu =>
                    cases uu
                    simp only [Mon.stepRpc] at hu
                    split at hu
                    · rename_i huc
                      injection hu with hu; subst hu
                      refine ⟨?_, hcc, huc.1⟩
                      have : f = b := by rw [hfs]; exact huc.2.1
                      rw [this, hxc.2.2.2.2.2.1, hseq]
                    · simp at hu
                · simp at hx
            · simp at h
          · simp at h
        · split at h
          · rename_i _ f' s' c' u'
            split at h
            · rename_i hc
              obtain ⟨_, _, hseq, hcc⟩ := hc
              simp only [List.mem_cons, List.mem_nil_iff, or_false] at hmem
              injection hmem with e1 e2 e3 e4
              subst e1; subst e2; subst e3; subst e4
              simp only [Mon.stepRpcs, Option.bind_eq_some_iff] at h
              obtain ⟨m1, hu, hm1⟩ := h
              injection hm1 with hm1; subst hm1
              cases r with
              | rej e => simp [Mon.stepRpc] at hu
              | ok uu =>
                cases uu
                simp only [Mon.stepRpc] at hu
                split at hu
                · rename_i huc
                  injection hu with hu; subst hu
                  exact ⟨hseq, hcc, huc.1⟩
                · simp at hu
            · simp at h
          · rename_i _ n g f' s' c' u'
            split at h
            · rename_i hc
              obtain ⟨_, _, hseq, hcc, _, _⟩ := hc
              simp only [List.mem_cons, List.mem_nil_iff, or_false, reduceCtorEq, false_or] at hmem
              injection hmem with e1 e2 e3 e4
              subst e1; subst e2; subst e3; subst e4
              simp only [Mon.stepRpcs, Option.bind_eq_some_iff] at h
              obtain ⟨m1, hg, m2, hu, hm2⟩ := h
              injection hm2 with hm2; subst hm2
              cases g with
              | rej e => simp [Mon.stepRpc] at hg
              | ok gb =>
                simp only [Mon.stepRpc] at hg
                split at hg
                · injection hg with hg; subst hg
                  cases r with
                  | rej e => simp [Mon.stepRpc] at hu
                  | ok uu =>
                    cases uu
                    simp only [Mon.stepRpc] at hu
                    split at hu
                    · rename_i huc
                      injection hu with hu; subst hu
                      exact ⟨hseq, hcc, huc.1⟩
                    · simp at hu
                · simp at hg
            · simp at h
          · simp at h

/-- (A1) In an accepted history every `ExecuteBlock` request was answered, the calls carry the
    consecutive sequencer heights `start, start+1, …`, each call names the block produced by the
    previous call as parent (the first one the initial soft block), and each produced block
    records the height it was executed from. -/
theorem accepted_exec_in_order (cfg : Cfg) (evs : List Event) (h : Accepted cfg evs) :
    execRequests (allRpcs evs) = (execCalls (allRpcs evs)).length ∧
    (execCalls (allRpcs evs)).map (·.seq)
      = List.range' (nextSeq cfg cfg.soft0) (execCalls (allRpcs evs)).length ∧
    Chained (initSoft cfg).id (execCalls (allRpcs evs)) ∧
    (∀ c ∈ execCalls (allRpcs evs), c.blk.seq = c.seq) := by
  unfold Accepted at h
  rw [Option.isSome_iff_exists] at h
  obtain ⟨m, hm⟩ := h
  have hi := stepEvents_inv cfg (Mon.init cfg) m [] evs (monInv_init cfg) hm
  simp only [List.nil_append] at hi
  exact ⟨hi.answered, hi.seqs, hi.chained, hi.blkseq⟩

/-- (A2) In an accepted history the commitment states never decrease and firm ≤ soft. -/
theorem accepted_commitments (cfg : Cfg) (evs : List Event) (h : Accepted cfg evs) :
    Monotone (initCommit cfg) (updates (allRpcs evs)) := by
  unfold Accepted at h
  rw [Option.isSome_iff_exists] at h
  obtain ⟨m, hm⟩ := h
  have hi := stepEvents_inv cfg (Mon.init cfg) m [] evs (monInv_init cfg) hm
  simp only [List.nil_append] at hi
  exact hi.mono

/-- (A3) In an accepted history a delivery that is not the expected one causes no RPC at all:
    a soft block other than `start + (number of ExecuteBlock calls so far)` — dropped silently if
    below, an error if above —, a firm block other than the height following the current firm
    commitment — an error. -/
theorem accepted_not_executed (cfg : Cfg) (before after : List Event) (e : Event)
    (h : Accepted cfg (before ++ e :: after)) :
    (∀ hh, e.op = .soft hh →
        hh ≠ nextSeq cfg cfg.soft0 + (execCalls (allRpcs before)).length →
        e.rpcs = [] ∧
        (hh < nextSeq cfg cfg.soft0 + (execCalls (allRpcs before)).length → e.res = .dropped) ∧
        (hh > nextSeq cfg cfg.soft0 + (execCalls (allRpcs before)).length → e.res.isErr = true)) ∧
    (∀ hh c, e.op = .firm hh c →
        hh ≠ nextSeq cfg (lastCommit (initCommit cfg) (updates (allRpcs before))).firm.number →
        e.rpcs = [] ∧ e.res.isErr = true) := by
  obtain ⟨m, m1, hi, hstep, _⟩ := accepted_split cfg before after e h
  obtain ⟨f1, f2, _⟩ := stepEvent_facts cfg m m1 e hstep
  rw [← hi.next_eq, ← hi.commit]
  exact ⟨f1, f2⟩

/-- (A4) In an accepted history, every `UpdateCommitmentState` caused by a firm delivery for
    sequencer height `hh` names as firm a block that was executed from height `hh`: one of the
    initial blocks, or the answer to an `ExecuteBlock` call of this history made for `hh`; and
    it carries the delivery's Celestia height. -/
theorem accepted_firm_names_executed (cfg : Cfg) (before after : List Event) (e : Event)
    (h : Accepted cfg (before ++ e :: after)) (hh c : Nat) (hop : e.op = .firm hh c)
    (f s : Blk) (cc : Nat) (r : Res Unit) (hmem : Rpc.update f s cc r ∈ e.rpcs) :
    f.seq = hh ∧ cc = c ∧
    (f ∈ initBlocks cfg ∨
      ∃ call ∈ execCalls (allRpcs (before ++ e :: after)), call.blk = f ∧ call.seq = hh) := by
  obtain ⟨m, m1, hi, hstep, hi1⟩ := accepted_split cfg before after e h
  obtain ⟨_, _, f3⟩ := stepEvent_facts cfg m m1 e hstep
  obtain ⟨hseq, hcc, hk⟩ := f3 hh c hop f s cc r hmem
  refine ⟨hseq, hcc, ?_⟩
  rcases hi1.known f hk with hinit | ⟨call, hcall, hblk⟩
  · left; exact hinit
  · right
    refine ⟨call, ?_, hblk, ?_⟩
    · simp only [allRpcs_append, allRpcs_cons, execCalls_append, List.mem_append]
      simp only [execCalls_append, List.mem_append] at hcall
      rcases hcall with hc | hc
      · left; exact hc
      · right; left; exact hc
    · rw [← hi1.blkseq call hcall, hblk, hseq]

/-! ## Part B: the executor model produces only accepted histories -/

/-- The rollup's blocks form one chain of consecutive numbers, newest first. -/
def ChainOk : List Blk → Prop
  | [] => True
  | [_] => True
  | b :: b' :: rest => b.number = b'.number + 1 ∧ ChainOk (b' :: rest)

theorem chainOk_lt (b : Blk) (l : List Blk) (h : ChainOk (b :: l)) : ∀ x ∈ l, x.number < b.number := by
  induction l generalizing b with
  | nil => simp
  | cons b' rest ih =>
    obtain ⟨heq, hrest⟩ := h
    intro x hx
    simp only [List.mem_cons] at hx
    rcases hx with hx | hx
    · subst hx; omega
    · have := ih b' hrest x hx; omega

theorem chainOk_exists (b : Blk) (l : List Blk) (h : ChainOk (b :: l)) (x : Blk) (hx : x ∈ b :: l)
    (n : Nat) (h1 : x.number ≤ n) (h2 : n ≤ b.number) : ∃ z ∈ b :: l, z.number = n := by
  induction l generalizing b with
  | nil =>
    simp only [List.mem_cons, List.not_mem_nil, or_false] at hx
    subst hx
    exact ⟨x, by simp, by omega⟩
  | cons b' rest ih =>
    obtain ⟨heq, hrest⟩ := h
    by_cases hn : n = b.number
    · exact ⟨b, by simp, hn.symm⟩
    · have hx' : x ∈ b' :: rest := by
        simp only [List.mem_cons] at hx
        rcases hx with hx | hx
        · subst hx; omega
        · simpa using hx
      obtain ⟨z, hz, hzn⟩ := ih b' hrest hx' (by omega)
      exact ⟨z, List.mem_cons_of_mem _ hz, hzn⟩

theorem pendLookup_insert (k k' : Nat) (v b : Blk) (l : List (Nat × Blk))
    (h : pendLookup k (pendInsert k' v l) = some b) : (k = k' ∧ b = v) ∨ pendLookup k l = some b := by
  induction l with
  | nil =>
    simp only [pendInsert, pendLookup] at h
    split at h
    · left; rename_i hk; injection h with h; exact ⟨hk, h.symm⟩
    · simp at h
  | cons e rest ih =>
    obtain ⟨k2, v2⟩ := e
    simp only [pendInsert] at h
    split at h
    · simp only [pendLookup] at h
      split at h
      · left; rename_i hk; injection h with h; exact ⟨hk, h.symm⟩
      · right; simpa [pendLookup] using h
    · split at h
      · rename_i hk2
        simp only [pendLookup] at h
        split at h
        · left; rename_i hk; injection h with h; exact ⟨hk, h.symm⟩
        · right
          rename_i hne
          simp only [pendLookup]
          rw [if_neg (by omega)]
          exact h
      · simp only [pendLookup] at h
        split at h
        · right; rename_i hk; simp [pendLookup, hk, h]
        · rename_i hne
          rcases ih h with h' | h'
          · left; exact h'
          · right; simp [pendLookup, hne, h']

theorem pendLookup_erase_eq (k k' : Nat) (l : List (Nat × Blk)) :
    pendLookup k (pendErase k' l) = if k = k' then none else pendLookup k l := by
  induction l with
  | nil => simp [pendErase, pendLookup]
  | cons e rest ih =>
    obtain ⟨k2, v2⟩ := e
    unfold pendErase at ih ⊢
    rw [List.filter_cons]
    by_cases hk : k2 = k'
    · subst hk
      simp only [ne_eq, not_true_eq_false, decide_false, Bool.false_eq_true, if_false, ih, pendLookup]
      by_cases hkk : k = k2
      · simp [hkk]
      · simp [hkk]
    · simp only [ne_eq, hk, not_false_eq_true, decide_true, if_true, pendLookup, ih]
      by_cases hkk : k = k2
      · have : k ≠ k' := by omega
        simp [hkk, hk]
      · simp [hkk]

theorem pendLookup_erase (k k' : Nat) (b : Blk) (l : List (Nat × Blk))
    (h : pendLookup k (pendErase k' l) = some b) : pendLookup k l = some b := by
  rw [pendLookup_erase_eq] at h
  split at h
  · simp at h
  · exact h

/-! ### evaluation of the rollup and of `update_commitment_state` when everything is in order -/

theorem executeBlock_head (r : Rollup) (seq : Nat) (hl : r.lieAt = 0) :
    r.executeBlock r.c.soft.id seq =
      (.ok ⟨r.c.soft.number + 1, r.nextId, r.c.soft.id, seq⟩,
       { r with blocks := ⟨r.c.soft.number + 1, r.nextId, r.c.soft.id, seq⟩ :: r.blocks,
                nextId := r.nextId + 1, execs := r.execs + 1 }) := by
  simp [Rollup.executeBlock, hl]

theorem update_ok (r : Rollup) (f s : Blk) (cel : Nat) (hf : f ∈ r.blocks) (hs : s ∈ r.blocks)
    (hfs : f.number ≤ s.number) (h1 : r.c.firm.number ≤ f.number) (h2 : r.c.soft.number ≤ s.number) :
    r.update f s cel = (.ok ⟨f, s, cel⟩, { r with c := ⟨f, s, cel⟩ }) := by
  unfold Rollup.update
  rw [if_neg (by simp [hf, hs]), if_neg (by omega), if_neg (by omega)]

theorem updateCommitment_ok (s : Sys) (u : Update)
    (hf : u.firm s ∈ s.ru.blocks) (hs : u.soft s ∈ s.ru.blocks)
    (hfs : (u.firm s).number ≤ (u.soft s).number)
    (h1 : s.ru.c.firm.number ≤ (u.firm s).number) (h2 : s.ru.c.soft.number ≤ (u.soft s).number)
    (hacc : stateAccepts s.cfg u.level ⟨u.firm s, u.soft s, u.cel s⟩ = true) :
    updateCommitment s u =
      ({ s with ru := { s.ru with c := ⟨u.firm s, u.soft s, u.cel s⟩ },
                ex := { s.ex with c := ⟨u.firm s, u.soft s, u.cel s⟩ } },
       .ok, [.update (u.firm s) (u.soft s) (u.cel s) (.ok ())]) := by
  unfold updateCommitment
  simp only
  rw [if_neg (by omega), update_ok s.ru _ _ _ hf hs hfs h1 h2]
  simp only [hacc, if_true]

theorem executeSoft_inorder (s : Sys) (h : Nat) (heq : h = s.nextSoft) (hS : s.cfg.seqStart ≤ h)
    (hsync : s.ru.c = s.ex.c) (hfirm : s.ex.c.firm ∈ s.ru.blocks)
    (hfs : s.ex.c.firm.number ≤ s.ex.c.soft.number)
    (hmap : s.cfg.rollupStart ≤ s.ex.c.soft.number + 2) (hl : s.ru.lieAt = 0) :
    executeSoft s h =
      ({ s with
          ru := { blocks := ⟨s.ex.c.soft.number + 1, s.ru.nextId, s.ex.c.soft.id, h⟩ :: s.ru.blocks,
                  c := ⟨s.ex.c.firm, ⟨s.ex.c.soft.number + 1, s.ru.nextId, s.ex.c.soft.id, h⟩, s.ex.c.cel⟩,
                  nextId := s.ru.nextId + 1, lieAt := s.ru.lieAt, execs := s.ru.execs + 1 },
          ex := { c := ⟨s.ex.c.firm, ⟨s.ex.c.soft.number + 1, s.ru.nextId, s.ex.c.soft.id, h⟩, s.ex.c.cel⟩,
                  pending := pendInsert (h - s.cfg.seqStart + s.cfg.rollupStart)
                    ⟨s.ex.c.soft.number + 1, s.ru.nextId, s.ex.c.soft.id, h⟩ s.ex.pending } },
       ⟨.ok, [.exec h s.ex.c.soft.id (.ok ⟨s.ex.c.soft.number + 1, s.ru.nextId, s.ex.c.soft.id, h⟩),
              .update s.ex.c.firm ⟨s.ex.c.soft.number + 1, s.ru.nextId, s.ex.c.soft.id, h⟩ s.ex.c.cel (.ok ())]⟩) := by
  unfold executeSoft
  simp only
  rw [if_neg (by omega), if_neg (by omega)]
  have hmapS : seqToRollup s.cfg h = some (h - s.cfg.seqStart + s.cfg.rollupStart) := by
    unfold seqToRollup; rw [if_neg (by omega)]
  rw [hmapS]
  simp only
  have hx := executeBlock_head s.ru h hl
  rw [hsync] at hx
  rw [hx]
  simp only [ne_eq, not_true_eq_false, if_false]
  rw [updateCommitment_ok _ (.onlySoft ⟨s.ex.c.soft.number + 1, s.ru.nextId, s.ex.c.soft.id, h⟩)]
  · simp [Update.firm, Update.soft, Update.cel]
  · simp [Update.firm, hfirm]
  · simp [Update.soft]
  · simp [Update.firm, Update.soft]; omega
  · simp [Update.firm]
  · simp [Update.soft]
  · simp [stateAccepts, Update.level, Mode.withFirm, Mode.withSoft, mapOk, Update.soft]; exact decide_eq_true (by omega)


theorem executeFirm_execute (s : Sys) (h cel : Nat) (heq : h = s.nextFirm) (hS : s.cfg.seqStart ≤ h)
    (hshould : shouldExecuteFirm s.nextFirm s.nextSoft s.cfg.mode = true)
    (hsync : s.ru.c = s.ex.c) (hfs : s.ex.c.firm = s.ex.c.soft)
    (hmap : s.cfg.rollupStart ≤ s.ex.c.soft.number + 2) (hl : s.ru.lieAt = 0) :
    executeFirm s h cel =
      ({ s with
          ru := { blocks := ⟨s.ex.c.soft.number + 1, s.ru.nextId, s.ex.c.soft.id, h⟩ :: s.ru.blocks,
                  c := ⟨⟨s.ex.c.soft.number + 1, s.ru.nextId, s.ex.c.soft.id, h⟩,
                        ⟨s.ex.c.soft.number + 1, s.ru.nextId, s.ex.c.soft.id, h⟩, cel⟩,
                  nextId := s.ru.nextId + 1, lieAt := s.ru.lieAt, execs := s.ru.execs + 1 },
          ex := { c := ⟨⟨s.ex.c.soft.number + 1, s.ru.nextId, s.ex.c.soft.id, h⟩,
                        ⟨s.ex.c.soft.number + 1, s.ru.nextId, s.ex.c.soft.id, h⟩, cel⟩,
                  pending := s.ex.pending } },
       ⟨.ok, [.exec h s.ex.c.soft.id (.ok ⟨s.ex.c.soft.number + 1, s.ru.nextId, s.ex.c.soft.id, h⟩),
              .update ⟨s.ex.c.soft.number + 1, s.ru.nextId, s.ex.c.soft.id, h⟩
                ⟨s.ex.c.soft.number + 1, s.ru.nextId, s.ex.c.soft.id, h⟩ cel (.ok ())]⟩) := by
  unfold executeFirm
  simp only
  rw [if_neg (by omega)]
  have hmapS : seqToRollup s.cfg h = some (h - s.cfg.seqStart + s.cfg.rollupStart) := by
    unfold seqToRollup; rw [if_neg (by omega)]
  rw [hmapS]
  simp only [hshould, if_true]
  have hx := executeBlock_head s.ru h hl
  rw [hsync] at hx
  rw [hfs, hx]
  simp only [ne_eq, not_true_eq_false, if_false]
  rw [updateCommitment_ok _ (.toSame ⟨s.ex.c.soft.number + 1, s.ru.nextId, s.ex.c.soft.id, h⟩ cel)]
  · simp [Update.firm, Update.soft, Update.cel]
  · simp [Update.firm]
  · simp [Update.soft]
  · simp [Update.firm, Update.soft]
  · simp [Update.firm, hfs]
  · simp [Update.soft]
  · simp [stateAccepts, Update.level, Mode.withFirm, Mode.withSoft, mapOk, Update.soft, Update.firm]
    exact ⟨decide_eq_true (by omega), decide_eq_true (by omega)⟩

theorem executeFirm_pending (s : Sys) (h cel : Nat) (b : Blk) (heq : h = s.nextFirm)
    (hS : s.cfg.seqStart ≤ h)
    (hshould : shouldExecuteFirm s.nextFirm s.nextSoft s.cfg.mode = false)
    (hlook : pendLookup (h - s.cfg.seqStart + s.cfg.rollupStart) s.ex.pending = some b)
    (hsync : s.ru.c = s.ex.c) (hb : b ∈ s.ru.blocks) (hsoft : s.ex.c.soft ∈ s.ru.blocks)
    (hbs : b.number ≤ s.ex.c.soft.number) (hfb : s.ex.c.firm.number ≤ b.number)
    (hmap : s.cfg.rollupStart ≤ b.number + 1) :
    executeFirm s h cel =
      ({ s with
          ru := { s.ru with c := ⟨b, s.ex.c.soft, cel⟩ },
          ex := { c := ⟨b, s.ex.c.soft, cel⟩,
                  pending := pendErase (h - s.cfg.seqStart + s.cfg.rollupStart) s.ex.pending } },
       ⟨.ok, [.update b s.ex.c.soft cel (.ok ())]⟩) := by
  unfold executeFirm
  simp only
  rw [if_neg (by omega)]
  have hmapS : seqToRollup s.cfg h = some (h - s.cfg.seqStart + s.cfg.rollupStart) := by
    unfold seqToRollup; rw [if_neg (by omega)]
  rw [hmapS]
  simp only [hshould, Bool.false_eq_true, if_false, hlook]
  rw [updateCommitment_ok _ (.onlyFirm b cel)]
  · simp [Update.firm, Update.soft, Update.cel]
  · simp [Update.firm, hb]
  · simp [Update.soft, hsoft]
  · simp [Update.firm, Update.soft, hbs]
  · simp [Update.firm, hsync, hfb]
  · simp [Update.soft, hsync]
  · simp [stateAccepts, Update.level, Mode.withFirm, Mode.withSoft, mapOk, Update.soft, Update.firm]
    exact decide_eq_true (by omega)

theorem executeFirm_fetch (s : Sys) (h cel : Nat) (b : Blk) (heq : h = s.nextFirm)
    (hS : s.cfg.seqStart ≤ h)
    (hshould : shouldExecuteFirm s.nextFirm s.nextSoft s.cfg.mode = false)
    (hlook : pendLookup (h - s.cfg.seqStart + s.cfg.rollupStart) s.ex.pending = none)
    (hget : s.ru.getBlock (h - s.cfg.seqStart + s.cfg.rollupStart) = .ok b)
    (hnum : b.number = h - s.cfg.seqStart + s.cfg.rollupStart)
    (hsync : s.ru.c = s.ex.c) (hb : b ∈ s.ru.blocks) (hsoft : s.ex.c.soft ∈ s.ru.blocks)
    (hbs : b.number ≤ s.ex.c.soft.number) (hfb : s.ex.c.firm.number ≤ b.number)
    (hmap : s.cfg.rollupStart ≤ b.number + 1) :
    executeFirm s h cel =
      ({ s with
          ru := { s.ru with c := ⟨b, s.ex.c.soft, cel⟩ },
          ex := { s.ex with c := ⟨b, s.ex.c.soft, cel⟩ } },
       ⟨.ok, [.get (h - s.cfg.seqStart + s.cfg.rollupStart) (.ok b), .update b s.ex.c.soft cel (.ok ())]⟩) := by
  unfold executeFirm
  simp only
  rw [if_neg (by omega)]
  have hmapS : seqToRollup s.cfg h = some (h - s.cfg.seqStart + s.cfg.rollupStart) := by
    unfold seqToRollup; rw [if_neg (by omega)]
  rw [hmapS]
  simp only [hshould, Bool.false_eq_true, if_false, hlook, hget]
  rw [if_neg (by omega)]
  rw [updateCommitment_ok _ (.onlyFirm b cel)]
  · simp [Update.firm, Update.soft, Update.cel]
  · simp [Update.firm, hb]
  · simp [Update.soft, hsoft]
  · simp [Update.firm, Update.soft, hbs]
  · simp [Update.firm, hsync, hfb]
  · simp [Update.soft, hsync]
  · simp [stateAccepts, Update.level, Mode.withFirm, Mode.withSoft, mapOk, Update.soft, Update.firm]
    exact decide_eq_true (by omega)

/-- The simulation relation between the executor-plus-rollup model and the acceptor. -/
structure SimInv (cfg : Cfg) (s : Sys) (m : Mon) : Prop where
  cfg_eq : s.cfg = cfg
  ex_c : s.ex.c = m.c
  ru_c : s.ru.c = m.c
  blocks : s.ru.blocks = m.known
  head : m.head = m.c.soft
  next : m.next = nextSeq cfg m.c.soft.number
  start : cfg.rollupStart ≤ m.c.firm.number + 1
  fs : m.c.firm.number ≤ m.c.soft.number
  known_hd : ∃ rest, m.known = m.c.soft :: rest
  chain : ChainOk m.known
  firm_in : m.c.firm ∈ m.known
  seq_ok : ∀ b ∈ m.known, b.seq + cfg.rollupStart = cfg.seqStart + b.number
  ids : ∀ b ∈ m.known, b.id < s.ru.nextId
  pend : ∀ k b, pendLookup k s.ex.pending = some b → b ∈ m.known ∧ b.number = k
  firmOnly : cfg.mode = .firmOnly → m.c.firm = m.c.soft
  honest : s.ru.lieAt = 0

theorem initBlocksAux_head (cfg : Cfg) (k : Nat) :
    ∃ rest, initBlocksAux cfg k = ⟨cfg.firm0 + k, k + 1, k, nextSeq cfg (cfg.firm0 + k) - 1⟩ :: rest := by
  cases k with
  | zero => exact ⟨[], rfl⟩
  | succ k => exact ⟨initBlocksAux cfg k, rfl⟩

theorem initBlocksAux_chain (cfg : Cfg) (k : Nat) : ChainOk (initBlocksAux cfg k) := by
  induction k with
  | zero => simp [initBlocksAux, ChainOk]
  | succ k ih =>
    obtain ⟨rest, hr⟩ := initBlocksAux_head cfg k
    simp only [initBlocksAux]
    rw [hr] at ih ⊢
    exact ⟨by simp, ih⟩

theorem initBlocksAux_mem (cfg : Cfg) (k : Nat) :
    ∀ b ∈ initBlocksAux cfg k, cfg.firm0 ≤ b.number ∧ b.seq = nextSeq cfg b.number - 1 ∧ b.id ≤ k + 1 := by
  induction k with
  | zero => intro b hb; simp [initBlocksAux] at hb; subst hb; simp
  | succ k ih =>
    intro b hb
    simp only [initBlocksAux, List.mem_cons] at hb
    rcases hb with hb | hb
    · subst hb; simp; omega
    · obtain ⟨h1, h2, h3⟩ := ih b hb
      exact ⟨h1, h2, by omega⟩

theorem initFirm_mem (cfg : Cfg) (k : Nat) : initFirm cfg ∈ initBlocksAux cfg k := by
  induction k with
  | zero => simp [initBlocksAux, initFirm]
  | succ k ih => simp only [initBlocksAux, List.mem_cons]; right; exact ih

theorem simInv_init (cfg : Cfg) (hwf : cfg.WF) : SimInv cfg (Sys.init cfg) (Mon.init cfg) := by
  obtain ⟨h1, h2, h3, h4, h5⟩ := hwf
  have hsoft : cfg.firm0 + (cfg.soft0 - cfg.firm0) = cfg.soft0 := by omega
  constructor
  · rfl
  · rfl
  · rfl
  · rfl
  · rfl
  · simp only [Mon.init, initCommit, initSoft, hsoft]
  · simp only [Mon.init, initCommit, initFirm]; omega
  · simp only [Mon.init, initCommit, initFirm, initSoft]; omega
  · obtain ⟨rest, hr⟩ := initBlocksAux_head cfg (cfg.soft0 - cfg.firm0)
    exact ⟨rest, by simp only [Mon.init, initBlocks, initCommit, initSoft]; rw [hr]⟩
  · exact initBlocksAux_chain cfg _
  · exact initFirm_mem cfg _
  · intro b hb
    obtain ⟨hb1, hb2, _⟩ := initBlocksAux_mem cfg _ b hb
    rw [hb2]; unfold nextSeq; omega
  · intro b hb
    obtain ⟨_, _, hb3⟩ := initBlocksAux_mem cfg _ b hb
    simp only [Sys.init, Rollup.init]; omega
  · intro k b hl; simp [Sys.init, pendLookup] at hl
  · intro hm
    have := h4 hm
    simp only [Mon.init, initCommit, initFirm, initSoft]
    have h0 : cfg.soft0 - cfg.firm0 = 0 := by omega
    simp [h0]
  · exact h5


theorem step_sim_soft (cfg : Cfg) (s : Sys) (m : Mon) (h : Nat) (hi : SimInv cfg s m)
    (hadm : cfg.mode.withSoft = true) :
    ∃ m', m.stepEvent cfg ⟨.soft h, (executeSoft s h).2.res, (executeSoft s h).2.rpcs⟩ = some m'
      ∧ SimInv cfg (executeSoft s h).1 m' := by
  have hnext : s.nextSoft = m.next := by
    simp only [Sys.nextSoft, hi.cfg_eq, hi.ex_c, hi.next]
  by_cases hlt : h < m.next
  · have hev : executeSoft s h = (s, ⟨.dropped, []⟩) := by
      unfold executeSoft; simp only; rw [if_pos (by omega)]
    rw [hev]
    exact ⟨m, by simp [Mon.stepEvent, hlt], hi⟩
  · by_cases hgt : h > m.next
    · have hev : executeSoft s h = (s, ⟨.err .outOfOrder, []⟩) := by
        unfold executeSoft; simp only; rw [if_neg (by omega), if_pos (by omega)]
      rw [hev]
      exact ⟨m, by simp [Mon.stepEvent, hlt, hgt, Outcome.isErr], hi⟩
    · have heq : h = m.next := by omega
      have hstart := hi.start
      have hfs := hi.fs
      have hn := hi.next
      unfold nextSeq at hn
      have hev := executeSoft_inorder s h (by omega)
        (by rw [hi.cfg_eq]; omega) (by rw [hi.ru_c, hi.ex_c])
        (by rw [hi.ex_c, hi.blocks]; exact hi.firm_in) (by rw [hi.ex_c]; exact hfs)
        (by rw [hi.cfg_eq, hi.ex_c]; omega) hi.honest
      rw [hev]
      simp only [hi.ex_c, hi.blocks, hi.cfg_eq]
      refine ⟨{ known := ⟨m.c.soft.number + 1, s.ru.nextId, m.c.soft.id, h⟩ :: m.known,
                head := ⟨m.c.soft.number + 1, s.ru.nextId, m.c.soft.id, h⟩,
                c := ⟨m.c.firm, ⟨m.c.soft.number + 1, s.ru.nextId, m.c.soft.id, h⟩, m.c.cel⟩,
                next := m.next + 1 }, ?_, ?_⟩
      · simp only [Mon.stepEvent]
        rw [if_neg hlt, if_neg hgt]
        simp only [and_self, if_true, Mon.stepRpcs, Mon.stepRpc]
        rw [if_pos ⟨heq, by rw [hi.head], hi.head, by rw [hi.head], trivial, trivial,
          fun k hk => Nat.ne_of_lt (hi.ids k hk)⟩]
        simp only [Option.bind_some]
        rw [if_pos ⟨List.mem_cons_of_mem _ hi.firm_in, trivial, by omega, Nat.le_refl _, by omega⟩]
        rfl
      · obtain ⟨rest, hrest⟩ := hi.known_hd
        constructor
        · rfl
        · rfl
        · rfl
        · rfl
        · rfl
        · simp only; unfold nextSeq; omega
        · exact hstart
        · simp only; omega
        · exact ⟨m.known, rfl⟩
        · show ChainOk (_ :: m.known)
          rw [hrest]; exact ⟨rfl, by rw [← hrest]; exact hi.chain⟩
        · exact List.mem_cons_of_mem _ hi.firm_in
        · intro b hb
          simp only [List.mem_cons] at hb
          rcases hb with hb | hb
          · subst hb; simp only; omega
          · exact hi.seq_ok b hb
        · intro b hb
          simp only [List.mem_cons] at hb
          rcases hb with hb | hb
          · subst hb; simp only; omega
          · have := hi.ids b hb; simp only; omega
        · intro k b hl
          rcases pendLookup_insert _ _ _ _ _ hl with ⟨hk, hb⟩ | hl'
          · subst hb; exact ⟨by simp, by simp only; omega⟩
          · obtain ⟨h1, h2⟩ := hi.pend k b hl'
            exact ⟨List.mem_cons_of_mem _ h1, h2⟩
        · intro hm; rw [hm] at hadm; simp [Mode.withSoft] at hadm
        · exact hi.honest


theorem step_sim_firm (cfg : Cfg) (s : Sys) (m : Mon) (h cel : Nat) (hi : SimInv cfg s m)
    (hadm : cfg.mode.withFirm = true) :
    ∃ m', m.stepEvent cfg ⟨.firm h cel, (executeFirm s h cel).2.res, (executeFirm s h cel).2.rpcs⟩ = some m'
      ∧ SimInv cfg (executeFirm s h cel).1 m' := by
  have hnextF : s.nextFirm = nextSeq cfg m.c.firm.number := by
    simp only [Sys.nextFirm, hi.cfg_eq, hi.ex_c]
  have hnextS : s.nextSoft = nextSeq cfg m.c.soft.number := by
    simp only [Sys.nextSoft, hi.cfg_eq, hi.ex_c]
  have hstart := hi.start
  have hfs := hi.fs
  obtain ⟨rest, hrest⟩ := hi.known_hd
  by_cases hne : h ≠ nextSeq cfg m.c.firm.number
  · have hev : executeFirm s h cel = (s, ⟨.err .heightMismatch, []⟩) := by
      unfold executeFirm; simp only; rw [if_pos (by rw [hnextF]; exact hne)]
    rw [hev]
    exact ⟨m, by simp [Mon.stepEvent, hne, Outcome.isErr], hi⟩
  · have heq : h = nextSeq cfg m.c.firm.number := by omega
    have hhS : s.cfg.seqStart ≤ h := by rw [hi.cfg_eq, heq]; unfold nextSeq; omega
    by_cases hcond : cfg.mode = .firmOnly ∨ m.c.firm.number = m.c.soft.number
    · -- the block is executed
      have hshould : shouldExecuteFirm s.nextFirm s.nextSoft s.cfg.mode = true := by
        rw [hi.cfg_eq, hnextF, hnextS]
        rcases hcond with hc | hc
        · rw [hc]; rfl
        · cases hm : cfg.mode with
          | softOnly => rw [hm] at hadm; simp [Mode.withFirm] at hadm
          | firmOnly => rfl
          | softAndFirm => simp [shouldExecuteFirm, hc]
      have hsame : m.c.firm = m.c.soft := by
        rcases hcond with hc | hc
        · exact hi.firmOnly hc
        · have hin := hi.firm_in
          rw [hrest] at hin
          simp only [List.mem_cons] at hin
          rcases hin with hin | hin
          · exact hin
          · have hch := hi.chain
            rw [hrest] at hch
            have := chainOk_lt _ _ hch _ hin
            omega
      have hn := hi.next
      unfold nextSeq at hn heq
      have hnumeq : m.c.firm.number = m.c.soft.number := by rw [hsame]
      have hev := executeFirm_execute s h cel (by rw [hnextF]; unfold nextSeq; exact heq) hhS hshould
        (by rw [hi.ru_c, hi.ex_c]) (by rw [hi.ex_c]; exact hsame) (by rw [hi.cfg_eq, hi.ex_c]; omega)
        hi.honest
      rw [hev]
      simp only [hi.ex_c, hi.blocks, hi.cfg_eq]
      refine ⟨{ known := ⟨m.c.soft.number + 1, s.ru.nextId, m.c.soft.id, h⟩ :: m.known,
                head := ⟨m.c.soft.number + 1, s.ru.nextId, m.c.soft.id, h⟩,
                c := ⟨⟨m.c.soft.number + 1, s.ru.nextId, m.c.soft.id, h⟩,
                      ⟨m.c.soft.number + 1, s.ru.nextId, m.c.soft.id, h⟩, cel⟩,
                next := m.next + 1 }, ?_, ?_⟩
      · simp only [Mon.stepEvent]
        rw [if_neg (by omega), if_pos hcond]
        simp only [and_self, if_true, Mon.stepRpcs, Mon.stepRpc]
        rw [if_pos ⟨by rw [hn, heq, hsame], by rw [hi.head], hi.head, by rw [hi.head], trivial, trivial,
          fun k hk => Nat.ne_of_lt (hi.ids k hk)⟩]
        simp only [Option.bind_some]
        rw [if_pos ⟨List.mem_cons_self, trivial, Nat.le_refl _, by omega, by omega⟩]
        rfl
      · constructor
        · rfl
        · rfl
        · rfl
        · rfl
        · rfl
        · simp only; unfold nextSeq; omega
        · simp only; omega
        · simp only; omega
        · exact ⟨m.known, rfl⟩
        · show ChainOk (_ :: m.known)
          rw [hrest]; exact ⟨rfl, by rw [← hrest]; exact hi.chain⟩
        · exact List.mem_cons_self
        · intro b hb
          simp only [List.mem_cons] at hb
          rcases hb with hb | hb
          · subst hb; simp only; omega
          · exact hi.seq_ok b hb
        · intro b hb
          simp only [List.mem_cons] at hb
          rcases hb with hb | hb
          · subst hb; simp only; omega
          · have := hi.ids b hb; simp only; omega
        · intro k b hl
          obtain ⟨h1, h2⟩ := hi.pend k b hl
          exact ⟨List.mem_cons_of_mem _ h1, h2⟩
        · intro _; rfl
        · exact hi.honest
    · -- nothing is executed: the firm commitment follows the soft chain
      have hmode : cfg.mode = .softAndFirm := by
        cases hm : cfg.mode with
        | softOnly => rw [hm] at hadm; simp [Mode.withFirm] at hadm
        | firmOnly => exact absurd (Or.inl hm) hcond
        | softAndFirm => rfl
      have hlt : m.c.firm.number < m.c.soft.number := by
        have : m.c.firm.number ≠ m.c.soft.number := fun hh => hcond (Or.inr hh)
        omega
      have hshould : shouldExecuteFirm s.nextFirm s.nextSoft s.cfg.mode = false := by
        rw [hi.cfg_eq, hnextF, hnextS, hmode]
        simp only [shouldExecuteFirm, decide_eq_false_iff_not]
        unfold nextSeq; omega
      unfold nextSeq at heq
      have hbn : h - s.cfg.seqStart + s.cfg.rollupStart = m.c.firm.number + 1 := by
        rw [hi.cfg_eq]; omega
      have hsoft_in : m.c.soft ∈ m.known := by rw [hrest]; exact List.mem_cons_self
      -- the shape of the result is the same whether the block comes from the pending map or
      -- from the rollup
      have hfinish : ∀ (b : Blk) (pend' : List (Nat × Blk)) (pre : List Rpc),
          b ∈ m.known → b.number = m.c.firm.number + 1 →
          (∀ k b', pendLookup k pend' = some b' → b' ∈ m.known ∧ b'.number = k) →
          (pre = [] ∨ pre = [.get b.number (.ok b)]) →
          ∃ m', m.stepEvent cfg ⟨.firm h cel, .ok, pre ++ [.update b m.c.soft cel (.ok ())]⟩ = some m' ∧
            SimInv cfg { cfg := cfg, ex := { c := ⟨b, m.c.soft, cel⟩, pending := pend' },
                         ru := { blocks := m.known, c := ⟨b, m.c.soft, cel⟩, nextId := s.ru.nextId,
                                 lieAt := s.ru.lieAt, execs := s.ru.execs } } m' := by
        intro b pend' pre hb hnum hpend hpre
        have hseq := hi.seq_ok b hb
        refine ⟨{ m with c := ⟨b, m.c.soft, cel⟩ }, ?_, ?_⟩
        · simp only [Mon.stepEvent]
          rw [if_neg (by unfold nextSeq; omega), if_neg hcond]
          rcases hpre with hpre | hpre
          · subst hpre
            simp only [List.nil_append, Mon.stepRpcs, Mon.stepRpc]
            rw [if_pos ⟨trivial, hnum, by omega, trivial⟩]
            rw [if_pos ⟨hb, hi.head.symm, by omega, by omega, Nat.le_refl _⟩]
            rfl
          · subst hpre
            simp only [List.cons_append, List.nil_append, Mon.stepRpcs, Mon.stepRpc]
            rw [if_pos ⟨trivial, hnum, by omega, trivial, trivial, trivial⟩]
            rw [if_pos ⟨hb, trivial⟩]
            simp only [Option.bind_some]
            rw [if_pos ⟨hb, hi.head.symm, by omega, by omega, Nat.le_refl _⟩]
            rfl
        · constructor
          · rfl
          · rfl
          · rfl
          · rfl
          · exact hi.head
          · exact hi.next
          · simp only; omega
          · simp only; omega
          · exact ⟨rest, hrest⟩
          · exact hi.chain
          · exact hb
          · exact hi.seq_ok
          · exact hi.ids
          · exact hpend
          · intro hm; rw [hmode] at hm; exact absurd hm (by decide)
          · exact hi.honest
      cases hl : pendLookup (h - s.cfg.seqStart + s.cfg.rollupStart) s.ex.pending with
      | some b =>
        obtain ⟨hb, hnum⟩ := hi.pend _ b hl
        rw [hbn] at hnum
        have hev := executeFirm_pending s h cel b (by rw [hnextF]; unfold nextSeq; exact heq) hhS hshould hl
          (by rw [hi.ru_c, hi.ex_c]) (by rw [hi.blocks]; exact hb) (by rw [hi.ex_c, hi.blocks]; exact hsoft_in)
          (by rw [hi.ex_c]; omega) (by rw [hi.ex_c]; omega) (by rw [hi.cfg_eq]; omega)
        rw [hev]
        simp only [hi.ex_c, hi.blocks, hi.cfg_eq]
        have := hfinish b (pendErase (h - cfg.seqStart + cfg.rollupStart) s.ex.pending) [] hb hnum
          (fun k b' hk => hi.pend k b' (pendLookup_erase _ _ _ _ hk)) (Or.inl rfl)
        simpa using this
      | none =>
        have hch := hi.chain
        rw [hrest] at hch
        obtain ⟨z, hz, hzn⟩ := chainOk_exists _ _ hch m.c.firm (by rw [← hrest]; exact hi.firm_in)
          (m.c.firm.number + 1) (by omega) (by omega)
        rw [← hrest] at hz
        cases hfind : m.known.find? (fun b => b.number = m.c.firm.number + 1) with
        | none =>
          rw [List.find?_eq_none] at hfind
          exact absurd (by simpa using hzn) (hfind z hz)
        | some b =>
          have hb := List.mem_of_find?_eq_some hfind
          have hnum : b.number = m.c.firm.number + 1 := by simpa using List.find?_some hfind
          have hget : s.ru.getBlock (h - s.cfg.seqStart + s.cfg.rollupStart) = .ok b := by
            unfold Rollup.getBlock
            simp only [hi.honest, ne_eq, not_true_eq_false, if_false]
            rw [hbn, hi.ru_c, if_neg (by omega), hi.blocks, hfind]
          have hev := executeFirm_fetch s h cel b (by rw [hnextF]; unfold nextSeq; exact heq) hhS hshould hl
            hget (by rw [hbn]; exact hnum)
            (by rw [hi.ru_c, hi.ex_c]) (by rw [hi.blocks]; exact hb) (by rw [hi.ex_c, hi.blocks]; exact hsoft_in)
            (by rw [hi.ex_c]; omega) (by rw [hi.ex_c]; omega) (by rw [hi.cfg_eq]; omega)
          rw [hev]
          rw [hbn]
          simp only [hi.ex_c, hi.blocks, hi.cfg_eq]
          have := hfinish b s.ex.pending [.get b.number (.ok b)] hb hnum hi.pend (Or.inr rfl)
          rw [hnum] at this
          simpa using this


theorem step_sim (cfg : Cfg) (s : Sys) (m : Mon) (op : Op) (hi : SimInv cfg s m)
    (hadm : op.admissible cfg.mode = true) :
    ∃ m', m.stepEvent cfg ⟨op, (step s op).2.res, (step s op).2.rpcs⟩ = some m'
      ∧ SimInv cfg (step s op).1 m' := by
  cases op with
  | soft h => exact step_sim_soft cfg s m h hi hadm
  | firm h cel => exact step_sim_firm cfg s m h cel hi hadm

theorem runFrom_accepted (cfg : Cfg) (s : Sys) (m : Mon) (ops : List Op) (hi : SimInv cfg s m)
    (hadm : ∀ op ∈ ops, op.admissible cfg.mode = true) :
    ∃ m', m.stepEvents cfg (runFrom s ops).2 = some m' ∧ SimInv cfg (runFrom s ops).1 m' := by
  induction ops generalizing s m with
  | nil => exact ⟨m, rfl, hi⟩
  | cons op ops ih =>
    obtain ⟨m1, h1, hi1⟩ := step_sim cfg s m op hi (hadm op (by simp))
    obtain ⟨m2, h2, hi2⟩ := ih (step s op).1 m1 hi1 (fun o ho => hadm o (by simp [ho]))
    refine ⟨m2, ?_, ?_⟩
    · simp only [runFrom, Mon.stepEvents, h1, Option.bind_some]
      exact h2
    · simpa only [runFrom] using hi2

/-- (B) For every well-formed session and every sequence of deliveries the readers can make, the
    history produced by the executor model is accepted. -/
theorem model_accepted (cfg : Cfg) (hwf : cfg.WF) (ops : List Op)
    (hadm : ∀ op ∈ ops, op.admissible cfg.mode = true) : Accepted cfg (run cfg ops).2 := by
  obtain ⟨m', h, _⟩ := runFrom_accepted cfg (Sys.init cfg) (Mon.init cfg) ops (simInv_init cfg hwf) hadm
  unfold Accepted run
  rw [h]; rfl

/-- The events of a run are the deliveries, in order. -/
theorem runFrom_ops (s : Sys) (ops : List Op) : (runFrom s ops).2.map (·.op) = ops := by
  induction ops generalizing s with
  | nil => rfl
  | cons op ops ih => simp only [runFrom, List.map_cons, ih]

/-- The event loop over pre-filled channels is one particular delivery sequence: replaying the
    deliveries it made, in its order, through `runFrom` gives the same final state and events. -/
theorem runLoop_is_run (s : Sys) (fl : List (Nat × Nat)) (sl : List Nat) :
    runFrom s ((runLoop s fl sl).2.2.1.map (·.op)) = ((runLoop s fl sl).1, (runLoop s fl sl).2.2.1) := by
  fun_induction runLoop s fl sl with
  | case1 s h c fs ss s1 o hso ev herr =>
    simp [runFrom, step, hso, ev]
  | case2 s h c fs ss s1 o hso ev herr s2 r evs lf ls hrec ih =>
    rw [hrec] at ih
    simp only at ih
    simp only [ev, List.map_cons, runFrom, step, hso, ih]
  | case3 s h ss hsp => simp [runFrom]
  | case4 s h ss hsp s1 o hso ev herr =>
    simp [runFrom, step, hso, ev]
  | case5 s h ss hsp s1 o hso ev herr s2 r evs lf ls hrec ih =>
    rw [hrec] at ih
    simp only at ih
    simp only [ev, List.map_cons, runFrom, step, hso, ih]
  | case6 s => simp [runFrom]

/-! ## Part C: deliveries that are not the expected height change nothing (any state) -/

theorem soft_unexpected_noop (s : Sys) (h : Nat) (hne : h ≠ s.nextSoft) :
    executeSoft s h = (s, ⟨if h < s.nextSoft then .dropped else .err .outOfOrder, []⟩) := by
  unfold executeSoft
  simp only
  by_cases hlt : h < s.nextSoft
  · rw [if_pos hlt, if_pos hlt]
  · rw [if_neg hlt, if_pos (by omega), if_neg hlt]

theorem firm_unexpected_noop (s : Sys) (h cel : Nat) (hne : h ≠ s.nextFirm) :
    executeFirm s h cel = (s, ⟨.err .heightMismatch, []⟩) := by
  unfold executeFirm
  simp only
  rw [if_pos hne]

/-! ## Part D: `BlockCache` -/

/-- Every block in the cache is at or above the next height. -/
def Cache.Inv (c : Cache) : Prop := ∀ e ∈ c.inner, c.next ≤ e.1

theorem cacheLookup_mem (k : Nat) (l : List (Nat × Nat)) (v : Nat) (h : cacheLookup k l = some v) :
    (k, v) ∈ l := by
  induction l with
  | nil => simp [cacheLookup] at h
  | cons e rest ih =>
    obtain ⟨k', v'⟩ := e
    simp only [cacheLookup] at h
    split at h
    · rename_i hk; injection h with h; subst hk; subst h; simp
    · exact List.mem_cons_of_mem _ (ih h)

theorem cache_step_inv (c : Cache) (op : COp) (hi : c.Inv) : (c.step op).1.Inv := by
  cases op with
  | insert h tag =>
    simp only [Cache.step, Cache.insert]
    split
    · rename_i c' heq
      split at heq
      · simp at heq
      · split at heq
        · simp at heq
        · injection heq with heq; subst heq
          intro e he
          simp only [List.mem_cons] at he
          rcases he with he | he
          · subst he; simp only; omega
          · exact hi e he
    · exact hi
  | pop =>
    simp only [Cache.step, Cache.pop]
    split
    · rename_i h tag c' heq
      split at heq
      · simp at heq
      · injection heq with h1 h2; subst h2
        intro e he
        simp only [List.mem_filter, decide_eq_true_eq] at he
        have := hi e he.1
        simp only; omega
    · rename_i c' heq
      split at heq
      · injection heq with h1 h2; subst h2; exact hi
      · simp at heq
  | dropObsolete h =>
    simp only [Cache.step, Cache.dropObsolete]
    intro e he
    simp only [List.mem_filter, decide_eq_true_eq] at he
    have := hi e he.1
    simp only; omega

/-- One cache operation: the next height never decreases; a pop hands out exactly the block at
    the next height and advances it by one; nothing else moves it except `drop_obsolete`. -/
theorem cache_step_next (c : Cache) (op : COp) :
    c.next ≤ (c.step op).1.next ∧
    (∀ h tag, (c.step op).2 = .popped h tag → h = c.next ∧ (c.step op).1.next = c.next + 1
        ∧ (h, tag) ∈ c.inner) ∧
    ((∀ h, op ≠ .dropObsolete h) → (∀ h tag, (c.step op).2 ≠ .popped h tag) →
        (c.step op).1.next = c.next) := by
  cases op with
  | insert h tag =>
    simp only [Cache.step]
    cases hins : c.insert h tag with
    | error e => simp
    | ok c' =>
      simp only [Cache.insert] at hins
      split at hins
      · simp at hins
      · split at hins
        · simp at hins
        · injection hins with hins; subst hins; simp
  | pop =>
    simp only [Cache.step, Cache.pop]
    cases hl : cacheLookup c.next c.inner with
    | none => simp
    | some tag =>
      simp only
      refine ⟨by omega, ?_, ?_⟩
      · intro h t heq
        injection heq with h1 h2
        subst h1; subst h2
        exact ⟨by trivial, by trivial, cacheLookup_mem _ _ _ hl⟩
      · intro _ hno
        exact absurd rfl (hno c.next tag)
  | dropObsolete h =>
    simp only [Cache.step, Cache.dropObsolete]
    refine ⟨by omega, by simp, ?_⟩
    intro hno
    exact absurd rfl (hno h)

def COp.isDrop : COp → Bool
  | .dropObsolete _ => true
  | _ => false

/-- (D) For every sequence of `insert` / `pop` / `drop_obsolete` on a cache: the heights handed
    out by `pop` are strictly increasing, none is below the starting next height, and the next
    height never decreases. -/
theorem cache_run_increasing (c : Cache) (ops : List COp) :
    (poppedHeights (c.run ops).2).Pairwise (· < ·) ∧
    (∀ h ∈ poppedHeights (c.run ops).2, c.next ≤ h) ∧
    c.next ≤ (c.run ops).1.next := by
  induction ops generalizing c with
  | nil => simp [Cache.run, poppedHeights]
  | cons op ops ih =>
    obtain ⟨h1, h2, _⟩ := cache_step_next c op
    obtain ⟨i1, i2, i3⟩ := ih (c.step op).1
    simp only [Cache.run]
    cases hout : (c.step op).2 with
    | popped h tag =>
      obtain ⟨e1, e2, _⟩ := h2 h tag hout
      simp only [poppedHeights, List.pairwise_cons, List.mem_cons]
      refine ⟨⟨fun a ha => ?_, i1⟩, ?_, by omega⟩
      · have := i2 a ha; omega
      · intro a ha
        rcases ha with ha | ha
        · omega
        · have := i2 a ha; omega
    | inserted => simp only [poppedHeights]; exact ⟨i1, fun a ha => by have := i2 a ha; omega, by omega⟩
    | insertErr e => simp only [poppedHeights]; exact ⟨i1, fun a ha => by have := i2 a ha; omega, by omega⟩
    | empty => simp only [poppedHeights]; exact ⟨i1, fun a ha => by have := i2 a ha; omega, by omega⟩
    | dropped => simp only [poppedHeights]; exact ⟨i1, fun a ha => by have := i2 a ha; omega, by omega⟩

/-- (D') Without `drop_obsolete` in between, `pop` yields exactly `next, next+1, next+2, …`. -/
theorem cache_run_sequential (c : Cache) (ops : List COp) (hnd : ∀ op ∈ ops, op.isDrop = false) :
    poppedHeights (c.run ops).2 = List.range' c.next (poppedHeights (c.run ops).2).length := by
  induction ops generalizing c with
  | nil => simp [Cache.run, poppedHeights]
  | cons op ops ih =>
    obtain ⟨_, h2, h3⟩ := cache_step_next c op
    have ih' := ih (c.step op).1 (fun o ho => hnd o (by simp [ho]))
    have hop : ∀ h, op ≠ .dropObsolete h := by
      intro h hh
      have := hnd op (by simp)
      rw [hh] at this
      simp [COp.isDrop] at this
    simp only [Cache.run]
    cases hout : (c.step op).2 with
    | popped h tag =>
      obtain ⟨e1, e2, _⟩ := h2 h tag hout
      simp only [poppedHeights, List.length_cons, List.range'_succ]
      rw [e1, ← e2]
      congr 1
    | inserted =>
      simp only [poppedHeights]
      rw [← h3 hop (by intro h t; rw [hout]; simp)]; exact ih'
    | insertErr e =>
      simp only [poppedHeights]
      rw [← h3 hop (by intro h t; rw [hout]; simp)]; exact ih'
    | empty =>
      simp only [poppedHeights]
      rw [← h3 hop (by intro h t; rw [hout]; simp)]; exact ih'
    | dropped =>
      simp only [poppedHeights]
      rw [← h3 hop (by intro h t; rw [hout]; simp)]; exact ih'

/-- (D'') Blocks below the next height are refused; a height is never held twice. -/
theorem cache_insert_refuses (c : Cache) (h tag : Nat) :
    (h < c.next → c.insert h tag = .error .old) ∧
    (∀ t, (h, t) ∈ c.inner → c.next ≤ h → ∃ e, c.insert h tag = .error e) := by
  constructor
  · intro hlt; simp [Cache.insert, hlt]
  · intro t ht hge
    simp only [Cache.insert]
    rw [if_neg (by omega)]
    cases hl : cacheLookup h c.inner with
    | some v => exact ⟨_, rfl⟩
    | none =>
      exfalso
      clear hge
      generalize c.inner = l at ht hl
      induction l with
      | nil => simp at ht
      | cons e rest ih =>
        obtain ⟨k', v'⟩ := e
        simp only [cacheLookup] at hl
        split at hl
        · simp at hl
        · rename_i hne
          simp only [List.mem_cons, Prod.mk.injEq] at ht
          rcases ht with ⟨hk, _⟩ | ht
          · exact hne hk
          · exact ih ht hl

end Astria.Conductor
