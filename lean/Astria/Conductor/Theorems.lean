import Astria.Conductor.Model
/- Theorems for area `executor` (stub). -/
namespace Astria.Conductor

end Astria.Conductor
