/-
  Model of the conductor's executor bookkeeping (property C10):

  * `crates/astria-conductor/src/executor/mod.rs`: `Initialized::{execute_soft, execute_firm,
    update_commitment_state, should_execute_firm_block, is_spread_too_large, run_event_loop}`,
    `does_block_response_fulfill_contract`, `Update::{OnlySoft, OnlyFirm, ToSame}`,
    `blocks_pending_finalization`;
  * `crates/astria-conductor/src/state.rs`: `State` (session parameters + commitment state),
    `next_expected_{soft,firm}_sequencer_height`, `try_map_sequencer_height_to_rollup_height`,
    `StateSender::try_update_commitment_state`;
  * `crates/astria-core/src/execution/v2/mod.rs`: `CommitmentStateBuilder::build` (firm ≤ soft);
  * `crates/astria-conductor/src/block_cache.rs`: `BlockCache::{with_next_height, insert, pop,
    drop_obsolete}`;
  * a contract-enforcing rollup (`Rollup`): the fake execution-API server of the harness
    (`/verif/harness/conductor/executor.rs`) is this state machine, line by line.

  Everything is over `Nat`; the harness keeps all heights and numbers far below `2^62`, so the
  `checked_add`/`u64`/`tendermint::Height` overflow branches of the Rust code are not reachable
  (stated as an assumption of the check).
-/
namespace Astria.Conductor

/-! ## Configuration of an execution session -/

/-- `config::CommitLevel`. -/
inductive Mode where
  | softOnly | firmOnly | softAndFirm
  deriving DecidableEq, Repr

def Mode.withFirm : Mode → Bool
  | .softOnly => false
  | _ => true

def Mode.withSoft : Mode → Bool
  | .firmOnly => false
  | _ => true

/-- What `CreateExecutionSession` returns (the parts the executor's bookkeeping reads) plus the
    conductor's commit level. `firm0`/`soft0` are the rollup block numbers of the initial
    commitment state. -/
structure Cfg where
  mode : Mode
  seqStart : Nat        -- sequencer_start_block_height
  rollupStart : Nat     -- rollup_start_block_number
  firm0 : Nat
  soft0 : Nat
  cel0 : Nat            -- lowest_celestia_search_height
  lookahead : Nat       -- celestia_search_height_max_look_ahead
  lie : Nat := 0        -- fault injection of the harness' rollup: 0 = honest; k > 0 = the k-th
                        -- ExecuteBlock answer carries a block number that violates the contract
  deriving DecidableEq, Repr

/-- A rollup block as the execution API reports it (`ExecutedBlockMetadata`): number, hash
    (`id`), parent hash (`parent`) and the sequencer height encoded in its
    `sequencer_block_hash` (`seq`). -/
structure Blk where
  number : Nat
  id : Nat
  parent : Nat
  seq : Nat
  deriving DecidableEq, Repr

/-- `CommitmentState`. -/
structure Commit where
  firm : Blk
  soft : Blk
  cel : Nat
  deriving DecidableEq, Repr

/-- `State::next_expected_{soft,firm}_sequencer_height` for a commitment at rollup number `n`:
    `map_rollup_number_to_sequencer_height(S, R, n).increment()` = `S + n - R + 1`.
    (For `R ≤ n + 1` and `S ≥ 1`, which `State::try_from_execution_session` and
    `try_update_commitment_state` enforce, this is `S + n + 1 - R` without truncation.) -/
def nextSeq (cfg : Cfg) (n : Nat) : Nat := cfg.seqStart + n + 1 - cfg.rollupStart

/-- The check inside `map_rollup_number_to_sequencer_height`: error if `R > n + 1`. -/
def mapOk (cfg : Cfg) (n : Nat) : Bool := decide (cfg.rollupStart ≤ n + 1)

/-- `state::try_map_sequencer_height_to_rollup_height`: `h - S + R`, error on underflow. -/
def seqToRollup (cfg : Cfg) (h : Nat) : Option Nat :=
  if h < cfg.seqStart then none else some (h - cfg.seqStart + cfg.rollupStart)

/-- The blocks `firm0 … soft0` the rollup already holds when the session starts, newest first.
    Block `n` has hash `n - firm0 + 1`, parent hash `n - firm0` and was executed from sequencer
    height `S + n - R`. -/
def initBlocksAux (cfg : Cfg) : Nat → List Blk
  | 0 => [⟨cfg.firm0, 1, 0, nextSeq cfg cfg.firm0 - 1⟩]
  | k + 1 => ⟨cfg.firm0 + k + 1, k + 2, k + 1, nextSeq cfg (cfg.firm0 + k + 1) - 1⟩ :: initBlocksAux cfg k

def initBlocks (cfg : Cfg) : List Blk := initBlocksAux cfg (cfg.soft0 - cfg.firm0)

def initFirm (cfg : Cfg) : Blk := ⟨cfg.firm0, 1, 0, nextSeq cfg cfg.firm0 - 1⟩

def initSoft (cfg : Cfg) : Blk :=
  ⟨cfg.firm0 + (cfg.soft0 - cfg.firm0), cfg.soft0 - cfg.firm0 + 1, cfg.soft0 - cfg.firm0,
   nextSeq cfg (cfg.firm0 + (cfg.soft0 - cfg.firm0)) - 1⟩

def initCommit (cfg : Cfg) : Commit := ⟨initFirm cfg, initSoft cfg, cfg.cel0⟩

/-! ## The contract-enforcing rollup -/

inductive RErr where
  | notHead            -- ExecuteBlock: parent is not the current soft head
  | unknownBlock       -- UpdateCommitmentState names a block the rollup never produced
  | firmExceedsSoft
  | decrease           -- a commitment would move backwards
  | noSuchBlock        -- GetExecutedBlockMetadata: no canonical block at that number
  deriving DecidableEq, Repr

inductive Res (α : Type) where
  | ok (a : α)
  | rej (e : RErr)
  deriving DecidableEq, Repr

structure Rollup where
  blocks : List Blk      -- every block ever produced, newest first
  c : Commit
  nextId : Nat
  lieAt : Nat := 0       -- see `Cfg.lie`
  execs : Nat := 0       -- ExecuteBlock requests answered so far
  deriving DecidableEq, Repr

def Rollup.init (cfg : Cfg) : Rollup :=
  ⟨initBlocks cfg, initCommit cfg, cfg.soft0 - cfg.firm0 + 2, cfg.lie, 0⟩

/-- `ExecuteBlock`: only on top of the current soft head (as astria-geth does); the new block
    gets the next number and a fresh hash. (With fault injection the `lieAt`-th answer skips a
    number, which the executor's contract check has to catch.) -/
def Rollup.executeBlock (r : Rollup) (parent seq : Nat) : Res Blk × Rollup :=
  if parent ≠ r.c.soft.id then (.rej .notHead, r)
  else
    let n := if r.lieAt ≠ 0 ∧ r.execs + 1 = r.lieAt then r.c.soft.number + 2 else r.c.soft.number + 1
    let b : Blk := ⟨n, r.nextId, parent, seq⟩
    (.ok b, { r with blocks := b :: r.blocks, nextId := r.nextId + 1, execs := r.execs + 1 })

/-- `UpdateCommitmentState`: both blocks must be blocks this rollup produced, firm ≤ soft,
    neither commitment may move backwards. -/
def Rollup.update (r : Rollup) (f s : Blk) (cel : Nat) : Res Commit × Rollup :=
  if ¬ (f ∈ r.blocks ∧ s ∈ r.blocks) then (.rej .unknownBlock, r)
  else if f.number > s.number then (.rej .firmExceedsSoft, r)
  else if f.number < r.c.firm.number ∨ s.number < r.c.soft.number then (.rej .decrease, r)
  else (.ok ⟨f, s, cel⟩, { r with c := ⟨f, s, cel⟩ })

/-- `GetExecutedBlockMetadata(number)`. (With fault injection it answers with the block below
    the requested one, which the client has to refuse.) -/
def Rollup.getBlock (r : Rollup) (n : Nat) : Res Blk :=
  if n > r.c.soft.number then .rej .noSuchBlock
  else match r.blocks.find? (fun b => b.number = if r.lieAt ≠ 0 then n - 1 else n) with
    | some b => .ok b
    | none => .rej .noSuchBlock

/-- The RPCs the rollup sees. -/
inductive Rpc where
  | exec (seq parent : Nat) (res : Res Blk)
  | update (f s : Blk) (cel : Nat) (res : Res Unit)
  | get (n : Nat) (res : Res Blk)
  deriving DecidableEq, Repr

/-! ## The executor -/

inductive ErrKind where
  | outOfOrder        -- soft: block above the expected height
  | heightMismatch    -- firm: block ≠ expected height
  | map               -- try_map_sequencer_height_to_rollup_height failed
  | execute           -- ExecuteBlock RPC failed
  | contract          -- does_block_response_fulfill_contract
  | getBlock          -- GetExecutedBlockMetadata failed
  | updateBuild       -- CommitmentState builder: firm exceeds soft
  | updateRpc         -- UpdateCommitmentState RPC failed
  | updateState       -- try_update_commitment_state: InvalidState
  deriving DecidableEq, Repr

inductive Outcome where
  | ok
  | dropped           -- stale soft block: `Ok(())` without any RPC
  | err (k : ErrKind)
  deriving DecidableEq, Repr

def Outcome.isErr : Outcome → Bool
  | .err _ => true
  | _ => false

/-- `blocks_pending_finalization: HashMap<u64, ExecutedBlockMetadata>` as an association list
    sorted by key. -/
def pendInsert (k : Nat) (v : Blk) : List (Nat × Blk) → List (Nat × Blk)
  | [] => [(k, v)]
  | (k', v') :: rest =>
    if k < k' then (k, v) :: (k', v') :: rest
    else if k = k' then (k, v) :: rest
    else (k', v') :: pendInsert k v rest

def pendLookup (k : Nat) : List (Nat × Blk) → Option Blk
  | [] => none
  | (k', v') :: rest => if k = k' then some v' else pendLookup k rest

def pendErase (k : Nat) (l : List (Nat × Blk)) : List (Nat × Blk) := l.filter (fun e => e.1 ≠ k)

/-- `Initialized`: the tracked `State` and the pending map. -/
structure Exec where
  c : Commit
  pending : List (Nat × Blk)
  deriving DecidableEq, Repr

structure Sys where
  cfg : Cfg
  ex : Exec
  ru : Rollup
  deriving DecidableEq, Repr

def Sys.init (cfg : Cfg) : Sys := ⟨cfg, ⟨initCommit cfg, []⟩, Rollup.init cfg⟩

def Sys.nextSoft (s : Sys) : Nat := nextSeq s.cfg s.ex.c.soft.number
def Sys.nextFirm (s : Sys) : Nat := nextSeq s.cfg s.ex.c.firm.number

structure Out where
  res : Outcome
  rpcs : List Rpc
  deriving DecidableEq, Repr

/-- `enum Update`. -/
inductive Update where
  | onlyFirm (b : Blk) (cel : Nat)
  | onlySoft (b : Blk)
  | toSame (b : Blk) (cel : Nat)

def Update.firm (s : Sys) : Update → Blk
  | .onlyFirm b _ => b
  | .onlySoft _ => s.ex.c.firm
  | .toSame b _ => b

def Update.soft (s : Sys) : Update → Blk
  | .onlyFirm _ _ => s.ex.c.soft
  | .onlySoft b => b
  | .toSame b _ => b

def Update.cel (s : Sys) : Update → Nat
  | .onlyFirm _ c => c
  | .onlySoft _ => s.ex.c.cel
  | .toSame _ c => c

/-- The `CommitLevel` handed to `try_update_commitment_state`. -/
def Update.level : Update → Mode
  | .onlyFirm _ _ => .firmOnly
  | .onlySoft _ => .softOnly
  | .toSame _ _ => .softAndFirm

/-- `StateSender::try_update_commitment_state`: the mapping checks for the given level. -/
def stateAccepts (cfg : Cfg) (lvl : Mode) (c : Commit) : Bool :=
  (!lvl.withFirm || mapOk cfg c.firm.number) && (!lvl.withSoft || mapOk cfg c.soft.number)

/-- `Initialized::update_commitment_state`. -/
def updateCommitment (s : Sys) (u : Update) : Sys × Outcome × List Rpc :=
  let f := u.firm s
  let so := u.soft s
  let cel := u.cel s
  -- CommitmentState::builder()…build()
  if f.number > so.number then (s, .err .updateBuild, [])
  else
    match s.ru.update f so cel with
    | (.rej e, ru') => ({ s with ru := ru' }, .err .updateRpc, [.update f so cel (.rej e)])
    | (.ok c', ru') =>
      if stateAccepts s.cfg u.level c' then
        ({ s with ru := ru', ex := { s.ex with c := c' } }, .ok, [.update f so cel (.ok ())])
      else
        ({ s with ru := ru' }, .err .updateState, [.update f so cel (.ok ())])

/-- `Initialized::execute_soft`. -/
def executeSoft (s : Sys) (h : Nat) : Sys × Out :=
  let expected := s.nextSoft
  if h < expected then (s, ⟨.dropped, []⟩)
  else if h > expected then (s, ⟨.err .outOfOrder, []⟩)
  else
    match seqToRollup s.cfg h with
    | none => (s, ⟨.err .map, []⟩)
    | some bn =>
      let parent := s.ex.c.soft.id
      match s.ru.executeBlock parent h with
      | (.rej e, ru') => ({ s with ru := ru' }, ⟨.err .execute, [.exec h parent (.rej e)]⟩)
      | (.ok b, ru') =>
        let s1 : Sys := { s with ru := ru' }
        let x := Rpc.exec h parent (.ok b)
        -- does_block_response_fulfill_contract(Soft)
        if b.number ≠ s.ex.c.soft.number + 1 then (s1, ⟨.err .contract, [x]⟩)
        else
          match updateCommitment s1 (.onlySoft b) with
          | (s2, .ok, rp) =>
            ({ s2 with ex := { s2.ex with pending := pendInsert bn b s2.ex.pending } }, ⟨.ok, x :: rp⟩)
          | (s2, o, rp) => (s2, ⟨o, x :: rp⟩)

/-- `should_execute_firm_block`. -/
def shouldExecuteFirm (firmSeq softSeq : Nat) : Mode → Bool
  | .softAndFirm => decide (firmSeq = softSeq)
  | .softOnly => false
  | .firmOnly => true

/-- `Initialized::execute_firm`. -/
def executeFirm (s : Sys) (h cel : Nat) : Sys × Out :=
  let expected := s.nextFirm
  if h ≠ expected then (s, ⟨.err .heightMismatch, []⟩)
  else
    match seqToRollup s.cfg h with
    | none => (s, ⟨.err .map, []⟩)
    | some bn =>
      if shouldExecuteFirm s.nextFirm s.nextSoft s.cfg.mode then
        let parent := s.ex.c.firm.id
        match s.ru.executeBlock parent h with
        | (.rej e, ru') => ({ s with ru := ru' }, ⟨.err .execute, [.exec h parent (.rej e)]⟩)
        | (.ok b, ru') =>
          let s1 : Sys := { s with ru := ru' }
          let x := Rpc.exec h parent (.ok b)
          -- does_block_response_fulfill_contract(Firm)
          if b.number ≠ s.ex.c.firm.number + 1 then (s1, ⟨.err .contract, [x]⟩)
          else
            match updateCommitment s1 (.toSame b cel) with
            | (s2, o, rp) => (s2, ⟨o, x :: rp⟩)
      else
        match pendLookup bn s.ex.pending with
        | some b =>
          -- `blocks_pending_finalization.remove(&block_number)`
          let s1 : Sys := { s with ex := { s.ex with pending := pendErase bn s.ex.pending } }
          match updateCommitment s1 (.onlyFirm b cel) with
          | (s2, o, rp) => (s2, ⟨o, rp⟩)
        | none =>
          -- fall back to asking the rollup; the client insists on the requested number
          match s.ru.getBlock bn with
          | .rej e => (s, ⟨.err .getBlock, [.get bn (.rej e)]⟩)
          | .ok b =>
            let g := Rpc.get bn (.ok b)
            if b.number ≠ bn then (s, ⟨.err .getBlock, [g]⟩)
            else
              match updateCommitment s (.onlyFirm b cel) with
              | (s2, o, rp) => (s2, ⟨o, g :: rp⟩)

/-- A block handed to the executor by one of the readers. -/
inductive Op where
  | soft (h : Nat)
  | firm (h cel : Nat)
  deriving DecidableEq, Repr

def step (s : Sys) : Op → Sys × Out
  | .soft h => executeSoft s h
  | .firm h cel => executeFirm s h cel

/-- One delivery with everything observable about it. -/
structure Event where
  op : Op
  res : Outcome
  rpcs : List Rpc
  deriving DecidableEq, Repr

/-- Run a delivery sequence; the executor keeps going after an error (the real task exits on
    the first error, i.e. it sees a prefix of such a run). -/
def runFrom (s : Sys) : List Op → Sys × List Event
  | [] => (s, [])
  | op :: ops =>
    let (s1, o) := step s op
    let (s2, evs) := runFrom s1 ops
    (s2, ⟨op, o.res, o.rpcs⟩ :: evs)

def run (cfg : Cfg) (ops : List Op) : Sys × List Event := runFrom (Sys.init cfg) ops

/-- The deliveries that can occur: a reader exists only for the commit levels that use it
    (`Executor::init` spawns the Celestia reader iff `is_with_firm`, the sequencer reader iff
    `is_with_soft`; the other channel's sender is dropped). -/
def Op.admissible (m : Mode) : Op → Bool
  | .soft _ => m.withSoft
  | .firm _ _ => m.withFirm

/-! ## `run_event_loop` over pre-filled channels -/

/-- `Initialized::is_spread_too_large`. -/
def Sys.spreadTooLarge (s : Sys) : Bool :=
  s.cfg.mode.withFirm && decide (s.nextSoft - s.nextFirm ≥ s.cfg.lookahead)

/-- The order in which `run_event_loop`'s `biased select!` takes blocks when both channels were
    filled and closed beforehand: firm first; soft only while the spread is small; exit on the
    first error or when nothing can be received. Returns the final system, whether the loop
    ended with an error, the events, and the blocks left in the two channels. -/
def runLoop (s : Sys) : List (Nat × Nat) → List Nat → Sys × Outcome × List Event × Nat × Nat
  | (h, c) :: fs, ss =>
    let (s1, o) := executeFirm s h c
    let ev : Event := ⟨.firm h c, o.res, o.rpcs⟩
    if o.res.isErr then (s1, o.res, [ev], fs.length, ss.length)
    else
      let (s2, r, evs, lf, ls) := runLoop s1 fs ss
      (s2, r, ev :: evs, lf, ls)
  | [], h :: ss =>
    if s.spreadTooLarge then (s, .ok, [], 0, (h :: ss).length)
    else
      let (s1, o) := executeSoft s h
      let ev : Event := ⟨.soft h, o.res, o.rpcs⟩
      if o.res.isErr then (s1, o.res, [ev], 0, ss.length)
      else
        let (s2, r, evs, lf, ls) := runLoop s1 [] ss
        (s2, r, ev :: evs, lf, ls)
  | [], [] => (s, .ok, [], 0, 0)
termination_by fs ss => fs.length + ss.length

/-! ## `BlockCache` -/

inductive CErr where
  | zero        -- ZeroHeightsNotSupported
  | old         -- Old
  | occupied    -- Occupied
  deriving DecidableEq, Repr

/-- `BlockCache<T>`: `inner` is the `BTreeMap` as a list of (height, block tag). -/
structure Cache where
  inner : List (Nat × Nat)
  next : Nat
  deriving DecidableEq, Repr

def Cache.withNextHeight (n : Nat) : Except CErr Cache :=
  if n = 0 then .error .zero else .ok ⟨[], n⟩

def cacheLookup (k : Nat) : List (Nat × Nat) → Option Nat
  | [] => none
  | (k', v) :: rest => if k = k' then some v else cacheLookup k rest

/-- `pop`. -/
def Cache.pop (c : Cache) : Option (Nat × Nat) × Cache :=
  match cacheLookup c.next c.inner with
  | none => (none, c)
  | some tag => (some (c.next, tag), ⟨c.inner.filter (fun e => e.1 ≠ c.next), c.next + 1⟩)

/-- `drop_obsolete`. -/
def Cache.dropObsolete (c : Cache) (latest : Nat) : Cache :=
  ⟨c.inner.filter (fun e => latest ≤ e.1), max c.next latest⟩

/-- `insert` of a block whose header height is `h`. -/
def Cache.insert (c : Cache) (h tag : Nat) : Except CErr Cache :=
  if h < c.next then .error .old
  else match cacheLookup h c.inner with
    | some _ => .error .occupied
    | none => .ok ⟨(h, tag) :: c.inner, c.next⟩

inductive COp where
  | insert (h tag : Nat)
  | pop
  | dropObsolete (h : Nat)
  deriving DecidableEq, Repr

inductive COut where
  | inserted
  | insertErr (e : CErr)
  | popped (h tag : Nat)
  | empty
  | dropped
  deriving DecidableEq, Repr

def Cache.step (c : Cache) : COp → Cache × COut
  | .insert h tag =>
    match c.insert h tag with
    | .ok c' => (c', .inserted)
    | .error e => (c, .insertErr e)
  | .pop =>
    match c.pop with
    | (some (h, tag), c') => (c', .popped h tag)
    | (none, c') => (c', .empty)
  | .dropObsolete h => (c.dropObsolete h, .dropped)

def Cache.run (c : Cache) : List COp → Cache × List COut
  | [] => (c, [])
  | op :: ops =>
    let (c1, o) := c.step op
    let (c2, os) := Cache.run c1 ops
    (c2, o :: os)

/-- Heights handed out by `pop`, in order. -/
def poppedHeights : List COut → List Nat
  | [] => []
  | .popped h _ :: rest => h :: poppedHeights rest
  | _ :: rest => poppedHeights rest

end Astria.Conductor
