/- Model for area `executor` (stub). -/
namespace Astria.Conductor

end Astria.Conductor
