import Astria.Ledger.Model
/-
  C01: value only moves.  `total s a` = all account balances + all IBC escrow + the fees
  accumulated in the block, for asset `a`.  Every primitive effect changes it by a known signed
  amount (`delta`), hence every action, transaction, packet handler and block end does.
-/
namespace Astria.Ledger

/-! ## sums over association lists -/

/-- Sum of the entries of a map keyed by `(κ × String)` whose asset component is `a`. -/
def totalA {κ : Type} : List ((κ × String) × Nat) → String → Nat
  | [], _ => 0
  | e :: m, a => (if e.1.2 = a then e.2 else 0) + totalA m a

/-- Splitting the per-asset total at one key. -/
theorem totalA_split {κ : Type} [DecidableEq κ] (m : List ((κ × String) × Nat)) (x : κ) (a : String) :
    totalA m a = getN m (x, a) + totalA (erase m (x, a)) a := by
  induction m with
  | nil => simp [totalA, getN, erase]
  | cons e rest ih =>
    simp only [totalA, getN, erase]
    by_cases hk : e.1 = (x, a)
    · have ha : e.1.2 = a := by rw [hk]
      simp only [hk, if_true]
      omega
    · simp only [hk, if_false, totalA]
      omega

theorem totalA_erase_other {κ : Type} [DecidableEq κ] (m : List ((κ × String) × Nat)) (x : κ)
    (a a' : String) (h : a' ≠ a) : totalA (erase m (x, a)) a' = totalA m a' := by
  induction m with
  | nil => rfl
  | cons e rest ih =>
    simp only [erase]
    by_cases hk : e.1 = (x, a)
    · have ha : e.1.2 = a := by rw [hk]
      have : ¬ (e.1.2 = a') := by rw [ha]; exact fun h' => h h'.symm
      simp only [hk, if_true, totalA, ha]
      simp only [ha] at this
      simp [this, ih]
    · simp only [hk, if_false, totalA, ih]

/-- Writing `v` at `(x, a)` changes the total of `a` from the old value there to `v`. -/
theorem totalA_setN_same {κ : Type} [DecidableEq κ] (m : List ((κ × String) × Nat)) (x : κ)
    (a : String) (v : Nat) :
    totalA (setN m (x, a) v) a + getN m (x, a) = totalA m a + v := by
  have := totalA_split m x a
  simp only [setN, totalA, if_true]
  omega

theorem totalA_setN_other {κ : Type} [DecidableEq κ] (m : List ((κ × String) × Nat)) (x : κ)
    (a a' : String) (v : Nat) (h : a' ≠ a) :
    totalA (setN m (x, a) v) a' = totalA m a' := by
  have hk : ¬ (a = a') := fun h' => h h'.symm
  simp only [setN, totalA, hk, if_false, totalA_erase_other m x a a' h]
  omega

theorem getN_erase_same {κ : Type} [DecidableEq κ] (m : List (κ × Nat)) (k : κ) :
    getN (erase m k) k = 0 := by
  induction m with
  | nil => rfl
  | cons e rest ih =>
    simp only [erase]
    by_cases h : e.1 = k
    · simp [h, ih]
    · simp [h, getN, ih]

theorem getN_erase_other {κ : Type} [DecidableEq κ] (m : List (κ × Nat)) (k k' : κ) (h : k' ≠ k) :
    getN (erase m k) k' = getN m k' := by
  induction m with
  | nil => rfl
  | cons e rest ih =>
    simp only [erase]
    by_cases he : e.1 = k
    · have : ¬ (e.1 = k') := by rw [he]; exact fun h' => h h'.symm
      simp [he, getN, ih]
      intro h'; exact absurd h'.symm h
    · simp [he, getN, ih]

theorem getN_setN_same {κ : Type} [DecidableEq κ] (m : List (κ × Nat)) (k : κ) (v : Nat) :
    getN (setN m k v) k = v := by
  simp [setN, getN, getN_erase_same]

theorem getN_setN_other {κ : Type} [DecidableEq κ] (m : List (κ × Nat)) (k k' : κ) (v : Nat)
    (h : k' ≠ k) : getN (setN m k v) k' = getN m k' := by
  have hk : ¬ (k = k') := fun h' => h h'.symm
  simp [setN, getN, hk, getN_erase_other m k k' h]

/-! ## the conserved quantity -/

/-- Everything of asset `a` the ledger holds: account balances, IBC escrow, and the fees
    collected so far in the current block (paid out at block end). -/
def total (s : State) (a : String) : Nat := totalA s.bal a + totalA s.esc a + getN s.blockFees a

/-- Signed change of `total · a` caused by one primitive effect. -/
def delta (a : String) : Effect → Int
  | .debit _ a' n => if a' = a then -(n : Int) else 0
  | .credit _ a' n => if a' = a then (n : Int) else 0
  | .escAdd _ a' n => if a' = a then (n : Int) else 0
  | .escSub _ a' n => if a' = a then -(n : Int) else 0
  | .blockFee a' n _ => if a' = a then (n : Int) else 0
  | _ => 0

def deltas (a : String) (fx : List Effect) : Int := (fx.map (delta a)).sum

theorem updBridge_total (s : State) (b : String) (f : BridgeAcct → BridgeAcct) (a : String) :
    total (updBridge s b f) a = total s a := by
  unfold updBridge; split <;> rfl

theorem applyEffect_total (s s' : State) (e : Effect) (a : String) (h : applyEffect s e = some s') :
    (total s' a : Int) = total s a + delta a e := by
  cases e with
  | debit x a' n =>
    simp only [applyEffect] at h
    split at h
    · rename_i hle
      injection h with h; subst h
      simp only [total, delta]
      by_cases ha : a' = a
      · subst ha
        have := totalA_setN_same s.bal x a' (getN s.bal (x, a') - n)
        simp only [if_true]
        omega
      · have := totalA_setN_other s.bal x a' a (getN s.bal (x, a') - n) (fun h => ha h.symm)
        simp only [ha, if_false]
        omega
    · cases h
  | credit x a' n =>
    simp only [applyEffect] at h
    split at h
    · injection h with h; subst h
      simp only [total, delta]
      by_cases ha : a' = a
      · subst ha
        have := totalA_setN_same s.bal x a' (getN s.bal (x, a') + n)
        simp only [if_true]
        omega
      · have := totalA_setN_other s.bal x a' a (getN s.bal (x, a') + n) (fun h => ha h.symm)
        simp only [ha, if_false]
        omega
    · cases h
  | escAdd c a' n =>
    simp only [applyEffect] at h
    split at h
    · injection h with h; subst h
      simp only [total, delta]
      by_cases ha : a' = a
      · subst ha
        have := totalA_setN_same s.esc c a' (getN s.esc (c, a') + n)
        simp only [if_true]
        omega
      · have := totalA_setN_other s.esc c a' a (getN s.esc (c, a') + n) (fun h => ha h.symm)
        simp only [ha, if_false]
        omega
    · cases h
  | escSub c a' n =>
    simp only [applyEffect] at h
    split at h
    · rename_i hle
      injection h with h; subst h
      simp only [total, delta]
      by_cases ha : a' = a
      · subst ha
        have := totalA_setN_same s.esc c a' (getN s.esc (c, a') - n)
        simp only [if_true]
        omega
      · have := totalA_setN_other s.esc c a' a (getN s.esc (c, a') - n) (fun h => ha h.symm)
        simp only [ha, if_false]
        omega
    · cases h
  | blockFee a' n pos =>
    simp only [applyEffect] at h
    split at h
    · injection h with h; subst h
      simp only [total, delta]
      by_cases ha : a' = a
      · subst ha
        rw [getN_setN_same]
        simp only [if_true]
        omega
      · rw [getN_setN_other _ _ _ _ (fun h => ha h.symm)]
        simp only [ha, if_false]
        omega
    · cases h
  | deposit d => simp only [applyEffect] at h; injection h with h; subst h; simp [total, delta]
  | recordWd b id blk => simp only [applyEffect] at h; injection h with h; subst h; simp [total, delta]
  | initBridge x r as su w => simp only [applyEffect] at h; injection h with h; subst h; simp [total, delta]
  | setBridgeSudo b x =>
    simp only [applyEffect] at h; injection h with h; subst h; simp [delta, updBridge_total]
  | setBridgeWithdrawer b x =>
    simp only [applyEffect] at h; injection h with h; subst h; simp [delta, updBridge_total]
  | setBridgeDisabled b v =>
    simp only [applyEffect] at h; injection h with h; subst h; simp [delta, updBridge_total]
  | setSudo x => simp only [applyEffect] at h; injection h with h; subst h; simp [total, delta]
  | setIbcSudo x => simp only [applyEffect] at h; injection h with h; subst h; simp [total, delta]
  | addRelayer x => simp only [applyEffect] at h; injection h with h; subst h; simp [total, delta]
  | delRelayer x => simp only [applyEffect] at h; injection h with h; subst h; simp [total, delta]
  | setFee k cfg => simp only [applyEffect] at h; injection h with h; subst h; simp [total, delta]
  | addFeeAsset x => simp only [applyEffect] at h; injection h with h; subst h; simp [total, delta]
  | delFeeAsset x => simp only [applyEffect] at h; injection h with h; subst h; simp [total, delta]
  | valUpdate key power =>
    simp only [applyEffect] at h
    split at h
    · injection h with h; subst h; simp [total, delta]
    · split at h
      · injection h with h; subst h; simp [total, delta]
      · split at h <;> (injection h with h; subst h; simp [total, delta])
  | registerAsset x =>
    simp only [applyEffect] at h; injection h with h; subst h
    simp only [delta]
    split <;> simp [total]
  | addPair x => simp only [applyEffect] at h; injection h with h; subst h; simp [total, delta]
  | delPair x => simp only [applyEffect] at h; injection h with h; subst h; simp [total, delta]
  | setMarkets x => simp only [applyEffect] at h; injection h with h; subst h; simp [total, delta]
  | fail => simp [applyEffect] at h

theorem applyEffects_total (fx : List Effect) (s s' : State) (a : String)
    (h : applyEffects s fx = some s') : (total s' a : Int) = total s a + deltas a fx := by
  induction fx generalizing s with
  | nil => simp [applyEffects] at h; subst h; simp [deltas]
  | cons e rest ih =>
    simp only [applyEffects] at h
    cases he : applyEffect s e with
    | none => simp [he] at h
    | some s1 =>
      simp only [he] at h
      have h1 := applyEffect_total s s1 e a he
      have h2 := ih s1 h
      simp only [deltas, List.map_cons, List.sum_cons] at *
      omega

end Astria.Ledger
