import Astria.Ledger.Escrow
/-
  C01 over whole histories: along every sequence of transactions (valid or failing), received
  packets (acknowledged or rejected), refunds and block ends — for as long as the chain does not
  halt (a failing `end_block` stops the node) — the total of every asset (balances + escrow +
  block fees) equals the initial total plus exactly what the IBC operations minted minus what
  they burnt.
-/
namespace Astria.Ledger

/-- Signed amount of asset `a` that one operation mints (+) or burns (−); 0 unless it succeeded. -/
def mintedBy (a : String) (s : State) : Op → Int
  | .tx t => if (execTx s t).toBool then (t.actions.map (mintBurn a)).sum else 0
  | .recv p =>
    if (recvPacket s p).1 = true ∧ hasLeading p.denom p.srcChan = false ∧ recvAsset p = a
    then (p.amount : Int) else 0
  | .refund p =>
    if (refundPacket s p).toBool = true ∧ hasLeading p.denom p.srcChan = true ∧ p.denom = a
    then (p.amount : Int) else 0
  | .endBlock => 0

/-- The chain halts when `end_block` fails. -/
def halts (s : State) : Op → Bool
  | .endBlock => !(endBlock s).1
  | _ => false

/-- Run a history; `none` = the chain halted. -/
def runH (s : State) : List Op → Option State
  | [] => some s
  | op :: rest => if halts s op then none else runH (stepOp s op) rest

def totalMinted (a : String) : State → List Op → Int
  | _, [] => 0
  | s, op :: rest => mintedBy a s op + totalMinted a (stepOp s op) rest

theorem stepOp_total (s : State) (op : Op) (a : String) (hh : halts s op = false) :
    (total (stepOp s op) a : Int) = total s a + mintedBy a s op := by
  cases op with
  | tx t =>
    simp only [stepOp, stepTx, mintedBy]
    cases h : execTx s t with
    | error e => simp [Except.toBool]
    | ok s' => simp [Except.toBool, execTx_total s s' t a h]
  | recv p =>
    simp only [stepOp, mintedBy]
    have := recvPacket_total s (recvPacket s p).2 p (recvPacket s p).1 a rfl
    rw [this]
  | refund p =>
    simp only [stepOp, mintedBy]
    cases h : refundPacket s p with
    | error e => simp [Except.toBool]
    | ok s' =>
      have := refundPacket_total s s' p a h
      simp [Except.toBool, this]
  | endBlock =>
    simp only [stepOp, mintedBy, Int.add_zero]
    simp only [halts, Bool.not_eq_false'] at hh
    have he : endBlock s = (true, (endBlock s).2.1, (endBlock s).2.2) := by
      rw [← hh]
    have := (endBlock_routes s _ _ he).2.2.2 a
    rw [this]

/-- **C01 for every history.** -/
theorem conservation_history (a : String) (ops : List Op) (s s' : State)
    (h : runH s ops = some s') : (total s' a : Int) = total s a + totalMinted a s ops := by
  induction ops generalizing s with
  | nil => simp [runH] at h; subst h; simp [totalMinted]
  | cons op rest ih =>
    simp only [runH] at h
    cases hh : halts s op with
    | true => simp [hh] at h
    | false =>
      simp only [hh] at h
      have h1 := stepOp_total s op a hh
      have h2 := ih (stepOp s op) h
      simp only [totalMinted]
      omega

/-- Corollary: a history without successful IBC operations on asset `a` (only transactions that
    do not withdraw `a` over IBC, and any block ends) leaves the total of `a` unchanged. -/
theorem conservation_history_closed (a : String) (ops : List Op) (s s' : State)
    (h : runH s ops = some s') (hz : totalMinted a s ops = 0) : total s' a = total s a := by
  have := conservation_history a ops s s' h
  omega

/-! ## C03 over mixed histories: packets and block ends never move a nonce -/

theorem payFees_nonce (fees : List (String × Nat)) (s s' : State) (h : payFees s fees = some s') :
    s'.nonce = s.nonce := (payFees_spec fees s s' h).2.2.2.2.2.2.2.1

/-- Account nonces never decrease along any operation, and only a transaction that takes effect
    moves one. -/
theorem stepOp_nonce_mono (s : State) (op : Op) (x : String) :
    getN s.nonce x ≤ getN (stepOp s op).nonce x := by
  cases op with
  | tx t => exact stepTx_nonce_mono s t x
  | recv p =>
    simp only [stepOp, recvPacket]
    cases hp : recvPlan s p with
    | none => exact Nat.le_refl _
    | some fx =>
      simp only
      cases h : applyEffects s fx with
      | none => exact Nat.le_refl _
      | some s' => simp only; rw [applyEffects_nonce fx s s' h]; exact Nat.le_refl _
  | refund p =>
    simp only [stepOp, refundPacket]
    cases hp : refundPlan s p with
    | none => exact Nat.le_refl _
    | some fx =>
      simp only
      cases h : applyEffects s fx with
      | none => exact Nat.le_refl _
      | some s' => simp only; rw [applyEffects_nonce fx s s' h]; exact Nat.le_refl _
  | endBlock =>
    simp only [stepOp, endBlock]
    split
    · rename_i s3 hp
      have := payFees_nonce _ _ s3 hp
      simp only [this]
      have := (authorityEndBlock_fields s).2.2.2.2
      simp only [this]; exact Nat.le_refl _
    · exact Nat.le_refl _

/-- Number of times the signed transaction `tx` takes effect along a mixed history. -/
def successesOp (tx : Tx) : State → List Op → Nat
  | _, [] => 0
  | s, op :: rest =>
    (match op with
     | .tx t => if t = tx ∧ (execTx s t).toBool then 1 else 0
     | _ => 0) + successesOp tx (stepOp s op) rest

theorem successesOp_zero_of_nonce_gt (tx : Tx) (ops : List Op) (s : State)
    (h : getN s.nonce tx.signer > tx.nonce) : successesOp tx s ops = 0 := by
  induction ops generalizing s with
  | nil => rfl
  | cons op rest ih =>
    simp only [successesOp]
    have hmono := stepOp_nonce_mono s op tx.signer
    rw [ih (stepOp s op) (by omega)]
    cases op with
    | tx t =>
      simp only
      by_cases ht : t = tx
      · subst ht
        cases he : execTx s t with
        | error e => simp [Except.toBool]
        | ok s' =>
          have := (execTx_nonce_gate s s' t he).1
          omega
      · simp [ht]
    | recv p => rfl
    | refund p => rfl
    | endBlock => rfl

/-- **C03 (at most once), every mixed history**: along any sequence of transactions of any
    signers (taking effect or failing), ICS20 packets and block ends, from any state, a given
    signed transaction takes effect at most once. -/
theorem no_replay_history (tx : Tx) (ops : List Op) (s : State) : successesOp tx s ops ≤ 1 := by
  induction ops generalizing s with
  | nil => simp [successesOp]
  | cons op rest ih =>
    simp only [successesOp]
    cases op with
    | tx t =>
      simp only
      by_cases ht : t = tx ∧ (execTx s t).toBool = true
      · obtain ⟨h1, h2⟩ := ht
        subst h1
        cases he : execTx s t with
        | error e => simp [he, Except.toBool] at h2
        | ok s' =>
          have hg := execTx_nonce_gate s s' t he
          have : stepOp s (.tx t) = s' := by simp [stepOp, stepTx, he]
          rw [this, successesOp_zero_of_nonce_gt t rest s' (by omega)]
          simp [Except.toBool]
      · have := ih (stepOp s (.tx t))
        simp only [ht, if_false]
        omega
    | recv p => have := ih (stepOp s (.recv p)); simpa using this
    | refund p => have := ih (stepOp s (.refund p)); simpa using this
    | endBlock => have := ih (stepOp s .endBlock); simpa using this

end Astria.Ledger
