import Astria.Ledger.Escrow
/-
  C01 over whole histories: along every sequence of transactions (valid or failing), received
  packets (acknowledged or rejected), refunds and block ends — for as long as the chain does not
  halt (a failing `end_block` stops the node) — the total of every asset (balances + escrow +
  block fees) equals the initial total plus exactly what the IBC operations minted minus what
  they burnt.
-/
namespace Astria.Ledger

/-- Signed amount of asset `a` that one operation mints (+) or burns (−); 0 unless it succeeded. -/
def mintedBy (a : String) (s : State) : Op → Int
  | .tx t => if (execTx s t).toBool then (t.actions.map (mintBurn a)).sum else 0
  | .recv p =>
    if (recvPacket s p).1 = true ∧ hasLeading p.denom p.srcChan = false ∧ recvAsset p = a
    then (p.amount : Int) else 0
  | .refund p =>
    if (refundPacket s p).toBool = true ∧ hasLeading p.denom p.srcChan = true ∧ p.denom = a
    then (p.amount : Int) else 0
  | .endBlock => 0

/-- The chain halts when `end_block` fails. -/
def halts (s : State) : Op → Bool
  | .endBlock => !(endBlock s).1
  | _ => false

/-- Run a history; `none` = the chain halted. -/
def runH (s : State) : List Op → Option State
  | [] => some s
  | op :: rest => if halts s op then none else runH (stepOp s op) rest

def totalMinted (a : String) : State → List Op → Int
  | _, [] => 0
  | s, op :: rest => mintedBy a s op + totalMinted a (stepOp s op) rest

theorem stepOp_total (s : State) (op : Op) (a : String) (hh : halts s op = false) :
    (total (stepOp s op) a : Int) = total s a + mintedBy a s op := by
  cases op with
  | tx t =>
    simp only [stepOp, stepTx, mintedBy]
    cases h : execTx s t with
    | error e => simp [Except.toBool]
    | ok s' => simp [Except.toBool, execTx_total s s' t a h]
  | recv p =>
    simp only [stepOp, mintedBy]
    have := recvPacket_total s (recvPacket s p).2 p (recvPacket s p).1 a rfl
    rw [this]
  | refund p =>
    simp only [stepOp, mintedBy]
    cases h : refundPacket s p with
    | error e => simp [Except.toBool]
    | ok s' =>
      have := refundPacket_total s s' p a h
      simp [Except.toBool, this]
  | endBlock =>
    simp only [stepOp, mintedBy, Int.add_zero]
    simp only [halts, Bool.not_eq_false'] at hh
    have he : endBlock s = (true, (endBlock s).2.1, (endBlock s).2.2) := by
      rw [← hh]
    have := (endBlock_routes s _ _ he).2.2.2 a
    rw [this]

/-- **C01 for every history.** -/
theorem conservation_history (a : String) (ops : List Op) (s s' : State)
    (h : runH s ops = some s') : (total s' a : Int) = total s a + totalMinted a s ops := by
  induction ops generalizing s with
  | nil => simp [runH] at h; subst h; simp [totalMinted]
  | cons op rest ih =>
    simp only [runH] at h
    cases hh : halts s op with
    | true => simp [hh] at h
    | false =>
      simp only [hh] at h
      have h1 := stepOp_total s op a hh
      have h2 := ih (stepOp s op) h
      simp only [totalMinted]
      omega

/-- Corollary: a history without successful IBC operations on asset `a` (only transactions that
    do not withdraw `a` over IBC, and any block ends) leaves the total of `a` unchanged. -/
theorem conservation_history_closed (a : String) (ops : List Op) (s s' : State)
    (h : runH s ops = some s') (hz : totalMinted a s ops = 0) : total s' a = total s a := by
  have := conservation_history a ops s s' h
  omega

end Astria.Ledger
