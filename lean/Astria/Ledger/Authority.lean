import Astria.Ledger.Bridge
/-
  C02: only the owner or the designated authority moves funds or changes privileged state.
-/
namespace Astria.Ledger

/-! ## who can lose funds -/

/-- Only `debit` and `credit` effects touch account balances. -/
theorem applyEffect_bal_frame (s s' : State) (e : Effect) (h : applyEffect s e = some s')
    (hd : ∀ x a n, e ≠ .debit x a n) (hc : ∀ x a n, e ≠ .credit x a n) : s'.bal = s.bal := by
  cases e <;> simp only [applyEffect] at h
  case debit x a n => exact absurd rfl (hd x a n)
  case credit x a n => exact absurd rfl (hc x a n)
  all_goals first
    | (cases h; done)
    | (injection h with h; subst h; rfl)
    | (injection h with h; subst h; unfold updBridge; split <;> rfl)
    | (injection h with h; subst h; split <;> rfl)
    | (split at h
       · injection h with h; subst h; rfl
       · cases h)
    | (split at h
       · injection h with h; subst h; rfl
       · split at h
         · injection h with h; subst h; rfl
         · split at h <;> (injection h with h; subst h; rfl))

theorem applyEffect_decrease (s s' : State) (e : Effect) (k : String × String)
    (h : applyEffect s e = some s') (hlt : getN s'.bal k < getN s.bal k) :
    ∃ n, e = .debit k.1 k.2 n := by
  by_cases hd : ∃ x a n, e = .debit x a n
  · obtain ⟨x, a, n, rfl⟩ := hd
    simp only [applyEffect] at h
    split at h
    · injection h with h; subst h
      by_cases hk : k = (x, a)
      · subst hk; exact ⟨n, rfl⟩
      · simp only at hlt; rw [getN_setN_other _ _ _ _ hk] at hlt; omega
    · cases h
  · by_cases hc : ∃ x a n, e = .credit x a n
    · obtain ⟨x, a, n, rfl⟩ := hc
      simp only [applyEffect] at h
      split at h
      · injection h with h; subst h
        simp only at hlt
        by_cases hk : k = (x, a)
        · subst hk; rw [getN_setN_same] at hlt; omega
        · rw [getN_setN_other _ _ _ _ hk] at hlt; omega
      · cases h
    · have := applyEffect_bal_frame s s' e h
        (fun x a n he => hd ⟨x, a, n, he⟩) (fun x a n he => hc ⟨x, a, n, he⟩)
      rw [this] at hlt; omega

theorem applyEffects_decrease (fx : List Effect) (s s' : State) (k : String × String)
    (h : applyEffects s fx = some s') (hlt : getN s'.bal k < getN s.bal k) :
    ∃ n, Effect.debit k.1 k.2 n ∈ fx := by
  induction fx generalizing s with
  | nil => simp [applyEffects] at h; subst h; omega
  | cons e rest ih =>
    simp only [applyEffects] at h
    cases he : applyEffect s e with
    | none => simp [he] at h
    | some s1 =>
      simp only [he] at h
      by_cases h1 : getN s1.bal k < getN s.bal k
      · obtain ⟨n, hn⟩ := applyEffect_decrease s s1 e k he h1
        exact ⟨n, by rw [hn]; exact List.mem_cons_self ..⟩
      · obtain ⟨n, hn⟩ := ih s1 h (by omega)
        exact ⟨n, List.mem_cons_of_mem _ hn⟩

/-- Whom an action's own effect list debits: the signer, or a bridge account whose current
    withdrawer is the signer (the action's mutable checks establish that). -/
theorem action_debits (s : State) (signer : String) (pos : Nat) (act : Action) (x a : String) (n : Nat)
    (hm : mutableOk s signer act = true) (h : Effect.debit x a n ∈ actionEffects s signer pos act) :
    x = signer ∨ ∃ b, lookup s.bridges x = some b ∧ b.withdrawer = signer := by
  cases act <;> simp only [actionEffects, List.mem_cons, List.mem_append, List.not_mem_nil] at h
  case transfer to asset amount fa =>
    left; rcases h with h | h | h <;> simp at h; exact h.1
  case lock to asset amount fa dl =>
    left; rcases h with h | h | h | h <;> simp at h; exact h.1
  case unlock to bridge amount fa id blk =>
    right
    have hx : x = bridge := by rcases h with h | h | h | h <;> simp at h; exact h.1
    subst hx
    simp only [mutableOk, Bool.and_eq_true] at hm
    obtain ⟨_, hm⟩ := hm
    split at hm
    · rename_i b hb; exact ⟨b, hb, by simpa using (by simpa using hm : _ ∧ _).1⟩
    · cases hm
  case bridgeTransfer to bridge amount fa id blk dl =>
    right
    have hx : x = bridge := by rcases h with h | h | h | h | h <;> simp at h; exact h.1
    subst hx
    simp only [mutableOk, Bool.and_eq_true] at hm
    obtain ⟨hm, _⟩ := hm
    split at hm
    · rename_i b hb; exact ⟨b, hb, by simpa using (by simpa using hm : _ ∧ _).1⟩
    · cases hm
  case bridgeSudo bridge ns nw fa dis =>
    exfalso
    rcases h with (h | h) | h
    · cases ns <;> simp at h
    · cases nw <;> simp at h
    · split at h <;> simp at h
  case ics20 amount denom chan fa bridge id blk ret =>
    have hx : x = bridge.getD signer := by
      rcases h with (h | h) | h
      · cases bridge <;> simp [wdEffects] at h
      · simp at h; exact h.1
      · split at h <;> simp at h
    cases bridge with
    | none => left; simpa using hx
    | some bb =>
      right
      simp only [Option.getD_some] at hx; subst hx
      simp only [mutableOk] at hm
      split at hm
      · rename_i b hb; exact ⟨b, hb, by simpa using (by simpa using hm : _ ∧ _).1⟩
      · cases hm
  all_goals (exfalso; simp at h)

/-- Fee payment changes nothing but the signer's balance and the block fees. -/
theorem feeEffects_frame (s s1 : State) (signer : String) (pos : Nat) (act : Action) (fx : List Effect)
    (hf : feeEffects s signer pos act = some fx) (h : applyEffects s fx = some s1) :
    s1.bridges = s.bridges ∧ s1.sudo = s.sudo ∧ s1.ibcSudo = s.ibcSudo ∧ s1.relayers = s.relayers ∧
    s1.fees = s.fees ∧ s1.feeAssets = s.feeAssets ∧ s1.vals = s.vals ∧ s1.valCount = s.valCount ∧
    s1.valUpdates = s.valUpdates ∧ s1.wd = s.wd ∧
    (∀ x a n, Effect.debit x a n ∈ fx → x = signer) := by
  unfold feeEffects at hf
  cases hi : feeInfo act with
  | none =>
    simp [hi] at hf; subst hf; simp [applyEffects] at h; subst h
    exact ⟨rfl, rfl, rfl, rfl, rfl, rfl, rfl, rfl, rfl, rfl, by simp⟩
  | some t =>
    obtain ⟨k, size, fa⟩ := t
    simp only [hi] at hf
    obtain ⟨cfg, _, _, _, hfx⟩ := feePlan_exact s k size fa signer pos fx hf
    subst hfx
    simp only [applyEffects] at h
    cases h1 : applyEffect s (.blockFee fa (cfg.base + size * cfg.mult) pos) with
    | none => simp [h1] at h
    | some sa =>
      simp only [h1] at h
      cases h2 : applyEffect sa (.debit signer fa (cfg.base + size * cfg.mult)) with
      | none => simp [h2] at h
      | some sb =>
        simp only [h2] at h
        injection h with h; subst h
        simp only [applyEffect] at h1 h2
        split at h1
        · injection h1 with h1; subst h1
          split at h2
          · injection h2 with h2; subst h2
            refine ⟨rfl, rfl, rfl, rfl, rfl, rfl, rfl, rfl, rfl, rfl, ?_⟩
            intro x a n hmem
            simp at hmem
            exact hmem.1
          · cases h2
        · cases h1

/-- C02 (funds): if executing an action (fee payment included) decreases the balance of account
    `x` in any asset, then `x` is the transaction signer, or `x` is a bridge account whose
    withdrawer — in the state this very action executes on — is the signer.  A former
    withdrawer, a bridge account signing a plain transfer, or anybody else cannot. -/
theorem execAction_debit_authorised (s s' : State) (signer : String) (pos : Nat) (act : Action)
    (x a : String) (h : execAction s signer pos act = some s')
    (hlt : getN s'.bal (x, a) < getN s.bal (x, a)) :
    x = signer ∨ ∃ b, lookup s.bridges x = some b ∧ b.withdrawer = signer := by
  unfold execAction at h
  cases hf : feeEffects s signer pos act with
  | none => simp [hf] at h
  | some fx =>
    simp only [hf] at h
    cases h1 : applyEffects s fx with
    | none => simp [h1] at h
    | some s1 =>
      simp only [h1] at h
      obtain ⟨hb, _, _, _, _, _, _, _, _, _, hdeb⟩ := feeEffects_frame s s1 signer pos act fx hf h1
      split at h
      · cases h
      · rename_i hm
        have hm' : mutableOk s1 signer act = true := by simpa using hm
        by_cases hfee : getN s1.bal (x, a) < getN s.bal (x, a)
        · obtain ⟨n, hn⟩ := applyEffects_decrease fx s s1 (x, a) h1 hfee
          exact Or.inl (hdeb x a n hn)
        · obtain ⟨n, hn⟩ := applyEffects_decrease _ s1 s' (x, a) h (by omega)
          have := action_debits s1 signer pos act x a n hm' hn
          rw [hb] at this
          exact this

/-! ## who can change privileged state -/

/-- The authority whose signature an action of a privileged kind requires, read in state `s`:
    `none` for the actions that change no privileged state. -/
def requiredAuthority (s : State) : Action → Option (Option String)
  | .sudoChange _ | .ibcSudoChange _ | .feeChange _ _ _ | .feeAssetAdd _ | .feeAssetDel _
  | .valUpdate _ _ | .pairsAdd _ | .pairsDel _ | .marketsChange _ _ => some (some s.sudo)
  | .relayerAdd _ | .relayerDel _ => some (some s.ibcSudo)
  | .bridgeSudo bridge _ _ _ _ => some ((lookup s.bridges bridge).map (·.sudo))
  | _ => none

/-- The mutable checks of every privileged action kind demand the signature of the authority
    that holds that privilege in the state the action executes on. -/
theorem mutableOk_authority (s : State) (signer : String) (act : Action) (auth : Option String)
    (hr : requiredAuthority s act = some auth) (hm : mutableOk s signer act = true) :
    auth = some signer := by
  cases act <;> simp only [requiredAuthority] at hr <;> try cases hr
  all_goals simp only [mutableOk, Bool.and_eq_true, decide_eq_true_eq] at hm
  case sudoChange x => rw [hm]
  case ibcSudoChange x => rw [hm]
  case feeChange k b m => rw [hm]
  case feeAssetAdd a => rw [hm.1]
  case feeAssetDel a => rw [hm.1.1]
  case valUpdate k p => rw [hm.1]
  case pairsAdd names => rw [hm.1]
  case pairsDel names => rw [hm.1]
  case marketsChange kind ms => rw [hm.1]
  case relayerAdd x => rw [hm.1]
  case relayerDel x => rw [hm.1]
  case bridgeSudo bridge ns nw fa dis =>
    split at hm
    · rename_i b hb
      simp only [hb, Option.map_some]
      have := (by simpa using hm : _ ∧ b.sudo = signer).2
      rw [this]
    · cases hm

/-- C02 (privileged state): an action that changes the sudo address, the IBC sudo address, the
    fee schedule, the allowed fee assets or the validator set executes only if it is signed by
    the sudo address in force when it executes; a relayer-set change only if signed by the IBC
    sudo address in force; a bridge's sudo / withdrawer / deposit switch only if signed by that
    bridge's current sudo address — a former holder of the privilege cannot. -/
theorem execAction_authority (s s' : State) (signer : String) (pos : Nat) (act : Action)
    (auth : Option String) (hr : requiredAuthority s act = some auth)
    (h : execAction s signer pos act = some s') : auth = some signer := by
  unfold execAction at h
  cases hf : feeEffects s signer pos act with
  | none => simp [hf] at h
  | some fx =>
    simp only [hf] at h
    cases h1 : applyEffects s fx with
    | none => simp [h1] at h
    | some s1 =>
      simp only [h1] at h
      obtain ⟨fb, f2, f3, _⟩ := feeEffects_frame s s1 signer pos act fx hf h1
      split at h
      · cases h
      · rename_i hm
        have hm' : mutableOk s1 signer act = true := by simpa using hm
        have hr1 : requiredAuthority s1 act = some auth := by
          rw [← hr]; cases act <;> simp [requiredAuthority, f2, f3, fb]
        exact mutableOk_authority s1 signer act auth hr1 hm'

/-- A bridge account is initialised only by its own key, and only once. -/
theorem initBridge_authorised (s s' : State) (signer : String) (pos : Nat) (r : Nat)
    (asset fa : String) (su w : Option String)
    (h : execAction s signer pos (.initBridge r asset fa su w) = some s') :
    lookup s.bridges signer = none ∧ (lookup s'.bridges signer).isSome := by
  unfold execAction at h
  cases hf : feeEffects s signer pos (.initBridge r asset fa su w) with
  | none => simp [hf] at h
  | some fx =>
    simp only [hf] at h
    cases h1 : applyEffects s fx with
    | none => simp [h1] at h
    | some s1 =>
      simp only [h1] at h
      obtain ⟨fb, _⟩ := feeEffects_frame s s1 signer pos _ fx hf h1
      split at h
      · cases h
      · rename_i hm
        have hm' : isBridge s1 signer = false := by simpa [mutableOk] using hm
        simp only [actionEffects, applyEffects, applyEffect] at h
        injection h with h; subst h
        constructor
        · rw [← fb]; simpa [isBridge] using hm'
        · simp [lookup_insert_same]

end Astria.Ledger
