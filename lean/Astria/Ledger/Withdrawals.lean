import Astria.Ledger.Bridge
import Astria.Ledger.Authority
import Astria.Ledger.Escrow
/-
  C04, second half, over whole histories: for a given bridge account, a rollup withdrawal event
  id is honoured at most once along EVERY history of transactions (of any signers, bundles and
  carrier kinds: unlock, bridge-to-bridge transfer, ICS20 withdrawal), packets and block ends.
-/
namespace Astria.Ledger

/-- Number of actions in a list that carry the withdrawal event `k = (bridge, id)`. -/
def carriers (k : String × String) (acts : List Action) : Nat :=
  (acts.filter fun a => carrier a = some k).length

theorem carriers_cons (k : String × String) (a : Action) (rest : List Action) :
    carriers k (a :: rest) = (if carrier a = some k then 1 else 0) + carriers k rest := by
  unfold carriers
  by_cases h : carrier a = some k <;> simp [List.filter, h] <;> omega

/-- Recorded ids survive every action (fee payment included). -/
theorem execAction_wd_mono (s s' : State) (signer : String) (pos : Nat) (act : Action)
    (k : String × String) (h : execAction s signer pos act = some s')
    (hk : (lookup s.wd k).isSome) : (lookup s'.wd k).isSome := by
  unfold execAction at h
  cases hf : feeEffects s signer pos act with
  | none => simp [hf] at h
  | some fx =>
    simp only [hf] at h
    cases h1 : applyEffects s fx with
    | none => simp [h1] at h
    | some s1 =>
      simp only [h1] at h
      split at h
      · cases h
      · exact applyEffects_wd_mono _ s1 s' k h (applyEffects_wd_mono fx s s1 k h1 hk)

/-- A carrier executes only if its id is unrecorded in the state the action starts on, and
    leaves it recorded. -/
theorem execAction_carrier_fresh (s s' : State) (signer : String) (pos : Nat) (act : Action)
    (k : String × String) (hc : carrier act = some k) (h : execAction s signer pos act = some s') :
    lookup s.wd k = none ∧ (lookup s'.wd k).isSome := by
  obtain ⟨b, id⟩ := k
  have h0 := h
  unfold execAction at h
  cases hf : feeEffects s signer pos act with
  | none => simp [hf] at h
  | some fx =>
    simp only [hf] at h
    cases h1 : applyEffects s fx with
    | none => simp [h1] at h
    | some s1 =>
      simp only [h1] at h
      obtain ⟨_, _, _, _, _, _, _, _, _, hwd, _⟩ := feeEffects_frame s s1 signer pos act fx hf h1
      split at h
      · cases h
      · rename_i hm
        have hm' : mutableOk s1 signer act = true := by simpa using hm
        have := carrier_requires_fresh s1 signer act (b, id) hc hm'
        rw [hwd] at this
        exact ⟨this, (execAction_carrier s s' signer pos act b id hc h0).1⟩

/-- Along the action list of one signer: recorded ids stay recorded; if the id was already
    recorded no carrier of it executes; at most one carrier of it executes, and then it is
    recorded afterwards. -/
theorem execActions_carriers (k : String × String) (acts : List Action) (s s' : State)
    (signer : String) (pos : Nat) (h : execActions s signer pos acts = some s') :
    ((lookup s.wd k).isSome → carriers k acts = 0 ∧ (lookup s'.wd k).isSome) ∧
    carriers k acts ≤ 1 ∧ (carriers k acts = 1 → (lookup s'.wd k).isSome) := by
  induction acts generalizing s pos with
  | nil =>
    simp [execActions] at h; subst h
    exact ⟨fun hk => ⟨rfl, hk⟩, by simp [carriers], by simp [carriers]⟩
  | cons a rest ih =>
    simp only [execActions] at h
    cases h1 : execAction s signer pos a with
    | none => simp [h1] at h
    | some s1 =>
      simp only [h1] at h
      obtain ⟨i1, i2, i3⟩ := ih s1 (pos + 1) h
      rw [carriers_cons]
      by_cases hc : carrier a = some k
      · obtain ⟨hfresh, hrec⟩ := execAction_carrier_fresh s s1 signer pos a k hc h1
        obtain ⟨z, hs'⟩ := i1 hrec
        simp only [hc, if_true]
        refine ⟨?_, by omega, fun _ => hs'⟩
        intro hk; rw [hfresh] at hk; cases hk
      · simp only [hc, if_false]
        refine ⟨?_, by omega, fun h1' => i3 (by omega)⟩
        intro hk
        obtain ⟨z, hs'⟩ := i1 (execAction_wd_mono s s1 signer pos a k h1 hk)
        exact ⟨by omega, hs'⟩

/-- The same for a transaction (`execTx`); a failing transaction honours nothing and records
    nothing. -/
theorem execTx_carriers (k : String × String) (s s' : State) (tx : Tx) (h : execTx s tx = .ok s') :
    ((lookup s.wd k).isSome → carriers k tx.actions = 0 ∧ (lookup s'.wd k).isSome) ∧
    carriers k tx.actions ≤ 1 ∧ (carriers k tx.actions = 1 → (lookup s'.wd k).isSome) := by
  unfold execTx at h
  simp only at h
  split at h
  · cases h
  · split at h
    · cases h
    · split at h
      · cases h
      · rename_i s2 hex
        injection h with h; subst h
        have := execActions_carriers k tx.actions _ _ tx.signer 0 hex
        exact this

theorem payFees_wd (fees : List (String × Nat)) (s s' : State) (k : String × String)
    (h : payFees s fees = some s') (hk : (lookup s.wd k).isSome) : (lookup s'.wd k).isSome := by
  induction fees generalizing s with
  | nil => simp [payFees] at h; subst h; exact hk
  | cons e rest ih =>
    obtain ⟨fa, n⟩ := e
    simp only [payFees] at h
    cases h1 : applyEffect s (.credit s.sudo fa n) with
    | none => simp [h1] at h
    | some s1 =>
      simp only [h1] at h
      exact ih s1 h (applyEffect_wd_mono s s1 _ k h1 hk)

/-- Recorded ids survive every operation of a history. -/
theorem stepOp_wd_mono (s : State) (op : Op) (k : String × String) (hk : (lookup s.wd k).isSome) :
    (lookup (stepOp s op).wd k).isSome := by
  cases op with
  | tx t =>
    simp only [stepOp, stepTx]
    cases h : execTx s t with
    | error e => exact hk
    | ok s' => exact ((execTx_carriers k s s' t h).1 hk).2
  | recv p =>
    simp only [stepOp, recvPacket]
    cases hp : recvPlan s p with
    | none => exact hk
    | some fx =>
      simp only
      cases h : applyEffects s fx with
      | none => exact hk
      | some s' => exact applyEffects_wd_mono fx s s' k h hk
  | refund p =>
    simp only [stepOp, refundPacket]
    cases hp : refundPlan s p with
    | none => exact hk
    | some fx =>
      simp only
      cases h : applyEffects s fx with
      | none => exact hk
      | some s' => exact applyEffects_wd_mono fx s s' k h hk
  | endBlock =>
    simp only [stepOp, endBlock]
    split
    · rename_i s3 hp
      have h0 : (lookup ({ authorityEndBlock s with valUpdates := [] } : State).wd k).isSome := by
        unfold authorityEndBlock; split <;> exact hk
      exact payFees_wd _ _ s3 k hp h0
    · exact hk

/-- Number of times the withdrawal event `k` is honoured by one operation: the carriers of `k`
    in a transaction that takes effect (0 for a failing one, for packets and for block ends). -/
def honouredBy (k : String × String) (s : State) : Op → Nat
  | .tx t => if (execTx s t).toBool then carriers k t.actions else 0
  | _ => 0

def totalHonoured (k : String × String) : State → List Op → Nat
  | _, [] => 0
  | s, op :: rest => honouredBy k s op + totalHonoured k (stepOp s op) rest

theorem totalHonoured_zero_of_recorded (k : String × String) (ops : List Op) (s : State)
    (hk : (lookup s.wd k).isSome) : totalHonoured k s ops = 0 := by
  induction ops generalizing s with
  | nil => rfl
  | cons op rest ih =>
    simp only [totalHonoured]
    rw [ih (stepOp s op) (stepOp_wd_mono s op k hk)]
    cases op with
    | tx t =>
      simp only [honouredBy]
      cases h : execTx s t with
      | error e => simp [Except.toBool]
      | ok s' => simp [Except.toBool, ((execTx_carriers k s s' t h).1 hk).1]
    | recv p => rfl
    | refund p => rfl
    | endBlock => rfl

/-- **C04 (withdrawals are paid at most once), every history.**  From any state, along every
    sequence of transactions (taking effect or failing, any signers, any bundles), packets and
    block ends, a given (bridge account, withdrawal event id) is honoured at most once in total —
    whichever of the three action kinds carries it, in whichever transactions and blocks. -/
theorem withdrawal_once_history (k : String × String) (ops : List Op) (s : State) :
    totalHonoured k s ops ≤ 1 := by
  induction ops generalizing s with
  | nil => simp [totalHonoured]
  | cons op rest ih =>
    simp only [totalHonoured]
    cases op with
    | tx t =>
      simp only [honouredBy, stepOp, stepTx]
      cases h : execTx s t with
      | error e => simpa [Except.toBool] using ih s
      | ok s' =>
        simp only [Except.toBool, if_true]
        obtain ⟨_, c2, c3⟩ := execTx_carriers k s s' t h
        by_cases hc : carriers k t.actions = 1
        · rw [totalHonoured_zero_of_recorded k rest s' (c3 hc)]; omega
        · have : carriers k t.actions = 0 := by omega
          rw [this]; simpa using ih s'
    | recv p => simpa [honouredBy] using ih _
    | refund p => simpa [honouredBy] using ih _
    | endBlock => simpa [honouredBy] using ih _

end Astria.Ledger
