import Astria.Ledger.Validators
import Astria.Ledger.Authority
import Astria.Ledger.Escrow
import Astria.Ledger.Privileged
/-
  C14, "the stored count equals the size of the stored set" and "the set is never emptied"
  (post-Aspen storage: per-validator entries plus a count).
-/
namespace Astria.Ledger

theorem erase_keys {α : Type} (m : List (String × α)) (k : String) (h : (m.map (·.1)).Nodup) :
    ((erase m k).map (·.1)).Nodup ∧ ∀ x, x ∈ (erase m k).map (·.1) → x ∈ m.map (·.1) := by
  induction m with
  | nil => simp [erase]
  | cons e rest ih =>
    simp only [List.map_cons, List.nodup_cons] at h
    obtain ⟨i1, i3⟩ := ih h.2
    simp only [erase]
    by_cases he : e.1 = k
    · simp only [he, if_true]
      exact ⟨i1, fun x hx => List.mem_cons_of_mem _ (i3 x hx)⟩
    · simp only [he, if_false, List.map_cons, List.nodup_cons, List.mem_cons]
      refine ⟨⟨fun hin => h.1 (i3 _ hin), i1⟩, ?_⟩
      intro x hx
      rcases hx with hx | hx
      · exact Or.inl hx
      · exact Or.inr (i3 x hx)

theorem lookup_none_of_not_key {α : Type} (m : List (String × α)) (k : String)
    (h : k ∉ m.map (·.1)) : lookup m k = none := by
  induction m with
  | nil => rfl
  | cons e rest ih =>
    simp only [List.map_cons, List.mem_cons, not_or] at h
    simp only [lookup]
    have : ¬ e.1 = k := fun h' => h.1 h'.symm
    simp [this, ih h.2]

/-- Erasing an absent key changes nothing. -/
theorem erase_absent {α : Type} (m : List (String × α)) (k : String) (h : lookup m k = none) :
    erase m k = m := by
  induction m with
  | nil => rfl
  | cons e rest ih =>
    simp only [lookup] at h
    by_cases he : e.1 = k
    · simp [he] at h
    · simp only [he, if_false] at h
      simp [erase, he, ih h]

/-- Erasing a present key of a map with distinct keys removes exactly one entry. -/
theorem erase_present_length {α : Type} (m : List (String × α)) (k : String)
    (hnd : (m.map (·.1)).Nodup) (h : (lookup m k).isSome) : (erase m k).length + 1 = m.length := by
  induction m with
  | nil => simp [lookup] at h
  | cons e rest ih =>
    simp only [List.map_cons, List.nodup_cons] at hnd
    simp only [erase]
    by_cases he : e.1 = k
    · simp only [he, if_true]
      have : lookup rest k = none := lookup_none_of_not_key rest k (by rw [← he]; exact hnd.1)
      rw [erase_absent rest k this]; rfl
    · simp only [he, if_false, List.length_cons]
      simp only [lookup, he, if_false] at h
      have := ih hnd.2 h
      omega

/-- The post-Aspen validator storage is well formed: distinct keys, the stored count is the size
    of the stored set, and the set is not empty. -/
def ValInv (s : State) : Prop :=
  (s.vals.map (·.1)).Nodup ∧ s.valCount = s.vals.length ∧ 0 < s.vals.length

/-- **C14 (count = size, never empty), one executed validator update.**  Post-Aspen, if the
    storage is well formed and the action's mutable checks pass on it, it is well formed
    afterwards — for every key and power: additions, power changes, removals (a removal is
    refused unless more than one validator remains), repeated keys. -/
theorem valUpdate_inv (s s' : State) (signer key : String) (power : Nat)
    (hpost : s.postAspen = true) (hinv : ValInv s) (hsmall : s.vals.length < U64_MAX)
    (hm : mutableOk s signer (.valUpdate key power) = true)
    (h : applyEffect s (.valUpdate key power) = some s') : ValInv s' := by
  obtain ⟨hnd, hcnt, hpos⟩ := hinv
  simp only [applyEffect, hpost, Bool.not_true, Bool.false_eq_true, if_false] at h
  by_cases hp : power = 0
  · simp only [hp, if_true] at h
    injection h with h; subst h
    simp only [mutableOk, hp, hpost, if_true, Bool.and_eq_true, Bool.or_eq_true, decide_eq_true_eq] at hm
    have hm2 : s.valCount > 1 ∧ (lookup s.vals key).isSome = true := by
      rcases hm.2 with h0 | h0
      · simp at h0
      · exact h0
    have hl := erase_present_length s.vals key hnd hm2.2
    refine ⟨(erase_keys s.vals key hnd).1, ?_, ?_⟩
    · simp only; omega
    · simp only; omega
  · simp only [hp, if_false] at h
    cases hl : lookup s.vals key with
    | some v =>
      simp only [hl] at h
      injection h with h; subst h
      have hlen := erase_present_length s.vals key hnd (by simp [hl])
      refine ⟨keys_nodup_insert _ _ _ hnd, ?_, ?_⟩
      · simp only [insert, List.length_cons]; omega
      · simp [insert]
    | none =>
      simp only [hl] at h
      injection h with h; subst h
      refine ⟨keys_nodup_insert _ _ _ hnd, ?_, ?_⟩
      · simp only [insert, List.length_cons, erase_absent s.vals key hl]
        have : s.valCount + 1 ≤ U64_MAX := by omega
        omega
      · simp [insert]

theorem valUpdate_size (s s' : State) (key : String) (power : Nat)
    (h : applyEffect s (.valUpdate key power) = some s') :
    s'.postAspen = s.postAspen ∧ s'.vals.length ≤ s.vals.length + 1 := by
  simp only [applyEffect] at h
  split at h
  · injection h with h; subst h; exact ⟨rfl, by simp⟩
  · split at h
    · injection h with h; subst h
      refine ⟨rfl, ?_⟩
      simp only
      have : ∀ (m : List (String × Nat)), (erase m key).length ≤ m.length := by
        intro m; induction m with
        | nil => simp [erase]
        | cons e rest ih => simp only [erase]; split <;> simp <;> omega
      have := this s.vals; omega
    · have hle : ∀ (m : List (String × Nat)), (erase m key).length ≤ m.length := by
        intro m; induction m with
        | nil => simp [erase]
        | cons e rest ih => simp only [erase]; split <;> simp <;> omega
      split at h <;> (injection h with h; subst h; refine ⟨rfl, ?_⟩; simp only [insert, List.length_cons]; have := hle s.vals; omega)

/-- Effects other than a validator update leave the validator storage alone. -/
theorem applyEffect_vals_frame (s s' : State) (e : Effect) (hne : ∀ k p, e ≠ .valUpdate k p)
    (h : applyEffect s e = some s') :
    s'.vals = s.vals ∧ s'.valCount = s.valCount ∧ s'.postAspen = s.postAspen := by
  cases e <;> simp only [applyEffect] at h
  case valUpdate k p => exact absurd rfl (hne k p)
  all_goals first
    | (cases h; done)
    | (injection h with h; subst h; first | exact ⟨rfl, rfl, rfl⟩ | (unfold updBridge; split <;> exact ⟨rfl, rfl, rfl⟩) | (split <;> exact ⟨rfl, rfl, rfl⟩))
    | (split at h
       · injection h with h; subst h; exact ⟨rfl, rfl, rfl⟩
       · cases h)

theorem applyEffects_vals_frame (fx : List Effect) (s s' : State)
    (hne : ∀ e ∈ fx, ∀ k p, e ≠ .valUpdate k p) (h : applyEffects s fx = some s') :
    s'.vals = s.vals ∧ s'.valCount = s.valCount ∧ s'.postAspen = s.postAspen := by
  induction fx generalizing s with
  | nil => simp [applyEffects] at h; subst h; exact ⟨rfl, rfl, rfl⟩
  | cons e rest ih =>
    simp only [applyEffects] at h
    cases h1 : applyEffect s e with
    | none => simp [h1] at h
    | some s1 =>
      simp only [h1] at h
      obtain ⟨a1, a2, a3⟩ := applyEffect_vals_frame s s1 e (hne e (List.mem_cons_self ..)) h1
      obtain ⟨b1, b2, b3⟩ := ih s1 (fun e' he' => hne e' (List.mem_cons_of_mem _ he')) h
      exact ⟨b1.trans a1, b2.trans a2, b3.trans a3⟩

/-- Only the `ValidatorUpdate` action emits a validator-update effect. -/
theorem actionEffects_no_valUpdate (s : State) (signer : String) (pos : Nat) (act : Action)
    (hact : ∀ k p, act ≠ .valUpdate k p) :
    ∀ e ∈ actionEffects s signer pos act, ∀ k p, e ≠ .valUpdate k p := by
  intro e he k p heq
  subst heq
  cases act <;> simp only [actionEffects] at he
  case valUpdate k' p' => exact hact k' p' rfl
  case bridgeSudo b ns nw fa dis =>
    simp only [List.mem_append] at he
    rcases he with (he | he) | he
    · cases ns <;> simp at he
    · cases nw <;> simp at he
    · split at he <;> simp at he
  case ics20 amount denom chan fa bridge id blk ret =>
    simp only [List.mem_append] at he
    rcases he with (he | he) | he
    · cases bridge <;> simp [wdEffects] at he
    · simp at he
    · split at he <;> simp at he
  case pairsAdd names => simp at he
  case pairsDel names => simp at he
  all_goals simp at he

/-- **One action** (fee payment included), post-Aspen: well-formedness of the validator storage
    is preserved, and the set grows by at most one. -/
theorem execAction_valinv (s s' : State) (signer : String) (pos : Nat) (act : Action)
    (hpost : s.postAspen = true) (hinv : ValInv s) (hsmall : s.vals.length < U64_MAX)
    (h : execAction s signer pos act = some s') :
    ValInv s' ∧ s'.postAspen = true ∧ s'.vals.length ≤ s.vals.length + 1 := by
  unfold execAction at h
  cases hf : feeEffects s signer pos act with
  | none => simp [hf] at h
  | some fx =>
    simp only [hf] at h
    cases h1 : applyEffects s fx with
    | none => simp [h1] at h
    | some s1 =>
      simp only [h1] at h
      obtain ⟨_, _, _, _, _, _, fv, fc, _, _, _⟩ := feeEffects_frame s s1 signer pos act fx hf h1
      have fp : s1.postAspen = s.postAspen := by
        unfold feeEffects at hf
        cases hi : feeInfo act with
        | none => simp [hi] at hf; subst hf; simp [applyEffects] at h1; subst h1; rfl
        | some t =>
          obtain ⟨k, size, fa⟩ := t
          simp only [hi] at hf
          obtain ⟨cfg, _, _, _, hfx⟩ := feePlan_exact s k size fa signer pos fx hf
          subst hfx
          exact (applyEffects_vals_frame _ s s1 (by
            intro e he k p heq; subst heq; simp at he) h1).2.2
      have hinv1 : ValInv s1 := by
        obtain ⟨a, b, c⟩ := hinv
        exact ⟨by rw [fv]; exact a, by rw [fc, fv]; exact b, by rw [fv]; exact c⟩
      split at h
      · cases h
      · rename_i hm
        have hm' : mutableOk s1 signer act = true := by simpa using hm
        by_cases hv : ∃ k p, act = .valUpdate k p
        · obtain ⟨k, p, rfl⟩ := hv
          simp only [actionEffects, applyEffects] at h
          cases h2 : applyEffect s1 (.valUpdate k p) with
          | none => simp [h2] at h
          | some s2 =>
            simp only [h2] at h
            injection h with h; subst h
            obtain ⟨q1, q2⟩ := valUpdate_size s1 s2 k p h2
            exact ⟨valUpdate_inv s1 s2 signer k p (by rw [fp, hpost]) hinv1 (by rw [fv]; exact hsmall) hm' h2,
                   by rw [q1, fp, hpost], by rw [← fv]; exact q2⟩
        · have hact : ∀ k p, act ≠ .valUpdate k p := fun k p he => hv ⟨k, p, he⟩
          obtain ⟨b1, b2, b3⟩ := applyEffects_vals_frame _ s1 s'
            (actionEffects_no_valUpdate s1 signer pos act hact) h
          obtain ⟨a, b, c⟩ := hinv1
          exact ⟨⟨by rw [b1]; exact a, by rw [b2, b1]; exact b, by rw [b1]; exact c⟩,
                 by rw [b3, fp, hpost], by rw [b1, fv]; omega⟩

/-- **Any list of actions of one transaction**, post-Aspen, on a set with room for them. -/
theorem execActions_valinv (acts : List Action) (s s' : State) (signer : String) (pos : Nat)
    (hpost : s.postAspen = true) (hinv : ValInv s) (hsmall : s.vals.length + acts.length ≤ U64_MAX)
    (h : execActions s signer pos acts = some s') :
    ValInv s' ∧ s'.postAspen = true ∧ s'.vals.length ≤ s.vals.length + acts.length := by
  induction acts generalizing s pos with
  | nil => simp [execActions] at h; subst h; exact ⟨hinv, hpost, by simp⟩
  | cons a rest ih =>
    simp only [execActions] at h
    simp only [List.length_cons] at hsmall
    cases h1 : execAction s signer pos a with
    | none => simp [h1] at h
    | some s1 =>
      simp only [h1] at h
      obtain ⟨i1, i2, i3⟩ := execAction_valinv s s1 signer pos a hpost hinv (by omega) h1
      obtain ⟨j1, j2, j3⟩ := ih s1 (pos + 1) i2 i1 (by omega) h
      exact ⟨j1, j2, by simp only [List.length_cons]; omega⟩

theorem payFees_vals (fees : List (String × Nat)) (s s' : State) (h : payFees s fees = some s') :
    s'.vals = s.vals ∧ s'.valCount = s.valCount ∧ s'.postAspen = s.postAspen := by
  induction fees generalizing s with
  | nil => simp [payFees] at h; subst h; exact ⟨rfl, rfl, rfl⟩
  | cons e rest ih =>
    obtain ⟨fa, n⟩ := e
    simp only [payFees] at h
    cases h1 : applyEffect s (.credit s.sudo fa n) with
    | none => simp [h1] at h
    | some s1 =>
      simp only [h1] at h
      obtain ⟨a1, a2, a3⟩ := applyEffect_vals_frame s s1 _ (by intro k p he; cases he) h1
      obtain ⟨b1, b2, b3⟩ := ih s1 h
      exact ⟨b1.trans a1, b2.trans a2, b3.trans a3⟩

theorem noholder_no_valUpdate (fx : List Effect) (h : ∀ e ∈ fx, effHolder e = none) :
    ∀ e ∈ fx, ∀ k p, e ≠ .valUpdate k p := by
  intro e he k p heq
  subst heq
  have := h _ he
  simp [effHolder] at this

/-- Number of actions in the transactions of a history (each can add at most one validator). -/
def totalActions : List Op → Nat
  | [] => 0
  | .tx t :: rest => t.actions.length + totalActions rest
  | _ :: rest => totalActions rest

/-- One operation of a history keeps the post-Aspen validator storage well formed. -/
theorem stepOp_valinv (s : State) (op : Op) (hpost : s.postAspen = true) (hinv : ValInv s)
    (hsmall : s.vals.length + totalActions [op] ≤ U64_MAX) :
    ValInv (stepOp s op) ∧ (stepOp s op).postAspen = true ∧
    (stepOp s op).vals.length ≤ s.vals.length + totalActions [op] := by
  cases op with
  | tx t =>
    simp only [totalActions, Nat.add_zero] at hsmall ⊢
    simp only [stepOp, stepTx]
    cases h : execTx s t with
    | error e => exact ⟨hinv, hpost, by simp only; omega⟩
    | ok s' =>
      simp only
      unfold execTx at h
      simp only at h
      split at h
      · cases h
      · split at h
        · cases h
        · split at h
          · cases h
          · rename_i s2 hex
            injection h with h; subst h
            have := execActions_valinv t.actions { s with nonce := setN s.nonce t.signer (getN s.nonce t.signer + 1) } s2 t.signer 0 hpost hinv hsmall hex
            exact this
  | recv p =>
    simp only [totalActions, Nat.add_zero]
    simp only [stepOp, recvPacket]
    cases hp : recvPlan s p with
    | none => exact ⟨hinv, hpost, Nat.le_refl _⟩
    | some fx =>
      simp only
      cases h : applyEffects s fx with
      | none => exact ⟨hinv, hpost, Nat.le_refl _⟩
      | some s' =>
        simp only
        obtain ⟨b1, b2, b3⟩ := applyEffects_vals_frame fx s s'
          (noholder_no_valUpdate fx (recvPlan_holder s p fx hp)) h
        obtain ⟨a, b, c⟩ := hinv
        exact ⟨⟨by rw [b1]; exact a, by rw [b2, b1]; exact b, by rw [b1]; exact c⟩,
               by rw [b3, hpost], by rw [b1]; exact Nat.le_refl _⟩
  | refund p =>
    simp only [totalActions, Nat.add_zero]
    simp only [stepOp, refundPacket]
    cases hp : refundPlan s p with
    | none => exact ⟨hinv, hpost, Nat.le_refl _⟩
    | some fx =>
      simp only
      cases h : applyEffects s fx with
      | none => exact ⟨hinv, hpost, Nat.le_refl _⟩
      | some s' =>
        simp only
        obtain ⟨b1, b2, b3⟩ := applyEffects_vals_frame fx s s'
          (noholder_no_valUpdate fx (refundPlan_holder s p fx hp)) h
        obtain ⟨a, b, c⟩ := hinv
        exact ⟨⟨by rw [b1]; exact a, by rw [b2, b1]; exact b, by rw [b1]; exact c⟩,
               by rw [b3, hpost], by rw [b1]; exact Nat.le_refl _⟩
  | endBlock =>
    simp only [totalActions, Nat.add_zero]
    simp only [stepOp, endBlock]
    have hauth : authorityEndBlock s = s := by unfold authorityEndBlock; simp [hpost]
    split
    · rename_i s3 hp
      obtain ⟨b1, b2, b3⟩ := payFees_vals _ _ s3 hp
      simp only [hauth] at b1 b2 b3
      obtain ⟨a, b, c⟩ := hinv
      exact ⟨⟨by simp only [b1]; exact a, by simp only [b2, b1]; exact b, by simp only [b1]; exact c⟩,
             by simp only [b3]; exact hpost, by simp only [b1]; exact Nat.le_refl _⟩
    · exact ⟨hinv, hpost, Nat.le_refl _⟩

theorem totalActions_cons (op : Op) (rest : List Op) :
    totalActions (op :: rest) = totalActions [op] + totalActions rest := by
  cases op <;> simp [totalActions]

/-- **C14 (count = size, never empty), every history, post-Aspen.**  From any well-formed state,
    along every sequence of transactions (any signers and bundles, taking effect or failing),
    ICS20 packets and block ends, the stored validator set keeps distinct keys, the stored count
    equals its size and it is never empty — provided there is room for the validators the
    history could add (fewer than 2^64 in total). -/
theorem valinv_history (ops : List Op) (s : State) (hpost : s.postAspen = true) (hinv : ValInv s)
    (hsmall : s.vals.length + totalActions ops ≤ U64_MAX) :
    ValInv (run s ops) ∧ (run s ops).postAspen = true := by
  induction ops generalizing s with
  | nil => exact ⟨hinv, hpost⟩
  | cons op rest ih =>
    simp only [run]
    rw [totalActions_cons] at hsmall
    obtain ⟨i1, i2, i3⟩ := stepOp_valinv s op hpost hinv (by omega)
    exact ih (stepOp s op) i2 i1 (by omega)

end Astria.Ledger
