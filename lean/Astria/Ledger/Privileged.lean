import Astria.Ledger.Authority
import Astria.Ledger.Escrow
/-
  C02, the frame direction: privileged state changes ONLY through an action signed by the
  authority that holds the privilege in the state the action executes on.

  `Authority.lean` shows "a privileged action kind executes only if signed by the holder".  This
  file shows the converse observation: whatever action executes, if one of the privileged
  components differs afterwards, then the signer held that component's privilege.  Components:

    * owned by the sudo address: the sudo address itself, the IBC sudo address, the fee schedule,
      the allowed fee assets, the validator set (stored set, count, pending updates), the oracle's
      currency pairs (with both counters) and market map;
    * owned by the IBC sudo address: the relayer set;
    * owned by each bridge account's sudo address: that bridge account's entry (rollup, asset, sudo,
      withdrawer, deposit switch); an entry that does not exist yet can be created by the account
      itself only.
-/
namespace Astria.Ledger

/-- Everything the sudo address owns. -/
structure SudoOwned where
  sudo : String
  ibcSudo : String
  fees : List (Kind × FeeCfg)
  feeAssets : List String
  vals : List (String × Nat)
  valCount : Nat
  valUpdates : List (String × Nat)
  pairs : List (String × Nat)
  numPairs : Nat
  nextPairId : Nat
  markets : Option (List (String × Nat))
  deriving DecidableEq

def sudoOwned (s : State) : SudoOwned :=
  ⟨s.sudo, s.ibcSudo, s.fees, s.feeAssets, s.vals, s.valCount, s.valUpdates, s.pairs, s.numPairs,
   s.nextPairId, s.markets⟩

/-- The privilege an effect exercises (`none` = it touches no privileged state). -/
inductive Holder where
  | sudo | ibcSudo
  | bridgeSudo (b : String)      -- changes the existing entry of bridge account `b`
  | self (x : String)            -- creates the entry of bridge account `x`
  deriving DecidableEq

def effHolder : Effect → Option Holder
  | .setSudo _ | .setIbcSudo _ | .setFee _ _ | .addFeeAsset _ | .delFeeAsset _ | .valUpdate _ _
  | .addPair _ | .delPair _ | .setMarkets _ => some .sudo
  | .addRelayer _ | .delRelayer _ => some .ibcSudo
  | .setBridgeSudo b _ | .setBridgeWithdrawer b _ | .setBridgeDisabled b _ => some (.bridgeSudo b)
  | .initBridge x _ _ _ _ => some (.self x)
  | _ => none

theorem updBridge_frame (s : State) (b : String) (f : BridgeAcct → BridgeAcct) :
    sudoOwned (updBridge s b f) = sudoOwned s ∧ (updBridge s b f).relayers = s.relayers ∧
    ∀ x, x ≠ b → lookup (updBridge s b f).bridges x = lookup s.bridges x := by
  unfold updBridge
  split
  · refine ⟨rfl, rfl, ?_⟩
    intro x hx
    exact lookup_insert_other _ _ _ _ hx
  · exact ⟨rfl, rfl, fun _ _ => rfl⟩

/-- One effect changes only the component of the privilege it exercises. -/
theorem applyEffect_priv_frame (s s' : State) (e : Effect) (h : applyEffect s e = some s') :
    (effHolder e ≠ some .sudo → sudoOwned s' = sudoOwned s) ∧
    (effHolder e ≠ some .ibcSudo → s'.relayers = s.relayers) ∧
    (∀ x, effHolder e ≠ some (.bridgeSudo x) → effHolder e ≠ some (.self x) →
      lookup s'.bridges x = lookup s.bridges x) := by
  cases e <;> simp only [applyEffect] at h
  case debit x a n => split at h <;> first | (injection h with h; subst h; simp [sudoOwned]) | cases h
  case credit x a n => split at h <;> first | (injection h with h; subst h; simp [sudoOwned]) | cases h
  case escAdd c a n => split at h <;> first | (injection h with h; subst h; simp [sudoOwned]) | cases h
  case escSub c a n => split at h <;> first | (injection h with h; subst h; simp [sudoOwned]) | cases h
  case blockFee a n pos => split at h <;> first | (injection h with h; subst h; simp [sudoOwned]) | cases h
  case deposit d => injection h with h; subst h; simp [sudoOwned]
  case recordWd b id blk => injection h with h; subst h; simp [sudoOwned]
  case initBridge x r a su w =>
    injection h with h; subst h
    refine ⟨fun _ => rfl, fun _ => rfl, ?_⟩
    intro y _ hy
    have : y ≠ x := by intro e; subst e; exact hy rfl
    exact lookup_insert_other _ _ _ _ this
  case setBridgeSudo b x =>
    injection h with h; subst h
    obtain ⟨h1, h2, h3⟩ := updBridge_frame s b fun acct => { acct with sudo := x }
    refine ⟨fun _ => h1, fun _ => h2, ?_⟩
    intro y hy _
    exact h3 y (by intro e; subst e; exact hy rfl)
  case setBridgeWithdrawer b x =>
    injection h with h; subst h
    obtain ⟨h1, h2, h3⟩ := updBridge_frame s b fun acct => { acct with withdrawer := x }
    refine ⟨fun _ => h1, fun _ => h2, ?_⟩
    intro y hy _
    exact h3 y (by intro e; subst e; exact hy rfl)
  case setBridgeDisabled b v =>
    injection h with h; subst h
    obtain ⟨h1, h2, h3⟩ := updBridge_frame s b fun acct => { acct with disabled := v }
    refine ⟨fun _ => h1, fun _ => h2, ?_⟩
    intro y hy _
    exact h3 y (by intro e; subst e; exact hy rfl)
  case setSudo x => injection h with h; subst h; simp [effHolder]
  case setIbcSudo x => injection h with h; subst h; simp [effHolder]
  case addRelayer x => injection h with h; subst h; simp [effHolder, sudoOwned]
  case delRelayer x => injection h with h; subst h; simp [effHolder, sudoOwned]
  case setFee k cfg => injection h with h; subst h; simp [effHolder]
  case addFeeAsset a => injection h with h; subst h; simp [effHolder]
  case delFeeAsset a => injection h with h; subst h; simp [effHolder]
  case valUpdate k p =>
    refine ⟨fun hh => absurd rfl hh, ?_, ?_⟩
    · intro _
      split at h
      · injection h with h; subst h; rfl
      · split at h
        · injection h with h; subst h; rfl
        · split at h <;> (injection h with h; subst h; rfl)
    · intro x _ _
      split at h
      · injection h with h; subst h; rfl
      · split at h
        · injection h with h; subst h; rfl
        · split at h <;> (injection h with h; subst h; rfl)
  case registerAsset a =>
    injection h with h; subst h
    split <;> simp [sudoOwned]
  case addPair nm => injection h with h; subst h; simp [effHolder]
  case delPair nm => injection h with h; subst h; simp [effHolder]
  case setMarkets ms => injection h with h; subst h; simp [effHolder]
  case fail => cases h

/-- A list of effects all exercising (at most) one privilege `hd` changes only that component. -/
theorem applyEffects_priv_frame (hd : Holder) (fx : List Effect) (s s' : State)
    (hall : ∀ e ∈ fx, effHolder e = none ∨ effHolder e = some hd)
    (h : applyEffects s fx = some s') :
    (hd ≠ .sudo → sudoOwned s' = sudoOwned s) ∧
    (hd ≠ .ibcSudo → s'.relayers = s.relayers) ∧
    (∀ x, hd ≠ .bridgeSudo x → hd ≠ .self x → lookup s'.bridges x = lookup s.bridges x) := by
  induction fx generalizing s with
  | nil => simp [applyEffects] at h; subst h; exact ⟨fun _ => rfl, fun _ => rfl, fun _ _ _ => rfl⟩
  | cons e rest ih =>
    simp only [applyEffects] at h
    cases h1 : applyEffect s e with
    | none => simp [h1] at h
    | some s1 =>
      simp only [h1] at h
      obtain ⟨a1, a2, a3⟩ := applyEffect_priv_frame s s1 e h1
      obtain ⟨b1, b2, b3⟩ := ih s1 (fun e' he' => hall e' (List.mem_cons_of_mem _ he')) h
      have he := hall e (List.mem_cons_self ..)
      refine ⟨?_, ?_, ?_⟩
      · intro hne
        rw [b1 hne]
        apply a1
        rcases he with he | he <;> rw [he] <;> simp
        exact fun e => hne e
      · intro hne
        rw [b2 hne]
        apply a2
        rcases he with he | he <;> rw [he] <;> simp
        exact fun e => hne e
      · intro x hx1 hx2
        rw [b3 x hx1 hx2]
        apply a3
        · rcases he with he | he <;> rw [he] <;> simp
          exact fun e => hx1 e
        · rcases he with he | he <;> rw [he] <;> simp
          exact fun e => hx2 e

/-- The privilege an action exercises. -/
def actHolder (signer : String) : Action → Option Holder
  | .sudoChange _ | .ibcSudoChange _ | .feeChange _ _ _ | .feeAssetAdd _ | .feeAssetDel _
  | .valUpdate _ _ | .pairsAdd _ | .pairsDel _ | .marketsChange _ _ => some .sudo
  | .relayerAdd _ | .relayerDel _ => some .ibcSudo
  | .bridgeSudo b _ _ _ _ => some (.bridgeSudo b)
  | .initBridge _ _ _ _ _ => some (.self signer)
  | _ => none

/-- Every effect of an action exercises at most the action's privilege. -/
theorem actionEffects_holder (s : State) (signer : String) (pos : Nat) (act : Action) :
    ∀ e ∈ actionEffects s signer pos act,
      effHolder e = none ∨ effHolder e = actHolder signer act := by
  intro e he
  cases act <;> simp only [actionEffects] at he
  case transfer to asset amount fa => simp at he; rcases he with he | he <;> subst he <;> simp [effHolder]
  case rollup len fa => simp at he
  case lock to asset amount fa dl =>
    simp at he; rcases he with he | he | he <;> subst he <;> simp [effHolder]
  case unlock to b amount fa id blk =>
    simp at he; rcases he with he | he | he <;> subst he <;> simp [effHolder]
  case bridgeTransfer to b amount fa id blk dl =>
    simp at he; rcases he with he | he | he | he <;> subst he <;> simp [effHolder]
  case initBridge r asset fa su w => simp at he; subst he; simp [effHolder, actHolder]
  case bridgeSudo b ns nw fa dis =>
    simp only [List.mem_append] at he
    rcases he with (he | he) | he
    · cases ns <;> simp at he; subst he; simp [effHolder, actHolder]
    · cases nw <;> simp at he; subst he; simp [effHolder, actHolder]
    · split at he <;> simp at he; subst he; simp [effHolder, actHolder]
  case sudoChange x => simp at he; subst he; simp [effHolder, actHolder]
  case ibcSudoChange x => simp at he; subst he; simp [effHolder, actHolder]
  case relayerAdd x => simp at he; subst he; simp [effHolder, actHolder]
  case relayerDel x => simp at he; subst he; simp [effHolder, actHolder]
  case feeChange k b m => simp at he; subst he; simp [effHolder, actHolder]
  case feeAssetAdd a => simp at he; subst he; simp [effHolder, actHolder]
  case feeAssetDel a => simp at he; subst he; simp [effHolder, actHolder]
  case valUpdate k p => simp at he; subst he; simp [effHolder, actHolder]
  case ics20 amount denom chan fa bridge id blk ret =>
    simp only [List.mem_append] at he
    rcases he with (he | he) | he
    · cases bridge <;> simp [wdEffects] at he; subst he; simp [effHolder]
    · simp at he; subst he; simp [effHolder]
    · split at he <;> simp at he; subst he; simp [effHolder]
  case ibcRelayBad => simp at he; subst he; simp [effHolder]
  case pairsAdd names =>
    simp only [List.mem_map] at he
    obtain ⟨n, _, rfl⟩ := he; simp [effHolder, actHolder]
  case pairsDel names =>
    simp only [List.mem_map] at he
    obtain ⟨n, _, rfl⟩ := he; simp [effHolder, actHolder]
  case marketsChange kind ms => simp at he; subst he; simp [effHolder, actHolder]

/-- The privilege an action exercises is held by the transaction signer — in the state its
    mutable checks run on. -/
theorem mutableOk_holder (s : State) (signer : String) (act : Action)
    (hm : mutableOk s signer act = true) :
    (actHolder signer act = some .sudo → s.sudo = signer) ∧
    (actHolder signer act = some .ibcSudo → s.ibcSudo = signer) ∧
    (∀ b, actHolder signer act = some (.bridgeSudo b) →
      ∃ br, lookup s.bridges b = some br ∧ br.sudo = signer) ∧
    (∀ x, actHolder signer act = some (.self x) → x = signer ∧ lookup s.bridges x = none) := by
  have key : ∀ auth, requiredAuthority s act = some auth → auth = some signer :=
    fun auth hr => mutableOk_authority s signer act auth hr hm
  refine ⟨?_, ?_, ?_, ?_⟩
  · intro h
    have : requiredAuthority s act = some (some s.sudo) := by
      cases act <;> simp [actHolder] at h <;> rfl
    have := key _ this
    injection this
  · intro h
    have : requiredAuthority s act = some (some s.ibcSudo) := by
      cases act <;> simp [actHolder] at h <;> rfl
    have := key _ this
    injection this
  · intro b h
    cases act <;> simp [actHolder] at h
    case bridgeSudo bb ns nw fa dis =>
      subst h
      have := key _ (rfl : requiredAuthority s (.bridgeSudo bb ns nw fa dis) = _)
      cases hl : lookup s.bridges bb with
      | none => simp [hl] at this
      | some br => simp [hl] at this; exact ⟨br, rfl, this⟩
  · intro x h
    cases act <;> simp [actHolder] at h
    case initBridge r asset fa su w =>
      subst h
      refine ⟨rfl, ?_⟩
      simp only [mutableOk, isBridge, Bool.not_eq_true', Option.isSome] at hm
      cases hl : lookup s.bridges signer with
      | none => rfl
      | some _ => simp [hl] at hm

/-- Fee payment exercises no privilege. -/
theorem feeEffects_holder (s : State) (signer : String) (pos : Nat) (act : Action) (fx : List Effect)
    (hf : feeEffects s signer pos act = some fx) : ∀ e ∈ fx, effHolder e = none := by
  unfold feeEffects at hf
  cases hi : feeInfo act with
  | none => simp [hi] at hf; subst hf; simp
  | some t =>
    obtain ⟨k, size, fa⟩ := t
    simp only [hi] at hf
    obtain ⟨cfg, _, _, _, hfx⟩ := feePlan_exact s k size fa signer pos fx hf
    subst hfx
    intro e he
    simp at he
    rcases he with he | he <;> subst he <;> rfl

/-- **C02, frame direction, one action.**  Whatever action executes (fee payment included): if
    anything the sudo address owns differs afterwards, the signer is the sudo address of the state
    the action executed on; if the relayer set differs, the signer is the IBC sudo address; if the
    entry of bridge account `x` differs, then either the signer is that bridge account's sudo
    address, or the entry did not exist and `x` is the signer itself. -/
theorem execAction_priv_change (s s' : State) (signer : String) (pos : Nat) (act : Action)
    (h : execAction s signer pos act = some s') :
    (sudoOwned s' ≠ sudoOwned s → s.sudo = signer) ∧
    (s'.relayers ≠ s.relayers → s.ibcSudo = signer) ∧
    (∀ x, lookup s'.bridges x ≠ lookup s.bridges x →
      (∃ br, lookup s.bridges x = some br ∧ br.sudo = signer) ∨
      (x = signer ∧ lookup s.bridges x = none)) := by
  unfold execAction at h
  cases hf : feeEffects s signer pos act with
  | none => simp [hf] at h
  | some fx =>
    simp only [hf] at h
    cases h1 : applyEffects s fx with
    | none => simp [h1] at h
    | some s1 =>
      simp only [h1] at h
      -- the fee payment touches no privileged state (any holder will do for the frame lemma)
      have hfee := feeEffects_holder s signer pos act fx hf
      obtain ⟨f1, _, f3⟩ := applyEffects_priv_frame .ibcSudo fx s s1
        (fun e he => Or.inl (hfee e he)) h1
      obtain ⟨_, f2, _⟩ := applyEffects_priv_frame .sudo fx s s1
        (fun e he => Or.inl (hfee e he)) h1
      have g1 : sudoOwned s1 = sudoOwned s := f1 (by simp)
      have g2 : s1.relayers = s.relayers := f2 (by simp)
      have g3 : ∀ x, lookup s1.bridges x = lookup s.bridges x := fun x => f3 x (by simp) (by simp)
      have gs : s1.sudo = s.sudo := congrArg SudoOwned.sudo g1
      have gi : s1.ibcSudo = s.ibcSudo := congrArg SudoOwned.ibcSudo g1
      split at h
      · cases h
      · rename_i hm
        have hm' : mutableOk s1 signer act = true := by simpa using hm
        obtain ⟨m1, m2, m3, m4⟩ := mutableOk_holder s1 signer act hm'
        have hall := actionEffects_holder s1 signer pos act
        cases hh : actHolder signer act with
        | none =>
          obtain ⟨a1, a2, a3⟩ := applyEffects_priv_frame .sudo _ s1 s'
            (fun e he => Or.inl (by have := hall e he; simpa [hh] using this)) h
          obtain ⟨b1, _, _⟩ := applyEffects_priv_frame .ibcSudo _ s1 s'
            (fun e he => Or.inl (by have := hall e he; simpa [hh] using this)) h
          refine ⟨fun hne => absurd ((b1 (by simp)).trans g1) hne,
                  fun hne => absurd ((a2 (by simp)).trans g2) hne, ?_⟩
          intro x hne
          exact absurd ((a3 x (by simp) (by simp)).trans (g3 x)) hne
        | some hd =>
          obtain ⟨a1, a2, a3⟩ := applyEffects_priv_frame hd _ s1 s'
            (fun e he => by have := hall e he; rw [hh] at this; exact this) h
          refine ⟨?_, ?_, ?_⟩
          · intro hne
            by_cases hd1 : hd = .sudo
            · subst hd1; rw [← gs]; exact m1 hh
            · exact absurd ((a1 hd1).trans g1) hne
          · intro hne
            by_cases hd2 : hd = .ibcSudo
            · subst hd2; rw [← gi]; exact m2 hh
            · exact absurd ((a2 hd2).trans g2) hne
          · intro x hne
            by_cases hd3 : hd = .bridgeSudo x
            · subst hd3
              obtain ⟨br, hb, hs⟩ := m3 x hh
              left; exact ⟨br, by rw [← g3 x]; exact hb, hs⟩
            · by_cases hd4 : hd = .self x
              · subst hd4
                obtain ⟨hx, hn⟩ := m4 x hh
                right; exact ⟨hx, by rw [← g3 x]; exact hn⟩
              · exact absurd ((a3 x hd3 hd4).trans (g3 x)) hne

/-- **C02, frame direction, any sequence of actions of one signer** (a transaction's action list,
    or the concatenation of several).  By induction with the "first change" argument: up to the
    first action that changes a component, the holder of that component is still the one of the
    initial state.  For the relayer set the IBC sudo address may itself have been re-assigned
    earlier in the sequence — by the sudo address, which then is the signer. -/
theorem execActions_priv_change (acts : List Action) (s s' : State) (signer : String) (pos : Nat)
    (h : execActions s signer pos acts = some s') :
    (sudoOwned s' ≠ sudoOwned s → s.sudo = signer) ∧
    (s'.relayers ≠ s.relayers → s.ibcSudo = signer ∨ s.sudo = signer) ∧
    (∀ x, lookup s'.bridges x ≠ lookup s.bridges x →
      (∃ br, lookup s.bridges x = some br ∧ br.sudo = signer) ∨
      (x = signer ∧ lookup s.bridges x = none)) := by
  induction acts generalizing s pos with
  | nil => simp [execActions] at h; subst h; exact ⟨fun h => absurd rfl h, fun h => absurd rfl h, fun _ h => absurd rfl h⟩
  | cons a rest ih =>
    simp only [execActions] at h
    cases h1 : execAction s signer pos a with
    | none => simp [h1] at h
    | some s1 =>
      simp only [h1] at h
      obtain ⟨a1, a2, a3⟩ := execAction_priv_change s s1 signer pos a h1
      obtain ⟨b1, b2, b3⟩ := ih s1 (pos + 1) h
      refine ⟨?_, ?_, ?_⟩
      · intro hne
        by_cases hc : sudoOwned s1 = sudoOwned s
        · have := b1 (by rw [hc]; exact hne)
          rw [← this]; exact (congrArg SudoOwned.sudo hc).symm
        · exact a1 hc
      · intro hne
        by_cases hc : sudoOwned s1 = sudoOwned s
        · by_cases hr : s1.relayers = s.relayers
          · rcases b2 (by rw [hr]; exact hne) with q | q
            · left; rw [← q]; exact (congrArg SudoOwned.ibcSudo hc).symm
            · right; rw [← q]; exact (congrArg SudoOwned.sudo hc).symm
          · left; exact a2 hr
        · right; exact a1 hc
      · intro x hne
        by_cases hc : lookup s1.bridges x = lookup s.bridges x
        · rw [← hc]; exact b3 x (by rw [hc]; exact hne)
        · exact a3 x hc

/-- **C02, frame direction, one transaction** (`App::execute_transaction`). -/
theorem execTx_priv_change (s s' : State) (tx : Tx) (h : execTx s tx = .ok s') :
    (sudoOwned s' ≠ sudoOwned s → s.sudo = tx.signer) ∧
    (s'.relayers ≠ s.relayers → s.ibcSudo = tx.signer ∨ s.sudo = tx.signer) ∧
    (∀ x, lookup s'.bridges x ≠ lookup s.bridges x →
      (∃ br, lookup s.bridges x = some br ∧ br.sudo = tx.signer) ∨
      (x = tx.signer ∧ lookup s.bridges x = none)) := by
  unfold execTx at h
  simp only at h
  split at h
  · cases h
  · split at h
    · cases h
    · split at h
      · cases h
      · rename_i s2 hex
        injection h with h; subst h
        have := execActions_priv_change tx.actions _ _ tx.signer 0 hex
        exact this

/-- Effects that exercise no privilege change no privileged state. -/
theorem applyEffects_nopriv (fx : List Effect) (s s' : State)
    (hall : ∀ e ∈ fx, effHolder e = none) (h : applyEffects s fx = some s') :
    sudoOwned s' = sudoOwned s ∧ s'.relayers = s.relayers ∧
    ∀ x, lookup s'.bridges x = lookup s.bridges x := by
  obtain ⟨f1, _, f3⟩ := applyEffects_priv_frame .ibcSudo fx s s' (fun e he => Or.inl (hall e he)) h
  obtain ⟨_, f2, _⟩ := applyEffects_priv_frame .sudo fx s s' (fun e he => Or.inl (hall e he)) h
  exact ⟨f1 (by simp), f2 (by simp), fun x => f3 x (by simp) (by simp)⟩

theorem recvPlan_holder (s : State) (p : RecvPacket) (fx : List Effect)
    (hp : recvPlan s p = some fx) : ∀ e ∈ fx, effHolder e = none := by
  unfold recvPlan at hp
  cases hr : p.receiver with
  | none => simp [hr] at hp
  | some rcpt =>
    simp only [hr] at hp
    split at hp
    · cases hp
    · cases hd : recvDeposit s rcpt (recvAsset p) p with
      | none => simp [hd] at hp
      | some depFx =>
        simp only [hd] at hp
        injection hp with hp; subst hp
        intro e he
        simp only [List.mem_append] at he
        rcases he with he | he
        · unfold recvDeposit at hd
          split at hd
          · injection hd with hd; subst hd; simp at he
          · split at hd
            · cases hd
            · split at hd
              · cases hd
              · split at hd
                · cases hd
                · injection hd with hd; subst hd
                  simp at he; subst he; rfl
        · unfold recvMoves at he
          simp only [List.mem_append, List.mem_singleton] at he
          rcases he with he | he
          · split at he <;> simp at he <;> subst he <;> rfl
          · subst he; rfl

theorem refundPlan_holder (s : State) (p : RefundPacket) (fx : List Effect)
    (hp : refundPlan s p = some fx) : ∀ e ∈ fx, effHolder e = none := by
  unfold refundPlan at hp
  cases hs : p.sender with
  | none => simp [hs] at hp
  | some rcpt =>
    simp only [hs] at hp
    cases hd : refundDeposit s rcpt p with
    | none => simp [hd] at hp
    | some depFx =>
      simp only [hd] at hp
      injection hp with hp; subst hp
      intro e he
      simp only [List.mem_append] at he
      rcases he with he | he
      · unfold refundDeposit at hd
        split at hd
        · split at hd
          · cases hd
          · split at hd
            · cases hd
            · injection hd with hd; subst hd
              simp at he; subst he; rfl
        · injection hd with hd; subst hd; simp at he
      · unfold refundMoves at he
        simp only [List.mem_append, List.mem_singleton] at he
        rcases he with he | he
        · split at he <;> simp at he <;> subst he <;> rfl
        · subst he; rfl

/-- ICS20 packet handlers (receive; timeout and error acknowledgement) change no privileged
    state, whatever the packet says. -/
theorem recvPacket_priv_frame (s : State) (p : RecvPacket) :
    sudoOwned (recvPacket s p).2 = sudoOwned s ∧ (recvPacket s p).2.relayers = s.relayers ∧
    ∀ x, lookup (recvPacket s p).2.bridges x = lookup s.bridges x := by
  unfold recvPacket
  cases hp : recvPlan s p with
  | none => exact ⟨rfl, rfl, fun _ => rfl⟩
  | some fx =>
    simp only
    cases h : applyEffects s fx with
    | none => exact ⟨rfl, rfl, fun _ => rfl⟩
    | some s' => simpa using applyEffects_nopriv fx s s' (recvPlan_holder s p fx hp) h

theorem refundPacket_priv_frame (s s' : State) (p : RefundPacket) (h : refundPacket s p = .ok s') :
    sudoOwned s' = sudoOwned s ∧ s'.relayers = s.relayers ∧
    ∀ x, lookup s'.bridges x = lookup s.bridges x := by
  unfold refundPacket at h
  cases hp : refundPlan s p with
  | none => simp [hp] at h
  | some fx =>
    simp only [hp] at h
    cases ha : applyEffects s fx with
    | none => simp [ha] at h
    | some s2 =>
      simp only [ha] at h
      injection h with h; subst h
      exact applyEffects_nopriv fx s s2 (refundPlan_holder s p fx hp) ha

/-! ## every step of a history -/

theorem payFees_nopriv (fees : List (String × Nat)) (s s' : State) (h : payFees s fees = some s') :
    sudoOwned s' = sudoOwned s ∧ s'.relayers = s.relayers ∧
    ∀ x, lookup s'.bridges x = lookup s.bridges x := by
  induction fees generalizing s with
  | nil => simp [payFees] at h; subst h; exact ⟨rfl, rfl, fun _ => rfl⟩
  | cons e rest ih =>
    obtain ⟨fa, n⟩ := e
    simp only [payFees] at h
    cases h1 : applyEffect s (.credit s.sudo fa n) with
    | none => simp [h1] at h
    | some s1 =>
      simp only [h1] at h
      obtain ⟨a1, a2, a3⟩ := applyEffect_priv_frame s s1 _ h1
      obtain ⟨b1, b2, b3⟩ := ih s1 h
      exact ⟨b1.trans (a1 (by simp [effHolder])), b2.trans (a2 (by simp [effHolder])),
        fun x => (b3 x).trans (a3 x (by simp [effHolder]) (by simp [effHolder]))⟩

/-- What the sudo address owns apart from the validator set: the block end never touches it. -/
def sudoOwnedStatic (s : State) : String × String × List (Kind × FeeCfg) × List String ×
    List (String × Nat) × Nat × Nat × Option (List (String × Nat)) :=
  (s.sudo, s.ibcSudo, s.fees, s.feeAssets, s.pairs, s.numPairs, s.nextPairId, s.markets)

/-- Block end: authorities, fee schedule, fee assets, oracle state, relayers and bridge accounts
    are untouched; the only privileged state it changes is the validator set, and only by
    applying the updates that (sudo-signed, by `execTx_priv_change`) transactions of the block
    left pending. -/
theorem endBlock_priv_frame (s : State) :
    sudoOwnedStatic (endBlock s).2.2 = sudoOwnedStatic s ∧
    (endBlock s).2.2.relayers = s.relayers ∧
    (∀ x, lookup (endBlock s).2.2.bridges x = lookup s.bridges x) ∧
    ((endBlock s).1 = true → (endBlock s).2.2.valUpdates = [] ∧
      (endBlock s).2.2.vals = if s.postAspen then s.vals else applyValUpdates s.vals s.valUpdates) := by
  unfold endBlock
  simp only
  split
  · rename_i s3 hp
    obtain ⟨p1, p2, p3⟩ := payFees_nopriv _ _ s3 hp
    have q : sudoOwned s3 = sudoOwned { authorityEndBlock s with valUpdates := [] } := p1
    refine ⟨?_, ?_, ?_, fun _ => ⟨?_, ?_⟩⟩
    · have e1 := congrArg SudoOwned.sudo q
      have e2 := congrArg SudoOwned.ibcSudo q
      have e3 := congrArg SudoOwned.fees q
      have e4 := congrArg SudoOwned.feeAssets q
      have e5 := congrArg SudoOwned.pairs q
      have e6 := congrArg SudoOwned.numPairs q
      have e7 := congrArg SudoOwned.nextPairId q
      have e8 := congrArg SudoOwned.markets q
      simp only [sudoOwned] at e1 e2 e3 e4 e5 e6 e7 e8
      simp only [sudoOwnedStatic, e1, e2, e3, e4, e5, e6, e7, e8]
      unfold authorityEndBlock; split <;> rfl
    · simp only [p2]; unfold authorityEndBlock; split <;> rfl
    · intro x; simp only [p3 x]; unfold authorityEndBlock; split <;> rfl
    · have := congrArg SudoOwned.valUpdates q
      simpa [sudoOwned] using this
    · have := congrArg SudoOwned.vals q
      simp only [sudoOwned] at this
      simp only [this]
      unfold authorityEndBlock; split <;> simp_all
  · exact ⟨rfl, rfl, fun _ => rfl, fun h => by simp at h⟩

/-- **C02, frame direction, every step of every history** (`stepOp` of `Escrow.lean`:
    transactions taking effect or failing, packets, block ends).  If the step changes the entry
    of a bridge account, the relayer set, or anything the sudo address owns apart from the
    validator set, then the step is a transaction and its signer held that privilege in the
    state the step started on.  (The validator set additionally changes at block end, by the
    pending updates only: `endBlock_priv_frame`.) -/
theorem stepOp_priv_change (s : State) (op : Op) :
    (sudoOwnedStatic (stepOp s op) ≠ sudoOwnedStatic s → ∃ t, op = .tx t ∧ s.sudo = t.signer) ∧
    ((stepOp s op).relayers ≠ s.relayers →
      ∃ t, op = .tx t ∧ (s.ibcSudo = t.signer ∨ s.sudo = t.signer)) ∧
    (∀ x, lookup (stepOp s op).bridges x ≠ lookup s.bridges x →
      ∃ t, op = .tx t ∧ ((∃ br, lookup s.bridges x = some br ∧ br.sudo = t.signer) ∨
        (x = t.signer ∧ lookup s.bridges x = none))) := by
  have static_of : ∀ a b : State, sudoOwned a = sudoOwned b → sudoOwnedStatic a = sudoOwnedStatic b := by
    intro a b q
    have e1 := congrArg SudoOwned.sudo q
    have e2 := congrArg SudoOwned.ibcSudo q
    have e3 := congrArg SudoOwned.fees q
    have e4 := congrArg SudoOwned.feeAssets q
    have e5 := congrArg SudoOwned.pairs q
    have e6 := congrArg SudoOwned.numPairs q
    have e7 := congrArg SudoOwned.nextPairId q
    have e8 := congrArg SudoOwned.markets q
    simp only [sudoOwned] at e1 e2 e3 e4 e5 e6 e7 e8
    simp only [sudoOwnedStatic, e1, e2, e3, e4, e5, e6, e7, e8]
  cases op with
  | tx t =>
    simp only [stepOp, stepTx]
    cases h : execTx s t with
    | error e => exact ⟨fun h => absurd rfl h, fun h => absurd rfl h, fun _ h => absurd rfl h⟩
    | ok s' =>
      obtain ⟨c1, c2, c3⟩ := execTx_priv_change s s' t h
      refine ⟨fun hne => ⟨t, rfl, c1 (fun q => hne (static_of _ _ q))⟩,
              fun hne => ⟨t, rfl, c2 hne⟩, fun x hne => ⟨t, rfl, c3 x hne⟩⟩
  | recv p =>
    obtain ⟨c1, c2, c3⟩ := recvPacket_priv_frame s p
    exact ⟨fun hne => absurd (static_of _ _ c1) hne, fun hne => absurd c2 hne,
           fun x hne => absurd (c3 x) hne⟩
  | refund p =>
    simp only [stepOp]
    cases h : refundPacket s p with
    | error e => exact ⟨fun h => absurd rfl h, fun h => absurd rfl h, fun _ h => absurd rfl h⟩
    | ok s' =>
      obtain ⟨c1, c2, c3⟩ := refundPacket_priv_frame s s' p h
      exact ⟨fun hne => absurd (static_of _ _ c1) hne, fun hne => absurd c2 hne,
             fun x hne => absurd (c3 x) hne⟩
  | endBlock =>
    obtain ⟨c1, c2, c3, _⟩ := endBlock_priv_frame s
    exact ⟨fun hne => absurd c1 hne, fun hne => absurd c2 hne, fun x hne => absurd (c3 x) hne⟩

end Astria.Ledger
