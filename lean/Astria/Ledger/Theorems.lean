import Astria.Ledger.Model
/- Theorems for area `ledger` (stub). -/
namespace Astria.Ledger

end Astria.Ledger
