import Astria.Ledger.Conservation
/-
  Theorems about transactions, packet handlers and block end (C01, C03, C18).
-/
namespace Astria.Ledger

/-! ## C01: conservation at the level of actions and transactions -/

/-- Amount of asset `a` an action mints (+) or burns (−): only an ICS20 withdrawal of an asset
    that carries the sending channel's prefix (a bridged-in asset going home) burns. -/
def mintBurn (a : String) : Action → Int
  | .ics20 amount denom chan _ _ _ _ _ => if hasLeading denom chan ∧ denom = a then -(amount : Int) else 0
  | _ => 0

theorem deltas_nil (a : String) : deltas a [] = 0 := rfl

theorem deltas_cons (a : String) (e : Effect) (fx : List Effect) :
    deltas a (e :: fx) = delta a e + deltas a fx := by
  simp [deltas]

theorem deltas_append (a : String) (fx gx : List Effect) :
    deltas a (fx ++ gx) = deltas a fx + deltas a gx := by
  simp [deltas, List.sum_append]

theorem feePlan_deltas (s : State) (k : Kind) (size : Nat) (fa signer : String) (pos : Nat)
    (fx : List Effect) (a : String) (h : feePlan s k size fa signer pos = some fx) :
    deltas a fx = 0 := by
  unfold feePlan at h
  split at h
  · cases h
  · split at h
    · cases h
    · split at h
      · cases h
      · injection h with h; subst h
        simp only [deltas_cons, deltas_nil, delta]
        split <;> omega

theorem delta_pair (x y as : String) (n : Nat) (a : String) :
    delta a (.debit x as n) + delta a (.credit y as n) = 0 := by
  simp only [delta]; split <;> omega

theorem deltas_map_addPair (a : String) (names : List String) :
    deltas a (names.map Effect.addPair) = 0 := by
  induction names with
  | nil => rfl
  | cons n rest ih => simp [deltas_cons, delta, ih]

theorem deltas_map_delPair (a : String) (names : List String) :
    deltas a (names.map Effect.delPair) = 0 := by
  induction names with
  | nil => rfl
  | cons n rest ih => simp [deltas_cons, delta, ih]

theorem actionEffects_deltas (s : State) (signer : String) (pos : Nat) (act : Action) (a : String) :
    deltas a (actionEffects s signer pos act) = mintBurn a act := by
  cases act with
  | transfer to asset amount fa =>
    have := delta_pair signer to asset amount a
    simp only [actionEffects, deltas_cons, deltas_nil, mintBurn]; omega
  | rollup len fa => simp [actionEffects, deltas_nil, mintBurn]
  | lock to asset amount fa dl =>
    have := delta_pair signer to asset amount a
    simp only [actionEffects, deltas_cons, deltas_nil, mintBurn]
    simp only [delta] at this ⊢; omega
  | unlock to bridge amount fa id blk =>
    have := delta_pair bridge to (bridgeAsset s bridge) amount a
    simp only [actionEffects, deltas_cons, deltas_nil, mintBurn]
    simp only [delta] at this ⊢; omega
  | bridgeTransfer to bridge amount fa id blk dl =>
    have := delta_pair bridge to (bridgeAsset s bridge) amount a
    simp only [actionEffects, deltas_cons, deltas_nil, mintBurn]
    simp only [delta] at this ⊢; omega
  | initBridge r asset fa su w => simp [actionEffects, deltas_cons, deltas_nil, delta, mintBurn]
  | bridgeSudo bridge ns nw fa dis =>
    simp only [actionEffects, mintBurn, deltas_append]
    cases ns <;> cases nw <;> by_cases hb : s.postBlackburn = true <;>
      simp [hb, deltas_cons, deltas_nil, delta]
  | sudoChange x => simp [actionEffects, deltas_cons, deltas_nil, delta, mintBurn]
  | ibcSudoChange x => simp [actionEffects, deltas_cons, deltas_nil, delta, mintBurn]
  | relayerAdd x => simp [actionEffects, deltas_cons, deltas_nil, delta, mintBurn]
  | relayerDel x => simp [actionEffects, deltas_cons, deltas_nil, delta, mintBurn]
  | feeChange k b m => simp [actionEffects, deltas_cons, deltas_nil, delta, mintBurn]
  | feeAssetAdd x => simp [actionEffects, deltas_cons, deltas_nil, delta, mintBurn]
  | feeAssetDel x => simp [actionEffects, deltas_cons, deltas_nil, delta, mintBurn]
  | valUpdate k p => simp [actionEffects, deltas_cons, deltas_nil, delta, mintBurn]
  | ics20 amount denom chan fa bridge id blk ret =>
    simp only [actionEffects, mintBurn, deltas_append]
    have h1 : deltas a (wdEffects bridge id blk) = 0 := by
      cases bridge <;> simp [wdEffects, deltas_cons, deltas_nil, delta]
    rw [h1]
    cases hh : hasLeading denom chan <;> by_cases ha : denom = a <;>
      simp [hh, ha, deltas_cons, deltas_nil, delta] <;> omega
  | ibcRelayBad => simp [actionEffects, mintBurn, deltas_cons, deltas_nil, delta]
  | pairsAdd names => simp [actionEffects, mintBurn, deltas_map_addPair]
  | pairsDel names => simp [actionEffects, mintBurn, deltas_map_delPair]
  | marketsChange kind ms => simp [actionEffects, mintBurn, deltas_cons, deltas_nil, delta]

/-- One action (fee payment + execution) changes the total of every asset by exactly what the
    action mints or burns; for every action other than an ICS20 withdrawal of a bridged-in
    asset that is zero. -/
theorem execAction_total (s s' : State) (signer : String) (pos : Nat) (act : Action) (a : String)
    (h : execAction s signer pos act = some s') :
    (total s' a : Int) = total s a + mintBurn a act := by
  unfold execAction at h
  -- fee effects
  cases hf : feeEffects s signer pos act with
  | none => simp [hf] at h
  | some fx =>
    simp only [hf] at h
    have hfx : deltas a fx = 0 := by
      unfold feeEffects at hf
      cases hi : feeInfo act with
      | none => simp [hi] at hf; subst hf; rfl
      | some t =>
        obtain ⟨k, size, fa⟩ := t
        simp only [hi] at hf
        exact feePlan_deltas s k size fa signer pos fx a hf
    cases h1 : applyEffects s fx with
    | none => simp [h1] at h
    | some s1 =>
      simp only [h1] at h
      split at h
      · cases h
      · have t1 := applyEffects_total fx s s1 a h1
        have t2 := applyEffects_total _ s1 s' a h
        rw [actionEffects_deltas] at t2
        omega

theorem execActions_total (acts : List Action) (s s' : State) (signer : String) (pos : Nat)
    (a : String) (h : execActions s signer pos acts = some s') :
    (total s' a : Int) = total s a + (acts.map (mintBurn a)).sum := by
  induction acts generalizing s pos with
  | nil => simp [execActions] at h; subst h; simp
  | cons act rest ih =>
    simp only [execActions] at h
    cases h1 : execAction s signer pos act with
    | none => simp [h1] at h
    | some s1 =>
      simp only [h1] at h
      have t1 := execAction_total s s1 signer pos act a h1
      have t2 := ih s1 (pos + 1) h
      simp only [List.map_cons, List.sum_cons]
      omega

/-- C01 for a transaction: balances + escrow + block fees of every asset change by exactly the
    amounts its ICS20 withdrawals burn — for all states, signers, nonces and action bundles. -/
theorem execTx_total (s s' : State) (tx : Tx) (a : String) (h : execTx s tx = .ok s') :
    (total s' a : Int) = total s a + (tx.actions.map (mintBurn a)).sum := by
  unfold execTx at h
  simp only at h
  split at h
  · cases h
  · split at h
    · cases h
    · cases h1 : execActions { s with nonce := setN s.nonce tx.signer (getN s.nonce tx.signer + 1) }
          tx.signer 0 tx.actions with
      | none => simp [h1] at h
      | some s1 =>
        simp only [h1] at h
        injection h with h; subst h
        have := execActions_total tx.actions _ s1 tx.signer 0 a h1
        simpa [total] using this

/-! ## C01: fees are exact, debited from the signer only -/

/-- The fee plan of an action: exactly `base + multiplier * size` of the schedule in force is
    added to the block fees and debited from the transaction signer — from nobody else — and
    the fee asset is an allowed one. -/
theorem feePlan_exact (s : State) (k : Kind) (size : Nat) (fa signer : String) (pos : Nat)
    (fx : List Effect) (h : feePlan s k size fa signer pos = some fx) :
    ∃ cfg, lookup s.fees k = some cfg ∧ fa ∈ s.feeAssets ∧ cfg.base + size * cfg.mult ≤ U128_MAX ∧
      fx = [.blockFee fa (cfg.base + size * cfg.mult) pos, .debit signer fa (cfg.base + size * cfg.mult)] := by
  unfold feePlan at h
  split at h
  · cases h
  · rename_i cfg hc
    split at h
    · cases h
    · rename_i hfa
      cases hfee : feeAmount cfg size with
      | none => simp [hfee] at h
      | some fee =>
        simp only [hfee] at h
        injection h with h
        unfold feeAmount at hfee
        split at hfee
        · rename_i hle
          injection hfee with hfee
          subst hfee
          exact ⟨cfg, hc, by simpa using hfa, hle, h.symm⟩
        · cases hfee

/-- The pinned `fee` charged `u128::MAX` where `base + multiplier * size` exceeds it
    (fixed by `fix:` commit e775163). -/
theorem feeAmountOriginal_counterexample :
    feeAmountOriginal ⟨U128_MAX, 1⟩ 1 = U128_MAX ∧ U128_MAX + 1 * 1 ≠ U128_MAX := by decide

/-! ## C01: block end routes the block's fees to the fee recipient -/

theorem payFees_spec (fees : List (String × Nat)) (s s' : State) (h : payFees s fees = some s') :
    s'.sudo = s.sudo ∧ s'.esc = s.esc ∧ s'.blockFees = s.blockFees ∧ s'.deposits = s.deposits ∧
    s'.valUpdates = s.valUpdates ∧ s'.vals = s.vals ∧ s'.valCount = s.valCount ∧ s'.nonce = s.nonce ∧
    (∀ a, getN s'.bal (s.sudo, a) = getN s.bal (s.sudo, a) + getN fees a) ∧
    (∀ a, totalA s'.bal a = totalA s.bal a + getN fees a) := by
  induction fees generalizing s with
  | nil => simp [payFees] at h; subst h; simp [getN]
  | cons e rest ih =>
    obtain ⟨fa, n⟩ := e
    simp only [payFees] at h
    cases h1 : applyEffect s (.credit s.sudo fa n) with
    | none => simp [h1] at h
    | some s1 =>
      simp only [h1] at h
      simp only [applyEffect] at h1
      split at h1
      · injection h1 with h1
        have hs1 : s1.sudo = s.sudo := by subst h1; rfl
        obtain ⟨i1, i2, i3, i4, i5, i6, i7, i8, i9, i10⟩ := ih s1 h
        subst h1
        refine ⟨by simpa using i1, by simpa using i2, by simpa using i3, by simpa using i4,
          by simpa using i5, by simpa using i6, by simpa using i7, by simpa using i8, ?_, ?_⟩
        · intro a
          have := i9 a
          simp only at this
          rw [this]
          simp only [getN]
          by_cases ha : fa = a
          · subst ha; rw [getN_setN_same]; simp; omega
          · have : (s.sudo, a) ≠ (s.sudo, fa) := by
              intro hh; injection hh with _ h2; exact ha h2.symm
            rw [getN_setN_other _ _ _ _ this]; simp [ha]
        · intro a
          have := i10 a
          simp only at this
          rw [this]
          simp only [getN]
          by_cases ha : fa = a
          · subst ha
            have := totalA_setN_same s.bal s.sudo fa (getN s.bal (s.sudo, fa) + n)
            simp; omega
          · have := totalA_setN_other s.bal s.sudo fa a (getN s.bal (s.sudo, fa) + n) (fun h => ha h.symm)
            simp [ha]; omega
      · cases h1

/-- C01 at block end: when `end_block` succeeds, every asset's accumulated block fees are
    credited to the fee recipient (the sudo address), the per-block accumulators are cleared,
    and the total of every asset is unchanged. -/
theorem authorityEndBlock_fields (s : State) :
    (authorityEndBlock s).bal = s.bal ∧ (authorityEndBlock s).esc = s.esc ∧
    (authorityEndBlock s).blockFees = s.blockFees ∧ (authorityEndBlock s).sudo = s.sudo ∧
    (authorityEndBlock s).nonce = s.nonce := by
  unfold authorityEndBlock; split <;> simp

theorem endBlock_routes (s s' : State) (ups : List (String × Nat)) (h : endBlock s = (true, ups, s')) :
    (∀ a, getN s'.bal (s.sudo, a) = getN s.bal (s.sudo, a) + getN s.blockFees a) ∧
    s'.blockFees = [] ∧ s'.deposits = [] ∧ (∀ a, total s' a = total s a) := by
  unfold endBlock at h
  simp only at h
  obtain ⟨f1, f2, f3, f4, _⟩ := authorityEndBlock_fields s
  split at h
  · rename_i s3 hp
    injection h with _ h
    injection h with _ h
    subst h
    obtain ⟨_, i2, _, _, _, _, _, _, i9, i10⟩ := payFees_spec _ _ s3 hp
    simp only [f1, f2, f3, f4] at i2 i9 i10
    refine ⟨fun a => i9 a, rfl, rfl, ?_⟩
    intro a
    have := i10 a
    simp only [total, getN, i2]
    omega
  · injection h with h; cases h

/-! ## C03: nonces -/

theorem applyEffect_nonce (s s' : State) (e : Effect) (h : applyEffect s e = some s') :
    s'.nonce = s.nonce := by
  cases e <;> simp only [applyEffect] at h
  all_goals first
    | (cases h; done)
    | (injection h with h; subst h; first | rfl | (unfold updBridge; split <;> rfl) | (split <;> rfl))
    | (split at h
       · injection h with h; subst h; rfl
       · cases h)
    | (split at h
       · injection h with h; subst h; rfl
       · split at h
         · injection h with h; subst h; rfl
         · split at h <;> (injection h with h; subst h; rfl))

theorem applyEffects_nonce (fx : List Effect) (s s' : State) (h : applyEffects s fx = some s') :
    s'.nonce = s.nonce := by
  induction fx generalizing s with
  | nil => simp [applyEffects] at h; subst h; rfl
  | cons e rest ih =>
    simp only [applyEffects] at h
    cases he : applyEffect s e with
    | none => simp [he] at h
    | some s1 =>
      simp only [he] at h
      rw [ih s1 h, applyEffect_nonce s s1 e he]

theorem execAction_nonce (s s' : State) (signer : String) (pos : Nat) (act : Action)
    (h : execAction s signer pos act = some s') : s'.nonce = s.nonce := by
  unfold execAction at h
  split at h
  · cases h
  · rename_i fx _
    split at h
    · cases h
    · rename_i s1 h1
      split at h
      · cases h
      · rw [applyEffects_nonce _ s1 s' h, applyEffects_nonce fx s s1 h1]

theorem execActions_nonce (acts : List Action) (s s' : State) (signer : String) (pos : Nat)
    (h : execActions s signer pos acts = some s') : s'.nonce = s.nonce := by
  induction acts generalizing s pos with
  | nil => simp [execActions] at h; subst h; rfl
  | cons act rest ih =>
    simp only [execActions] at h
    cases h1 : execAction s signer pos act with
    | none => simp [h1] at h
    | some s1 =>
      simp only [h1] at h
      rw [ih s1 (pos + 1) h, execAction_nonce s s1 signer pos act h1]

/-- C03: a transaction takes effect only at `nonce = account nonce`, raises exactly that
    account's nonce by exactly one and leaves every other nonce alone. -/
theorem execTx_nonce_gate (s s' : State) (tx : Tx) (h : execTx s tx = .ok s') :
    getN s.nonce tx.signer = tx.nonce ∧ getN s'.nonce tx.signer = tx.nonce + 1 ∧
    ∀ x, x ≠ tx.signer → getN s'.nonce x = getN s.nonce x := by
  unfold execTx at h
  simp only at h
  split at h
  · cases h
  · rename_i hn
    split at h
    · cases h
    · split at h
      · cases h
      · rename_i s1 h1
        injection h with h; subst h
        have hnonce := execActions_nonce tx.actions _ s1 tx.signer 0 h1
        have hn' : getN s.nonce tx.signer = tx.nonce := by simpa using hn
        refine ⟨hn', ?_, ?_⟩
        · rw [hnonce]; simp only; rw [getN_setN_same, hn']
        · intro x hx
          rw [hnonce]; simp only; rw [getN_setN_other _ _ _ _ hx]

/-- The state after attempting a transaction: a failed transaction leaves the state it found. -/
def stepTx (s : State) (tx : Tx) : State :=
  match execTx s tx with
  | .ok s' => s'
  | .error _ => s

/-- C03 (atomicity): a transaction that fails at any action leaves the state exactly as it was,
    including block fees, cached deposits, recorded events and validator updates. -/
theorem stepTx_error (s : State) (tx : Tx) (e : Err) (h : execTx s tx = .error e) : stepTx s tx = s := by
  simp [stepTx, h]

theorem stepTx_nonce_mono (s : State) (tx : Tx) (x : String) : getN s.nonce x ≤ getN (stepTx s tx).nonce x := by
  unfold stepTx
  cases h : execTx s tx with
  | error e => simp
  | ok s' =>
    simp only
    obtain ⟨h1, h2, h3⟩ := execTx_nonce_gate s s' tx h
    by_cases hx : x = tx.signer
    · subst hx; omega
    · rw [h3 x hx]; exact Nat.le_refl _

/-- Number of times `tx` executes successfully along a history of transactions. -/
def successes (tx : Tx) : State → List Tx → Nat
  | _, [] => 0
  | s, t :: rest =>
    (if t = tx ∧ (execTx s t).toBool then 1 else 0) + successes tx (stepTx s t) rest

theorem successes_zero_of_nonce_gt (tx : Tx) (hist : List Tx) (s : State)
    (h : getN s.nonce tx.signer > tx.nonce) : successes tx s hist = 0 := by
  induction hist generalizing s with
  | nil => rfl
  | cons t rest ih =>
    simp only [successes]
    have hmono := stepTx_nonce_mono s t tx.signer
    rw [ih (stepTx s t) (by omega)]
    by_cases ht : t = tx
    · subst ht
      cases he : execTx s t with
      | error e => simp [Except.toBool]
      | ok s' =>
        have := (execTx_nonce_gate s s' t he).1
        omega
    · simp [ht]

/-- C03 (no replay): along any history of transactions from any state, a given signed
    transaction takes effect at most once. -/
theorem no_replay (tx : Tx) (hist : List Tx) (s : State) : successes tx s hist ≤ 1 := by
  induction hist generalizing s with
  | nil => simp [successes]
  | cons t rest ih =>
    simp only [successes]
    by_cases ht : t = tx ∧ (execTx s t).toBool = true
    · obtain ⟨h1, h2⟩ := ht
      subst h1
      cases he : execTx s t with
      | error e => simp [he, Except.toBool] at h2
      | ok s' =>
        have hg := execTx_nonce_gate s s' t he
        have : stepTx s t = s' := by simp [stepTx, he]
        rw [this, successes_zero_of_nonce_gt t rest s' (by omega)]
        simp [he, Except.toBool]
    · have := ih (stepTx s t)
      simp only [ht, if_false]
      omega

/-! ## C18: IBC packets -/

/-- A received packet that is acknowledged with an error changes nothing at all. -/
theorem recvPacket_all_or_nothing (s : State) (p : RecvPacket) (h : (recvPacket s p).1 = false) :
    (recvPacket s p).2 = s := by
  unfold recvPacket at h ⊢
  split
  · rfl
  · rename_i fx hp
    simp only [hp] at h
    split
    · rfl
    · rename_i s' ha
      simp [ha] at h

/-- The pinned handler violated this (fixed by `fix:` commit 5215c1f): it ran the effect list of
    `receive_tokens` on the transaction's own delta, so the effects before the failing one
    survived the error acknowledgement.  For a bridge recipient the list starts with the
    deposit; with nothing in escrow the release fails and the deposit stays. -/
theorem recvPacketOriginal_counterexample :
    let s : State := { postAspen := true, postBlackburn := true, sudo := "s", ibcSudo := "i" }
    let d : Deposit := ⟨"b0", 1, "nria", 500, 11, 0⟩
    let r := applyEffectsPartial s [.deposit d, .escSub 0 "nria" 500, .credit "b0" "nria" 500]
    r.1 = false ∧ r.2.deposits.length = 1 := by
  decide

theorem recvDeposit_deltas (s : State) (rcpt asset : String) (p : RecvPacket) (fx : List Effect)
    (a : String) (h : recvDeposit s rcpt asset p = some fx) : deltas a fx = 0 := by
  unfold recvDeposit at h
  split at h
  · injection h with h; subst h; rfl
  · split at h
    · cases h
    · split at h
      · cases h
      · split at h
        · cases h
        · injection h with h; subst h; simp [deltas_cons, deltas_nil, delta]

theorem recvMoves_deltas (p : RecvPacket) (rcpt asset a : String) :
    deltas a (recvMoves p rcpt asset) =
      if hasLeading p.denom p.srcChan = false ∧ asset = a then (p.amount : Int) else 0 := by
  unfold recvMoves
  cases hl : hasLeading p.denom p.srcChan <;> by_cases ha : asset = a <;>
    simp [hl, ha, deltas_append, deltas_cons, deltas_nil, delta] <;> omega

/-- What a received packet mints: if acknowledged successfully, the full amount of a foreign
    asset (it gets the receiving channel's prefix), nothing for an asset coming home (it is
    released from escrow); if acknowledged with an error, nothing. -/
theorem recvPacket_total (s s' : State) (p : RecvPacket) (ok : Bool) (a : String)
    (h : recvPacket s p = (ok, s')) :
    (total s' a : Int) = total s a +
      (if ok = true ∧ hasLeading p.denom p.srcChan = false ∧ recvAsset p = a
       then (p.amount : Int) else 0) := by
  unfold recvPacket at h
  cases hp : recvPlan s p with
  | none => simp [hp] at h; obtain ⟨h1, h2⟩ := h; subst h1 h2; simp
  | some fx =>
    simp only [hp] at h
    cases ha : applyEffects s fx with
    | none => simp [ha] at h; obtain ⟨h1, h2⟩ := h; subst h1 h2; simp
    | some s1 =>
      simp only [ha] at h
      injection h with h1 h2
      subst h1 h2
      have ht := applyEffects_total fx s s1 a ha
      rw [ht]
      congr 1
      unfold recvPlan at hp
      cases hr : p.receiver with
      | none => simp [hr] at hp
      | some rcpt =>
        simp only [hr] at hp
        split at hp
        · cases hp
        · cases hd : recvDeposit s rcpt (recvAsset p) p with
          | none => simp [hd] at hp
          | some depFx =>
            simp only [hd] at hp
            injection hp with hp; subst hp
            rw [deltas_append, recvDeposit_deltas s rcpt _ p depFx a hd, recvMoves_deltas]
            simp

theorem refundMoves_deltas (p : RefundPacket) (rcpt a : String) :
    deltas a (refundMoves p rcpt) =
      if hasLeading p.denom p.srcChan = true ∧ p.denom = a then (p.amount : Int) else 0 := by
  unfold refundMoves
  cases hl : hasLeading p.denom p.srcChan <;> by_cases ha : p.denom = a <;>
    simp [hl, ha, deltas_append, deltas_cons, deltas_nil, delta] <;> omega

/-- What a refund (timeout / failed acknowledgement) mints: a bridged-in asset that was burnt
    when it was sent is minted back; a sequencer-origin asset is released from escrow. -/
theorem refundPacket_total (s s' : State) (p : RefundPacket) (a : String)
    (h : refundPacket s p = .ok s') :
    (total s' a : Int) = total s a +
      (if hasLeading p.denom p.srcChan = true ∧ p.denom = a then (p.amount : Int) else 0) := by
  unfold refundPacket at h
  cases hp : refundPlan s p with
  | none => simp [hp] at h
  | some fx =>
    simp only [hp] at h
    cases ha : applyEffects s fx with
    | none => simp [ha] at h
    | some s1 =>
      simp only [ha] at h
      injection h with h; subst h
      rw [applyEffects_total fx s s1 a ha]
      congr 1
      unfold refundPlan at hp
      cases hr : p.sender with
      | none => simp [hr] at hp
      | some rcpt =>
        simp only [hr] at hp
        cases hd : refundDeposit s rcpt p with
        | none => simp [hd] at hp
        | some depFx =>
          simp only [hd] at hp
          injection hp with hp; subst hp
          have hd0 : deltas a depFx = 0 := by
            unfold refundDeposit at hd
            split at hd
            · split at hd
              · cases hd
              · split at hd
                · cases hd
                · injection hd with hd; subst hd; simp [deltas_cons, deltas_nil, delta]
            · injection hd with hd; subst hd; rfl
          rw [deltas_append, hd0, refundMoves_deltas]
          simp

/-- An incoming transfer or refund can never release more than is escrowed: a successful
    `escSub` needs the amount to be present. -/
theorem escSub_bounded (s s' : State) (c : Nat) (a : String) (n : Nat)
    (h : applyEffect s (.escSub c a n) = some s') :
    n ≤ getN s.esc (c, a) ∧ getN s'.esc (c, a) = getN s.esc (c, a) - n := by
  simp only [applyEffect] at h
  split at h
  · rename_i hle
    injection h with h; subst h
    exact ⟨hle, by simp [getN_setN_same]⟩
  · cases h

end Astria.Ledger
